/-
  Number class shared by every model.

  The model is written once over `[Num α]` and instantiated twice:
    * `Rat`      — exact arithmetic; theorems are stated at this instance
    * `Float32`  — IEEE binary32 exactly as Rust's `f32`; the correspondence check runs at this instance
  No Mathlib import here (the driver must link as a plain executable).
-/

class Num (α : Type) extends Add α, Sub α, Mul α, Div α, Neg α, Zero α, One α, LT α, LE α where
  /-- Rust `f32::max`: if one operand is NaN the other is returned. -/
  fmax : α → α → α
  /-- Rust `f32::min`. -/
  fmin : α → α → α
  /-- Rust `f32 == f32` (IEEE: NaN ≠ NaN, +0 = −0). -/
  feq : α → α → Bool
  flt : α → α → Bool
  fle : α → α → Bool
  /-- Rust `f32::round`: half away from zero. -/
  round : α → α
  floor : α → α
  ceil : α → α
  abs : α → α
  ofNat : Nat → α
  /-- `f32::EPSILON` = 2^-23 -/
  eps : α
  isNaN : α → Bool
  isFinite : α → Bool

namespace Num
variable {α : Type} [Num α]

@[inline] def fgt (a b : α) : Bool := flt b a
@[inline] def fge (a b : α) : Bool := fle b a
@[inline] def fne (a b : α) : Bool := !feq a b
/-- Rust `f32::clamp`-free `maybe_clamp` building block: `x.min(max).max(min)`-style helpers are written out at use sites. -/
@[inline] def two : α := (1 : α) + 1

end Num

/-! ### Rat instance -/

namespace RatNum

def round (q : Rat) : Rat :=
  if q < 0 then (-(((-q) + 1/2).floor : Int) : Int) else ((q + 1/2).floor : Int)

def eps : Rat := 1 / 8388608

end RatNum

instance : Num Rat where
  fmax a b := if a ≤ b then b else a
  fmin a b := if a ≤ b then a else b
  feq a b := decide (a = b)
  flt a b := decide (a < b)
  fle a b := decide (a ≤ b)
  round := RatNum.round
  floor q := (q.floor : Int)
  ceil q := (q.ceil : Int)
  abs q := if q < 0 then -q else q
  ofNat n := (n : Rat)
  eps := RatNum.eps
  isNaN _ := false
  isFinite _ := true

/-! ### Float32 instance -/

namespace F32

@[inline] def fmax (a b : Float32) : Float32 :=
  if a.isNaN then b else if b.isNaN then a else if a < b then b else a

@[inline] def fmin (a b : Float32) : Float32 :=
  if a.isNaN then b else if b.isNaN then a else if b < a then b else a

def eps : Float32 := Float32.ofBits 0x34000000

end F32

instance : Num Float32 where
  zero := Float32.ofBits 0
  one := Float32.ofBits 0x3f800000
  fmax := F32.fmax
  fmin := F32.fmin
  feq a b := a == b
  flt a b := decide (a < b)
  fle a b := decide (a ≤ b)
  round := Float32.round
  floor := Float32.floor
  ceil := Float32.ceil
  abs := Float32.abs
  ofNat := Float32.ofNat
  eps := F32.eps
  isNaN := Float32.isNaN
  isFinite := Float32.isFinite
