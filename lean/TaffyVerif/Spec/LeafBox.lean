/-
  Declarative specification of the box of a tree that consists of one childless node (property C19).

  Written from the CSS box model, independently of the structure of leaf.rs / compute_root_layout (there is no
  `known_dimensions`, `node_size`, `SizingMode`, `RunMode`, two-stage root/leaf computation here):

    * edges: padding, border and margin percentages refer to the *width* of the available space when that is definite
      and are 0 otherwise; `auto` margins count as 0;
    * a vertical scrollbar (overflow-y: scroll) reserves a gutter in the horizontal axis and vice versa;
    * `size`, `min-size`, `max-size`: a length, or a percentage of the definite available space in that axis, else
      indefinite; under `box-sizing: content-box` padding + border are added;
    * aspect ratio: a declared size / min-size with exactly one definite axis determines the other axis;
    * width  = declared width, else (display: block and definite available width) available width − margins, else
               content width + padding + border + gutter;
      height = declared height, else content height + padding + border + gutter, with an aspect ratio never less than
               width / ratio;
      both clamped by min/max with min winning over max, and never below padding + border;
    * the content is measured once, with no known dimension, against the content-box space (`measureAvail`);
    * location (0,0); `display: none` generates no box: zero size, the measure function is not consulted.

  No Mathlib import: the driver evaluates this specification (at `Rat`) on the implementation's answers.
-/
import TaffyVerif.Model.Leaf

namespace Spec
open LeafModel (MeasureCall)

variable {α : Type} [Num α]

def definite : AvailableSpace α → Option α
  | .definite v => some v
  | _ => none

/-- a padding / border edge against an optional basis -/
def edge (basis : Option α) : LP α → α
  | .length v => v
  | .percent p => match basis with | some b => b * p | none => 0

/-- a margin edge; `auto` counts as 0 -/
def edgeA (basis : Option α) : LPA α → α
  | .length v => v
  | .percent p => match basis with | some b => b * p | none => 0
  | .auto => 0

def padding (s : Style α) (av : Size (AvailableSpace α)) : Rect α :=
  let b := definite av.width
  ⟨edge b s.padding.left, edge b s.padding.right, edge b s.padding.top, edge b s.padding.bottom⟩
def border (s : Style α) (av : Size (AvailableSpace α)) : Rect α :=
  let b := definite av.width
  ⟨edge b s.border.left, edge b s.border.right, edge b s.border.top, edge b s.border.bottom⟩
def margin (s : Style α) (av : Size (AvailableSpace α)) : Rect α :=
  let b := definite av.width
  ⟨edgeA b s.margin.left, edgeA b s.margin.right, edgeA b s.margin.top, edgeA b s.margin.bottom⟩

/-- padding + border per axis -/
def pb (s : Style α) (av : Size (AvailableSpace α)) : Size α :=
  let p := padding s av
  let b := border s av
  ⟨(p.left + b.left) + (p.right + b.right), (p.top + b.top) + (p.bottom + b.bottom)⟩

/-- padding per axis -/
def padSum (s : Style α) (av : Size (AvailableSpace α)) : Size α :=
  let p := padding s av
  ⟨p.left + p.right, p.top + p.bottom⟩

/-- margins per axis -/
def marginSum (s : Style α) (av : Size (AvailableSpace α)) : Size α :=
  let m := margin s av
  ⟨m.left + m.right, m.top + m.bottom⟩

/-- scrollbar gutter: a vertically scrolling box reserves horizontal space and vice versa -/
def gutter (s : Style α) : Size α :=
  ⟨if s.overflow.y = .scroll then s.scrollbarWidth else 0, if s.overflow.x = .scroll then s.scrollbarWidth else 0⟩

/-- what a declared length is enlarged by to become a border-box length -/
def boxAdj (s : Style α) (av : Size (AvailableSpace α)) : Size α :=
  match s.boxSizing with
  | .contentBox => pb s av
  | .borderBox => ⟨0, 0⟩

def lengthOf (basis : Option α) : Dimension α → Option α
  | .auto => none
  | .length v => some v
  | .percent p => basis.map (· * p)

/-- a declared `size`-like property as border-box lengths; with `transfer`, a single definite axis determines the
other through the aspect ratio -/
def declared (s : Style α) (av : Size (AvailableSpace α)) (d : Size (Dimension α)) (transfer : Bool) : Size (Option α) :=
  let w := lengthOf (definite av.width) d.width
  let h := lengthOf (definite av.height) d.height
  let adj := boxAdj s av
  match s.aspectRatio, transfer with
  | some r, true =>
    ⟨((w.or (h.map (· * r))).map (· + adj.width)), ((h.or (w.map (· / r))).map (· + adj.height))⟩
  | _, _ => ⟨w.map (· + adj.width), h.map (· + adj.height)⟩

def pref (s : Style α) (av : Size (AvailableSpace α)) : Size (Option α) := declared s av s.size true
def minS (s : Style α) (av : Size (AvailableSpace α)) : Size (Option α) := declared s av s.minSize true
def maxS (s : Style α) (av : Size (AvailableSpace α)) : Size (Option α) := declared s av s.maxSize false

/-- clamp with the minimum winning over the maximum -/
def clampMinWins (v : α) (mn mx : Option α) : α :=
  let v := match mx with | some m => Num.fmin v m | none => v
  match mn with | some m => Num.fmax v m | none => v

/-- never below padding + border -/
def floorAt (v p : α) : α := Num.fmax v p

/-- block-level boxes fill a definite available width -/
def stretchWidth (s : Style α) (av : Size (AvailableSpace α)) : Option α :=
  match s.display with
  | .block => (definite av.width).map (· - (marginSum s av).width)
  | _ => none

/-- The outer size that is settled before the content is measured.  A block-level root is sized by its formatting
context first (declared size clamped, a degenerate min ≥ max range, or the stretched width — never below padding +
border); other boxes only have their declared size. -/
def settledOuter (s : Style α) (av : Size (AvailableSpace α)) : Size (Option α) :=
  match s.display with
  | .block =>
    let one (p mn mx : Option α) (stretch : Option α) (pbA : α) : Option α :=
      let degenerate := match mn, mx with
        | some a, some b => if Num.fle b a then some a else none
        | _, _ => none
      ((degenerate.or (p.map fun v => clampMinWins v mn mx)).or stretch).map (floorAt · pbA)
    ⟨one (pref s av).width (minS s av).width (maxS s av).width (stretchWidth s av) (pb s av).width,
     one (pref s av).height (minS s av).height (maxS s av).height none (pb s av).height⟩
  | _ => pref s av

/-- one axis of the space offered to the content: the content box of the settled (else of the available) outer size -/
def measureAvailAxis (settled : Option α) (avail : AvailableSpace α) (marginA : α) (mn mx : Option α) (pbA gutA : α) :
    AvailableSpace α :=
  match settled.or ((definite avail).map (· - marginA)) with
  | some outer => .definite (clampMinWins outer mn mx - (pbA + gutA))
  | none => avail

/-- the available space the measure function is called with -/
def measureAvail (s : Style α) (av : Size (AvailableSpace α)) : Size (AvailableSpace α) :=
  ⟨measureAvailAxis (settledOuter s av).width av.width (marginSum s av).width (minS s av).width (maxS s av).width
     (pb s av).width (gutter s).width,
   measureAvailAxis (settledOuter s av).height av.height (marginSum s av).height (minS s av).height (maxS s av).height
     (pb s av).height (gutter s).height⟩

/-- the measure calls of one layout pass -/
def leafMeasureCalls (s : Style α) (av : Size (AvailableSpace α)) : List (MeasureCall α) :=
  match s.display with
  | .none => []
  | _ => [{ knownDimensions := ⟨none, none⟩, availableSpace := measureAvail s av }]

/-- measured content -/
def content (s : Style α) (m : Size (Option α) → Size (AvailableSpace α) → Size α) (av : Size (AvailableSpace α)) :
    Size α :=
  m ⟨none, none⟩ (measureAvail s av)

/-- width before the padding + border floor -/
def widthUnfloored (s : Style α) (m : Size (Option α) → Size (AvailableSpace α) → Size α)
    (av : Size (AvailableSpace α)) : α :=
  let cand := (((pref s av).width).or (stretchWidth s av)).getD ((content s m av).width + ((pb s av).width + (gutter s).width))
  clampMinWins cand (minS s av).width (maxS s av).width

def width (s : Style α) (m : Size (Option α) → Size (AvailableSpace α) → Size α) (av : Size (AvailableSpace α)) : α :=
  floorAt (widthUnfloored s m av) (pb s av).width

def height (s : Style α) (m : Size (Option α) → Size (AvailableSpace α) → Size α) (av : Size (AvailableSpace α)) : α :=
  let natural := (content s m av).height + ((pb s av).height + (gutter s).height)
  let auto := match s.aspectRatio with
    | some r => Num.fmax natural (width s m av / r)
    | none => natural
  let cand := ((pref s av).height).getD auto
  floorAt (clampMinWins cand (minS s av).height (maxS s av).height) (pb s av).height

/-- the specified layout of the single node -/
def leafBox (s : Style α) (m : Size (Option α) → Size (AvailableSpace α) → Size α) (av : Size (AvailableSpace α)) :
    Layout α :=
  match s.display with
  | .none =>
    { order := 0, location := ⟨0, 0⟩, size := ⟨0, 0⟩, contentSize := ⟨0, 0⟩, scrollbarSize := gutter s,
      border := border s av, padding := padding s av, margin := margin s av }
  | _ =>
    let c := content s m av
    { order := 0, location := ⟨0, 0⟩, size := ⟨width s m av, height s m av⟩,
      contentSize := ⟨c.width + (padSum s av).width, c.height + (padSum s av).height⟩,
      scrollbarSize := gutter s, border := border s av, padding := padding s av, margin := margin s av }

/-! ### the corners in which leaf.rs / compute_root_layout are known not to follow this specification -/

/-- hypotheses of `C19.leaf_root_spec`, as a decidable check; `none` = all hold -/
def excluded (s : Style α) (m : Size (Option α) → Size (AvailableSpace α) → Size α) (av : Size (AvailableSpace α)) :
    Option String :=
  if s.display == .none then none
  else if Num.flt (pb s av).height 0 then some "negative-padding-border"
  else match s.aspectRatio with
    | none => none
    | some _ =>
      if s.display == .block &&
          ((lengthOf (definite av.width) s.maxSize.width).isSome != (lengthOf (definite av.height) s.maxSize.height).isSome)
        then some "c19-root-max-transfer"
      else if (pref s av).height.isNone && Num.flt (widthUnfloored s m av) (pb s av).width
        then some "c19-ratio-unfloored-width"
      else none

end Spec
