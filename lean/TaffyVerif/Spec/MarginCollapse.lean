/-
  Vertical margin collapsing in block layout — an executable specification written from the text of
  CSS 2.1 §8.3.1 ("Collapsing margins"), §9.4.1 (block formatting contexts) and §10.3.3 (widths of block-level,
  non-replaced elements in normal flow).  It does NOT follow src/compute/block.rs or Model/Block.lean: there is no
  running `CollapsibleMarginSet`, no "committed offset", no `LayoutOutput`; a box's adjoining margins are *lists of
  numbers* computed by recursion over the box tree, and the value of a collapsed margin is computed from the list.

  Scope (the family of harness/src/c10tree.rs; the driver rejects anything else as `out-of-family`):
    · every box is a block container (`display:block`) whose children are block-level boxes, or a childless block box
      with replaced-like content of a fixed size ("line boxes" of height `content`; 0 = contains no line box);
      the root of the document may also be a flex/grid container (`Kind.other`) with the block tree as its only item;
    · `position: relative` with `inset: auto`, or `position: absolute` (out of flow); `display: none` (no box);
    · `overflow: visible`, no floats, no clearance, no aspect ratio, `box-sizing: border-box`,
      margins / paddings / borders in px (no `auto`, no percentages), `max-width/height: none`, `min-width: auto`;
    · `width`, `height`: `auto` or a length; `min-height` a length (0 = initial value).

  Text → definitions:
    "Two margins are adjoining iff both belong to in-flow block-level boxes that participate in the same block
     formatting context; no line boxes, no clearance, no padding and no border separate them; both belong to
     vertically-adjacent box edges, i.e. form one of the pairs
       (1) top margin of a box and top margin of its first in-flow child                         → `topOpen`, `leading`
       (2) bottom margin of a box and top margin of its next in-flow following sibling           → `flow` (pending ++ topSet)
       (3) bottom margin of a last in-flow child and bottom margin of its parent if the parent
           has 'auto' computed height                                                            → `bottomOpen`, `trailing`
       (4) top and bottom margins of a box that does not establish a new block formatting context
           and that has zero computed 'min-height', zero or 'auto' computed 'height', and no
           in-flow children"                                                                     → `collapsesThrough`
    "A collapsed margin is considered adjoining to another margin if any of its component margins is adjoining to
     that margin."  (transitivity: `leading` / `trailing` walk through boxes whose own margins collapse)
    "When two or more margins collapse, the resulting margin width is the maximum of the collapsing margins' widths.
     In the case of negative margins, the maximum of the absolute values of the negative adjoining margins is deducted
     from the maximum of the positive adjoining margins. If there are no positive margins, the maximum of the absolute
     values of the adjoining margins is deducted from zero."                                     → `collapsed`
    "Margins of elements that establish new block formatting contexts (such as floats and elements with 'overflow'
     other than 'visible') do not collapse with their in-flow children."; "Margins of the root element's box do not
     collapse"; absolutely positioned boxes, flex items and grid items establish new formatting contexts
                                                                                                  → the `bfc` argument
    "If the top and bottom margins of a box are adjoining, then it is possible for margins to collapse through it. …
     If the element's margins are collapsed with its parent's top margin, the top border edge of the box is defined to
     be the same as the parent's.  Otherwise … the position of the element's top border edge is the same as it would
     have been if the element had a non-zero bottom border."                                     → clause `throughPos`

  Two places where the text is not unequivocal are kept OUT of the family (see harness/src/c10tree.rs):
    (A) pair (3) asks only for an 'auto' height while the informative list below it asks in addition for "a
        'min-height' of zero": a box with in-flow children never has a non-zero `min-height` in the family;
    (B) pair (4) asks for "no in-flow children" while the informative list lets a box with `height: 0` collapse when
        "all of its in-flow children's margins (if any) collapse", although its last child's bottom margin does not
        adjoin its own bottom margin (pair (3) needs 'auto'): a box with `height: 0` whose in-flow children all
        collapse through is never generated.  (`collapsesThrough` below follows the informative list.)
  A measured content of height 0 is read as "contains no line box".

  Mathlib-free, executable; `Rat` from core.
-/

namespace MarginCollapse

inductive Kind where
  /-- block container; its children are block-level boxes in normal flow (or it is childless) -/
  | block
  /-- flex / grid container: lays out its children by other rules, never collapses margins -/
  | other
deriving Repr, DecidableEq, Inhabited

/-- computed style of a box (px) and the border box the implementation gave it (relative to the parent's border box) -/
structure Box where
  kind : Kind := .block
  /-- `display: none` -/
  hidden : Bool := false
  /-- `position: absolute` -/
  absolute : Bool := false
  marginTop : Rat := 0
  marginBottom : Rat := 0
  marginLeft : Rat := 0
  marginRight : Rat := 0
  paddingTop : Rat := 0
  paddingBottom : Rat := 0
  paddingLeft : Rat := 0
  paddingRight : Rat := 0
  borderTop : Rat := 0
  borderBottom : Rat := 0
  borderLeft : Rat := 0
  borderRight : Rat := 0
  /-- `none` = `auto` -/
  width : Option Rat := none
  /-- `none` = `auto` -/
  height : Option Rat := none
  minHeight : Rat := 0
  /-- height of the line boxes / replaced content directly inside the box (0 = none) -/
  content : Rat := 0
  -- used values computed by the implementation
  x : Rat := 0
  y : Rat := 0
  w : Rat := 0
  h : Rat := 0
deriving Repr, DecidableEq, Inhabited

inductive Tree where
  | node (box : Box) (kids : List Tree)
deriving Repr, Inhabited

namespace Tree
def box : Tree → Box | .node b _ => b
def kids : Tree → List Tree | .node _ k => k
end Tree

/-- the box is in normal flow: it generates a box and is not absolutely positioned -/
def Box.inFlow (b : Box) : Bool := !b.hidden && !b.absolute

/-- nothing separates the box's top margin from its first in-flow child's: no top padding, no top border -/
def Box.topOpen (b : Box) : Bool := b.kind == .block && b.paddingTop == 0 && b.borderTop == 0

/-- nothing separates the box's bottom margin from its last in-flow child's: no bottom padding, no bottom border, and
the computed height is `auto` (pair (3); for `min-height` see (A) above) -/
def Box.bottomOpen (b : Box) : Bool :=
  b.kind == .block && b.paddingBottom == 0 && b.borderBottom == 0 && b.height.isNone

/-- the part of "a box's own margins collapse" that concerns the box alone -/
def Box.ownMarginsMayMeet (b : Box) : Bool :=
  b.kind == .block && b.minHeight == 0 && b.paddingTop == 0 && b.paddingBottom == 0 && b.borderTop == 0 &&
  b.borderBottom == 0 && (b.height.isNone || b.height == some 0) && b.content == 0

mutual
/-- "A box's own margins collapse if the 'min-height' property is zero, and the box has neither top or bottom borders
nor top or bottom padding, it has a 'height' of either 0 or 'auto', and it does not contain a line box, and all of its
in-flow children's margins (if any) collapse."  (asked only of in-flow children of a block container, which in this
family never establish a new block formatting context) -/
def collapsesThrough : Tree → Bool
  | .node b kids => b.ownMarginsMayMeet && allThrough kids
/-- every in-flow box of the list has margins that collapse through it -/
def allThrough : List Tree → Bool
  | [] => true
  | c :: rest => (!c.box.inFlow || collapsesThrough c) && allThrough rest
end

mutual
/-- the margins adjoining the top margin of the box from inside and itself — "as if the box had a non-zero bottom
border", i.e. not counting its own bottom margin when the margins collapse through it -/
def topSet : Tree → List Rat
  | .node b kids => b.marginTop :: (if b.topOpen then leading kids else [])
/-- the margins adjoining the bottom margin of the box from inside and itself (as if it had a non-zero top border) -/
def bottomSet : Tree → List Rat
  | .node b kids => b.marginBottom :: (if b.bottomOpen then trailing kids else [])
/-- pair (1) and transitivity: the first in-flow child's top margins; if margins collapse through that child, its bottom
margins and, by pair (2), the next in-flow sibling's, and so on -/
def leading : List Tree → List Rat
  | [] => []
  | c :: rest =>
    if !c.box.inFlow then leading rest
    else if collapsesThrough c then topSet c ++ bottomSet c ++ leading rest
    else topSet c
/-- pair (3) and transitivity: the last in-flow child's bottom margins; if margins collapse through that child, its top
margins and, by pair (2), the previous in-flow sibling's bottom margins, and so on -/
def trailing : List Tree → List Rat
  | [] => []
  | c :: rest =>
    if !c.box.inFlow then trailing rest
    else if !allThrough rest then trailing rest          -- a later box separates `c` from the parent's bottom edge
    else if collapsesThrough c then topSet c ++ bottomSet c ++ trailing rest
    else bottomSet c ++ trailing rest
end

def maxOr0 (ms : List Rat) : Rat := ms.foldl (fun a m => if a < m then m else a) 0
def minOr0 (ms : List Rat) : Rat := ms.foldl (fun a m => if m < a then m else a) 0

/-- the width of the margin a set of adjoining margins collapses to: the largest positive one (0 if none) minus the
largest absolute value among the negative ones (0 if none) -/
def collapsed (ms : List Rat) : Rat := maxOr0 ms + minOr0 ms

inductive Clause where
  /-- the first in-flow child whose margins adjoin the container's top margin sits at the container's content edge;
  otherwise it is offset by the collapsed margin -/
  | firstChild
  /-- distance between the bottom border edge of an in-flow box and the top border edge of the next in-flow box through
  which margins do not collapse = the collapsed value of every margin adjoining in between -/
  | siblingGap
  /-- position of a box through which margins collapse (as if it had a non-zero bottom border) -/
  | throughPos
  /-- a box through which margins collapse is 0 high -/
  | throughHeight
  /-- §10.3.3: `margin-left + border-left + padding-left + width + padding-right + border-right + margin-right` = width of
  the containing block, for `width: auto` and no `auto` margins (when the result leaves room for the child's own padding
  and border) -/
  | stretch
deriving Repr, DecidableEq, Inhabited

def Clause.name : Clause → String
  | .firstChild => "first-child"
  | .siblingGap => "sibling-gap"
  | .throughPos => "through-pos"
  | .throughHeight => "through-height"
  | .stretch => "stretch"

def size : Tree → Nat
  | .node _ kids => 1 + sizes kids
where sizes : List Tree → Nat
  | [] => 0
  | c :: rest => size c + sizes rest

/-- Walk along the children of one block container `p`.
  `atTop`   : no box that keeps its margins apart has been met yet AND the container's own top margin adjoins its first
              child's (pair (1)) — the children's margins seen so far are part of the container's top margin;
  `solid`   : a box that keeps its margins apart has been met (distinguishes `siblingGap` from `firstChild`);
  `edge`    : bottom border edge of the last such box, or the container's top content edge;
  `pending` : the margins adjoining below `edge` so far;
  `idx`     : preorder index of the head of the list.
Returns the violated clauses with the preorder index of the child at fault. -/
def flow (p : Box) (atTop solid : Bool) (edge : Rat) (pending : List Rat) (idx : Nat) : List Tree → List (Clause × Nat)
  | [] => []
  | c :: rest =>
    let b := c.box
    if !b.inFlow then flow p atTop solid edge pending (idx + size c) rest else
    let wantW := p.w - p.paddingLeft - p.paddingRight - p.borderLeft - p.borderRight - b.marginLeft - b.marginRight
    let vStretch :=
      if b.width.isNone && b.paddingLeft + b.paddingRight + b.borderLeft + b.borderRight ≤ wantW && b.w != wantW then
        [(Clause.stretch, idx)] else []
    let wantY := if atTop then edge else edge + collapsed (pending ++ topSet c)
    if collapsesThrough c then
      vStretch ++ (if b.y != wantY then [(Clause.throughPos, idx)] else [])
        ++ (if b.h != 0 then [(Clause.throughHeight, idx)] else [])
        ++ flow p atTop solid edge (pending ++ topSet c ++ bottomSet c) (idx + size c) rest
    else
      vStretch ++ (if b.y != wantY then [(if solid then Clause.siblingGap else Clause.firstChild, idx)] else [])
        ++ flow p false true (b.y + b.h) (bottomSet c) (idx + size c) rest

mutual
/-- every violated clause in the tree, with preorder indices.  `bfc`: the box establishes a new block formatting context
(root, flex / grid item, absolutely positioned), so its own margins do not collapse with its children's. -/
def violations (bfc : Bool) (idx : Nat) : Tree → List (Clause × Nat)
  | .node b kids =>
    if b.hidden then [] else
    (if b.kind == .block then flow b (!bfc && b.topOpen) false (b.borderTop + b.paddingTop) [] (idx + 1) kids else [])
      ++ violationsKids (b.kind == .block) (idx + 1) kids
def violationsKids (parentIsBlock : Bool) (idx : Nat) : List Tree → List (Clause × Nat)
  | [] => []
  | c :: rest =>
    violations (!parentIsBlock || c.box.absolute) idx c ++ violationsKids parentIsBlock (idx + size c) rest
end

/-- **The tree-level form of C10** on the layouts carried by the tree (the root is a formatting-context root). -/
def TreeOK (t : Tree) : Prop := violations true 0 t = []

instance (t : Tree) : Decidable (TreeOK t) := inferInstanceAs (Decidable (_ = _))

end MarginCollapse
