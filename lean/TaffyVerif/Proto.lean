/-
  Line-protocol helpers shared by the driver handlers (no Mathlib).
  Every f32 travels as its 8-hex-digit bit pattern; `-` stands for `None`.
-/
import TaffyVerif.Num

namespace Proto

def hexDigit (c : Char) : Option Nat :=
  if '0' ≤ c ∧ c ≤ '9' then some (c.toNat - '0'.toNat)
  else if 'a' ≤ c ∧ c ≤ 'f' then some (c.toNat - 'a'.toNat + 10)
  else if 'A' ≤ c ∧ c ≤ 'F' then some (c.toNat - 'A'.toNat + 10)
  else none

def hexToNat (s : String) : Option Nat :=
  if s.isEmpty then none else
  s.toList.foldl (fun acc c => match acc, hexDigit c with
    | some a, some d => some (a * 16 + d)
    | _, _ => none) (some 0)

def natToHex (n : Nat) (digits : Nat) : String :=
  let rec go (n : Nat) (k : Nat) (acc : List Char) : List Char :=
    match k with
    | 0 => acc
    | k+1 =>
      let d := n % 16
      let c := if d < 10 then Char.ofNat ('0'.toNat + d) else Char.ofNat ('a'.toNat + d - 10)
      go (n / 16) k (c :: acc)
  String.ofList (go n digits [])

def parseF32 (s : String) : Option Float32 :=
  (hexToNat s).map fun n => Float32.ofBits n.toUInt32

/-- canonical printing: every NaN prints as `7fc00000`; −0.0 is kept (handlers canonicalise when the property allows) -/
def showF32 (x : Float32) : String :=
  if x.isNaN then "7fc00000" else natToHex x.toBits.toNat 8

/-- print with −0.0 mapped to +0.0 -/
def showF32z (x : Float32) : String :=
  if x.isNaN then "7fc00000" else
  let b := x.toBits.toNat
  natToHex (if b = 0x80000000 then 0 else b) 8

def parseOptF32 (s : String) : Option (Option Float32) :=
  if s = "-" then some none else (parseF32 s).map some

def showOptF32 : Option Float32 → String
  | none => "-"
  | some x => showF32 x

def showOptF32z : Option Float32 → String
  | none => "-"
  | some x => showF32z x

/-- exact rational value of a finite f32 bit pattern -/
def f32BitsToRat (n : Nat) : Option Rat :=
  let sign : Nat := n / 2^31
  let e : Nat := (n / 2^23) % 256
  let m : Nat := n % 2^23
  if e = 255 then none else
  let mant : Nat := 2^23 + m
  let mag : Rat :=
    if e = 0 then (m : Rat) / ((2^149 : Nat) : Rat)
    else if e ≥ 150 then ((mant * 2^(e - 150) : Nat) : Rat)
    else (mant : Rat) / ((2^(150 - e) : Nat) : Rat)
  some (if sign = 1 then -mag else mag)

def parseRat (s : String) : Option Rat := (hexToNat s).bind f32BitsToRat

def words (line : String) : List String :=
  (line.trimAscii.toString.splitOn " ").filter (· ≠ "")

def parseInt (s : String) : Option Int := s.toInt?
def parseNat (s : String) : Option Nat := s.toNat?

def showBool (b : Bool) : String := if b then "1" else "0"
def parseBool (s : String) : Option Bool :=
  if s = "1" then some true else if s = "0" then some false else none

end Proto
