/-
  C04 for grid, part 5: `align_tracks`, step 1 (`mkCtx`), the container size, re-resolution of percentage tracks, and
  the pure functions of `GridItem` (Model/GridItem.lean).
-/
import TaffyVerif.Lemmas.GridScalePure2

set_option linter.unusedSectionVars false
set_option linter.unusedVariables false
set_option linter.unusedSimpArgs false
set_option linter.auxLemma false

namespace C04
open Scalable GridModel GridTracks GridStages

variable {k : Rat}

/-! ### `align_tracks` -/

theorem applyAlignmentFallback_gscale (hk : 0 < k) (fs : Rat) (n : Nat) (mode : AlignContent) (safe : Bool) :
    GridTracks.applyAlignmentFallback (scale k fs) n mode safe = GridTracks.applyAlignmentFallback fs n mode safe := by
  unfold GridTracks.applyAlignmentFallback
  simp only [fle_scale_zero hk]

theorem ofNat_div_scale (k : Rat) (a : Rat) (n : Nat) : scale k a / (Num.ofNat n : Rat) = scale k (a / Num.ofNat n) := by
  simp only [scale_rat]; ring

theorem two_div_scale (k a : Rat) : scale k a / (Num.two : Rat) = scale k (a / Num.two) := by
  simp only [scale_rat]; ring

theorem computeAlignmentOffset_gscale (hk : 0 < k) (fs : Rat) (n : Nat) (gap : Rat) (mode : AlignContent)
    (rev first : Bool) :
    GridTracks.computeAlignmentOffset (scale k fs) n (scale k gap) mode rev first =
      scale k (GridTracks.computeAlignmentOffset fs n gap mode rev first) := by
  unfold GridTracks.computeAlignmentOffset
  cases first
  · cases mode <;>
      simp only [Bool.false_eq_true, if_false, fmax_scale_zero hk, ofNat_div_scale, two_div_scale, add_scale, scale_zero,
        scale_add_zero]
  · cases mode <;> cases rev <;>
      simp only [if_true, Bool.false_eq_true, if_false, fge_scale_zero hk, ofNat_div_scale, two_div_scale, scale_zero,
        ite_scale]

theorem alignLoop_scale (hk : 0 < k) (fs : Rat) (n : Nat) (mode : AlignContent) :
    ∀ (tracks : List (GridTrack Rat)) (i : Nat) (total : Rat),
      alignLoop (scale k fs) n mode (scale k tracks) i (scale k total) = scale k (alignLoop fs n mode tracks i total)
  | [], _, _ => rfl
  | t :: rest, i, total => by
    show alignLoop (scale k fs) n mode (scale k t :: scale k rest) i (scale k total) = _
    unfold alignLoop
    have h0 := computeAlignmentOffset_gscale hk fs n 0 mode false (i == 1)
    rw [scale_zero] at h0
    have hoff : (if (i % 2 == 0) = true then (0 : Rat)
        else GridTracks.computeAlignmentOffset (scale k fs) n 0 mode false (i == 1)) =
        scale k (if (i % 2 == 0) = true then (0 : Rat)
          else GridTracks.computeAlignmentOffset fs n 0 mode false (i == 1)) := by
      split
      · rw [scale_zero]
      · exact h0
    simp only [hoff, gt_baseSize, add_scale, alignLoop_scale hk fs n mode rest]
    cases t
    simp only [scale_gt_mk, scale_cons]

theorem zipIdx_scale {β : Type} [Scalable β] (k : Rat) (l : List β) :
    (scale k l).zipIdx = l.zipIdx.map (fun p => (scale k p.1, p.2)) := by
  rw [scale_list, List.zipIdx_map]
  exact List.map_congr_left fun p _ => rfl

theorem alignTracks_scale (hk : 0 < k) (cb ps bs : Rat) (tracks : List (GridTrack Rat)) (style : AlignContent) :
    alignTracks (scale k cb) (scale k ps) (scale k bs) (scale k tracks) style =
      scale k (alignTracks cb ps bs tracks style) := by
  unfold alignTracks
  have hn : ((scale k tracks).zipIdx.filter fun (t, i) => i % 2 == 1 && !t.isCollapsed).length =
      (tracks.zipIdx.filter fun (t, i) => i % 2 == 1 && !t.isCollapsed).length := by
    rw [zipIdx_scale, List.filter_map, List.length_map]
    rfl
  rw [hn, map_scale_list k tracks (·.baseSize) (·.baseSize) (fun t => rfl), gsumF_scale]
  simp only [sub_scale, add_scale, applyAlignmentFallback_gscale hk, alignLoop_scale hk]

/-! ### step 1 -/

theorem gridResolveSize_scale (hk : 0 < k) (d : Size (Dimension Rat)) (ctx : Size (Option Rat)) (ar : Option Rat)
    (adj : Size Rat) :
    GItem.resolveSize (scale k d) (scale k ctx) ar (scale k adj) = scale k (GItem.resolveSize d ctx ar adj) := by
  unfold GItem.resolveSize
  simp only [scale_simp, hk]

theorem pick_scale (k : Rat) (o : Option Rat) (a : AvailableSpace Rat) :
    GridModel.mkCtx.match_1 (fun _ => AvailableSpace Rat) (scale k o) (fun v => AvailableSpace.definite v)
        (fun _ => scale k a) =
      scale k (GridModel.mkCtx.match_1 (fun _ => AvailableSpace Rat) o (fun v => AvailableSpace.definite v)
        (fun _ => a)) := by
  cases o <;> rfl

/-- the zero of `Num Rat` as the model's `0 : α` elaborates at `α = Rat` -/
local notation "z0" => (@OfNat.ofNat Rat (nat_lit 0) (@Zero.toOfNat0 Rat (@Num.toZero Rat instNumRat)))

theorem gutter_scale (k : Rat) (c : Prop) [Decidable c] (w : Rat) :
    (if c then scale k w else z0) = scale k (if c then w else z0) := by
  split
  · rfl
  · show (0 : Rat) = k * 0
    rw [mul_zero]

theorem rect_mk_scale (k : Rat) (a b c d : Rat) :
    (Rect.mk (scale k a) (scale k b) (scale k c) (scale k d) : Rect Rat) = scale k (Rect.mk a b c d) := rfl

theorem scale_ctx_mk (k : Rat) (a0 a1 : Rect Rat) (a2 : Size Rat) (a3 a4 a5 : Size (Option Rat)) (a6 : Point Rat)
    (a7 : Rect Rat) (a8 a9 : AlignContent) (a10 a11 : Option AlignItems) (a12 : Size (AvailableSpace Rat))
    (a13 a14 a15 : Size (Option Rat)) :
    scale k (Ctx.mk a0 a1 a2 a3 a4 a5 a6 a7 a8 a9 a10 a11 a12 a13 a14 a15) =
      ⟨scale k a0, scale k a1, scale k a2, scale k a3, scale k a4, scale k a5, scale k a6, scale k a7, a8, a9, a10, a11,
        scale k a12, scale k a13, scale k a14, scale k a15⟩ := rfl

theorem mkCtx_scale (hk : 0 < k) (s : Style Rat) (inp : LayoutInput Rat) :
    mkCtx (gscale k s) (scale k inp) = scale k (mkCtx s inp) := by
  unfold mkCtx
  dsimp only [gstyle_aspectRatio, gstyle_padding, gstyle_border, gstyle_boxSizing, gstyle_size,
    gstyle_minSize, gstyle_maxSize, gstyle_overflow, gstyle_scrollbarWidth, gstyle_alignContent,
    gstyle_justifyContent, gstyle_alignItems, gstyle_justifyItems, li_knownDimensions, li_parentSize,
    li_availableSpace, li_sizingMode]
  simp only [scale_ctx_mk, Ctx.mk.injEq]
  refine ⟨?_, ?_, ?_, ?_, ?_, ?_, ?_, ?_, ?_, ?_, ?_, ?_, ?_, ?_, ?_, ?_⟩
  all_goals
    simp only [gstyle_aspectRatio, gstyle_padding, gstyle_border, gstyle_boxSizing, gstyle_size,
      gstyle_minSize, gstyle_maxSize, gstyle_overflow, gstyle_scrollbarWidth, gstyle_alignContent,
      gstyle_justifyContent, gstyle_alignItems, gstyle_justifyItems, li_knownDimensions, li_parentSize,
      li_availableSpace, li_sizingMode, scale_size_width, scale_size_height, Resolve.rectLPOrZero_scale,
      Rect.add_scale, Rect.sumAxes_scale, ite_scale_sizeZero, gridResolveSize_scale hk, ite_scale_sizeNone,
      Size.orOpt_scale, gutter_scale, scale_rect_left, scale_rect_right, scale_rect_top, scale_rect_bottom,
      add_scale, scale_point_mk, rect_mk_scale, scale_size_mk, pick_scale, ao_clamp_scale hk, af_max_scale hk,
      af_sub_scale hk, Rect.horizontalAxisSum_scale, Rect.verticalAxisSum_scale, Size.oo_clamp_scale hk,
      Size.of_max_scale hk, Size.of_sub_scale hk]

end C04
