/-
  C15 / C01 — the four mutators of `EvalMemo.Edit` split into their structural part (no cache touched) and the
  `mark_dirty` call; `EvalMemo.stateModifyAt` (what `Edit.applyState` is made of) as "structural part, then clear the path".

    * `modifyAt_append`, `treeModifyAt_append`, `stateModifyAt_append`   modifications at `a ++ b`;
    * `stateModifyAt_clear`   `stateModifyAt ci (clearHere ∘ g) a = clearPath ci a ∘ modifyAt g a`;
    * `LocalMod`, `modify_raw`   a local modification `(f, g)` of (subtree, state) at the node at `d` that keeps the node's
                              cache, the shape and the well-formedness, and leaves clause (a) and — below the node — clause (b)
                              intact, performed at any path: (a) everywhere, (b) everywhere except at `d`;
    * `LM_style`, `LM_insert`, `LM_remove`, `LM_replaceChild`   the four mutators are such modifications;
    * `VisibleTo_modify`, `treeAt_modify`, `VisibleTo_prefix`, `treeAt_prefix`.
-/
import TaffyVerif.Lemmas.EvalDirtyEditHist

set_option autoImplicit false
set_option linter.unusedSectionVars false
set_option linter.unusedVariables false

namespace EvalDirtyEdit
open Eval EvalDirty DirtyPass C15Pass EvalMemo

variable {α : Type} [Num α] {C : Type}

theorem lt_of_getElem?_some {β : Type} (l : List β) (i : Nat) (x : β) (h : l[i]? = some x) : i < l.length := by
  rcases Nat.lt_or_ge i l.length with h' | h'
  · exact h'
  · rw [List.getElem?_eq_none_iff.2 h'] at h; cases h

/-! ### composition -/

theorem modifyAt_append (g : NS α C → NS α C) : ∀ (a b : List Nat) (ns : NS α C),
    modifyAt (modifyAt g b) a ns = modifyAt g (a ++ b) ns
  | [], b, ns => rfl
  | i :: a, b, .mk c l nk => by
    simp only [modifyAt, List.cons_append]
    cases hk : nk[i]? with
    | none => rfl
    | some k => simp only; rw [modifyAt_append g a b k]

theorem treeModifyAt_append (f : STree α → STree α) : ∀ (a b : List Nat) (t : STree α),
    treeModifyAt (treeModifyAt f b) a t = treeModifyAt f (a ++ b) t
  | [], b, t => rfl
  | i :: a, b, .node s c kids => by
    simp only [treeModifyAt, List.cons_append]
    cases hk : kids[i]? with
    | none => rfl
    | some k => simp only; rw [treeModifyAt_append f a b k]

theorem stateModifyAt_append (ci : CacheImpl α C) (g : NS α C → NS α C) : ∀ (a b : List Nat) (ns : NS α C),
    stateModifyAt ci (stateModifyAt ci g b) a ns = stateModifyAt ci g (a ++ b) ns
  | [], b, ns => rfl
  | i :: a, b, .mk c l nk => by
    simp only [stateModifyAt, List.cons_append]
    cases hk : nk[i]? with
    | none => rfl
    | some k => simp only; rw [stateModifyAt_append ci g a b k]

/-- **stateModifyAt_clear**: "apply `clearHere ∘ g` at `a`, clearing all proper ancestors" is "apply `g` at `a` touching no
cache, then clear the cache of the node at `a` and of every ancestor" -/
theorem stateModifyAt_clear (ci : CacheImpl α C) (g : NS α C → NS α C) : ∀ (a : List Nat) (ns : NS α C),
    stateModifyAt ci (fun k => clearHere ci (g k)) a ns = clearPath ci a (modifyAt g a ns)
  | [], ns => rfl
  | i :: a, .mk c l nk => by
    cases hk : nk[i]? with
    | none =>
      simp only [stateModifyAt, modifyAt, clearPath, hk]
    | some k =>
      have hl := lt_of_getElem?_some nk i k hk
      have e1 : modifyAt g (i :: a) (.mk c l nk) = .mk c l (nk.set i (modifyAt g a k)) := by
        simp only [modifyAt, hk]
      have e2 : clearPath ci (i :: a) (.mk c l (nk.set i (modifyAt g a k))) =
          .mk (ci.clear c) l ((nk.set i (modifyAt g a k)).set i (clearPath ci a (modifyAt g a k))) := by
        simp only [clearPath, stateModifyAt, List.getElem?_set_self hl]
      have e3 : stateModifyAt ci (fun k => clearHere ci (g k)) (i :: a) (.mk c l nk) =
          .mk (ci.clear c) l (nk.set i (stateModifyAt ci (fun k => clearHere ci (g k)) a k)) := by
        simp only [stateModifyAt, hk]
      rw [e1, e2, e3, List.set_set, stateModifyAt_clear ci g a k]

/-! ### paths and visibility -/

theorem VisibleTo_modify (f : STree α → STree α) : ∀ (d : List Nat) (t : STree α), C05.VisibleTo t d →
    C05.VisibleTo (treeModifyAt f d t) d
  | [], t, _ => by
    cases h : treeModifyAt f [] t
    simp only [C05.VisibleTo]
  | i :: d, .node s c kids, h => by
    simp only [C05.VisibleTo] at h
    cases hk : kids[i]? with
    | none =>
      have e : treeModifyAt f (i :: d) (.node s c kids) = .node s c kids := by simp only [treeModifyAt, hk]
      rw [e]
      simp only [C05.VisibleTo, hk, and_true]
      exact h.1
    | some tc =>
      rw [hk] at h
      have hl := lt_of_getElem?_some kids i tc hk
      have e : treeModifyAt f (i :: d) (.node s c kids) = .node s c (kids.set i (treeModifyAt f d tc)) := by
        simp only [treeModifyAt, hk]
      rw [e]
      simp only [C05.VisibleTo, List.getElem?_set_self hl]
      exact ⟨h.1, VisibleTo_modify f d tc h.2⟩

theorem treeAt_modify (f : STree α → STree α) : ∀ (d : List Nat) (t : STree α), (∃ t', treeAt t d = some t') →
    ∃ t'', treeAt (treeModifyAt f d t) d = some t''
  | [], t, _ => ⟨_, rfl⟩
  | i :: d, .node s c kids, ⟨t', h⟩ => by
    simp only [treeAt] at h
    cases hk : kids[i]? with
    | none => rw [hk] at h; cases h
    | some tc =>
      rw [hk] at h
      have hl := lt_of_getElem?_some kids i tc hk
      obtain ⟨t'', h''⟩ := treeAt_modify f d tc ⟨t', h⟩
      refine ⟨t'', ?_⟩
      simp only [treeModifyAt, hk, treeAt, List.getElem?_set_self hl]
      exact h''

theorem VisibleTo_prefix : ∀ (a b : List Nat) (t : STree α), C05.VisibleTo t (a ++ b) → C05.VisibleTo t a
  | [], b, t, _ => by cases t; simp only [C05.VisibleTo]
  | i :: a, b, .node s c kids, h => by
    simp only [List.cons_append, C05.VisibleTo] at h ⊢
    refine ⟨h.1, ?_⟩
    cases hk : kids[i]? with
    | none => trivial
    | some tc =>
      rw [hk] at h
      exact VisibleTo_prefix a b tc h.2

theorem treeAt_prefix : ∀ (a b : List Nat) (t : STree α), (∃ t', treeAt t (a ++ b) = some t') →
    ∃ t'', treeAt t a = some t''
  | [], b, t, _ => ⟨t, by cases t <;> rfl⟩
  | i :: a, b, .node s c kids, ⟨t', h⟩ => by
    simp only [List.cons_append, treeAt] at h ⊢
    cases hk : kids[i]? with
    | none => rw [hk] at h; cases h
    | some tc =>
      rw [hk] at h
      exact treeAt_prefix a b tc ⟨t', h⟩

/-! ### local modifications -/

section
variable {ci : CacheImpl α C} (ob : CacheObs ci)

/-- a modification `(f, g)` of (subtree, state of its root) that keeps the root's cache, the shape and the cache
invariant, keeps clause (a) and keeps clause (b) strictly below the root -/
structure LocalMod (f : STree α → STree α) (g : NS α C → NS α C) : Prop where
  shape : ∀ t k, C16.Shape t k → C16.Shape (f t) (g k)
  ok : ∀ k, OK ob k → OK ob (g k)
  cache : ∀ k, (g k).cache = k.cache
  ab : ∀ t k, C16.Shape t k → OK ob k → A (absFT ob t k) → B (absFT ob t k) →
    A (absFT ob (f t) (g k)) ∧ Bx [] (absFT ob (f t) (g k))

/-- **modify_raw**: a local modification performed at the node at `d`: shape and cache invariant kept; clause (a)
everywhere; clause (b) everywhere except at the node at `d`; the root keeps its cache -/
theorem modify_raw {f : STree α → STree α} {g : NS α C → NS α C} (L : LocalMod ob f g) :
    ∀ (d : List Nat) (t : STree α) (ns : NS α C), C16.Shape t ns → OK ob ns → A (absFT ob t ns) → B (absFT ob t ns) →
    C16.Shape (treeModifyAt f d t) (modifyAt g d ns) ∧ OK ob (modifyAt g d ns) ∧
    A (absFT ob (treeModifyAt f d t) (modifyAt g d ns)) ∧ Bx d (absFT ob (treeModifyAt f d t) (modifyAt g d ns)) ∧
    (modifyAt g d ns).cache = ns.cache
  | [], t, ns, hsh, hok, ha, hb => by
    simp only [treeModifyAt, modifyAt]
    obtain ⟨h1, h2⟩ := L.ab t ns hsh hok ha hb
    exact ⟨L.shape t ns hsh, L.ok ns hok, h1, h2, L.cache ns⟩
  | i :: d, .node s0 c0 kids, .mk c l nk, hsh, hok, ha, hb => by
    simp only [C16.Shape] at hsh
    simp only [OK] at hok
    cases htc : kids[i]? with
    | none =>
      have hk : nk[i]? = none := by
        cases hk : nk[i]? with
        | none => rfl
        | some k =>
          obtain ⟨tc, htc', _⟩ := ShapeList_get' kids nk i k hsh hk
          rw [htc] at htc'; cases htc'
      have e1 : treeModifyAt f (i :: d) (.node s0 c0 kids) = .node s0 c0 kids := by simp only [treeModifyAt, htc]
      have e2 : modifyAt g (i :: d) (.mk c l nk) = .mk c l nk := by simp only [modifyAt, hk]
      rw [e1, e2]
      exact ⟨by simp only [C16.Shape]; exact hsh, by simp only [OK]; exact hok, ha, Bx_of_B _ _ hb, rfl⟩
    | some tc =>
      obtain ⟨k, hk, hshc⟩ := C16.ShapeList_get kids nk i tc hsh htc
      have e1 : treeModifyAt f (i :: d) (.node s0 c0 kids) = .node s0 c0 (kids.set i (treeModifyAt f d tc)) := by
        simp only [treeModifyAt, htc]
      have e2 : modifyAt g (i :: d) (.mk c l nk) = .mk c l (nk.set i (modifyAt g d k)) := by
        simp only [modifyAt, hk]
      rw [e1, e2]
      simp only [absFT] at ha hb ⊢
      have ha' := (A_node _ _ _ _).1 ha
      have hb' := (B_node _ _ _ _).1 hb
      have hg := absList_get_some ob kids nk i tc k htc hk
      obtain ⟨j1, j2, i1, i2, i3⟩ := modify_raw L d tc k hshc (OKList_get ob nk i k hok.2 hk)
        (AList_get _ i _ ha'.2 hg) (BList_get _ i _ hb'.2 hg)
      rw [absList_set2 ob kids nk i _ _]
      refine ⟨?_, ?_, (A_node _ _ _ _).2 ⟨ha'.1, AList_set _ i _ ha'.2 i1⟩, ?_, rfl⟩
      · simp only [C16.Shape]; exact ShapeList_set2 kids nk i _ _ hsh j1
      · simp only [OK]; exact ⟨hok.1, OKList_set ob nk i _ hok.2 j2⟩
      · simp only [Bx]
        refine ⟨fun hf hh => ?_, BListEx_set_ex _ i _ _ hb'.2 i2⟩
        have hall := hb'.1 hf hh
        refine allFin_set _ i _ hall ?_
        rw [absFT_fin, i3, ← absFT_fin ob tc k]
        exact allFin_get _ i _ hall hg

/-! ### the four mutators -/

/-- `set_style` / `set_node_context`: the state is not touched at all -/
theorem LM_style (s : Style α) (ctx : Option (MeasureSpec α)) : LocalMod ob (setStyleOf s ctx) (fun k => k) where
  shape t k h := by cases t; cases k; simpa only [setStyleOf, C16.Shape] using h
  ok k h := h
  cache k := rfl
  ab t k hsh hok ha hb := by
    cases t with
    | node s0 c0 kids =>
      cases k with
      | mk c l nk =>
        simp only [absFT] at ha hb
        simp only [setStyleOf, absFT, Bx]
        exact ⟨(A_node _ _ _ _).2 ((A_node _ _ _ _).1 ha), ((B_node _ _ _ _).1 hb).2⟩

/-- replacing child `i` by a freshly built subtree -/
theorem LM_replaceChild (i : Nat) (sub : STree α) :
    LocalMod ob (treeModifyAt (fun _ => sub) [i]) (modifyAt (fun _ => NS.init ci sub) [i]) where
  shape t k h := Shape_replace sub [i] t k h
  ok k h := by
    cases k with
    | mk c l nk =>
      simp only [OK] at h
      simp only [modifyAt]
      cases hk : nk[i]? with
      | none => simp only [OK]; exact h
      | some k0 => simp only [OK]; exact ⟨h.1, OKList_set ob nk i _ h.2 (OK_init ob sub)⟩
  cache k := by cases k; rfl
  ab t k hsh hok ha hb := by
    have := abs_replace_ABx ob sub i [] t k hsh ha hb
    simp only [List.nil_append] at this
    exact ⟨this.1, this.2.1⟩

/-! #### inserting and removing a child -/

theorem ShapeList_insertAt (t' : STree α) (k' : NS α C) (hk : C16.Shape t' k') :
    ∀ (i : Nat) (kids : List (STree α)) (ks : List (NS α C)), C16.ShapeList kids ks →
      C16.ShapeList (insertAt t' i kids) (insertAt k' i ks)
  | 0, kids, ks, hv => by simp only [insertAt, C16.ShapeList]; exact ⟨hk, hv⟩
  | _ + 1, [], [], _ => by simp only [insertAt, C16.ShapeList]; exact ⟨hk, trivial⟩
  | _ + 1, _ :: _, [], hv => by simp [C16.ShapeList] at hv
  | _ + 1, [], _ :: _, hv => by simp [C16.ShapeList] at hv
  | i + 1, a :: as, b :: bs, hv => by
    simp only [C16.ShapeList] at hv
    simp only [insertAt, C16.ShapeList]
    exact ⟨hv.1, ShapeList_insertAt t' k' hk i as bs hv.2⟩

theorem ShapeList_eraseIdx : ∀ (i : Nat) (kids : List (STree α)) (ks : List (NS α C)), C16.ShapeList kids ks →
    C16.ShapeList (kids.eraseIdx i) (ks.eraseIdx i)
  | _, [], [], _ => by simp [C16.ShapeList]
  | _, _ :: _, [], hv => by simp [C16.ShapeList] at hv
  | _, [], _ :: _, hv => by simp [C16.ShapeList] at hv
  | 0, a :: as, b :: bs, hv => by
    simp only [C16.ShapeList] at hv
    simp only [List.eraseIdx_cons_zero]
    exact hv.2
  | i + 1, a :: as, b :: bs, hv => by
    simp only [C16.ShapeList] at hv
    simp only [List.eraseIdx_cons_succ, C16.ShapeList]
    exact ⟨hv.1, ShapeList_eraseIdx i as bs hv.2⟩

theorem OKList_insertAt (k' : NS α C) (hk : OK ob k') : ∀ (i : Nat) (ks : List (NS α C)), OKList ob ks →
    OKList ob (insertAt k' i ks)
  | 0, ks, hv => by simp only [insertAt, OKList]; exact ⟨hk, hv⟩
  | _ + 1, [], _ => by simp only [insertAt, OKList]; exact ⟨hk, trivial⟩
  | i + 1, b :: bs, hv => by
    simp only [OKList] at hv
    simp only [insertAt, OKList]
    exact ⟨hv.1, OKList_insertAt k' hk i bs hv.2⟩

theorem OKList_eraseIdx : ∀ (i : Nat) (ks : List (NS α C)), OKList ob ks → OKList ob (ks.eraseIdx i)
  | _, [], _ => by simp [OKList]
  | 0, b :: bs, hv => by simp only [List.eraseIdx_cons_zero]; exact hv.2
  | i + 1, b :: bs, hv => by
    simp only [OKList] at hv
    simp only [List.eraseIdx_cons_succ, OKList]
    exact ⟨hv.1, OKList_eraseIdx i bs hv.2⟩

theorem absList_insertAt (t' : STree α) (k' : NS α C) : ∀ (i : Nat) (kids : List (STree α)) (ks : List (NS α C)),
    C16.ShapeList kids ks →
    absList ob (insertAt t' i kids) (insertAt k' i ks) = insertAt (absFT ob t' k') i (absList ob kids ks)
  | 0, kids, ks, _ => by simp only [insertAt, absList]
  | _ + 1, [], [], _ => by simp only [insertAt, absList]
  | _ + 1, _ :: _, [], hv => by simp [C16.ShapeList] at hv
  | _ + 1, [], _ :: _, hv => by simp [C16.ShapeList] at hv
  | i + 1, a :: as, b :: bs, hv => by
    simp only [C16.ShapeList] at hv
    simp only [insertAt, absList]
    rw [absList_insertAt t' k' i as bs hv.2]

theorem absList_eraseIdx : ∀ (i : Nat) (kids : List (STree α)) (ks : List (NS α C)), C16.ShapeList kids ks →
    absList ob (kids.eraseIdx i) (ks.eraseIdx i) = (absList ob kids ks).eraseIdx i
  | _, [], [], _ => by simp [absList]
  | _, _ :: _, [], hv => by simp [C16.ShapeList] at hv
  | _, [], _ :: _, hv => by simp [C16.ShapeList] at hv
  | 0, a :: as, b :: bs, hv => by simp only [List.eraseIdx_cons_zero, absList]
  | i + 1, a :: as, b :: bs, hv => by
    simp only [C16.ShapeList] at hv
    simp only [List.eraseIdx_cons_succ, absList]
    rw [absList_eraseIdx i as bs hv.2]

end

theorem AList_insertAt (k' : FT) (hk : A k') : ∀ (i : Nat) (l : List FT), AList l → AList (insertAt k' i l)
  | 0, l, hv => ⟨hk, hv⟩
  | _ + 1, [], _ => ⟨hk, trivial⟩
  | i + 1, b :: bs, hv => ⟨hv.1, AList_insertAt k' hk i bs hv.2⟩

theorem BList_insertAt (k' : FT) (hk : B k') : ∀ (i : Nat) (l : List FT), BList l → BList (insertAt k' i l)
  | 0, l, hv => ⟨hk, hv⟩
  | _ + 1, [], _ => ⟨hk, trivial⟩
  | i + 1, b :: bs, hv => ⟨hv.1, BList_insertAt k' hk i bs hv.2⟩

theorem AList_eraseIdx : ∀ (i : Nat) (l : List FT), AList l → AList (l.eraseIdx i)
  | _, [], _ => by simp [AList]
  | 0, b :: bs, hv => by simp only [List.eraseIdx_cons_zero]; exact hv.2
  | i + 1, b :: bs, hv => by
    simp only [List.eraseIdx_cons_succ]
    exact ⟨hv.1, AList_eraseIdx i bs hv.2⟩

theorem BList_eraseIdx : ∀ (i : Nat) (l : List FT), BList l → BList (l.eraseIdx i)
  | _, [], _ => by simp [BList]
  | 0, b :: bs, hv => by simp only [List.eraseIdx_cons_zero]; exact hv.2
  | i + 1, b :: bs, hv => by
    simp only [List.eraseIdx_cons_succ]
    exact ⟨hv.1, BList_eraseIdx i bs hv.2⟩

section
variable {ci : CacheImpl α C} (ob : CacheObs ci)

/-- the tree part of `add_child` / `insert_child_at_index` -/
def insertTree (i : Nat) (sub : STree α) : STree α → STree α
  | .node s c kids => .node s c (insertAt sub i kids)
/-- … and its state part, without the `mark_dirty` -/
def insertState (ci : CacheImpl α C) (i : Nat) (sub : STree α) : NS α C → NS α C
  | .mk c l nk => .mk c l (insertAt (NS.init ci sub) i nk)
/-- the tree part of `remove_child_at_index` -/
def removeTree (i : Nat) : STree α → STree α
  | .node s c kids => .node s c (kids.eraseIdx i)
def removeState (i : Nat) : NS α C → NS α C
  | .mk c l nk => .mk c l (nk.eraseIdx i)

theorem LM_insert (i : Nat) (sub : STree α) : LocalMod ob (insertTree i sub) (insertState ci i sub) where
  shape t k h := by
    cases t; cases k
    simp only [C16.Shape] at h
    simp only [insertTree, insertState, C16.Shape]
    exact ShapeList_insertAt sub _ (C16.Shape_init ci sub) i _ _ h
  ok k h := by
    cases k
    simp only [OK] at h
    simp only [insertState, OK]
    exact ⟨h.1, OKList_insertAt ob _ (OK_init ob sub) i _ h.2⟩
  cache k := by cases k; rfl
  ab t k hsh hok ha hb := by
    cases t with
    | node s0 c0 kids =>
      cases k with
      | mk c l nk =>
        simp only [C16.Shape] at hsh
        simp only [absFT] at ha hb
        have ha' := (A_node _ _ _ _).1 ha
        have hb' := (B_node _ _ _ _).1 hb
        have hi := C15Refine.KT_init ob sub
        simp only [insertTree, insertState, absFT, Bx]
        rw [absList_insertAt ob sub _ i kids nk hsh]
        exact ⟨(A_node _ _ _ _).2 ⟨ha'.1, AList_insertAt _ hi.1 i _ ha'.2⟩, BList_insertAt _ hi.2 i _ hb'.2⟩

theorem LM_remove (i : Nat) : LocalMod ob (removeTree (α := α) i) (removeState (α := α) (C := C) i) where
  shape t k h := by
    cases t; cases k
    simp only [C16.Shape] at h
    simp only [removeTree, removeState, C16.Shape]
    exact ShapeList_eraseIdx i _ _ h
  ok k h := by
    cases k
    simp only [OK] at h
    simp only [removeState, OK]
    exact ⟨h.1, OKList_eraseIdx ob i _ h.2⟩
  cache k := by cases k; rfl
  ab t k hsh hok ha hb := by
    cases t with
    | node s0 c0 kids =>
      cases k with
      | mk c l nk =>
        simp only [C16.Shape] at hsh
        simp only [absFT] at ha hb
        have ha' := (A_node _ _ _ _).1 ha
        have hb' := (B_node _ _ _ _).1 hb
        simp only [removeTree, removeState, absFT, Bx]
        rw [absList_eraseIdx ob i kids nk hsh]
        exact ⟨(A_node _ _ _ _).2 ⟨ha'.1, AList_eraseIdx i _ ha'.2⟩, BList_eraseIdx i _ hb'.2⟩

end

end EvalDirtyEdit
