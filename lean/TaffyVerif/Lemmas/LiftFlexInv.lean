/-
  C07 lifted to the flexbox program, part 2: item predicates carried through the measuring prefix.

  `StageStable P dir`: the item predicate `P` survives every per-item update the measuring prefix performs in a container of
  direction `dir` (flex base size, intrinsic contribution and target, resolved flexible lengths written back,
  hypothetical cross size, baseline).  Then `P` of all generated items gives `P` of all items of the lines the prefix hands
  on, on every run (`Post_flexPrefix_all`).  Instances: `MainOK dir` (margins ≥ 0, default insets, zero offset: what C07's
  order theorem asks of the items) and predicates that only read fields no stage writes.
-/
import TaffyVerif.Lemmas.LiftFlexAbs
import TaffyVerif.Lemmas.LiftFlexLineM
import TaffyVerif.Lemmas.FlexOrder

set_option linter.unusedSectionVars false
set_option linter.unusedVariables false

namespace Lift
open FlexModel EvalFlex FlexLine FlexStages
open EvalBlock (Post Post_bind Post_true)
open AbsPos (Dir.mainStart Dir.mainEnd)

/-- every item of every line -/
def AllIt (P : FlexItem Rat → Prop) (lines : List (FlexLineS Rat)) : Prop := ∀ l ∈ lines, ∀ it ∈ l.items, P it
/-- every item -/
def AllI (P : FlexItem Rat → Prop) (items : List (FlexItem Rat)) : Prop := ∀ it ∈ items, P it

theorem AllIt_nil (P : FlexItem Rat → Prop) : AllIt P [] := fun _ h => by cases h
theorem AllIt_cons {P : FlexItem Rat → Prop} {l : FlexLineS Rat} {ls : List (FlexLineS Rat)} (h1 : AllI P l.items)
    (h2 : AllIt P ls) : AllIt P (l :: ls) := by
  intro l' hl'
  rcases List.mem_cons.1 hl' with e | e
  · subst e; exact h1
  · exact h2 l' e
theorem AllIt_head {P : FlexItem Rat → Prop} {l : FlexLineS Rat} {ls : List (FlexLineS Rat)} (h : AllIt P (l :: ls)) :
    AllI P l.items := h l List.mem_cons_self
theorem AllIt_tail {P : FlexItem Rat → Prop} {l : FlexLineS Rat} {ls : List (FlexLineS Rat)} (h : AllIt P (l :: ls)) :
    AllIt P ls := fun l' hl' => h l' (List.mem_cons_of_mem _ hl')
theorem AllI_cons {P : FlexItem Rat → Prop} {a : FlexItem Rat} {l : List (FlexItem Rat)} (h1 : P a) (h2 : AllI P l) :
    AllI P (a :: l) := by
  intro it hit
  rcases List.mem_cons.1 hit with e | e
  · subst e; exact h1
  · exact h2 it e

/-- a per-line map that keeps `P` of every item -/
theorem AllIt_map {P : FlexItem Rat → Prop} (f : FlexLineS Rat → FlexLineS Rat)
    (hf : ∀ l, AllI P l.items → AllI P (f l).items) {lines : List (FlexLineS Rat)} (h : AllIt P lines) :
    AllIt P (lines.map f) := by
  intro l hl
  obtain ⟨l0, h0, rfl⟩ := List.mem_map.1 hl
  exact hf l0 (h l0 h0)

/-! ### what a predicate must survive -/

structure StageStable (P : FlexItem Rat → Prop) (dir : FlexDirection) : Prop where
  fb : ∀ (k : AlgoConstants Rat) (c : FlexItem Rat) (a b : Rat), P c → P (fbFinish k c a b)
  inF : ∀ (c : FlexItem Rat) (a : Rat), P c → P (inFinish c a)
  inT : ∀ (c : FlexItem Rat), P c → P (intrinsicTarget dir c).1
  hc : ∀ (k : AlgoConstants Rat) (c : FlexItem Rat) (a : Rat), P c → P (hcFinish k c a)
  bl : ∀ (c : FlexItem Rat) (o : LayoutOutput Rat), P c → P (blFinish c o)
  /-- writing back a result of `resolve_flexible_lengths` (which keeps `sframe`) -/
  wb : ∀ (c : FlexItem Rat) (m : FlexItemM Rat), sframe m = sframe (toM dir c) → P c → P (fromM dir c m)

variable {P : FlexItem Rat → Prop} {dir : FlexDirection}

/-! ### the stages -/

theorem Post_determineFlexBaseSize_all (hP : StageStable P dir) (k : AlgoConstants Rat) (av : Size (AvailableSpace Rat))
    (so : Nat → Style Rat) : ∀ items : List (FlexItem Rat), AllI P items →
    Post (AllI P) (determineFlexBaseSize k av so items)
  | [], _ => fun _ h => by cases h
  | c :: rest, h => by
    unfold determineFlexBaseSize
    refine Post_bind _ _ (Q := P) ?_ fun c' hc' => ?_
    · rw [flexBaseSizeItem_eq]
      refine Post_bind _ _ (Post_true _) fun fb _ => ?_
      refine Post_bind _ _ (Post_true _) fun mc _ => ?_
      exact hP.fb k c fb mc (h c List.mem_cons_self)
    · refine Post_bind _ _ (Post_determineFlexBaseSize_all hP k av so rest fun it hit => h it (List.mem_cons_of_mem _ hit))
        fun r hr => ?_
      exact AllI_cons hc' hr

theorem AllIt_splitLines (d : FlexDirection) (avail gap : Rat) : ∀ (fuel : Nat) (items : List (FlexItem Rat)),
    AllI P items → AllIt P (splitLines d avail gap fuel items)
  | 0, _, _ => by unfold splitLines; exact AllIt_nil _
  | _ + 1, [], _ => by unfold splitLines; exact AllIt_nil _
  | fuel + 1, a :: l, h => by
    unfold splitLines
    exact AllIt_cons (fun it hit => h it (List.mem_of_mem_take hit))
      (AllIt_splitLines d avail gap fuel _ fun it hit => h it (List.mem_of_mem_drop hit))

theorem AllIt_collectFlexLines (k : AlgoConstants Rat) (av : Size (AvailableSpace Rat)) (items : List (FlexItem Rat))
    (h : AllI P items) : AllIt P (collectFlexLines k av items) := by
  have h1 : AllIt P [mkLine items] := AllIt_cons h (AllIt_nil _)
  unfold collectFlexLines
  split
  · exact h1
  · dsimp only
    split
    · exact h1
    · intro l hl
      obtain ⟨x, hx, rfl⟩ := List.mem_map.1 hl
      exact AllI_cons (h x hx) (fun _ h' => by cases h')
    · exact AllIt_splitLines _ _ _ _ _ h

theorem Post_intrinsicItems_all (hP : StageStable P dir) (k : AlgoConstants Rat) (av : Size (AvailableSpace Rat))
    (inset : Rat) : ∀ items : List (FlexItem Rat), AllI P items → Post (AllI P) (intrinsicItems k av inset items)
  | [], _ => fun _ h => by cases h
  | c :: rest, h => by
    unfold intrinsicItems
    refine Post_bind _ _ (Q := P) ?_ fun c' hc' => ?_
    · rw [intrinsicItem_eq]
      refine Post_bind _ _ (Post_true _) fun cc _ => ?_
      exact hP.inF c cc (h c List.mem_cons_self)
    · refine Post_bind _ _ (Post_intrinsicItems_all hP k av inset rest fun it hit => h it (List.mem_cons_of_mem _ hit))
        fun r hr => ?_
      exact AllI_cons hc' hr

theorem Post_intrinsicLines_all (hP : StageStable P dir) (k : AlgoConstants Rat) (hk : k.dir = dir)
    (av : Size (AvailableSpace Rat)) (inset : Rat) : ∀ (lines : List (FlexLineS Rat)) (ms : Rat), AllIt P lines →
    Post (fun r => AllIt P r.1) (intrinsicLines k av inset lines ms)
  | [], _, _ => AllIt_nil _
  | line :: rest, ms, h => by
    unfold intrinsicLines
    refine Post_bind _ _ (Post_intrinsicItems_all hP k av inset line.items (AllIt_head h)) fun items hi => ?_
    dsimp only
    refine Post_bind _ _ (Post_intrinsicLines_all hP k hk av inset rest _ (AllIt_tail h)) fun r hr => ?_
    refine AllIt_cons ?_ hr
    intro it hit
    simp only [List.map_map, List.mem_map, Function.comp] at hit
    obtain ⟨c, hc, rfl⟩ := hit
    rw [hk]
    exact hP.inT c (hi c hc)

theorem Post_determineContainerMainSize_all (hP : StageStable P dir) (k : AlgoConstants Rat) (hk : k.dir = dir)
    (av : Size (AvailableSpace Rat)) (lines : List (FlexLineS Rat)) (h : AllIt P lines) :
    Post (fun r => AllIt P r.1) (determineContainerMainSize k av lines) := by
  rw [determineContainerMainSize_eq]
  refine Post_bind _ _ (Q := fun r => AllIt P r.1) ?_ fun r hr => Post_pure _ hr
  unfold mainOuter
  split
  · exact h
  · split
    · exact h
    · split
      · exact h
      · refine Post_bind _ _ (Post_intrinsicLines_all hP k hk av _ lines 0 h) fun r hr => ?_
        obtain ⟨l, m⟩ := r
        exact hr
    · refine Post_bind _ _ (Post_intrinsicLines_all hP k hk av _ lines 0 h) fun r hr => ?_
      obtain ⟨l, m⟩ := r
      exact hr

theorem Post_mainSizeStage_all (hP : StageStable P dir) (style : Style Rat) (k : AlgoConstants Rat) (hk : k.dir = dir)
    (av : Size (AvailableSpace Rat)) (lines : List (FlexLineS Rat)) (h : AllIt P lines) :
    Post (fun r => AllIt P r.1) (mainSizeStage style k av lines) := by
  unfold mainSizeStage
  split
  · exact h
  · refine Post_bind _ _ (Post_determineContainerMainSize_all hP k hk av lines h) fun a ha => ?_
    obtain ⟨l, k'⟩ := a
    exact ha

theorem AllI_zipBack (hP : StageStable P dir) : ∀ (is : List (FlexItem Rat)) (ms : List (FlexItemM Rat)),
    ms.map sframe = is.map (fun i => sframe (toM dir i)) → AllI P is → AllI P (zipBack dir is ms)
  | [], [], _, h => h
  | [], _ :: _, _, h => h
  | _ :: _, [], _, h => h
  | i :: is, m :: ms, e, h => by
    simp only [List.map_cons, List.cons.injEq] at e
    simp only [zipBack]
    exact AllI_cons (hP.wb i m e.1 (h i List.mem_cons_self))
      (AllI_zipBack hP is ms e.2 fun it hit => h it (List.mem_cons_of_mem _ hit))

theorem AllI_resolveFlexibleLengthsLine (hP : StageStable P dir) (k : AlgoConstants Rat) (hk : k.dir = dir)
    (line : FlexLineS Rat) (h : AllI P line.items) : AllI P (resolveFlexibleLengthsLine k line).items := by
  unfold resolveFlexibleLengthsLine
  simp only
  split
  · rename_i ms' hms
    rw [hk] at hms ⊢
    have := rfl_sframe _ _ _ _ _ hms
    rw [List.map_map] at this
    exact AllI_zipBack hP _ _ this h
  · exact h

theorem Post_hypotheticalCrossItems_all (hP : StageStable P dir) (k : AlgoConstants Rat) (av : Size (AvailableSpace Rat)) :
    ∀ items : List (FlexItem Rat), AllI P items → Post (AllI P) (hypotheticalCrossItems k av items)
  | [], _ => fun _ h => by cases h
  | c :: rest, h => by
    unfold hypotheticalCrossItems
    refine Post_bind _ _ (Q := P) ?_ fun c' hc' => ?_
    · rw [hypotheticalCrossItem_eq]
      refine Post_bind _ _ (Post_true _) fun cc _ => ?_
      exact hP.hc k c cc (h c List.mem_cons_self)
    · refine Post_bind _ _ (Post_hypotheticalCrossItems_all hP k av rest fun it hit => h it (List.mem_cons_of_mem _ hit))
        fun r hr => ?_
      exact AllI_cons hc' hr

theorem Post_determineHypotheticalCrossSize_all (hP : StageStable P dir) (k : AlgoConstants Rat)
    (av : Size (AvailableSpace Rat)) : ∀ lines : List (FlexLineS Rat), AllIt P lines →
    Post (AllIt P) (determineHypotheticalCrossSize k av lines)
  | [], _ => AllIt_nil _
  | line :: rest, h => by
    unfold determineHypotheticalCrossSize
    refine Post_bind _ _ (Post_hypotheticalCrossItems_all hP k av line.items (AllIt_head h)) fun items hi => ?_
    refine Post_bind _ _ (Post_determineHypotheticalCrossSize_all hP k av rest (AllIt_tail h)) fun r hr => ?_
    exact AllIt_cons hi hr

theorem Post_baselineItems_all (hP : StageStable P dir) (k : AlgoConstants Rat) (ns : Size (Option Rat))
    (av : Size (AvailableSpace Rat)) : ∀ items : List (FlexItem Rat), AllI P items →
    Post (AllI P) (baselineItems k ns av items)
  | [], _ => fun _ h => by cases h
  | c :: rest, h => by
    have hrest : AllI P rest := fun it hit => h it (List.mem_cons_of_mem _ hit)
    rw [baselineItems_cons]
    split
    · refine Post_bind _ _ (Post_baselineItems_all hP k ns av rest hrest) fun r hr => ?_
      exact AllI_cons (h c List.mem_cons_self) hr
    · refine Post_bind _ _ (Post_true _) fun out _ => ?_
      refine Post_bind _ _ (Post_baselineItems_all hP k ns av rest hrest) fun r hr => ?_
      exact AllI_cons (hP.bl c out (h c List.mem_cons_self)) hr

theorem Post_baselineLines_all (hP : StageStable P dir) (k : AlgoConstants Rat) (ns : Size (Option Rat))
    (av : Size (AvailableSpace Rat)) : ∀ lines : List (FlexLineS Rat), AllIt P lines →
    Post (AllIt P) (baselineLines k ns av lines)
  | [], _ => AllIt_nil _
  | line :: rest, h => by
    unfold baselineLines
    simp only
    refine Post_bind _ _ (Q := fun l' : FlexLineS Rat => AllI P l'.items) ?_ fun l' hl' => ?_
    · split
      · exact AllIt_head h
      · exact Post_bind _ _ (Post_baselineItems_all hP k ns av line.items (AllIt_head h)) fun r hr => hr
    · refine Post_bind _ _ (Post_baselineLines_all hP k ns av rest (AllIt_tail h)) fun r hr => ?_
      exact AllIt_cons hl' hr

theorem Post_calculateChildrenBaseLines_all (hP : StageStable P dir) (k : AlgoConstants Rat) (ns : Size (Option Rat))
    (av : Size (AvailableSpace Rat)) (lines : List (FlexLineS Rat)) (h : AllIt P lines) :
    Post (AllIt P) (calculateChildrenBaseLines k ns av lines) := by
  unfold calculateChildrenBaseLines
  split
  · exact h
  · exact Post_baselineLines_all hP k ns av lines h

theorem Post_hypStage_all (hP : StageStable P dir) (inputs : LayoutInput Rat) (av : Size (AvailableSpace Rat))
    (r : List (FlexLineS Rat) × AlgoConstants Rat) (hk : r.2.dir = dir) (h : AllIt P r.1) :
    Post (fun r' => AllIt P r'.1) (hypStage inputs av r) := by
  unfold hypStage
  refine Post_bind _ _ (Post_determineHypotheticalCrossSize_all hP r.2 av _
    (AllIt_map _ (fun l hl => AllI_resolveFlexibleLengthsLine hP r.2 hk l hl) h)) fun l1 h1 => ?_
  exact Post_bind _ _ (Post_calculateChildrenBaseLines_all hP r.2 inputs.knownDimensions av l1 h1) fun l2 h2 => h2

/-- the direction of the constants never changes -/
theorem frameK_dir {k k' : AlgoConstants Rat} (h : frameK k = frameK k') : k.dir = k'.dir := by
  have := congrArg AlgoConstants.dir h; exact this

/-- **the measuring prefix carries every stage-stable item predicate** from the generated items to the items of the lines
it hands on -/
theorem Post_flexPrefix_all (style : Style Rat) (cs : List (Style Rat)) (inputs : LayoutInput Rat)
    (hP : StageStable P style.flexDirection) (h : AllI P (items0 style cs inputs)) :
    Post (fun r => AllIt P r.1) (flexPrefix style cs inputs) := by
  unfold flexPrefix
  refine Post_bind _ _ (Post_determineFlexBaseSize_all hP _ _ _ _ h) fun items hi => ?_
  refine Post_bind _ _ (Post_and _ (Post_mainSizeStage_all hP style _ rfl _ _ (AllIt_collectFlexLines _ _ items hi))
    (Post_mainSizeStage_frame style _ _ _)) fun r hr => ?_
  exact Post_hypStage_all hP inputs _ r (frameK_dir hr.2) hr.1

/-! ### `MainOK`: what C07's order theorem asks of the items -/

/-- main-axis margins ≥ 0, default main-axis insets, zero main offset -/
def MainOK (dir : FlexDirection) (it : FlexItem Rat) : Prop :=
  ItemOK (toM dir it) ∧ (toM dir it).offsetMain = 0

theorem stable_MainOK (dir : FlexDirection) : StageStable (MainOK dir) dir where
  fb _ _ _ _ h := h
  inF _ _ h := h
  inT _ h := h
  hc _ _ _ h := h
  bl _ _ h := h
  wb c m e h := by
    obtain ⟨⟨h1, h2, h3, h4⟩, h5⟩ := h
    have e1 : m.marginStart = (toM dir c).marginStart := by have := congrArg FlexItemM.marginStart e; exact this
    have e2 : m.marginEnd = (toM dir c).marginEnd := by have := congrArg FlexItemM.marginEnd e; exact this
    have e3 : m.offsetMain = (toM dir c).offsetMain := by have := congrArg FlexItemM.offsetMain e; exact this
    refine ⟨⟨?_, ?_, h3, h4⟩, ?_⟩
    · show 0 ≤ Dir.mainStart (fromM dir c m).margin dir
      simp only [fromM, mainStart_setMainEnd, mainStart_setMainStart]
      rw [e1]; exact h1
    · show 0 ≤ Dir.mainEnd (fromM dir c m).margin dir
      simp only [fromM, mainEnd_setMainEnd]
      rw [e2]; exact h2
    · show (fromM dir c m).offsetMain = 0
      simp only [fromM]
      rw [e3]; exact h5

end Lift
