/-
  Version bookkeeping: slot versions never decrease (until the 32-bit counter wraps), removal bumps the version, so an
  id that was live at any earlier point of a history is never handed out again. Needs no invariant and no
  precondition: it holds for every history shorter than 2^32 − 1 operations, including panicking ones.
-/
import TaffyVerif.Lemmas.Tree

namespace Fresh
open SlotMapModel TreeModel
variable {V : Type}

/-- the version stored in slot `i` (0 beyond the end) -/
def ver (m : SlotMap V) (i : Nat) : Nat :=
  match m.slots[i]? with
  | some s => s.version
  | none => 0

theorem ver_of_live {m : SlotMap V} {k : Key} (h : (m.get k).isSome = true) : ver m k.idx = k.version := by
  obtain ⟨v, hv⟩ := Option.isSome_iff_exists.mp h
  rw [get_some_iff] at hv
  simp [ver, hv, Slot.version]

theorem ver_congr {m m' : SlotMap V} {i : Nat} (h : m'.slots[i]? = m.slots[i]?) : ver m' i = ver m i := by
  simp only [ver, h]

/-- how one slot-map operation may move versions and liveness -/
structure VerStep (m m' : SlotMap V) : Prop where
  le_succ : ∀ i, ver m' i ≤ ver m i + 1
  mono : ∀ i, ver m i < u32Max → ver m i ≤ ver m' i
  live : ∀ k, (m.get k).isSome = true → k.version < u32Max → (m'.get k).isSome = true ∨ ver m' k.idx = k.version + 1

theorem VerStep.refl (m : SlotMap V) : VerStep m m :=
  ⟨fun _ => Nat.le_succ _, fun _ _ => Nat.le_refl _, fun _ h _ => Or.inl h⟩

theorem VerStep.of_eq {m m' : SlotMap V} (h : m' = m) : VerStep m m' := h ▸ VerStep.refl m

theorem verStep_set (m : SlotMap V) (k : Key) (v : V) : VerStep m (m.set k v) := by
  have hv : ∀ i, ver (m.set k v) i = ver m i := by
    intro i
    cases h : m.get k with
    | none => rw [set_of_get_none h]
    | some v0 =>
      rw [set_of_get h]
      have hs := get_some_iff.mp h
      have hlt := lt_length_of_getElem? hs
      by_cases e : k.idx = i
      · subst e
        simp [ver, List.getElem?_set_self hlt, hs, Slot.version]
      · apply ver_congr; exact List.getElem?_set_ne e
  refine ⟨fun i => by rw [hv]; omega, fun i _ => by rw [hv]; omega, fun k' hk _ => Or.inl ?_⟩
  rw [get_set]; split
  · rfl
  · exact hk

theorem verStep_insert {m m' : SlotMap V} {v : V} {k : Key} (h : m.insert v = some (m', k)) :
    VerStep m m' ∧ m.get k = none ∧ ver m k.idx ≤ k.version := by
  unfold SlotMap.insert at h
  split at h
  · rename_i vr nx hs
    simp only [Option.some.injEq, Prod.mk.injEq] at h
    obtain ⟨rfl, rfl⟩ := h
    have hlt := lt_length_of_getElem? hs
    have hv : ∀ i, ver (⟨m.slots.set m.freeHead (Slot.occ (orOne vr) v), nx, m.numElems + 1⟩ : SlotMap V) i = if i = m.freeHead then orOne vr else ver m i := by
      intro i
      by_cases e : i = m.freeHead
      · subst e; simp [ver, List.getElem?_set_self hlt, Slot.version]
      · rw [if_neg e]; apply ver_congr; exact List.getElem?_set_ne (fun h => e h.symm)
    have hv0 : ver m m.freeHead = vr := by simp [ver, hs, Slot.version]
    refine ⟨⟨fun i => ?_, fun i _ => ?_, fun k' hk _ => Or.inl ?_⟩, get_none_of_vac hs, ?_⟩
    · rw [hv]; split
      · rename_i e; rw [e, hv0]; exact orOne_le vr
      · omega
    · rw [hv]; split
      · rename_i e; rw [e, hv0]; exact orOne_ge vr
      · omega
    · have hne : k'.idx ≠ m.freeHead := by
        intro e
        have := get_none_of_vac (k := k') (e ▸ hs)
        rw [this] at hk; cases hk
      rw [get_congr_slot (m := m)]
      · exact hk
      · exact List.getElem?_set_ne (fun h => hne h.symm)
    · show ver m m.freeHead ≤ orOne vr
      rw [hv0]; exact orOne_ge vr
  · cases h
  · rename_i hs
    split at h
    · cases h
    · simp only [Option.some.injEq, Prod.mk.injEq] at h
      obtain ⟨rfl, rfl⟩ := h
      have hlen : m.slots.length ≤ m.freeHead := by
        rcases Nat.lt_or_ge m.freeHead m.slots.length with h1 | h1
        · rw [List.getElem?_eq_getElem h1] at hs; cases hs
        · exact h1
      have hv : ∀ i, ver (⟨m.slots ++ [Slot.occ 1 v], m.slots.length + 1, m.numElems + 1⟩ : SlotMap V) i = if i = m.slots.length then 1 else ver m i := by
        intro i
        rcases Nat.lt_trichotomy i m.slots.length with h1 | h1 | h1
        · rw [if_neg (by omega)]; apply ver_congr; exact List.getElem?_append_left h1
        · subst h1
          simp [ver, Slot.version]
        · rw [if_neg (by omega)]
          have a : (m.slots ++ [Slot.occ 1 v])[i]? = none := List.getElem?_eq_none (by simp; omega)
          have b : m.slots[i]? = none := List.getElem?_eq_none (by omega)
          simp [ver, a, b]
      have hv0 : ver m m.slots.length = 0 := by
        simp [ver, List.getElem?_eq_none (Nat.le_refl m.slots.length)]
      refine ⟨⟨fun i => ?_, fun i _ => ?_, fun k' hk _ => Or.inl ?_⟩,
        get_none_of_oob (List.getElem?_eq_none (Nat.le_refl _)), ?_⟩
      · rw [hv]; split
        · rename_i e; rw [e, hv0]; omega
        · omega
      · rw [hv]; split
        · rename_i e; rw [e, hv0]; omega
        · omega
      · obtain ⟨x, hx⟩ := Option.isSome_iff_exists.mp hk
        have hlt := lt_length_of_getElem? (get_some_iff.mp hx)
        rw [get_congr_slot (m := m)]
        · exact hk
        · exact List.getElem?_append_left hlt
      · show ver m m.slots.length ≤ 1
        rw [hv0]; omega

theorem wrapSucc_le (v : Nat) : wrapSucc v ≤ v + 1 := by unfold wrapSucc; split <;> omega
theorem wrapSucc_of_lt {v : Nat} (h : v < u32Max) : wrapSucc v = v + 1 := by
  unfold wrapSucc; split
  · omega
  · rfl

theorem ver_removeFromSlot {m : SlotMap V} {i vr : Nat} {x : V} (hs : m.slots[i]? = some (.occ vr x)) (j : Nat) :
    ver (m.removeFromSlot i vr) j = if j = i then wrapSucc vr else ver m j := by
  have hlt := lt_length_of_getElem? hs
  by_cases e : j = i
  · subst e
    simp [ver, SlotMap.removeFromSlot, List.getElem?_set_self hlt, Slot.version]
  · rw [if_neg e]; apply ver_congr
    show (m.slots.set i _)[j]? = _
    exact List.getElem?_set_ne (fun h => e h.symm)

theorem verStep_removeFromSlot {m : SlotMap V} {i vr : Nat} {x : V} (hs : m.slots[i]? = some (.occ vr x)) :
    VerStep m (m.removeFromSlot i vr) := by
  have hv0 : ver m i = vr := by simp [ver, hs, Slot.version]
  refine ⟨fun j => ?_, fun j hj => ?_, fun k hk hkv => ?_⟩
  · rw [ver_removeFromSlot hs]; split
    · rename_i e; rw [e, hv0]; exact wrapSucc_le vr
    · omega
  · rw [ver_removeFromSlot hs]; split
    · rename_i e; rw [e, hv0] at hj; rw [e, hv0, wrapSucc_of_lt hj]; omega
    · omega
  · by_cases e : k.idx = i
    · right
      have hkv' := ver_of_live hk
      rw [e, hv0] at hkv'
      rw [ver_removeFromSlot hs, if_pos e, hkv', wrapSucc_of_lt hkv]
    · left
      rw [get_congr_slot (m := m)]
      · exact hk
      · show (m.slots.set i _)[k.idx]? = _
        exact List.getElem?_set_ne (fun h => e h.symm)

theorem verStep_remove (m : SlotMap V) (k : Key) : VerStep m (m.remove k).1 := by
  cases h : m.get k with
  | none => rw [remove_of_get_none h]; exact VerStep.refl m
  | some v => rw [remove_of_get h]; exact verStep_removeFromSlot (get_some_iff.mp h)

/-- composing steps along a drain: every slot is touched at most once because the cursor only moves forward -/
theorem verStep_drainFrom (n : Nat) : ∀ (m : SlotMap V) (cur : Nat),
    (∀ i, ver (m.drainFrom cur n) i ≤ ver m i + 1) ∧
    (∀ i, ver m i < u32Max → ver m i ≤ ver (m.drainFrom cur n) i) ∧
    (∀ i, i < cur → (m.drainFrom cur n).slots[i]? = m.slots[i]?) ∧
    (∀ k, (m.get k).isSome = true → k.version < u32Max →
      ((m.drainFrom cur n).get k).isSome = true ∨ ver (m.drainFrom cur n) k.idx = k.version + 1) := by
  induction n with
  | zero =>
    intro m cur
    exact ⟨fun _ => Nat.le_succ _, fun _ _ => Nat.le_refl _, fun _ _ => rfl, fun _ h _ => Or.inl h⟩
  | succ n ih =>
    intro m cur
    simp only [SlotMap.drainFrom]
    split
    · rename_i vr x hs
      obtain ⟨a1, a2, a3, a4⟩ := ih (m.removeFromSlot cur vr) (cur + 1)
      have st := verStep_removeFromSlot hs
      have hcur : ver ((m.removeFromSlot cur vr).drainFrom (cur + 1) n) cur = ver (m.removeFromSlot cur vr) cur :=
        ver_congr (a3 cur (Nat.lt_succ_self _))
      have hother : ∀ i, i ≠ cur → ver (m.removeFromSlot cur vr) i = ver m i := by
        intro i hi; rw [ver_removeFromSlot hs, if_neg hi]
      refine ⟨fun i => ?_, fun i hi => ?_, fun i hi => ?_, fun k hk hkv => ?_⟩
      · by_cases e : i = cur
        · subst e; rw [hcur]; exact st.le_succ _
        · have := a1 i; rw [hother i e] at this; exact this
      · by_cases e : i = cur
        · subst e; rw [hcur]; exact st.mono _ hi
        · have := a2 i; rw [hother i e] at this; exact this hi
      · rw [a3 i (by omega)]
        show (m.slots.set cur _)[i]? = _
        exact List.getElem?_set_ne (by omega)
      · rcases st.live k hk hkv with h | h
        · exact a4 k h hkv
        · right
          by_cases e : k.idx = cur
          · rw [e] at h ⊢; rw [hcur]; exact h
          · have := ver_of_live hk
            rw [hother _ e, this] at h; omega
    · obtain ⟨a1, a2, a3, a4⟩ := ih m (cur + 1)
      exact ⟨a1, a2, fun i hi => a3 i (by omega), a4⟩

theorem verStep_clear (m : SlotMap V) : VerStep m m.clear := by
  obtain ⟨a1, a2, _, a4⟩ := verStep_drainFrom (m.slots.length - 1) m 1
  exact ⟨a1, a2, a4⟩

/-! ### the `nodes` map along one tree operation -/

theorem removeChildAtIndex_nodes (t : Tree) (p : Id) (i : Nat) : (removeChildAtIndex t p i).1.nodes = t.nodes := by
  unfold removeChildAtIndex; grind

theorem removeChild_nodes (t : Tree) (p c : Id) : (removeChild t p c).1.nodes = t.nodes := by
  unfold removeChild
  split
  · rfl
  · split
    · rfl
    · exact removeChildAtIndex_nodes _ _ _

theorem reparentLoop_nodes (p : Id) : ∀ (l : List Id) (t : Tree), (reparentLoop t p l).1.nodes = t.nodes := by
  intro l
  induction l with
  | nil => intro t; rfl
  | cons c rest ih =>
    intro t
    have hrc := removeChild_nodes
    unfold reparentLoop
    split
    · rfl
    · rename_i par hpar
      cases par with
      | none =>
        simp only
        split
        · rfl
        · rw [ih]
      | some prev =>
        simp only
        have h1 := hrc t prev c
        cases hr : removeChild t prev c with
        | mk t1 o1 =>
          rw [hr] at h1
          simp only at h1
          cases o1 with
          | ok v =>
            simp only
            split
            · exact h1
            · rw [ih]; exact h1
          | err e => simp only; exact h1
          | panic => simp only; exact h1

theorem step_verStep (t : Tree) (op : Op) : VerStep t.nodes (step t op).1.nodes := by
  cases op with
  | newLeaf =>
    simp only [step, newLeaf]
    cases h : t.nodes.insert ⟨false⟩ with
    | none => exact VerStep.refl _
    | some r =>
      obtain ⟨n', k⟩ := r
      have := (verStep_insert h).1
      simp only
      repeat' split
      all_goals exact this
  | newLeafWithContext x =>
    simp only [step, newLeafWithContext]
    cases h : t.nodes.insert ⟨true⟩ with
    | none => exact VerStep.refl _
    | some r =>
      obtain ⟨n', k⟩ := r
      have := (verStep_insert h).1
      simp only
      repeat' split
      all_goals exact this
  | newWithChildren cs =>
    simp only [step, newWithChildren]
    cases h : t.nodes.insert ⟨false⟩ with
    | none => exact VerStep.refl _
    | some r =>
      obtain ⟨n', k⟩ := r
      have := (verStep_insert h).1
      simp only
      repeat' split
      all_goals exact this
  | clear => exact verStep_clear _
  | remove n =>
    simp only [step, remove]
    have hr : ∀ par, (retainInParent t par n).nodes = t.nodes := by
      intro par; unfold retainInParent; grind
    cases hp : t.parents.get n with
    | none => exact VerStep.refl _
    | some par =>
      simp only
      cases hmd : markDirtyOpt (retainInParent t par n) par with
      | false => simp only [hr, Bool.false_eq_true, ↓reduceIte]; exact VerStep.refl _
      | true =>
        simp only [↓reduceIte]
        cases hk : (retainInParent t par n).children.get n with
        | none => simp only [hr]; exact verStep_remove _ _
        | some l =>
          simp only
          cases hsp : setParents (retainInParent t par n).parents none l with
          | mk pm b =>
            cases b with
            | false => simp only [hr]; exact VerStep.refl _
            | true => simp only [hr]; exact verStep_remove _ _
  | setNodeContext n x =>
    simp only [step, setNodeContext]
    split
    · exact VerStep.refl _
    · cases x <;> simp only <;> split <;> exact verStep_set _ _ _
  | getNodeContext n => exact VerStep.refl _
  | addChild p c => apply VerStep.of_eq; simp only [step]; unfold addChild; grind
  | insertChildAtIndex p i c => apply VerStep.of_eq; simp only [step]; unfold insertChildAtIndex; grind
  | setChildren p cs =>
    apply VerStep.of_eq
    simp only [step, setChildren]
    cases hk : t.children.get p with
    | none => rfl
    | some old =>
      simp only
      cases hsp : setParents t.parents none old with
      | mk pm b =>
        cases b with
        | false => rfl
        | true =>
          simp only
          have hl := reparentLoop_nodes p cs { t with parents := pm }
          cases hrl : reparentLoop { t with parents := pm } p cs with
          | mk tB b2 =>
            rw [hrl] at hl; simp only at hl
            cases b2 with
            | false => exact hl
            | true =>
              simp only
              split
              · exact hl
              · split <;> exact hl
  | removeChild p c => exact VerStep.of_eq (removeChild_nodes _ _ _)
  | removeChildAtIndex p i => exact VerStep.of_eq (removeChildAtIndex_nodes _ _ _)
  | removeChildrenRange p a b => apply VerStep.of_eq; simp only [step]; unfold removeChildrenRange; grind
  | replaceChildAtIndex p i c => apply VerStep.of_eq; simp only [step]; unfold replaceChildAtIndex; grind
  | childAtIndex p i => apply VerStep.of_eq; simp only [step]; unfold childAtIndex; grind
  | totalNodeCount => exact VerStep.refl _
  | childCount p => apply VerStep.of_eq; simp only [step]; unfold childCount; grind
  | children p => apply VerStep.of_eq; simp only [step]; unfold children; grind
  | parent n => apply VerStep.of_eq; simp only [step]; unfold parent; grind

/-! ### along a history -/

theorem ver_le_length : ∀ (h : List Op) (i : Nat), ver (runH h).nodes i ≤ h.length
  | [], i => by
    cases i <;> simp [runH, Tree.new, SlotMap.new, ver, Slot.version]
  | op :: h, i => by
    have h1 := (step_verStep (runH h) op).le_succ i
    have h2 := ver_le_length h i
    simp only [runH, List.length_cons]
    omega

/-- an id that was live at some earlier point is still live, or its slot has moved on to a larger version -/
theorem seen : ∀ (h : List Op), h.length < u32Max → ∀ h', h' <:+ h → ∀ k, (runH h').live k →
    (runH h).live k ∨ k.version < ver (runH h).nodes k.idx
  | [], _, h', hs, k, hk => by
    have : h' = [] := List.suffix_nil.mp hs
    subst this; exact Or.inl hk
  | op :: h, hlen, h', hs, k, hk => by
    rcases List.suffix_cons_iff.mp hs with rfl | hs'
    · exact Or.inl hk
    · have hlen' : h.length < u32Max := by simp only [List.length_cons] at hlen; omega
      have st := step_verStep (runH h) op
      have hb := ver_le_length h k.idx
      rcases seen h hlen' h' hs' k hk with h1 | h1
      · have hv := ver_of_live h1
        rcases st.live k h1 (by omega) with h2 | h2
        · exact Or.inl h2
        · right; show k.version < ver (step (runH h) op).1.nodes k.idx; omega
      · right
        have := st.mono k.idx (by omega)
        show k.version < ver (step (runH h) op).1.nodes k.idx
        omega

theorem create_insert {t : Tree} {op : Op} {k : Id} (hk : (step t op).2 = .ok (.id k))
    (hcreate : op = .newLeaf ∨ (∃ x, op = .newLeafWithContext x) ∨ ∃ cs, op = .newWithChildren cs) :
    ∃ d n', t.nodes.insert d = some (n', k) := by
  rcases hcreate with rfl | ⟨x, rfl⟩ | ⟨cs, rfl⟩
  · simp only [step] at hk; unfold newLeaf at hk
    cases h : t.nodes.insert ⟨false⟩ with
    | none => rw [h] at hk; cases hk
    | some r => exact ⟨⟨false⟩, r.1, by grind⟩
  · simp only [step] at hk; unfold newLeafWithContext at hk
    cases h : t.nodes.insert ⟨true⟩ with
    | none => rw [h] at hk; cases hk
    | some r => exact ⟨⟨true⟩, r.1, by grind⟩
  · simp only [step] at hk; unfold newWithChildren at hk
    cases h : t.nodes.insert ⟨false⟩ with
    | none => rw [h] at hk; cases hk
    | some r => exact ⟨⟨false⟩, r.1, by grind⟩

/-- an id returned by a creating operation was never live at any earlier point of the history -/
theorem created_never_live_before (h : List Op) (op : Op) (hlen : (op :: h).length < u32Max) (k : Id)
    (hk : (step (runH h) op).2 = .ok (.id k))
    (hcreate : op = .newLeaf ∨ (∃ x, op = .newLeafWithContext x) ∨ ∃ cs, op = .newWithChildren cs) :
    ∀ h', h' <:+ h → ¬ (runH h').live k := by
  intro h' hs hl
  obtain ⟨d, n', hi⟩ := create_insert hk hcreate
  obtain ⟨_, hnone, hver⟩ := verStep_insert hi
  have hlen' : h.length < u32Max := by simp only [List.length_cons] at hlen; omega
  rcases seen h hlen' h' hs k hl with h1 | h1
  · rw [Tree.live, hnone] at h1; cases h1
  · omega

end Fresh
