/-
  Tree classes on which the evaluator with the concrete block/leaf algorithms meets hypotheses stated for all three
  container algorithms / all child-style lists:
    * `BlockOnly`      (block containers and leaves, hidden subtrees arbitrary)       → `EvalMemo.PLCovers`
    * `FanBlockOnly b` (block containers with ≤ b children, leaves, hidden subtrees) → `C16.AlgsCallsAtMost (2·b)`
  Each comes with stand-in algorithms that satisfy the hypothesis for ALL child-style lists and agree with the concrete
  ones on the trees of the class (`EvalBlock.AgreeOn`).
-/
import TaffyVerif.Lemmas.EvalBlockAgree
import TaffyVerif.Lemmas.EvalBlockFlags
import TaffyVerif.Lemmas.EvalBlockOnly

set_option linter.unusedSectionVars false
set_option linter.unusedVariables false

namespace EvalBlock
open Eval EvalMemo Gen.Facts BlockModel
variable {α : Type} [Num α]

/-- the documented (= extracted, `C17.dispatch_eq`) dispatch, as a hypothesis on `sel` -/
def DocSel (sel : Display → Bool → Option Callee) : Prop :=
  ∀ d b, sel d b = some (match d with
    | .none => Callee.hidden
    | .block => if b then Callee.block else Callee.leaf
    | .flex => if b then Callee.flex else Callee.leaf
    | .grid => if b then Callee.grid else Callee.leaf)

/-- the body selected by the documented dispatch -/
theorem bodyOf_doc (sel : Display → Bool → Option Callee) (hsel : DocSel sel) (a : Algs α) (s : Style α)
    (kids : List (STree α)) (inp : LayoutInput α) :
    bodyOf sel a s kids inp =
      match s.display, kids with
      | .none, _ => .hidden
      | .block, [] => .leaf
      | .flex, [] => .leaf
      | .grid, [] => .leaf
      | .block, _ :: _ => .prog (a.block s (kids.map STree.style) inp)
      | .flex, _ :: _ => .prog (a.flex s (kids.map STree.style) inp)
      | .grid, _ :: _ => .prog (a.grid s (kids.map STree.style) inp) := by
  unfold bodyOf
  rw [hsel]
  cases s.display <;> cases kids <;> rfl

/-! ### a program that covers all children, whatever they are -/

/-- a PerformLayout input -/
def plIn : LayoutInput α := { (LayoutInput.hidden : LayoutInput α) with runMode := .performLayout }

/-- for children `i, i+1, …, i+k-1`: PerformLayout call, then write a layout -/
def coverFrom : Nat → Nat → ProgM α (LayoutOutput α)
  | _, 0 => .pure LayoutOutput.hidden
  | i, k + 1 => .call i plIn fun _ => .setLayout i (Layout.withOrder 0) fun _ => coverFrom (i + 1) k

theorem coverFrom_covers : ∀ (k i : Nat) (own strict : Nat → Bool), (∀ j, j < i → own j = true ∧ strict j = true) →
    Covers (i + k) own strict (coverFrom (α := α) i k)
  | 0, i, own, strict, h => by simpa only [coverFrom, Covers, Nat.add_zero] using h
  | k + 1, i, own, strict, h => by
    simp only [coverFrom, Covers]
    intro _
    rw [show i + (k + 1) = (i + 1) + k by omega]
    apply coverFrom_covers k (i + 1)
    intro j hj
    by_cases hji : j = i
    · subst hji
      exact ⟨by simp only [upd, if_true], by simp only [upd, if_true]; rfl⟩
    · have := h j (by omega)
      simp only [upd, hji, if_false]
      exact this

/-- stand-in container algorithm: covers all children -/
def coverAlg : Style α → List (Style α) → LayoutInput α → ProgM α (LayoutOutput α) :=
  fun _ cs _ => coverFrom 0 cs.length

theorem coverAlg_covers (style : Style α) (cs : List (Style α)) (inp : LayoutInput α) :
    Covers cs.length (fun _ => false) (fun _ => false) (coverAlg style cs inp) := by
  have := coverFrom_covers (α := α) cs.length 0 (fun _ => false) (fun _ => false) (fun j hj => absurd hj (by omega))
  rw [Nat.zero_add] at this
  exact this

/-! ### trees of block containers and leaves: `PLCovers` -/

theorem block_covers (style : Style α) (cs : List (Style α)) (inp : LayoutInput α)
    (hm : inp.runMode = .performLayout) :
    Covers cs.length (fun _ => false) (fun _ => false) (computeBlockLayout style cs inp) := by
  rw [Covers_iff_Track]
  refine Track_mono _ _ _ ?_ _ _ (Track_computeBlockLayout style cs inp hm _ _)
  intro _ o st hg i hi
  exact ⟨(hg i hi).2, (hg i hi).1⟩

/-- concrete leaf and block, covering stand-ins for flexbox and grid -/
def algsCov : Algs α := EvalConcrete.algs coverAlg coverAlg

theorem algsCov_PLCovers : PLCovers (algsCov : Algs α) :=
  fun style cs inp hm => ⟨block_covers style cs inp hm, coverAlg_covers style cs inp, coverAlg_covers style cs inp⟩

mutual
/-- on a `BlockOnly` tree the flexbox/grid components are never selected (documented dispatch) -/
theorem BlockOnly_agree (sel : Display → Bool → Option Callee) (hsel : DocSel sel)
    (flex grid flex' grid' : Style α → List (Style α) → LayoutInput α → ProgM α (LayoutOutput α)) :
    ∀ t : STree α, BlockOnly t → AgreeOn sel (EvalConcrete.algs flex grid) (EvalConcrete.algs flex' grid') t
  | .node s ctx kids, h => by
    simp only [BlockOnly] at h
    simp only [AgreeOn]
    rcases h with hd | ⟨hk, hks⟩
    · refine ⟨fun inp => ?_, fun _ => rfl, fun hn => ?_⟩
      · rw [bodyOf_doc sel hsel, bodyOf_doc sel hsel, hd]
      · rw [hsel, hd] at hn
        exact absurd rfl hn
    · refine ⟨fun inp => ?_, fun _ => rfl, fun _ => BlockOnlyList_agree sel hsel flex grid flex' grid' kids hks⟩
      rw [bodyOf_doc sel hsel, bodyOf_doc sel hsel]
      rcases hk with hk | hb
      · subst hk
        cases s.display <;> rfl
      · rw [hb]
        cases kids <;> rfl
theorem BlockOnlyList_agree (sel : Display → Bool → Option Callee) (hsel : DocSel sel)
    (flex grid flex' grid' : Style α → List (Style α) → LayoutInput α → ProgM α (LayoutOutput α)) :
    ∀ ts : List (STree α), BlockOnlyList ts →
      AgreeOnList sel (EvalConcrete.algs flex grid) (EvalConcrete.algs flex' grid') ts
  | [], _ => trivial
  | t :: ts, h =>
    ⟨BlockOnly_agree sel hsel flex grid flex' grid' t h.1, BlockOnlyList_agree sel hsel flex grid flex' grid' ts h.2⟩
end

/-- every tree of the history (the start tree and the tree after each edit) is `BlockOnly` -/
def BlockOnlyHist : STree α → List (Step α) → Prop
  | t, [] => BlockOnly t
  | t, st :: rest => BlockOnly t ∧ BlockOnlyHist (st.edit.applyTree t) rest

theorem BlockOnlyHist_agree (sel : Display → Bool → Option Callee) (hsel : DocSel sel)
    (flex grid flex' grid' : Style α → List (Style α) → LayoutInput α → ProgM α (LayoutOutput α)) :
    ∀ (h : List (Step α)) (t : STree α), BlockOnlyHist t h →
      AgreeHist sel (EvalConcrete.algs flex grid) (EvalConcrete.algs flex' grid') t h
  | [], t, hb => BlockOnly_agree sel hsel flex grid flex' grid' t hb
  | st :: rest, t, hb =>
    ⟨BlockOnly_agree sel hsel flex grid flex' grid' t hb.1,
     BlockOnlyHist_agree sel hsel flex grid flex' grid' rest _ hb.2⟩

/-! ### bounded fan-out: `AlgsCallsAtMost` -/

/-- the block algorithm on child lists of length ≤ `b`, idle beyond -/
def boundedBlock (b : Nat) : Style α → List (Style α) → LayoutInput α → ProgM α (LayoutOutput α) :=
  fun style cs inp => if cs.length ≤ b then computeBlockLayout style cs inp else .pure LayoutOutput.hidden

/-- concrete leaf, bounded block, idle stand-ins for flexbox and grid -/
def algsFan (b : Nat) : Algs α where
  leaf := EvalConcrete.leafAlg
  block := boundedBlock b
  flex := EvalConcrete.idle
  grid := EvalConcrete.idle

theorem algsFan_callsAtMost (b : Nat) : C16.AlgsCallsAtMost (2 * b) (algsFan b : Algs α) := by
  intro style cs inp
  refine ⟨?_, trivial, trivial⟩
  show C16.callsLe (2 * b) (boundedBlock b style cs inp)
  unfold boundedBlock
  split
  · exact C16.callsLe_mono _ _ _ (by omega) (callsLe_computeBlockLayout style cs inp)
  · trivial

mutual
/-- **FanBlockOnly b**: outside `display:none` subtrees every node is childless or a `display:block` container with at
most `b` children -/
def FanBlockOnly (b : Nat) : STree α → Prop
  | .node s _ kids => s.display = .none ∨ ((kids = [] ∨ s.display = .block) ∧ kids.length ≤ b ∧ FanBlockOnlyList b kids)
def FanBlockOnlyList (b : Nat) : List (STree α) → Prop
  | [] => True
  | t :: ts => FanBlockOnly b t ∧ FanBlockOnlyList b ts
end

mutual
theorem FanBlockOnly_agree (b : Nat) (sel : Display → Bool → Option Callee) (hsel : DocSel sel)
    (flex grid : Style α → List (Style α) → LayoutInput α → ProgM α (LayoutOutput α)) :
    ∀ t : STree α, FanBlockOnly b t → AgreeOn sel (EvalConcrete.algs flex grid) (algsFan b) t
  | .node s ctx kids, h => by
    simp only [FanBlockOnly] at h
    simp only [AgreeOn]
    rcases h with hd | ⟨hk, hl, hks⟩
    · refine ⟨fun inp => ?_, fun _ => rfl, fun hn => ?_⟩
      · rw [bodyOf_doc sel hsel, bodyOf_doc sel hsel, hd]
      · rw [hsel, hd] at hn
        exact absurd rfl hn
    · refine ⟨fun inp => ?_, fun _ => rfl, fun _ => FanBlockOnlyList_agree b sel hsel flex grid kids hks⟩
      rw [bodyOf_doc sel hsel, bodyOf_doc sel hsel]
      rcases hk with hk | hb
      · subst hk
        cases s.display <;> rfl
      · rw [hb]
        cases kids with
        | nil => rfl
        | cons k ks =>
          have hl' : ((k :: ks).map STree.style).length ≤ b := by simpa using hl
          simp only [EvalConcrete.algs, algsFan, boundedBlock, hl', if_true]
theorem FanBlockOnlyList_agree (b : Nat) (sel : Display → Bool → Option Callee) (hsel : DocSel sel)
    (flex grid : Style α → List (Style α) → LayoutInput α → ProgM α (LayoutOutput α)) :
    ∀ ts : List (STree α), FanBlockOnlyList b ts → AgreeOnList sel (EvalConcrete.algs flex grid) (algsFan b) ts
  | [], _ => trivial
  | t :: ts, h => ⟨FanBlockOnly_agree b sel hsel flex grid t h.1, FanBlockOnlyList_agree b sel hsel flex grid ts h.2⟩
end

end EvalBlock
