/-
  C10, tree-level theorem — part 3: algebra of `MarginSet`s as folds of lists (`C10Tree.toSet`), and what the family's
  style restrictions (`styleOk`: px lengths, border-box, no aspect ratio, …) make of the style-dependent expressions of
  Model/Block.lean (`generateItem`, `itemMargin`, `resolveStyleSize`, …).
-/
import TaffyVerif.Lemmas.C10TreeFamily
import TaffyVerif.Props.C10Tree

set_option linter.unusedSectionVars false

namespace C10Thm
open MarginCollapse BlockModel C10Tree C10Conv

/-! ## margin sets -/

theorem marginSet_ext (a b : MarginSet Rat) (h1 : a.positive = b.positive) (h2 : a.negative = b.negative) : a = b := by
  cases a; cases b; simp_all

theorem cws_comm (a b : MarginSet Rat) : a.collapseWithSet b = b.collapseWithSet a := by
  apply marginSet_ext <;> simp [MarginSet.collapseWithSet, rat_fmax, rat_fmin, max_comm, min_comm]

theorem cws_assoc (a b c : MarginSet Rat) : (a.collapseWithSet b).collapseWithSet c = a.collapseWithSet (b.collapseWithSet c) := by
  apply marginSet_ext <;> simp [MarginSet.collapseWithSet, rat_fmax, rat_fmin, max_assoc, min_assoc]

theorem cws_self (a : MarginSet Rat) : a.collapseWithSet a = a := by
  apply marginSet_ext <;> simp [MarginSet.collapseWithSet, rat_fmax, rat_fmin]

theorem toSet_nil : toSet [] = (MarginSet.zero : MarginSet Rat) := rfl

theorem toSet_snoc (l : List Rat) (m : Rat) : (toSet l).collapseWithMargin m = toSet (l ++ [m]) := by
  simp [toSet, List.foldl_append]

theorem toSet_single (m : Rat) : toSet [m] = (MarginSet.zero : MarginSet Rat).collapseWithMargin m := rfl

theorem cwm_eq_cws (s : MarginSet Rat) (l : List Rat) (m : Rat) (h : s = toSet l) :
    s.collapseWithMargin m = s.collapseWithSet (toSet [m]) := by
  rw [h, toSet_snoc, toSet_append]

theorem toSet_comm (a b : List Rat) : toSet (a ++ b) = toSet (b ++ a) := by
  rw [toSet_append, toSet_append, cws_comm]

theorem toSet_cons (m : Rat) (l : List Rat) : toSet (m :: l) = toSet (l ++ [m]) := by
  have : m :: l = [m] ++ l := rfl
  rw [this, toSet_comm]

theorem fromMargin_eq (m : Rat) : MarginSet.fromMargin m = toSet [m] := by
  rw [toSet_single]
  rcases le_or_gt 0 m with h | h
  · simp [MarginSet.fromMargin, MarginSet.collapseWithMargin, MarginSet.zero, rat_fge, rat_fmax, h]
  · have h' : ¬ (0 ≤ m) := not_le.mpr h
    simp [MarginSet.fromMargin, MarginSet.collapseWithMargin, MarginSet.zero, rat_fge, rat_fmin, h', le_of_lt h]

theorem fromMargin_cwm (m : Rat) : (MarginSet.fromMargin m).collapseWithMargin m = toSet [m] := by
  rw [fromMargin_eq, toSet_snoc]
  have : [m] ++ [m] = [m] ++ [m] := rfl
  rw [toSet_append, cws_self]


/-! ## px styles -/

/-- the facts `styleOk` packs -/
structure Px (s : Style Rat) : Prop where
  bs : s.boxSizing = .borderBox
  ox : s.overflow.x = .visible
  oy : s.overflow.y = .visible
  ar : s.aspectRatio = none
  tbl : s.itemIsTable = false
  il : s.position = .relative → s.inset.left = .auto
  ir : s.position = .relative → s.inset.right = .auto
  it : s.position = .relative → s.inset.top = .auto
  ib : s.position = .relative → s.inset.bottom = .auto
  maxW : s.maxSize.width = .auto
  maxH : s.maxSize.height = .auto
  minW : s.minSize.width = .auto
  h : isDim s.size.height = true
  w : isDim s.size.width = true
  minH : isDim s.minSize.height = true
  mt : isLen s.margin.top = true
  mb : isLen s.margin.bottom = true
  ml : isLen s.margin.left = true
  mr : isLen s.margin.right = true
  pt : isLenP s.padding.top = true
  pb : isLenP s.padding.bottom = true
  pl : isLenP s.padding.left = true
  pr : isLenP s.padding.right = true
  bt : isLenP s.border.top = true
  bb : isLenP s.border.bottom = true
  bl : isLenP s.border.left = true
  br : isLenP s.border.right = true

theorem beq_enum_eq {β : Type} [DecidableEq β] [BEq β] [LawfulBEq β] (a b : β) (h : (a == b) = true) : a = b := by
  exact eq_of_beq h

theorem styleOk_px (s : Style Rat) (ctx : Option (MeasureSpec Rat)) (leaf : Bool) (h : styleOk s ctx leaf = true) : Px s := by
  simp only [styleOk, Bool.and_eq_true] at h
  obtain ⟨⟨⟨⟨⟨⟨⟨⟨⟨⟨⟨⟨⟨⟨⟨⟨⟨⟨⟨⟨⟨⟨h1, h2⟩, h3⟩, h4⟩, h5⟩, h6⟩, h7⟩, h8⟩, h9⟩, h10⟩, h11⟩, m1⟩, m2⟩, m3⟩, m4⟩, p1⟩, p2⟩, p3⟩, p4⟩, b1⟩, b2⟩, b3⟩, b4⟩ := h
  have hins : s.position = .relative → (isAuto s.inset.left && isAuto s.inset.right && isAuto s.inset.top && isAuto s.inset.bottom) = true := by
    intro hp
    rw [hp] at h6
    have hne : (Position.relative != Position.relative) = false := rfl
    rw [hne, Bool.false_or] at h6
    exact h6
  refine ⟨?_, ?_, ?_, ?_, ?_, ?_, ?_, ?_, ?_, isAuto_elim _ h7.1.1, isAuto_elim _ h7.1.2, isAuto_elim _ h7.2,
    h8, h9, h10, m1, m2, m3, m4, p1, p2, p3, p4, b1, b2, b3, b4⟩
  · cases hb : s.boxSizing
    · rfl
    · rw [hb] at h1; exact absurd h1 (by decide)
  · cases hb : s.overflow.x
    · rfl
    all_goals (rw [hb] at h2; exact absurd h2 (by decide))
  · cases hb : s.overflow.y
    · rfl
    all_goals (rw [hb] at h3; exact absurd h3 (by decide))
  · cases hb : s.aspectRatio
    · rfl
    · rw [hb] at h4; cases h4
  · simpa using h5
  · intro hp; have := hins hp; simp only [Bool.and_eq_true] at this; exact isAuto_elim _ this.1.1.1
  · intro hp; have := hins hp; simp only [Bool.and_eq_true] at this; exact isAuto_elim _ this.1.1.2
  · intro hp; have := hins hp; simp only [Bool.and_eq_true] at this; exact isAuto_elim _ this.1.2
  · intro hp; have := hins hp; simp only [Bool.and_eq_true] at this; exact isAuto_elim _ this.2

/-! atomic resolution lemmas -/
theorem lpa_resolveToOption (x : LPA Rat) (h : isLen x = true) (w : Rat) : x.resolveToOption w = some (pxA x) := by
  cases x <;> simp_all [isLen, LPA.resolveToOption, pxA]
theorem lpa_resolveOrZero (x : LPA Rat) (h : isLen x = true) (ctx : Option Rat) : x.resolveOrZero ctx = pxA x := by
  cases x <;> simp_all [isLen, LPA.resolveOrZero, LPA.maybeResolve, pxA]
theorem lp_resolveOrZero (x : LP Rat) (h : isLenP x = true) (ctx : Option Rat) : x.resolveOrZero ctx = pxP x := by
  cases x <;> simp_all [isLenP, LP.resolveOrZero, LP.maybeResolve, pxP]
theorem dim_maybeResolve (x : Dimension Rat) (h : isDim x = true) (ctx : Option Rat) : x.maybeResolve ctx = dimO x := by
  cases x <;> simp_all [isDim, LPA.maybeResolve, dimO]


/-! item facts -/
theorem item_margin (c : FlowCtx Rat) (idx order : Nat) (cs : Style Rat) (inner : Size (Option Rat)) (h : Px cs) :
    itemMargin c (generateItem idx order cs inner)
      = ⟨some (pxA cs.margin.left), some (pxA cs.margin.right), some (pxA cs.margin.top), some (pxA cs.margin.bottom)⟩ := by
  simp only [itemMargin, generateItem, lpa_resolveToOption _ h.ml, lpa_resolveToOption _ h.mr,
    lpa_resolveToOption _ h.mt, lpa_resolveToOption _ h.mb]

theorem item_topSet (c : FlowCtx Rat) (idx order : Nat) (cs : Style Rat) (inner : Size (Option Rat)) (h : Px cs)
    (out : LayoutOutput Rat) :
    topMarginSet c (generateItem idx order cs inner) out = out.topMargin.collapseWithMargin (pxA cs.margin.top) := by
  simp only [topMarginSet, item_margin c idx order cs inner h, Option.getD_some]

theorem item_bottomSet (c : FlowCtx Rat) (idx order : Nat) (cs : Style Rat) (inner : Size (Option Rat)) (h : Px cs)
    (out : LayoutOutput Rat) :
    bottomMarginSet c (generateItem idx order cs inner) out = out.bottomMargin.collapseWithMargin (pxA cs.margin.bottom) := by
  simp only [bottomMarginSet, item_margin c idx order cs inner h, Option.getD_some]

theorem item_insetY (idx order : Nat) (cs : Style Rat) (inner : Size (Option Rat)) (h : Px cs)
    (hp : cs.position = .relative) : insetOffsetY (generateItem idx order cs inner) = 0 := by
  simp only [insetOffsetY, generateItem, h.it hp, h.ib hp, LPA.maybeResolve]
  rfl

theorem isDim_auto : isDim (LPA.auto : Dimension Rat) = true := rfl
theorem dimO_auto : dimO (LPA.auto : Dimension Rat) = none := rfl

theorem optmap_add_zero (o : Option Rat) : Option.map (fun v => v + 0) o = o := by
  cases o <;> simp

theorem resolveStyleSize_px (d : Size (Dimension Rat)) (hw : isDim d.width = true) (hh : isDim d.height = true)
    (ctx : Size (Option Rat)) (s : Style Rat) (h : Px s) (pb : Size Rat) :
    resolveStyleSize d ctx s.aspectRatio (boxSizingAdjustment s pb) = ⟨dimO d.width, dimO d.height⟩ := by
  have hb : (BoxSizing.borderBox == BoxSizing.contentBox) = false := rfl
  simp only [resolveStyleSize, Resolve.sizeMaybe, boxSizingAdjustment, h.bs, h.ar, hb,
    Size.maybeApplyAspectRatio, dim_maybeResolve _ hw, dim_maybeResolve _ hh, Size.of_add, MaybeMath.of_add, Size.zero,
    Bool.false_eq_true, if_false, optmap_add_zero]

theorem item_sizes (idx order : Nat) (cs : Style Rat) (inner : Size (Option Rat)) (h : Px cs) :
    (generateItem idx order cs inner).size = ⟨dimO cs.size.width, dimO cs.size.height⟩ ∧
    (generateItem idx order cs inner).minSize = ⟨none, dimO cs.minSize.height⟩ ∧
    (generateItem idx order cs inner).maxSize = ⟨none, none⟩ := by
  have e1 := resolveStyleSize_px cs.size h.w h.h inner cs h
  have e2 := resolveStyleSize_px cs.minSize (by rw [h.minW]; rfl) h.minH inner cs h
  have e3 := resolveStyleSize_px cs.maxSize (by rw [h.maxW]; rfl) (by rw [h.maxH]; rfl) inner cs h
  simp only [generateItem, e1, e2, e3, h.minW, h.maxW, h.maxH, dimO_auto, and_self]

end C10Thm
