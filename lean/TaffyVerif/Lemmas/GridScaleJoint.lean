/-
  C04 for grid: `compute_grid_layout` with its three absolute constants as PARAMETERS (`gridAlgT one θd θi`), equal to
  `gridAlg` at the real constants (`gridAlgT_real`), and a kernel-evaluable form of it (`gridAlgTK`, `gridAlgTK_eq`:
  `List.mergeSort` replaced by `GridKernel.msort`) for the examples.  No Mathlib.
-/
import TaffyVerif.Lemmas.GridScaleTheta
import TaffyVerif.Lemmas.GridBoxKernel

set_option linter.unusedSectionVars false
set_option linter.unusedVariables false

namespace GridTheta
open GridModel GridTracks GridStages GridRel GridScale GridKernel
variable {α : Type} [Num α] [NumCast α]

/-- **gridAlgT**: `compute_grid_layout` with the 1px substitute (`one`), `distribute_space_up_to_limits`' THRESHOLD
(`θd`) and `distribute_item_space_to_base_size_inner`'s THRESHOLD (`θi`) as parameters -/
def gridAlgT (one θd θi : α) : Style α → List (Style α) → LayoutInput α → ProgM α (LayoutOutput α) :=
  gridAlgG (computeExplicitT one) (trackSizingAlgorithmT θd θi)

/-- **gridAlgT_real** -/
theorem gridAlgT_real : (gridAlgT (1 : α) thresholdDist thresholdItem) = gridAlg := by
  unfold gridAlgT
  rw [computeExplicitT_eq, trackSizingAlgorithmT_eq, gridAlgG_eq]

/-! ### kernel-evaluable form -/

def resolveIntrinsicTrackSizesTK (θd θi : α) (s : Sizer α) (tracks : List (GridTrack α)) (items : List (GItem α))
    (avail : AvailableSpace α) : GM α (List (GItem α) × List (GridTrack α)) := do
  let axis := s.axis
  let items := msort items (GridModel.itemLe axis)
  let axisInner := sget s.innerNodeSize axis
  let flexFactorSum : α := sumF (tracks.map (·.flexFactor))
  let (items, tracks) ← batchLoopT θd θi s avail axisInner flexFactorSum (items.length + 1) items 0 tracks
  let tracks := tracks.map fun t => match t.growthLimit with
    | .inf => { t with growthLimit := .fin t.baseSize }
    | _ => t
  pure (items, tracks)

omit [NumCast α] in
theorem resolveIntrinsicTrackSizesTK_eq (θd θi : α) :
    resolveIntrinsicTrackSizesTK θd θi = resolveIntrinsicTrackSizesT θd θi := by
  funext s tracks items avail
  unfold resolveIntrinsicTrackSizesTK resolveIntrinsicTrackSizesT
  simp only [msort_eq]
  try rfl

def trackSizingAlgorithmTK (θd θi : α) (a : RunArgs α) (st : RunState α) : GM α (RunState α) := do
  let axis := a.axis
  let axisInner := sget a.innerNodeSize axis
  let axisTracks := initializeTrackSizes st.axisTracks axisInner
  let items ← (if a.hasBaselineAlignedItem then resolveItemBaselinesK axis st.items a.innerNodeSize
    else pure st.items : GM α (List (GItem α)))
  if axisTracks.all (fun t => t.growthLimit.eqF t.baseSize) then
    pure { axisTracks, otherAxisTracks := st.otherAxisTracks, items }
  else do
  let gutterAlignmentAdjustment := computeAlignmentGutterAdjustment a.otherAxisAlignment
    (sget a.innerNodeSize axis.other) a.est st.otherAxisTracks
  let otherAxisTracks := setGutterAdjustment gutterAlignmentAdjustment st.otherAxisTracks
  let avail := sget a.availableGridSpace axis
  let sizer : Sizer α := { otherAxisTracks, est := a.est, axis, innerNodeSize := a.innerNodeSize }
  let (items, axisTracks) ← resolveIntrinsicTrackSizesTK θd θi sizer axisTracks items avail
  let axisTracks := maximiseTracksT θd axisTracks axisInner avail
  let availForExpansion : AvailableSpace α := match axisInner with
    | some s => .definite s
    | none => match avail with
      | .minContent => .minContent
      | _ => .maxContent
  let (items, axisTracks) ←
    expandFlexibleTracksM axis axisTracks items a.axisMinSize a.axisMaxSize availForExpansion a.innerNodeSize
  let axisTracks :=
    if a.axisAlignment == .stretch then stretchAutoTracks axisTracks a.axisMinSize availForExpansion else axisTracks
  pure { axisTracks, otherAxisTracks, items }

omit [NumCast α] in
theorem trackSizingAlgorithmTK_eq (θd θi : α) : trackSizingAlgorithmTK θd θi = trackSizingAlgorithmT θd θi := by
  funext a st
  unfold trackSizingAlgorithmTK trackSizingAlgorithmT
  simp only [resolveItemBaselinesK_eq, resolveIntrinsicTrackSizesTK_eq]
  try rfl

def gridAfterSizingGK (ts : TS α) (c : Ctx α) (childStyles : List (GridChildStyle α)) (inputs : LayoutInput α)
    (hasBaselineAlignedItem : Bool) (colCounts rowCounts : GridPlacement.TrackCounts) (innerNodeSize0 : Size (Option α))
    (initialColumnSum : α) (st : RunState α) : GM α (LayoutOutput α) :=
  let rows := st.axisTracks
  let columns := st.otherAxisTracks
  let items := st.items
  let initialRowSum : α := sumF (rows.map (·.baseSize))
  let innerNodeSize : Size (Option α) :=
    { innerNodeSize0 with height := innerNodeSize0.height.or (some initialRowSum) }
  let containerBorderBox := containerBorderBoxOf c inputs.knownDimensions initialColumnSum initialRowSum
  let containerContentBox := containerContentBoxOf c containerBorderBox
  if inputs.runMode == .computeSize then pure (LayoutOutput.fromOuterSize containerBorderBox) else
  gridRerunKG ts c inputs.availableSpace hasBaselineAlignedItem containerContentBox innerNodeSize columns rows items
    (gridFinishK c childStyles containerBorderBox containerContentBox colCounts rowCounts)

theorem gridAfterSizingGK_eq (ts : TS α) : gridAfterSizingGK ts = gridAfterSizingG ts := by
  funext c cs inp hb cc rc ins ics st
  unfold gridAfterSizingGK gridAfterSizingG
  rw [gridFinishK_eq]

def gridSizingGK (ts : TS α) (c : Ctx α) (childStyles : List (GridChildStyle α)) (inputs : LayoutInput α)
    (su : Setup α) : GM α (LayoutOutput α) := do
  let hasBaselineAlignedItem := su.items.any fun it => it.alignSelf == .baseline
  let st ← ts (colArgs c hasBaselineAlignedItem)
    { axisTracks := su.columns, otherAxisTracks := su.rows, items := su.items }
  let columns := st.axisTracks
  let rows := st.otherAxisTracks
  let items := st.items
  let initialColumnSum : α := sumF (columns.map (·.baseSize))
  let innerNodeSize : Size (Option α) :=
    { c.innerNodeSize with width := c.innerNodeSize.width.or (some initialColumnSum) }
  let items := items.map fun it => { it with availableSpaceCache := none }
  let st ← ts (rowArgs c innerNodeSize) { axisTracks := rows, otherAxisTracks := columns, items }
  gridAfterSizingGK ts c childStyles inputs hasBaselineAlignedItem su.colCounts su.rowCounts innerNodeSize
    initialColumnSum st

theorem gridSizingGK_eq (ts : TS α) : gridSizingGK ts = gridSizingG ts := by
  funext c cs inp su
  unfold gridSizingGK gridSizingG
  rw [gridAfterSizingGK_eq]

def computeGridLayoutEGK (ceg : CEG α) (ts : TS α) (style : GridStyle α) (childStyles : List (GridChildStyle α))
    (inputs : LayoutInput α) : GM α (LayoutOutput α) :=
  match inputs.runMode, (mkCtx style.base inputs).outerNodeSize.width,
      (mkCtx style.base inputs).outerNodeSize.height with
  | .computeSize, some width, some height => pure (LayoutOutput.fromOuterSize ⟨width, height⟩)
  | _, _, _ =>
    gridSetupKG ceg style childStyles (mkCtx style.base inputs)
      (gridSizingGK ts (mkCtx style.base inputs) childStyles inputs)

theorem computeGridLayoutEGK_eq (ceg : CEG α) (ts : TS α) : computeGridLayoutEGK ceg ts = computeGridLayoutEG ceg ts := by
  funext style cs inp
  unfold computeGridLayoutEGK computeGridLayoutEG
  rw [gridSizingGK_eq]
  rfl

/-- `gridAlgT` in kernel-evaluable form -/
def gridAlgTK (one θd θi : α) (s : Style α) (cs : List (Style α)) (inp : LayoutInput α) : ProgM α (LayoutOutput α) := do
  match ← (computeGridLayoutEGK (computeExplicitT one) (trackSizingAlgorithmTK θd θi) (GridStyle.ofStyle s)
      (cs.map GridChildStyle.ofStyle) inp).run with
  | .ok out => pure out
  | .error _ => pure LayoutOutput.hidden

/-- **gridAlgTK_eq** -/
theorem gridAlgTK_eq (one θd θi : α) : gridAlgTK one θd θi = gridAlgT one θd θi := by
  funext s cs inp
  unfold gridAlgTK gridAlgT gridAlgG
  rw [computeGridLayoutEGK_eq, trackSizingAlgorithmTK_eq]
  rfl

end GridTheta
