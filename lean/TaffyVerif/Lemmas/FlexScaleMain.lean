/-
  C04 for flexbox, part 6: `determine_container_main_size`.

  The definite / wrapping-min-content arms are pure and homogeneous.  The intrinsic arm (min- or max-content main size of a
  container without definite main size) sends homogeneous QUERIES, but computes
      content_flex_fraction = diff / max(1, flex_shrink · inner_flex_basis)         when diff < 0
  — a length (`inner_flex_basis`, times a factor) compared with the literal 1 (flexbox.rs l.1095).  `ItemFloorFree k i`
  is the exact condition under which the item leaves the arm as the scaled item:
      content_flex_fraction < 0 → inner_flex_basis = 0 ∨ (1 ≤ flex_shrink·inner_flex_basis ∧ 1 ≤ k·flex_shrink·inner_flex_basis)
-/
import TaffyVerif.Lemmas.FlexScaleProg2

set_option linter.unusedSectionVars false
set_option linter.unusedVariables false
set_option linter.unusedSimpArgs false

namespace C04
open Scalable FlexModel FlexStages BlockModel
open FlexLine (sumF sumAxisGaps)

variable {k : Rat}

/-- the side condition on one item as it leaves `determine_container_main_size` (decidable) -/
def ItemFloorFree (k : Rat) (i : FlexItem Rat) : Prop :=
  i.contentFlexFraction < 0 →
    i.innerFlexBasis = 0 ∨ (1 ≤ i.flexShrink * i.innerFlexBasis ∧ 1 ≤ k * (i.flexShrink * i.innerFlexBasis))

instance (k : Rat) (i : FlexItem Rat) : Decidable (ItemFloorFree k i) := by unfold ItemFloorFree; exact inferInstance

def ItemsFloorFree (k : Rat) (items : List (FlexItem Rat)) : Prop := ∀ i ∈ items, ItemFloorFree k i
def LinesFloorFree (k : Rat) (lines : List (FlexLineS Rat)) : Prop := ∀ l ∈ lines, ItemsFloorFree k l.items

instance (k : Rat) (items : List (FlexItem Rat)) : Decidable (ItemsFloorFree k items) := by
  unfold ItemsFloorFree; exact inferInstance
instance (k : Rat) (lines : List (FlexLineS Rat)) : Decidable (LinesFloorFree k lines) := by
  unfold LinesFloorFree; exact inferInstance

/-! ### the pure pieces of the intrinsic arm -/

theorem inClampingBasis_scale (hk : 0 < k) (c : AlgoConstants Rat) (item : FlexItem Rat) :
    inClampingBasis (scale k c) (scale k item) = scale k (inClampingBasis c item) := by
  simp only [inClampingBasis, fxk_dir, fxi_flexBasis, fxi_size, Size.main_scale, ← scale_some, oo_max_scale hk]

theorem inBasisMin_scale (hk : 0 < k) (c : AlgoConstants Rat) (item : FlexItem Rat) :
    inBasisMin (scale k c) (scale k item) = scale k (inBasisMin c item) := by
  simp only [inBasisMin, inClampingBasis_scale hk, fxi_flexShrink]
  split <;> rfl

theorem inBasisMax_scale (hk : 0 < k) (c : AlgoConstants Rat) (item : FlexItem Rat) :
    inBasisMax (scale k c) (scale k item) = scale k (inBasisMax c item) := by
  simp only [inBasisMax, inClampingBasis_scale hk, fxi_flexGrow]
  split <;> rfl

theorem inMinMain_scale (hk : 0 < k) (c : AlgoConstants Rat) (item : FlexItem Rat) :
    inMinMain (scale k c) (scale k item) = scale k (inMinMain c item) := by
  simp only [inMinMain, inBasisMin_scale hk, fxk_dir, fxi_minSize, fxi_resolvedMinimumMainSize, Size.main_scale,
    oo_max_scale hk, or_scale, getD_scale, fmax_scale hk]

theorem inMaxMain_scale (hk : 0 < k) (c : AlgoConstants Rat) (item : FlexItem Rat) :
    inMaxMain (scale k c) (scale k item) = scale k (inMaxMain c item) := by
  simp only [inMaxMain, inBasisMax_scale hk, fxk_dir, fxi_maxSize, Size.main_scale, oo_min_scale hk, or_scale]

theorem inMaxLeMin_scale (hk : 0 < k) (c : AlgoConstants Rat) (item : FlexItem Rat) :
    inMaxLeMin (scale k c) (scale k item) = inMaxLeMin c item := by
  simp only [inMaxLeMin, inMaxMain_scale hk, inMinMain_scale hk]
  cases inMaxMain c item with
  | none => rfl
  | some mx => simp only [scale_some, fle_scale hk]

theorem inArm1_scale (hk : 0 < k) (c : AlgoConstants Rat) (item : FlexItem Rat) :
    inArm1 (scale k c) (scale k item) = scale k (inArm1 c item) := by
  simp only [inArm1, inMaxMain_scale hk, inMinMain_scale hk, fxk_dir, fxi_size, fxi_margin, Size.main_scale,
    Rect.mainAxisSum_scale]
  cases item.size.main c.dir with
  | none => rfl
  | some pref =>
    cases inMaxMain c item with
    | none => rfl
    | some mx =>
      simp only [scale_some, fle_scale hk, fmin_scale hk, fmax_scale hk, add_scale]
      split <;> rfl

theorem inCrossAvail_scale (hk : 0 < k) (c : AlgoConstants Rat) (av : Size (AvailableSpace Rat)) (item : FlexItem Rat) :
    inCrossAvail (scale k c) (scale k av) (scale k item) = scale k (inCrossAvail c av item) := by
  simp only [inCrossAvail, fxk_dir, fxk_nodeInnerSize, fxk_margin, fxi_minSize, fxi_maxSize, Size.cross_scale,
    Rect.crossAxisSum_scale, of_add_scale hk]
  cases av.cross c.dir with
  | definite v =>
    simp only [scale_definite, getD_scale]
    exact ao_clamp_scale hk (.definite _) _ _
  | minContent => exact ao_clamp_scale hk .minContent _ _
  | maxContent => exact ao_clamp_scale hk .maxContent _ _

theorem inContentRow_scale (hk : 0 < k) (c : AlgoConstants Rat) (inset : Rat) (item : FlexItem Rat) (m : Rat) :
    inContentRow (scale k c) (scale k inset) (scale k item) (scale k m) = scale k (inContentRow c inset item m) := by
  simp only [inContentRow, scale_simp, hk]

theorem inContentCol_scale (hk : 0 < k) (c : AlgoConstants Rat) (inset : Rat) (item : FlexItem Rat) (m : Rat) :
    inContentCol (scale k c) (scale k inset) (scale k item) (scale k m) = scale k (inContentCol c inset item m) := by
  simp only [inContentCol, scale_simp, hk]

/-! ### the floor -/

theorem one_le_fmax_one (x : Rat) : 1 ≤ Num.fmax (1 : Rat) x := by
  rw [fmax_def]; split <;> linarith

theorem inFraction_of_neg (item : FlexItem Rat) (cc : Rat) (h : cc - item.flexBasis < 0) :
    inFraction item cc = (cc - item.flexBasis) / Num.fmax 1 (item.flexShrink * item.innerFlexBasis) := by
  unfold inFraction
  simp only [fgt_def, flt_def, decide_eq_true_eq]
  rw [if_neg (not_lt.2 h.le), if_pos h]

theorem inFraction_of_pos (item : FlexItem Rat) (cc : Rat) (h : 0 < cc - item.flexBasis) :
    inFraction item cc = (cc - item.flexBasis) / Num.fmax 1 item.flexGrow := by
  unfold inFraction
  simp only [fgt_def, flt_def, decide_eq_true_eq]
  rw [if_pos h]

theorem inFraction_of_zero (item : FlexItem Rat) (cc : Rat) (h : cc - item.flexBasis = 0) :
    inFraction item cc = 0 := by
  unfold inFraction
  simp only [fgt_def, flt_def, decide_eq_true_eq, h, lt_self_iff_false, if_false]

/-- the sign of `content_flex_fraction` is the sign of `diff` -/
theorem inFraction_neg (item : FlexItem Rat) (cc : Rat) : inFraction item cc < 0 ↔ cc - item.flexBasis < 0 := by
  have h1 := one_le_fmax_one item.flexGrow
  have h2 := one_le_fmax_one (item.flexShrink * item.innerFlexBasis)
  rcases lt_trichotomy (cc - item.flexBasis) 0 with h | h | h
  · rw [inFraction_of_neg item cc h]
    refine ⟨fun _ => h, fun _ => ?_⟩
    have := div_pos (neg_pos.2 h) (show (0 : Rat) < Num.fmax 1 (item.flexShrink * item.innerFlexBasis) by linarith)
    rw [neg_div] at this
    linarith
  · rw [inFraction_of_zero item cc h, h]
  · rw [inFraction_of_pos item cc h]
    have : 0 < (cc - item.flexBasis) / Num.fmax 1 item.flexGrow := div_pos h (by linarith)
    constructor <;> intro hh <;> linarith

theorem scaled_diff (k : Rat) (item : FlexItem Rat) (cc : Rat) :
    scale k cc - (scale k item).flexBasis = k * (cc - item.flexBasis) := by
  rw [fxi_flexBasis, scale_rat, scale_rat]; ring

/-- **the floor**: `content_flex_fraction` of the scaled item, under the side condition -/
theorem inFraction_scale (hk : 0 < k) (item : FlexItem Rat) (cc : Rat)
    (h : cc - item.flexBasis < 0 → item.innerFlexBasis = 0 ∨
      (1 ≤ item.flexShrink * item.innerFlexBasis ∧ 1 ≤ k * (item.flexShrink * item.innerFlexBasis))) :
    inFraction (scale k item) (scale k cc) =
      cffScale k (inFraction item cc) item.flexShrink item.innerFlexBasis := by
  have hsd := scaled_diff k item cc
  unfold cffScale
  rcases lt_trichotomy (cc - item.flexBasis) 0 with hd | hd | hd
  · have hd' : scale k cc - (scale k item).flexBasis < 0 := by rw [hsd]; exact mul_neg_of_pos_of_neg hk hd
    rw [inFraction_of_neg _ _ hd', hsd, fxi_flexShrink, fxi_innerFlexBasis]
    have hF := (inFraction_neg item cc).2 hd
    rw [inFraction_of_neg item cc hd] at hF ⊢
    rcases h hd with hb | ⟨hp, hkp⟩
    · have hnp1 : ¬ (1 ≤ item.flexShrink * item.innerFlexBasis) := by rw [hb]; norm_num
      rw [if_neg (fun hh => hnp1 hh.2), hb, scale_rat, scale_rat]
      simp only [mul_zero]
      ring
    · rw [if_pos ⟨hF, hp⟩]
      have e1 : Num.fmax (1 : Rat) (item.flexShrink * item.innerFlexBasis) = item.flexShrink * item.innerFlexBasis := by
        rw [fmax_def, if_pos hp]
      have e2 : Num.fmax (1 : Rat) (item.flexShrink * scale k item.innerFlexBasis) =
          k * (item.flexShrink * item.innerFlexBasis) := by
        have : item.flexShrink * scale k item.innerFlexBasis = k * (item.flexShrink * item.innerFlexBasis) := by
          rw [scale_rat]; ring
        rw [this, fmax_def, if_pos hkp]
      rw [e1, e2]
      have hne : item.flexShrink * item.innerFlexBasis ≠ 0 := by
        intro h0; rw [h0] at hp; norm_num at hp
      field_simp
  · have hd' : scale k cc - (scale k item).flexBasis = 0 := by rw [hsd, hd, mul_zero]
    rw [inFraction_of_zero _ _ hd', inFraction_of_zero _ _ hd]
    simp only [lt_self_iff_false, false_and, if_false, scale_zero]
  · have hd' : 0 < scale k cc - (scale k item).flexBasis := by rw [hsd]; exact mul_pos hk hd
    have hn : ¬ (inFraction item cc < 0) := fun hh => absurd ((inFraction_neg item cc).1 hh) (not_lt.2 hd.le)
    rw [inFraction_of_pos _ _ hd', hsd, fxi_flexGrow, if_neg (fun hh => hn hh.1), inFraction_of_pos _ _ hd, scale_rat]
    ring

theorem inFinish_scale (hk : 0 < k) (item : FlexItem Rat) (cc : Rat) (h : ItemFloorFree k (inFinish item cc)) :
    inFinish (scale k item) (scale k cc) = scale k (inFinish item cc) := by
  have h' : cc - item.flexBasis < 0 → item.innerFlexBasis = 0 ∨
      (1 ≤ item.flexShrink * item.innerFlexBasis ∧ 1 ≤ k * (item.flexShrink * item.innerFlexBasis)) :=
    fun hd => h ((inFraction_neg item cc).2 hd)
  unfold inFinish
  rw [inFraction_scale hk item cc h']
  simp only [scale_fxi_mk, fxi_nodeIdx, fxi_order, fxi_size, fxi_minSize, fxi_maxSize, fxi_alignSelf,
    fxi_overflow, fxi_scrollbarWidth, fxi_flexShrink, fxi_flexGrow, fxi_resolvedMinimumMainSize, fxi_inset, fxi_margin,
    fxi_marginIsAuto, fxi_padding, fxi_border, fxi_flexBasis, fxi_innerFlexBasis, fxi_violation, fxi_frozen,
    fxi_hypotheticalInnerSize, fxi_hypotheticalOuterSize, fxi_targetSize, fxi_outerTargetSize, fxi_baseline,
    fxi_offsetMain, fxi_offsetCross]

/-! ### the intrinsic arm as programs -/

/-- the content contribution of one item (everything before the floor) is homogeneous -/
theorem inContribution_scale (hk : 0 < k) (c : AlgoConstants Rat) (av : Size (AvailableSpace Rat)) (inset : Rat)
    (item : FlexItem Rat) :
    inContribution (scale k c) (scale k av) (scale k inset) (scale k item) =
      scaleProg k (inContribution c av inset item) := by
  unfold inContribution
  rw [inArm1_scale hk, inMaxLeMin_scale hk, inMinMain_scale hk, inCrossAvail_scale hk, fxk_dir, fxk_isRow,
    fxk_nodeInnerSize, fxi_nodeIdx, fxi_margin, fxi_flexBasis, Rect.mainAxisSum_scale,
    childKnownDimensions_scale hk, setCross_scale]
  have hs : (scale k item).isScrollContainer = item.isScrollContainer := rfl
  rw [hs]
  cases inArm1 c item with
  | some v => rfl
  | none =>
    simp only [scale_none]
    split
    · simp only [add_scale]; rfl
    · split
      · simp only [add_scale]; rfl
      · apply bind_scale_of
        · exact measureChildSize_scale hk _ _ _ _ _ _ _
        · intro m
          split
          · rw [inContentRow_scale hk]; rfl
          · rw [inContentCol_scale hk]; rfl

theorem intrinsicItem_sim (hk : 0 < k) (c : AlgoConstants Rat) (av : Size (AvailableSpace Rat)) (inset : Rat)
    (item : FlexItem Rat) :
    SimS k (fun i' i => ItemFloorFree k i → i' = scale k i)
      (intrinsicItem (scale k c) (scale k av) (scale k inset) (scale k item)) (intrinsicItem c av inset item) := by
  rw [intrinsicItem_eq, intrinsicItem_eq]
  refine SimS.bind (SimS.of_eq' hk (inContribution_scale hk c av inset item)) fun cc' cc hcc => ?_
  subst hcc
  exact .pure _ _ fun h => inFinish_scale hk item cc h

theorem intrinsicItems_sim (hk : 0 < k) (c : AlgoConstants Rat) (av : Size (AvailableSpace Rat)) (inset : Rat) :
    ∀ (items : List (FlexItem Rat)),
      SimS k (fun l' l => ItemsFloorFree k l → l' = scale k l)
        (intrinsicItems (scale k c) (scale k av) (scale k inset) (scale k items)) (intrinsicItems c av inset items)
  | [] => .pure _ _ fun _ => rfl
  | item :: rest => by
    rw [scale_cons]
    unfold intrinsicItems
    refine SimS.bind (intrinsicItem_sim hk c av inset item) fun i' i hi => ?_
    refine SimS.bind (intrinsicItems_sim hk c av inset rest) fun r' r hr => ?_
    refine .pure _ _ fun h => ?_
    rw [hi (h i List.mem_cons_self), hr fun x hx => h x (List.mem_cons_of_mem _ hx)]
    rfl

theorem intrinsicTarget_fields (dir : FlexDirection) (i : FlexItem Rat) :
    (intrinsicTarget dir i).1.contentFlexFraction = i.contentFlexFraction ∧
    (intrinsicTarget dir i).1.flexShrink = i.flexShrink ∧
    (intrinsicTarget dir i).1.innerFlexBasis = i.innerFlexBasis := ⟨rfl, rfl, rfl⟩

theorem intrinsicTarget_floorFree (dir : FlexDirection) (i : FlexItem Rat) :
    ItemFloorFree k (intrinsicTarget dir i).1 ↔ ItemFloorFree k i := Iff.rfl

/-- one line of the intrinsic arm after the items' queries: targets, their sum, the running main size -/
theorem intrinsicLine_scale (hk : 0 < k) (c : AlgoConstants Rat) (line : FlexLineS Rat) (items : List (FlexItem Rat))
    (ms : Rat) (h : ItemsFloorFree k items) :
    (({ scale k line with items := ((scale k items).map (intrinsicTarget c.dir)).map (·.1) } : FlexLineS Rat),
      Num.fmax (scale k ms) (sumF (((scale k items).map (intrinsicTarget c.dir)).map (·.2)) +
        sumAxisGaps (scale k (c.gap.main c.dir)) line.items.length)) =
    (scale k ({ line with items := (items.map (intrinsicTarget c.dir)).map (·.1) } : FlexLineS Rat),
      scale k (Num.fmax ms (sumF ((items.map (intrinsicTarget c.dir)).map (·.2)) +
        sumAxisGaps (c.gap.main c.dir) line.items.length))) := by
  have ht : (scale k items).map (intrinsicTarget c.dir) = scale k (items.map (intrinsicTarget c.dir)) := by
    rw [scale_list, scale_list, List.map_map, List.map_map]
    apply List.map_congr_left
    intro i hi
    exact intrinsicTarget_scale hk c.dir i fun hc => by
      rcases h i hi hc with hb | ⟨hp, _⟩
      · exact Or.inl hb
      · exact Or.inr hp
  rw [ht, map_scale_comm k (fun p : FlexItem Rat × Rat => p.1) (fun p : FlexItem Rat × Rat => p.1) (fun _ => rfl),
    map_scale_comm k (fun p : FlexItem Rat × Rat => p.2) (fun p : FlexItem Rat × Rat => p.2) (fun _ => rfl),
    sumF_scale, sumAxisGaps_scale, add_scale, fmax_scale hk]
  rfl

theorem floorFree_of_targets (dir : FlexDirection) (items : List (FlexItem Rat))
    (h : ItemsFloorFree k ((items.map (intrinsicTarget dir)).map (·.1))) : ItemsFloorFree k items := by
  intro i hi
  exact h (intrinsicTarget dir i).1 (List.mem_map.2 ⟨intrinsicTarget dir i, List.mem_map.2 ⟨i, hi, rfl⟩, rfl⟩)

theorem intrinsicLines_sim (hk : 0 < k) (c : AlgoConstants Rat) (av : Size (AvailableSpace Rat)) (inset : Rat) :
    ∀ (lines : List (FlexLineS Rat)) (ms' ms : Rat),
      SimS k (fun r' r => ms' = scale k ms → LinesFloorFree k r.1 → r' = scale k r)
        (intrinsicLines (scale k c) (scale k av) (scale k inset) (scale k lines) ms')
        (intrinsicLines c av inset lines ms)
  | [], ms', ms => .pure _ _ fun h _ => by rw [h]; rfl
  | line :: rest, ms', ms => by
    rw [scale_cons]
    unfold intrinsicLines
    rw [fxl_items]
    refine SimS.bind (intrinsicItems_sim hk c av inset line.items) fun items' items hi => ?_
    simp only [fxk_dir, fxk_gap, Size.main_scale, fxl_items, length_scale]
    refine SimS.bind (intrinsicLines_sim hk c av inset rest _ _) fun r' r hr => ?_
    obtain ⟨rl', rm'⟩ := r'
    obtain ⟨rl, rm⟩ := r
    refine .pure _ _ fun hms hff => ?_
    have hit : ItemsFloorFree k items := floorFree_of_targets c.dir items (hff _ List.mem_cons_self)
    have hl := intrinsicLine_scale hk c line items ms hit
    rw [Prod.mk.injEq] at hl
    have hr' := hr (by rw [hi hit, hms]; exact hl.2) fun l hl' => hff l (List.mem_cons_of_mem _ hl')
    rw [scale_pair, Prod.mk.injEq] at hr'
    show (_ :: rl', rm') = scale k (_ :: rl, rm)
    rw [hr'.1, hr'.2, scale_pair, scale_cons, ← hl.1, hi hit]

end C04
