/-
  C04 for flexbox, part 6: `determine_container_main_size`, the intrinsic arm (min- or max-content main size of a
  container without definite main size).

  For every item the arm sends one homogeneous query (or none) and computes
      content_flex_fraction = diff / max(1, flex_grow)                                      when diff > 0   (a length)
                            = diff / (max(1, flex_shrink) · inner_flex_basis)               when diff < 0   (a number;
                              0 when the scaled shrink factor is not positive)
  (flexbox.rs ll.1088–1107, as repaired: the flex shrink FACTOR is floored at 1, not its product with the inner flex
  basis) and multiplies it back by the same factor: every piece is homogeneous, with no side condition.
-/
import TaffyVerif.Lemmas.FlexScaleProg2

set_option linter.unusedSectionVars false
set_option linter.unusedVariables false
set_option linter.unusedSimpArgs false

namespace C04
open Scalable FlexModel FlexStages BlockModel
open FlexLine (sumF sumAxisGaps)

variable {k : Rat}

/-! ### the pure pieces of the intrinsic arm -/

theorem inClampingBasis_scale (hk : 0 < k) (c : AlgoConstants Rat) (item : FlexItem Rat) :
    inClampingBasis (scale k c) (scale k item) = scale k (inClampingBasis c item) := by
  simp only [inClampingBasis, fxk_dir, fxi_flexBasis, fxi_size, Size.main_scale, ← scale_some, oo_max_scale hk]

theorem inBasisMin_scale (hk : 0 < k) (c : AlgoConstants Rat) (item : FlexItem Rat) :
    inBasisMin (scale k c) (scale k item) = scale k (inBasisMin c item) := by
  simp only [inBasisMin, inClampingBasis_scale hk, fxi_flexShrink]
  split <;> rfl

theorem inBasisMax_scale (hk : 0 < k) (c : AlgoConstants Rat) (item : FlexItem Rat) :
    inBasisMax (scale k c) (scale k item) = scale k (inBasisMax c item) := by
  simp only [inBasisMax, inClampingBasis_scale hk, fxi_flexGrow]
  split <;> rfl

theorem inMinMain_scale (hk : 0 < k) (c : AlgoConstants Rat) (item : FlexItem Rat) :
    inMinMain (scale k c) (scale k item) = scale k (inMinMain c item) := by
  simp only [inMinMain, inBasisMin_scale hk, fxk_dir, fxi_minSize, fxi_resolvedMinimumMainSize, Size.main_scale,
    oo_max_scale hk, or_scale, getD_scale, fmax_scale hk]

theorem inMaxMain_scale (hk : 0 < k) (c : AlgoConstants Rat) (item : FlexItem Rat) :
    inMaxMain (scale k c) (scale k item) = scale k (inMaxMain c item) := by
  simp only [inMaxMain, inBasisMax_scale hk, fxk_dir, fxi_maxSize, Size.main_scale, oo_min_scale hk, or_scale]

theorem inMaxLeMin_scale (hk : 0 < k) (c : AlgoConstants Rat) (item : FlexItem Rat) :
    inMaxLeMin (scale k c) (scale k item) = inMaxLeMin c item := by
  simp only [inMaxLeMin, inMaxMain_scale hk, inMinMain_scale hk]
  cases inMaxMain c item with
  | none => rfl
  | some mx => simp only [scale_some, fle_scale hk]

theorem inArm1_scale (hk : 0 < k) (c : AlgoConstants Rat) (item : FlexItem Rat) :
    inArm1 (scale k c) (scale k item) = scale k (inArm1 c item) := by
  simp only [inArm1, inMaxMain_scale hk, inMinMain_scale hk, fxk_dir, fxi_size, fxi_margin, Size.main_scale,
    Rect.mainAxisSum_scale]
  cases item.size.main c.dir with
  | none => rfl
  | some pref =>
    cases inMaxMain c item with
    | none => rfl
    | some mx =>
      simp only [scale_some, fle_scale hk, fmin_scale hk, fmax_scale hk, add_scale]
      split <;> rfl

theorem inCrossAvail_scale (hk : 0 < k) (c : AlgoConstants Rat) (av : Size (AvailableSpace Rat)) (item : FlexItem Rat) :
    inCrossAvail (scale k c) (scale k av) (scale k item) = scale k (inCrossAvail c av item) := by
  simp only [inCrossAvail, fxk_dir, fxk_nodeInnerSize, fxk_margin, fxi_minSize, fxi_maxSize, Size.cross_scale,
    Rect.crossAxisSum_scale, of_add_scale hk]
  cases av.cross c.dir with
  | definite v =>
    simp only [scale_definite, getD_scale]
    exact ao_clamp_scale hk (.definite _) _ _
  | minContent => exact ao_clamp_scale hk .minContent _ _
  | maxContent => exact ao_clamp_scale hk .maxContent _ _

theorem inContentRow_scale (hk : 0 < k) (c : AlgoConstants Rat) (inset : Rat) (item : FlexItem Rat) (m : Rat) :
    inContentRow (scale k c) (scale k inset) (scale k item) (scale k m) = scale k (inContentRow c inset item m) := by
  simp only [inContentRow, scale_simp, hk]

theorem inContentCol_scale (hk : 0 < k) (c : AlgoConstants Rat) (inset : Rat) (item : FlexItem Rat) (m : Rat) :
    inContentCol (scale k c) (scale k inset) (scale k item) (scale k m) = scale k (inContentCol c inset item m) := by
  simp only [inContentCol, scale_simp, hk]

/-! ### the flex fraction -/

theorem one_le_fmax_one (x : Rat) : 1 ≤ Num.fmax (1 : Rat) x := by
  rw [fmax_def]; split <;> linarith

/-- the scaled flex shrink factor `max(1, flex_shrink) · inner_flex_basis` -/
def ssf (item : FlexItem Rat) : Rat := Num.fmax 1 item.flexShrink * item.innerFlexBasis

theorem ssf_scale (k : Rat) (item : FlexItem Rat) : ssf (scale k item) = k * ssf item := by
  unfold ssf
  rw [fxi_flexShrink, fxi_innerFlexBasis, scale_rat]; ring

theorem inFraction_of_neg (item : FlexItem Rat) (cc : Rat) (h : cc - item.flexBasis < 0) :
    inFraction item cc = if 0 < ssf item then (cc - item.flexBasis) / ssf item else 0 := by
  unfold inFraction ssf
  simp only [fgt_def, flt_def, decide_eq_true_eq]
  rw [if_neg (not_lt.2 h.le), if_pos h]

theorem inFraction_of_pos (item : FlexItem Rat) (cc : Rat) (h : 0 < cc - item.flexBasis) :
    inFraction item cc = (cc - item.flexBasis) / Num.fmax 1 item.flexGrow := by
  unfold inFraction
  simp only [fgt_def, flt_def, decide_eq_true_eq]
  rw [if_pos h]

theorem inFraction_of_zero (item : FlexItem Rat) (cc : Rat) (h : cc - item.flexBasis = 0) :
    inFraction item cc = 0 := by
  unfold inFraction
  simp only [fgt_def, flt_def, decide_eq_true_eq, h, lt_self_iff_false, if_false]

theorem div_neg_of_neg_pos {a b : Rat} (ha : a < 0) (hb : 0 < b) : a / b < 0 := by
  have := div_pos (neg_pos.2 ha) hb
  rw [neg_div] at this
  linarith

/-- a shrinking item (`diff < 0`) never gets a positive fraction -/
theorem inFraction_nonpos_of_neg (item : FlexItem Rat) (cc : Rat) (h : cc - item.flexBasis < 0) :
    inFraction item cc ≤ 0 := by
  rw [inFraction_of_neg item cc h]
  split
  · next hs => exact (div_neg_of_neg_pos h hs).le
  · exact le_refl 0

/-- a growing item (`diff > 0`) gets a positive fraction -/
theorem inFraction_pos_of_pos (item : FlexItem Rat) (cc : Rat) (h : 0 < cc - item.flexBasis) :
    0 < inFraction item cc := by
  rw [inFraction_of_pos item cc h]
  exact div_pos h (by linarith [one_le_fmax_one item.flexGrow])

theorem scaled_diff (k : Rat) (item : FlexItem Rat) (cc : Rat) :
    scale k cc - (scale k item).flexBasis = k * (cc - item.flexBasis) := by
  rw [fxi_flexBasis, scale_rat, scale_rat]; ring

/-- **the flex fraction**: `content_flex_fraction` of the scaled item from the scaled content contribution is the
original one re-scaled — as a length when positive, unchanged when negative.  No side condition. -/
theorem inFraction_scale (hk : 0 < k) (item : FlexItem Rat) (cc : Rat) :
    inFraction (scale k item) (scale k cc) = cffScale k (inFraction item cc) := by
  have hsd := scaled_diff k item cc
  unfold cffScale
  rcases lt_trichotomy (cc - item.flexBasis) 0 with hd | hd | hd
  · have hd' : scale k cc - (scale k item).flexBasis < 0 := by rw [hsd]; exact mul_neg_of_pos_of_neg hk hd
    rw [inFraction_of_neg _ _ hd', hsd, ssf_scale, inFraction_of_neg item cc hd]
    by_cases hs : 0 < ssf item
    · have hks : 0 < k * ssf item := mul_pos hk hs
      have hF : (cc - item.flexBasis) / ssf item < 0 := div_neg_of_neg_pos hd hs
      rw [if_pos hks, if_pos hs, if_pos hF]
      exact mul_div_mul_left _ _ hk.ne'
    · have hks : ¬ (0 < k * ssf item) := by
        have := mul_nonneg hk.le (neg_nonneg.2 (not_lt.1 hs))
        rw [mul_neg] at this
        intro h
        linarith
      rw [if_neg hks, if_neg hs, if_neg (lt_irrefl 0), scale_zero]
  · have hd' : scale k cc - (scale k item).flexBasis = 0 := by rw [hsd, hd, mul_zero]
    rw [inFraction_of_zero _ _ hd', inFraction_of_zero _ _ hd, if_neg (lt_irrefl 0), scale_zero]
  · have hd' : 0 < scale k cc - (scale k item).flexBasis := by rw [hsd]; exact mul_pos hk hd
    have hn : ¬ (inFraction item cc < 0) := not_lt.2 (inFraction_pos_of_pos item cc hd).le
    rw [inFraction_of_pos _ _ hd', hsd, fxi_flexGrow, if_neg hn, inFraction_of_pos _ _ hd, scale_rat]
    ring

theorem inFinish_scale (hk : 0 < k) (item : FlexItem Rat) (cc : Rat) :
    inFinish (scale k item) (scale k cc) = scale k (inFinish item cc) := by
  unfold inFinish
  rw [inFraction_scale hk item cc]
  simp only [scale_fxi_mk, fxi_nodeIdx, fxi_order, fxi_size, fxi_minSize, fxi_maxSize, fxi_alignSelf,
    fxi_overflow, fxi_scrollbarWidth, fxi_flexShrink, fxi_flexGrow, fxi_resolvedMinimumMainSize, fxi_inset, fxi_margin,
    fxi_marginIsAuto, fxi_padding, fxi_border, fxi_flexBasis, fxi_innerFlexBasis, fxi_violation, fxi_frozen,
    fxi_hypotheticalInnerSize, fxi_hypotheticalOuterSize, fxi_targetSize, fxi_outerTargetSize, fxi_baseline,
    fxi_offsetMain, fxi_offsetCross]

/-! ### the intrinsic arm as programs -/

/-- the content contribution of one item (everything before the floor) is homogeneous -/
theorem inContribution_scale (hk : 0 < k) (c : AlgoConstants Rat) (av : Size (AvailableSpace Rat)) (inset : Rat)
    (item : FlexItem Rat) :
    inContribution (scale k c) (scale k av) (scale k inset) (scale k item) =
      scaleProg k (inContribution c av inset item) := by
  unfold inContribution
  rw [inArm1_scale hk, inMaxLeMin_scale hk, inMinMain_scale hk, inCrossAvail_scale hk, fxk_dir, fxk_isRow,
    fxk_nodeInnerSize, fxi_nodeIdx, fxi_margin, fxi_flexBasis, Rect.mainAxisSum_scale,
    childKnownDimensions_scale hk, setCross_scale]
  have hs : (scale k item).isScrollContainer = item.isScrollContainer := rfl
  rw [hs]
  cases inArm1 c item with
  | some v => rfl
  | none =>
    simp only [scale_none]
    split
    · simp only [add_scale]; rfl
    · split
      · simp only [add_scale]; rfl
      · apply bind_scale_of
        · exact measureChildSize_scale hk _ _ _ _ _ _ _
        · intro m
          split
          · rw [inContentRow_scale hk]; rfl
          · rw [inContentCol_scale hk]; rfl

theorem intrinsicItem_scale (hk : 0 < k) (c : AlgoConstants Rat) (av : Size (AvailableSpace Rat)) (inset : Rat)
    (item : FlexItem Rat) :
    intrinsicItem (scale k c) (scale k av) (scale k inset) (scale k item) =
      scaleProg k (intrinsicItem c av inset item) := by
  rw [intrinsicItem_eq, intrinsicItem_eq]
  apply bind_scale_of
  · exact inContribution_scale hk c av inset item
  · intro cc
    rw [inFinish_scale hk]
    rfl

theorem intrinsicItems_scale (hk : 0 < k) (c : AlgoConstants Rat) (av : Size (AvailableSpace Rat)) (inset : Rat) :
    ∀ (items : List (FlexItem Rat)),
      intrinsicItems (scale k c) (scale k av) (scale k inset) (scale k items) =
        scaleProg k (intrinsicItems c av inset items)
  | [] => rfl
  | item :: rest => by
    rw [scale_cons]
    unfold intrinsicItems
    apply bind_scale_of
    · exact intrinsicItem_scale hk c av inset item
    · intro i
      apply bind_scale_of
      · exact intrinsicItems_scale hk c av inset rest
      · intro r
        rfl

/-- one line of the intrinsic arm after the items' queries: targets, their sum, the running main size -/
theorem intrinsicLine_scale (hk : 0 < k) (c : AlgoConstants Rat) (line : FlexLineS Rat) (items : List (FlexItem Rat))
    (ms : Rat) :
    (({ scale k line with items := ((scale k items).map (intrinsicTarget c.dir)).map (·.1) } : FlexLineS Rat),
      Num.fmax (scale k ms) (sumF (((scale k items).map (intrinsicTarget c.dir)).map (·.2)) +
        sumAxisGaps (scale k (c.gap.main c.dir)) line.items.length)) =
    (scale k ({ line with items := (items.map (intrinsicTarget c.dir)).map (·.1) } : FlexLineS Rat),
      scale k (Num.fmax ms (sumF ((items.map (intrinsicTarget c.dir)).map (·.2)) +
        sumAxisGaps (c.gap.main c.dir) line.items.length))) := by
  have ht : (scale k items).map (intrinsicTarget c.dir) = scale k (items.map (intrinsicTarget c.dir)) := by
    rw [scale_list, scale_list, List.map_map, List.map_map]
    apply List.map_congr_left
    intro i _
    exact intrinsicTarget_scale hk c.dir i
  rw [ht, map_scale_comm k (fun p : FlexItem Rat × Rat => p.1) (fun p : FlexItem Rat × Rat => p.1) (fun _ => rfl),
    map_scale_comm k (fun p : FlexItem Rat × Rat => p.2) (fun p : FlexItem Rat × Rat => p.2) (fun _ => rfl),
    sumF_scale, sumAxisGaps_scale, add_scale, fmax_scale hk]
  rfl

/-- **intrinsicLines_scale**: the `for line in lines.iter_mut()` loop of the intrinsic arm, from any running main size -/
theorem intrinsicLines_scale (hk : 0 < k) (c : AlgoConstants Rat) (av : Size (AvailableSpace Rat)) (inset : Rat) :
    ∀ (lines : List (FlexLineS Rat)) (ms : Rat),
      intrinsicLines (scale k c) (scale k av) (scale k inset) (scale k lines) (scale k ms) =
        scaleProg k (intrinsicLines c av inset lines ms)
  | [], ms => rfl
  | line :: rest, ms => by
    rw [scale_cons]
    unfold intrinsicLines
    rw [fxl_items]
    apply bind_scale_of
    · exact intrinsicItems_scale hk c av inset line.items
    · intro items
      simp only [fxk_dir, fxk_gap, Size.main_scale, fxl_items, length_scale]
      have hl := intrinsicLine_scale hk c line items ms
      rw [Prod.mk.injEq] at hl
      rw [hl.2]
      apply bind_scale_of
      · exact intrinsicLines_scale hk c av inset rest _
      · intro r
        obtain ⟨rl, rm⟩ := r
        show ProgM.pure (_ :: (scale k (rl, rm)).1, (scale k (rl, rm)).2) = ProgM.pure (scale k (_ :: rl, rm))
        rw [scale_pair, scale_pair, scale_cons, ← hl.1]

end C04
