/-
  The loop's clamp `t ↦ max(max(min(t, max), min), 0)` is a `Clamp`, and so is its mirror image.
-/
import TaffyVerif.Lemmas.FlexExhaust
import Mathlib.Tactic.SplitIfs

namespace FlexLine

/-- `clampMain` as a function of the two bounds only -/
def clampQ (mn : Rat) (mx : Option Rat) (t : Rat) : Rat := Num.fmax (MaybeMath.fo_clamp t (some mn) mx) 0

theorem clampMain_eq (c : FlexItemM Rat) (t : Rat) : clampMain c t = clampQ c.resolvedMinMain c.maxMain t := rfl

theorem clampQ_none (mn t : Rat) : clampQ mn none t = max (max t mn) 0 := by
  unfold clampQ MaybeMath.fo_clamp
  simp only [Num.fmax]
  rw [max_def, max_def]

theorem clampQ_some (mn mx t : Rat) : clampQ mn (some mx) t = max (max (min t mx) mn) 0 := by
  unfold clampQ MaybeMath.fo_clamp
  simp only [Num.fmax, Num.fmin]
  rw [max_def, max_def, min_def]

theorem clamp_clampQ (mn : Rat) (mx : Option Rat) : Clamp (clampQ mn mx) := by
  cases mx with
  | none =>
    refine ⟨?_, ?_, ?_, ?_⟩
    · intro x y h; rw [clampQ_none, clampQ_none]; exact max_le_max (max_le_max h (le_refl _)) (le_refl _)
    · intro x; rw [clampQ_none, clampQ_none]
      have h1 : mn ≤ max (max x mn) 0 := le_trans (le_max_right _ _) (le_max_left _ _)
      have h2 : (0 : Rat) ≤ max (max x mn) 0 := le_max_right _ _
      rw [max_eq_left h1, max_eq_left h2]
    · intro x hx y hy
      rw [clampQ_none] at hx ⊢
      have : x ≤ max (max x mn) 0 := le_trans (le_max_left _ _) (le_max_left _ _)
      linarith
    · intro x hx y hy
      rw [clampQ_none] at hx ⊢
      rw [clampQ_none]
      have hxm : max x mn ≤ max mn 0 := by
        rcases le_total x mn with h | h
        · rw [max_eq_right h]; exact le_max_left _ _
        · rw [max_eq_left h]
          by_contra hc
          have h0 : max mn 0 < x := not_le.1 hc
          have : max (max x mn) 0 = x := by
            rw [max_eq_left h, max_eq_left (le_trans (le_max_right _ _) (le_of_lt h0))]
          linarith
      have hym : max y mn ≤ max mn 0 := by
        apply max_le _ (le_max_left _ _)
        rcases le_total x mn with h | h
        · exact le_trans hy (le_trans h (le_max_left _ _))
        · rw [max_eq_left h] at hxm; exact le_trans hy hxm
      have e1 : max (max x mn) 0 = max mn 0 :=
        le_antisymm (max_le hxm (le_max_right _ _)) (max_le_max (le_max_right _ _) (le_refl _))
      have e2 : max (max y mn) 0 = max mn 0 :=
        le_antisymm (max_le hym (le_max_right _ _)) (max_le_max (le_max_right _ _) (le_refl _))
      rw [e1, e2]
  | some mx =>
    refine ⟨?_, ?_, ?_, ?_⟩
    · intro x y h; rw [clampQ_some, clampQ_some]
      exact max_le_max (max_le_max (min_le_min h (le_refl _)) (le_refl _)) (le_refl _)
    · intro x; rw [clampQ_some, clampQ_some]
      simp only [max_def, min_def]
      split_ifs <;> linarith
    · intro x hx y hy
      rw [clampQ_some] at hx ⊢
      rw [clampQ_some]
      simp only [max_def, min_def] at hx ⊢
      split_ifs at hx ⊢ <;> linarith
    · intro x hx y hy
      rw [clampQ_some] at hx ⊢
      rw [clampQ_some]
      simp only [max_def, min_def] at hx ⊢
      split_ifs at hx ⊢ <;> linarith

/-- `x ↦ s·K(s·x)` for `s = ±1` -/
theorem clamp_sign (K : Rat → Rat) (h : Clamp K) (s : Rat) (hs : s = 1 ∨ s = -1) :
    Clamp (fun x => s * K (s * x)) := by
  rcases hs with rfl | rfl
  · simpa using h
  · refine ⟨?_, ?_, ?_, ?_⟩
    · intro x y hxy
      have := h.mono (-y) (-x) (by linarith)
      simp only [neg_mul, one_mul]; linarith
    · intro x
      simp only [neg_mul, one_mul, neg_neg]
      rw [h.idem]
    · intro x hx y hy
      simp only [neg_mul, one_mul] at hx ⊢
      rw [h.down (-x) (by linarith) (-y) (by linarith)]
    · intro x hx y hy
      simp only [neg_mul, one_mul] at hx ⊢
      rw [h.up (-x) (by linarith) (-y) (by linarith)]

end FlexLine
