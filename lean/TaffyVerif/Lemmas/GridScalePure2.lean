/-
  C04 for grid, part 4: `initialize_grid_tracks`, `compute_explicit_grid_size_in_axis` (homogeneous when the 1px
  substitute for a zero-size auto-repetition is not used), `align_tracks`, step 1 (`mkCtx`), the container size.
-/
import TaffyVerif.Lemmas.GridScalePure1

set_option linter.unusedSectionVars false
set_option linter.unusedVariables false
set_option linter.unusedSimpArgs false

namespace C04
open Scalable GridModel GridTracks GridStages

variable {k : Rat}

/-! ### `initialize_grid_tracks` -/

theorem getD_scale_list {β : Type} [Scalable β] (k : Rat) (l : List β) (i : Nat) (d : β) :
    (scale k l).getD i (scale k d) = scale k (l.getD i d) := by
  rw [scale_list, List.getD_eq_getElem?_getD, List.getD_eq_getElem?_getD, List.getElem?_map]
  cases l[i]? <;> rfl

theorem getD_scale_auto (k : Rat) (l : List (TrackFn Rat)) (i : Nat) :
    (scale k l).getD i TrackFn.auto = scale k (l.getD i TrackFn.auto) := by
  have := getD_scale_list k l i TrackFn.auto
  rwa [tfn_auto] at this

theorem autoTrackAt_scale (k : Rat) (autoTracks : List (TrackFn Rat)) (offset i : Nat) :
    autoTrackAt (scale k autoTracks) offset i = scale k (autoTrackAt autoTracks offset i) := by
  unfold autoTrackAt
  rw [isEmpty_scale_list, length_scale_list]
  split
  · rfl
  · exact getD_scale_auto k autoTracks _

theorem createImplicitTracks_scale (k : Rat) (count : Nat) (nth' nth : Nat → TrackFn Rat) (gap : LP Rat)
    (h : ∀ i, nth' i = scale k (nth i)) :
    createImplicitTracks count nth' (scale k gap) = scale k (createImplicitTracks count nth gap) := by
  unfold createImplicitTracks
  rw [scale_list, List.map_flatMap]
  congr 1
  funext i
  simp only [h, scale_simp, List.map_cons, List.map_nil]

theorem cycleTake_scale (k : Rat) (fs : List (TrackFn Rat)) (n : Nat) :
    cycleTake (scale k fs) n = scale k (cycleTake fs n) := by
  unfold cycleTake
  rw [isEmpty_scale_list, length_scale_list]
  split
  · rfl
  · show List.map _ _ = List.map (scale k) (List.map _ _)
    rw [List.map_map]
    exact List.map_congr_left fun i _ => getD_scale_auto k fs _

theorem flatMap_pair_scale (k : Rat) (gap : LP Rat) (l : List (TrackFn Rat)) :
    ((scale k l).flatMap fun f => [GridTrack.new f, GridTrack.gutter (scale k gap)]) =
      scale k (l.flatMap fun f => [GridTrack.new f, GridTrack.gutter gap]) := by
  rw [scale_list, scale_list, List.map_flatMap, List.flatMap_map]
  congr 1
  funext f
  simp only [scale_simp, List.map_cons, List.map_nil]

theorem autoRepeatTracks_scale (k : Rat) (fit : Bool) (fs : List (TrackFn Rat)) (n : Nat) (gap : LP Rat)
    (has : Nat → Bool) (idx : Nat) :
    autoRepeatTracks fit (scale k fs) n (scale k gap) has idx = scale k (autoRepeatTracks fit fs n gap has idx) := by
  unfold autoRepeatTracks
  rw [cycleTake_scale, scale_list, scale_list, List.map_flatMap]
  generalize cycleTake fs n = l
  rw [show (List.map (scale k) l).zipIdx = l.zipIdx.map (fun p => (scale k p.1, p.2)) by
    rw [List.zipIdx_map]
    exact List.map_congr_left fun p _ => rfl]
  rw [List.flatMap_map]
  congr 1
  funext p
  obtain ⟨f, i⟩ := p
  simp only
  split <;> simp only [scale_simp, List.map_cons, List.map_nil]

theorem scale_append {β : Type} [Scalable β] (k : Rat) (a b : List β) : scale k (a ++ b) = scale k a ++ scale k b :=
  List.map_append

theorem explicitTracks_scale (k : Rat) (autoN : Nat) (gap : LP Rat) (has : Nat → Bool) :
    ∀ (tpl : List (TrackDef Rat)) (idx : Nat),
      explicitTracks autoN (scale k gap) has (scale k tpl) idx = scale k (explicitTracks autoN gap has tpl idx)
  | [], _ => rfl
  | .single f :: rest, idx => by
    show explicitTracks autoN (scale k gap) has (.single (scale k f) :: scale k rest) idx = _
    unfold explicitTracks
    rw [explicitTracks_scale k autoN gap has rest]
    simp only [scale_list, List.map_append, List.map_cons, List.map_nil, scale_simp]
  | .rep (.count c) fs :: rest, idx => by
    show explicitTracks autoN (scale k gap) has (.rep (.count c) (scale k fs) :: scale k rest) idx = _
    unfold explicitTracks
    simp only [length_scale_list, cycleTake_scale, flatMap_pair_scale, explicitTracks_scale k autoN gap has rest]
    rw [scale_append]
  | .rep .autoFit fs :: rest, idx => by
    show explicitTracks autoN (scale k gap) has (.rep .autoFit (scale k fs) :: scale k rest) idx = _
    unfold explicitTracks
    simp only [length_scale_list, cycleTake_scale, autoRepeatTracks_scale, explicitTracks_scale k autoN gap has rest]
    rw [scale_append]
  | .rep .autoFill fs :: rest, idx => by
    show explicitTracks autoN (scale k gap) has (.rep .autoFill (scale k fs) :: scale k rest) idx = _
    unfold explicitTracks
    simp only [length_scale_list, cycleTake_scale, autoRepeatTracks_scale, explicitTracks_scale k autoN gap has rest]
    rw [scale_append]

theorem collapseFirstLast_scale (k : Rat) (l : List (GridTrack Rat)) :
    collapseFirstLast (scale k l) = scale k (collapseFirstLast l) := by
  unfold collapseFirstLast
  rw [length_scale_list, scale_list, scale_list]
  have hm : ∀ (l : List (GridTrack Rat)) (i : Nat),
      (l.map (scale k)).modify i GridTrack.collapse = (l.modify i GridTrack.collapse).map (scale k) := by
    intro l i
    apply List.ext_getElem?
    intro j
    simp only [List.getElem?_modify, List.getElem?_map]
    cases l[j]? with
    | none => rfl
    | some t =>
      simp only [Option.map_some]
      split
      · show some (scale k t).collapse = some (scale k t.collapse)
        rw [gt_collapse]
      · rfl
  rw [hm, hm]

theorem nonAutoTerm_scale (k : Rat) (d : TrackDef Rat) : nonAutoTerm (scale k d) = nonAutoTerm d := by
  cases d with
  | single f => rfl
  | rep r fs =>
    cases r with
    | autoFill => rfl
    | autoFit => rfl
    | count c =>
      show nonAutoTerm (.rep (.count c) (scale k fs)) = _
      simp only [nonAutoTerm, length_scale_list]

theorem nonAutoRepeatingTrackCount_scale (k : Rat) (tpl : List (TrackDef Rat)) :
    nonAutoRepeatingTrackCount (scale k tpl) = nonAutoRepeatingTrackCount tpl := by
  unfold nonAutoRepeatingTrackCount
  rw [map_scale_list_inv k tpl _ _ (nonAutoTerm_scale k)]

theorem autoRepeatedTrackCount_scale (k : Rat) (explicit : Nat) (tpl : List (TrackDef Rat)) :
    autoRepeatedTrackCount explicit (scale k tpl) = autoRepeatedTrackCount explicit tpl := by
  unfold autoRepeatedTrackCount
  rw [any_scale_list k tpl _ _ (tdef_isAutoRepetition k), nonAutoRepeatingTrackCount_scale]

theorem bodyTracks_scale (k : Rat) (counts : TrackCounts) (tpl : List (TrackDef Rat)) (autoTracks : List (TrackFn Rat))
    (gap : LP Rat) (has : Nat → Bool) (autoN : Nat) :
    bodyTracks counts (scale k tpl) (scale k autoTracks) (scale k gap) has autoN =
      scale k (bodyTracks counts tpl autoTracks gap has autoN) := by
  unfold bodyTracks
  simp only [isEmpty_scale_list, length_scale_list, explicitTracks_scale,
    createImplicitTracks_scale k _ _ _ _ (fun i => autoTrackAt_scale k autoTracks _ i)]
  simp only [scale_list, List.map_append, apply_ite (List.map (scale k)), List.map_nil]

theorem initializeGridTracks_scale (k : Rat) (counts : TrackCounts) (tpl : List (TrackDef Rat))
    (autoTracks : List (TrackFn Rat)) (gap : LP Rat) (has : Nat → Bool) :
    initializeGridTracks counts (scale k tpl) (scale k autoTracks) (scale k gap) has =
      (initializeGridTracks counts tpl autoTracks gap has).map (scale k) := by
  unfold initializeGridTracks
  rw [autoRepeatedTrackCount_scale]
  split
  · rfl
  · cases (if counts.explicit > 0 then autoRepeatedTrackCount counts.explicit tpl else Except.ok 0) with
    | error e => rfl
    | ok autoN =>
      show Except.ok (collapseFirstLast (GridTrack.gutter (scale k gap) :: bodyTracks counts (scale k tpl)
        (scale k autoTracks) (scale k gap) has autoN)) = Except.ok (scale k (collapseFirstLast _))
      rw [bodyTracks_scale, gt_gutter, ← scale_cons, collapseFirstLast_scale]

/-! ### `compute_explicit_grid_size_in_axis` -/

theorem trackDefiniteValue_scale (hk : 0 < k) (f : TrackFn Rat) (p : Option Rat) :
    trackDefiniteValue (scale k f) (scale k p) = scale k (trackDefiniteValue f p) := by
  unfold trackDefiniteValue
  simp only [scale_simp]
  cases f.max.definiteValue p <;> cases f.min.definiteValue p <;>
    simp only [scale_simp, scale_option, Option.map, Option.or, MaybeMath.fo_min, fmin_scale hk]

theorem nonRepeatingUsed_scale (hk : 0 < k) (p : Option Rat) (d : TrackDef Rat) :
    nonRepeatingUsed (scale k p) (scale k d) = scale k (nonRepeatingUsed p d) := by
  cases d with
  | single f => exact trackDefiniteValue_scale hk f p
  | rep r fs =>
    cases r with
    | autoFill => show some (0 : Rat) = scale k (some 0); simp only [scale_simp]
    | autoFit => show some (0 : Rat) = scale k (some 0); simp only [scale_simp]
    | count c =>
      show nonRepeatingUsed (scale k p) (.rep (.count c) (scale k fs)) = _
      simp only [nonRepeatingUsed]
      rw [map_scale_list k fs _ _ (fun f => trackDefiniteValue_scale hk f p), allSome_scale]
      cases allSome (fs.map fun f => trackDefiniteValue f p) with
      | none => rfl
      | some vs => simp only [scale_simp, scale_option, Option.map, gsumF_scale]

/-- the 1px substitute for a zero-size auto-repetition is not used -/
def NumRepsNoPx (gap : LP Rat) (repDef : List (TrackFn Rat)) (inner : Option Rat) : Prop :=
  match inner with
  | none => True
  | some v =>
    match allSome (repDef.map fun f => trackDefiniteValue f (some v)) with
    | none => True
    | some l => 0 < GridTracks.sumF l + Num.ofNat repDef.length * gap.resolveOrZero (some v)

instance (gap : LP Rat) (repDef : List (TrackFn Rat)) (inner : Option Rat) : Decidable (NumRepsNoPx gap repDef inner) := by
  unfold NumRepsNoPx
  cases inner with
  | none => exact isTrue trivial
  | some v =>
    simp only
    cases allSome (repDef.map fun f => trackDefiniteValue f (some v)) with
    | none => exact isTrue trivial
    | some l => exact inferInstanceAs (Decidable (_ < _))

theorem dimIsSome_scale (k : Rat) (d : Dimension Rat) (inner : Option Rat) :
    ((scale k d).maybeResolve (scale k inner)).isSome = (d.maybeResolve inner).isSome := by
  rw [LPA.maybeResolve_scale, isSome_scale]

theorem ofNat_mul_scale (k : Rat) (n : Nat) (g : Rat) : (Num.ofNat n : Rat) * scale k g = scale k (Num.ofNat n * g) := by
  simp only [scale_rat]; ring

theorem numRepetitions_scale (hk : 0 < k) (size maxSize : Dimension Rat) (gap : LP Rat) (tpl : List (TrackDef Rat))
    (repDef : List (TrackFn Rat)) (nonAuto : Nat) (inner : Option Rat) (h : NumRepsNoPx gap repDef inner) :
    numRepetitions (scale k size) (scale k maxSize) (scale k gap) (scale k tpl) (scale k repDef) nonAuto
      (scale k inner) = numRepetitions size maxSize gap tpl repDef nonAuto inner := by
  unfold numRepetitions
  rw [dimIsSome_scale, dimIsSome_scale, length_scale_list]
  cases inner with
  | none => rfl
  | some v =>
    simp only [scale_some]
    rw [show some (scale k v) = scale k (some v) from rfl,
      map_scale_list k tpl _ _ (fun d => nonRepeatingUsed_scale hk (some v) d), allSome_scale]
    cases hu : allSome (tpl.map (nonRepeatingUsed (some v))) with
    | none => rfl
    | some usedL =>
      simp only [scale_simp, scale_option, Option.map]
      rw [show some (scale k v) = scale k (some v) from rfl,
        map_scale_list k repDef _ _ (fun f => trackDefiniteValue_scale hk f (some v)), allSome_scale]
      unfold NumRepsNoPx at h
      simp only at h
      cases hp : allSome (repDef.map fun f => trackDefiniteValue f (some v)) with
      | none => rfl
      | some perRepL =>
        rw [hp] at h
        simp only at h
        simp only [scale_simp, scale_option, Option.map, gsumF_scale, LP.resolveOrZero_scale_some, ofNat_mul_scale,
          add_scale, sub_scale, flt_scale hk, fgt_scale_zero hk]
        split
        · rfl
        · split
          · rfl
          · have hpos : Num.fgt (GridTracks.sumF perRepL + Num.ofNat repDef.length * gap.resolveOrZero (some v)) 0 =
                true := by
              rw [fgt_def]; exact decide_eq_true h
            have hdiv : ∀ a b : Rat, scale k (a / scale k b) = a / b := by
              intro a b
              simp only [scale_rat]
              rw [← mul_div_assoc, mul_div_mul_left _ _ hk.ne']
            simp only [hpos, if_true, hdiv]

theorem findAutoRepetition_scale (k : Rat) : ∀ (tpl : List (TrackDef Rat)),
    findAutoRepetition (scale k tpl) = scale k (findAutoRepetition tpl)
  | [] => rfl
  | .single f :: rest => by
    show findAutoRepetition (.single (scale k f) :: scale k rest) = _
    unfold findAutoRepetition
    exact findAutoRepetition_scale k rest
  | .rep .autoFill fs :: rest => rfl
  | .rep .autoFit fs :: rest => rfl
  | .rep (.count c) fs :: rest => by
    show findAutoRepetition (.rep (.count c) (scale k fs) :: scale k rest) = _
    unfold findAutoRepetition
    exact findAutoRepetition_scale k rest

theorem allFixed_scale (k : Rat) (tpl : List (TrackDef Rat)) :
    allTrackDefsHaveFixedComponent (scale k tpl) = allTrackDefsHaveFixedComponent tpl := by
  unfold allTrackDefsHaveFixedComponent
  refine all_scale_list k tpl _ _ fun d => ?_
  cases d with
  | single f => exact tfn_hasFixedComponent k f
  | rep r fs => exact all_scale_list k fs _ _ (tfn_hasFixedComponent k)

theorem hasZeroRep_scale (k : Rat) (tpl : List (TrackDef Rat)) : hasZeroRep (scale k tpl) = hasZeroRep tpl := by
  unfold hasZeroRep
  refine any_scale_list k tpl _ _ fun d => ?_
  cases d with
  | single f => rfl
  | rep r fs => exact isEmpty_scale_list k fs

/-- the side condition on one axis: the template's auto-repetition (if any) does not take zero space -/
def ExplicitNoPx (gap : LP Rat) (tpl : List (TrackDef Rat)) (inner : Option Rat) : Prop :=
  match findAutoRepetition tpl with
  | none => True
  | some repDef => NumRepsNoPx gap repDef inner

instance (gap : LP Rat) (tpl : List (TrackDef Rat)) (inner : Option Rat) : Decidable (ExplicitNoPx gap tpl inner) := by
  unfold ExplicitNoPx
  cases findAutoRepetition tpl with
  | none => exact isTrue trivial
  | some r => exact inferInstanceAs (Decidable (NumRepsNoPx gap r inner))

theorem filter_autoRep_scale (k : Rat) (tpl : List (TrackDef Rat)) :
    ((scale k tpl).filter TrackDef.isAutoRepetition).length = (tpl.filter TrackDef.isAutoRepetition).length := by
  rw [scale_list, List.filter_map, List.length_map]
  congr 2
  funext d
  exact tdef_isAutoRepetition k d

theorem computeExplicit_scale (hk : 0 < k) (size maxSize : Dimension Rat) (gap : LP Rat) (tpl : List (TrackDef Rat))
    (inner : Option Rat) (h : ExplicitNoPx gap tpl inner) :
    computeExplicitGridSizeInAxis (scale k size) (scale k maxSize) (scale k gap) (scale k tpl) (scale k inner) =
      computeExplicitGridSizeInAxis size maxSize gap tpl inner := by
  unfold computeExplicitGridSizeInAxis
  rw [isEmpty_scale_list, hasZeroRep_scale, nonAutoRepeatingTrackCount_scale, filter_autoRep_scale, allFixed_scale,
    findAutoRepetition_scale]
  unfold ExplicitNoPx at h
  cases hf : findAutoRepetition tpl with
  | none => rfl
  | some repDef =>
    rw [hf] at h
    have h' : NumRepsNoPx gap repDef inner := h
    rw [show scale k (some repDef) = some (scale k repDef) from rfl]
    have := numRepetitions_scale hk size maxSize gap tpl repDef
    simp only [this _ inner h', length_scale_list]

end C04
