/-
  Helper lemmas for Props/C15Eval.lean ("a second root pass hits at the root and evaluates nothing"):
  what a lookup directly after a `store` of the same key returns (real cache: exactly C02's self-compatibility of the
  key), a hit is the identity on the state, an evaluation followed by a lookup of the same input hits, the root driver
  `Eval.computeRootLayout` / `Eval.computeLayoutWithMeasure` (Model/RootPass.lean) run twice.

  Everything is for every `[Num α]`, every dispatch `sel`, every `algs`, every tree, every state, every fuel.
  No Mathlib import.
-/
import TaffyVerif.Model.RootPass
import TaffyVerif.Lemmas.EvalCost

set_option autoImplicit false
set_option linter.unusedSectionVars false
set_option linter.unusedVariables false

namespace C15Eval
open Eval EvalMemo CacheModel Gen.Facts C16
variable {α : Type} [Num α]

/-! ### self-hitting stores -/

/-- C02's self-compatibility predicate (`C02.hit_until_displaced_final`, hypothesis `self`) for the key of `inp` and the
size of the stored output: `compatible kd av kd av out.size`.  It fails only if a known dimension is not `==` to itself
and not `==` to the cached size (NaN), or an available space that is looked at is not roughly equal to itself (NaN, ±∞:
`|x − x| < ε` is false). -/
def SelfCompatible (inp : LayoutInput α) (out : LayoutOutput α) : Prop :=
  compatible inp.knownDimensions inp.availableSpace inp.knownDimensions inp.availableSpace out.size = true

instance (inp : LayoutInput α) (out : LayoutOutput α) : Decidable (SelfCompatible inp out) := by
  unfold SelfCompatible; exact inferInstance

/-- a lookup of `inp` directly after `store … inp out` returns `out`, whatever the cache contained before -/
def StoreHits {C : Type} (ci : CacheImpl α C) (inp : LayoutInput α) (out : LayoutOutput α) : Prop :=
  ∀ c, ci.get (ci.store c inp out) inp = some out

/-- the real cache, PerformLayout mode: the lookup after the store hits iff the key is self-compatible -/
theorem realCache_get_store (c : Cache α) (inp : LayoutInput α) (out : LayoutOutput α)
    (hm : inp.runMode = RunMode.performLayout) :
    (realCache (α := α)).get ((realCache (α := α)).store c inp out) inp =
      if compatible inp.knownDimensions inp.availableSpace inp.knownDimensions inp.availableSpace out.size
      then some out else none := by
  simp only [realCache, hm, Cache.get, Cache.store]

theorem storeHits_real (inp : LayoutInput α) (out : LayoutOutput α) (hm : inp.runMode = RunMode.performLayout)
    (hs : SelfCompatible inp out) : StoreHits (realCache (α := α)) inp out := by
  intro c
  rw [realCache_get_store c inp out hm]
  unfold SelfCompatible at hs
  rw [hs]; rfl

theorem storeMisses_real (c : Cache α) (inp : LayoutInput α) (out : LayoutOutput α)
    (hm : inp.runMode = RunMode.performLayout) (hs : ¬ SelfCompatible inp out) :
    (realCache (α := α)).get ((realCache (α := α)).store c inp out) inp = none := by
  rw [realCache_get_store c inp out hm]
  unfold SelfCompatible at hs
  rw [if_neg hs]

theorem storeHits_logged {C : Type} (ci : CacheImpl α C) (inp : LayoutInput α) (out : LayoutOutput α)
    (h : StoreHits ci inp out) : StoreHits (logged ci) inp out := fun c => h c.1

/-- the exact memo (outside hidden mode) is self-hitting for every key -/
theorem storeHits_exactMemo [DecidableEq α] (inp : LayoutInput α) (out : LayoutOutput α)
    (hm : inp.runMode ≠ RunMode.performHiddenLayout) : StoreHits (exactMemo (α := α)) inp out := by
  intro c
  simp only [exactMemo, if_neg hm, List.find?_cons, decide_true, Option.map_some]

/-! ### one node: hit = identity, evaluation then lookup = hit -/

section
variable {C : Type} (ci : CacheImpl α C) (sel : Display → Bool → Option Callee) (algs : Algs α)

theorem mode_beq_false {m : RunMode} (h : m ≠ RunMode.performHiddenLayout) :
    (m == RunMode.performHiddenLayout) = false := by
  rw [mode_beq]; exact decide_eq_false h

/-- **a hit is the identity**: outside hidden mode, if the node's cache answers the input, `compute_child_layout`
returns that answer and changes nothing — no child is visited, no body is evaluated, no layout is written -/
theorem eval_hit (fuel : Nat) (t : STree α) (ns : NS α C) (inp : LayoutInput α) (out : LayoutOutput α)
    (hne : inp.runMode ≠ RunMode.performHiddenLayout) (hg : ci.get ns.cache inp = some out) :
    evalNodeWith ci sel algs (fuel + 1) t ns inp = (out, ns) := by
  cases t with
  | node style ctx kids =>
    cases ns with
    | mk c l nk =>
      simp only [NS.cache] at hg
      rw [evalNodeWith_succ]
      simp only [mode_beq_false hne, Bool.false_eq_true, if_false, hg]

/-- **evaluate, then look the same input up**: outside hidden mode, with a self-hitting store, the node's cache answers
the input with the output just returned -/
theorem eval_then_get (fuel : Nat) (t : STree α) (ns : NS α C) (inp : LayoutInput α)
    (hne : inp.runMode ≠ RunMode.performHiddenLayout)
    (h : StoreHits ci inp (evalNodeWith ci sel algs (fuel + 1) t ns inp).1) :
    ci.get (evalNodeWith ci sel algs (fuel + 1) t ns inp).2.cache inp =
      some (evalNodeWith ci sel algs (fuel + 1) t ns inp).1 := by
  cases t with
  | node style ctx kids =>
    cases ns with
    | mk c l nk =>
      have hm := mode_beq_false hne
      rw [evalNodeWith_succ] at h ⊢
      simp only [hm, Bool.false_eq_true, if_false] at h ⊢
      cases hg : ci.get c inp with
      | some out => simp only [NS.cache]; exact hg
      | none =>
        simp only [hg] at h ⊢
        cases hb : bodyOf sel algs style kids inp with
        | hidden => simp only [hb] at h ⊢; exact h _
        | leaf => simp only [hb] at h ⊢; exact h _
        | stuck => simp only [hb] at h ⊢; exact h _
        | prog p => simp only [hb] at h ⊢; exact h _

/-- the cache of the evaluated node after a miss: the old cache (cleared first in the `display:none` arm) with the
input stored -/
theorem eval_miss_cache (fuel : Nat) (t : STree α) (ns : NS α C) (inp : LayoutInput α)
    (hne : inp.runMode ≠ RunMode.performHiddenLayout) (hg : ci.get ns.cache inp = none) :
    ∃ c', (evalNodeWith ci sel algs (fuel + 1) t ns inp).2.cache =
      ci.store c' inp (evalNodeWith ci sel algs (fuel + 1) t ns inp).1 := by
  cases t with
  | node style ctx kids =>
    cases ns with
    | mk c l nk =>
      simp only [NS.cache] at hg
      rw [evalNodeWith_succ]
      simp only [mode_beq_false hne, Bool.false_eq_true, if_false, hg]
      cases hb : bodyOf sel algs style kids inp with
      | hidden => exact ⟨_, rfl⟩
      | leaf => exact ⟨_, rfl⟩
      | stuck => exact ⟨_, rfl⟩
      | prog p => exact ⟨_, rfl⟩

/-- **evaluating the same input twice** (any node, not only the root): the second evaluation returns the same output
and leaves the state exactly as the first one left it -/
theorem eval_twice (fuel : Nat) (t : STree α) (ns : NS α C) (inp : LayoutInput α)
    (hne : inp.runMode ≠ RunMode.performHiddenLayout)
    (h : StoreHits ci inp (evalNodeWith ci sel algs fuel t ns inp).1) :
    evalNodeWith ci sel algs fuel t (evalNodeWith ci sel algs fuel t ns inp).2 inp =
      evalNodeWith ci sel algs fuel t ns inp := by
  cases fuel with
  | zero => simp only [evalNodeWith_zero]
  | succ fuel =>
    exact eval_hit ci sel algs fuel t _ inp _ hne (eval_then_get ci sel algs fuel t ns inp hne h)

end

/-! ### the root driver -/

section
variable {C : Type} (ci : CacheImpl α C) (sel : Display → Bool → Option Callee) (algs : Algs α)

theorem setRootLayout_cache (ns : NS α C) (l : Layout α) : (setRootLayout ns l).cache = ns.cache := by
  cases ns; rfl

theorem setRootLayout_kids (ns : NS α C) (l : Layout α) : (setRootLayout ns l).kids = ns.kids := by
  cases ns; rfl

theorem setRootLayout_layout (ns : NS α C) (l : Layout α) : (setRootLayout ns l).layout = l := by
  cases ns; rfl

theorem setRootLayout_idem (ns : NS α C) (l l' : Layout α) : setRootLayout (setRootLayout ns l) l' = setRootLayout ns l' := by
  cases ns; rfl

theorem rootInput_mode (style : Style α) (av : Size (AvailableSpace α)) :
    (RootModel.rootInput style av).runMode = RunMode.performLayout := rfl

theorem rootInput_not_hidden (style : Style α) (av : Size (AvailableSpace α)) :
    (RootModel.rootInput style av).runMode ≠ RunMode.performHiddenLayout := by
  rw [rootInput_mode]; intro h; cases h

theorem computeRootLayout_fst (fuel : Nat) (t : STree α) (av : Size (AvailableSpace α)) (ns : NS α C) :
    (computeRootLayout ci sel algs fuel t av ns).1 =
      (evalNodeWith ci sel algs fuel t ns (RootModel.rootInput t.style av)).1 := rfl

theorem computeRootLayout_snd (fuel : Nat) (t : STree α) (av : Size (AvailableSpace α)) (ns : NS α C) :
    (computeRootLayout ci sel algs fuel t av ns).2 =
      setRootLayout (evalNodeWith ci sel algs fuel t ns (RootModel.rootInput t.style av)).2
        (RootModel.rootLayout t.style av (evalNodeWith ci sel algs fuel t ns (RootModel.rootInput t.style av)).1) := rfl

/-- after a root pass the root's cache answers the root key with the pass's output -/
theorem computeRootLayout_then_get (fuel : Nat) (t : STree α) (av : Size (AvailableSpace α)) (ns : NS α C)
    (h : StoreHits ci (RootModel.rootInput t.style av) (computeRootLayout ci sel algs (fuel + 1) t av ns).1) :
    ci.get (computeRootLayout ci sel algs (fuel + 1) t av ns).2.cache (RootModel.rootInput t.style av) =
      some (computeRootLayout ci sel algs (fuel + 1) t av ns).1 := by
  rw [computeRootLayout_snd, setRootLayout_cache, computeRootLayout_fst]
  exact eval_then_get ci sel algs fuel t ns _ (rootInput_not_hidden _ _) h

/-- **the root pass run twice**, any cache implementation with a self-hitting store for the root key -/
theorem computeRootLayout_twice (fuel : Nat) (t : STree α) (av : Size (AvailableSpace α)) (ns : NS α C)
    (h : StoreHits ci (RootModel.rootInput t.style av) (computeRootLayout ci sel algs fuel t av ns).1) :
    computeRootLayout ci sel algs fuel t av (computeRootLayout ci sel algs fuel t av ns).2 =
      computeRootLayout ci sel algs fuel t av ns := by
  cases fuel with
  | zero =>
    simp only [computeRootLayout, evalNodeWith_zero, setRootLayout_idem]
  | succ fuel =>
    have hg := computeRootLayout_then_get ci sel algs fuel t av ns h
    have e := eval_hit ci sel algs fuel t (computeRootLayout ci sel algs (fuel + 1) t av ns).2 _ _
      (rootInput_not_hidden t.style av) hg
    show (_, _) = _
    rw [e]
    apply Prod.ext
    · rfl
    · show setRootLayout (computeRootLayout ci sel algs (fuel + 1) t av ns).2 _ = _
      rw [computeRootLayout_snd, setRootLayout_idem, ← computeRootLayout_fst]

/-- any number `n + 1` of identical root passes leaves the state of the first one -/
theorem computeRootLayout_iterate (fuel : Nat) (t : STree α) (av : Size (AvailableSpace α)) (ns : NS α C)
    (h : StoreHits ci (RootModel.rootInput t.style av) (computeRootLayout ci sel algs fuel t av ns).1) (n : Nat) :
    Nat.repeat (fun s => (computeRootLayout ci sel algs fuel t av s).2) (n + 1) ns =
      (computeRootLayout ci sel algs fuel t av ns).2 := by
  induction n with
  | zero => rfl
  | succ n ih =>
    show (computeRootLayout ci sel algs fuel t av
      (Nat.repeat (fun s => (computeRootLayout ci sel algs fuel t av s).2) (n + 1) ns)).2 = _
    rw [ih, computeRootLayout_twice ci sel algs fuel t av ns h]

/-! ### `compute_layout_with_measure` -/

theorem computeLayoutWithMeasure_twice (fuel : Nat) (t : STree α) (av : Size (AvailableSpace α)) (s : TaffyState α C)
    (h : StoreHits ci (RootModel.rootInput t.style av) (computeRootLayout ci sel algs fuel t av s.nodes).1) :
    computeLayoutWithMeasure ci sel algs fuel t av (computeLayoutWithMeasure ci sel algs fuel t av s) =
      computeLayoutWithMeasure ci sel algs fuel t av s := by
  have e := computeRootLayout_twice ci sel algs fuel t av s.nodes h
  simp only [computeLayoutWithMeasure, e]
  cases s.useRounding <;> rfl

end

/-! ### counting body evaluations over a whole state -/

section
variable {C : Type}

mutual
/-- total number of body evaluations (`store`s) recorded in the logs of all nodes of the state — for leaf nodes: of
measure-function invocations -/
def totalEvals : NS α (C × List (Option (LayoutInput α))) → Nat
  | .mk c _ kids => evals c.2 + totalEvalsList kids
def totalEvalsList : List (NS α (C × List (Option (LayoutInput α)))) → Nat
  | [] => 0
  | k :: ks => totalEvals k + totalEvalsList ks
end

end

end C15Eval
