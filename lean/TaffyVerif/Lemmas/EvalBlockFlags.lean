/-
  The block program: number of child calls (`C16.callsLe`) and the coverage flags of `EvalMemo.Covers`.
-/
import TaffyVerif.Lemmas.EvalBlock

set_option linter.unusedSectionVars false

namespace EvalBlock
open BlockModel EvalMemo
variable {α : Type} [Num α]

/-! ### call counts -/
section calls
open C16

theorem callsLe_bind {β γ : Type} (Q : β → Prop) (p : ProgM α β) (f : β → ProgM α γ) (b : Nat) :
    ∀ (a : Nat), callsLe a p → Post Q p → (∀ x, Q x → callsLe b (f x)) → callsLe (a + b) (p >>= f) := by
  rw [bind_eq]
  induction p with
  | pure x => intro a _ hq hf; exact callsLe_mono _ b (a + b) (by omega) (hf x hq)
  | call i inp k ih =>
    intro a hp hq hf
    obtain ⟨m, hm, hk⟩ := hp
    exact ⟨m + b, by omega, fun o => ih o m (hk o) (hq o) hf⟩
  | setLayout i l k ih => intro a hp hq hf; exact ih () a hp hq hf

theorem Post_true {β : Type} (p : ProgM α β) : Post (fun _ => True) p := by
  induction p with
  | pure b => trivial
  | call i inp k ih => intro o; exact ih o
  | setLayout i l k ih => exact ih ()

theorem callsLe_bind' {β γ : Type} (p : ProgM α β) (f : β → ProgM α γ) (a b : Nat)
    (hp : callsLe a p) (hf : ∀ x, callsLe b (f x)) : callsLe (a + b) (p >>= f) :=
  callsLe_bind (fun _ => True) p f b a hp (Post_true p) fun x _ => hf x

theorem callsLe_pure {β : Type} (n : Nat) (b : β) : callsLe n (ProgM.pure b : ProgM α β) := trivial

theorem callsLe_contentWidthLoop (av : AvailableSpace α) : ∀ (items : List (BlockItem α)) (acc : α),
    callsLe (nIn items) (contentWidthLoop av items acc)
  | [], _ => trivial
  | item :: rest, acc => by
    by_cases h : item.position = .absolute
    · rw [contentWidthLoop_cons_abs av item rest acc h]
      simp only [nIn, h, if_true, Nat.zero_add]
      exact callsLe_contentWidthLoop av rest acc
    · simp only [nIn, h, if_false]
      cases hw : (item.size.oo_clamp item.minSize item.maxSize).width with
      | some w =>
        rw [contentWidthLoop_cons_known av item rest acc w h hw]
        exact callsLe_mono _ _ _ (by omega) (callsLe_contentWidthLoop av rest _)
      | none =>
        rw [contentWidthLoop_cons_query av item rest acc h hw]
        exact ⟨nIn rest, by omega, fun o => callsLe_contentWidthLoop av rest _⟩

theorem callsLe_flowLoop (c : FlowCtx α) : ∀ (items : List (BlockItem α)) (st : FlowState α),
    callsLe (nIn items) (flowLoop c items st)
  | [], _ => trivial
  | item :: rest, st => by
    by_cases h : item.position = .absolute
    · rw [flowLoop_cons_abs c item rest st h]
      simp only [nIn, h, if_true, Nat.zero_add]
      exact callsLe_bind' _ _ (nIn rest) 0 (callsLe_flowLoop c rest st) fun _ => trivial
    · rw [flowLoop_cons_flow c item rest st h]
      simp only [nIn, h, if_false]
      exact ⟨nIn rest, by omega, fun o =>
        callsLe_bind' _ _ (nIn rest) 0 (callsLe_flowLoop c rest _) fun _ => trivial⟩

theorem callsLe_absLoop (styleOf : Nat → Option (Style α)) (a : Size α) (o : Point α) :
    ∀ (items : List (BlockItem α)) (acc : Size α), callsLe (nAbs items) (absLoop styleOf a o items acc)
  | [], _ => trivial
  | item :: rest, acc => by
    cases ht : absTaken styleOf item with
    | none =>
      rw [absLoop_cons_skip styleOf a o item rest acc ht]
      exact callsLe_mono _ _ _ (by simp only [nAbs]; omega) (callsLe_absLoop styleOf a o rest acc)
    | some s =>
      rw [absLoop_cons_take styleOf a o item rest acc s ht]
      obtain ⟨hp, _, _, _⟩ := absTaken_some styleOf item s ht
      obtain ⟨inp, lay, res, _, he⟩ := absItem_shape item s a o acc
      rw [he]
      simp only [nAbs, hp, if_true]
      exact callsLe_bind' _ _ 1 (nAbs rest) ⟨0, rfl, fun _ => trivial⟩ fun _ => callsLe_absLoop styleOf a o rest _

theorem callsLe_hiddenLoop : ∀ (l : List (Style α)) (order : Nat), callsLe (nHid l) (hiddenLoop l order)
  | [], _ => trivial
  | s :: rest, order => by
    by_cases h : s.isHidden = true
    · rw [hiddenLoop_cons_hidden s rest order h]
      simp only [nHid, h, if_true]
      exact ⟨nHid rest, by omega, fun _ => callsLe_hiddenLoop rest (order + 1)⟩
    · rw [hiddenLoop_cons_visible s rest order (by simpa using h)]
      exact callsLe_mono _ _ _ (by simp only [nHid]; omega) (callsLe_hiddenLoop rest (order + 1))

theorem callsLe_containerWidthProg (ic : InnerCtx α) (items : List (BlockItem α)) (inputs : LayoutInput α) :
    callsLe (nIn items) (containerWidthProg ic items inputs) := by
  cases h : inputs.knownDimensions.width with
  | some w => rw [containerWidthProg_known ic items inputs w h]; trivial
  | none =>
    rw [containerWidthProg_unknown ic items inputs h]
    exact callsLe_bind' _ _ (nIn items) 0 (callsLe_contentWidthLoop _ items 0) fun _ => trivial

theorem callsLe_innerTail (style : Style α) (cs : List (Style α)) (inputs : LayoutInput α) (w : α)
    (r : List (BlockItem α) × (Size α × α × MarginSet α × MarginSet α)) :
    callsLe (nAbs r.1 + nHid cs) (innerTail style cs inputs w r) := by
  unfold innerTail
  simp only
  split
  · trivial
  · exact callsLe_bind' _ _ _ _ (callsLe_absLoop _ _ _ r.1 _) fun _ =>
      callsLe_bind' _ _ (nHid cs) 0 (callsLe_hiddenLoop cs 0) fun _ => trivial

theorem callsLe_innerAfterWidth (style : Style α) (cs : List (Style α)) (inputs : LayoutInput α) (w : α) :
    callsLe (nIn (generateItemList cs (innerCtx style inputs).containerContentBoxSize) +
      (nAbs (generateItemList cs (innerCtx style inputs).containerContentBoxSize) + nHid cs))
      (innerAfterWidth style cs inputs w) := by
  unfold innerAfterWidth
  simp only
  split
  · trivial
  · refine callsLe_bind _ _ _ _ _ ?_ (performFinal_skel _ _) fun r hr => ?_
    · rw [performFinal_eq]
      exact callsLe_bind' _ _ _ 0 (callsLe_flowLoop _ _ _) fun _ => trivial
    · rw [← Skel.nAbs _ _ hr]
      exact callsLe_innerTail style cs inputs w r

theorem callsLe_computeInner (style : Style α) (cs : List (Style α)) (inputs : LayoutInput α) :
    callsLe (2 * cs.length) (computeInner style cs inputs) := by
  rw [computeInner_eq]
  have h1 := nIn_add_nAbs (generateItemList cs (innerCtx style inputs).containerContentBoxSize)
  have h2 := generateItemsFrom_length (innerCtx style inputs).containerContentBoxSize cs 0 0
  refine callsLe_mono _ _ _ ?_ (callsLe_bind' _ _ _ _ (callsLe_containerWidthProg _ _ inputs)
    fun w => callsLe_innerAfterWidth style cs inputs w)
  unfold generateItemList at *
  omega

/-- per run, `compute_block_layout` calls its children at most `2 · n` times in total -/
theorem callsLe_computeBlockLayout (style : Style α) (cs : List (Style α)) (inputs : LayoutInput α) :
    callsLe (2 * cs.length) (computeBlockLayout style cs inputs) := by
  rcases computeBlockLayout_cases style inputs with ⟨_, o, h⟩ | ⟨inputs', _, h⟩
  · rw [h]; trivial
  · rw [h]; exact callsLe_computeInner style cs inputs'

end calls

/-! ### coverage flags -/

/-- `EvalMemo.Covers` with an arbitrary final condition (on the result and the final flags) -/
def Track {β : Type} : (Nat → Bool) → (Nat → Bool) → ProgM α β → (β → (Nat → Bool) → (Nat → Bool) → Prop) → Prop
  | own, strict, .pure b, Q => Q b own strict
  | own, strict, .call i inp k, Q =>
    ∀ o, Track (upd own i (inp.runMode == .performHiddenLayout)) (upd strict i (inp.runMode != .computeSize)) (k o) Q
  | own, strict, .setLayout i _ k, Q => Track (upd own i true) strict (k ()) Q

theorem Covers_iff_Track {β : Type} (n : Nat) (p : ProgM α β) : ∀ (own strict : Nat → Bool),
    Covers n own strict p ↔ Track own strict p (fun _ o s => ∀ i, i < n → o i = true ∧ s i = true) := by
  induction p with
  | pure b => intro own strict; simp only [Covers, Track]
  | call i inp k ih => intro own strict; simp only [Covers, Track, ih]
  | setLayout i l k ih => intro own strict; simp only [Covers, Track, ih]

theorem Track_bind {β γ : Type} (p : ProgM α β) (f : β → ProgM α γ)
    (P : β → (Nat → Bool) → (Nat → Bool) → Prop) (Q : γ → (Nat → Bool) → (Nat → Bool) → Prop) :
    ∀ (own strict : Nat → Bool), Track own strict p P → (∀ a o s, P a o s → Track o s (f a) Q) →
      Track own strict (p >>= f) Q := by
  rw [bind_eq]
  induction p with
  | pure b => intro own strict hp hf; exact hf b own strict hp
  | call i inp k ih => intro own strict hp hf o; exact ih o _ _ (hp o) hf
  | setLayout i l k ih => intro own strict hp hf; exact ih () _ _ hp hf

theorem Track_mono {β : Type} (p : ProgM α β) (P Q : β → (Nat → Bool) → (Nat → Bool) → Prop)
    (h : ∀ a o s, P a o s → Q a o s) : ∀ (own strict : Nat → Bool), Track own strict p P → Track own strict p Q := by
  induction p with
  | pure b => intro own strict hp; exact h b own strict hp
  | call i inp k ih => intro own strict hp o; exact ih o _ _ (hp o)
  | setLayout i l k ih => intro own strict hp; exact ih () _ _ hp

theorem Track_true {β : Type} (p : ProgM α β) : ∀ (own strict : Nat → Bool), Track own strict p (fun _ _ _ => True) := by
  induction p with
  | pure b => intro _ _; trivial
  | call i inp k ih => intro own strict o; exact ih o _ _
  | setLayout i l k ih => intro own strict; exact ih () _ _

theorem upd_upd (f : Nat → Bool) (i : Nat) (a b : Bool) : upd (upd f i a) i b = upd f i b := by
  funext j
  simp only [upd]
  split <;> rfl

theorem upd_self (f : Nat → Bool) (i : Nat) (a : Bool) : upd f i a i = a := by simp only [upd, if_true]
theorem upd_ne (f : Nat → Bool) (i j : Nat) (a : Bool) (h : j ≠ i) : upd f i a j = f j := by simp only [upd, h, if_false]

/-- a PerformLayout call to child `i` immediately followed by `set_unrounded_layout(i)` -/
theorem Track_callPL_set {β : Type} (own strict : Nat → Bool) (i : Nat) (inp : LayoutInput α)
    (hm : inp.runMode = .performLayout) (lay : LayoutOutput α → Layout α) (k : LayoutOutput α → ProgM α β)
    (Q : β → (Nat → Bool) → (Nat → Bool) → Prop)
    (h : ∀ out, Track (upd own i true) (upd strict i true) (k out) Q) :
    Track own strict (.call i inp fun out => .setLayout i (lay out) fun _ => k out) Q := by
  intro out
  simp only [Track, hm, upd_upd]
  exact h out

/-- the flag condition per child: the last call was PerformLayout/hidden, and the layout has been written since -/
def G (own strict : Nat → Bool) (i : Nat) : Prop := strict i = true ∧ own i = true

theorem G_upd_true (own strict : Nat → Bool) (i j : Nat) (h : G own strict j ∨ j = i) :
    G (upd own i true) (upd strict i true) j := by
  by_cases hj : j = i
  · subst hj
    exact ⟨upd_self _ _ _, upd_self _ _ _⟩
  · rcases h with h | h
    · simpa only [G, upd_ne _ _ _ _ hj] using h
    · exact absurd h hj

theorem Track_flowLoop (c : FlowCtx α) : ∀ (items : List (BlockItem α)) (st : FlowState α)
    (own strict : Nat → Bool),
    Track own strict (flowLoop c items st) (fun r o s => Skel items r.1 ∧ (∀ i, G own strict i → G o s i) ∧
      ∀ it ∈ items, it.position ≠ .absolute → G o s it.nodeIdx)
  | [], st, own, strict => ⟨Skel.refl [], fun _ h => h, fun _ h => by simp at h⟩
  | item :: rest, st, own, strict => by
    by_cases h : item.position = .absolute
    · rw [flowLoop_cons_abs c item rest st h]
      refine Track_bind _ _ _ _ own strict (Track_flowLoop c rest st own strict) ?_
      intro r o s ⟨h1, h2, h3⟩
      refine ⟨Skel.cons rfl rfl h1, h2, fun it hit hp => ?_⟩
      rcases List.mem_cons.1 hit with e | e
      · subst e; exact absurd h hp
      · exact h3 it e hp
    · rw [flowLoop_cons_flow c item rest st h]
      refine Track_callPL_set own strict _ _ rfl _ _ _ fun out => ?_
      refine Track_bind _ _ _ _ _ _ (Track_flowLoop c rest _ _ _) ?_
      intro r o s ⟨h1, h2, h3⟩
      refine ⟨Skel.cons rfl rfl h1, fun i hi => h2 i (G_upd_true own strict _ i (Or.inl hi)), fun it hit hp => ?_⟩
      rcases List.mem_cons.1 hit with e | e
      · subst e; exact h2 _ (G_upd_true own strict _ _ (Or.inr rfl))
      · exact h3 it e hp

theorem Track_absLoop (styleOf : Nat → Option (Style α)) (a : Size α) (o : Point α) :
    ∀ (items : List (BlockItem α)) (acc : Size α) (own strict : Nat → Bool),
    Track own strict (absLoop styleOf a o items acc) (fun _ o' s' => (∀ i, G own strict i → G o' s' i) ∧
      ∀ it ∈ items, ∀ cs, absTaken styleOf it = some cs → G o' s' it.nodeIdx)
  | [], _, own, strict => ⟨fun _ h => h, fun _ h => by simp at h⟩
  | item :: rest, acc, own, strict => by
    cases ht : absTaken styleOf item with
    | none =>
      rw [absLoop_cons_skip styleOf a o item rest acc ht]
      refine Track_mono _ _ _ ?_ own strict (Track_absLoop styleOf a o rest acc own strict)
      intro _ o' s' ⟨h2, h3⟩
      refine ⟨h2, fun it hit cs hcs => ?_⟩
      rcases List.mem_cons.1 hit with e | e
      · subst e; rw [ht] at hcs; cases hcs
      · exact h3 it e cs hcs
    | some s =>
      rw [absLoop_cons_take styleOf a o item rest acc s ht]
      obtain ⟨inp, lay, res, hm, he⟩ := absItem_shape item s a o acc
      rw [he]
      show Track own strict (ProgM.bind _ _) _
      simp only [ProgM.bind]
      refine Track_callPL_set own strict _ inp hm lay (fun out => absLoop styleOf a o rest (res out)) _ fun out => ?_
      refine Track_mono _ _ _ ?_ _ _ (Track_absLoop styleOf a o rest (res out) _ _)
      intro _ o' s' ⟨h2, h3⟩
      refine ⟨fun i hi => h2 i (G_upd_true own strict _ i (Or.inl hi)), fun it hit cs hcs => ?_⟩
      rcases List.mem_cons.1 hit with e | e
      · subst e; exact h2 _ (G_upd_true own strict _ _ (Or.inr rfl))
      · exact h3 it e cs hcs

theorem Track_hiddenLoop : ∀ (l : List (Style α)) (order : Nat) (own strict : Nat → Bool),
    Track own strict (hiddenLoop l order) (fun _ o s => (∀ i, G own strict i → G o s i) ∧
      ∀ j s', l[j]? = some s' → s'.isHidden = true → G o s (order + j))
  | [], _, own, strict => ⟨fun _ h => h, fun _ _ h => by simp at h⟩
  | x :: rest, order, own, strict => by
    by_cases h : x.isHidden = true
    · rw [hiddenLoop_cons_hidden x rest order h]
      refine Track_callPL_set own strict order _ hiddenInput_mode _ _ _ fun _ => ?_
      refine Track_mono _ _ _ ?_ _ _ (Track_hiddenLoop rest (order + 1) _ _)
      intro _ o s ⟨h2, h3⟩
      refine ⟨fun i hi => h2 i (G_upd_true own strict _ i (Or.inl hi)), fun j s' hj hs' => ?_⟩
      cases j with
      | zero => exact h2 _ (G_upd_true own strict _ _ (Or.inr rfl))
      | succ j =>
        have := h3 j s' (by simpa using hj) hs'
        rwa [show order + 1 + j = order + (j + 1) by omega] at this
    · rw [hiddenLoop_cons_visible x rest order (by simpa using h)]
      refine Track_mono _ _ _ ?_ _ _ (Track_hiddenLoop rest (order + 1) own strict)
      intro _ o s ⟨h2, h3⟩
      refine ⟨h2, fun j s' hj hs' => ?_⟩
      cases j with
      | zero =>
        simp only [List.getElem?_cons_zero, Option.some.injEq] at hj
        subst hj
        exact absurd hs' h
      | succ j =>
        have := h3 j s' (by simpa using hj) hs'
        rwa [show order + 1 + j = order + (j + 1) by omega] at this

theorem Track_innerTail (style : Style α) (cs : List (Style α)) (inputs : LayoutInput α) (w : α)
    (hm : inputs.runMode = .performLayout) (r : List (BlockItem α) × (Size α × α × MarginSet α × MarginSet α))
    (own strict : Nat → Bool)
    (hr : Skel (generateItemList cs (innerCtx style inputs).containerContentBoxSize) r.1)
    (hf : ∀ it ∈ generateItemList cs (innerCtx style inputs).containerContentBoxSize, it.position ≠ .absolute →
      G own strict it.nodeIdx) :
    Track own strict (innerTail style cs inputs w r) (fun _ o s => ∀ i, i < cs.length → G o s i) := by
  unfold innerTail
  simp only [hm]
  rw [if_neg (by decide)]
  refine Track_bind _ _ _ _ own strict (Track_absLoop _ _ _ r.1 _ own strict) ?_
  intro _ o1 s1 ⟨a1, a2⟩
  refine Track_bind _ _ _ _ o1 s1 (Track_hiddenLoop cs 0 o1 s1) ?_
  · intro _ o2 s2 ⟨b1, b2⟩
    show ∀ i, i < cs.length → G o2 s2 i
    intro i hi
    have hget : cs[i]? = some cs[i] := List.getElem?_eq_getElem hi
    by_cases hh : cs[i].isHidden = true
    · simpa using b2 i _ hget hh
    · have hh' : cs[i].isHidden = false := by simpa using hh
      obtain ⟨it, hit, hidx, hpos⟩ := generateItemList_complete cs (innerCtx style inputs).containerContentBoxSize i _ hget hh'
      by_cases hp : it.position = .absolute
      · obtain ⟨it', hit', hidx', hpos'⟩ := Skel.mem _ _ hr it hit
        have ht : absTaken (fun j => cs[j]?) it' = some cs[i] := by
          unfold absTaken
          rw [hpos', hp, if_pos rfl, hidx', hidx]
          simp only [hget, hh', Bool.false_or, pos_bne]
          rw [if_neg]
          rw [← hpos, hp]
          simp
        have := a2 it' hit' _ ht
        rw [hidx', hidx] at this
        exact b1 i this
      · have := hf it hit hp
        rw [hidx] at this
        exact b1 i (a1 i this)

theorem Track_innerAfterWidth (style : Style α) (cs : List (Style α)) (inputs : LayoutInput α) (w : α)
    (hm : inputs.runMode = .performLayout) (own strict : Nat → Bool) :
    Track own strict (innerAfterWidth style cs inputs w) (fun _ o s => ∀ i, i < cs.length → G o s i) := by
  unfold innerAfterWidth
  simp only [hm]
  rw [performFinal_eq]
  refine Track_bind _ _ _ _ own strict
    (Track_bind _ _ _ (fun r o s => Skel (generateItemList cs (innerCtx style inputs).containerContentBoxSize) r.1 ∧
      ∀ it ∈ generateItemList cs (innerCtx style inputs).containerContentBoxSize, it.position ≠ .absolute →
        G o s it.nodeIdx) own strict (Track_flowLoop _ _ _ own strict) ?_) ?_
  · intro r o s ⟨h1, _, h3⟩
    exact ⟨h1, h3⟩
  · intro r o s ⟨h1, h3⟩
    exact Track_innerTail style cs inputs w hm r o s h1 h3

theorem Track_computeInner (style : Style α) (cs : List (Style α)) (inputs : LayoutInput α)
    (hm : inputs.runMode = .performLayout) (own strict : Nat → Bool) :
    Track own strict (computeInner style cs inputs) (fun _ o s => ∀ i, i < cs.length → G o s i) := by
  rw [computeInner_eq]
  exact Track_bind _ _ _ _ own strict (Track_true _ own strict) fun w o s _ =>
    Track_innerAfterWidth style cs inputs w hm o s

/-- in PerformLayout mode, at the end of `compute_block_layout` every child's last call was a PerformLayout call and
its layout has been written since (in-flow, absolutely positioned and `display:none` children alike) -/
theorem Track_computeBlockLayout (style : Style α) (cs : List (Style α)) (inputs : LayoutInput α)
    (hm : inputs.runMode = .performLayout) (own strict : Nat → Bool) :
    Track own strict (computeBlockLayout style cs inputs) (fun _ o s => ∀ i, i < cs.length → G o s i) := by
  rcases computeBlockLayout_cases style inputs with ⟨hc, _⟩ | ⟨inputs', hm', h⟩
  · rw [hm] at hc; cases hc
  · rw [h]; exact Track_computeInner style cs inputs' (hm'.trans hm) own strict

/-! ### a lower bound on the number of calls: one per `display:none` child -/
section lower
open C16

theorem callsLe_bind_inv {β γ : Type} (p : ProgM α β) (f : β → ProgM α γ) :
    ∀ (q : Nat), callsLe q (p >>= f) → ∃ x, callsLe q (f x) := by
  rw [bind_eq]
  induction p with
  | pure x => intro q h; exact ⟨x, h⟩
  | call i inp k ih =>
    intro q h
    obtain ⟨m, hm, hk⟩ := h
    obtain ⟨x, hx⟩ := ih LayoutOutput.hidden m (hk LayoutOutput.hidden)
    exact ⟨x, callsLe_mono _ m q (by omega) hx⟩
  | setLayout i l k ih => intro q h; exact ih () q h

theorem callsLe_hiddenLoop_inv {γ : Type} (f : Unit → ProgM α γ) : ∀ (l : List (Style α)) (order q : Nat),
    callsLe q (hiddenLoop l order >>= f) → nHid l ≤ q
  | [], _, _, _ => Nat.zero_le _
  | x :: rest, order, q, h => by
    by_cases hx : x.isHidden = true
    · rw [hiddenLoop_cons_hidden x rest order hx] at h
      obtain ⟨m, hm, hk⟩ := h
      have := callsLe_hiddenLoop_inv f rest (order + 1) m (hk LayoutOutput.hidden)
      simp only [nHid, hx, if_true]
      omega
    · rw [hiddenLoop_cons_visible x rest order (by simpa using hx)] at h
      have := callsLe_hiddenLoop_inv f rest (order + 1) q h
      simp only [nHid, hx]
      simpa using this

/-- in PerformLayout mode every run of `compute_block_layout` makes at least one call per `display:none` child -/
theorem callsLe_computeBlockLayout_inv (style : Style α) (cs : List (Style α)) (inputs : LayoutInput α)
    (hm : inputs.runMode = .performLayout) (q : Nat) (h : callsLe q (computeBlockLayout style cs inputs)) :
    nHid cs ≤ q := by
  rcases computeBlockLayout_cases style inputs with ⟨hc, _⟩ | ⟨inputs', hm', e⟩
  · rw [hm] at hc; cases hc
  · have hm'' := hm'.trans hm
    rw [e, computeInner_eq] at h
    obtain ⟨w, h⟩ := callsLe_bind_inv _ _ q h
    unfold innerAfterWidth at h
    simp only [hm''] at h
    obtain ⟨r, h⟩ := callsLe_bind_inv _ _ q h
    unfold innerTail at h
    simp only [hm''] at h
    rw [if_neg (by decide)] at h
    obtain ⟨acs, h⟩ := callsLe_bind_inv _ _ q h
    exact callsLe_hiddenLoop_inv _ cs 0 q h

end lower

end EvalBlock
