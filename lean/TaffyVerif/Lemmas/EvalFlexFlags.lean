/-
  The flexbox program: number of child calls (`C16.callsLe`) and the coverage flags of `EvalMemo.Covers`.

  Calls per run: ≤ 5 queries per flex item in the measuring prefix (flex basis, min-content contribution, intrinsic main
  size contribution, hypothetical cross size, baseline) + 1 in the final layout pass; 1 per absolutely positioned box;
  1 per `display:none` child.  So ≤ `6·n` for `n` children.

  Coverage: in PerformLayout mode the program ends with the final layout pass, the absolute pass and the hidden-children
  loop, each of which is a sequence of `perform_child_layout(j); set_unrounded_layout(j)` pairs, and together they visit
  every child.
-/
import TaffyVerif.Lemmas.EvalFlexHidden

set_option linter.unusedSectionVars false
set_option linter.unusedVariables false

namespace EvalFlex
open FlexModel EvalBlock EvalMemo
variable {α : Type} [Num α]

/-! ### call counts -/
section calls
open C16
variable [FlexLine.NumX α]

theorem callsLe_layoutStage (cs : List (Style α)) (k : AlgoConstants α) (t : α) (lines : List (FlexLineS α)) :
    callsLe (nItems lines + (nAbsV cs + nHid cs)) (layoutStage cs k t lines) := by
  unfold layoutStage
  obtain ⟨J, hp, hJ⟩ := Lays_finalLayoutPass k (alignFlexLinesPerAlignContent k t lines)
  have hl : J.length = nItems lines := by
    rw [hp.length_eq, idxs_alignFlexLines]; rfl
  refine callsLe_bind' _ _ _ _ (hl ▸ Lays_callsLe J _ hJ) fun _ => ?_
  have ha := Lays_callsLe _ _ (Lays_absLoop k cs 0 Size.zero)
  rw [absIdxFrom_length] at ha
  refine callsLe_bind' _ _ _ _ ha fun _ => ?_
  exact callsLe_bind' _ _ (nHid cs) 0 (callsLe_hiddenLoop cs 0) fun _ => trivial

theorem callsLe_flexTail (cs : List (Style α)) (inputs : LayoutInput α) (r : List (FlexLineS α) × AlgoConstants α) :
    callsLe (nItems r.1 + (nAbsV cs + nHid cs)) (flexTail cs inputs r) := by
  unfold flexTail
  simp only
  split
  · trivial
  · have := callsLe_layoutStage cs (determineContainerCrossSize r.2 inputs.knownDimensions
        (crossStage cs inputs r.2 r.1)).2 (determineContainerCrossSize r.2 inputs.knownDimensions
        (crossStage cs inputs r.2 r.1)).1 (crossStage cs inputs r.2 r.1)
    rwa [nItems_of_shape _ _ (shape_crossStage cs inputs r.2 r.1)] at this

theorem items0_length (style : Style α) (cs : List (Style α)) (inputs : LayoutInput α) :
    (items0 style cs inputs).length = nFlow cs := generateItemsFrom_length _ cs 0

/-- per run: at most 6 calls per flex item, one per absolutely positioned box, one per `display:none` child -/
theorem callsLe_computePreliminary (style : Style α) (cs : List (Style α)) (inputs : LayoutInput α) :
    callsLe (6 * nFlow cs + nAbsV cs + nHid cs) (computePreliminary style cs inputs) := by
  rw [computePreliminary_eq]
  have hm := Meas_flexPrefix style cs inputs
  rw [items0_length] at hm
  have := callsLe_bind _ (flexPrefix style cs inputs) (flexTail cs inputs) (nFlow cs + (nAbsV cs + nHid cs))
    (5 * nFlow cs) (Meas_callsLe _ _ _ hm) (Meas_Post _ _ _ hm) fun r hr => by
      have h := callsLe_flexTail cs inputs r
      have e : nItems r.1 = nFlow cs := by
        rw [nItems, hr, ← items0_length style cs inputs]; simp only [iidx, List.length_map]
      rwa [e] at h
  exact callsLe_mono _ _ _ (by omega) this

theorem callsLe_computeFlexboxLayout_fine (style : Style α) (cs : List (Style α)) (inputs : LayoutInput α) :
    callsLe (6 * nFlow cs + nAbsV cs + nHid cs) (computeFlexboxLayout style cs inputs) := by
  rcases computeFlexboxLayout_cases style inputs with ⟨_, o, h⟩ | ⟨inputs', _, h⟩
  · rw [h]; trivial
  · rw [h]; exact callsLe_computePreliminary style cs inputs'

/-- per run, `compute_flexbox_layout` calls its children at most `6 · n` times in total -/
theorem callsLe_computeFlexboxLayout (style : Style α) (cs : List (Style α)) (inputs : LayoutInput α) :
    callsLe (6 * cs.length) (computeFlexboxLayout style cs inputs) := by
  have := nFlow_nAbsV_nHid cs
  exact callsLe_mono _ _ _ (by omega) (callsLe_computeFlexboxLayout_fine style cs inputs)

/-! a lower bound on the calls of one concrete run: all answers `LayoutOutput.hidden` -/

/-- the number of calls along the run in which every child answers `o` -/
def callsOn {β : Type} (o : LayoutOutput α) : ProgM α β → Nat
  | .pure _ => 0
  | .call _ _ k => callsOn o (k o) + 1
  | .setLayout _ _ k => callsOn o (k ())

theorem callsOn_le {β : Type} (o : LayoutOutput α) (p : ProgM α β) : ∀ q, callsLe q p → callsOn o p ≤ q := by
  induction p with
  | pure b => intro _ _; exact Nat.zero_le _
  | call i inp k ih =>
    intro q h
    obtain ⟨m, hm, hk⟩ := h
    have := ih o m (hk o)
    simp only [callsOn]; omega
  | setLayout i l k ih => intro q h; exact ih () q h

end calls

/-! ### coverage flags -/
section flags
variable [FlexLine.NumX α]

theorem Track_of_Post {β : Type} (Q : β → Prop) (p : ProgM α β) : ∀ (own strict : Nat → Bool), Post Q p →
    Track own strict p (fun r _ _ => Q r) := by
  induction p with
  | pure b => intro _ _ h; exact h
  | call i inp k ih => intro own strict h o; exact ih o _ _ (h o)
  | setLayout i l k ih => intro own strict h; exact ih () _ _ h

theorem Track_layoutStage (cs : List (Style α)) (k : AlgoConstants α) (t : α) (lines : List (FlexLineS α))
    (own strict : Nat → Bool) :
    Track own strict (layoutStage cs k t lines) (fun _ o s =>
      (∀ i ∈ idxs lines, G o s i) ∧ (∀ i ∈ absIdxFrom cs 0, G o s i) ∧
      ∀ j s', cs[j]? = some s' → s'.isHidden = true → G o s j) := by
  unfold layoutStage
  obtain ⟨J, hp, hJ⟩ := Lays_finalLayoutPass k (alignFlexLinesPerAlignContent k t lines)
  refine Track_bind _ _ _ _ own strict (Lays_Track J _ own strict hJ) ?_
  intro _ o1 s1 ⟨_, a2⟩
  refine Track_bind _ _ _ _ o1 s1 (Lays_Track _ _ o1 s1 (Lays_absLoop k cs 0 Size.zero)) ?_
  intro _ o2 s2 ⟨b1, b2⟩
  refine Track_bind _ _ _ _ o2 s2 (Track_hiddenLoop cs 0 o2 s2) ?_
  intro _ o3 s3 ⟨c1, c2⟩
  refine ⟨fun i hi => c1 i (b1 i (a2 i ?_)), fun i hi => c1 i (b2 i hi), fun j s' hj hs' => ?_⟩
  · rw [← idxs_alignFlexLines k t lines] at hi
    exact hp.mem_iff.2 hi
  · simpa using c2 j s' hj hs'

theorem Track_flexTail (cs : List (Style α)) (inputs : LayoutInput α) (hm : inputs.runMode = .performLayout)
    (r : List (FlexLineS α) × AlgoConstants α) (own strict : Nat → Bool) :
    Track own strict (flexTail cs inputs r) (fun _ o s =>
      (∀ i ∈ idxs r.1, G o s i) ∧ (∀ i ∈ absIdxFrom cs 0, G o s i) ∧
      ∀ j s', cs[j]? = some s' → s'.isHidden = true → G o s j) := by
  unfold flexTail
  simp only [hm]
  rw [if_neg (by decide)]
  have := Track_layoutStage cs (determineContainerCrossSize r.2 inputs.knownDimensions
      (crossStage cs inputs r.2 r.1)).2 (determineContainerCrossSize r.2 inputs.knownDimensions
      (crossStage cs inputs r.2 r.1)).1 (crossStage cs inputs r.2 r.1) own strict
  rwa [idxs_crossStage] at this

theorem Track_computePreliminary (style : Style α) (cs : List (Style α)) (inputs : LayoutInput α)
    (hm : inputs.runMode = .performLayout) (own strict : Nat → Bool) :
    Track own strict (computePreliminary style cs inputs) (fun _ o s => ∀ i, i < cs.length → G o s i) := by
  rw [computePreliminary_eq]
  refine Track_bind _ _ _ _ own strict
    (Track_of_Post _ _ own strict (Meas_Post _ _ _ (Meas_flexPrefix style cs inputs))) ?_
  intro r o s hr
  refine Track_mono _ _ _ ?_ o s (Track_flexTail cs inputs hm r o s)
  intro _ o' s' ⟨h1, h2, h3⟩ i hi
  have hget : cs[i]? = some cs[i] := List.getElem?_eq_getElem hi
  rcases child_trichotomy cs[i] with ht | ht | ht
  · exact h1 i (by rw [hr]; exact (mem_iidx_items _ cs i).2 ⟨_, hget, ht⟩)
  · exact h2 i ((mem_absIdx cs i).2 ⟨_, hget, ht⟩)
  · exact h3 i _ hget ht

/-- in PerformLayout mode, at the end of `compute_flexbox_layout` every child's last call was a PerformLayout call and
its layout has been written since (flex items, absolutely positioned and `display:none` children alike) -/
theorem Track_computeFlexboxLayout (style : Style α) (cs : List (Style α)) (inputs : LayoutInput α)
    (hm : inputs.runMode = .performLayout) (own strict : Nat → Bool) :
    Track own strict (computeFlexboxLayout style cs inputs) (fun _ o s => ∀ i, i < cs.length → G o s i) := by
  rcases computeFlexboxLayout_cases style inputs with ⟨hc, _⟩ | ⟨inputs', hm', h⟩
  · rw [hm] at hc; cases hc
  · rw [h]; exact Track_computePreliminary style cs inputs' (hm'.trans hm) own strict

theorem flex_covers (style : Style α) (cs : List (Style α)) (inp : LayoutInput α)
    (hm : inp.runMode = .performLayout) :
    Covers cs.length (fun _ => false) (fun _ => false) (computeFlexboxLayout style cs inp) := by
  rw [Covers_iff_Track]
  refine Track_mono _ _ _ ?_ _ _ (Track_computeFlexboxLayout style cs inp hm _ _)
  intro _ o st hg i hi
  exact ⟨(hg i hi).2, (hg i hi).1⟩

end flags

end EvalFlex
