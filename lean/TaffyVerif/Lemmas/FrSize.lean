/-
  Lemmas about `find_size_of_fr` / `expand_flexible_tracks` at exact rationals (for Props/C09.lean, Props/C03Tracks.lean).
-/
import TaffyVerif.Model.FrSize
import Mathlib.Tactic.Linarith
import Mathlib.Tactic.Ring
import Mathlib.Tactic.Positivity

namespace GridTracks

/-! ### `Num Rat` unfolded -/

@[simp] theorem rat_fle (a b : Rat) : Num.fle a b = decide (a ≤ b) := rfl
@[simp] theorem rat_flt (a b : Rat) : Num.flt a b = decide (a < b) := rfl
@[simp] theorem rat_feq (a b : Rat) : Num.feq a b = decide (a = b) := rfl
theorem rat_fmax (a b : Rat) : Num.fmax a b = max a b := by
  show (if a ≤ b then b else a) = max a b
  rw [max_def]
theorem rat_fmin (a b : Rat) : Num.fmin a b = min a b := by
  show (if a ≤ b then a else b) = min a b
  rw [min_def]

theorem foldl_add_eq (l : List Rat) (a : Rat) : l.foldl (· + ·) a = a + l.sum := by
  induction l generalizing a with
  | nil => simp
  | cons x rest ih => simp only [List.foldl_cons, List.sum_cons, ih]; ring

theorem sumF_rat (l : List Rat) : sumF l = l.sum := by
  unfold sumF
  rw [foldl_add_eq]
  simp

/-! ### per-track contributions to `(used_space, naive_flex_factor_sum)` -/

/-- what one track adds to `used_space` and to the flex factor sum when the hypothetical fr size is `hyp` -/
def frContrib (hyp : Option Rat) (t : GridTrack Rat) : Rat × Rat :=
  match t.maxFn with
  | .fr v => if frGe v hyp t.baseSize then (0, v) else (t.baseSize, 0)
  | _ => (t.baseSize, 0)

def frUsed (hyp : Option Rat) (l : List (GridTrack Rat)) : Rat := (l.map fun t => (frContrib hyp t).1).sum
/-- sum of the flex factors of the tracks treated as flexible under `hyp` -/
def frFlexSum (hyp : Option Rat) (l : List (GridTrack Rat)) : Rat := (l.map fun t => (frContrib hyp t).2).sum

theorem frUsed_cons (hyp : Option Rat) (t : GridTrack Rat) (l : List (GridTrack Rat)) :
    frUsed hyp (t :: l) = (frContrib hyp t).1 + frUsed hyp l := by simp [frUsed]
theorem frFlexSum_cons (hyp : Option Rat) (t : GridTrack Rat) (l : List (GridTrack Rat)) :
    frFlexSum hyp (t :: l) = (frContrib hyp t).2 + frFlexSum hyp l := by simp [frFlexSum]

theorem frAccumulate_cons (hyp : Option Rat) (t : GridTrack Rat) (l : List (GridTrack Rat)) (a b : Rat) :
    frAccumulate hyp (t :: l) (a, b) = frAccumulate hyp l (a + (frContrib hyp t).1, b + (frContrib hyp t).2) := by
  conv_lhs => unfold frAccumulate
  unfold frContrib
  cases hm : t.maxFn with
  | fr v =>
    simp only []
    split <;> simp
  | _ => simp

theorem frAccumulate_eq (hyp : Option Rat) (l : List (GridTrack Rat)) (a b : Rat) :
    frAccumulate hyp l (a, b) = (a + frUsed hyp l, b + frFlexSum hyp l) := by
  induction l generalizing a b with
  | nil => simp [frAccumulate, frUsed, frFlexSum]
  | cons t rest ih =>
    rw [frAccumulate_cons, ih, frUsed_cons, frFlexSum_cons]
    ext <;> simp only [] <;> ring

/-- the hypothetical fr size computed by one iteration from the previous one -/
def frStep (tracks : List (GridTrack Rat)) (space : Rat) (hyp : Option Rat) : Rat :=
  (space - frUsed hyp tracks) / max (frFlexSum hyp tracks) 1

theorem findSizeOfFrLoop_succ (fuel : Nat) (tracks : List (GridTrack Rat)) (space : Rat) (hyp : Option Rat) :
    findSizeOfFrLoop (fuel + 1) tracks space hyp =
      if frIsValid tracks (some (frStep tracks space hyp)) hyp then some (frStep tracks space hyp)
      else findSizeOfFrLoop fuel tracks space (some (frStep tracks space hyp)) := by
  conv => lhs; unfold findSizeOfFrLoop
  simp only [frAccumulate_eq, zero_add, rat_fmax, frStep]
  rfl

/-! ### monotonicity of the iterates -/

/-- flexible tracks have a non-negative factor and a non-negative base size (taffy never produces others:
base sizes start at a resolved length or 0 and only grow; negative `fr` values are invalid CSS) -/
def FrWF (t : GridTrack Rat) : Prop := ∀ v, t.maxFn = .fr v → 0 ≤ v ∧ 0 ≤ t.baseSize

/-- the loop state is either the initial `+∞` or a value that the next iterate does not exceed -/
def FrInv (tracks : List (GridTrack Rat)) (space : Rat) : Option Rat → Prop
  | none => True
  | some p => frStep tracks space (some p) ≤ p

/-- going from `P` to a smaller hypothetical size `F`: what each track's contribution changes by -/
theorem frContrib_delta (t : GridTrack Rat) (hw : FrWF t) (P : Option Rat) (F : Rat)
    (hP : ∀ p, P = some p → F ≤ p) :
    0 ≤ (frContrib (some F) t).1 - (frContrib P t).1 ∧
    0 ≤ (frContrib P t).2 - (frContrib (some F) t).2 ∧
    F * ((frContrib P t).2 - (frContrib (some F) t).2) ≤ (frContrib (some F) t).1 - (frContrib P t).1 := by
  unfold frContrib
  cases hm : t.maxFn with
  | fr v =>
    obtain ⟨hv, hb⟩ := hw v hm
    simp only []
    by_cases hF : frGe v (some F) t.baseSize = true
    · by_cases hPge : frGe v P t.baseSize = true
      · simp [hF, hPge]
      · simp only [hF, hPge, if_true]
        cases P with
        | none =>
          simp only [frGe, rat_flt, decide_eq_true_eq, not_lt] at hPge
          have hv0 : v = 0 := le_antisymm hPge hv
          simp only [frGe, rat_fle, decide_eq_true_eq] at hF
          subst hv0
          have hb0 : t.baseSize = 0 := by
            have : t.baseSize ≤ 0 := by simpa using hF
            exact le_antisymm this hb
          simp [hb0]
        | some p =>
          exfalso
          simp only [frGe, rat_fle, decide_eq_true_eq, not_le] at hPge hF
          have := hP p rfl
          have : v * F ≤ v * p := mul_le_mul_of_nonneg_left this hv
          linarith
    · have hF' : frGe v (some F) t.baseSize = false := by simpa using hF
      have hlt : v * F < t.baseSize := by simpa [frGe] using hF'
      by_cases hPge : frGe v P t.baseSize = true
      · rw [hF', hPge]
        simp only [if_true, Bool.false_eq_true, if_false, sub_zero]
        exact ⟨hb, hv, by linarith [mul_comm F v]⟩
      · have hPge' : frGe v P t.baseSize = false := by simpa using hPge
        rw [hF', hPge']
        simp
  | _ => simp

theorem frDelta_sum (l : List (GridTrack Rat)) (hw : ∀ t ∈ l, FrWF t) (P : Option Rat) (F : Rat)
    (hP : ∀ p, P = some p → F ≤ p) :
    0 ≤ frUsed (some F) l - frUsed P l ∧
    0 ≤ frFlexSum P l - frFlexSum (some F) l ∧
    F * (frFlexSum P l - frFlexSum (some F) l) ≤ frUsed (some F) l - frUsed P l := by
  induction l with
  | nil => simp [frUsed, frFlexSum]
  | cons t rest ih =>
    obtain ⟨h1, h2, h3⟩ := ih fun t ht => hw t (List.mem_cons_of_mem _ ht)
    obtain ⟨g1, g2, g3⟩ := frContrib_delta t (hw t List.mem_cons_self) P F hP
    simp only [frUsed_cons, frFlexSum_cons]
    refine ⟨by linarith, by linarith, ?_⟩
    have : F * ((frContrib P t).2 + frFlexSum P rest - ((frContrib (some F) t).2 + frFlexSum (some F) rest))
        = F * ((frContrib P t).2 - (frContrib (some F) t).2) + F * (frFlexSum P rest - frFlexSum (some F) rest) := by
      ring
    rw [this]; linarith

/-- **the iterates decrease**: the next hypothetical fr size never exceeds the current one -/
theorem frStep_mono (tracks : List (GridTrack Rat)) (hw : ∀ t ∈ tracks, FrWF t) (space : Rat) (P : Option Rat)
    (hinv : FrInv tracks space P) : FrInv tracks space (some (frStep tracks space P)) := by
  show frStep tracks space (some (frStep tracks space P)) ≤ frStep tracks space P
  set F := frStep tracks space P with hF
  have hP : ∀ p, P = some p → F ≤ p := by
    intro p hp; subst hp; exact hinv
  obtain ⟨hB, hD, hFD⟩ := frDelta_sum tracks hw P F hP
  set B := frUsed (some F) tracks - frUsed P tracks with hBdef
  set D := frFlexSum P tracks - frFlexSum (some F) tracks with hDdef
  set s := frFlexSum P tracks with hs
  set m := max s 1 with hm
  set m' := max (s - D) 1 with hm'
  have hmpos : 0 < m := lt_of_lt_of_le one_pos (le_max_right _ _)
  have hm'pos : 0 < m' := lt_of_lt_of_le one_pos (le_max_right _ _)
  have hL : F * m = space - frUsed P tracks := by
    rw [hF, frStep, ← hs, ← hm]
    exact div_mul_cancel₀ _ (ne_of_gt hmpos)
  have hFlex : frFlexSum (some F) tracks = s - D := by rw [hDdef]; ring
  have hUsed : frUsed (some F) tracks = frUsed P tracks + B := by rw [hBdef]; ring
  have hmm : m' ≤ m := max_le_max (by linarith) le_rfl
  have hmd : m - m' ≤ D := by
    rcases le_total s 1 with h | h
    · have : m = 1 := max_eq_right h
      have : 1 ≤ m' := le_max_right _ _
      linarith
    · have e : m = s := max_eq_left h
      have : s - D ≤ m' := le_max_left _ _
      linarith
  have key : F * (m - m') ≤ B := by
    rcases le_total 0 F with h | h
    · calc F * (m - m') ≤ F * D := mul_le_mul_of_nonneg_left hmd h
        _ ≤ B := hFD
    · have : F * (m - m') ≤ 0 := mul_nonpos_of_nonpos_of_nonneg h (by linarith)
      linarith
  show (space - frUsed (some F) tracks) / max (frFlexSum (some F) tracks) 1 ≤ F
  rw [hFlex, hUsed, ← hm', div_le_iff₀ hm'pos]
  have : F * m' = F * m - F * (m - m') := by ring
  rw [this, hL]; linarith

/-! ### termination measure -/

/-- a flexible track that the current hypothetical size does not (yet) declare inflexible -/
def frLive (hyp : Option Rat) (t : GridTrack Rat) : Bool :=
  match t.maxFn with
  | .fr v => !frLt v hyp t.baseSize
  | _ => false

def frMeasure (tracks : List (GridTrack Rat)) (hyp : Option Rat) : Nat := (tracks.filter (frLive hyp)).length

theorem filter_length_lt {β : Type} (l : List β) (p q : β → Bool) (himp : ∀ x ∈ l, q x = true → p x = true)
    (hex : ∃ x ∈ l, p x = true ∧ q x = false) : (l.filter q).length < (l.filter p).length := by
  induction l with
  | nil => obtain ⟨x, hx, _⟩ := hex; cases hx
  | cons a rest ih =>
    have hle : ∀ (l' : List β), (∀ x ∈ l', q x = true → p x = true) → (l'.filter q).length ≤ (l'.filter p).length := by
      intro l' h
      induction l' with
      | nil => simp
      | cons b r ihr =>
        have hr := ihr fun x hx => h x (List.mem_cons_of_mem _ hx)
        by_cases hq : q b = true
        · have hp := h b List.mem_cons_self hq
          simp [List.filter_cons, hq, hp]; omega
        · by_cases hp : p b = true
          · simp [List.filter_cons, hq, hp]; omega
          · simp [List.filter_cons, hq, hp]; omega
    obtain ⟨x, hx, hpx, hqx⟩ := hex
    have himp' : ∀ x ∈ rest, q x = true → p x = true := fun x hx => himp x (List.mem_cons_of_mem _ hx)
    rcases List.mem_cons.mp hx with rfl | hxr
    · have := hle rest himp'
      simp [List.filter_cons, hpx, hqx]; omega
    · have := ih himp' ⟨x, hxr, hpx, hqx⟩
      by_cases hq : q a = true
      · have hp := himp a List.mem_cons_self hq
        simp [List.filter_cons, hq, hp]; omega
      · by_cases hp : p a = true
        · simp [List.filter_cons, hq, hp]; omega
        · simp [List.filter_cons, hq, hp]; omega

/-- an invalid iteration strictly enlarges the set of tracks treated as inflexible -/
theorem frMeasure_decreases (tracks : List (GridTrack Rat)) (hw : ∀ t ∈ tracks, FrWF t) (space : Rat)
    (P : Option Rat) (hinv : FrInv tracks space P)
    (hbad : frIsValid tracks (some (frStep tracks space P)) P = false) :
    frMeasure tracks (some (frStep tracks space P)) < frMeasure tracks P := by
  set F := frStep tracks space P with hF
  have hP : ∀ p, P = some p → F ≤ p := by
    intro p hp; subst hp; exact hinv
  apply filter_length_lt
  · intro t ht hq
    unfold frLive at hq ⊢
    cases hm : t.maxFn with
    | fr v =>
      obtain ⟨hv, _⟩ := hw t ht v hm
      simp only [hm, Bool.not_eq_true', frLt, rat_flt, decide_eq_false_iff_not, not_lt] at hq ⊢
      cases P with
      | none => simpa [frLt] using hv
      | some p =>
        simp only [frLt, rat_flt, decide_eq_false_iff_not, not_lt]
        have := mul_le_mul_of_nonneg_left (hP p rfl) hv
        linarith
    | _ => simp [hm] at hq
  · unfold frIsValid at hbad
    rw [List.all_eq_false] at hbad
    obtain ⟨t, ht, hbt⟩ := hbad
    refine ⟨t, ht, ?_⟩
    unfold frLive
    cases hm : t.maxFn with
    | fr v =>
      simp only [hm, Bool.or_eq_true, not_or, Bool.not_eq_true] at hbt
      obtain ⟨h1, h2⟩ := hbt
      refine ⟨by simp [h2], ?_⟩
      simp only [frGe, rat_fle, decide_eq_false_iff_not, not_le] at h1
      simp [frLt, h1]
    | _ => simp [hm] at hbt

theorem frMeasure_le (tracks : List (GridTrack Rat)) (hyp : Option Rat) : frMeasure tracks hyp ≤ tracks.length :=
  List.length_filter_le _ _

/-- the loop left through `break`: `F` was computed from the previous value `P` and passed the validity test -/
def FrExit (tracks : List (GridTrack Rat)) (space : Rat) (P : Option Rat) (F : Rat) : Prop :=
  F = frStep tracks space P ∧ frIsValid tracks (some F) P = true

theorem findSizeOfFrLoop_exits (tracks : List (GridTrack Rat)) (hw : ∀ t ∈ tracks, FrWF t) (space : Rat) :
    ∀ (fuel : Nat) (P : Option Rat), FrInv tracks space P → frMeasure tracks P < fuel →
      ∃ P' F, findSizeOfFrLoop fuel tracks space P = some F ∧ FrExit tracks space P' F ∧
        ∀ fuel', frMeasure tracks P < fuel' → findSizeOfFrLoop fuel' tracks space P = some F := by
  intro fuel
  induction fuel with
  | zero => intro P _ h; omega
  | succ fuel ih =>
    intro P hinv hlt
    rw [findSizeOfFrLoop_succ]
    by_cases hv : frIsValid tracks (some (frStep tracks space P)) P = true
    · rw [if_pos hv]
      refine ⟨P, _, rfl, ⟨rfl, hv⟩, ?_⟩
      intro fuel' hlt'
      obtain ⟨k, rfl⟩ : ∃ k, fuel' = k + 1 := ⟨fuel' - 1, by omega⟩
      rw [findSizeOfFrLoop_succ, if_pos hv]
    · rw [if_neg hv]
      have hv' : frIsValid tracks (some (frStep tracks space P)) P = false := by simpa using hv
      have hdec := frMeasure_decreases tracks hw space P hinv hv'
      obtain ⟨P', F, h1, h2, h3⟩ := ih (some (frStep tracks space P)) (frStep_mono tracks hw space P hinv) (by omega)
      refine ⟨P', F, h1, h2, ?_⟩
      intro fuel' hlt'
      obtain ⟨k, rfl⟩ : ∃ k, fuel' = k + 1 := ⟨fuel' - 1, by omega⟩
      rw [findSizeOfFrLoop_succ, if_neg hv]
      exact h3 k (by omega)

/-! ### filling -/

/-- size of a track after `expand_flexible_tracks` with flex fraction `F` -/
def expandedSize (F : Rat) (t : GridTrack Rat) : Rat :=
  match t.maxFn with
  | .fr v => max t.baseSize (v * F)
  | _ => t.baseSize

theorem expanded_sum_ge (P : Option Rat) (F : Rat) (l : List (GridTrack Rat)) :
    frUsed P l + F * frFlexSum P l ≤ (l.map (expandedSize F)).sum := by
  induction l with
  | nil => simp [frUsed, frFlexSum]
  | cons t rest ih =>
    simp only [frUsed_cons, frFlexSum_cons, List.map_cons, List.sum_cons]
    have h : (frContrib P t).1 + F * (frContrib P t).2 ≤ expandedSize F t := by
      unfold frContrib expandedSize
      cases hm : t.maxFn with
      | fr v =>
        simp only []
        by_cases hge : frGe v P t.baseSize = true
        · simp only [hge, if_true, zero_add]
          rw [mul_comm]; exact le_max_right _ _
        · simp [hge]
      | _ => simp
    have : F * ((frContrib P t).2 + frFlexSum P rest) = F * (frContrib P t).2 + F * frFlexSum P rest := by ring
    rw [this]; linarith

/-- at an exit whose flexible tracks have factor sum ≥ 1 the expanded tracks fill the space -/
theorem exit_fills (tracks : List (GridTrack Rat)) (space : Rat) (P : Option Rat) (F : Rat)
    (hex : FrExit tracks space P F) (hsum : 1 ≤ frFlexSum P tracks) :
    space ≤ (tracks.map (expandedSize F)).sum := by
  have h := expanded_sum_ge P F tracks
  have hm : max (frFlexSum P tracks) 1 = frFlexSum P tracks := max_eq_left hsum
  have hpos : 0 < frFlexSum P tracks := lt_of_lt_of_le one_pos hsum
  have hF : F * frFlexSum P tracks = space - frUsed P tracks := by
    rw [hex.1, frStep, hm]; exact div_mul_cancel₀ _ (ne_of_gt hpos)
  linarith

end GridTracks
