/-
  Structural (forest) invariant of the flat C15 model `Model/Dirty.lean`, and its preservation by every mutator under the
  property's precondition (ids live; a node is attached by add/insert/replace only while detached; `set_children`'s
  argument duplicate-free).  `Model/Dirty.lean` keeps `parent` and `children` as two independent functions; `Struct`
  says they describe the same edges.  Acyclicity is NOT part of it (the precondition allows `add_child(a, a)`, see
  `C14.cycle_reachable`); what the flat ↔ rose-tree link needs is only that the part of the graph below a *parentless*
  node is a finite tree, which follows from `Struct` (`Props/C15Link.lean`).
  No Mathlib.
-/
import TaffyVerif.Lemmas.Dirty
import TaffyVerif.Lemmas.Tree

namespace Dirty
open TreeModel (split_at nodup_mid nodup_insert take_drop_sublist split_range)

structure Struct (s : St) : Prop where
  /-- a listed child points back -/
  kidsPar : ∀ p c, c ∈ s.children p → s.parent c = some p
  /-- a parent pointer is listed -/
  parKids : ∀ c p, s.parent c = some p → c ∈ s.children p
  /-- no list mentions a node twice -/
  nodup : ∀ p, (s.children p).Nodup
  /-- only allocated ids occur in edges -/
  bound : ∀ p c, c ∈ s.children p → c < s.next ∧ p < s.next
  liveBound : ∀ n, s.live n = true → n < s.next

theorem struct_init : Struct init :=
  ⟨by intro p c h; simp [init] at h, by intro c p h; simp [init] at h, by intro p; simp [init],
   by intro p c h; simp [init] at h, by intro n h; simp [init] at h⟩

theorem Struct.of_shape {s s' : St} (h : SameShape s s') (st : Struct s) : Struct s' := by
  obtain ⟨h1, h2, h3, h4, _⟩ := h
  refine ⟨?_, ?_, ?_, ?_, ?_⟩
  · rw [h3, h4]; exact st.kidsPar
  · rw [h3, h4]; exact st.parKids
  · rw [h4]; exact st.nodup
  · rw [h1, h4]; exact st.bound
  · rw [h1, h2]; exact st.liveBound

/-- `mark_dirty` touches cache flags only — no invariant needed -/
theorem markDirty_shape : ∀ (fuel : Nat) (s : St) (n : Nat) (s' : St), markDirty fuel s n = some s' → SameShape s s'
  | 0, _, _, _, h => by simp [markDirty] at h
  | fuel + 1, s, n, s', h => by
    unfold markDirty at h
    split at h
    · simp only [Option.some.injEq] at h; subst h; exact SameShape.refl _
    · cases hp : s.parent n with
      | none =>
        rw [hp] at h; simp only [Option.some.injEq] at h; subst h; exact clearNode_shape s n
      | some p =>
        rw [hp] at h
        exact (clearNode_shape s n).trans (markDirty_shape fuel _ p s' h)

theorem applyDirty_shape {s s' : St} {t : Gen.Facts.DirtyTarget} {node parent : Nat}
    (h : applyDirty s t node parent = some s') : SameShape s s' := by
  unfold applyDirty at h
  split at h
  · exact markDirty_shape _ _ _ _ h
  · simp only [Option.some.injEq] at h; subst h; exact SameShape.refl _

theorem foldl_upd_none_apply (l : List Nat) (f : Nat → Option Nat) (x : Nat) :
    (l.foldl (fun g c => upd g c none) f) x = if x ∈ l then none else f x := by
  induction l generalizing f with
  | nil => simp
  | cons c l ih =>
    simp only [List.foldl_cons, ih, List.mem_cons]
    by_cases h1 : x ∈ l
    · simp [h1]
    · by_cases h2 : x = c
      · subst h2; simp [h1]
      · simp [h1, h2, upd_other _ _ _ _ h2]

/-- the precondition of the property, per mutator (everything not listed needs none for the structural invariant) -/
def DPre (s : St) : Op → Prop
  | .addChild p c | .insertChild p _ c | .replaceChildAt p _ c => s.live p = true ∧ s.live c = true ∧ s.parent c = none
  | .setChildren p cs => s.live p = true ∧ cs.Nodup ∧ ∀ c ∈ cs, s.live c = true
  | _ => True

/-- one list is rewritten: nodes entering it were detached, nodes leaving it become detached -/
theorem struct_relist {s : St} (st : Struct s) (p : Nat) (l' : List Nat) (par' : Nat → Option Nat)
    (hnd : l'.Nodup) (hnew : ∀ x ∈ l', x ∈ s.children p ∨ s.parent x = none) (hb : ∀ x ∈ l', x < s.next ∧ p < s.next)
    (hP : ∀ x, par' x = if x ∈ l' then some p else if x ∈ s.children p then none else s.parent x) :
    Struct { s with children := upd s.children p l', parent := par' } := by
  refine ⟨?_, ?_, ?_, ?_, st.liveBound⟩
  · intro q x hx
    change x ∈ upd s.children p l' q at hx
    show par' x = some q
    rw [hP]
    by_cases hq : q = p
    · subst hq; rw [upd_same] at hx; rw [if_pos hx]
    · rw [upd_other _ _ _ _ hq] at hx
      have hpx := st.kidsPar q x hx
      have h1 : x ∉ s.children p := fun h => by
        have := st.kidsPar p x h; rw [hpx] at this; exact hq (Option.some.inj this)
      have h2 : x ∉ l' := fun h => by
        rcases hnew x h with h | h
        · exact h1 h
        · rw [hpx] at h; cases h
      rw [if_neg h2, if_neg h1]; exact hpx
  · intro x q hx
    change par' x = some q at hx
    show x ∈ upd s.children p l' q
    rw [hP] at hx
    by_cases h2 : x ∈ l'
    · rw [if_pos h2] at hx; cases hx; rw [upd_same]; exact h2
    · rw [if_neg h2] at hx
      by_cases h1 : x ∈ s.children p
      · rw [if_pos h1] at hx; cases hx
      · rw [if_neg h1] at hx
        have hq : q ≠ p := fun e => h1 (e ▸ st.parKids x q hx)
        rw [upd_other _ _ _ _ hq]; exact st.parKids x q hx
  · intro q
    show (upd s.children p l' q).Nodup
    by_cases hq : q = p
    · subst hq; rw [upd_same]; exact hnd
    · rw [upd_other _ _ _ _ hq]; exact st.nodup q
  · intro q x hx
    change x ∈ upd s.children p l' q at hx
    show x < s.next ∧ q < s.next
    by_cases hq : q = p
    · subst hq; rw [upd_same] at hx; exact hb x hx
    · rw [upd_other _ _ _ _ hq] at hx; exact st.bound q x hx

/-- a detached node is in no list -/
theorem Struct.not_mem_of_detached {s : St} (st : Struct s) {c : Nat} (hc : s.parent c = none) (p : Nat) :
    c ∉ s.children p := fun h => by have := st.kidsPar p c h; rw [hc] at this; cases this

/-- the state inside the second loop of `set_children(p, ..)` after the children in `done` were handled
    (structure only: the `mark_dirty` calls of `remove_child` change flags) -/
structure SCLoop (s : St) (p : Nat) (done : List Nat) (st : St) : Prop where
  next : st.next = s.next
  live : st.live = s.live
  kidsP : st.children p = s.children p
  kids : ∀ q, q ≠ p → st.children q = (s.children q).filter (fun x => decide (x ∉ done))
  par : ∀ x, st.parent x = if x ∈ done then some p else if x ∈ s.children p then none else s.parent x

theorem filter_not_mem_cons {l done : List Nat} {c : Nat} (h : c ∉ l) :
    l.filter (fun x => decide (x ∉ c :: done)) = l.filter (fun x => decide (x ∉ done)) := by
  apply List.filter_congr
  intro x hx
  have : x ≠ c := fun e => h (e ▸ hx)
  simp [this]

theorem erase_filter_not_mem {l done : List Nat} {c : Nat} (hnd : l.Nodup) :
    (l.filter (fun x => decide (x ∉ done))).erase c = l.filter (fun x => decide (x ∉ c :: done)) := by
  rw [(List.filter_sublist.nodup hnd).erase_eq_filter, List.filter_filter]
  apply List.filter_congr
  intro x _
  by_cases e : x = c <;> simp [e]

/-- the body of the loop, for one new child `c` -/
theorem scloop_step {s : St} (inv : Struct s) {p : Nat} {done : List Nat} {st : St} (J : SCLoop s p done st)
    {c : Nat} (hcd : c ∉ done) {r : St}
    (h : ((match st.parent c with
            | some prev => removeChild st prev c
            | none => some st : Option St).map fun (st2 : St) => { st2 with parent := upd st2.parent c (some p) }) = some r) :
    SCLoop s p (c :: done) r := by
  have hsc : st.parent c = if c ∈ s.children p then none else s.parent c := by rw [J.par, if_neg hcd]
  -- both arms end in a state with the same children / parent description
  have fin : ∀ st2 : St, st2.next = s.next → st2.live = s.live → st2.children p = s.children p →
      (∀ q, q ≠ p → st2.children q = (s.children q).filter (fun x => decide (x ∉ c :: done))) →
      (∀ x, x ≠ c → st2.parent x = st.parent x) →
      SCLoop s p (c :: done) { st2 with parent := upd st2.parent c (some p) } := by
    intro st2 h1 h2 h3 h4 h5
    refine ⟨h1, h2, h3, h4, fun x => ?_⟩
    show upd st2.parent c (some p) x = _
    by_cases e : x = c
    · subst e; simp
    · rw [upd_other _ _ _ _ e, h5 x e, J.par]; simp [e]
  cases hpc : st.parent c with
  | none =>
    rw [hpc] at h
    simp only [Option.map_some, Option.some.injEq] at h
    subst h
    refine fin st J.next J.live J.kidsP (fun q hq => ?_) (fun _ _ => rfl)
    rw [J.kids q hq]
    have : c ∉ s.children q := by
      intro hc
      have h1 := inv.kidsPar q c hc
      rw [hpc] at hsc
      by_cases hcp : c ∈ s.children p
      · have := inv.kidsPar p c hcp; rw [h1] at this; exact hq (Option.some.inj this)
      · rw [if_neg hcp, h1] at hsc; cases hsc
    rw [filter_not_mem_cons this]
  | some prev =>
    rw [hpc] at h
    simp only [Option.map_eq_some_iff] at h
    obtain ⟨st2, h2, hr⟩ := h
    subst hr
    have hcp : c ∉ s.children p := by
      intro hcp; rw [hpc, if_pos hcp] at hsc; cases hsc
    have hsp : s.parent c = some prev := by rw [hpc, if_neg hcp] at hsc; exact hsc.symm
    have hprev : prev ≠ p := fun e => hcp (e ▸ inv.parKids c prev hsp)
    unfold removeChild at h2
    obtain ⟨g1, g2, g3, g4, _⟩ := applyDirty_shape h2
    simp only at g1 g2 g3 g4
    refine fin st2 (g1.trans J.next) (g2.trans J.live) ?_ (fun q hq => ?_) (fun x hx => ?_)
    · rw [g4, upd_other _ _ _ _ hprev.symm]; exact J.kidsP
    · rw [g4]
      by_cases e : q = prev
      · subst e
        rw [upd_same, J.kids q hq, erase_filter_not_mem (inv.nodup q)]
      · rw [upd_other _ _ _ _ e, J.kids q hq]
        have : c ∉ s.children q := fun hc => by
          have := inv.kidsPar q c hc; rw [hsp] at this; exact e (Option.some.inj this).symm
        rw [filter_not_mem_cons this]
    · rw [g3, upd_other _ _ _ _ hx]

theorem scloop_fold {s : St} (inv : Struct s) {p : Nat} :
    ∀ (cs : List Nat) (done : List Nat) (st : St) (r : St), SCLoop s p done st → (∀ c ∈ cs, c ∉ done) → cs.Nodup →
      cs.foldl (fun (acc : Option St) c =>
        match acc with
        | none => none
        | some st =>
          let st' := match st.parent c with
            | some prev => removeChild st prev c
            | none => some st
          st'.map fun st2 => { st2 with parent := upd st2.parent c (some p) }) (some st) = some r →
      ∃ done', SCLoop s p done' r ∧ ∀ x, x ∈ done' ↔ x ∈ done ∨ x ∈ cs := by
  intro cs
  induction cs with
  | nil =>
    intro done st r J _ _ h
    simp only [List.foldl_nil, Option.some.injEq] at h
    subst h
    exact ⟨done, J, fun x => by simp⟩
  | cons c cs ih =>
    intro done st r J hnd hcs h
    simp only [List.foldl_cons] at h
    -- the accumulator after `c`
    cases hacc : ((match st.parent c with
            | some prev => removeChild st prev c
            | none => some st : Option St).map fun (st2 : St) => { st2 with parent := upd st2.parent c (some p) }) with
    | none =>
      rw [hacc] at h
      have : ∀ l : List Nat, l.foldl (fun (acc : Option St) c =>
          match acc with
          | none => none
          | some st =>
            let st' := match st.parent c with
              | some prev => removeChild st prev c
              | none => some st
            st'.map fun st2 => { st2 with parent := upd st2.parent c (some p) }) none = none := by
        intro l; induction l with
        | nil => rfl
        | cons _ _ ih2 => simp only [List.foldl_cons]; exact ih2
      rw [this] at h; cases h
    | some st1 =>
      rw [hacc] at h
      have J1 := scloop_step inv J (hnd c List.mem_cons_self) hacc
      have hnd1 : ∀ c' ∈ cs, c' ∉ c :: done := by
        intro c' hc' hm
        rcases List.mem_cons.mp hm with e | e
        · subst e; exact (List.nodup_cons.mp hcs).1 hc'
        · exact hnd c' (List.mem_cons_of_mem _ hc') e
      obtain ⟨done', J', hm⟩ := ih (c :: done) st1 r J1 hnd1 (List.nodup_cons.mp hcs).2 h
      refine ⟨done', J', fun x => ?_⟩
      rw [hm]; simp only [List.mem_cons]
      constructor
      · rintro ((h | h) | h)
        · exact Or.inr (Or.inl h)
        · exact Or.inl h
        · exact Or.inr (Or.inr h)
      · rintro (h | h | h)
        · exact Or.inl (Or.inr h)
        · exact Or.inl (Or.inl h)
        · exact Or.inr h

/-- **every mutator preserves the structural invariant** (when it returns normally and the caller respected `DPre`) -/
theorem step_preserves_Struct (s s' : St) (op : Op) (st : Struct s) (pre : DPre s op) (h : step s op = some s') :
    Struct s' := by
  cases op with
  | newLeaf hd =>
    simp only [step, Option.some.injEq] at h
    subst h
    refine ⟨?_, ?_, ?_, ?_, ?_⟩
    · intro q x hx
      change x ∈ upd s.children s.next [] q at hx
      show upd s.parent s.next none x = some q
      by_cases hq : q = s.next
      · subst hq; simp at hx
      · rw [upd_other _ _ _ _ hq] at hx
        have := (st.bound q x hx).1
        rw [upd_other _ _ _ _ (by omega)]; exact st.kidsPar q x hx
    · intro x q hx
      change upd s.parent s.next none x = some q at hx
      show x ∈ upd s.children s.next [] q
      by_cases hxn : x = s.next
      · subst hxn; simp at hx
      · rw [upd_other _ _ _ _ hxn] at hx
        have hm := st.parKids x q hx
        have := (st.bound q x hm).2
        rw [upd_other _ _ _ _ (by omega)]; exact hm
    · intro q
      show (upd s.children s.next [] q).Nodup
      by_cases hq : q = s.next
      · subst hq; simp
      · rw [upd_other _ _ _ _ hq]; exact st.nodup q
    · intro q x hx
      change x ∈ upd s.children s.next [] q at hx
      show x < s.next + 1 ∧ q < s.next + 1
      by_cases hq : q = s.next
      · subst hq; simp at hx
      · rw [upd_other _ _ _ _ hq] at hx
        have := st.bound q x hx; omega
    · intro n hn
      change upd s.live s.next true n = true at hn
      show n < s.next + 1
      by_cases e : n = s.next
      · omega
      · rw [upd_other _ _ _ _ e] at hn; have := st.liveBound n hn; omega
  | setStyle n hd =>
    simp only [step] at h
    exact (Struct.of_shape (s := { s with hidden := upd s.hidden n hd }) (applyDirty_shape h)
      ⟨st.kidsPar, st.parKids, st.nodup, st.bound, st.liveBound⟩)
  | setContext n =>
    simp only [step] at h
    exact st.of_shape (applyDirty_shape h)
  | markDirty n =>
    simp only [step] at h
    exact st.of_shape (markDirty_shape _ _ _ _ h)
  | addChild p c =>
    simp only [step] at h
    obtain ⟨hp, hc, hpc⟩ := pre
    refine Struct.of_shape (applyDirty_shape h) (struct_relist st p _ _ ?_ ?_ ?_ ?_)
    · have := st.nodup p
      have := st.not_mem_of_detached hpc p
      rw [List.nodup_append]
      refine ⟨st.nodup p, by simp, ?_⟩
      intro a ha b hb; simp at hb; subst hb; intro e; subst e; exact this ha
    · intro x hx
      rcases List.mem_append.mp hx with h | h
      · exact Or.inl h
      · simp at h; subst h; exact Or.inr hpc
    · intro x hx
      rcases List.mem_append.mp hx with h | h
      · exact st.bound p x h
      · simp at h; subst h; exact ⟨st.liveBound _ hc, st.liveBound _ hp⟩
    · intro x
      by_cases e : x = c
      · subst e; simp
      · rw [upd_other _ _ _ _ e]
        by_cases hx : x ∈ s.children p
        · simp [hx, st.kidsPar p x hx]
        · simp [hx, e]
  | insertChild p i c =>
    simp only [step] at h
    split at h
    · cases h
    · obtain ⟨hp, hc, hpc⟩ := pre
      have hnm := st.not_mem_of_detached hpc p
      have hmem : ∀ x, x ∈ insertAt (s.children p) i c ↔ x ∈ s.children p ∨ x = c := by
        intro x
        unfold insertAt
        have := List.take_append_drop i (s.children p)
        constructor
        · intro h
          simp only [List.mem_append, List.mem_cons] at h
          rcases h with h | h | h
          · exact Or.inl (List.mem_of_mem_take h)
          · exact Or.inr h
          · exact Or.inl (List.mem_of_mem_drop h)
        · intro h
          rcases h with h | h
          · rw [← this] at h
            simp only [List.mem_append, List.mem_cons] at *
            rcases h with h | h
            · exact Or.inl h
            · exact Or.inr (Or.inr h)
          · simp [h]
      refine Struct.of_shape (applyDirty_shape h) (struct_relist st p _ _ ?_ ?_ ?_ ?_)
      · unfold insertAt
        apply nodup_insert
        · rw [List.take_append_drop]; exact st.nodup p
        · rw [List.take_append_drop]; exact hnm
      · intro x hx
        rcases (hmem x).mp hx with h | h
        · exact Or.inl h
        · subst h; exact Or.inr hpc
      · intro x hx
        rcases (hmem x).mp hx with h | h
        · exact st.bound p x h
        · subst h; exact ⟨st.liveBound _ hc, st.liveBound _ hp⟩
      · intro x
        by_cases e : x = c
        · subst e; simp [hmem]
        · rw [upd_other _ _ _ _ e]
          by_cases hx : x ∈ s.children p
          · simp [hmem, hx, st.kidsPar p x hx]
          · simp [hmem, hx, e]
  | removeChildAt p i =>
    simp only [step] at h
    split at h
    · cases h
    · rename_i c hi
      have hsplit := split_at hi
      have hnd := st.nodup p
      rw [hsplit] at hnd
      obtain ⟨hnd', hcn⟩ := nodup_mid hnd
      have hcl : c ∈ s.children p := List.mem_of_getElem? hi
      have he : (s.children p).eraseIdx i = (s.children p).take i ++ (s.children p).drop (i + 1) :=
        List.eraseIdx_eq_take_drop_succ _ _
      have hmem : ∀ x, x ∈ s.children p ↔ x ∈ (s.children p).eraseIdx i ∨ x = c := by
        intro x
        rw [he]
        conv => lhs; rw [hsplit]
        simp only [List.mem_append, List.mem_cons]
        grind
      refine Struct.of_shape (applyDirty_shape h) (struct_relist st p _ _ ?_ ?_ ?_ ?_)
      · rw [he]; exact hnd'
      · intro x hx; exact Or.inl ((hmem x).mpr (Or.inl hx))
      · intro x hx; exact st.bound p x ((hmem x).mpr (Or.inl hx))
      · intro x
        by_cases e : x = c
        · subst e
          have : x ∉ (s.children p).eraseIdx i := by rw [he]; exact hcn
          simp [this, hcl]
        · rw [upd_other _ _ _ _ e]
          by_cases hx : x ∈ (s.children p).eraseIdx i
          · have hxl := (hmem x).mpr (Or.inl hx)
            simp [hx, st.kidsPar p x hxl]
          · have hxl : x ∉ s.children p := fun h => by rcases (hmem x).mp h with h | h; exact hx h; exact e h
            simp [hx, hxl]
  | replaceChildAt p i c =>
    simp only [step] at h
    split at h
    · cases h
    · rename_i old hi
      obtain ⟨hp, hc, hpc⟩ := pre
      have hsplit := split_at hi
      have hnd := st.nodup p
      rw [hsplit] at hnd
      obtain ⟨hnd', hon⟩ := nodup_mid hnd
      have hol : old ∈ s.children p := List.mem_of_getElem? hi
      have hpo := st.kidsPar p old hol
      have hne : old ≠ c := by intro e; rw [e, hpc] at hpo; cases hpo
      have hcl := st.not_mem_of_detached hpc p
      have hlt : i < (s.children p).length := SlotMapModel.lt_length_of_getElem? hi
      have he : (s.children p).set i c = (s.children p).take i ++ c :: (s.children p).drop (i + 1) :=
        List.set_eq_take_append_cons_drop.trans (by simp [hlt])
      have hmem : ∀ x, x ∈ s.children p ↔ x ∈ (s.children p).take i ++ (s.children p).drop (i + 1) ∨ x = old := by
        intro x
        conv => lhs; rw [hsplit]
        simp only [List.mem_append, List.mem_cons]
        grind
      have hmem' : ∀ x, x ∈ (s.children p).set i c ↔ x ∈ (s.children p).take i ++ (s.children p).drop (i + 1) ∨ x = c := by
        intro x
        rw [he]
        simp only [List.mem_append, List.mem_cons]
        grind
      have hcn : c ∉ (s.children p).take i ++ (s.children p).drop (i + 1) := fun h => hcl ((hmem c).mpr (Or.inl h))
      refine Struct.of_shape (applyDirty_shape h) (struct_relist st p _ _ ?_ ?_ ?_ ?_)
      · rw [he]; exact nodup_insert hnd' hcn
      · intro x hx
        rcases (hmem' x).mp hx with h | h
        · exact Or.inl ((hmem x).mpr (Or.inl h))
        · subst h; exact Or.inr hpc
      · intro x hx
        rcases (hmem' x).mp hx with h | h
        · exact st.bound p x ((hmem x).mpr (Or.inl h))
        · subst h; exact ⟨st.liveBound _ hc, st.liveBound _ hp⟩
      · intro x
        by_cases e1 : x = old
        · subst e1
          have : x ∉ (s.children p).set i c := by
            rw [hmem']; intro h; rcases h with h | h; exact hon h; exact hne h
          simp [this, hol]
        · rw [upd_other _ _ _ _ e1]
          by_cases e2 : x = c
          · subst e2; simp [hmem']
          · rw [upd_other _ _ _ _ e2]
            by_cases hx : x ∈ (s.children p).take i ++ (s.children p).drop (i + 1)
            · have hxl := (hmem x).mpr (Or.inl hx)
              simp [hmem', hx, st.kidsPar p x hxl]
            · have hxl : x ∉ s.children p := fun h => by rcases (hmem x).mp h with h | h; exact hx h; exact e1 h
              simp [hmem', hx, hxl, e2]
  | removeRange p a b =>
    simp only [step] at h
    split at h
    · cases h
    · rename_i hab
      have hab' : a ≤ b := by omega
      have hnd := st.nodup p
      have hsub := take_drop_sublist (s.children p) a b hab'
      have hsplit := split_range (s.children p) a b hab'
      have hrm : ((s.children p).drop a).take (b - a) = ((s.children p).take b).drop a := List.drop_take.symm
      have hdisj : ∀ x, x ∈ ((s.children p).take b).drop a → x ∉ (s.children p).take a ++ (s.children p).drop b := by
        rw [hsplit] at hnd
        simp only [List.nodup_append, List.mem_append] at hnd ⊢
        grind
      have hmem : ∀ x, x ∈ s.children p ↔
          (x ∈ (s.children p).take a ++ (s.children p).drop b ∨ x ∈ ((s.children p).take b).drop a) := by
        intro x
        conv => lhs; rw [hsplit]
        simp only [List.mem_append]
        grind
      refine Struct.of_shape (applyDirty_shape h) (struct_relist st p _ _ (hsub.nodup hnd) ?_ ?_ ?_)
      · intro x hx; exact Or.inl (hsub.subset hx)
      · intro x hx; exact st.bound p x (hsub.subset hx)
      · intro x
        rw [foldl_upd_none_apply, hrm]
        by_cases hx : x ∈ ((s.children p).take b).drop a
        · have hxl := (hmem x).mpr (Or.inr hx)
          simp [hx, hdisj x hx, hxl]
        · by_cases hx' : x ∈ (s.children p).take a ++ (s.children p).drop b
          · have hxl := (hmem x).mpr (Or.inl hx')
            simp [hx, hx', st.kidsPar p x hxl]
          · have hxl : x ∉ s.children p := fun h => by rcases (hmem x).mp h with h | h; exact hx' h; exact hx h
            simp [hx, hx', hxl]
  | setChildren p cs =>
    simp only [step] at h
    obtain ⟨hp, hnd, hlive⟩ := pre
    split at h
    · cases h
    · rename_i stB hfold
      have J0 : SCLoop s p [] { s with parent := (s.children p).foldl (fun f c => upd f c none) s.parent } := by
        refine ⟨rfl, rfl, rfl, fun q _ => ?_, fun x => ?_⟩
        · show s.children q = _
          symm; rw [List.filter_eq_self]; intro a _; simp
        · show (s.children p).foldl (fun f c => upd f c none) s.parent x = _
          rw [foldl_upd_none_apply]; simp
      obtain ⟨done, J, hm⟩ := scloop_fold st cs [] _ stB J0 (fun c _ => by simp) hnd hfold
      have hm' : ∀ x, x ∈ done ↔ x ∈ cs := by intro x; rw [hm]; simp
      refine Struct.of_shape (applyDirty_shape h) ?_
      refine ⟨?_, ?_, ?_, ?_, ?_⟩
      · intro q x hx
        change x ∈ upd stB.children p cs q at hx
        show stB.parent x = some q
        rw [J.par]
        by_cases hq : q = p
        · subst hq; rw [upd_same] at hx; rw [if_pos ((hm' x).mpr hx)]
        · rw [upd_other _ _ _ _ hq, J.kids q hq] at hx
          obtain ⟨hxq, hxd⟩ := List.mem_filter.mp hx
          have hxd' : x ∉ done := by simpa using hxd
          have hpx := st.kidsPar q x hxq
          have h1 : x ∉ s.children p := fun h => by
            have := st.kidsPar p x h; rw [hpx] at this; exact hq (Option.some.inj this)
          rw [if_neg hxd', if_neg h1]; exact hpx
      · intro x q hx
        change stB.parent x = some q at hx
        show x ∈ upd stB.children p cs q
        rw [J.par] at hx
        by_cases h2 : x ∈ done
        · rw [if_pos h2] at hx; cases hx; rw [upd_same]; exact (hm' x).mp h2
        · rw [if_neg h2] at hx
          by_cases h1 : x ∈ s.children p
          · rw [if_pos h1] at hx; cases hx
          · rw [if_neg h1] at hx
            have hq : q ≠ p := fun e => h1 (e ▸ st.parKids x q hx)
            rw [upd_other _ _ _ _ hq, J.kids q hq]
            exact List.mem_filter.mpr ⟨st.parKids x q hx, by simpa using h2⟩
      · intro q
        show (upd stB.children p cs q).Nodup
        by_cases hq : q = p
        · subst hq; rw [upd_same]; exact hnd
        · rw [upd_other _ _ _ _ hq, J.kids q hq]; exact List.filter_sublist.nodup (st.nodup q)
      · intro q x hx
        change x ∈ upd stB.children p cs q at hx
        show x < stB.next ∧ q < stB.next
        rw [J.next]
        by_cases hq : q = p
        · subst hq; rw [upd_same] at hx
          exact ⟨st.liveBound _ (hlive x hx), st.liveBound _ hp⟩
        · rw [upd_other _ _ _ _ hq, J.kids q hq] at hx
          exact st.bound q x (List.mem_filter.mp hx).1
      · intro n hn
        change stB.live n = true at hn
        show n < stB.next
        rw [J.next]; rw [J.live] at hn; exact st.liveBound n hn
  | remove n =>
    simp only [step] at h
    -- second half, from any state with the same parents and the children lists with `n` filtered out of its parent's
    have key : ∀ s1 : St, s1.next = s.next → s1.live = s.live → s1.parent = s.parent →
        (∀ q, s1.children q = (s.children q).filter (fun x => decide (x ≠ n))) →
        Struct { s1 with parent := upd ((s1.children n).foldl (fun f c => upd f c none) s1.parent) n none,
                         children := upd s1.children n [], live := upd s1.live n false,
                         fin := upd s1.fin n false, meas := upd s1.meas n false } := by
      intro s1 h1 h2 h3 h4
      have hP : ∀ x, upd ((s1.children n).foldl (fun f c => upd f c none) s1.parent) n none x =
          if x = n then none else if s.parent x = some n then none else s.parent x := by
        intro x
        by_cases e : x = n
        · subst e; simp
        · rw [upd_other _ _ _ _ e, foldl_upd_none_apply, h3, h4, if_neg e]
          by_cases hx : s.parent x = some n
          · have := st.parKids x n hx
            rw [if_pos (List.mem_filter.mpr ⟨this, by simpa using e⟩), if_pos hx]
          · have : x ∉ (s.children n).filter (fun x => decide (x ≠ n)) := fun h =>
              hx (st.kidsPar n x (List.mem_filter.mp h).1)
            rw [if_neg this, if_neg hx]
      have hC : ∀ q, upd s1.children n [] q = if q = n then [] else (s.children q).filter (fun x => decide (x ≠ n)) := by
        intro q
        by_cases e : q = n
        · subst e; simp
        · rw [upd_other _ _ _ _ e, h4, if_neg e]
      refine ⟨?_, ?_, ?_, ?_, ?_⟩
      · intro q x hx
        change x ∈ upd s1.children n [] q at hx
        show upd ((s1.children n).foldl (fun f c => upd f c none) s1.parent) n none x = some q
        rw [hC] at hx; rw [hP]
        split at hx
        · cases hx
        · rename_i hq
          obtain ⟨hxq, hxn⟩ := List.mem_filter.mp hx
          have hxn' : x ≠ n := by simpa using hxn
          have hpx := st.kidsPar q x hxq
          have : ¬ s.parent x = some n := by rw [hpx]; intro e; exact hq (Option.some.inj e)
          rw [if_neg hxn', if_neg this]; exact hpx
      · intro x q hx
        change upd ((s1.children n).foldl (fun f c => upd f c none) s1.parent) n none x = some q at hx
        show x ∈ upd s1.children n [] q
        rw [hP] at hx; rw [hC]
        split at hx
        · cases hx
        · rename_i hxn
          split at hx
          · cases hx
          · rename_i hpn
            have hq : q ≠ n := fun e => hpn (e ▸ hx)
            rw [if_neg hq]
            exact List.mem_filter.mpr ⟨st.parKids x q hx, by simpa using hxn⟩
      · intro q
        show (upd s1.children n [] q).Nodup
        rw [hC]; split
        · exact List.nodup_nil
        · exact List.filter_sublist.nodup (st.nodup q)
      · intro q x hx
        change x ∈ upd s1.children n [] q at hx
        show x < s1.next ∧ q < s1.next
        rw [hC] at hx; rw [h1]
        split at hx
        · cases hx
        · exact st.bound q x (List.mem_filter.mp hx).1
      · intro m hm
        change upd s1.live n false m = true at hm
        show m < s1.next
        rw [h1]
        by_cases e : m = n
        · subst e; simp at hm
        · rw [upd_other _ _ _ _ e, h2] at hm; exact st.liveBound m hm
    have hfilt : ∀ q, n ∉ s.children q → s.children q = (s.children q).filter (fun x => decide (x ≠ n)) := by
      intro q hq; symm; rw [List.filter_eq_self]; intro a ha; simp; intro e; exact hq (e ▸ ha)
    cases hp : s.parent n with
    | none =>
      rw [hp] at h
      simp only [Option.map_some, Option.some.injEq] at h
      subst h
      exact key s rfl rfl rfl (fun q => hfilt q (st.not_mem_of_detached hp q))
    | some p =>
      rw [hp] at h
      simp only [Option.map_eq_some_iff] at h
      obtain ⟨s1, hs1, hs'⟩ := h
      subst hs'
      obtain ⟨g1, g2, g3, g4, _⟩ := applyDirty_shape hs1
      simp only at g1 g2 g3 g4
      refine key s1 g1 g2 g3 (fun q => ?_)
      rw [g4]
      by_cases e : q = p
      · subst e; rw [upd_same]
      · rw [upd_other _ _ _ _ e]
        exact hfilt q (fun hq => by have := st.kidsPar q n hq; rw [hp] at this; exact e (Option.some.inj this).symm)

end Dirty
