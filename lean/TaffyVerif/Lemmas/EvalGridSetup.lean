/-
  The setup stages of the grid program (`gridSetupA`: explicit grid, size estimate, placement; `gridSetupB`: track
  initialisation, track indexes, crossings): they make no child call, and either panic or hand ONE `Setup` to the rest of
  the program, whatever that rest is.  The grid items of the `Setup` are exactly the in-flow children (children that
  generate a box and are not absolutely positioned), each once (`placeGridItems_indices`: the three placement phases
  partition the in-flow children).
-/
import TaffyVerif.Lemmas.EvalGridWalk
import TaffyVerif.Lemmas.GridPlacementCells

set_option linter.unusedSectionVars false
set_option linter.unusedVariables false

namespace EvalGrid

/-! ### `place_grid_items` places every in-flow child exactly once -/
section placement
open GridPlacement

theorem mapO_map_index {ec er : Int} : ∀ {l : List (Nat × Child)} {cs : List OzChild},
    mapO (toOz ec er) l = .ok cs → cs.map (·.index) = l.map (·.1) := by
  intro l
  induction l with
  | nil => intro cs h; simp only [mapO, pure_eq] at h; cases h; rfl
  | cons x xs ih =>
    intro cs h
    simp only [mapO, bind_eq, bind_eq_ok, pure_eq] at h
    obtain ⟨y0, h1, ys, h2, h3⟩ := h
    cases h3
    simp only [List.map_cons, ih h2, (toOz_spec h1).1]

theorem phase1_indices (ax : Axis) : ∀ (cs : List OzChild) (st st' : State), phase1 ax st cs = .ok st' →
    st'.items.map (·.index) = (cs.map (·.index)).reverse ++ st.items.map (·.index) := by
  intro cs
  induction cs with
  | nil => intro st st' h; simp only [phase1, pure_eq] at h; cases h; simp
  | cons c cs ih =>
    intro st st' h
    simp only [phase1, bind_eq, bind_eq_ok] at h
    obtain ⟨⟨p, s⟩, h1, st1, h2, h3⟩ := h
    rw [ih st1 st' h3, (recordGridPlacement_spec h2).1]
    simp

theorem phase2_indices (fuel : Nat) (flow : AutoFlow) : ∀ (cs : List OzChild) (st st' : State),
    phase2 fuel flow st cs = .ok st' →
    st'.items.map (·.index) = (cs.map (·.index)).reverse ++ st.items.map (·.index) := by
  intro cs
  induction cs with
  | nil => intro st st' h; simp only [phase2, pure_eq] at h; cases h; simp
  | cons c cs ih =>
    intro st st' h
    simp only [phase2, bind_eq, bind_eq_ok] at h
    obtain ⟨⟨p, s⟩, h1, st1, h2, h3⟩ := h
    rw [ih st1 st' h3, (recordGridPlacement_spec h2).1]
    simp

theorem phase4_indices (fuel : Nat) (flow : AutoFlow) (gs : Int × Int) : ∀ (cs : List OzChild) (st st' : State)
    (pos : Int × Int), phase4 fuel flow gs st pos cs = .ok st' →
    st'.items.map (·.index) = (cs.map (·.index)).reverse ++ st.items.map (·.index) := by
  intro cs
  induction cs with
  | nil => intro st st' pos h; simp only [phase4, pure_eq] at h; cases h; simp
  | cons c cs ih =>
    intro st st' pos h
    simp only [phase4, bind_eq, bind_eq_ok] at h
    obtain ⟨⟨p, s⟩, h1, st1, h2, h3⟩ := h
    rw [ih st1 st' _ h3, (recordGridPlacement_spec h2).1]
    simp

/-- three predicates of which exactly one holds of every element partition a list -/
theorem partition3_perm {β : Type} (p1 p2 p3 : β → Bool)
    (h : ∀ x, (p1 x = true ∧ p2 x = false ∧ p3 x = false) ∨ (p1 x = false ∧ p2 x = true ∧ p3 x = false) ∨
      (p1 x = false ∧ p2 x = false ∧ p3 x = true)) :
    ∀ l : List β, (l.filter p1 ++ l.filter p2 ++ l.filter p3).Perm l := by
  intro l
  induction l with
  | nil => exact List.Perm.refl _
  | cons x xs ih =>
    rcases h x with ⟨a, b, c⟩ | ⟨a, b, c⟩ | ⟨a, b, c⟩
    · simp only [List.filter_cons, a, b, c, if_true, Bool.false_eq_true, if_false, List.cons_append]
      exact List.Perm.cons x ih
    · simp only [List.filter_cons, a, b, c, if_true, Bool.false_eq_true, if_false]
      refine List.Perm.trans ?_ (List.Perm.cons x ih)
      rw [List.append_assoc, List.append_assoc]
      exact List.perm_middle
    · simp only [List.filter_cons, a, b, c, if_true, Bool.false_eq_true, if_false]
      refine List.Perm.trans ?_ (List.Perm.cons x ih)
      exact List.perm_middle

theorem phases_trichotomy (sec : Axis) (x : Nat × Child) :
    (isPhase1 x.2 = true ∧ isPhase2 sec x.2 = false ∧ isPhase4 sec x.2 = false) ∨
    (isPhase1 x.2 = false ∧ isPhase2 sec x.2 = true ∧ isPhase4 sec x.2 = false) ∨
    (isPhase1 x.2 = false ∧ isPhase2 sec x.2 = false ∧ isPhase4 sec x.2 = true) := by
  unfold isPhase1 isPhase2 isPhase4
  cases sec <;> simp only [Child.gridPlacement, Axis.other] <;>
    cases isDefiniteRaw x.2.row <;> cases isDefiniteRaw x.2.column <;> simp

/-- **place_grid_items** records every in-flow child exactly once -/
theorem placeGridItems_indices {fuel : Nat} {m : Matrix} {children : List (Nat × Child)} {flow : AutoFlow}
    {final : State} (h : placeGridItems fuel m children flow = .ok final) :
    (final.items.map (·.index)).Perm (children.map (·.1)) := by
  simp only [placeGridItems, bind_eq, bind_eq_ok] at h
  obtain ⟨cs1, hm1, st1, hp1, cs2, hm2, st2, hp2, pn, _, sn, _, ps, _, ss, _, cs4, hm4, hp4⟩ := h
  have e1 := phase1_indices _ _ _ _ hp1
  have e2 := phase2_indices _ _ _ _ _ hp2
  have e4 := phase4_indices _ _ _ _ _ _ _ hp4
  rw [e4, e2, e1, mapO_map_index hm1, mapO_map_index hm2, mapO_map_index hm4]
  simp only [List.map_nil, List.append_nil]
  have hp := (partition3_perm (fun ic : Nat × Child => isPhase1 ic.2)
    (fun ic => isPhase2 flow.primaryAxis.other ic.2) (fun ic => isPhase4 flow.primaryAxis.other ic.2)
    (phases_trichotomy flow.primaryAxis.other) children).map (·.1)
  refine List.Perm.trans ?_ hp
  simp only [List.map_append]
  refine List.Perm.trans (List.Perm.append (List.reverse_perm _)
    (List.Perm.append (List.reverse_perm _) (List.reverse_perm _))) ?_
  -- c ++ (b ++ a) ~ a ++ b ++ c
  refine List.Perm.trans List.perm_append_comm ?_
  exact List.Perm.append_right _ List.perm_append_comm

end placement


open GridModel GridTracks EvalBlock
variable {α : Type} [Num α]

/-! ### pure-or-panic steps -/

theorem ofExcept_cases {β : Type} (x : Except GErr β) :
    (∃ a, x = .ok a ∧ ∀ {γ : Type} (f : β → GM α γ), GM.ofExcept x >>= f = f a) ∨
    (∃ e, ∀ {γ : Type} (f : β → GM α γ), GM.ofExcept x >>= f = throw e) := by
  cases x with
  | ok a => exact Or.inl ⟨a, rfl, fun f => rfl⟩
  | error e => cases e <;> exact Or.inr ⟨_, fun f => rfl⟩

theorem ofOutcome_cases {β : Type} (x : GridPlacement.Outcome β) :
    (∃ a, x = .ok a ∧ ∀ {γ : Type} (f : β → GM α γ), GM.ofOutcome x >>= f = f a) ∨
    (∃ e, ∀ {γ : Type} (f : β → GM α γ), GM.ofOutcome x >>= f = throw e) := by
  cases x with
  | ok a => exact Or.inl ⟨a, rfl, fun f => rfl⟩
  | panic m => exact Or.inr ⟨_, fun f => rfl⟩
  | overflow => exact Or.inr ⟨_, fun f => rfl⟩
  | outOfFuel => exact Or.inr ⟨_, fun f => rfl⟩

section setup
variable [NumCast α]

/-- **steps 2–4** either panic or hand one placement result to the rest of the program -/
theorem gridSetupA_cases (style : GridStyle α) (boxChildren : List GridPlacement.Child)
    (inFlow : List (Nat × GridPlacement.Child)) (inputs : LayoutInput α) :
    (∃ e, ∀ {β : Type} (k : GridPlacement.State → GM α β), gridSetupA style boxChildren inFlow inputs k = throw e) ∨
    (∃ placed, (placed.items.map (·.index)).Perm (inFlow.map (·.1)) ∧
      ∀ {β : Type} (k : GridPlacement.State → GM α β), gridSetupA style boxChildren inFlow inputs k = k placed) := by
  unfold gridSetupA
  simp only []
  rcases ofExcept_cases (α := α) (computeExplicitGridSizeInAxis style.base.size.width style.base.maxSize.width
    style.base.gap.width style.gridTemplateColumns (mkCtx style.base inputs).autoFitContainerSize.width) with
    ⟨ec, _, e1⟩ | ⟨e, he⟩
  rotate_left
  · exact Or.inl ⟨e, fun k => he _⟩
  simp only [e1]
  rcases ofExcept_cases (α := α) (computeExplicitGridSizeInAxis style.base.size.height style.base.maxSize.height
    style.base.gap.height style.gridTemplateRows (mkCtx style.base inputs).autoFitContainerSize.height) with
    ⟨er, _, e2⟩ | ⟨e, he⟩
  rotate_left
  · exact Or.inl ⟨e, fun k => he _⟩
  simp only [e2]
  rcases ofOutcome_cases (α := α) (GridPlacement.computeGridSizeEstimate ec er boxChildren) with
    ⟨⟨estC, estR⟩, _, e3⟩ | ⟨e, he⟩
  rotate_left
  · exact Or.inl ⟨e, fun k => he _⟩
  simp only [e3]
  rcases ofOutcome_cases (α := α) (GridPlacement.Matrix.withTrackCounts estC estR) with ⟨m0, _, e4⟩ | ⟨e, he⟩
  rotate_left
  · exact Or.inl ⟨e, fun k => he _⟩
  simp only [e4]
  rcases ofOutcome_cases (α := α) (GridPlacement.placeGridItems GridPlacement.defaultFuel m0 inFlow
    style.gridAutoFlow) with ⟨placed, hp, e5⟩ | ⟨e, he⟩
  rotate_left
  · exact Or.inl ⟨e, fun k => he _⟩
  simp only [e5]
  exact Or.inr ⟨placed, placeGridItems_indices hp, fun k => rfl⟩

theorem mapO_map_eq {β γ δ : Type} (f : β → GridPlacement.Outcome γ) (g : β → δ) (g' : γ → δ)
    (hf : ∀ x y, f x = .ok y → g' y = g x) : ∀ (l : List β) (l' : List γ), GridPlacement.mapO f l = .ok l' →
    l'.map g' = l.map g := by
  intro l
  induction l with
  | nil => intro l' h; simp only [GridPlacement.mapO, GridPlacement.pure_eq] at h; cases h; rfl
  | cons x xs ih =>
    intro l' h
    simp only [GridPlacement.mapO, GridPlacement.bind_eq, GridPlacement.bind_eq_ok, GridPlacement.pure_eq] at h
    obtain ⟨y0, h1, ys, h2, h3⟩ := h
    cases h3
    simp only [List.map_cons, ih ys h2, hf x y0 h1]

theorem resolveItemTrackIndexes_nodes (items items' : List (GItem α)) (cc rc : GridPlacement.TrackCounts)
    (h : resolveItemTrackIndexes items cc rc = .ok items') : items'.map (·.node) = items.map (·.node) := by
  unfold resolveItemTrackIndexes at h
  refine mapO_map_eq _ (·.node) (·.node) ?_ items items' h
  intro x y hxy
  simp only [GridPlacement.bind_eq, GridPlacement.bind_eq_ok, GridPlacement.pure_eq] at hxy
  obtain ⟨_, _, _, _, _, _, _, _, _, _, _, _, _, _, _, _, h9⟩ := hxy
  cases h9
  rfl

theorem determineCrossings_nodes (items : List (GItem α)) (columns rows : List (GridTrack α)) :
    (determineCrossings items columns rows).map (·.node) = items.map (·.node) := by
  unfold determineCrossings
  simp only [List.map_map]
  rfl

/-- **step 5 and the index resolution** either panic or hand one `Setup` with the same item nodes to the rest -/
theorem gridSetupB_cases (style : GridStyle α) (items : List (GItem α)) (placed : GridPlacement.State) :
    (∃ e, ∀ {β : Type} (k : Setup α → GM α β), gridSetupB style items placed k = throw e) ∨
    (∃ su : Setup α, su.items.map (·.node) = items.map (·.node) ∧
      su.finalColCounts = placed.matrix.columns ∧ su.finalRowCounts = placed.matrix.rows ∧
      ∀ {β : Type} (k : Setup α → GM α β), gridSetupB style items placed k = k su) := by
  unfold gridSetupB
  simp only []
  rcases ofExcept_cases (α := α) (initializeGridTracks (toNatCounts placed.matrix.columns) style.gridTemplateColumns
    style.gridAutoColumns style.base.gap.width (columnIsOccupied placed.matrix)) with ⟨cols, _, e1⟩ | ⟨e, he⟩
  rotate_left
  · exact Or.inl ⟨e, fun k => he _⟩
  simp only [e1]
  rcases ofExcept_cases (α := α) (initializeGridTracks (toNatCounts placed.matrix.rows) style.gridTemplateRows
    style.gridAutoRows style.base.gap.height (rowIsOccupied placed.matrix)) with ⟨rws, _, e2⟩ | ⟨e, he⟩
  rotate_left
  · exact Or.inl ⟨e, fun k => he _⟩
  simp only [e2]
  rcases ofOutcome_cases (α := α) (resolveItemTrackIndexes items placed.matrix.columns placed.matrix.rows) with
    ⟨items', hi, e3⟩ | ⟨e, he⟩
  rotate_left
  · exact Or.inl ⟨e, fun k => he _⟩
  simp only [e3]
  refine Or.inr ⟨_, ?_, rfl, rfl, fun k => rfl⟩
  simp only [determineCrossings_nodes, resolveItemTrackIndexes_nodes _ _ _ _ hi]

theorem itemsOf_nodes (c : Ctx α) (childStyles : List (GridChildStyle α)) (placed : GridPlacement.State) :
    (itemsOf c childStyles placed).map (·.node) = placed.items.reverse.map (·.index) := by
  unfold itemsOf
  simp only [List.map_map]
  rfl

/-- **the setup** either panics or hands one `Setup` to the rest of the program; its items are the in-flow children -/
theorem gridSetupK_cases (style : GridStyle α) (childStyles : List (GridChildStyle α))
    (inputs : LayoutInput α) :
    (∃ e, ∀ {β : Type} (k : Setup α → GM α β), gridSetupK style childStyles inputs k = throw e) ∨
    (∃ su : Setup α, (su.items.map (·.node)).Perm ((inFlowOf childStyles).map (·.1)) ∧
      ∀ {β : Type} (k : Setup α → GM α β), gridSetupK style childStyles inputs k = k su) := by
  rcases gridSetupA_cases style (boxChildrenOf childStyles) (inFlowOf childStyles) inputs with
    ⟨e, he⟩ | ⟨placed, hperm, hk⟩
  · exact Or.inl ⟨e, fun k => by unfold gridSetupK; exact he _⟩
  · rcases gridSetupB_cases style (itemsOf (mkCtx style.base inputs) childStyles placed) placed with
      ⟨e, he⟩ | ⟨su, hn, _, _, hk2⟩
    · exact Or.inl ⟨e, fun k => by unfold gridSetupK; rw [hk]; exact he k⟩
    · refine Or.inr ⟨su, ?_, fun k => by unfold gridSetupK; rw [hk]; exact hk2 k⟩
      rw [hn, itemsOf_nodes, List.map_reverse]
      exact (List.reverse_perm _).trans hperm

end setup

end EvalGrid
