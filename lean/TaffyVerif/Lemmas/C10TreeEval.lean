/-
  C10, tree-level theorem — part 10: induction over the tree with the cache-free evaluator.  `evalChild_inst`: the
  evaluator's child closure satisfies `EvalChild` (outputs = `outFresh`, `OK` = "the child's subtree violates no clause of
  the specification") given the induction hypothesis; **`evalOK`**: after `compute_child_layout` of a box of the family
  with a `PerformLayout` input — whatever the state before — the layouts stored in its subtree violate no clause of
  Spec/MarginCollapse.lean (`violations … = []`), the box's own layout being any layout of the reported width.
-/
import TaffyVerif.Lemmas.C10TreeRun

set_option linter.unusedSectionVars false

namespace C10Thm
open MarginCollapse BlockModel C10Tree C10Conv EvalMemo EvalBlock Eval

theorem walk_sets_complete (c : FlowCtx Rat) (inner : Size (Option Rat)) (ans : Nat → LayoutInput Rat → LayoutOutput Rat) :
    ∀ (cs : List (Style Rat)) (idx order : Nat) (st : FlowState Rat) (i : Nat) (s : Style Rat),
      cs[i]? = some s → s.isHidden = false → (s.position == Position.absolute) = false →
      ∃ l, (idx + i, l) ∈ (walk c inner ans cs idx order st).2.2 := by
  intro cs
  induction cs with
  | nil => intro idx order st i s h; simp at h
  | cons a rest ih =>
    intro idx order st i s h hs hp
    cases i with
    | zero =>
      simp only [List.getElem?_cons_zero, Option.some.injEq] at h
      subst h
      simp only [walk, hs, hp, Bool.false_eq_true, if_false]
      exact ⟨_, List.mem_cons_self⟩
    | succ i =>
      simp only [List.getElem?_cons_succ] at h
      have e : idx + (i + 1) = idx + 1 + i := by omega
      rw [e]
      by_cases hh : a.isHidden = true
      · simp only [walk, hh, if_true]
        exact ih (idx + 1) order st i s h hs hp
      · have hh' : a.isHidden = false := by simpa using hh
        by_cases hab : (a.position == Position.absolute) = true
        · simp only [walk, hh', hab, Bool.false_eq_true, if_false, if_true]
          exact ih (idx + 1) (order + 1) st i s h hs hp
        · have hab' : (a.position == Position.absolute) = false := by simpa using hab
          simp only [walk, hh', hab', Bool.false_eq_true, if_false]
          obtain ⟨l, hl⟩ := ih (idx + 1) (order + 1) _ i s h hs hp
          exact ⟨l, List.mem_cons_of_mem _ hl⟩

/-- the layout stored for child `j` -/
def layAt (full : List St) (j : Nat) : Layout Rat := (full[j]?.map NS.layout).getD Layout.new

theorem lay_specKids (full : List St) : ∀ (kids : List (STree Rat)) (ks : List St) (idx : Nat),
    ShapeList kids ks → (∀ j, ks[j]? = full[idx + j]?) → Lay (layAt full) idx kids (specKids kids ks)
  | [], [], _, _, _ => by simp only [specKids, Lay]
  | [], _ :: _, _, h, _ => by simp [ShapeList] at h
  | _ :: _, [], _, h, _ => by simp [ShapeList] at h
  | t :: ts, k :: ks, idx, h, hf => by
    simp only [ShapeList] at h
    simp only [specKids, Lay]
    have h0 := hf 0
    simp only [List.getElem?_cons_zero, Nat.add_zero] at h0
    have hl : layAt full idx = k.layout := by simp only [layAt, ← h0, Option.map_some, Option.getD_some]
    refine ⟨strip_specOf t k.layout k h.1, ?_, ?_, ?_, lay_specKids full ts ks (idx + 1) h.2 ?_⟩
    · rw [hl]; cases t; rfl
    · rw [hl]; cases t; rfl
    · rw [hl]; cases t; rfl
    · intro j
      have := hf (j + 1)
      simp only [List.getElem?_cons_succ] at this
      rw [this]; congr 1; omega

/-- a child's subtree satisfies the specification (the child's own layout is the one stored with it) -/
def OKt (t : STree Rat) (k : St) : Prop :=
  ∀ n, violations (t.style.position == Position.absolute) n (specOf t k.layout k) = []

theorem specOf_box {C : Type} (t : STree Rat) (l : Layout Rat) (ns : NS Rat C) :
    (specOf t l ns).box = sbox t.style t.ctx l := by
  cases t; simp only [specOf, Tree.box, STree.style, STree.ctx]

theorem violations_hidden (bfc : Bool) (n : Nat) (T : Tree) (h : T.box.hidden = true) : violations bfc n T = [] := by
  cases T with
  | node b kids =>
    simp only [Tree.box] at h
    simp only [violations, h, if_true]

theorem violationsKids_nil : ∀ (kids : List (STree Rat)) (ks : List St) (n : Nat), ShapeList kids ks →
    (∀ (j : Nat) (t : STree Rat) (k : St), kids[j]? = some t → ks[j]? = some k →
      (t.style.display == Display.none) = true ∨ OKt t k) →
    violationsKids true n (specKids kids ks) = []
  | [], _, _, _, _ => by simp only [specKids, violationsKids]
  | _ :: _, [], _, h, _ => by simp [ShapeList] at h
  | t :: ts, k :: ks, n, h, hok => by
    simp only [ShapeList] at h
    simp only [specKids, violationsKids, Bool.not_true, Bool.false_or, List.append_eq_nil_iff]
    constructor
    · rcases hok 0 t k rfl rfl with hh | hh
      · apply violations_hidden
        rw [specOf_box]; exact hh
      · rw [specOf_box]
        exact hh n
    · apply violationsKids_nil ts ks _ h.2
      intro j t' k' h1 h2
      exact hok (j + 1) t' k' (by simpa using h1) (by simpa using h2)


section
variable (flex grid : Style Rat → List (Style Rat) → LayoutInput Rat → ProgM Rat (LayoutOutput Rat))

/-- the queries after which a child's subtree is laid out as the specification asks: `PerformLayout`, and the child's own
margins may collapse with its children's exactly when the child is an in-flow box -/
def GoodAt (kids : List (STree Rat)) (i : Nat) (inp : LayoutInput Rat) : Prop :=
  ∃ t, kids[i]? = some t ∧ (t.style.display == Display.none) = false ∧ inp.runMode = .performLayout ∧
    (inp.verticalMarginsAreCollapsible.start && (t.style.position == Position.relative))
      = !(t.style.position == Position.absolute)

def OKAt (kids : List (STree Rat)) (i : Nat) (k : St) : Prop := ∀ t, kids[i]? = some t → OKt t k

/-- the statement proved by induction on the fuel -/
def EvalOK (fuel : Nat) : Prop :=
  ∀ (t : STree Rat) (ns : St) (inp : LayoutInput Rat) (bfc : Bool) (l : Layout Rat) (n : Nat),
    inFamilyCore t = true → STree.depth t ≤ fuel → Shape t ns → (t.style.display == Display.none) = false →
    inp.runMode = .performLayout →
    (inp.verticalMarginsAreCollapsible.start && (t.style.position == Position.relative)) = !bfc →
    l.size.width = (outFresh sel (EvalConcrete.algs flex grid) fuel t inp).size.width →
    violations bfc n (specOf t l (evalNodeWith noCache sel (EvalConcrete.algs flex grid) fuel t ns inp).2) = []

theorem specOf_relayout (t : STree Rat) (l l' : Layout Rat) (k : St) : specOf t l (relayout l' k) = specOf t l k := by
  cases t; cases k; simp only [specOf, relayout, NS.kids]

theorem relayout_layout (l : Layout Rat) (k : St) : (relayout l k).layout = l := by
  cases k; rfl

theorem ev_facts (fuel : Nat) (t : STree Rat) (k : St) (inp : LayoutInput Rat) (hd : STree.depth t ≤ fuel)
    (hs : Shape t k) :
    (evalNodeWith noCache sel (EvalConcrete.algs flex grid) fuel t k inp).1
      = outFresh sel (EvalConcrete.algs flex grid) fuel t inp ∧
    Shape t (evalNodeWith noCache sel (EvalConcrete.algs flex grid) fuel t k inp).2 := by
  obtain ⟨h1, h2⟩ := eval_valid sel (EvalConcrete.algs flex grid) noCache noCache_sound fuel t k inp hd
    (Shape_valid_true sel (EvalConcrete.algs flex grid) t k hs)
  exact ⟨h1, Valid_shape _ sel (EvalConcrete.algs flex grid) t _ h2⟩

theorem evalChild_inst (fuel : Nat) (kids : List (STree Rat)) (hdepth : STree.depthList kids ≤ fuel)
    (hfam : inFamilyCoreKids kids = true) (ih : EvalOK flex grid fuel) :
    EvalChild kids (EvalMemo.evalChildOf noCache sel (EvalConcrete.algs flex grid) fuel kids)
      (ansOf sel (EvalConcrete.algs flex grid) fuel kids) (GoodAt kids) (OKAt kids) where
  out := by
    intro i inp ks hs
    simp only [EvalMemo.evalChildOf, ansOf]
    cases hk : kids[i]? with
    | none => rfl
    | some t =>
      obtain ⟨k, hk2, hsk⟩ := ShapeList_get' kids ks i t hs hk
      rw [hk2]
      have hd := depth_le_of_getElem kids i t hk
      exact (ev_facts flex grid fuel t k inp (by omega) hsk).1
  shape := by
    intro i inp ks hs
    simp only [EvalMemo.evalChildOf]
    cases hk : kids[i]? with
    | none => exact hs
    | some t =>
      obtain ⟨k, hk2, hsk⟩ := ShapeList_get' kids ks i t hs hk
      rw [hk2]
      have hd := depth_le_of_getElem kids i t hk
      exact ShapeList_set' kids ks i t _ hs hk (ev_facts flex grid fuel t k inp (by omega) hsk).2
  frame := by
    intro i inp ks j hj
    simp only [EvalMemo.evalChildOf]
    cases hk : kids[i]? with
    | none => rfl
    | some t =>
      cases hk2 : ks[i]? with
      | none => rfl
      | some k => simp only; rw [List.getElem?_set_ne (Ne.symm hj)]
  ok := by
    intro i inp ks l hs hgood hw
    obtain ⟨t, hk, hvis, hm, hv⟩ := hgood
    obtain ⟨k, hk2, hsk⟩ := ShapeList_get' kids ks i t hs hk
    have hd := depth_le_of_getElem kids i t hk
    have hlt : i < ks.length := by
      rcases Nat.lt_or_ge i ks.length with h' | h'
      · exact h'
      · simp [List.getElem?_eq_none h'] at hk2
    have hec : (EvalMemo.evalChildOf noCache sel (EvalConcrete.algs flex grid) fuel kids i inp ks).2
        = ks.set i (evalNodeWith noCache sel (EvalConcrete.algs flex grid) fuel t k inp).2 := by
      simp only [EvalMemo.evalChildOf, hk, hk2]
    rw [hec]
    refine ⟨relayout l (evalNodeWith noCache sel (EvalConcrete.algs flex grid) fuel t k inp).2,
      setLayoutAt_eq _ i l _ (by simp [List.getElem?_set_self hlt]), relayout_layout _ _, ?_⟩
    intro t' hk'
    rw [hk] at hk'; cases hk'
    intro n
    rw [relayout_layout, specOf_relayout]
    refine ih t k inp _ l n ?_ (by omega) hsk hvis hm hv ?_
    · exact inFamilyCoreKids_get kids i t hfam hk
    · rw [hw]; simp only [ansOf, hk]


omit flex grid in
theorem goodFlow_of (Good : Nat → LayoutInput Rat → Prop) (c : FlowCtx Rat) (inner : Size (Option Rat)) :
    ∀ (cs : List (Style Rat)) (idx : Nat),
      (∀ j s, cs[j]? = some s → s.isHidden = false → (s.position == Position.absolute) = false →
        ∀ o, Good (idx + j) (itemInput c (generateItem (idx + j) o s inner))) → GoodFlow Good c inner idx cs
  | [], _, _ => trivial
  | s :: rest, idx, h => by
    refine ⟨fun h1 h2 o => h 0 s rfl h1 h2 o, goodFlow_of Good c inner rest (idx + 1) ?_⟩
    intro j s' hj h1 h2 o
    have e : idx + 1 + j = idx + (j + 1) := by omega
    rw [e]
    exact h (j + 1) s' (by simpa using hj) h1 h2 o

omit flex grid in
theorem map_style_get (kids : List (STree Rat)) (j : Nat) (s : Style Rat)
    (h : (kids.map STree.style)[j]? = some s) : ∃ t, kids[j]? = some t ∧ t.style = s := by
  rw [List.getElem?_map] at h
  cases hk : kids[j]? with
  | none => rw [hk] at h; cases h
  | some t => rw [hk] at h; exact ⟨t, rfl, by simpa using h⟩

omit flex grid in
/-- **positions inside one block container**: against any pure oracle whose answers for the in-flow children meet the
specification (`KidsMeet`) and honour the known width (`KidsWide`), the layouts the pure walk assigns to the in-flow
children (`L`, carried by `Ts`) satisfy every clause of the specification's `flow` for this container — whose own
layout `l` has the width the run reports, and whose own margins take part in the collapsing (`!bfc`) exactly when the
input says so -/
theorem container_flow (orc : Nat → LayoutInput Rat → LayoutOutput Rat) (s : Style Rat)
    (ctx : Option (MeasureSpec Rat)) (kids : List (STree Rat)) (inp : LayoutInput Rat) (bfc : Bool) (l : Layout Rat)
    (n : Nat) (L : Nat → Layout Rat) (Ts : List Tree)
    (hp : Px s) (hb : s.display = .block) (hk : inFamilyCoreKids kids = true)
    (hvmc : (inp.verticalMarginsAreCollapsible.start && (s.position == Position.relative)) = !bfc)
    (hmeet : KidsMeet orc 0 kids) (hwide : KidsWide orc 0 kids)
    (hwidth : l.size.width = blockW orc s (kids.map STree.style) inp)
    (hlay : Lay L 0 kids Ts)
    (hL : ∀ i l', (i, l') ∈ (walk (flowCtxOf s (innerCtx s (innerInputs s inp)) (blockW orc s (kids.map STree.style) inp))
        (innerCtx s (innerInputs s inp)).containerContentBoxSize orc (kids.map STree.style) 0 0
        (flowCtxOf s (innerCtx s (innerInputs s inp)) (blockW orc s (kids.map STree.style) inp)).initState).2.2 →
      L i = l') :
    flow (sbox s ctx l) (!bfc && (sbox s ctx l).topOpen) false ((sbox s ctx l).borderTop + (sbox s ctx l).paddingTop) []
      n Ts = [] := by
  obtain ⟨fc1, fc2, fc3, fc4⟩ := flowCtx_px s hp (innerInputs s inp) (blockW orc s (kids.map STree.style) inp)
  refine walk_flow
    (flowCtxOf s (innerCtx s (innerInputs s inp)) (blockW orc s (kids.map STree.style) inp))
    (innerCtx s (innerInputs s inp)).containerContentBoxSize orc (sbox s ctx l) L ?_ kids Ts 0 0
    (flowCtxOf s (innerCtx s (innerInputs s inp)) (blockW orc s (kids.map STree.style) inp)).initState
    (!bfc && (sbox s ctx l).topOpen) false ((sbox s ctx l).borderTop + (sbox s ctx l).paddingTop) []
    n hk hmeet hwide hlay hL ?_
  · -- width of the content box
    have e1 : (sbox s ctx l).w = l.size.width := rfl
    simp only [FlowCtx.containerInnerWidth, fc2, fc3, Rect.horizontalAxisSum, e1, hwidth]
    show _ - pxP s.padding.left - pxP s.padding.right - pxP s.border.left - pxP s.border.right = _
    ring
  · -- the initial loop state
    obtain ⟨g1, _, _⟩ := innerCtx_flags s hp (innerInputs s inp)
    obtain ⟨o1, _⟩ := sbox_open s ctx l hb
    refine ⟨?_, rfl, rfl, ?_⟩
    · show (flowCtxOf s _ _).resolvedContentBoxInset.top = _
      rw [fc1]
      show pxP s.padding.top + pxP s.border.top + 0 = pxP s.border.top + pxP s.padding.top
      ring
    · rw [fc4, g1, o1]
      have : (innerInputs s inp).verticalMarginsAreCollapsible = inp.verticalMarginsAreCollapsible := rfl
      rw [this, hvmc]
      simp only [Bool.not_false, Bool.true_and, Bool.and_assoc]

theorem violations_node (bfc : Bool) (n : Nat) (b : Box) (Ts : List Tree) (hv : b.hidden = false)
    (hk : b.kind = .block)
    (h1 : flow b (!bfc && b.topOpen) false (b.borderTop + b.paddingTop) [] (n + 1) Ts = [])
    (h2 : violationsKids true (n + 1) Ts = []) : violations bfc n (.node b Ts) = [] := by
  have hkb : (Kind.block == Kind.block) = true := rfl
  simp only [violations, hv, Bool.false_eq_true, if_false, hk, hkb, if_true, h1, h2, List.append_nil]

theorem evalOK : ∀ fuel : Nat, EvalOK flex grid fuel := by
  intro fuel
  induction fuel with
  | zero =>
    intro t ns inp bfc l n _ hd
    cases t; simp [STree.depth] at hd
  | succ fuel ih =>
    intro t ns inp bfc l n hfam hdep hshape hvis hm hvmc hw
    cases t with
    | node s ctx kids =>
      cases ns with
      | mk c l0 nk =>
        obtain ⟨hp, hn, hd, hwr, hc, hk⟩ := node_facts s ctx kids hfam
        simp only [STree.style] at hvis hvmc
        simp only [STree.depth] at hdep
        simp only [Shape] at hshape
        have hb := notHidden_block s hd hvis
        have hmode : (inp.runMode == RunMode.performHiddenLayout) = false := by rw [hm]; rfl
        have hget : (noCache (α := Rat)).get c inp = none := rfl
        have hbv : (sbox s ctx l).hidden = false := hvis
        have hbk : (sbox s ctx l).kind = .block := by simp only [sbox, hb]; rfl
        rw [evalNodeWith_succ, hmode]
        simp only [Bool.false_eq_true, if_false, hget]
        by_cases hkids : kids = []
        · rw [(bodyOf_block flex grid s kids inp hb).1 hkids]
          subst hkids
          simp only [specOf, specKids]
          exact violations_node bfc n _ [] hbv hbk (by simp only [flow]) (by simp only [violationsKids])
        · rw [(bodyOf_block flex grid s kids inp hb).2 hkids]
          simp only [specOf, NS.kids]
          have hE := evalChild_inst flex grid fuel kids (by omega) hk ih
          -- the fuel is positive: there is a child
          obtain ⟨f', hf'⟩ : ∃ f', fuel = f' + 1 := by
            cases kids with
            | nil => exact absurd rfl hkids
            | cons t0 ts =>
              have : 1 ≤ STree.depth t0 := by cases t0; simp [STree.depth]
              have h2 : STree.depth t0 ≤ STree.depthList (t0 :: ts) := by simp only [STree.depthList]; omega
              exact ⟨fuel - 1, by omega⟩
          have hflow : ∀ c inner, GoodFlow (GoodAt kids) c inner 0 (kids.map STree.style) := by
            intro c inner
            apply goodFlow_of
            intro j s' hj h1 h2 o
            obtain ⟨t', ht', hst⟩ := map_style_get kids j s' hj
            rw [Nat.zero_add]
            refine ⟨t', ht', ?_, rfl, ?_⟩
            · rw [hst]; exact h1
            · rw [hst]
              cases hp' : s'.position with
              | relative => rfl
              | absolute => rw [hp'] at h2; exact absurd h2 (by decide)
          have habs : ∀ i cs, (kids.map STree.style)[i]? = some cs → cs.isHidden = false →
              cs.position = .absolute →
              AbsOK (GoodAt kids) (ansOf sel (EvalConcrete.algs flex grid) fuel kids) i cs := by
            intro i cs hi hvis' hpos
            obtain ⟨t', ht', hst⟩ := map_style_get kids i cs hi
            have hft := inFamilyCoreKids_get kids i t' hk ht'
            refine ⟨?_, ?_, ?_⟩
            · cases t' with
              | node s' ctx' gk' =>
                simp only [STree.style] at hst; subst hst
                exact (node_facts _ ctx' gk' hft).1
            · intro inp' hm' hv'
              refine ⟨t', ht', by rw [hst]; exact hvis', hm', ?_⟩
              rw [hst, hv', hpos]; rfl
            · intro inp' hm'
              simp only [ansOf, ht']
              rw [hf', ← hst]
              exact out_wide flex grid f' t' inp' hft (by rw [hst]; exact hvis') hm'
          obtain ⟨r1, r2, r3, r4⟩ := run_block_PL hE s inp hm nk hshape hflow habs
          generalize hnk' : (Eval.runProg (EvalMemo.evalChildOf noCache sel (EvalConcrete.algs flex grid) fuel kids)
            (computeBlockLayout s (kids.map STree.style) inp) nk).2 = nk' at r2 r3 r4 ⊢
          clear r1
          apply violations_node bfc n _ _ hbv hbk
          · -- the in-flow children are where the specification's walk wants them
            have hwidth : l.size.width
                = blockW (ansOf sel (EvalConcrete.algs flex grid) fuel kids) s (kids.map STree.style) inp := by
              rw [hw, outFresh_succ, hmode]
              simp only [Bool.false_eq_true, if_false]
              rw [(bodyOf_block flex grid s kids inp hb).2 hkids]
              simp only []
              obtain ⟨w, acs, hwW, _, _, heq⟩ := interp_block_PL (ansOf sel (EvalConcrete.algs flex grid) fuel kids) s
                (kids.map STree.style) inp hm
              rw [heq, ← hwW]
              rfl
            refine container_flow (ansOf sel (EvalConcrete.algs flex grid) fuel kids) s ctx kids inp bfc l (n + 1)
              (layAt nk') (specKids kids nk') hp hb hk hvmc ?_ ?_ hwidth
              (lay_specKids nk' kids nk' 0 r2 (by simp)) ?_
            · -- the children's outputs meet the specification
              apply kidsMeet_of
              intro j t' hj hfl' inp' hin'
              simp only [ansOf, Nat.zero_add, hj]
              have hdt := depth_le_of_getElem kids j t' hj
              exact out_meets flex grid fuel t' inp' (inFamilyCoreKids_get kids j t' hk hj) (by omega) hfl' hin'
            · apply kidsWide_of
              intro j t' hj hfl' inp' kw hm' hkw
              simp only [ansOf, Nat.zero_add, hj]
              rw [hf']
              exact (out_wide flex grid f' t' inp' (inFamilyCoreKids_get kids j t' hk hj)
                (kidInFlow_elim t' hfl').1 hm').1 kw hkw
            · intro i l' hmem
              obtain ⟨k'', h1, h2, _⟩ := r3 i l' hmem
              simp only [layAt, h1, Option.map_some, Option.getD_some, h2]
          · -- the children's subtrees
            apply violationsKids_nil kids nk' (n + 1) r2
            intro j t' k' hj hk'
            by_cases hhid : (t'.style.display == Display.none) = true
            · exact Or.inl hhid
            · right
              have hhid' : (t'.style.display == Display.none) = false := by simpa using hhid
              have hst : (kids.map STree.style)[j]? = some t'.style := by rw [List.getElem?_map, hj]; rfl
              by_cases hab : (t'.style.position == Position.absolute) = true
              · have hpos : t'.style.position = .absolute := by
                  cases hp' : t'.style.position with
                  | absolute => rfl
                  | relative => rw [hp'] at hab; exact absurd hab (by decide)
                obtain ⟨k'', h1, h2⟩ := r4 j t'.style hst hhid' hpos
                rw [hk'] at h1; cases h1
                exact h2 t' hj
              · have hab' : (t'.style.position == Position.absolute) = false := by simpa using hab
                obtain ⟨l', hl'⟩ := walk_sets_complete
                  (flowCtxOf s (innerCtx s (innerInputs s inp))
                    (blockW (ansOf sel (EvalConcrete.algs flex grid) fuel kids) s (kids.map STree.style) inp))
                  (innerCtx s (innerInputs s inp)).containerContentBoxSize
                  (ansOf sel (EvalConcrete.algs flex grid) fuel kids) (kids.map STree.style) 0 0
                  (flowCtxOf s (innerCtx s (innerInputs s inp))
                    (blockW (ansOf sel (EvalConcrete.algs flex grid) fuel kids) s (kids.map STree.style) inp)).initState
                  j t'.style hst hhid' hab'
                rw [Nat.zero_add] at hl'
                obtain ⟨k'', h1, _, h3⟩ := r3 j l' hl'
                rw [hk'] at h1; cases h1
                exact h3 t' hj

end
end C10Thm
