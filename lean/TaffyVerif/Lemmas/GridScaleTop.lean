/-
  C04 for grid, part 10: the glue of `compute_grid_layout` is homogeneous for ANY pair of related
  `compute_explicit_grid_size_in_axis` / `track_sizing_algorithm` parameters (`gridAlgG_scale`):

      ceg' (scaled arguments) = ceg (arguments)                      on the two calls of step 2
      ts' (scaled arguments, scaled state) ~ ts (arguments, state)   (`GSim`, result scaled), on states whose tracks
                                                                     satisfy a property `FT` of their sizing functions
      ⇒  gridAlgG ceg' ts' (gscale k style) (children scaled) (scale k input) = scaleProg k (gridAlgG ceg ts style …)

  i.e. step 1, placement, track initialisation, the other-axis estimates, baselines, the container size, the re-run
  conditions of step 7, track alignment, item positioning, absolutely positioned and hidden children, the container
  baseline and the output contain no absolute constant.
-/
import TaffyVerif.Lemmas.GridScaleProg3

set_option linter.unusedSectionVars false
set_option linter.unusedVariables false
set_option linter.unusedSimpArgs false

namespace C04
open Scalable GridModel GridTracks GridStages GridScale

variable {k : Rat}

/-- a property of tracks that depends on their sizing functions only -/
structure TrackProp (FT : GridTrack Rat → Prop) : Prop where
  fns : ∀ t t' : GridTrack Rat, t'.minFn = t.minFn → t'.maxFn = t.maxFn → FT t → FT t'

def TPs (FT : GridTrack Rat → Prop) (l : List (GridTrack Rat)) : Prop := ∀ t ∈ l, FT t

/-- the hypothesis on the sizing parameter -/
def TSHom (k : Rat) (FT : GridTrack Rat → Prop) (ts' ts : TS Rat) : Prop :=
  ∀ (a : RunArgs Rat) (st : RunState Rat), TPs FT st.axisTracks → TPs FT st.otherAxisTracks →
    GSim k (fun r' r => r' = scale k r ∧ TPs FT r.axisTracks ∧ TPs FT r.otherAxisTracks)
      (ts' (scale k a) (scale k st)) (ts a st)

variable {FT : GridTrack Rat → Prop} (hFT : TrackProp FT) {ts' ts : TS Rat} (hts : TSHom k FT ts' ts) (hk : 0 < k)

include hFT in
theorem TPs_reresolve (cb : Rat) (l : List (GridTrack Rat)) (h : TPs FT l) : TPs FT (reresolvePercentTracks cb l) := by
  intro t ht
  unfold reresolvePercentTracks at ht
  obtain ⟨t0, h0, rfl⟩ := List.mem_map.1 ht
  exact hFT.fns t0 _ rfl rfl (h t0 h0)

theorem colArgs_scale (k : Rat) (c : Ctx Rat) (b : Bool) : colArgs (scale k c) b = scale k (colArgs c b) := rfl
theorem rowArgs_scale (k : Rat) (c : Ctx Rat) (ins : Size (Option Rat)) :
    rowArgs (scale k c) (scale k ins) = scale k (rowArgs c ins) := rfl

/-- triples `(columns, rows, items)` -/
abbrev R3S (k : Rat) (FT : GridTrack Rat → Prop)
    (r' r : List (GridTrack Rat) × List (GridTrack Rat) × List (GItem Rat)) : Prop :=
  r' = scale k r ∧ TPs FT r.1 ∧ TPs FT r.2.1

include hFT hts hk

theorem gridRerunRowsG_sim (c : Ctx Rat) (av : Size (AvailableSpace Rat)) (ins : Size (Option Rat))
    (st : RunState Rat) (h1 : TPs FT st.axisTracks) (h2 : TPs FT st.otherAxisTracks) :
    GSim k (R3S k FT) (gridRerunRowsG ts' (scale k c) (scale k av) (scale k ins) (scale k st))
      (gridRerunRowsG ts c av ins st) := by
  unfold gridRerunRowsG
  simp only [rs_axisTracks, rs_otherAxisTracks, rs_items, scale_size_height, AvailableSpace.isDefinite_scale,
    any_scale_list k _ _ _ (gt_usesPercentage k)]
  refine GSim.bind (Q := Sc k) ?_ fun q' q hq => ?_
  · refine GSim.ite ?_ ?_
    · exact minContentChanged_sim hk _ _ _ _
    · exact GSim.pure (by simp only [Sc, scale_pair, clearCaches_scale, scale_bool])
  · rw [show q' = scale k q from hq]
    obtain ⟨b, l⟩ := q
    simp only [scale_pair, scale_bool]
    refine GSim.ite ?_ ?_
    · refine GSim.bind (hts { rowArgs c ins with innerNodeSize := ins } ⟨st.otherAxisTracks, st.axisTracks, l⟩ h2 h1)
        fun r' r hr => ?_
      obtain ⟨hr1, hr2, hr3⟩ := hr
      rw [hr1]
      exact GSim.pure ⟨rfl, hr3, hr2⟩
    · exact GSim.pure ⟨rfl, h1, h2⟩

theorem gridRerunBodyG_sim (c : Ctx Rat) (av : Size (AvailableSpace Rat)) (hb : Bool) (ins : Size (Option Rat))
    (rerun : Bool) (columns rows : List (GridTrack Rat)) (items : List (GItem Rat)) (h1 : TPs FT columns)
    (h2 : TPs FT rows) :
    GSim k (R3S k FT)
      (gridRerunBodyG ts' (scale k c) (scale k av) hb (scale k ins) rerun (scale k columns) (scale k rows)
        (scale k items))
      (gridRerunBodyG ts c av hb ins rerun columns rows items) := by
  unfold gridRerunBodyG
  refine GSim.ite ?_ ?_
  · refine GSim.bind (hts { colArgs c hb with innerNodeSize := ins, est := .baseSize } ⟨columns, rows, items⟩ h1 h2)
      fun r' r hr => ?_
    obtain ⟨hr1, hr2, hr3⟩ := hr
    rw [hr1]
    exact gridRerunRowsG_sim hFT hts hk c av ins r hr2 hr3
  · exact GSim.pure ⟨rfl, h1, h2⟩

theorem gridRerunKG_sim {β : Type} {Q : β → β → Prop} (c : Ctx Rat) (av : Size (AvailableSpace Rat)) (hb : Bool)
    (ccb : Size Rat) (ins : Size (Option Rat)) (columns rows : List (GridTrack Rat)) (items : List (GItem Rat))
    (h1 : TPs FT columns) (h2 : TPs FT rows)
    (k1' k1 : List (GridTrack Rat) × List (GridTrack Rat) × List (GItem Rat) → GM Rat β)
    (hk1 : ∀ r' r, R3S k FT r' r → GSim k Q (k1' r') (k1 r)) :
    GSim k Q
      (gridRerunKG ts' (scale k c) (scale k av) hb (scale k ccb) (scale k ins) (scale k columns) (scale k rows)
        (scale k items) k1')
      (gridRerunKG ts c av hb ccb ins columns rows items k1) := by
  unfold gridRerunKG
  simp only [cx_availableGridSpace, scale_size_width, scale_size_height, AvailableSpace.isDefinite_scale]
  have hc : (if (!c.availableGridSpace.width.isDefinite) = true then
        reresolvePercentTracks (scale k ccb.width) (scale k columns) else scale k columns) =
      scale k (if (!c.availableGridSpace.width.isDefinite) = true then reresolvePercentTracks ccb.width columns
        else columns) := by
    split
    · rw [reresolvePercentTracks_scale hk]
    · rfl
  have hr : (if (!c.availableGridSpace.height.isDefinite) = true then
        reresolvePercentTracks (scale k ccb.height) (scale k rows) else scale k rows) =
      scale k (if (!c.availableGridSpace.height.isDefinite) = true then reresolvePercentTracks ccb.height rows
        else rows) := by
    split
    · rw [reresolvePercentTracks_scale hk]
    · rfl
  have h1' : TPs FT (if (!c.availableGridSpace.width.isDefinite) = true then reresolvePercentTracks ccb.width columns
      else columns) := by
    split
    · exact TPs_reresolve hFT _ _ h1
    · exact h1
  have h2' : TPs FT (if (!c.availableGridSpace.height.isDefinite) = true then reresolvePercentTracks ccb.height rows
      else rows) := by
    split
    · exact TPs_reresolve hFT _ _ h2
    · exact h2
  rw [hc, hr]
  simp only [any_scale_list k _ _ _ (gt_usesPercentage k)]
  refine GSim.bind (Q := Sc k) ?_ fun q' q hq => ?_
  · refine GSim.ite ?_ ?_
    · exact minContentChanged_sim hk _ _ _ _
    · exact GSim.pure (by simp only [Sc, scale_pair, clearCaches_scale, scale_bool])
  · rw [show q' = scale k q from hq]
    obtain ⟨b, l⟩ := q
    simp only [scale_pair, scale_bool]
    exact GSim.bind (gridRerunBodyG_sim hFT hts hk c av hb ins b _ _ l h1' h2') hk1

theorem gridAfterSizingG_sim (c : Ctx Rat) (cs : List (GridChildStyle Rat)) (inp : LayoutInput Rat) (hb : Bool)
    (cc rc : GridPlacement.TrackCounts) (ins0 : Size (Option Rat)) (ics : Rat) (st : RunState Rat)
    (h1 : TPs FT st.axisTracks) (h2 : TPs FT st.otherAxisTracks) :
    GSim k (Sc k)
      (gridAfterSizingG ts' (scale k c) (scale k cs) (scale k inp) hb cc rc (scale k ins0) (scale k ics) (scale k st))
      (gridAfterSizingG ts c cs inp hb cc rc ins0 ics st) := by
  unfold gridAfterSizingG
  simp only [rs_axisTracks, rs_otherAxisTracks, rs_items, li_knownDimensions, li_runMode, li_availableSpace]
  have hsum : GridTracks.sumF ((scale k st.axisTracks).map (·.baseSize)) =
      scale k (GridTracks.sumF (st.axisTracks.map (·.baseSize))) :=
    gsumF_map_scale k _ _ _ (fun t => rfl)
  rw [hsum]
  have hins : ∀ x : Rat, (Size.mk (scale k ins0).width ((scale k ins0).height.or (some (scale k x))) :
      Size (Option Rat)) = scale k (Size.mk ins0.width (ins0.height.or (some x))) := by
    intro x
    obtain ⟨w, h⟩ := ins0
    cases h <;> rfl
  rw [hins, containerBorderBoxOf_scale hk, containerContentBoxOf_scale hk]
  refine GSim.ite ?_ ?_
  · exact GSim.pure (fromOuterSize_scale k _)
  · exact gridRerunKG_sim hFT hts hk c _ hb _ _ _ _ _ h2 h1 _ _ fun r' r hr => by
      rw [hr.1]
      exact gridFinish_sim hk c cs _ _ cc rc r

theorem gridSizingG_sim (c : Ctx Rat) (cs : List (GridChildStyle Rat)) (inp : LayoutInput Rat) (su : Setup Rat)
    (h1 : TPs FT su.columns) (h2 : TPs FT su.rows) :
    GSim k (Sc k) (gridSizingG ts' (scale k c) (scale k cs) (scale k inp) (scale k su)) (gridSizingG ts c cs inp su) := by
  unfold gridSizingG
  simp only [su_items, su_columns, su_rows, su_colCounts, su_rowCounts,
    any_scale_list k su.items (fun it => it.alignSelf == AlignItems.baseline)
      (fun it => it.alignSelf == AlignItems.baseline) (fun it => by rw [gi_alignSelf]), colArgs_scale]
  refine GSim.bind (hts (colArgs c (su.items.any fun it => it.alignSelf == .baseline)) ⟨su.columns, su.rows, su.items⟩ h1 h2)
    fun r' r hr => ?_
  obtain ⟨hr1, hr2, hr3⟩ := hr
  rw [hr1]
  simp only [rs_axisTracks, rs_otherAxisTracks, rs_items, cx_innerNodeSize]
  have hsum : GridTracks.sumF ((scale k r.axisTracks).map (·.baseSize)) =
      scale k (GridTracks.sumF (r.axisTracks.map (·.baseSize))) :=
    gsumF_map_scale k _ _ _ (fun t => rfl)
  rw [hsum]
  have hins : ∀ x : Rat, (Size.mk ((scale k c.innerNodeSize).width.or (some (scale k x)))
      (scale k c.innerNodeSize).height : Size (Option Rat)) =
      scale k (Size.mk (c.innerNodeSize.width.or (some x)) c.innerNodeSize.height) := by
    intro x
    generalize c.innerNodeSize = ins
    obtain ⟨w, h⟩ := ins
    cases w <;> rfl
  rw [hins, rowArgs_scale]
  have hit : (scale k r.items).map (fun it => { it with availableSpaceCache := none }) =
      scale k (r.items.map fun it => { it with availableSpaceCache := none }) :=
    map_scale_list k r.items _ _ fun it => rfl
  rw [hit]
  refine GSim.bind (hts (rowArgs c _) ⟨r.otherAxisTracks, r.axisTracks, r.items.map fun it => { it with availableSpaceCache := none }⟩ hr3 hr2)
    fun q' q hq => ?_
  obtain ⟨hq1, hq2, hq3⟩ := hq
  rw [hq1]
  exact gridAfterSizingG_sim hFT hts hk c cs inp _ _ _ _ _ q hq2 hq3

end C04
