/-
  C05 — definitions and helper lemmas: `display:none` subtrees under the tree-level evaluator (Model/Eval.lean).
  The property theorems are in Props/C05.lean.
-/
import TaffyVerif.Lemmas.EvalUnfold

set_option linter.unusedSectionVars false

namespace C05
open Eval
variable {α : Type} [Num α] {C : Type}

/-! ### definitions -/

/-- every numeric field of a layout is zero (`Layout::with_order(o)` for some paint order `o`) -/
def zeroFields (l : Layout α) : Prop :=
  l.location = ⟨0, 0⟩ ∧ l.size = ⟨0, 0⟩ ∧ l.contentSize = ⟨0, 0⟩ ∧ l.scrollbarSize = ⟨0, 0⟩ ∧
  l.border = ⟨0, 0, 0, 0⟩ ∧ l.padding = ⟨0, 0, 0, 0⟩ ∧ l.margin = ⟨0, 0, 0, 0⟩

theorem zeroFields_withOrder (o : Nat) : zeroFields (Layout.withOrder o : Layout α) :=
  ⟨rfl, rfl, rfl, rfl, rfl, rfl, rfl⟩

theorem zeroFields_new : zeroFields (Layout.new : Layout α) := zeroFields_withOrder 0

theorem zeroFields_iff (l : Layout α) : zeroFields l ↔ l = Layout.withOrder l.order := by
  constructor
  · intro h
    obtain ⟨h1, h2, h3, h4, h5, h6, h7⟩ := h
    cases l
    simp only [Layout.withOrder] at *
    simp only [h1, h2, h3, h4, h5, h6, h7]
  · intro h
    rw [h]
    exact zeroFields_withOrder _

/-- "program hidden-zero": every layout the program assigns to a `display:none` child is all-zero,
whatever answers its `call`s receive -/
def PHZ {β : Type} (styles : List (Style α)) : ProgM α β → Prop
  | .pure _ => True
  | .call _ _ k => ∀ o, PHZ styles (k o)
  | .setLayout i l k => (∀ s, styles[i]? = some s → s.display = .none → zeroFields l) ∧ ∀ u, PHZ styles (k u)

/-- the three container algorithms only ever assign all-zero layouts to `display:none` children -/
def AlgsPHZ (algs : Algs α) : Prop :=
  ∀ (style : Style α) (cs : List (Style α)) (inp : LayoutInput α),
    PHZ cs (algs.block style cs inp) ∧ PHZ cs (algs.flex style cs inp) ∧ PHZ cs (algs.grid style cs inp)

mutual
/-- the node and every descendant have an all-zero layout -/
def AllZ : NS α C → Prop
  | .mk _ l kids => zeroFields l ∧ AllZList kids
def AllZList : List (NS α C) → Prop
  | [] => True
  | k :: ks => AllZ k ∧ AllZList ks
end

mutual
/-- the tree invariant: every `display:none` child of a non-hidden node has an all-zero own layout, and everything
strictly below a `display:none` node is all-zero -/
def HZ : STree α → NS α C → Prop
  | .node s _ kids, .mk _ _ nk => (s.display = .none → AllZList nk) ∧ (s.display ≠ .none → HZKids kids nk)
def HZKids : List (STree α) → List (NS α C) → Prop
  | t :: ts, k :: ks => (t.style.display = .none → zeroFields k.layout) ∧ HZ t k ∧ HZKids ts ks
  | _, _ => True
end

mutual
/-- what `compute_hidden_layout` leaves behind: cleared caches and `Layout::with_order(0)` on the whole subtree -/
def HiddenOf (ci : CacheImpl α C) : NS α C → NS α C → Prop
  | .mk c _ kids, .mk c' l' kids' => c' = ci.clear c ∧ l' = Layout.withOrder 0 ∧ HiddenOfList ci kids kids'
def HiddenOfList (ci : CacheImpl α C) : List (NS α C) → List (NS α C) → Prop
  | [], [] => True
  | k :: ks, k' :: ks' => HiddenOf ci k k' ∧ HiddenOfList ci ks ks'
  | _, _ => False
end

/-- style lists that agree except where BOTH styles are `display:none` -/
def AgreeH : List (Style α) → List (Style α) → Prop
  | [], [] => True
  | x :: xs, y :: ys => (x = y ∨ (x.display = .none ∧ y.display = .none)) ∧ AgreeH xs ys
  | _, _ => False

/-- a container algorithm's program does not depend on anything about a `display:none` child but its presence -/
def HiddenBlind (algs : Algs α) : Prop :=
  ∀ (style : Style α) (xs ys : List (Style α)) (inp : LayoutInput α), AgreeH xs ys →
    algs.block style xs inp = algs.block style ys inp ∧
    algs.flex style xs inp = algs.flex style ys inp ∧
    algs.grid style xs inp = algs.grid style ys inp

mutual
/-- tree B is tree A with some `display:none` subtrees (below non-hidden nodes, or the root) replaced by other
`display:none` subtrees -/
def HidRel : STree α → STree α → Prop
  | .node sA cA kA, .node sB cB kB =>
    (sA.display = .none ∧ sB.display = .none) ∨
    (sA.display ≠ .none ∧ sA = sB ∧ cA = cB ∧ HidRelList kA kB)
def HidRelList : List (STree α) → List (STree α) → Prop
  | [], [] => True
  | a :: as, b :: bs => HidRel a b ∧ HidRelList as bs
  | _, _ => False
end

mutual
/-- the state relation along tree A: equal cache and own layout everywhere outside hidden subtrees (the hidden
node itself included); below a hidden node nothing is required -/
def SimNS : STree α → NS α C → NS α C → Prop
  | .node s _ kids, .mk cA lA kA, .mk cB lB kB =>
    cA = cB ∧ lA = lB ∧ (s.display ≠ .none → SimNSList kids kA kB)
def SimNSList : List (STree α) → List (NS α C) → List (NS α C) → Prop
  | [], [], [] => True
  | t :: ts, a :: as, b :: bs => SimNS t a b ∧ SimNSList ts as bs
  | _, _, _ => False
end

/-! ### `hiddenLayout` -/

mutual
theorem hiddenLayout_of (ci : CacheImpl α C) : ∀ ns : NS α C, HiddenOf ci ns (hiddenLayout ci ns)
  | .mk c l kids => by
    simp only [hiddenLayout, HiddenOf, true_and]
    exact hiddenLayoutList_of ci kids
theorem hiddenLayoutList_of (ci : CacheImpl α C) : ∀ ks : List (NS α C), HiddenOfList ci ks (hiddenLayoutList ci ks)
  | [] => by simp only [hiddenLayoutList, HiddenOfList]
  | k :: ks => by
    simp only [hiddenLayoutList, HiddenOfList]
    exact ⟨hiddenLayout_of ci k, hiddenLayoutList_of ci ks⟩
end

mutual
theorem HiddenOf_AllZ (ci : CacheImpl α C) : ∀ a b : NS α C, HiddenOf ci a b → AllZ b
  | .mk _ _ kids, .mk _ _ kids', h => by
    simp only [HiddenOf] at h
    simp only [AllZ]
    exact ⟨h.2.1 ▸ zeroFields_withOrder 0, HiddenOfList_AllZ ci kids kids' h.2.2⟩
theorem HiddenOfList_AllZ (ci : CacheImpl α C) : ∀ a b : List (NS α C), HiddenOfList ci a b → AllZList b
  | [], [], _ => trivial
  | k :: ks, k' :: ks', h => by
    simp only [HiddenOfList] at h
    exact ⟨HiddenOf_AllZ ci k k' h.1, HiddenOfList_AllZ ci ks ks' h.2⟩
  | [], _ :: _, h => by simp only [HiddenOfList] at h
  | _ :: _, [], h => by simp only [HiddenOfList] at h
end

theorem hiddenLayout_AllZ (ci : CacheImpl α C) (ns : NS α C) : AllZ (hiddenLayout ci ns) :=
  HiddenOf_AllZ ci _ _ (hiddenLayout_of ci ns)

theorem hiddenLayoutList_AllZ (ci : CacheImpl α C) (ks : List (NS α C)) : AllZList (hiddenLayoutList ci ks) :=
  HiddenOfList_AllZ ci _ _ (hiddenLayoutList_of ci ks)

theorem hiddenLayout_layout (ci : CacheImpl α C) (ns : NS α C) : (hiddenLayout ci ns).layout = Layout.withOrder 0 := by
  cases ns; simp only [hiddenLayout, NS.layout]

/-! ### `AllZ` implies `HZ` -/

theorem AllZ_layout : ∀ ns : NS α C, AllZ ns → zeroFields ns.layout
  | .mk _ _ _, h => by simp only [AllZ] at h; exact h.1

mutual
theorem AllZ_HZ : ∀ (t : STree α) (ns : NS α C), AllZ ns → HZ t ns
  | .node s _ kids, .mk _ _ nk, h => by
    simp only [AllZ] at h
    simp only [HZ]
    exact ⟨fun _ => h.2, fun _ => AllZList_HZKids kids nk h.2⟩
theorem AllZList_HZKids : ∀ (ts : List (STree α)) (ks : List (NS α C)), AllZList ks → HZKids ts ks
  | [], _, _ => by simp only [HZKids]
  | _ :: _, [], _ => by simp only [HZKids]
  | t :: ts, k :: ks, h => by
    simp only [AllZList] at h
    simp only [HZKids]
    exact ⟨fun _ => AllZ_layout k h.1, AllZ_HZ t k h.1, AllZList_HZKids ts ks h.2⟩
end

/-! ### `HZ` is preserved -/

/-- `HZ` does not look at the node's own cache and layout -/
theorem HZ_own (t : STree α) (c c' : C) (l l' : Layout α) (nk : List (NS α C)) :
    HZ t (.mk c l nk) → HZ t (.mk c' l' nk) := by
  cases t
  simp only [HZ]
  exact id

theorem HZKids_get : ∀ (ts : List (STree α)) (ks : List (NS α C)) (i : Nat) (t : STree α) (k : NS α C),
    HZKids ts ks → ts[i]? = some t → ks[i]? = some k → (t.style.display = .none → zeroFields k.layout) ∧ HZ t k
  | [], _, _, _, _, _, h, _ => by simp at h
  | _ :: _, [], _, _, _, _, _, h => by simp at h
  | a :: as, b :: bs, 0, t, k, hz, h1, h2 => by
    simp only [List.getElem?_cons_zero, Option.some.injEq] at h1 h2
    subst h1; subst h2
    simp only [HZKids] at hz
    exact ⟨hz.1, hz.2.1⟩
  | a :: as, b :: bs, i + 1, t, k, hz, h1, h2 => by
    simp only [List.getElem?_cons_succ] at h1 h2
    simp only [HZKids] at hz
    exact HZKids_get as bs i t k hz.2.2 h1 h2

theorem HZKids_set : ∀ (ts : List (STree α)) (ks : List (NS α C)) (i : Nat) (k' : NS α C),
    HZKids ts ks → (∀ t, ts[i]? = some t → (t.style.display = .none → zeroFields k'.layout) ∧ HZ t k') →
    HZKids ts (ks.set i k')
  | [], _, _, _, _, _ => by simp only [HZKids]
  | _ :: _, [], _, _, _, _ => by simp only [List.set_nil, HZKids]
  | a :: as, b :: bs, 0, k', hz, h => by
    simp only [HZKids] at hz
    simp only [List.set_cons_zero, HZKids]
    have := h a (by simp)
    exact ⟨this.1, this.2, hz.2.2⟩
  | a :: as, b :: bs, i + 1, k', hz, h => by
    simp only [HZKids] at hz
    simp only [List.set_cons_succ, HZKids]
    refine ⟨hz.1, hz.2.1, HZKids_set as bs i k' hz.2.2 ?_⟩
    intro t ht
    exact h t (by simpa using ht)

/-- the contract of the recursive call used in the induction on fuel -/
def EvHZ (ev : STree α → NS α C → LayoutInput α → LayoutOutput α × NS α C) : Prop :=
  ∀ t k cin, (HZ t k → HZ t (ev t k cin).2) ∧ (zeroFields k.layout → zeroFields (ev t k cin).2.layout)

theorem evalChildOf_HZ (ev : STree α → NS α C → LayoutInput α → LayoutOutput α × NS α C) (hev : EvHZ ev)
    (kids : List (STree α)) (i : Nat) (cin : LayoutInput α) (ks : List (NS α C)) (hz : HZKids kids ks) :
    HZKids kids (evalChildOf ev kids i cin ks).2 := by
  unfold evalChildOf
  cases h1 : kids[i]? with
  | none => exact hz
  | some t =>
    cases h2 : ks[i]? with
    | none => exact hz
    | some k =>
      simp only
      obtain ⟨g1, g2⟩ := HZKids_get kids ks i t k hz h1 h2
      apply HZKids_set kids ks i _ hz
      intro t' ht'
      rw [h1] at ht'
      cases ht'
      exact ⟨fun hd => (hev t k cin).2 (g1 hd), (hev t k cin).1 g2⟩

theorem setLayoutAt_HZ (kids : List (STree α)) (ks : List (NS α C)) (i : Nat) (l : Layout α)
    (hl : ∀ t, kids[i]? = some t → t.style.display = .none → zeroFields l) (hz : HZKids kids ks) :
    HZKids kids (setLayoutAt ks i l) := by
  unfold setLayoutAt
  cases h2 : ks[i]? with
  | none => exact hz
  | some k =>
    cases k with
    | mk c l0 kk =>
      simp only
      apply HZKids_set kids ks i _ hz
      intro t ht
      obtain ⟨_, g2⟩ := HZKids_get kids ks i t _ hz ht h2
      exact ⟨fun hd => hl t ht hd, HZ_own t c c l0 l kk g2⟩

theorem runProg_HZ {β : Type} (ev : STree α → NS α C → LayoutInput α → LayoutOutput α × NS α C) (hev : EvHZ ev)
    (kids : List (STree α)) (p : ProgM α β) :
    PHZ (kids.map STree.style) p → ∀ ks, HZKids kids ks → HZKids kids (runProg (evalChildOf ev kids) p ks).2 := by
  induction p with
  | pure b => intro _ ks hz; exact hz
  | call i cin k ih =>
    intro hp ks hz
    simp only [PHZ] at hp
    simp only [runProg]
    exact ih _ (hp _) _ (evalChildOf_HZ ev hev kids i cin ks hz)
  | setLayout i l k ih =>
    intro hp ks hz
    simp only [PHZ] at hp
    simp only [runProg]
    apply ih () (hp.2 ()) _
    apply setLayoutAt_HZ kids ks i l _ hz
    intro t ht hd
    apply hp.1 t.style _ hd
    simp only [List.getElem?_map, ht, Option.map_some]

theorem runOn_HZ (ev : STree α → NS α C → LayoutInput α → LayoutOutput α × NS α C) (hev : EvHZ ev)
    (s : Style α) (ctx : Option (MeasureSpec α)) (kids : List (STree α)) (ns : NS α C) (p : ProgM α (LayoutOutput α))
    (hp : PHZ (kids.map STree.style) p) (hd : s.display ≠ .none) (hz : HZ (.node s ctx kids) ns) :
    HZ (.node s ctx kids) (runOn (evalChildOf ev kids) ns p).2 ∧ (runOn (evalChildOf ev kids) ns p).2.layout = ns.layout := by
  cases ns with
  | mk c l nk =>
    simp only [HZ] at hz
    simp only [runOn, HZ, NS.layout, and_true]
    exact ⟨fun h => absurd h hd, fun _ => runProg_HZ ev hev kids p hp nk (hz.2 hd)⟩

theorem storeOf_HZ (ci : CacheImpl α C) (inp : LayoutInput α) (t : STree α) (r : LayoutOutput α × NS α C)
    (h : HZ t r.2) : HZ t (storeOf ci inp r).2 := by
  obtain ⟨o, ns⟩ := r
  cases ns with
  | mk c l nk => rw [storeOf_mk]; exact HZ_own t _ _ _ _ _ h

theorem storeOf_layout (ci : CacheImpl α C) (inp : LayoutInput α) (r : LayoutOutput α × NS α C) :
    (storeOf ci inp r).2.layout = r.2.layout := by
  obtain ⟨o, ns⟩ := r
  cases ns with
  | mk c l nk => rw [storeOf_mk]; rfl

theorem computeOf_HZ (ci : CacheImpl α C) (sel : Display → Bool → Option Gen.Facts.Callee) (algs : Algs α)
    (hsel : ∀ b, sel .none b = some .hidden) (hp : AlgsPHZ algs)
    (ev : STree α → NS α C → LayoutInput α → LayoutOutput α × NS α C) (hev : EvHZ ev)
    (s : Style α) (ctx : Option (MeasureSpec α)) (kids : List (STree α)) (ns : NS α C) (inp : LayoutInput α) :
    (HZ (.node s ctx kids) ns → HZ (.node s ctx kids) (computeOf ci sel algs ev s ctx kids ns inp).2) ∧
    (zeroFields ns.layout → zeroFields (computeOf ci sel algs ev s ctx kids ns inp).2.layout) := by
  have hdisp : ∀ c, sel s.display (!kids.isEmpty) = some c → c ≠ .hidden → s.display ≠ .none := by
    intro c hc hne hd
    rw [hd, hsel] at hc
    cases hc
    exact hne rfl
  unfold computeOf
  cases hc : sel s.display (!kids.isEmpty) with
  | none => exact ⟨id, id⟩
  | some c =>
    cases c with
    | hidden =>
      simp only
      exact ⟨fun _ => AllZ_HZ _ _ (hiddenLayout_AllZ ci ns),
             fun _ => by rw [hiddenLayout_layout]; exact zeroFields_withOrder 0⟩
    | leaf => exact ⟨id, id⟩
    | block =>
      simp only
      have hd := hdisp _ hc (by decide)
      refine ⟨fun hz => (runOn_HZ ev hev s ctx kids ns _ (hp s _ inp).1 hd hz).1, fun hl => ?_⟩
      cases ns with
      | mk c l nk => exact hl
    | flex =>
      simp only
      have hd := hdisp _ hc (by decide)
      refine ⟨fun hz => (runOn_HZ ev hev s ctx kids ns _ (hp s _ inp).2.1 hd hz).1, fun hl => ?_⟩
      cases ns with
      | mk c l nk => exact hl
    | grid =>
      simp only
      have hd := hdisp _ hc (by decide)
      refine ⟨fun hz => (runOn_HZ ev hev s ctx kids ns _ (hp s _ inp).2.2 hd hz).1, fun hl => ?_⟩
      cases ns with
      | mk c l nk => exact hl

/-- **the evaluator meets the contract at every fuel** -/
theorem eval_EvHZ (ci : CacheImpl α C) (sel : Display → Bool → Option Gen.Facts.Callee) (algs : Algs α)
    (hsel : ∀ b, sel .none b = some .hidden) (hp : AlgsPHZ algs) :
    ∀ fuel, EvHZ (evalNodeWith ci sel algs fuel) := by
  intro fuel
  induction fuel with
  | zero =>
    intro t k cin
    rw [eval_zero]
    exact ⟨id, id⟩
  | succ fuel ih =>
    intro t k cin
    cases t with
    | node s ctx kids =>
      rw [eval_succ]
      split
      · exact ⟨fun _ => AllZ_HZ _ _ (hiddenLayout_AllZ ci k),
               fun _ => by rw [hiddenLayout_layout]; exact zeroFields_withOrder 0⟩
      · split
        · exact ⟨id, id⟩
        · obtain ⟨g1, g2⟩ := computeOf_HZ ci sel algs hsel hp _ ih s ctx kids k cin
          exact ⟨fun hz => storeOf_HZ ci cin _ _ (g1 hz), fun hl => by rw [storeOf_layout]; exact g2 hl⟩

/-! ### fresh state -/

mutual
theorem init_AllZ (ci : CacheImpl α C) : ∀ t : STree α, AllZ (NS.init ci t)
  | .node _ _ kids => by
    simp only [NS.init, AllZ]
    exact ⟨zeroFields_new, initList_AllZ ci kids⟩
theorem initList_AllZ (ci : CacheImpl α C) : ∀ ts : List (STree α), AllZList (NS.initList ci ts)
  | [] => by simp only [NS.initList, AllZList]
  | t :: ts => by
    simp only [NS.initList, AllZList]
    exact ⟨init_AllZ ci t, initList_AllZ ci ts⟩
end

/-! ### `hidden_invisible`: list lemmas -/

theorem HidRelList_agree : ∀ (kA kB : List (STree α)), HidRelList kA kB →
    AgreeH (kA.map STree.style) (kB.map STree.style)
  | [], [], _ => by simp only [List.map_nil, AgreeH]
  | [], _ :: _, h => by simp only [HidRelList] at h
  | _ :: _, [], h => by simp only [HidRelList] at h
  | .node sA cA ka :: as, .node sB cB kb :: bs, h => by
    simp only [HidRelList, HidRel] at h
    simp only [List.map_cons, AgreeH, STree.style]
    refine ⟨?_, HidRelList_agree as bs h.2⟩
    rcases h.1 with h1 | h1
    · exact Or.inr h1
    · exact Or.inl h1.2.1

theorem HidRelList_isEmpty : ∀ (kA kB : List (STree α)), HidRelList kA kB → kA.isEmpty = kB.isEmpty
  | [], [], _ => rfl
  | [], _ :: _, h => by simp only [HidRelList] at h
  | _ :: _, [], h => by simp only [HidRelList] at h
  | _ :: _, _ :: _, _ => rfl

theorem HidRelList_get : ∀ (kA kB : List (STree α)) (i : Nat), HidRelList kA kB →
    (kA[i]? = none ∧ kB[i]? = none) ∨ (∃ a b, kA[i]? = some a ∧ kB[i]? = some b ∧ HidRel a b)
  | [], [], _, _ => Or.inl ⟨by simp, by simp⟩
  | [], _ :: _, _, h => by simp only [HidRelList] at h
  | _ :: _, [], _, h => by simp only [HidRelList] at h
  | a :: as, b :: bs, 0, h => by
    simp only [HidRelList] at h
    exact Or.inr ⟨a, b, by simp, by simp, h.1⟩
  | a :: as, b :: bs, i + 1, h => by
    simp only [HidRelList] at h
    simpa only [List.getElem?_cons_succ] using HidRelList_get as bs i h.2

theorem SimNSList_get : ∀ (ts : List (STree α)) (as bs : List (NS α C)) (i : Nat), SimNSList ts as bs →
    (ts[i]? = none ∧ as[i]? = none ∧ bs[i]? = none) ∨
    (∃ t a b, ts[i]? = some t ∧ as[i]? = some a ∧ bs[i]? = some b ∧ SimNS t a b)
  | [], [], [], _, _ => Or.inl ⟨by simp, by simp, by simp⟩
  | [], [], _ :: _, _, h => by simp only [SimNSList] at h
  | [], _ :: _, _, _, h => by simp only [SimNSList] at h
  | _ :: _, [], _, _, h => by simp only [SimNSList] at h
  | _ :: _, _ :: _, [], _, h => by simp only [SimNSList] at h
  | t :: ts, a :: as, b :: bs, 0, h => by
    simp only [SimNSList] at h
    exact Or.inr ⟨t, a, b, by simp, by simp, by simp, h.1⟩
  | t :: ts, a :: as, b :: bs, i + 1, h => by
    simp only [SimNSList] at h
    simpa only [List.getElem?_cons_succ] using SimNSList_get ts as bs i h.2

theorem SimNSList_set : ∀ (ts : List (STree α)) (as bs : List (NS α C)) (i : Nat) (a' b' : NS α C),
    SimNSList ts as bs → (∀ t, ts[i]? = some t → SimNS t a' b') → SimNSList ts (as.set i a') (bs.set i b')
  | [], [], [], _, _, _, _, _ => by simp only [List.set_nil, SimNSList]
  | [], [], _ :: _, _, _, _, h, _ => by simp only [SimNSList] at h
  | [], _ :: _, _, _, _, _, h, _ => by simp only [SimNSList] at h
  | _ :: _, [], _, _, _, _, h, _ => by simp only [SimNSList] at h
  | _ :: _, _ :: _, [], _, _, _, h, _ => by simp only [SimNSList] at h
  | t :: ts, a :: as, b :: bs, 0, a', b', h, h' => by
    simp only [SimNSList] at h
    simp only [List.set_cons_zero, SimNSList]
    exact ⟨h' t (by simp), h.2⟩
  | t :: ts, a :: as, b :: bs, i + 1, a', b', h, h' => by
    simp only [SimNSList] at h
    simp only [List.set_cons_succ, SimNSList]
    refine ⟨h.1, SimNSList_set ts as bs i a' b' h.2 ?_⟩
    intro t' ht'
    exact h' t' (by simpa using ht')

mutual
theorem SimNS_hidden (ci : CacheImpl α C) : ∀ (t : STree α) (a b : NS α C), SimNS t a b →
    SimNS t (hiddenLayout ci a) (hiddenLayout ci b)
  | .node s _ kids, .mk cA lA kA, .mk cB lB kB, h => by
    simp only [SimNS] at h
    simp only [hiddenLayout, SimNS, true_and]
    exact ⟨by rw [h.1], fun hd => SimNSList_hidden ci kids kA kB (h.2.2 hd)⟩
theorem SimNSList_hidden (ci : CacheImpl α C) : ∀ (ts : List (STree α)) (as bs : List (NS α C)), SimNSList ts as bs →
    SimNSList ts (hiddenLayoutList ci as) (hiddenLayoutList ci bs)
  | [], [], [], _ => by simp only [hiddenLayoutList, SimNSList]
  | [], [], _ :: _, h => by simp only [SimNSList] at h
  | [], _ :: _, _, h => by simp only [SimNSList] at h
  | _ :: _, [], _, h => by simp only [SimNSList] at h
  | _ :: _, _ :: _, [], h => by simp only [SimNSList] at h
  | t :: ts, a :: as, b :: bs, h => by
    simp only [SimNSList] at h
    simp only [hiddenLayoutList, SimNSList]
    exact ⟨SimNS_hidden ci t a b h.1, SimNSList_hidden ci ts as bs h.2⟩
end

/-! ### `hidden_invisible`: one node -/

/-- the contract of the recursive call: related trees and states give equal outputs and related states -/
def EvSim (ev : STree α → NS α C → LayoutInput α → LayoutOutput α × NS α C) : Prop :=
  ∀ tA tB a b cin, HidRel tA tB → SimNS tA a b →
    (ev tA a cin).1 = (ev tB b cin).1 ∧ SimNS tA (ev tA a cin).2 (ev tB b cin).2

theorem evalChildOf_sim (ev : STree α → NS α C → LayoutInput α → LayoutOutput α × NS α C) (hev : EvSim ev)
    (kA kB : List (STree α)) (hr : HidRelList kA kB) (i : Nat) (cin : LayoutInput α) (ksA ksB : List (NS α C))
    (hs : SimNSList kA ksA ksB) :
    (evalChildOf ev kA i cin ksA).1 = (evalChildOf ev kB i cin ksB).1 ∧
    SimNSList kA (evalChildOf ev kA i cin ksA).2 (evalChildOf ev kB i cin ksB).2 := by
  unfold evalChildOf
  rcases HidRelList_get kA kB i hr with ⟨h1, h2⟩ | ⟨tA, tB, h1, h2, hrel⟩
  · rw [h1, h2]
    exact ⟨rfl, hs⟩
  · rcases SimNSList_get kA ksA ksB i hs with ⟨g1, _, _⟩ | ⟨t, a, b, g1, g2, g3, hsim⟩
    · rw [h1] at g1; cases g1
    · rw [h1] at g1; cases g1
      rw [h1, h2, g2, g3]
      simp only
      obtain ⟨e1, e2⟩ := hev tA tB a b cin hrel hsim
      refine ⟨e1, SimNSList_set kA ksA ksB i _ _ hs ?_⟩
      intro t' ht'
      rw [h1] at ht'; cases ht'
      exact e2

theorem SimNS_own (t : STree α) (c c' : C) (l l' : Layout α) (ka kb : List (NS α C)) :
    SimNS t (.mk c l ka) (.mk c l kb) → SimNS t (.mk c' l' ka) (.mk c' l' kb) := by
  cases t
  simp only [SimNS, true_and]
  exact id

theorem setLayoutAt_sim (ts : List (STree α)) (ksA ksB : List (NS α C)) (i : Nat) (l : Layout α)
    (hs : SimNSList ts ksA ksB) : SimNSList ts (setLayoutAt ksA i l) (setLayoutAt ksB i l) := by
  unfold setLayoutAt
  rcases SimNSList_get ts ksA ksB i hs with ⟨_, g2, g3⟩ | ⟨t, a, b, g1, g2, g3, hsim⟩
  · rw [g2, g3]; exact hs
  · rw [g2, g3]
    cases a with
    | mk cA lA kA =>
      cases b with
      | mk cB lB kB =>
        simp only
        apply SimNSList_set ts ksA ksB i _ _ hs
        intro t' ht'
        rw [g1] at ht'; cases ht'
        cases t with
        | node s ctx kids =>
          simp only [SimNS] at hsim ⊢
          exact ⟨hsim.1, trivial, hsim.2.2⟩

theorem runProg_sim {β : Type} (ev : STree α → NS α C → LayoutInput α → LayoutOutput α × NS α C) (hev : EvSim ev)
    (kA kB : List (STree α)) (hr : HidRelList kA kB) (p : ProgM α β) :
    ∀ ksA ksB, SimNSList kA ksA ksB →
      (runProg (evalChildOf ev kA) p ksA).1 = (runProg (evalChildOf ev kB) p ksB).1 ∧
      SimNSList kA (runProg (evalChildOf ev kA) p ksA).2 (runProg (evalChildOf ev kB) p ksB).2 := by
  induction p with
  | pure b => intro ksA ksB hs; exact ⟨rfl, hs⟩
  | call i cin k ih =>
    intro ksA ksB hs
    simp only [runProg]
    obtain ⟨e1, e2⟩ := evalChildOf_sim ev hev kA kB hr i cin ksA ksB hs
    rw [e1]
    exact ih _ _ _ e2
  | setLayout i l k ih =>
    intro ksA ksB hs
    simp only [runProg]
    exact ih () _ _ (setLayoutAt_sim kA ksA ksB i l hs)

theorem runOn_sim (ev : STree α → NS α C → LayoutInput α → LayoutOutput α × NS α C) (hev : EvSim ev)
    (s : Style α) (ctx : Option (MeasureSpec α)) (kA kB : List (STree α)) (hr : HidRelList kA kB)
    (hd : s.display ≠ .none) (a b : NS α C) (p : ProgM α (LayoutOutput α)) (hs : SimNS (.node s ctx kA) a b) :
    (runOn (evalChildOf ev kA) a p).1 = (runOn (evalChildOf ev kB) b p).1 ∧
    SimNS (.node s ctx kA) (runOn (evalChildOf ev kA) a p).2 (runOn (evalChildOf ev kB) b p).2 := by
  cases a with
  | mk cA lA ksA =>
    cases b with
    | mk cB lB ksB =>
      simp only [SimNS] at hs
      obtain ⟨e1, e2⟩ := runProg_sim ev hev kA kB hr p ksA ksB (hs.2.2 hd)
      simp only [runOn, SimNS]
      exact ⟨e1, hs.1, hs.2.1, fun _ => e2⟩

theorem storeOf_sim (ci : CacheImpl α C) (inp : LayoutInput α) (t : STree α) (rA rB : LayoutOutput α × NS α C)
    (h1 : rA.1 = rB.1) (h2 : SimNS t rA.2 rB.2) :
    (storeOf ci inp rA).1 = (storeOf ci inp rB).1 ∧ SimNS t (storeOf ci inp rA).2 (storeOf ci inp rB).2 := by
  obtain ⟨oA, a⟩ := rA
  obtain ⟨oB, b⟩ := rB
  simp only at h1 h2
  subst h1
  cases a with
  | mk cA lA ksA =>
    cases b with
    | mk cB lB ksB =>
      rw [storeOf_mk, storeOf_mk]
      cases t with
      | node s ctx kids =>
        simp only [SimNS] at h2 ⊢
        exact ⟨trivial, by rw [h2.1], h2.2.1, h2.2.2⟩

theorem SimNS_cache : ∀ (t : STree α) (a b : NS α C), SimNS t a b → a.cache = b.cache
  | .node _ _ _, .mk _ _ _, .mk _ _ _, h => by simp only [SimNS] at h; exact h.1

theorem computeOf_sim (ci : CacheImpl α C) (sel : Display → Bool → Option Gen.Facts.Callee) (algs : Algs α)
    (hsel : ∀ b, sel .none b = some .hidden) (hb : HiddenBlind algs)
    (ev : STree α → NS α C → LayoutInput α → LayoutOutput α × NS α C) (hev : EvSim ev)
    (sA sB : Style α) (cA cB : Option (MeasureSpec α)) (kA kB : List (STree α)) (a b : NS α C) (inp : LayoutInput α)
    (hr : HidRel (.node sA cA kA) (.node sB cB kB)) (hs : SimNS (.node sA cA kA) a b) :
    (computeOf ci sel algs ev sA cA kA a inp).1 = (computeOf ci sel algs ev sB cB kB b inp).1 ∧
    SimNS (.node sA cA kA) (computeOf ci sel algs ev sA cA kA a inp).2 (computeOf ci sel algs ev sB cB kB b inp).2 := by
  simp only [HidRel] at hr
  rcases hr with ⟨hA, hB⟩ | ⟨hd, hss, hcc, hkk⟩
  · unfold computeOf
    rw [hA, hB, hsel, hsel]
    exact ⟨rfl, SimNS_hidden ci _ a b hs⟩
  · subst hss; subst hcc
    obtain ⟨hblock, hflex, hgrid⟩ := hb sA _ _ inp (HidRelList_agree kA kB hkk)
    unfold computeOf
    rw [← HidRelList_isEmpty kA kB hkk, ← hblock, ← hflex, ← hgrid]
    cases sel sA.display (!kA.isEmpty) with
    | none => exact ⟨rfl, hs⟩
    | some c =>
      cases c with
      | hidden => exact ⟨rfl, SimNS_hidden ci _ a b hs⟩
      | leaf => exact ⟨rfl, hs⟩
      | block => exact runOn_sim ev hev sA cA kA kB hkk hd a b _ hs
      | flex => exact runOn_sim ev hev sA cA kA kB hkk hd a b _ hs
      | grid => exact runOn_sim ev hev sA cA kA kB hkk hd a b _ hs

/-- **related trees and states are evaluated alike at every fuel** -/
theorem eval_EvSim (ci : CacheImpl α C) (sel : Display → Bool → Option Gen.Facts.Callee) (algs : Algs α)
    (hsel : ∀ b, sel .none b = some .hidden) (hb : HiddenBlind algs) :
    ∀ fuel, EvSim (evalNodeWith ci sel algs fuel) := by
  intro fuel
  induction fuel with
  | zero =>
    intro tA tB a b cin _ hs
    rw [eval_zero, eval_zero]
    exact ⟨rfl, hs⟩
  | succ fuel ih =>
    intro tA tB a b cin hr hs
    cases tA with
    | node sA cA kA =>
      cases tB with
      | node sB cB kB =>
        rw [eval_succ, eval_succ, ← SimNS_cache _ a b hs]
        split
        · exact ⟨rfl, SimNS_hidden ci _ a b hs⟩
        · cases ci.get a.cache cin with
          | some out => exact ⟨rfl, hs⟩
          | none =>
            simp only
            obtain ⟨e1, e2⟩ := computeOf_sim ci sel algs hsel hb _ ih sA sB cA cB kA kB a b cin hr hs
            exact storeOf_sim ci cin _ _ _ e1 e2

/-! ### fresh state -/

mutual
theorem init_sim (ci : CacheImpl α C) : ∀ (tA tB : STree α), HidRel tA tB → SimNS tA (NS.init ci tA) (NS.init ci tB)
  | .node sA cA kA, .node sB cB kB, h => by
    simp only [HidRel] at h
    simp only [NS.init, SimNS, true_and]
    intro hd
    rcases h with ⟨hA, _⟩ | ⟨_, _, _, hkk⟩
    · exact absurd hA hd
    · exact initList_sim ci kA kB hkk
theorem initList_sim (ci : CacheImpl α C) : ∀ (kA kB : List (STree α)), HidRelList kA kB →
    SimNSList kA (NS.initList ci kA) (NS.initList ci kB)
  | [], [], _ => by simp only [NS.initList, SimNSList]
  | [], _ :: _, h => by simp only [HidRelList] at h
  | _ :: _, [], h => by simp only [HidRelList] at h
  | a :: as, b :: bs, h => by
    simp only [HidRelList] at h
    simp only [NS.initList, SimNSList]
    exact ⟨init_sim ci a b h.1, initList_sim ci as bs h.2⟩
end

/-! ### reading the invariants at a path (child indices from the root) -/

/-- the per-node state at a path -/
def nsAt : NS α C → List Nat → Option (NS α C)
  | ns, [] => some ns
  | .mk _ _ kids, i :: p =>
    match kids[i]? with
    | some k => nsAt k p
    | none => none

/-- some node on the path from the root to the node at `p` (both ends included) is `display:none` -/
def HiddenOnPath : STree α → List Nat → Prop
  | .node s _ _, [] => s.display = .none
  | .node s _ kids, i :: p =>
    s.display = .none ∨
    match kids[i]? with
    | some c => HiddenOnPath c p
    | none => False

/-- no proper ancestor of the node at `p` is `display:none` (the node itself may be) -/
def VisibleTo : STree α → List Nat → Prop
  | _, [] => True
  | .node s _ kids, i :: p =>
    s.display ≠ .none ∧
    match kids[i]? with
    | some c => VisibleTo c p
    | none => True

theorem AllZList_get : ∀ (ks : List (NS α C)) (i : Nat) (k : NS α C), AllZList ks → ks[i]? = some k → AllZ k
  | [], _, _, _, h => by simp at h
  | a :: as, 0, k, hz, h => by
    simp only [List.getElem?_cons_zero, Option.some.injEq] at h
    subst h
    exact hz.1
  | a :: as, i + 1, k, hz, h => by
    simp only [List.getElem?_cons_succ] at h
    exact AllZList_get as i k hz.2 h

theorem AllZ_at : ∀ (p : List Nat) (ns k : NS α C), AllZ ns → nsAt ns p = some k → zeroFields k.layout
  | [], ns, k, hz, h => by
    simp only [nsAt, Option.some.injEq] at h
    subst h
    exact AllZ_layout _ hz
  | i :: p, .mk _ _ kids, k, hz, h => by
    simp only [AllZ] at hz
    simp only [nsAt] at h
    cases hk : kids[i]? with
    | none => rw [hk] at h; cases h
    | some k' =>
      rw [hk] at h
      exact AllZ_at p k' k (AllZList_get kids i k' hz.2 hk) h

theorem HZ_at : ∀ (p : List Nat) (t : STree α) (ns k : NS α C), HZ t ns → p ≠ [] → HiddenOnPath t p →
    nsAt ns p = some k → zeroFields k.layout
  | [], _, _, _, _, hp, _, _ => absurd rfl hp
  | i :: q, .node s ctx kids, .mk c l nk, k, hz, _, hh, h => by
    simp only [HZ] at hz
    simp only [nsAt] at h
    simp only [HiddenOnPath] at hh
    cases hk : nk[i]? with
    | none => rw [hk] at h; cases h
    | some k' =>
      rw [hk] at h
      by_cases hd : s.display = .none
      · exact AllZ_at q k' k (AllZList_get nk i k' (hz.1 hd) hk) h
      · rcases hh with hh | hh
        · exact absurd hh hd
        · cases hc : kids[i]? with
          | none => rw [hc] at hh; exact hh.elim
          | some c =>
            rw [hc] at hh
            obtain ⟨g1, g2⟩ := HZKids_get kids nk i c k' (hz.2 hd) hc hk
            cases q with
            | nil =>
              simp only [nsAt, Option.some.injEq] at h
              subst h
              cases c with
              | node s' _ _ =>
                simp only [HiddenOnPath] at hh
                exact g1 hh
            | cons j q' => exact HZ_at (j :: q') c k' k g2 (by simp) hh h

theorem HiddenOfList_get (ci : CacheImpl α C) : ∀ (as bs : List (NS α C)) (i : Nat) (b : NS α C),
    HiddenOfList ci as bs → bs[i]? = some b → ∃ a, as[i]? = some a ∧ HiddenOf ci a b
  | [], [], _, _, _, h => by simp at h
  | [], _ :: _, _, _, h, _ => by simp only [HiddenOfList] at h
  | _ :: _, [], _, _, h, _ => by simp only [HiddenOfList] at h
  | a :: as, b' :: bs, 0, b, hz, h => by
    simp only [List.getElem?_cons_zero, Option.some.injEq] at h
    subst h
    simp only [HiddenOfList] at hz
    exact ⟨a, by simp, hz.1⟩
  | a :: as, b' :: bs, i + 1, b, hz, h => by
    simp only [List.getElem?_cons_succ] at h
    simp only [HiddenOfList] at hz
    simpa only [List.getElem?_cons_succ] using HiddenOfList_get ci as bs i b hz.2 h

theorem HiddenOf_at (ci : CacheImpl α C) : ∀ (p : List Nat) (a b k : NS α C), HiddenOf ci a b → nsAt b p = some k →
    ∃ k0, nsAt a p = some k0 ∧ k.cache = ci.clear k0.cache ∧ k.layout = Layout.withOrder 0
  | [], .mk _ _ _, .mk _ _ _, k, hz, h => by
    simp only [nsAt, Option.some.injEq] at h
    subst h
    simp only [HiddenOf] at hz
    exact ⟨_, rfl, hz.1, hz.2.1⟩
  | i :: p, .mk _ _ ka, .mk _ _ kb, k, hz, h => by
    simp only [HiddenOf] at hz
    simp only [nsAt] at h ⊢
    cases hk : kb[i]? with
    | none => rw [hk] at h; cases h
    | some b' =>
      rw [hk] at h
      obtain ⟨a', ha', hz'⟩ := HiddenOfList_get ci ka kb i b' hz.2.2 hk
      rw [ha']
      exact HiddenOf_at ci p a' b' k hz' h

theorem SimNS_at : ∀ (p : List Nat) (t : STree α) (a b : NS α C), SimNS t a b → VisibleTo t p →
    (nsAt a p).map NS.layout = (nsAt b p).map NS.layout ∧ (nsAt a p).map NS.cache = (nsAt b p).map NS.cache
  | [], .node _ _ _, .mk _ _ _, .mk _ _ _, hs, _ => by
    simp only [SimNS] at hs
    simp only [nsAt, Option.map_some, NS.layout, NS.cache, hs.1, hs.2.1, and_self]
  | i :: p, .node s _ kids, .mk _ _ ka, .mk _ _ kb, hs, hv => by
    simp only [SimNS] at hs
    simp only [VisibleTo] at hv
    simp only [nsAt]
    rcases SimNSList_get kids ka kb i (hs.2.2 hv.1) with ⟨_, g2, g3⟩ | ⟨t, a', b', g1, g2, g3, hsim⟩
    · rw [g2, g3]; exact ⟨rfl, rfl⟩
    · rw [g2, g3]
      rw [g1] at hv
      exact SimNS_at p t a' b' hsim hv.2

/-! ### reflexivity of the tree relation, and the bare-leaf replacement -/

mutual
theorem HidRel_refl : ∀ t : STree α, HidRel t t
  | .node s c kids => by
    simp only [HidRel, true_and]
    by_cases h : s.display = .none
    · exact Or.inl ⟨h, h⟩
    · exact Or.inr ⟨h, HidRelList_refl kids⟩
theorem HidRelList_refl : ∀ ts : List (STree α), HidRelList ts ts
  | [] => trivial
  | t :: ts => ⟨HidRel_refl t, HidRelList_refl ts⟩
end

theorem HidRelList_set : ∀ (ks : List (STree α)) (i : Nat) (k k' : STree α), ks[i]? = some k → HidRel k k' →
    HidRelList ks (ks.set i k')
  | [], _, _, _, h, _ => by simp at h
  | a :: as, 0, k, k', h, hr => by
    simp only [List.getElem?_cons_zero, Option.some.injEq] at h
    subst h
    exact ⟨hr, HidRelList_refl as⟩
  | a :: as, i + 1, k, k', h, hr => by
    simp only [List.getElem?_cons_succ] at h
    exact ⟨HidRel_refl a, HidRelList_set as i k k' h hr⟩

/-- replacing the `display:none` subtree at any path by another `display:none` subtree gives a related tree -/
theorem HidRel_replaceAt : ∀ (p : List Nat) (t h r : STree α), treeAt t p = some h → h.style.display = .none →
    r.style.display = .none → HidRel t (replaceAt t p r)
  | [], .node s c kids, h, .node s' c' kids', ht, hd, hr => by
    simp only [treeAt, Option.some.injEq] at ht
    subst ht
    simp only [replaceAt, HidRel]
    exact Or.inl ⟨hd, hr⟩
  | i :: q, .node s c kids, h, r, ht, hd, hr => by
    simp only [treeAt] at ht
    simp only [replaceAt]
    cases hk : kids[i]? with
    | none => rw [hk] at ht; cases ht
    | some k =>
      rw [hk] at ht
      simp only [HidRel, true_and]
      by_cases hs : s.display = .none
      · exact Or.inl ⟨hs, hs⟩
      · exact Or.inr ⟨hs, HidRelList_set kids i k _ hk (HidRel_replaceAt q k h r ht hd hr)⟩

/-- `AgreeH` spelled out by index -/
theorem AgreeH_iff : ∀ (xs ys : List (Style α)), AgreeH xs ys ↔
    (xs.length = ys.length ∧
     ∀ (i : Nat) (x y : Style α), xs[i]? = some x → ys[i]? = some y →
       (x = y ∨ (x.display = Display.none ∧ y.display = Display.none)))
  | [], [] => by simp [AgreeH]
  | [], _ :: _ => by simp [AgreeH]
  | _ :: _, [] => by simp [AgreeH]
  | a :: as, b :: bs => by
    have ih := AgreeH_iff as bs
    simp only [AgreeH, List.length_cons, Nat.add_right_cancel_iff]
    constructor
    · intro h
      obtain ⟨hl, hi⟩ := ih.1 h.2
      refine ⟨hl, fun i x y hx hy => ?_⟩
      cases i with
      | zero =>
        simp only [List.getElem?_cons_zero, Option.some.injEq] at hx hy
        subst hx; subst hy
        exact h.1
      | succ i =>
        simp only [List.getElem?_cons_succ] at hx hy
        exact hi i x y hx hy
    · intro h
      refine ⟨h.2 0 a b (by simp) (by simp), ih.2 ⟨h.1, fun i x y hx hy => h.2 (i + 1) x y ?_ ?_⟩⟩
      · simpa using hx
      · simpa using hy

end C05
