/-
  C03 (finiteness at `ER`) — the grid program WITHOUT the `space-between` restriction, part 1.
  The range invariant of the `GridCalm` theorems (`EvalGrid.AllR`: every item's track range is non-empty and inside the
  track vector; `EvalGrid.RunQ`, `GSafe_trackSizingAlgorithmM` of Lemmas/EvalGridSafe2.lean: a run keeps the items' frames
  and the lengths of both track vectors) is threaded through the four runs of the track sizing algorithm, so that both
  track vectors provably keep an ODD number of entries; the gutter adjustment then is `fin_gutterStep` (any alignment).
    `FinG_and_GSafe`        a finiteness statement and a `GSafe` statement about the same program combine
    `sizingFin_calm`        one run: finite in ⇒ finite out, frames and lengths kept (under `AllR`, odd other vector)
    `FinG_step7Mid_calm`, `FinG_gridStep7_calm`, `FinG_gridMain_calm`   the stages after the setup
-/
import TaffyVerif.Lemmas.FiniteGridEval
import TaffyVerif.Lemmas.EvalGridSafe4

set_option linter.unusedSectionVars false
set_option linter.unusedVariables false

namespace C03Fin
open GridModel GridTracks EvalGrid

variable {β : Type}

theorem FinP_and_Post {Q R : β → Prop} : ∀ {p : ProgM ER β}, FinP Q p → EvalBlock.Post R p →
    FinP (fun b => Q b ∧ R b) p
  | .pure _, h1, h2 => ⟨h1, h2⟩
  | .call _ _ _, h1, h2 => ⟨h1.1, fun o ho => FinP_and_Post (h1.2 o ho) (h2 o)⟩
  | .setLayout _ _ _, h1, h2 => ⟨h1.1, FinP_and_Post h1.2 h2⟩

/-- a finiteness statement (`FinG`: runs with finite child answers) and a `GSafe` statement (all runs: no panic, `R` of
the result) about the same program combine -/
theorem FinG_and_GSafe {Q R : β → Prop} {p : GM ER β} (h1 : FinG Q p) (h2 : GSafe R p) :
    FinG (fun b => Q b ∧ R b) p := by
  have h := FinP_and_Post h1 h2
  refine FinP_mono (fun r hr b hb => ?_) h
  refine ⟨hr.1 b hb, ?_⟩
  obtain ⟨b', e, hR⟩ := hr.2
  rw [hb] at e
  cases e
  exact hR

/-- `RunArgsFin` without the alignment condition -/
structure RunArgsFinC (a : RunArgs ER) : Prop where
  axisMinSize : OFin a.axisMinSize
  axisMaxSize : OFin a.axisMaxSize
  availableGridSpace : SAvFin a.availableGridSpace
  innerNodeSize : SOFin a.innerNodeSize

/-- one run of `track_sizing_algorithm`, ANY alignment: the other axis' vector has an odd number of entries -/
theorem sizingFin_odd {a : RunArgs ER} {st : RunState ER} (ha : RunArgsFinC a) (hst : StFin st)
    (hodd : st.otherAxisTracks.length % 2 = 1) : FinG StFin (trackSizingAlgorithmM a st) := by
  have hinit := fin_initializeTrackSizes hst.axisTracks (fin_osget (ax := a.axis) ha.innerNodeSize)
  unfold trackSizingAlgorithmM
  refine FinG_bind (Q := GItemsFin) ?_ fun items hitems => ?_
  · split
    · exact FinG_resolveItemBaselines ha.innerNodeSize hst.items
    · exact FinG_pure hst.items
  split
  · exact FinG_pure ⟨hinit, hst.otherAxisTracks, hitems⟩
  · have hother := fin_gutterStep (al := a.otherAxisAlignment) (est := a.est) hst.otherAxisTracks
      (fin_osget (ax := a.axis.other) ha.innerNodeSize) hodd
    have havail := fin_avget (ax := a.axis) ha.availableGridSpace
    refine FinG_bind (intrinsicFin _ _ _ _ hother ha.innerNodeSize hinit hitems havail) fun ⟨items2, ts2⟩ h2 => ?_
    have hm := maximiseFin ts2 (sget a.innerNodeSize a.axis) (sget a.availableGridSpace a.axis) h2.2
      (fin_osget ha.innerNodeSize) havail
    dsimp (config := { zeta := false }) only
    extract_lets mt avx
    have havx : AvFin avx := by
      unfold avx
      split
      · rename_i s hs; exact OFin.of_some (fin_osget (ax := a.axis) ha.innerNodeSize) hs
      · split <;> trivial
    refine FinG_bind (FinG_expandFlexibleTracksM hm h2.1 ha.axisMinSize ha.axisMaxSize havx ha.innerNodeSize)
      fun ⟨items3, ts3⟩ h3 => ?_
    refine FinG_pure ⟨?_, hother, h3.1⟩
    dsimp only
    split
    · exact fin_stretchAutoTracks h3.2.1 ha.axisMinSize havx
    · exact h3.2.1

/-- **sizingFin_calm**: one run under the range invariant: finite arguments, tracks and items, an odd other vector and
`AllR` ⇒ only finite queries, finite tracks and items, AND the items' frames and both lengths are kept (`RunQ`) -/
theorem sizingFin_calm {a : RunArgs ER} {st : RunState ER} (ha : RunArgsFinC a) (hst : StFin st)
    (hodd : st.otherAxisTracks.length % 2 = 1) (hall : AllR a.axis st.axisTracks.length st.items) :
    FinG (fun r => StFin r ∧ RunQ st r) (trackSizingAlgorithmM a st) :=
  FinG_and_GSafe (sizingFin_odd ha hst hodd) (GSafe_trackSizingAlgorithmM a st hall)

theorem FinG_step7Prep_calm {ax : Ax} {r0 : Bool} {ts : List (GridTrack ER)} {inner : Size (Option ER)}
    {items : List (GItem ER)} (hts : TracksFin ts) (hin : SOFin inner) (h : GItemsFin items) :
    FinG (fun r => GItemsFin r.2 ∧ r.2.map frame = items.map frame) (step7Prep ax r0 ts inner items) :=
  FinG_and_GSafe (FinG_step7Prep hts hin h) (GSafe_step7Prep ax r0 ts inner items)

theorem FinG_step7Mid_calm {av : Size (AvailableSpace ER)} {colArgs rowArgs : RunArgs ER}
    {inner : Size (Option ER)} {cols rows : List (GridTrack ER)} {rerun : Bool} {items : List (GItem ER)}
    (hca : RunArgsFinC colArgs) (hra : RunArgsFinC rowArgs) (hin : SOFin inner) (hcols : TracksFin cols)
    (hrows : TracksFin rows) (hitems : GItemsFin items) (hcol : colArgs.axis = .inl) (hrow : rowArgs.axis = .blk)
    (hc : AllR .inl cols.length items) (hr : AllR .blk rows.length items) (hco : cols.length % 2 = 1)
    (hro : rows.length % 2 = 1) :
    FinG (fun r => TracksFin r.1 ∧ TracksFin r.2.1 ∧ GItemsFin r.2.2)
      (step7Mid av colArgs rowArgs inner cols rows rerun items) := by
  unfold step7Mid
  split
  · have ha1 : RunArgsFinC { colArgs with innerNodeSize := inner, est := .baseSize } :=
      ⟨hca.axisMinSize, hca.axisMaxSize, hca.availableGridSpace, hin⟩
    have hst1 : StFin { axisTracks := cols, otherAxisTracks := rows, items := items } := ⟨hcols, hrows, hitems⟩
    refine FinG_bind (sizingFin_calm ha1 hst1 hro (by show AllR colArgs.axis _ _; rw [hcol]; exact hc)) fun st h => ?_
    obtain ⟨h1, f1, l1, l1'⟩ := h
    dsimp only at f1 l1 l1'
    refine FinG_bind (FinG_step7Prep_calm h1.axisTracks hin h1.items) fun ⟨rr, items5⟩ h2 => ?_
    dsimp only at h2 ⊢
    have f5' : FSub items items5 := f1.trans (FSub.of_mapFrame h2.2)
    split
    · have ha2 : RunArgsFinC { rowArgs with innerNodeSize := inner } :=
        ⟨hra.axisMinSize, hra.axisMaxSize, hra.availableGridSpace, hin⟩
      have hst2 : StFin { axisTracks := st.otherAxisTracks, otherAxisTracks := st.axisTracks, items := items5 } :=
        ⟨h1.otherAxisTracks, h1.axisTracks, h2.1⟩
      refine FinG_bind (sizingFin_calm ha2 hst2 (by show st.axisTracks.length % 2 = 1; rw [l1]; exact hco)
        (by show AllR rowArgs.axis _ _; rw [hrow]; exact (l1' ▸ hr).sub f5')) fun st2 h3 => ?_
      exact FinG_pure ⟨h3.1.otherAxisTracks, h3.1.axisTracks, h3.1.items⟩
    · exact FinG_pure ⟨h1.axisTracks, h1.otherAxisTracks, h2.1⟩
  · exact FinG_pure ⟨hcols, hrows, hitems⟩

theorem FinG_gridStep7_calm {c : Ctx ER} {cs : List (GridChildStyle ER)} {av : Size (AvailableSpace ER)}
    {colArgs rowArgs : RunArgs ER} {inner : Size (Option ER)} {bb cb : Size ER} {cc rc : GridPlacement.TrackCounts}
    {cols rows : List (GridTrack ER)} {items : List (GItem ER)} (hctx : CtxFin c) (hcs : ∀ s ∈ cs, StyleFin s.base)
    (hca : RunArgsFinC colArgs) (hra : RunArgsFinC rowArgs) (hin : SOFin inner) (hbb : SFin bb) (hcb : SFin cb)
    (hcols : TracksFin cols) (hrows : TracksFin rows) (hitems : GItemsFin items) (hcol : colArgs.axis = .inl)
    (hrow : rowArgs.axis = .blk) (hc : AllR .inl cols.length items) (hr : AllR .blk rows.length items)
    (hco : cols.length % 2 = 1) (hro : rows.length % 2 = 1) :
    FinG OutFin (gridStep7 c cs av colArgs rowArgs inner bb cb cc rc cols rows items) := by
  have hc1 : TracksFin (if !c.availableGridSpace.width.isDefinite then reresolvePercentTracks cb.width cols
      else cols) := by
    split
    · exact fin_reresolvePercentTracks hcb.1 hcols
    · exact hcols
  have hr1 : TracksFin (if !c.availableGridSpace.height.isDefinite then reresolvePercentTracks cb.height rows
      else rows) := by
    split
    · exact fin_reresolvePercentTracks hcb.2 hrows
    · exact hrows
  have lc : (if !c.availableGridSpace.width.isDefinite then reresolvePercentTracks cb.width cols
      else cols).length = cols.length := by
    split
    · exact reresolvePercentTracks_length _ _
    · rfl
  have lr : (if !c.availableGridSpace.height.isDefinite then reresolvePercentTracks cb.height rows
      else rows).length = rows.length := by
    split
    · exact reresolvePercentTracks_length _ _
    · rfl
  unfold gridStep7
  refine FinG_bind (FinG_step7Prep_calm hr1 hin hitems) fun ⟨rerun, items1⟩ h1 => ?_
  dsimp only at h1
  have s3 : FSub items items1 := FSub.of_mapFrame h1.2
  refine FinG_bind (FinG_step7Mid_calm hca hra hin hc1 hr1 h1.1 hcol hrow (by rw [lc]; exact hc.sub s3)
    (by rw [lr]; exact hr.sub s3) (by rw [lc]; exact hco) (by rw [lr]; exact hro)) fun ⟨cols2, rows2, items2⟩ h2 => ?_
  exact FinG_gridTail hctx.tail hcs hbb hcb h2.1 h2.2.1
    (fun it hit => ⟨(h2.2.2 it hit).baseline, (h2.2.2 it hit).baselineShim⟩)

/-- the setup's result: finite, track ranges of all items non-empty and inside the vectors, `2·n + 1` entries -/
structure SetupCalm (su : Setup ER) : Prop where
  fin : SetupFin su
  cols : AllR .inl su.columns.length su.items
  rows : AllR .blk su.rows.length su.items
  colsOdd : su.columns.length % 2 = 1
  rowsOdd : su.rows.length % 2 = 1

variable [NumCast ER]

/-- **gridMain**, any alignment: everything after the setup -/
theorem FinG_gridMain_calm {style : GridStyle ER} {cs : List (GridChildStyle ER)} {inputs : LayoutInput ER}
    {su : Setup ER} (hs : StyleFin style.base) (hcs : ∀ s ∈ cs, StyleFin s.base) (hi : InFin inputs)
    (hsu : SetupCalm su) : FinG OutFin (gridMain style cs inputs su) := by
  have hctx := fin_mkCtx hs hi
  have hca : ∀ b, RunArgsFinC (colArgsOf (mkCtx style.base inputs) b) := fun b =>
    ⟨hctx.minSize.1, hctx.maxSize.1, hctx.availableGridSpace, hctx.innerNodeSize⟩
  have hra : ∀ inner, SOFin inner → RunArgsFinC (rowArgsOf (mkCtx style.base inputs) inner) := fun inner hin =>
    ⟨hctx.minSize.2, hctx.maxSize.2, hctx.availableGridSpace, hin⟩
  have hst0 : StFin { axisTracks := su.columns, otherAxisTracks := su.rows, items := su.items } :=
    ⟨hsu.fin.1, hsu.fin.2.1, hsu.fin.2.2⟩
  unfold gridMain
  refine FinG_bind (sizingFin_calm (hca _) hst0 hsu.rowsOdd hsu.cols) fun st1 h => ?_
  obtain ⟨h1, f1, l1, l1'⟩ := h
  dsimp only at f1 l1 l1'
  have hsum1 := fin_sumBase h1.axisTracks
  have hin1 : SOFin ({ (mkCtx style.base inputs).innerNodeSize with
      width := (mkCtx style.base inputs).innerNodeSize.width.or
        (some (GridTracks.sumF (st1.axisTracks.map (·.baseSize)))) } : Size (Option ER)) :=
    ⟨fin_or hctx.innerNodeSize.1 hsum1, hctx.innerNodeSize.2⟩
  have hitems1 : GItemsFin (st1.items.map fun it => { it with availableSpaceCache := none }) := by
    intro it' hit'
    obtain ⟨it, hit, rfl⟩ := List.mem_map.mp hit'
    exact { h1.items it hit with availableSpaceCache := fun _ e => (by cases e) }
  have f1' : FSub su.items (st1.items.map fun it : GItem ER => { it with availableSpaceCache := none }) :=
    f1.trans (FSub.of_mapFrame (UpdL.of_map .inl _ same_clearAvail st1.items).1.1)
  have hst1 : StFin
      { axisTracks := st1.otherAxisTracks, otherAxisTracks := st1.axisTracks,
        items := st1.items.map fun it : GItem ER => { it with availableSpaceCache := none } } :=
    ⟨h1.otherAxisTracks, h1.axisTracks, hitems1⟩
  refine FinG_bind (sizingFin_calm (hra _ hin1) hst1 (by show st1.axisTracks.length % 2 = 1; rw [l1]; exact hsu.colsOdd)
    (by show AllR .blk st1.otherAxisTracks.length _; rw [l1']; exact hsu.rows.sub f1')) fun st2 h => ?_
  obtain ⟨h2, f2, l2, l2'⟩ := h
  dsimp only at f2 l2 l2'
  have f2' : FSub su.items st2.items := f1'.trans f2
  have hsum2 := fin_sumBase h2.axisTracks
  have hbb := fin_borderBox hctx hi.kd hsum1 hsum2
  have hcb := fin_contentBox hctx hbb
  split
  · exact FinG_pure (fin_fromOuterSize hbb)
  · exact FinG_gridStep7_calm hctx hcs (hca _) (hra _ hin1) ⟨hin1.1, fin_or hin1.2 hsum2⟩ hbb hcb h2.otherAxisTracks
      h2.axisTracks h2.items rfl rfl (by rw [l2', l1]; exact hsu.cols.sub f2') (by rw [l2, l1']; exact hsu.rows.sub f2')
      (by rw [l2', l1]; exact hsu.colsOdd) (by rw [l2, l1']; exact hsu.rowsOdd)

end C03Fin
