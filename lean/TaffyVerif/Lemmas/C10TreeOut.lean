/-
  C10, tree-level theorem — part 8: the cache-free output function of the evaluator (`EvalMemo.outFresh`) on trees of the
  family: **`out_meets`** — every in-flow box, queried with a final-pass input, reports the specification's adjoining
  margin sets / collapse-through flag for its whole subtree (induction over the tree, `block_output_meets` at containers,
  `leaf_meets` at childless boxes); **`out_wide`** — every box honours a known width.
-/
import TaffyVerif.Lemmas.C10TreeLeaf
import TaffyVerif.Props.C17

set_option linter.unusedSectionVars false

namespace C10Thm
open MarginCollapse BlockModel C10Tree C10Conv EvalMemo EvalBlock Eval

theorem styled_width_ge (s : Style Rat) (h : Px s) (inp : LayoutInput Rat) (w' : Rat)
    (hw : (styledBasedKnownDimensions s inp).width = some w') : pbW s ≤ w' := by
  simp only [styledBasedKnownDimensions, pbSize_px s h, Size.of_max, MaybeMath.of_max, rat_fmax] at hw
  generalize ((inp.knownDimensions.orOpt _).orOpt _).width = o at hw
  cases o with
  | none => cases hw
  | some v =>
    simp only [Option.map_some, Option.some.injEq] at hw
    rw [← hw]; exact le_max_right _ _

theorem block_wide (ans : Nat → LayoutInput Rat → LayoutOutput Rat) (s : Style Rat) (cs : List (Style Rat))
    (inp : LayoutInput Rat) (hp : Px s) (hm : inp.runMode = .performLayout) :
    (∀ kw, inp.knownDimensions.width = some kw →
      (interp ans (computeBlockLayout s cs inp)).size.width = max kw (pbW s)) ∧
    pbW s ≤ (interp ans (computeBlockLayout s cs inp)).size.width := by
  obtain ⟨w, acs, _, h1, h2, heq⟩ := interp_block_PL ans s cs inp hm
  rw [heq]
  have hsz : ∀ (a b c d e f g : _), (innerOutput s inp.parentSize a b c d e f g).size = c := fun _ _ _ _ _ _ _ => rfl
  simp only [hsz, finalOuterSize]
  have hpb : (innerCtx s (innerInputs s inp)).paddingBorderSize = ⟨pbW s, pbH s⟩ := by
    show ((Resolve.rectLPOrZero s.padding _).add (Resolve.rectLPOrZero s.border _)).sumAxes = _
    exact pbSize_px s hp _
  constructor
  · intro kw hk
    exact h1 _ (styled_width_known s hp inp kw hk)
  · cases hw : (innerInputs s inp).knownDimensions.width with
    | none => have := h2 hw; rw [hpb] at this; exact this
    | some w' =>
      rw [h1 w' hw]
      exact styled_width_ge s hp inp w' hw


theorem kidsMeet_of (ans : Nat → LayoutInput Rat → LayoutOutput Rat) : ∀ (kids : List (STree Rat)) (idx : Nat),
    (∀ j t, kids[j]? = some t → kidInFlow t = true → ∀ inp, InFlowIn t.style inp →
      Meets (styleTree t) (ans (idx + j) inp)) → KidsMeet ans idx kids
  | [], _, _ => trivial
  | t :: ts, idx, h => by
    refine ⟨fun hk inp hin => h 0 t rfl hk inp hin, kidsMeet_of ans ts (idx + 1) ?_⟩
    intro j t' hj hk inp hin
    have e : idx + 1 + j = idx + (j + 1) := by omega
    rw [e]
    exact h (j + 1) t' (by simpa using hj) hk inp hin

theorem kidsWide_of (ans : Nat → LayoutInput Rat → LayoutOutput Rat) : ∀ (kids : List (STree Rat)) (idx : Nat),
    (∀ j t, kids[j]? = some t → kidInFlow t = true → ∀ inp kw, inp.runMode = .performLayout →
      inp.knownDimensions.width = some kw →
      (ans (idx + j) inp).size.width = max kw (pbW t.style)) → KidsWide ans idx kids
  | [], _, _ => trivial
  | t :: ts, idx, h => by
    refine ⟨fun hf inp kw hm hk => h 0 t rfl hf inp kw hm hk, kidsWide_of ans ts (idx + 1) ?_⟩
    intro j t' hj hf inp kw hm hk
    have e : idx + 1 + j = idx + (j + 1) := by omega
    rw [e]
    exact h (j + 1) t' (by simpa using hj) hf inp kw hm hk

/-- `TaffyTree`'s dispatch, extracted from the source -/
abbrev sel := Dispatch.select Gen.Facts.dispatchArms

theorem bodyOf_block (flex grid : Style Rat → List (Style Rat) → LayoutInput Rat → ProgM Rat (LayoutOutput Rat))
    (s : Style Rat) (kids : List (STree Rat)) (inp : LayoutInput Rat) (hb : s.display = .block) :
    (kids = [] → bodyOf sel (EvalConcrete.algs flex grid) s kids inp = .leaf) ∧
    (kids ≠ [] → bodyOf sel (EvalConcrete.algs flex grid) s kids inp
      = .prog (computeBlockLayout s (kids.map STree.style) inp)) := by
  constructor
  · intro hk
    subst hk
    simp only [bodyOf, sel, C17.dispatch_eq, hb]
    rfl
  · intro hk
    have : (!kids.isEmpty) = true := by cases kids with
      | nil => exact absurd rfl hk
      | cons _ _ => rfl
    simp only [bodyOf, sel, C17.dispatch_eq, hb, this]
    rfl


theorem node_facts (s : Style Rat) (ctx : Option (MeasureSpec Rat)) (kids : List (STree Rat))
    (h : inFamilyCore (.node s ctx kids) = true) :
    Px s ∧ NN s ctx ∧ (s.display = .block ∨ s.display = .none) ∧ notWrap ctx = true ∧
    (kids ≠ [] → contentOf ctx = 0) ∧ inFamilyCoreKids kids = true := by
  simp only [inFamilyCore, nodeOk, Bool.and_eq_true, Bool.or_eq_true] at h
  obtain ⟨⟨⟨h1, h2⟩, h3⟩, h4⟩ := h
  refine ⟨styleOk_px s ctx _ h1, nonNegOk_nn s ctx h2, ?_, ?_, ?_, h4⟩
  · cases hd : s.display
    · left; rfl
    · rw [hd] at h3; rcases h3 with h3 | h3 <;> exact absurd h3 (by decide)
    · rw [hd] at h3; rcases h3 with h3 | h3 <;> exact absurd h3 (by decide)
    · right; rfl
  · simp only [styleOk, Bool.and_eq_true] at h1
    have hc := h1.1.1.1.1.1.1.1.1.1.1.1.1.2
    cases ctx with
    | none => rfl
    | some m => cases m with
      | fixed _ _ => rfl
      | wrap _ _ => simp at hc
  · intro hk
    simp only [styleOk, Bool.and_eq_true] at h1
    have hc := h1.1.1.1.1.1.1.1.1.1.1.1.1.2
    cases ctx with
    | none => rfl
    | some m => cases m with
      | fixed _ _ =>
        simp only at hc
        cases kids with
        | nil => exact absurd rfl hk
        | cons _ _ => simp at hc
      | wrap _ _ => simp at hc

theorem notHidden_block (s : Style Rat) (h : s.display = .block ∨ s.display = .none)
    (hn : (s.display == Display.none) = false) : s.display = .block := by
  rcases h with h | h
  · exact h
  · rw [h] at hn; exact absurd hn (by decide)


section
variable (flex grid : Style Rat → List (Style Rat) → LayoutInput Rat → ProgM Rat (LayoutOutput Rat))

theorem kidHidden_eq (t : STree Rat) : (t.style.display == Display.none) = (styleTree t).box.hidden := by
  rw [styleTree_box]; rfl

/-- **(c)** every box of the family honours a known width and is at least as wide as its padding + border -/
theorem out_wide : ∀ (fuel : Nat) (t : STree Rat) (inp : LayoutInput Rat), inFamilyCore t = true →
    (t.style.display == Display.none) = false → inp.runMode = .performLayout →
    (∀ kw, inp.knownDimensions.width = some kw →
      (outFresh sel (EvalConcrete.algs flex grid) (fuel + 1) t inp).size.width = max kw (pbW t.style)) ∧
    pbW t.style ≤ (outFresh sel (EvalConcrete.algs flex grid) (fuel + 1) t inp).size.width := by
  intro fuel t inp hfam hvis hm
  cases t with
  | node s ctx kids =>
    obtain ⟨hp, hn, hd, hw, hc, hk⟩ := node_facts s ctx kids hfam
    simp only [STree.style] at hvis ⊢
    have hb := notHidden_block s hd hvis
    have hmode : (inp.runMode == RunMode.performHiddenLayout) = false := by rw [hm]; rfl
    rw [outFresh_succ, hmode]
    simp only [Bool.false_eq_true, if_false]
    by_cases hkids : kids = []
    · rw [(bodyOf_block flex grid s kids inp hb).1 hkids]
      exact leaf_wide s inp _ hp hm
    · rw [(bodyOf_block flex grid s kids inp hb).2 hkids]
      exact block_wide _ s _ inp hp hm


theorem kidInFlow_elim (t : STree Rat) (h : kidInFlow t = true) :
    (t.style.display == Display.none) = false ∧ t.style.position = .relative := by
  simp only [kidInFlow, Bool.and_eq_true, Bool.not_eq_true'] at h
  refine ⟨h.1, ?_⟩
  cases hp : t.style.position with
  | relative => rfl
  | absolute => rw [hp] at h; exact absurd h.2 (by decide)

/-- **(1)** every in-flow box of the family, queried with a final-pass input, reports the specification's adjoining
margin sets and collapse-through flag for its subtree -/
theorem out_meets : ∀ (fuel : Nat) (t : STree Rat) (inp : LayoutInput Rat), inFamilyCore t = true →
    STree.depth t ≤ fuel → kidInFlow t = true → InFlowIn t.style inp →
    Meets (styleTree t) (outFresh sel (EvalConcrete.algs flex grid) fuel t inp) := by
  intro fuel
  induction fuel with
  | zero => intro t inp _ hd _ _; cases t; simp [STree.depth] at hd
  | succ fuel ih =>
    intro t inp hfam hdep hflow hin
    obtain ⟨hvis, hrel⟩ := kidInFlow_elim t hflow
    cases t with
    | node s ctx kids =>
      obtain ⟨hp, hn, hd, hw, hc, hk⟩ := node_facts s ctx kids hfam
      simp only [STree.style] at hvis hrel hin
      simp only [STree.depth] at hdep
      have hb := notHidden_block s hd hvis
      have hmode : (inp.runMode == RunMode.performHiddenLayout) = false := by rw [hin.mode]; rfl
      rw [outFresh_succ, hmode]
      simp only [Bool.false_eq_true, if_false]
      by_cases hkids : kids = []
      · rw [(bodyOf_block flex grid s kids inp hb).1 hkids]
        subst hkids
        exact leaf_meets s ctx inp hp hn hb hrel hw hin
      · rw [(bodyOf_block flex grid s kids inp hb).2 hkids]
        refine block_output_meets _ s ctx kids inp hp hn hb hrel (hc hkids) hk hin ?_
        apply kidsMeet_of
        intro j t' hj hfl inp' hin'
        simp only [ansOf, Nat.zero_add, hj]
        have hdt := depth_le_of_getElem kids j t' hj
        exact ih t' inp' (inFamilyCoreKids_get kids j t' hk hj) (by omega) hfl hin'

end
end C10Thm
