/-
  C03 (finiteness at `ER`) — the grid program, part 1: the predicates (`ExtFin`, `TrackFin`, `GItemFin`, `CtxFin`), `FinG`
  (= `FinP` for `GM ER = ExceptT String (ProgM ER)` programs; the postcondition is asked of `.ok` results only — a panic is
  C03Grid's subject), track alignment (`align_tracks`: every division of `compute_alignment_offset` is safe after
  `apply_alignment_fallback`), `align_and_position_item`, the two positioning loops, the container baseline and steps 8–9
  (`EvalGrid.gridTail`).
-/
import TaffyVerif.Lemmas.EvalGridStages
import TaffyVerif.Lemmas.FinAbsPos
import TaffyVerif.Lemmas.FinBlock
import TaffyVerif.Lemmas.FinFlex2

set_option linter.unusedSectionVars false
set_option linter.unusedVariables false

namespace C03Fin
open GridModel GridTracks EvalGrid

/-! ### `FinG` -/

/-- a postcondition asked of `.ok` results only -/
def okF {β : Type} (Q : β → Prop) : Except String β → Prop := fun r => ∀ b, r = .ok b → Q b

/-- `FinP` for `GM` programs: along every run with finite child answers every `LayoutInput` passed to a child and every
`Layout` set is finite, and a run that does not panic returns some `b` with `Q b` -/
def FinG {β : Type} (Q : β → Prop) (p : GM ER β) : Prop := FinP (okF Q) (EvalGrid.run p)

variable {β γ : Type}

theorem FinG_pure {Q : β → Prop} {b : β} (h : Q b) : FinG Q (pure b : GM ER β) := by
  intro b' hb'; cases hb'; exact h

theorem FinG_throw {Q : β → Prop} {e : String} : FinG Q (throw e : GM ER β) := by
  intro b' hb'; cases hb'

theorem FinG_mono {Q R : β → Prop} {p : GM ER β} (h : ∀ b, Q b → R b) (hp : FinG Q p) : FinG R p :=
  FinP_mono (fun r hr b hb => h b (hr b hb)) hp

theorem FinG_bind {Q : β → Prop} {R : γ → Prop} {p : GM ER β} {f : β → GM ER γ}
    (hp : FinG Q p) (hf : ∀ x, Q x → FinG R (f x)) : FinG R (p >>= f) := by
  unfold FinG
  rw [run_bind]
  refine FinP_bind (fun r hr => ?_) hp
  cases r with
  | ok a => exact hf a (hr a rfl)
  | error e => intro b hb; cases hb

theorem FinG_call {i : Nat} {inp : LayoutInput ER} (hi : InFin inp) : FinG OutFin (GM.call i inp) :=
  ⟨hi, fun o ho b hb => by cases hb; exact ho⟩

theorem FinG_setLayout {i : Nat} {l : Layout ER} (hl : LayFin l) : FinG (fun _ => True) (GM.setLayout i l) :=
  ⟨hl, fun b hb => trivial⟩

theorem FinG_ofOutcome {Q : β → Prop} {x : GridPlacement.Outcome β} (h : ∀ b, x = .ok b → Q b) :
    FinG Q (GM.ofOutcome x : GM ER β) := by
  cases x with
  | ok a => exact FinG_pure (h a rfl)
  | panic m => exact FinG_throw
  | overflow => exact FinG_throw
  | outOfFuel => exact FinG_throw

theorem FinG_ofExcept {Q : β → Prop} {x : Except GErr β} (h : ∀ b, x = .ok b → Q b) :
    FinG Q (GM.ofExcept x : GM ER β) := by
  cases x with
  | ok a => exact FinG_pure (h a rfl)
  | error e => cases e <;> exact FinG_throw

/-! ### predicates -/

/-- a growth limit / limit: finite, or the explicit `+∞` (which is not a number of the model: it never enters arithmetic) -/
def ExtFin : Ext ER → Prop
  | .fin g => IsFin g
  | .inf => True

def MinTrackFin : MinTrack ER → Prop
  | .length v => IsFin v
  | .percent v => IsFin v
  | _ => True

def MaxTrackFin : MaxTrack ER → Prop
  | .length v => IsFin v
  | .percent v => IsFin v
  | .fitContentPx v => IsFin v
  | .fitContentPercent v => IsFin v
  | .fr v => IsFin v
  | _ => True

def TrackFnFin (f : TrackFn ER) : Prop := MinTrackFin f.min ∧ MaxTrackFin f.max

def TrackDefFin : TrackDef ER → Prop
  | .single f => TrackFnFin f
  | .rep _ fs => ∀ f ∈ fs, TrackFnFin f

/-- the grid fields of a style: every length, percentage and flex factor of every track sizing function is finite -/
structure GridExtFin (g : GridExt ER) : Prop where
  templateRows : ∀ d ∈ g.templateRows, TrackDefFin d
  templateColumns : ∀ d ∈ g.templateColumns, TrackDefFin d
  autoRows : ∀ f ∈ g.autoRows, TrackFnFin f
  autoColumns : ∀ f ∈ g.autoColumns, TrackFnFin f

structure TrackFin (t : GridTrack ER) : Prop where
  minFn : MinTrackFin t.minFn
  maxFn : MaxTrackFin t.maxFn
  offset : IsFin t.offset
  baseSize : IsFin t.baseSize
  growthLimit : ExtFin t.growthLimit
  contentAlignmentAdjustment : IsFin t.contentAlignmentAdjustment
  itemIncurredIncrease : IsFin t.itemIncurredIncrease
  baseSizePlannedIncrease : IsFin t.baseSizePlannedIncrease
  growthLimitPlannedIncrease : IsFin t.growthLimitPlannedIncrease

def TracksFin (l : List (GridTrack ER)) : Prop := ∀ t ∈ l, TrackFin t

/-- what the positioning loops and the container baseline read of a grid item -/
def ItemPosFin (it : GItem ER) : Prop := IsFin it.yPosition ∧ IsFin it.height ∧ OFin it.baseline

structure GItemFin (it : GItem ER) : Prop where
  size : SLPAFin it.size
  minSize : SLPAFin it.minSize
  maxSize : SLPAFin it.maxSize
  aspectRatio : ARFin it.aspectRatio
  padding : RLPFin it.padding
  border : RLPFin it.border
  margin : RLPAFin it.margin
  baseline : OFin it.baseline
  baselineShim : IsFin it.baselineShim
  availableSpaceCache : ∀ s, it.availableSpaceCache = some s → SOFin s
  minContentContributionCache : SOFin it.minContentContributionCache
  minimumContributionCache : SOFin it.minimumContributionCache
  maxContentContributionCache : SOFin it.maxContentContributionCache
  yPosition : IsFin it.yPosition
  height : IsFin it.height

def GItemsFin (l : List (GItem ER)) : Prop := ∀ it ∈ l, GItemFin it

/-- what steps 8–9 read of the container's `Ctx` -/
structure CtxTailFin (c : Ctx ER) : Prop where
  padding : RFin c.padding
  border : RFin c.border
  scrollbarGutter : PFin c.scrollbarGutter

/-! ### sums -/

theorem fin_gsumF {l : List ER} (h : ∀ x ∈ l, IsFin x) : IsFin (GridTracks.sumF l) :=
  fin_foldl_add (fun x => x) l _ (fin_neg fin_zero) h

theorem fin_gsumF_map {δ : Type} {l : List δ} {g : δ → ER} (h : ∀ x ∈ l, IsFin (g x)) :
    IsFin (GridTracks.sumF (l.map g)) := by
  apply fin_gsumF
  intro x hx
  obtain ⟨y, hy, rfl⟩ := List.mem_map.mp hx
  exact h y hy

theorem fin_sumBase {ts : List (GridTrack ER)} (h : TracksFin ts) : IsFin (GridTracks.sumF (ts.map (·.baseSize))) :=
  fin_gsumF_map fun t ht => (h t ht).baseSize

/-! ### `align_tracks` -/

/-- after `apply_alignment_fallback` a distributed mode (`space-between`, `space-around`, `space-evenly`) is only left in
place when there are at least two tracks -/
theorem fallback_space {free : ER} {n : Nat} {style : AlignContent} {safe : Bool}
    (hm : applyAlignmentFallback free n style safe = .spaceBetween ∨
      applyAlignmentFallback free n style safe = .spaceAround ∨
      applyAlignmentFallback free n style safe = .spaceEvenly) : 2 ≤ n := by
  by_cases hn : n ≤ 1
  · exfalso
    revert hm
    unfold applyAlignmentFallback
    simp only [hn, decide_true, Bool.true_or, if_true]
    cases style <;> simp only [] <;> split <;> simp
  · omega

/-- `compute_alignment_offset`: `/ 2`, `/ n`, `/ (n−1)`, `/ (n+1)` — with at least two items in the distributed modes no
divisor is zero -/
theorem fin_gridAlignmentOffset {free gap : ER} {n : Nat} {mode : AlignContent} {rev first : Bool}
    (hf : IsFin free) (hg : IsFin gap)
    (hm : mode = .spaceBetween ∨ mode = .spaceAround ∨ mode = .spaceEvenly → 2 ≤ n) :
    IsFin (computeAlignmentOffset free n gap mode rev first) := by
  have h2 : IsFin (free / Num.two) := fin_div hf fin_two two_ne_zero
  have hp : IsFin (free / Num.ofNat (n + 1)) := fin_div hf (fin_ofNat _) (ofNat_ne_zero (by omega))
  have hm0 : IsFin (Num.fmax free 0) := fin_fmax hf fin_zero
  have hp' : IsFin (Num.fmax free 0 / Num.ofNat (n + 1)) := fin_div hm0 (fin_ofNat _) (ofNat_ne_zero (by omega))
  cases first
  · -- a later item
    cases mode <;> simp only [computeAlignmentOffset, Bool.false_eq_true, if_false]
    case spaceBetween =>
      have := hm (Or.inl rfl)
      exact fin_add hg (fin_div hm0 (fin_ofNat _) (ofNat_ne_zero (by omega)))
    case spaceAround =>
      have := hm (Or.inr (Or.inl rfl))
      exact fin_add hg (fin_div hm0 (fin_ofNat _) (ofNat_ne_zero (by omega)))
    case spaceEvenly => exact fin_add hg hp'
    all_goals exact fin_add hg fin_zero
  · cases mode <;> simp only [computeAlignmentOffset, if_true]
    case spaceAround =>
      have := hm (Or.inr (Or.inl rfl))
      exact fin_ite (fin_div (fin_div hf (fin_ofNat _) (ofNat_ne_zero (by omega))) fin_two two_ne_zero) h2
    case spaceEvenly => exact fin_ite hp h2
    all_goals first
      | exact fin_zero
      | exact hf
      | exact h2
      | exact fin_ite hf fin_zero
      | exact fin_ite fin_zero hf

theorem fin_alignLoop {free : ER} {n : Nat} {mode : AlignContent} (hf : IsFin free)
    (hm : mode = .spaceBetween ∨ mode = .spaceAround ∨ mode = .spaceEvenly → 2 ≤ n) :
    ∀ (ts : List (GridTrack ER)) (i : Nat) (total : ER), TracksFin ts → IsFin total →
      TracksFin (alignLoop free n mode ts i total)
  | [], _, _, _, _ => by
    intro t ht
    simp [alignLoop] at ht
  | t :: rest, i, total, h, htot => by
    have hoff : IsFin (if (i % 2 == 0) = true then (0 : ER) else
        computeAlignmentOffset free n 0 mode false (i == 1)) :=
      fin_ite fin_zero (fin_gridAlignmentOffset hf fin_zero hm)
    have ht := h t (List.mem_cons_self ..)
    simp only [alignLoop]
    intro t' ht'
    rcases List.mem_cons.mp ht' with rfl | ht'
    · exact { ht with offset := fin_add htot hoff }
    · exact fin_alignLoop hf hm rest _ _ (fun x hx => h x (List.mem_cons_of_mem _ hx))
        (fin_add (fin_add htot hoff) ht.baseSize) t' ht'

/-- **align_tracks**: finite tracks, a finite content box and origin ⇒ finite tracks (the offsets are what step 9 reads) -/
theorem fin_alignTracks {cb ps bs : ER} {ts : List (GridTrack ER)} {style : AlignContent} (hcb : IsFin cb)
    (hps : IsFin ps) (hbs : IsFin bs) (h : TracksFin ts) : TracksFin (alignTracks cb ps bs ts style) := by
  unfold alignTracks
  exact fin_alignLoop (fin_sub hcb (fin_sumBase h)) fallback_space ts 0 _ h (fin_add hps hbs)

/-! ### `align_and_position_item` -/

theorem FinG_alignAndPositionItem {node order : Nat} {cs : Style ER} {ga : Rect ER} {ji ai : Option AlignItems}
    {shim : ER} (hs : StyleFin cs) (hga : RFin ga) (hshim : IsFin shim) :
    FinG (fun r => SFin r.1 ∧ IsFin r.2.1 ∧ IsFin r.2.2) (alignAndPositionItem node cs order ga ji ai shim) := by
  have ha : GridArgsFin
      { gridArea := ga, justifyItems := ji, alignItems := ai, baselineShim := shim, order := order } := ⟨hga, hshim⟩
  have hr := fin_gridResolve ha hs
  have hk := fin_gridKnown (pos := cs.position) hr hs.aspectRatio
  unfold alignAndPositionItem
  refine FinG_bind (FinG_call (fin_gridChildInput hr hk)) fun out hout => ?_
  have hf := fin_gridFinalSize hr hk hout.size
  have hx := fin_alignItemWithinArea (ga := ⟨ga.left, ga.right⟩)
    (al := cs.justifySelf.getD (AbsPos.gridResolve
      { gridArea := ga, justifyItems := ji, alignItems := ai, baselineShim := shim, order := order } cs).alignH)
    (pos := cs.position)
    (margin := ⟨(AbsPos.gridResolve
      { gridArea := ga, justifyItems := ji, alignItems := ai, baselineShim := shim, order := order } cs).margin.left,
      (AbsPos.gridResolve
      { gridArea := ga, justifyItems := ji, alignItems := ai, baselineShim := shim, order := order } cs).margin.right⟩)
    ⟨hga.l, hga.r⟩ hf.1 hr.insetH ⟨hr.margin.l, hr.margin.r⟩ fin_zero
  have hy := fin_alignItemWithinArea (ga := ⟨ga.top, ga.bottom⟩)
    (al := cs.alignSelf.getD (AbsPos.gridResolve
      { gridArea := ga, justifyItems := ji, alignItems := ai, baselineShim := shim, order := order } cs).alignV)
    (pos := cs.position)
    (margin := ⟨(AbsPos.gridResolve
      { gridArea := ga, justifyItems := ji, alignItems := ai, baselineShim := shim, order := order } cs).margin.top,
      (AbsPos.gridResolve
      { gridArea := ga, justifyItems := ji, alignItems := ai, baselineShim := shim, order := order } cs).margin.bottom⟩)
    ⟨hga.t, hga.b⟩ hf.2 hr.insetV ⟨hr.margin.t, hr.margin.b⟩ hshim
  exact FinG_bind (Q := fun _ => True)
    (FinG_setLayout ⟨⟨hx.1, hy.1⟩, hf, hout.contentSize, fin_abs_scrollbarSize hs, hr.border, hr.padding,
      ⟨hx.2.1, hx.2.2, hy.2.1, hy.2.2⟩⟩)
    fun _ _ => FinG_pure ⟨fin_contentSizeContribution ⟨hx.1, hy.1⟩ hf hout.contentSize, hy.1, hf.2⟩

/-! ### step 9 -/

theorem FinG_trackOffset {ts : List (GridTrack ER)} {i : Nat} (h : TracksFin ts) : FinG IsFin (trackOffset ts i) := by
  unfold trackOffset
  split
  · rename_i t ht
    exact FinG_pure (h t (List.mem_of_getElem? ht)).offset
  · exact FinG_throw

theorem FinG_optOffset {ts : List (GridTrack ER)} {i : Option Int} {d : ER} (h : TracksFin ts) (hd : IsFin d) :
    FinG IsFin (optOffset ts i d) := by
  unfold optOffset
  split
  · exact FinG_pure hd
  · exact FinG_trackOffset h

/-- "Position in-flow children": finite track offsets, finite child styles, finite baselines and shims ⇒ every query input
and every layout set is finite; the items come back with finite `y_position`, `height` -/
theorem FinG_positionItems {cs : List (GridChildStyle ER)} {rows cols : List (GridTrack ER)}
    {ji ai : Option AlignItems} (hcs : ∀ c ∈ cs, StyleFin c.base) (hr : TracksFin rows) (hc : TracksFin cols) :
    ∀ (items : List (GItem ER)) (index : Nat) (acc : Size ER),
      (∀ it ∈ items, OFin it.baseline ∧ IsFin it.baselineShim) → SFin acc →
      FinG (fun r => (∀ it ∈ r.1, ItemPosFin it) ∧ SFin r.2) (positionItems cs rows cols ji ai items index acc)
  | [], _, _, _, hacc => by
    unfold positionItems
    exact FinG_pure ⟨fun _ h => absurd h (List.not_mem_nil), hacc⟩
  | it :: rest, index, acc, hit, hacc => by
    unfold positionItems
    refine FinG_bind (FinG_trackOffset hr) fun top htop => ?_
    refine FinG_bind (FinG_trackOffset hr) fun bottom hbottom => ?_
    refine FinG_bind (FinG_trackOffset hc) fun left hleft => ?_
    refine FinG_bind (FinG_trackOffset hc) fun right hright => ?_
    split
    · exact FinG_throw
    · rename_i c hc'
      have hsc := hcs c (List.mem_of_getElem? hc')
      have hi := hit it (List.mem_cons_self ..)
      refine FinG_bind (FinG_alignAndPositionItem hsc ⟨hleft, hright, htop, hbottom⟩ hi.2) fun ⟨contribution, y, height⟩ hr' => ?_
      refine FinG_bind (FinG_positionItems hcs hr hc rest _ _ (fun x hx => hit x (List.mem_cons_of_mem _ hx))
        (fin_f32Max hacc hr'.1)) fun ⟨rest', acc'⟩ hr2 => ?_
      refine FinG_pure ⟨?_, hr2.2⟩
      intro x hx
      rcases List.mem_cons.mp hx with rfl | hx
      · exact ⟨hr'.2.1, hr'.2.2, hi.1⟩
      · exact hr2.1 x hx

/-- "Position hidden and absolutely positioned children" -/
theorem FinG_hiddenAbsLoop {c : Ctx ER} {bb : Size ER} {rows cols : List (GridTrack ER)}
    {cc rc : GridPlacement.TrackCounts} (hctx : CtxTailFin c) (hbb : SFin bb) (hr : TracksFin rows)
    (hc : TracksFin cols) :
    ∀ (l : List (GridChildStyle ER)) (index order : Nat) (acc : Size ER), (∀ s ∈ l, StyleFin s.base) → SFin acc →
      FinG SFin (hiddenAbsLoop c bb rows cols cc rc l index order acc)
  | [], _, _, _, _, hacc => by
    unfold hiddenAbsLoop
    exact FinG_pure hacc
  | s :: rest, index, order, acc, hl, hacc => by
    have hrest : ∀ s ∈ rest, StyleFin s.base := fun x hx => hl x (List.mem_cons_of_mem _ hx)
    unfold hiddenAbsLoop
    split
    · refine FinG_bind (FinG_call ⟨⟨trivial, trivial⟩, ⟨trivial, trivial⟩, ⟨trivial, trivial⟩⟩) fun _ _ => ?_
      refine FinG_bind (FinG_setLayout (fin_withOrder _)) fun _ _ => ?_
      exact FinG_hiddenAbsLoop hctx hbb hr hc rest _ _ _ hrest hacc
    · split
      · refine FinG_bind (Q := fun _ => True) (FinG_ofOutcome fun _ _ => trivial) fun colIdx _ => ?_
        refine FinG_bind (Q := fun _ => True) (FinG_ofOutcome fun _ _ => trivial) fun rowIdx _ => ?_
        refine FinG_bind (FinG_optOffset hr hctx.border.t) fun top htop => ?_
        refine FinG_bind (FinG_optOffset hr (fin_sub (fin_sub hbb.2 hctx.border.b) hctx.scrollbarGutter.2))
          fun bottom hbottom => ?_
        refine FinG_bind (FinG_optOffset hc hctx.border.l) fun left hleft => ?_
        refine FinG_bind (FinG_optOffset hc (fin_sub (fin_sub hbb.1 hctx.border.r) hctx.scrollbarGutter.1))
          fun right hright => ?_
        refine FinG_bind (FinG_alignAndPositionItem (hl s (List.mem_cons_self ..)) ⟨hleft, hright, htop, hbottom⟩ fin_zero)
          fun ⟨contribution, _, _⟩ hr' => ?_
        exact FinG_hiddenAbsLoop hctx hbb hr hc rest _ _ _ hrest (fin_f32Max hacc hr'.1)
      · exact FinG_hiddenAbsLoop hctx hbb hr hc rest _ _ _ hrest hacc

/-! ### the container baseline -/

theorem getD_find_takeWhile_mem {δ : Type} (p q : δ → Bool) (l : List δ) (d : δ) (hd : d ∈ l) :
    ((l.takeWhile q).find? p).getD d ∈ l := by
  cases h : (l.takeWhile q).find? p with
  | none => simpa using hd
  | some x =>
    simp only [Option.getD_some]
    exact (List.takeWhile_sublist q).subset (List.mem_of_find?_eq_some h)

theorem fin_gridContainerBaseline {items : List (GItem ER)} (h : ∀ it ∈ items, ItemPosFin it) :
    IsFin (gridContainerBaseline items) := by
  unfold gridContainerBaseline
  extract_lets s
  have hs : ∀ it ∈ s, ItemPosFin it := fun it hit => h it ((List.mergeSort_perm _ _).mem_iff.1 hit)
  clear_value s
  split
  · exact fin_zero
  · rename_i first tl
    have key : ∀ item, item ∈ first :: tl → IsFin (item.yPosition + item.baseline.getD item.height) :=
      fun item hi => fin_add (hs item hi).1 (fin_getD (hs item hi).2.2 (hs item hi).2.1)
    apply key
    exact getD_find_takeWhile_mem _ _ _ _ (List.mem_cons_self ..)

/-! ### steps 8 and 9 -/

/-- **gridTail** (track alignment, item positioning, the hidden/absolute loop, the output): finite tracks, a finite
container box, finite child styles ⇒ `FinG OutFin` -/
theorem FinG_gridTail {c : Ctx ER} {cs : List (GridChildStyle ER)} {bb cb : Size ER}
    {cc rc : GridPlacement.TrackCounts} {cols rows : List (GridTrack ER)} {items : List (GItem ER)}
    (hctx : CtxTailFin c) (hcs : ∀ s ∈ cs, StyleFin s.base) (hbb : SFin bb) (hcb : SFin cb) (hcols : TracksFin cols)
    (hrows : TracksFin rows) (hitems : ∀ it ∈ items, OFin it.baseline ∧ IsFin it.baselineShim) :
    FinG OutFin (gridTail c cs bb cb cc rc cols rows items) := by
  unfold gridTail
  have hc' := fin_alignTracks (style := c.justifyContent) hcb.1 hctx.padding.l hctx.border.l hcols
  have hr' := fin_alignTracks (style := c.alignContent) hcb.2 hctx.padding.t hctx.border.t hrows
  have hsorted : ∀ it ∈ items.mergeSort (fun a b => decide (a.sourceOrder ≤ b.sourceOrder)),
      OFin it.baseline ∧ IsFin it.baselineShim := fun it hit => hitems it ((List.mergeSort_perm _ _).mem_iff.1 hit)
  refine FinG_bind (FinG_positionItems hcs hr' hc' _ 0 _ hsorted fin_size_zero) fun ⟨items', ics⟩ h1 => ?_
  refine FinG_bind (FinG_hiddenAbsLoop hctx hbb hr' hc' cs 0 _ _ hcs h1.2) fun ics' h2 => ?_
  split
  · exact FinG_pure (fin_fromOuterSize hbb)
  · exact FinG_pure (fin_fromSizesAndBaselines hbb h2 ⟨trivial, fin_gridContainerBaseline h1.1⟩)

end C03Fin
