/-
  Progress of `distribute_space_up_to_limits` at exact rationals (for Props/C03Tracks.lean).
-/
import TaffyVerif.Lemmas.FrSize

namespace GridTracks

theorem thresholdDist_rat : (thresholdDist : Rat) = 1 / 100 := by
  show (((1 : Nat) : Rat) / ((100 : Nat) : Rat)) = 1 / 100
  norm_num

/-- the closures handed to `distribute_space_up_to_limits` never look at `item_incurred_increase` -/
def IncInvariant {β : Type} (f : GridTrack Rat → β) : Prop :=
  ∀ t x, f { t with itemIncurredIncrease := x } = f t

/-- the parameters of one call -/
structure DistParams where
  isAffected : GridTrack Rat → Bool
  proportion : GridTrack Rat → Rat
  affectedProp : GridTrack Rat → Rat
  limit : GridTrack Rat → Ext Rat

structure DistParams.WF (p : DistParams) : Prop where
  aff : IncInvariant p.isAffected
  prop : IncInvariant p.proportion
  ap : IncInvariant p.affectedProp
  lim : IncInvariant p.limit
  propNonneg : ∀ t, 0 ≤ p.proportion t

/-- a track that the loop still counts in `track_distribution_proportion_sum` -/
def growable (p : DistParams) (t : GridTrack Rat) : Bool :=
  (p.limit t).gtF (p.affectedProp t + t.itemIncurredIncrease) && p.isAffected t

/-- the test of the final `for` loop of one iteration: affected, positive increase, still growable, within the limit -/
def gives (p : DistParams) (iterInc : Rat) (t : GridTrack Rat) : Bool :=
  p.isAffected t && (Num.flt 0 (iterInc * p.proportion t) &&
    ((p.limit t).gtF (p.affectedProp t + t.itemIncurredIncrease) &&
      ((p.limit t).addF thresholdDist).geF (p.affectedProp t + iterInc * p.proportion t)))

/-- what the final `for` loop of one iteration does to one track -/
def applyOne (p : DistParams) (iterInc : Rat) (t : GridTrack Rat) : GridTrack Rat :=
  if gives p iterInc t then
    { t with itemIncurredIncrease := t.itemIncurredIncrease + iterInc * p.proportion t }
  else t

/-- the space one track takes in that loop -/
def takenOne (p : DistParams) (iterInc : Rat) (t : GridTrack Rat) : Rat :=
  if gives p iterInc t then iterInc * p.proportion t else 0

theorem distributeApply_eq (p : DistParams) (iterInc : Rat) (l : List (GridTrack Rat)) (space : Rat) :
    distributeApply iterInc p.isAffected p.proportion p.affectedProp p.limit l space
      = (l.map (applyOne p iterInc), space - (l.map (takenOne p iterInc)).sum) := by
  induction l generalizing space with
  | nil => simp [distributeApply]
  | cons t rest ih =>
    unfold distributeApply
    by_cases ha : p.isAffected t = true
    · simp only [ha, if_true]
      by_cases hc : (Num.flt 0 (iterInc * p.proportion t) &&
          ((p.limit t).gtF (p.affectedProp t + t.itemIncurredIncrease) &&
          ((p.limit t).addF thresholdDist).geF (p.affectedProp t + iterInc * p.proportion t))) = true
      · simp only [hc, if_true, ih, List.map_cons, List.sum_cons, applyOne, takenOne, gives, ha, Bool.true_and]
        ext <;> simp only [] ; ring
      · simp only [hc, ih, List.map_cons, List.sum_cons, applyOne, takenOne, gives, ha, Bool.true_and]
        ext <;> simp
    · simp only [ha, ih, List.map_cons, List.sum_cons, applyOne, takenOne, gives, Bool.false_and]
      ext <;> simp

theorem takenOne_nonneg (p : DistParams) (iterInc : Rat) (t : GridTrack Rat) : 0 ≤ takenOne p iterInc t := by
  unfold takenOne
  split
  · rename_i h
    simp only [gives, Bool.and_eq_true, rat_flt, decide_eq_true_eq] at h
    exact le_of_lt h.2.1
  · exact le_rfl

/-! ### `min_by` over extended values -/

/-- `x ≤ e` -/
def Ext.geR (e : Ext Rat) (x : Rat) : Prop := match e with | .fin g => x ≤ g | .inf => True
/-- `a ≤ b` -/
def Ext.leE (a b : Ext Rat) : Prop := match a, b with
  | .fin x, .fin y => x ≤ y
  | _, .inf => True
  | .inf, .fin _ => False

theorem Ext.leE_refl (a : Ext Rat) : Ext.leE a a := by cases a <;> simp [Ext.leE]
theorem Ext.leE_trans {a b c : Ext Rat} (h1 : Ext.leE a b) (h2 : Ext.leE b c) : Ext.leE a c := by
  cases a <;> cases b <;> cases c <;> simp_all [Ext.leE]
  exact le_trans h1 h2

theorem extStep_spec (acc y : Ext Rat) :
    (extStep acc y = acc ∨ extStep acc y = y) ∧ Ext.leE (extStep acc y) acc ∧ Ext.leE (extStep acc y) y := by
  cases acc with
  | inf => cases y <;> simp [extStep, Ext.leE]
  | fin a =>
    cases y with
    | inf => simp [extStep, Ext.leE]
    | fin b =>
      by_cases h : b < a
      · simp [extStep, Ext.leE, h, le_of_lt h]
      · simp [extStep, Ext.leE, h, not_lt.mp h]

theorem foldl_extStep (rest : List (Ext Rat)) (x : Ext Rat) :
    (rest.foldl extStep x ∈ x :: rest) ∧ ∀ e ∈ x :: rest, Ext.leE (rest.foldl extStep x) e := by
  induction rest generalizing x with
  | nil => simp [Ext.leE_refl]
  | cons y ys ih =>
    obtain ⟨hmem, hle⟩ := ih (extStep x y)
    obtain ⟨hor, h1, h2⟩ := extStep_spec x y
    simp only [List.foldl_cons]
    constructor
    · rcases List.mem_cons.mp hmem with h | h
      · rcases hor with e | e
        · rw [h, e]; simp
        · rw [h, e]; simp
      · exact List.mem_cons_of_mem _ (List.mem_cons_of_mem _ h)
    · intro e he
      have hfirst := hle (extStep x y) List.mem_cons_self
      rcases List.mem_cons.mp he with rfl | he'
      · exact Ext.leE_trans hfirst h1
      · rcases List.mem_cons.mp he' with rfl | he''
        · exact Ext.leE_trans hfirst h2
        · exact hle e (List.mem_cons_of_mem _ he'')

theorem extMinList_spec (l : List (Ext Rat)) (m : Ext Rat) (h : extMinList l = some m) :
    m ∈ l ∧ ∀ e ∈ l, Ext.leE m e := by
  cases l with
  | nil => simp [extMinList] at h
  | cons x rest =>
    simp only [extMinList, Option.some.injEq] at h
    have := foldl_extStep rest x
    rw [← h]; exact this

theorem sum_filter_map {β : Type} (l : List β) (q : β → Bool) (f : β → Rat) :
    ((l.filter q).map f).sum = (l.map fun t => if q t then f t else 0).sum := by
  induction l with
  | nil => simp
  | cons a rest ih =>
    by_cases h : q a = true
    · simp [List.filter_cons, h, ih]
    · simp [List.filter_cons, h, ih]

theorem sum_map_mul_left' {β : Type} (l : List β) (c : Rat) (f : β → Rat) :
    (l.map fun t => c * f t).sum = c * (l.map f).sum := by
  induction l with
  | nil => simp
  | cons a rest ih => simp only [List.map_cons, List.sum_cons, ih]; ring

theorem sum_le_sum_map {β : Type} (l : List β) (f g : β → Rat) (h : ∀ t ∈ l, f t ≤ g t) :
    (l.map f).sum ≤ (l.map g).sum := by
  induction l with
  | nil => simp
  | cons a rest ih =>
    simp only [List.map_cons, List.sum_cons]
    have := ih fun t ht => h t (List.mem_cons_of_mem _ ht)
    linarith [h a List.mem_cons_self]

theorem sum_map_nonneg {β : Type} (l : List β) (f : β → Rat) (h : ∀ t ∈ l, 0 ≤ f t) : 0 ≤ (l.map f).sum := by
  induction l with
  | nil => simp
  | cons a rest ih =>
    simp only [List.map_cons, List.sum_cons]
    have := ih fun t ht => h t (List.mem_cons_of_mem _ ht)
    linarith [h a List.mem_cons_self]

/-! ### the loop -/

def dist (p : DistParams) (fuel : Nat) (space : Rat) (tracks : List (GridTrack Rat)) : Rat × List (GridTrack Rat) :=
  distributeSpaceUpToLimits fuel space tracks p.isAffected p.proportion p.affectedProp p.limit

def propSumOf (p : DistParams) (tracks : List (GridTrack Rat)) : Rat :=
  ((tracks.filter (growable p)).map p.proportion).sum

def minLimitOf (p : DistParams) (tracks : List (GridTrack Rat)) : Option (Ext Rat) :=
  extMinList ((tracks.filter (growable p)).map fun t => (p.limit t).subDiv (p.affectedProp t) (p.proportion t))

theorem dist_zero (p : DistParams) (space : Rat) (tracks : List (GridTrack Rat)) :
    dist p 0 space tracks = (space, tracks) := rfl

theorem dist_succ (p : DistParams) (fuel : Nat) (space : Rat) (tracks : List (GridTrack Rat)) :
    dist p (fuel + 1) space tracks =
      if ¬ (1 / 100 < space) then (space, tracks) else
      if propSumOf p tracks = 0 then (space, tracks) else
      match minLimitOf p tracks with
      | none => (space, tracks)
      | some m =>
        dist p fuel (space - (tracks.map (takenOne p (m.minF (space / propSumOf p tracks)))).sum)
          (tracks.map (applyOne p (m.minF (space / propSumOf p tracks)))) := by
  unfold dist
  conv_lhs => unfold distributeSpaceUpToLimits
  simp only [rat_flt, thresholdDist_rat, sumF_rat, rat_feq, distributeApply_eq]
  have hg : (tracks.filter fun t => (p.limit t).gtF (p.affectedProp t + t.itemIncurredIncrease) && p.isAffected t)
      = tracks.filter (growable p) := rfl
  simp only [hg]
  by_cases h1 : (1 : Rat) / 100 < space
  · simp only [h1, decide_true, Bool.not_true, Bool.false_eq_true, if_false, not_true_eq_false]
    by_cases h2 : propSumOf p tracks = 0
    · have h2' : ((tracks.filter (growable p)).map p.proportion).sum = 0 := h2
      simp [h2, h2']
    · have h2' : ¬ ((tracks.filter (growable p)).map p.proportion).sum = 0 := h2
      simp only [h2, h2', decide_false, Bool.false_eq_true, if_false]
      unfold minLimitOf propSumOf
      cases extMinList ((tracks.filter (growable p)).map fun t =>
        (p.limit t).subDiv (p.affectedProp t) (p.proportion t)) <;> rfl
  · simp only [h1, decide_false, Bool.not_false, if_true, not_false_eq_true]

/-- loop invariant: increases so far are non-negative -/
def IncNonneg (tracks : List (GridTrack Rat)) : Prop := ∀ t ∈ tracks, 0 ≤ t.itemIncurredIncrease

/-- a track that can still make the loop run: growable with a positive share -/
def counted (p : DistParams) (t : GridTrack Rat) : Bool := growable p t && decide (0 < p.proportion t)

def distMeasure (p : DistParams) (tracks : List (GridTrack Rat)) : Nat := (tracks.filter (counted p)).length

theorem applyOne_inc (p : DistParams) (c : Rat) (t : GridTrack Rat) :
    applyOne p c t = t ∨
      (0 < c * p.proportion t ∧ applyOne p c t = { t with itemIncurredIncrease := t.itemIncurredIncrease + c * p.proportion t }) := by
  unfold applyOne
  split
  · rename_i h
    simp only [gives, Bool.and_eq_true, rat_flt, decide_eq_true_eq] at h
    exact Or.inr ⟨h.2.1, rfl⟩
  · exact Or.inl rfl

theorem applyOne_nonneg (p : DistParams) (c : Rat) (tracks : List (GridTrack Rat)) (h : IncNonneg tracks) :
    IncNonneg (tracks.map (applyOne p c)) := by
  intro t' ht'
  obtain ⟨t, ht, rfl⟩ := List.mem_map.mp ht'
  rcases applyOne_inc p c t with e | ⟨hpos, e⟩
  · rw [e]; exact h t ht
  · rw [e]; simp only []; linarith [h t ht]

/-- a track only leaves the counted set -/
theorem counted_applyOne (p : DistParams) (hp : p.WF) (c : Rat) (t : GridTrack Rat)
    (h : counted p (applyOne p c t) = true) : counted p t = true := by
  rcases applyOne_inc p c t with e | ⟨hpos, e⟩
  · rw [e] at h; exact h
  · rw [e] at h
    unfold counted growable at h ⊢
    simp only [hp.aff _ _, hp.prop _ _, hp.ap _ _, hp.lim _ _] at h
    simp only [Bool.and_eq_true, decide_eq_true_eq] at h ⊢
    refine ⟨⟨?_, h.1.2⟩, h.2⟩
    have h1 := h.1.1
    cases hl : p.limit t with
    | inf => simp [Ext.gtF]
    | fin L =>
      simp only [hl, Ext.gtF, rat_flt, decide_eq_true_eq] at h1 ⊢
      linarith

/-- a growable track with a positive share receives its increase whenever the increase respects its own limit -/
theorem takenOne_of_counted (p : DistParams) (c : Rat) (hc : 0 < c) (t : GridTrack Rat) (hcnt : counted p t = true)
    (hle : Ext.geR ((p.limit t).subDiv (p.affectedProp t) (p.proportion t)) c) :
    takenOne p c t = c * p.proportion t ∧
      applyOne p c t = { t with itemIncurredIncrease := t.itemIncurredIncrease + c * p.proportion t } := by
  unfold counted growable at hcnt
  simp only [Bool.and_eq_true, decide_eq_true_eq] at hcnt
  obtain ⟨⟨hgt, haff⟩, hprop⟩ := hcnt
  have hpos : 0 < c * p.proportion t := mul_pos hc hprop
  have hcheck : ((p.limit t).addF thresholdDist).geF (p.affectedProp t + c * p.proportion t) = true := by
    cases hl : p.limit t with
    | inf => simp [Ext.addF, Ext.geF]
    | fin L =>
      have hne : ¬ (p.proportion t = 0) := ne_of_gt hprop
      simp only [hl, Ext.subDiv, rat_feq, hne, decide_false, Bool.false_eq_true, if_false, Ext.geR] at hle
      have : c * p.proportion t ≤ L - p.affectedProp t := by
        have := mul_le_mul_of_nonneg_right hle (le_of_lt hprop)
        rwa [div_mul_cancel₀ _ hne] at this
      simp only [Ext.addF, Ext.geF, rat_fle, thresholdDist_rat, decide_eq_true_eq]
      linarith
  unfold takenOne applyOne
  simp [gives, haff, hpos, hcheck, hgt]

theorem dist_exit (p : DistParams) (fuel : Nat) (space : Rat) (tracks : List (GridTrack Rat))
    (h : ¬ (1 / 100 < space)) : dist p fuel space tracks = (space, tracks) := by
  cases fuel with
  | zero => rfl
  | succ k => rw [dist_succ, if_pos h]

/-- one iteration either uses the space up or retires a track for good -/
theorem dist_progress (p : DistParams) (hp : p.WF) (space : Rat) (tracks : List (GridTrack Rat))
    (hinc : IncNonneg tracks) (hs : 1 / 100 < space) (hsum : propSumOf p tracks ≠ 0) (m : Ext Rat)
    (hm : minLimitOf p tracks = some m) :
    let c := m.minF (space / propSumOf p tracks)
    space - (tracks.map (takenOne p c)).sum ≤ 0 ∨
      distMeasure p (tracks.map (applyOne p c)) < distMeasure p tracks := by
  intro c
  obtain ⟨hmem, hmin⟩ := extMinList_spec _ m hm
  have hsumpos : 0 < propSumOf p tracks := by
    have : 0 ≤ propSumOf p tracks := sum_map_nonneg _ _ fun t _ => hp.propNonneg t
    exact lt_of_le_of_ne this (Ne.symm hsum)
  have hspos : 0 < space := by linarith
  have hq : 0 < space / propSumOf p tracks := div_pos hspos hsumpos
  -- every growable track's own bound is at least `m`, and `m` is positive
  have hbound : ∀ t ∈ tracks, growable p t = true →
      Ext.leE m ((p.limit t).subDiv (p.affectedProp t) (p.proportion t)) := by
    intro t ht hg
    apply hmin
    exact List.mem_map.mpr ⟨t, List.mem_filter.mpr ⟨ht, hg⟩, rfl⟩
  have hmpos : ∀ g, m = .fin g → 0 < g := by
    intro g hg
    rw [hg] at hmem
    obtain ⟨a, ha, hae⟩ := List.mem_map.mp hmem
    obtain ⟨hat, hag⟩ := List.mem_filter.mp ha
    unfold growable at hag
    simp only [Bool.and_eq_true] at hag
    cases hl : p.limit a with
    | inf => simp [hl, Ext.subDiv] at hae
    | fin L =>
      simp only [hl, Ext.subDiv, rat_feq] at hae
      by_cases h0 : p.proportion a = 0
      · simp [h0] at hae
      · simp only [h0, decide_false, Bool.false_eq_true, if_false, Ext.fin.injEq] at hae
        have hpa : 0 < p.proportion a := lt_of_le_of_ne (hp.propNonneg a) (Ne.symm h0)
        have h1 := hag.1
        simp only [hl, Ext.gtF, rat_flt, decide_eq_true_eq] at h1
        have := hinc a hat
        rw [← hae]; exact div_pos (by linarith) hpa
  have hcpos : 0 < c := by
    show 0 < m.minF (space / propSumOf p tracks)
    cases hme : m with
    | inf => simpa [Ext.minF] using hq
    | fin g => simp only [Ext.minF, rat_fmin]; exact lt_min (hmpos g hme) hq
  have hcle : Ext.leE (.fin c) m := by
    show Ext.leE (.fin (m.minF (space / propSumOf p tracks))) m
    cases m with
    | inf => simp [Ext.leE]
    | fin g => simp only [Ext.minF, rat_fmin, Ext.leE]; exact min_le_left _ _
  have hgeR : ∀ t ∈ tracks, growable p t = true →
      Ext.geR ((p.limit t).subDiv (p.affectedProp t) (p.proportion t)) c := by
    intro t ht hg
    have := Ext.leE_trans hcle (hbound t ht hg)
    cases hsd : (p.limit t).subDiv (p.affectedProp t) (p.proportion t) with
    | inf => simp [Ext.geR]
    | fin y => rw [hsd] at this; simpa [Ext.geR, Ext.leE] using this
  by_cases hcase : c = space / propSumOf p tracks
  · -- the whole space is handed out
    left
    have hge : ∀ t ∈ tracks, (if growable p t then c * p.proportion t else 0) ≤ takenOne p c t := by
      intro t ht
      by_cases hg : growable p t = true
      · simp only [hg, if_true]
        by_cases hprop : 0 < p.proportion t
        · have hcnt : counted p t = true := by simp [counted, hg, hprop]
          rw [(takenOne_of_counted p c hcpos t hcnt (hgeR t ht hg)).1]
        · have : p.proportion t = 0 := le_antisymm (not_lt.mp hprop) (hp.propNonneg t)
          rw [this, mul_zero]; exact takenOne_nonneg p c t
      · simp only [hg, Bool.false_eq_true, if_false]; exact takenOne_nonneg p c t
    have h1 := sum_le_sum_map tracks _ _ hge
    have h2 : (tracks.map fun t => if growable p t then c * p.proportion t else 0).sum = c * propSumOf p tracks := by
      unfold propSumOf
      rw [sum_filter_map, ← sum_map_mul_left']
      congr 1
      apply List.map_congr_left
      intro t _
      split <;> simp
    have h3 : c * propSumOf p tracks = space := by
      rw [hcase]; exact div_mul_cancel₀ _ (ne_of_gt hsumpos)
    linarith
  · -- the arg-min track reaches its limit
    right
    have hmfin : ∃ g, m = .fin g ∧ c = g := by
      cases hme : m with
      | inf => exfalso; apply hcase; show m.minF _ = _; rw [hme]; rfl
      | fin g =>
        refine ⟨g, rfl, ?_⟩
        show m.minF _ = g
        rw [hme]
        simp only [Ext.minF, rat_fmin]
        rcases le_total g (space / propSumOf p tracks) with h | h
        · exact min_eq_left h
        · exfalso; apply hcase
          show m.minF _ = _
          rw [hme]; simp only [Ext.minF, rat_fmin]; exact min_eq_right h
    obtain ⟨g, hmg, hcg⟩ := hmfin
    rw [hmg] at hmem
    obtain ⟨a, ha, hae⟩ := List.mem_map.mp hmem
    obtain ⟨hat, hag⟩ := List.mem_filter.mp ha
    -- `a` has a finite limit and a positive share
    obtain ⟨L, hl, h0, hgv⟩ : ∃ L, p.limit a = .fin L ∧ p.proportion a ≠ 0 ∧ (L - p.affectedProp a) / p.proportion a = g := by
      cases hl : p.limit a with
      | inf => simp [hl, Ext.subDiv] at hae
      | fin L =>
        simp only [hl, Ext.subDiv, rat_feq] at hae
        by_cases h0 : p.proportion a = 0
        · simp [h0] at hae
        · simp only [h0, decide_false, Bool.false_eq_true, if_false, Ext.fin.injEq] at hae
          exact ⟨L, rfl, h0, hae⟩
    have hpa : 0 < p.proportion a := lt_of_le_of_ne (hp.propNonneg a) (Ne.symm h0)
    have hcnt : counted p a = true := by simp [counted, hag, hpa]
    have happ := (takenOne_of_counted p c hcpos a hcnt (hgeR a hat hag)).2
    unfold distMeasure
    have hfm : ((tracks.map (applyOne p c)).filter (counted p)).length
        = (tracks.filter fun t => counted p (applyOne p c t)).length := by
      rw [List.filter_map, List.length_map]; rfl
    rw [hfm]
    apply filter_length_lt
    · intro t _ h; exact counted_applyOne p hp c t h
    · refine ⟨a, hat, hcnt, ?_⟩
      rw [happ]
      unfold counted growable
      simp only [hp.aff _ _, hp.prop _ _, hp.ap _ _, hp.lim _ _, hl, Ext.gtF, rat_flt]
      have hcp : c * p.proportion a = L - p.affectedProp a := by
        rw [hcg, ← hgv]; exact div_mul_cancel₀ _ h0
      have hia := hinc a hat
      have : ¬ (p.affectedProp a + (a.itemIncurredIncrease + c * p.proportion a) < L) := by
        rw [hcp]; intro h; linarith
      simp [this]

/-- **termination with an explicit bound**: once the fuel exceeds the number of growable tracks with a positive share,
the result no longer depends on it (the loop left through one of its own exits) -/
theorem dist_fuel_irrelevant (p : DistParams) (hp : p.WF) :
    ∀ (fuel₁ : Nat) (space : Rat) (tracks : List (GridTrack Rat)) (fuel₂ : Nat), IncNonneg tracks →
      distMeasure p tracks < fuel₁ → distMeasure p tracks < fuel₂ →
      dist p fuel₁ space tracks = dist p fuel₂ space tracks := by
  intro fuel₁
  induction fuel₁ with
  | zero => intro _ _ _ _ h; omega
  | succ k ih =>
    intro space tracks fuel₂ hinc h1 h2
    obtain ⟨k₂, rfl⟩ : ∃ k₂, fuel₂ = k₂ + 1 := ⟨fuel₂ - 1, by omega⟩
    rw [dist_succ, dist_succ]
    by_cases hs : (1 : Rat) / 100 < space
    · simp only [hs, not_true_eq_false, if_false]
      by_cases hsum : propSumOf p tracks = 0
      · simp [hsum]
      · simp only [hsum, if_false]
        cases hm : minLimitOf p tracks with
        | none => rfl
        | some m =>
          simp only []
          have hprog := dist_progress p hp space tracks hinc hs hsum m hm
          have hinc' := applyOne_nonneg p (m.minF (space / propSumOf p tracks)) tracks hinc
          rcases hprog with hdone | hless
          · rw [dist_exit p k _ _ (by intro h; linarith), dist_exit p k₂ _ _ (by intro h; linarith)]
          · exact ih _ _ k₂ hinc' (by omega) (by omega)
    · rw [if_pos hs, if_pos hs]

theorem distMeasure_le (p : DistParams) (tracks : List (GridTrack Rat)) : distMeasure p tracks ≤ tracks.length :=
  List.length_filter_le _ _

/-- a track the final loop can never give space to: not selected, or not growable any more -/
def protectedTrack (p : DistParams) (t : GridTrack Rat) : Prop :=
  p.isAffected t = false ∨ (p.limit t).gtF (p.affectedProp t + t.itemIncurredIncrease) = false

theorem applyOne_protected (p : DistParams) (c : Rat) (t : GridTrack Rat) (h : protectedTrack p t) :
    applyOne p c t = t := by
  rcases h with h | h <;> simp [applyOne, gives, h]

/-- the loop is a per-track map that only ever writes `item_incurred_increase` and leaves protected tracks alone -/
theorem dist_map (p : DistParams) :
    ∀ (fuel : Nat) (space : Rat) (tracks : List (GridTrack Rat)),
      ∃ f : GridTrack Rat → GridTrack Rat, (∀ t, protectedTrack p t → f t = t) ∧
        (∀ t, ∃ x, f t = { t with itemIncurredIncrease := x }) ∧
        (dist p fuel space tracks).2 = tracks.map f := by
  intro fuel
  induction fuel with
  | zero => intro space tracks; exact ⟨id, fun _ _ => rfl, fun t => ⟨t.itemIncurredIncrease, rfl⟩, by simp [dist_zero]⟩
  | succ k ih =>
    intro space tracks
    have hid : ∃ f : GridTrack Rat → GridTrack Rat, (∀ t, protectedTrack p t → f t = t) ∧
        (∀ t, ∃ x, f t = { t with itemIncurredIncrease := x }) ∧ tracks = tracks.map f :=
      ⟨id, fun _ _ => rfl, fun t => ⟨t.itemIncurredIncrease, rfl⟩, by simp⟩
    rw [dist_succ]
    split
    · exact hid
    · split
      · exact hid
      · split
        · exact hid
        · rename_i m _
          obtain ⟨f, hf, hx, he⟩ := ih (space - (tracks.map (takenOne p (m.minF (space / propSumOf p tracks)))).sum)
            (tracks.map (applyOne p (m.minF (space / propSumOf p tracks))))
          refine ⟨f ∘ applyOne p (m.minF (space / propSumOf p tracks)), ?_, ?_, by rw [he, List.map_map]⟩
          · intro t ht
            simp only [Function.comp, applyOne_protected p _ t ht]
            exact hf t ht
          · intro t
            simp only [Function.comp]
            rcases applyOne_inc p (m.minF (space / propSumOf p tracks)) t with e | ⟨_, e⟩
            · rw [e]; exact hx t
            · rw [e]
              obtain ⟨x, hxe⟩ := hx { t with itemIncurredIncrease :=
                t.itemIncurredIncrease + m.minF (space / propSumOf p tracks) * p.proportion t }
              exact ⟨x, by rw [hxe]⟩

end GridTracks
