/-
  C06 for flexbox, part 2: every stage of `compute_preliminary` that talks to children (steps 3, "determine container
  main size", 7, baselines) is self-equivalent (`SelfEq`) on item lists that address non-`abs` children only, and every
  stage keeps the index invariant.
-/
import TaffyVerif.Lemmas.FlexAbsBasic

set_option linter.unusedSectionVars false

namespace FlexAbs
open FlexModel FlexStages C06
variable {α : Type} [Num α]

/-- "not an absolutely positioned child" -/
abbrev NA (abs : Nat → Prop) : Nat → Prop := fun i => ¬ abs i

/-! ### step 3: determine_flex_base_size -/

theorem flexBaseSizeItem_self (abs : Nat → Prop) (k : AlgoConstants α) (av : Size (AvailableSpace α)) (cs : Style α)
    (child : FlexItem α) (hn : ¬ abs child.nodeIdx) :
    SelfEq abs (fun c => c.nodeIdx = child.nodeIdx) (flexBaseSizeItem k av cs child) := by
  unfold flexBaseSizeItem
  refine SelfEq.bind (P := fun _ => True) ?_ fun fb _ => ?_
  · split
    · exact SelfEq.pure _ trivial
    · exact measure_self abs _ _ _ _ _ _ _ hn
  · exact SelfEq.bind (measure_self abs _ _ _ _ _ _ _ hn) fun mc _ => SelfEq.pure _ rfl

theorem determineFlexBaseSize_self (abs : Nat → Prop) (k : AlgoConstants α) (av : Size (AvailableSpace α))
    (styleOf : Nat → Style α) : ∀ (items : List (FlexItem α)), ItemsOK (NA abs) items →
      SelfEq abs (ItemsOK (NA abs)) (determineFlexBaseSize k av styleOf items)
  | [], _ => SelfEq.pure _ (ItemsOK.nil _)
  | child :: rest, h => by
    unfold determineFlexBaseSize
    refine SelfEq.bind (flexBaseSizeItem_self abs k av _ child h.head) fun c hc => ?_
    refine SelfEq.bind (determineFlexBaseSize_self abs k av styleOf rest h.tail) fun r hr => ?_
    exact SelfEq.pure _ (ItemsOK.cons (by rw [hc]; exact h.head) hr)

/-- step 3 reads the style of the items' own children only -/
theorem determineFlexBaseSize_congr (k : AlgoConstants α) (av : Size (AvailableSpace α)) (s1 s2 : Nat → Style α) :
    ∀ (items : List (FlexItem α)), (∀ it ∈ items, s1 it.nodeIdx = s2 it.nodeIdx) →
      determineFlexBaseSize k av s1 items = determineFlexBaseSize k av s2 items
  | [], _ => rfl
  | child :: rest, h => by
    unfold determineFlexBaseSize
    rw [h child List.mem_cons_self,
      determineFlexBaseSize_congr k av s1 s2 rest fun it hit => h it (List.mem_cons_of_mem _ hit)]

/-! ### step 5: collect_flex_lines -/

theorem ItemsOK.take {G : Nat → Prop} {l : List (FlexItem α)} (n : Nat) (h : ItemsOK G l) : ItemsOK G (l.take n) :=
  fun it hit => h it (List.mem_of_mem_take hit)
theorem ItemsOK.drop {G : Nat → Prop} {l : List (FlexItem α)} (n : Nat) (h : ItemsOK G l) : ItemsOK G (l.drop n) :=
  fun it hit => h it (List.mem_of_mem_drop hit)

theorem splitLines_ok (G : Nat → Prop) (dir : FlexDirection) (avail gap : α) :
    ∀ (fuel : Nat) (items : List (FlexItem α)), ItemsOK G items → LinesOK G (splitLines dir avail gap fuel items)
  | 0, _, _ => by unfold splitLines; exact LinesOK.nil _
  | _ + 1, [], _ => by unfold splitLines; exact LinesOK.nil _
  | fuel + 1, a :: l, h => by
    unfold splitLines
    exact LinesOK.cons (h.take _) (splitLines_ok G dir avail gap fuel _ (h.drop _))

theorem collectFlexLines_ok (G : Nat → Prop) (k : AlgoConstants α) (av : Size (AvailableSpace α))
    (items : List (FlexItem α)) (h : ItemsOK G items) : LinesOK G (collectFlexLines k av items) := by
  have h1 : LinesOK G [mkLine items] := LinesOK.cons h (LinesOK.nil _)
  unfold collectFlexLines
  split
  · exact h1
  · dsimp only
    split
    · exact h1
    · intro l hl
      obtain ⟨x, hx, rfl⟩ := List.mem_map.1 hl
      exact ItemsOK.cons (h x hx) (ItemsOK.nil _)
    · exact splitLines_ok G _ _ _ _ _ h

/-! ### determine_container_main_size -/

theorem intrinsicItem_self (abs : Nat → Prop) (k : AlgoConstants α) (av : Size (AvailableSpace α)) (inset : α)
    (item : FlexItem α) (hn : ¬ abs item.nodeIdx) :
    SelfEq abs (fun c => c.nodeIdx = item.nodeIdx) (intrinsicItem k av inset item) := by
  unfold intrinsicItem
  refine SelfEq.bind (P := fun _ => True) ?_ fun cc _ => SelfEq.pure _ rfl
  dsimp only
  repeat' split
  all_goals first
    | exact SelfEq.pure _ trivial
    | (refine SelfEq.bind (measure_self abs _ _ _ _ _ _ _ hn) fun m _ => ?_
       first | exact SelfEq.pure _ trivial | (split <;> exact SelfEq.pure _ trivial))

theorem intrinsicItems_self (abs : Nat → Prop) (k : AlgoConstants α) (av : Size (AvailableSpace α)) (inset : α) :
    ∀ (items : List (FlexItem α)), ItemsOK (NA abs) items →
      SelfEq abs (ItemsOK (NA abs)) (intrinsicItems k av inset items)
  | [], _ => SelfEq.pure _ (ItemsOK.nil _)
  | item :: rest, h => by
    unfold intrinsicItems
    refine SelfEq.bind (intrinsicItem_self abs k av inset item h.head) fun c hc => ?_
    refine SelfEq.bind (intrinsicItems_self abs k av inset rest h.tail) fun r hr => ?_
    exact SelfEq.pure _ (ItemsOK.cons (by rw [hc]; exact h.head) hr)

theorem intrinsicTarget_idx (dir : FlexDirection) (item : FlexItem α) :
    (intrinsicTarget dir item).1.nodeIdx = item.nodeIdx := rfl

theorem intrinsicLines_self (abs : Nat → Prop) (k : AlgoConstants α) (av : Size (AvailableSpace α)) (inset : α) :
    ∀ (lines : List (FlexLineS α)) (ms : α), LinesOK (NA abs) lines →
      SelfEq abs (fun r => LinesOK (NA abs) r.1) (intrinsicLines k av inset lines ms)
  | [], _, _ => SelfEq.pure _ (LinesOK.nil _)
  | line :: rest, ms, h => by
    unfold intrinsicLines
    refine SelfEq.bind (intrinsicItems_self abs k av inset line.items h.head) fun items hi => ?_
    dsimp only
    refine SelfEq.bind (intrinsicLines_self abs k av inset rest _ h.tail) fun r hr => ?_
    refine SelfEq.pure _ (LinesOK.cons ?_ hr)
    show ItemsOK (NA abs) (List.map (·.1) (List.map (intrinsicTarget k.dir) items))
    rw [List.map_map]
    exact hi.map _ fun _ => rfl

theorem determineContainerMainSize_self (abs : Nat → Prop) (k : AlgoConstants α) (av : Size (AvailableSpace α))
    (lines : List (FlexLineS α)) (h : LinesOK (NA abs) lines) :
    SelfEq abs (fun r => LinesOK (NA abs) r.1) (determineContainerMainSize k av lines) := by
  unfold determineContainerMainSize
  refine SelfEq.bind (P := fun r => LinesOK (NA abs) r.1) ?_ fun r hr => SelfEq.pure _ hr
  dsimp only
  split
  · exact SelfEq.pure _ h
  · split
    · exact SelfEq.pure _ h
    · split
      · exact SelfEq.pure _ h
      · exact SelfEq.bind (intrinsicLines_self abs k av _ lines 0 h) fun r hr => SelfEq.pure _ hr
    · exact SelfEq.bind (intrinsicLines_self abs k av _ lines 0 h) fun r hr => SelfEq.pure _ hr

theorem mainStage_self (abs : Nat → Prop) (style : Style α) (k : AlgoConstants α) (av : Size (AvailableSpace α))
    (lines : List (FlexLineS α)) (h : LinesOK (NA abs) lines) :
    SelfEq abs (fun r => LinesOK (NA abs) r.1) (mainStage style k av lines) := by
  unfold mainStage
  split
  · exact SelfEq.pure _ h
  · exact SelfEq.bind (determineContainerMainSize_self abs k av lines h) fun r hr => SelfEq.pure _ hr

/-! ### step 6: resolve_flexible_lengths (pure) -/

theorem zipBack_ok (G : Nat → Prop) (dir : FlexDirection) : ∀ (is : List (FlexItem α)) (ms : List (FlexLine.FlexItemM α)),
    ItemsOK G is → ItemsOK G (zipBack dir is ms)
  | [], _, h => by
    unfold zipBack
    exact h
  | i :: is, [], h => by
    unfold zipBack
    exact h
  | i :: is, m :: ms, h => by
    unfold zipBack
    exact ItemsOK.cons (a := fromM dir i m) h.head (zipBack_ok G dir is ms h.tail)

theorem resolveFlexibleLengthsLine_ok [FlexLine.NumX α] (G : Nat → Prop) (k : AlgoConstants α) (line : FlexLineS α)
    (h : ItemsOK G line.items) : ItemsOK G (resolveFlexibleLengthsLine k line).items := by
  unfold resolveFlexibleLengthsLine
  dsimp only
  split
  · exact zipBack_ok G _ _ _ h
  · exact h

/-! ### step 7: determine_hypothetical_cross_size -/

theorem hypotheticalCrossItem_self (abs : Nat → Prop) (k : AlgoConstants α) (av : Size (AvailableSpace α))
    (child : FlexItem α) (hn : ¬ abs child.nodeIdx) :
    SelfEq abs (fun c => c.nodeIdx = child.nodeIdx) (hypotheticalCrossItem k av child) := by
  unfold hypotheticalCrossItem
  refine SelfEq.bind (P := fun _ => True) ?_ fun cc _ => SelfEq.pure _ rfl
  split
  · exact SelfEq.pure _ trivial
  · exact SelfEq.bind (measure_self abs _ _ _ _ _ _ _ hn) fun m _ => SelfEq.pure _ trivial

theorem hypotheticalCrossItems_self (abs : Nat → Prop) (k : AlgoConstants α) (av : Size (AvailableSpace α)) :
    ∀ (items : List (FlexItem α)), ItemsOK (NA abs) items →
      SelfEq abs (ItemsOK (NA abs)) (hypotheticalCrossItems k av items)
  | [], _ => SelfEq.pure _ (ItemsOK.nil _)
  | item :: rest, h => by
    unfold hypotheticalCrossItems
    refine SelfEq.bind (hypotheticalCrossItem_self abs k av item h.head) fun c hc => ?_
    refine SelfEq.bind (hypotheticalCrossItems_self abs k av rest h.tail) fun r hr => ?_
    exact SelfEq.pure _ (ItemsOK.cons (by rw [hc]; exact h.head) hr)

theorem determineHypotheticalCrossSize_self (abs : Nat → Prop) (k : AlgoConstants α) (av : Size (AvailableSpace α)) :
    ∀ (lines : List (FlexLineS α)), LinesOK (NA abs) lines →
      SelfEq abs (LinesOK (NA abs)) (determineHypotheticalCrossSize k av lines)
  | [], _ => SelfEq.pure _ (LinesOK.nil _)
  | line :: rest, h => by
    unfold determineHypotheticalCrossSize
    refine SelfEq.bind (hypotheticalCrossItems_self abs k av line.items h.head) fun items hi => ?_
    refine SelfEq.bind (determineHypotheticalCrossSize_self abs k av rest h.tail) fun r hr => ?_
    exact SelfEq.pure _ (LinesOK.cons hi hr)

/-! ### calculate_children_base_lines -/

theorem baselineItems_self (abs : Nat → Prop) (k : AlgoConstants α) (ns : Size (Option α))
    (av : Size (AvailableSpace α)) : ∀ (items : List (FlexItem α)), ItemsOK (NA abs) items →
      SelfEq abs (ItemsOK (NA abs)) (baselineItems k ns av items)
  | [], _ => SelfEq.pure _ (ItemsOK.nil _)
  | child :: rest, h => by
    unfold baselineItems
    split
    · refine SelfEq.bind (baselineItems_self abs k ns av rest h.tail) fun r hr => ?_
      exact SelfEq.pure _ (ItemsOK.cons h.head hr)
    · refine AbsEquiv.call child.nodeIdx _ _ _ h.head fun oA oB ho => ?_
      have e1 : oA.firstBaselines = oB.firstBaselines := ho.2.1
      have e2 : oA.size = oB.size := ho.1
      simp only [ProgM.bind]
      rw [e1, e2]
      refine SelfEq.bind (baselineItems_self abs k ns av rest h.tail) fun r hr => ?_
      exact SelfEq.pure _ (ItemsOK.cons (a := { child with baseline := _ }) h.head hr)

theorem baselineLines_self (abs : Nat → Prop) (k : AlgoConstants α) (ns : Size (Option α))
    (av : Size (AvailableSpace α)) : ∀ (lines : List (FlexLineS α)), LinesOK (NA abs) lines →
      SelfEq abs (LinesOK (NA abs)) (baselineLines k ns av lines)
  | [], _ => SelfEq.pure _ (LinesOK.nil _)
  | line :: rest, h => by
    unfold baselineLines
    refine SelfEq.bind (P := fun l => ItemsOK (NA abs) l.items) ?_ fun l hl => ?_
    · split
      · exact SelfEq.pure _ h.head
      · exact SelfEq.bind (baselineItems_self abs k ns av line.items h.head) fun r hr => SelfEq.pure _ hr
    · refine SelfEq.bind (baselineLines_self abs k ns av rest h.tail) fun r hr => ?_
      exact SelfEq.pure _ (LinesOK.cons hl hr)

theorem calculateChildrenBaseLines_self (abs : Nat → Prop) (k : AlgoConstants α) (ns : Size (Option α))
    (av : Size (AvailableSpace α)) (lines : List (FlexLineS α)) (h : LinesOK (NA abs) lines) :
    SelfEq abs (LinesOK (NA abs)) (calculateChildrenBaseLines k ns av lines) := by
  unfold calculateChildrenBaseLines
  split
  · exact SelfEq.pure _ h
  · exact baselineLines_self abs k ns av lines h

end FlexAbs
