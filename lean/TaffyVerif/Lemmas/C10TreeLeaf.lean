/-
  C10, tree-level theorem — part 7: a childless box (leaf.rs, `EvalConcrete.leafAlg`) of the family, queried as an in-flow
  child, says about itself what the specification says (`leaf_meets`), and honours a known width (`leaf_wide`).
-/
import TaffyVerif.Lemmas.C10TreeBlock
import TaffyVerif.Model.EvalConcrete

set_option linter.unusedSectionVars false

namespace C10Thm
open MarginCollapse BlockModel C10Tree C10Conv EvalMemo EvalBlock LeafModel

/-- the leaf algorithm's result in `PerformLayout` mode, spelled out -/
theorem leafAlg_PL (inp : LayoutInput Rat) (s : Style Rat) (m : Size (Option Rat) → Size (AvailableSpace Rat) → Size Rat)
    (hm : inp.runMode = .performLayout) :
    ∃ av, EvalConcrete.leafAlg inp s m =
      let b := box inp.parentSize s
      let ns := nodeSizes inp s b.boxSizingAdjustment
      let inset := contentBoxInset b.paddingBorder (scrollbarGutter s)
      let measured := m Size.none av
      let clamped := Size.fo_clamp ((inp.knownDimensions.orOpt ns.1).unwrapOr (measured.add inset.sumAxes)) ns.2.1 ns.2.2.1
      let size : Size Rat :=
        { width := clamped.width
          height := if (inp.knownDimensions.orOpt ns.1).height.isSome then clamped.height
            else MaybeMath.fo_clamp (Num.fmax clamped.height ((ns.2.2.2.map fun ratio => clamped.width / ratio).getD 0))
              ns.2.1.height ns.2.2.1.height }
      let size := Size.f32Max size b.paddingBorder.sumAxes
      { size, contentSize := measured.add b.padding.sumAxes, firstBaselines := ⟨none, none⟩,
        topMargin := MarginSet.zero, bottomMargin := MarginSet.zero,
        marginsCanCollapseThrough :=
          !(hasStylesPreventingBeingCollapsedThrough s b.padding b.border ns.1 ns.2.1)
            && Num.feq size.height 0 && Num.feq measured.height 0 } := by
  refine ⟨measureAvailableSpace inp (box inp.parentSize s).margin
    (contentBoxInset (box inp.parentSize s).paddingBorder (scrollbarGutter s))
    (nodeSizes inp s (box inp.parentSize s).boxSizingAdjustment).1
    (nodeSizes inp s (box inp.parentSize s).boxSizingAdjustment).2.1
    (nodeSizes inp s (box inp.parentSize s).boxSizingAdjustment).2.2.1, ?_⟩
  simp only [EvalConcrete.leafAlg, computeLeafLayout, hm]
  rfl
theorem leaf_arith (a b c d k : Rat) (h m : Option Rat) (na : 0 ≤ a) (nb : 0 ≤ b) (nc : 0 ≤ c) (nd : 0 ≤ d)
    (nk : 0 ≤ k) (nh : 0 ≤ h.getD 0) (nm : 0 ≤ m.getD 0) :
    (!(decide (0 < a) || decide (0 < b) || decide (0 < c) || decide (0 < d)
        || gt0 (MaybeMath.oo_clamp h m none) || gt0 m)
      && decide (max (if (MaybeMath.oo_clamp h m none).isSome then
            MaybeMath.fo_clamp ((MaybeMath.oo_clamp h m none).getD (k + (a + c + (b + d + 0)))) m none
          else MaybeMath.fo_clamp (max (MaybeMath.fo_clamp
            ((MaybeMath.oo_clamp h m none).getD (k + (a + c + (b + d + 0)))) m none) 0) m none)
          (a + c + (b + d)) = 0)
      && decide (k = 0))
      = ((Kind.block == Kind.block) && (m.getD 0 == 0) && (a == 0) && (b == 0) && (c == 0) && (d == 0) &&
          (h.isNone || h == some 0) && (k == 0)) := by
  have hkb : (Kind.block == Kind.block) = true := rfl
  rw [Bool.eq_iff_iff]
  simp only [hkb, Bool.true_and, Bool.and_eq_true, Bool.not_eq_true', Bool.or_eq_false_iff, decide_eq_false_iff_not,
    decide_eq_true_eq, beq_iff_eq, Bool.or_eq_true, pos_iff_ne a na, pos_iff_ne b nb, pos_iff_ne c nc,
    pos_iff_ne d nd, not_not]
  cases h with
  | none =>
    cases m with
    | none =>
      simp [gt0, MaybeMath.oo_clamp, MaybeMath.fo_clamp]
      intro h1 h2 h3 h4 h5; subst h1 h2 h3 h4 h5; norm_num
    | some mv =>
      simp only [Option.getD_some] at nm
      simp [gt0, MaybeMath.oo_clamp, MaybeMath.fo_clamp, pos_iff_ne mv nm, rat_fmax]
      intro hk; subst hk
      constructor
      · rintro ⟨⟨⟨⟨⟨h1, h2⟩, h3⟩, h4⟩, h5⟩, _⟩; exact ⟨⟨⟨⟨h5, h1⟩, h2⟩, h3⟩, h4⟩
      · rintro ⟨⟨⟨⟨h5, h1⟩, h2⟩, h3⟩, h4⟩
        refine ⟨⟨⟨⟨⟨h1, h2⟩, h3⟩, h4⟩, h5⟩, ?_⟩
        subst h1 h2 h3 h4 h5; norm_num
  | some hv =>
    simp only [Option.getD_some] at nh
    cases m with
    | none =>
      simp [gt0, MaybeMath.oo_clamp, MaybeMath.fo_clamp, pos_iff_ne hv nh]
      intro h1 h2 h3 h4 h5 h6; subst h1 h2 h3 h4 h5 h6; norm_num
    | some mv =>
      simp only [Option.getD_some] at nm
      simp [gt0, MaybeMath.oo_clamp, MaybeMath.fo_clamp, pos_iff_ne hv nh, pos_iff_ne mv nm, rat_fmax]
      intro hk; subst hk
      constructor
      · rintro ⟨⟨⟨⟨⟨⟨h1, h2⟩, h3⟩, h4⟩, h5, h6⟩, _⟩, _⟩; exact ⟨⟨⟨⟨⟨h6, h1⟩, h2⟩, h3⟩, h4⟩, h5⟩
      · rintro ⟨⟨⟨⟨⟨h6, h1⟩, h2⟩, h3⟩, h4⟩, h5⟩
        refine ⟨⟨⟨⟨⟨⟨h1, h2⟩, h3⟩, h4⟩, h5, h6⟩, h6⟩, ?_⟩
        subst h1 h2 h3 h4 h5 h6; norm_num

theorem leaf_box_px (s : Style Rat) (h : Px s) (ps : Size (Option Rat)) :
    (box ps s).padding = ⟨pxP s.padding.left, pxP s.padding.right, pxP s.padding.top, pxP s.padding.bottom⟩ ∧
    (box ps s).border = ⟨pxP s.border.left, pxP s.border.right, pxP s.border.top, pxP s.border.bottom⟩ ∧
    (box ps s).paddingBorder = ⟨pxP s.padding.left + pxP s.border.left, pxP s.padding.right + pxP s.border.right,
      pxP s.padding.top + pxP s.border.top, pxP s.padding.bottom + pxP s.border.bottom⟩ ∧
    (box ps s).boxSizingAdjustment = Size.zero := by
  have hb : (BoxSizing.borderBox == BoxSizing.contentBox) = false := rfl
  simp only [box, padding_px s h, border_px s h, Rect.add, h.bs, hb, Bool.false_eq_true, if_false, and_self]

theorem leaf_gutter_px (s : Style Rat) (h : Px s) : LeafModel.scrollbarGutter s = ⟨0, 0⟩ := by
  simp only [LeafModel.scrollbarGutter, Point.transpose, h.ox, h.oy]

theorem nodeSizes_inherent (s : Style Rat) (h : Px s) (inp : LayoutInput Rat) (hs : inp.sizingMode = .inherentSize) :
    nodeSizes inp s Size.zero
      = (inp.knownDimensions.orOpt ⟨dimO s.size.width, dimO s.size.height⟩, ⟨none, dimO s.minSize.height⟩,
          ⟨none, none⟩, none) := by
  have e1 := resolveStyleSize_px s.size h.w h.h inp.parentSize s h ⟨0, 0⟩
  have e2 := resolveStyleSize_px s.minSize (by rw [h.minW]; rfl) h.minH inp.parentSize s h ⟨0, 0⟩
  have hb : (BoxSizing.borderBox == BoxSizing.contentBox) = false := rfl
  simp only [resolveStyleSize, boxSizingAdjustment, h.bs, hb, Bool.false_eq_true, if_false, h.ar] at e1 e2
  simp only [nodeSizes, hs, h.ar, e1, e2, h.minW, dimO_auto]
  simp only [Resolve.sizeMaybe, h.maxW, h.maxH, LPA.maybeResolve, Size.of_add, MaybeMath.of_add, Option.map_none]

theorem nodeSizes_content (s : Style Rat) (inp : LayoutInput Rat) (hs : inp.sizingMode = .contentSize) (adj : Size Rat) :
    nodeSizes inp s adj = (inp.knownDimensions, Size.none, Size.none, none) := by
  simp only [nodeSizes, hs]

def notWrap (ctx : Option (MeasureSpec Rat)) : Bool :=
  match ctx with
  | some (.wrap _ _) => false
  | _ => true

theorem measureOf_none (ctx : Option (MeasureSpec Rat)) (h : notWrap ctx = true) (av : Size (AvailableSpace Rat)) :
    (Eval.measureOf ctx Size.none av).height = contentOf ctx := by
  cases ctx with
  | none => rfl
  | some m =>
    cases m with
    | fixed w hh => rfl
    | wrap w hh => simp [notWrap] at h


theorem styledH_or (s : Style Rat) : (styledH s).or (dimO s.size.height) = styledH s := by
  unfold styledH
  cases dimO s.size.height <;> cases dimO s.minSize.height <;> rfl

theorem leaf_meets (s : Style Rat) (ctx : Option (MeasureSpec Rat)) (inp : LayoutInput Rat)
    (hp : Px s) (hn : NN s ctx) (hb : s.display = .block) (hr : s.position = .relative) (hw : notWrap ctx = true)
    (hin : InFlowIn s inp) :
    Meets (styleTree (.node s ctx [])) (EvalConcrete.leafAlg inp s (Eval.measureOf ctx)) := by
  obtain ⟨av, heq⟩ := leafAlg_PL inp s (Eval.measureOf ctx) hin.mode
  rw [heq, styleTree_node]
  clear heq
  obtain ⟨b1, b2, b3, b4⟩ := leaf_box_px s hp inp.parentSize
  have hns := nodeSizes_inherent s hp inp hin.sizing
  have hmh := measureOf_none ctx hw av
  have hbl : s.isBlock = true := by simp only [Style.isBlock, hb]; rfl
  have hra : (s.position == Position.absolute) = false := by rw [hr]; rfl
  have hv : Overflow.visible.isScrollContainer = false := rfl
  have hkind : (sbox s ctx Layout.new).kind = .block := by simp only [sbox, hb]; rfl
  have hk : inp.knownDimensions.height = styledH s := hin.height
  simp only [b4, hns, b1, b2, b3, leaf_gutter_px s hp, contentBoxInset, hasStylesPreventingBeingCollapsedThrough, hbl, hra,
    hp.ox, hp.oy, hv, Size.orOpt, hk, styledH_or, Size.unwrapOr, Size.fo_clamp, Size.f32Max, Rect.sumAxes,
    Rect.verticalAxisSum, Rect.horizontalAxisSum, Size.add, hmh, Option.map_none, Option.getD_none, rat_fmax, rat_feq,
    rat_fgt, Bool.not_true, Bool.false_or, Bool.or_false]
  refine ⟨?_, ?_, ?_, ?_⟩
  · simp only [collapsesThrough, allThrough, styleKids, Bool.and_true, Box.ownMarginsMayMeet, hkind, Option.or_self]
    have e : (sbox s ctx Layout.new).minHeight = (dimO s.minSize.height).getD 0 ∧
        (sbox s ctx Layout.new).paddingTop = pxP s.padding.top ∧
        (sbox s ctx Layout.new).paddingBottom = pxP s.padding.bottom ∧
        (sbox s ctx Layout.new).borderTop = pxP s.border.top ∧
        (sbox s ctx Layout.new).borderBottom = pxP s.border.bottom ∧
        (sbox s ctx Layout.new).height = dimO s.size.height ∧
        (sbox s ctx Layout.new).content = contentOf ctx := ⟨rfl, rfl, rfl, rfl, rfl, rfl, rfl⟩
    obtain ⟨e1, e2, e3, e4, e5, e6, e7⟩ := e
    rw [e1, e2, e3, e4, e5, e6, e7]
    unfold styledH
    have key := leaf_arith (pxP s.padding.top) (pxP s.padding.bottom) (pxP s.border.top) (pxP s.border.bottom)
      (contentOf ctx) (dimO s.size.height) (dimO s.minSize.height) hn.pt hn.pb hn.bt hn.bb hn.content hn.h hn.minH
    generalize MaybeMath.oo_clamp (dimO s.size.height) (dimO s.minSize.height) none = S at key ⊢
    generalize dimO s.minSize.height = M at key ⊢
    cases S <;> cases M <;> exact key
  · simp only [topSet, Tree.box, styleKids, leading, ite_self]
    rfl
  · simp only [bottomSet, Tree.box, styleKids, trailing, ite_self]
    rfl
  · intro hflag
    simp only [Bool.and_eq_true, decide_eq_true_eq] at hflag
    exact hflag.1.2


theorem fo_clamp_none (x : Rat) : MaybeMath.fo_clamp x none none = x := rfl

theorem leaf_wide (s : Style Rat) (inp : LayoutInput Rat) (m : Size (Option Rat) → Size (AvailableSpace Rat) → Size Rat)
    (hp : Px s) (hm : inp.runMode = .performLayout) :
    (∀ kw, inp.knownDimensions.width = some kw → (EvalConcrete.leafAlg inp s m).size.width = max kw (pbW s)) ∧
    pbW s ≤ (EvalConcrete.leafAlg inp s m).size.width := by
  obtain ⟨av, heq⟩ := leafAlg_PL inp s m hm
  rw [heq]
  clear heq
  obtain ⟨b1, b2, b3, b4⟩ := leaf_box_px s hp inp.parentSize
  cases hs : inp.sizingMode with
  | inherentSize =>
    have hns := nodeSizes_inherent s hp inp hs
    simp only [b4, hns, b3, Size.orOpt, Size.unwrapOr, Size.fo_clamp, Size.f32Max, Rect.sumAxes,
      Rect.horizontalAxisSum, fo_clamp_none, rat_fmax, pbW]
    refine ⟨?_, le_max_right _ _⟩
    intro kw hk
    rw [hk]
    simp
  | contentSize =>
    have hns := nodeSizes_content s inp hs (box inp.parentSize s).boxSizingAdjustment
    simp only [hns, b3, Size.orOpt, Size.unwrapOr, Size.fo_clamp, Size.f32Max, Rect.sumAxes,
      Rect.horizontalAxisSum, Size.none, fo_clamp_none, rat_fmax, pbW]
    refine ⟨?_, le_max_right _ _⟩
    intro kw hk
    rw [hk]
    simp

end C10Thm
