/-
  C03 (finiteness) — one flex line, main axis (Model/FlexLine.lean) at `ER`: `resolve_flexible_lengths` (the freeze loop
  with its divisions by the sums of flex factors), `distribute_remaining_free_space`, `compute_alignment_offset`.

  The divisions and why their divisors are non-zero:
    * `flex_grow / sum_flex_grow`, `inner_flex_basis * flex_shrink / sum_scaled_shrink_factor`: taken only under the guards
      `sum > 0.0` (`chooseDist`);
    * `free_space / num_auto_margins`: under the guard `num_auto_margins > 0`;
    * `free_space / num_items`, `/ (num_items − 1)`, `/ (num_items + 1)` in `compute_alignment_offset`: the offset of the first
      item is only computed when the line has an item, that of a later item only when it has at least two (`AlignOK`).
-/
import TaffyVerif.Lemmas.FinBasic
import TaffyVerif.Model.ExtNumX

namespace C03Fin
open FlexLine

/-! ### comparisons with zero -/

theorem ne_zero_of_fgt {x : ER} (h : Num.fgt x 0 = true) : x ≠ 0 := by
  intro e
  subst e
  revert h
  decide +kernel

theorem ne_zero_of_flt {x : ER} (h : Num.flt x 0 = true) : x ≠ 0 := by
  intro e
  subst e
  revert h
  decide +kernel

/-- `f32::max(1.0, x)` is not zero -/
theorem fmax_one_ne_zero {x : ER} (hx : IsFin x) : Num.fmax 1 x ≠ 0 := by
  obtain ⟨q, rfl⟩ := (isFin_iff x).mp hx
  show ER.fmax (.fin 1) (.fin q) ≠ .fin 0
  simp only [ER.fmax, ER.isNaN, Bool.false_eq_true, if_false, ER.flt]
  by_cases h : (1 : Rat) < q
  · simp only [h, decide_true, if_true]
    intro e
    injection e with e
    subst e
    exact absurd h (by decide +kernel)
  · simp only [h, decide_false, Bool.false_eq_true, if_false]
    intro e
    injection e with e
    revert e
    decide +kernel

/-! ### sums -/

theorem fin_foldl_add {β : Type} (g : β → ER) :
    ∀ (l : List β) (a : ER), IsFin a → (∀ x ∈ l, IsFin (g x)) → IsFin (l.foldl (fun acc x => acc + g x) a)
  | [], _, ha, _ => ha
  | x :: l, a, ha, h =>
    fin_foldl_add g l _ (fin_add ha (h x (List.mem_cons_self ..))) (fun y hy => h y (List.mem_cons_of_mem _ hy))

theorem fin_sumF {l : List ER} (h : ∀ x ∈ l, IsFin x) : IsFin (sumF l) :=
  fin_foldl_add (fun x => x) l _ (fin_neg fin_zero) h

theorem fin_sumF_map {β : Type} {l : List β} {g : β → ER} (h : ∀ x ∈ l, IsFin (g x)) : IsFin (sumF (l.map g)) := by
  apply fin_sumF
  intro x hx
  obtain ⟨y, hy, rfl⟩ := List.mem_map.mp hx
  exact h y hy

theorem fin_sumAxisGaps {gap : ER} (n : Nat) (h : IsFin gap) : IsFin (sumAxisGaps gap n) := by
  unfold sumAxisGaps
  split
  · exact fin_zero
  · exact fin_mul h (fin_ofNat _)

/-! ### the main-axis view of an item -/

structure MFin (c : FlexItemM ER) : Prop where
  flexBasis : IsFin c.flexBasis
  innerFlexBasis : IsFin c.innerFlexBasis
  hypInner : IsFin c.hypInner
  hypOuter : IsFin c.hypOuter
  resolvedMinMain : IsFin c.resolvedMinMain
  maxMain : OFin c.maxMain
  flexGrow : IsFin c.flexGrow
  flexShrink : IsFin c.flexShrink
  marginStart : IsFin c.marginStart
  marginEnd : IsFin c.marginEnd
  insetStart : OFin c.insetStart
  insetEnd : OFin c.insetEnd
  violation : IsFin c.violation
  targetMain : IsFin c.targetMain
  outerTargetMain : IsFin c.outerTargetMain
  offsetMain : IsFin c.offsetMain

def MsFin (l : List (FlexItemM ER)) : Prop := ∀ c ∈ l, MFin c

theorem MsFin.map {l : List (FlexItemM ER)} {f : FlexItemM ER → FlexItemM ER} (h : MsFin l)
    (hf : ∀ c, MFin c → MFin (f c)) : MsFin (l.map f) := by
  intro c hc
  obtain ⟨y, hy, rfl⟩ := List.mem_map.mp hc
  exact hf y (h y hy)

theorem MsFin.filter {l : List (FlexItemM ER)} (p : FlexItemM ER → Bool) (h : MsFin l) : MsFin (l.filter p) :=
  fun c hc => h c (List.mem_filter.mp hc).1

theorem MsFin.reverse {l : List (FlexItemM ER)} (h : MsFin l) : MsFin l.reverse :=
  fun c hc => h c (List.mem_reverse.mp hc)

theorem fin_marginSum {c : FlexItemM ER} (h : MFin c) : IsFin c.marginSum := fin_add h.marginStart h.marginEnd

/-! ### `resolve_flexible_lengths` -/

structure RflCtxFin (k : RflCtx ER) : Prop where
  innerMain : OFin k.innerMain
  gapTotal : IsFin k.gapTotal
  uff : IsFin k.uff
  initialFree : IsFin k.initialFree

theorem fin_initFreeze {e g s : Bool} {c : FlexItemM ER} (h : MFin c) : MFin (initFreeze e g s c) := by
  unfold initFreeze
  dsimp only
  split
  · exact { h with targetMain := h.hypInner, outerTargetMain := fin_add h.hypInner (fin_add h.marginStart h.marginEnd) }
  · exact { h with targetMain := h.hypInner }

theorem fin_usedSpace {gapTotal : ER} {items : List (FlexItemM ER)} (hg : IsFin gapTotal) (h : MsFin items) :
    IsFin (usedSpace gapTotal items) := by
  unfold usedSpace
  refine fin_add hg (fin_sumF_map fun c hc => ?_)
  exact fin_ite (h c hc).outerTargetMain (fin_add (h c hc).flexBasis (fin_marginSum (h c hc)))

theorem fin_freeSpace {k : RflCtx ER} {used sg ss : ER} (hk : RflCtxFin k) (hu : IsFin used) (hg : IsFin sg)
    (hs : IsFin ss) : IsFin (freeSpace k used sg ss) := by
  unfold freeSpace
  have hsub := fin_of_sub hk.innerMain hu
  refine fin_ite (fin_fo_min (fin_sub (fin_mul hk.initialFree hg) hk.gapTotal) hsub)
    (fin_ite (fin_fo_max (fin_sub (fin_mul hk.initialFree hs) hk.gapTotal) hsub) (fin_getD hsub (fin_sub hk.uff hu)))

/-- the distribution of step 4c divides by a non-zero finite sum -/
def DistFin : Dist ER → Prop
  | .keep => True
  | .grow f s => IsFin f ∧ IsFin s ∧ s ≠ 0
  | .shrink f s => IsFin f ∧ IsFin s ∧ s ≠ 0

theorem fin_distTarget {d : Dist ER} {c : FlexItemM ER} (hd : DistFin d) (h : MFin c) : IsFin (distTarget d c) := by
  cases d with
  | keep => exact h.targetMain
  | grow f s => exact fin_add h.flexBasis (fin_mul hd.1 (fin_div h.flexGrow hd.2.1 hd.2.2))
  | shrink f s =>
    exact fin_add h.flexBasis (fin_mul hd.1 (fin_div (fin_mul h.innerFlexBasis h.flexShrink) hd.2.1 hd.2.2))

theorem fin_clampMain {c : FlexItemM ER} {t : ER} (h : MFin c) (ht : IsFin t) : IsFin (clampMain c t) :=
  fin_fmax (fin_fo_clamp ht (mn := some c.resolvedMinMain) h.resolvedMinMain h.maxMain) fin_zero

theorem fin_clampItem {c : FlexItemM ER} {t : ER} (h : MFin c) (ht : IsFin t) : MFin (clampItem c t) := by
  have hc := fin_clampMain h ht
  exact { h with violation := fin_sub hc ht, targetMain := hc, outerTargetMain := fin_add hc (fin_add h.marginStart h.marginEnd) }

theorem fin_freezeItem {total : ER} {c : FlexItemM ER} (h : MFin c) : MFin (freezeItem total c) := by
  unfold freezeItem
  split
  · exact { h with }
  · split
    · exact { h with }
    · exact { h with }

theorem fin_chooseDist {k : RflCtx ER} {unfrozen : List (FlexItemM ER)} {free sg ss : ER} (hu : MsFin unfrozen)
    (hf : IsFin free) (hg : IsFin sg) : DistFin (chooseDist k unfrozen free sg ss) := by
  unfold chooseDist
  split
  · split
    · rename_i h
      simp only [Bool.and_eq_true] at h
      exact ⟨hf, hg, ne_zero_of_fgt h.2⟩
    · split
      · dsimp only
        split
        · rename_i h
          exact ⟨hf, fin_sumF_map fun c hc => fin_mul (hu c hc).innerFlexBasis (hu c hc).flexShrink, ne_zero_of_fgt h⟩
        · trivial
      · trivial
  · trivial

theorem fin_iter {k : RflCtx ER} {items : List (FlexItemM ER)} (hk : RflCtxFin k) (h : MsFin items) :
    MsFin (iter k items) := by
  have hunf := h.filter (fun c => !c.frozen)
  have hsg : IsFin ((items.filter fun c => !c.frozen).foldl (fun a c => a + c.flexGrow) (0 : ER)) :=
    fin_foldl_add (fun c : FlexItemM ER => c.flexGrow) _ _ fin_zero (fun c hc => (hunf c hc).flexGrow)
  have hss : IsFin ((items.filter fun c => !c.frozen).foldl (fun a c => a + c.flexShrink) (0 : ER)) :=
    fin_foldl_add (fun c : FlexItemM ER => c.flexShrink) _ _ fin_zero (fun c hc => (hunf c hc).flexShrink)
  have hfree := fin_freeSpace hk (fin_usedSpace hk.gapTotal h) hsg hss
  have hd := fin_chooseDist (k := k) (ss := (items.filter fun c => !c.frozen).foldl (fun a c => a + c.flexShrink) (0 : ER))
    hunf hfree hsg
  unfold iter
  dsimp only
  refine MsFin.map (MsFin.map h fun c hc => ?_) fun c hc => ?_
  · split
    · exact hc
    · exact fin_clampItem hc (fin_distTarget hd hc)
  · split
    · exact hc
    · exact fin_freezeItem hc

theorem fin_loop {k : RflCtx ER} (hk : RflCtxFin k) :
    ∀ (fuel : Nat) (items res : List (FlexItemM ER)), MsFin items → loop k fuel items = some res → MsFin res
  | 0, items, res, h, e => by
    unfold loop at e
    split at e
    · injection e with e; subst e; exact h
    · exact absurd e (by simp)
  | fuel + 1, items, res, h, e => by
    unfold loop at e
    split at e
    · injection e with e; subst e; exact h
    · exact fin_loop hk fuel _ res (fin_iter hk h) e

theorem fin_resolveFlexibleLengths {items res : List (FlexItemM ER)} {innerMain : Option ER} {gap : ER} {fuel : Nat}
    (h : MsFin items) (hi : OFin innerMain) (hg : IsFin gap)
    (e : resolveFlexibleLengths items innerMain gap fuel = some res) : MsFin res := by
  unfold resolveFlexibleLengths at e
  dsimp only at e
  have hgt := fin_sumAxisGaps items.length hg
  have hinit : ∀ (a b c : Bool), MsFin (items.map (initFreeze a b c)) := fun a b c => h.map fun c hc => fin_initFreeze hc
  split at e
  · injection e with e; subst e; exact hinit _ _ _
  · refine fin_loop ⟨hi, hgt, fin_add hgt (fin_sumF_map fun c hc => (h c hc).hypOuter), ?_⟩ _ _ res (hinit _ _ _) e
    exact fin_getD (fin_of_sub hi (fin_usedSpace hgt (hinit _ _ _))) fin_zero

/-! ### alignment (common/alignment.rs) -/

/-- when `compute_alignment_offset` is evaluated for an item, the container has that item: the first item needs `n ≥ 1`,
a later one `n ≥ 2` -/
def AlignOK (n : Nat) (isFirst : Bool) : Prop := if isFirst then 1 ≤ n else 2 ≤ n

theorem fin_computeAlignmentOffset {free gap : ER} {n : Nat} {mode : AlignContent} {rev isFirst : Bool}
    (hf : IsFin free) (hg : IsFin gap) (hn : AlignOK n isFirst) :
    IsFin (computeAlignmentOffset free n gap mode rev isFirst) := by
  unfold computeAlignmentOffset
  have h2 := fin_div hf fin_two two_ne_zero
  have hm := fin_fmax hf fin_zero
  cases isFirst with
  | true =>
    have hn1 : 0 < n := hn
    simp only [if_true]
    cases mode <;> dsimp only
    · exact fin_zero
    · exact hf
    · exact fin_ite hf fin_zero
    · exact fin_ite fin_zero hf
    · exact h2
    · exact fin_zero
    · exact fin_zero
    · exact fin_ite (fin_div hf (fin_ofNat _) (ofNat_ne_zero (by omega))) h2
    · exact fin_ite (fin_div (fin_div hf (fin_ofNat _) (ofNat_ne_zero hn1)) fin_two two_ne_zero) h2
  | false =>
    have hn2 : 2 ≤ n := hn
    simp only [Bool.false_eq_true, if_false]
    refine fin_add hg ?_
    cases mode <;> dsimp only
    all_goals first
      | exact fin_zero
      | exact fin_div hm (fin_ofNat _) (ofNat_ne_zero (by omega))

/-! ### `distribute_remaining_free_space` -/

theorem fin_justifyForward {f : Bool → ER} :
    ∀ {items : List (FlexItemM ER)}, (∀ b, AlignOK items.length b → IsFin (f b)) → MsFin items →
      MsFin (justifyForward f items)
  | [], _, _ => fun _ h => absurd h (by simp [justifyForward])
  | c :: rest, hf, h => by
    unfold justifyForward
    intro x hx
    rcases List.mem_cons.mp hx with rfl | hx
    · exact { h c (List.mem_cons_self ..) with
        offsetMain := hf true (by simp [AlignOK]) }
    · obtain ⟨y, hy, rfl⟩ := List.mem_map.mp hx
      have hy' := h y (List.mem_cons_of_mem _ hy)
      refine { hy' with offsetMain := hf false ?_ }
      have : 1 ≤ rest.length := List.length_pos_of_mem hy
      simp only [AlignOK, Bool.false_eq_true, if_false, List.length_cons]
      omega

theorem fin_distributeRemainingFreeSpace {items : List (FlexItemM ER)} {icm gap : ER} {jc : Option AlignContent}
    {dir : FlexDirection} (h : MsFin items) (hi : IsFin icm) (hg : IsFin gap) :
    MsFin (distributeRemainingFreeSpace items icm gap jc dir) := by
  have hfree : IsFin (icm - (sumAxisGaps gap items.length + sumF (items.map (·.outerTargetMain)))) :=
    fin_sub hi (fin_add (fin_sumAxisGaps _ hg) (fin_sumF_map fun c hc => (h c hc).outerTargetMain))
  unfold distributeRemainingFreeSpace
  dsimp only
  split
  · rename_i hc
    simp only [Bool.and_eq_true, decide_eq_true_eq] at hc
    have hm := fin_div hfree (fin_ofNat (numAutoMargins items)) (ofNat_ne_zero hc.2)
    exact h.map fun c hc' => { hc' with marginStart := fin_ite hm hc'.marginStart, marginEnd := fin_ite hm hc'.marginEnd }
  · split
    · refine MsFin.reverse (fin_justifyForward (fun b hb => ?_) h.reverse)
      rw [List.length_reverse] at hb
      exact fin_computeAlignmentOffset hfree hg hb
    · exact fin_justifyForward (fun b hb => fin_computeAlignmentOffset hfree hg hb) h

end C03Fin
