/-
  C12 — the tree level: two style trees related by `BoxRel` are evaluated *identically* (same output, same node
  states) by `Eval.evalNodeWith`, for every cache implementation and dispatch, when the algorithms are `BoxBlind`.
  Induction on fuel; inside a node the two runs execute literally the same program against literally the same
  child evaluator.
-/
import TaffyVerif.Lemmas.BoxSizing
import TaffyVerif.Lemmas.EvalUnfold

namespace C12L
open BoxSizingModel Eval

variable {C : Type}

theorem _root_.BoxSizingModel.StyleRel.refl (m : Bool) (s : Style Rat) : StyleRel m s s := Or.inl rfl

theorem _root_.BoxSizingModel.StyleRel.display {m : Bool} {a b : Style Rat} (h : StyleRel m a b) : b.display = a.display := by
  rcases h with h | ⟨_, h⟩ <;> subst h <;> rfl

theorem _root_.BoxSizingModel.StyleRel.flexDirection {m : Bool} {a b : Style Rat} (h : StyleRel m a b) :
    b.flexDirection = a.flexDirection := by
  rcases h with h | ⟨_, h⟩ <;> subst h <;> rfl

theorem StylesRel_refl (m : Bool) : ∀ cs : List (Style Rat), StylesRel m cs cs
  | [] => trivial
  | c :: cs => ⟨StyleRel.refl m c, StylesRel_refl m cs⟩

/-- own style and child styles switched together -/
theorem _root_.BoxSizingModel.ContainerBlind.both {alg : Style Rat → List (Style Rat) → LayoutInput Rat → ProgM Rat (LayoutOutput Rat)}
    (hb : ContainerBlind alg) {m : Bool} {sA sB : Style Rat} (hs : StyleRel m sA sB) {cs cs' : List (Style Rat)}
    (hc : StylesRel sA.flexDirection.isRow cs cs') (inp : LayoutInput Rat) : alg sA cs inp = alg sB cs' inp := by
  rw [hb.items sA cs cs' inp hc]
  rcases hs with h | ⟨he, h⟩
  · rw [h]
  · rw [h]; exact hb.own sA cs' inp m he

theorem BoxRelList_styles (m : Bool) : ∀ kA kB : List (STree Rat), BoxRelList m kA kB →
    StylesRel m (kA.map STree.style) (kB.map STree.style)
  | [], [], _ => trivial
  | [], _ :: _, h => by simp only [BoxRelList] at h
  | _ :: _, [], h => by simp only [BoxRelList] at h
  | a :: as, b :: bs, h => by
    simp only [BoxRelList] at h
    cases a with
    | node sA cA kA =>
      cases b with
      | node sB cB kB =>
        have h1 := h.1
        simp only [BoxRel] at h1
        exact ⟨h1.1, BoxRelList_styles m as bs h.2⟩

theorem BoxRelList_isEmpty (m : Bool) : ∀ kA kB : List (STree Rat), BoxRelList m kA kB → kA.isEmpty = kB.isEmpty
  | [], [], _ => rfl
  | [], _ :: _, h => by simp only [BoxRelList] at h
  | _ :: _, [], h => by simp only [BoxRelList] at h
  | _ :: _, _ :: _, _ => rfl

/-- index-wise: both lists end at the same place, and related where defined -/
theorem BoxRelList_get (m : Bool) : ∀ (kA kB : List (STree Rat)) (i : Nat), BoxRelList m kA kB →
    (kA[i]? = none ∧ kB[i]? = none) ∨ ∃ a b, kA[i]? = some a ∧ kB[i]? = some b ∧ BoxRel m a b
  | [], [], _, _ => Or.inl ⟨rfl, rfl⟩
  | [], _ :: _, _, h => by simp only [BoxRelList] at h
  | _ :: _, [], _, h => by simp only [BoxRelList] at h
  | a :: as, b :: bs, 0, h => by
    simp only [BoxRelList] at h
    exact Or.inr ⟨a, b, rfl, rfl, h.1⟩
  | a :: as, b :: bs, i + 1, h => by
    simp only [BoxRelList] at h
    simpa only [List.getElem?_cons_succ] using BoxRelList_get m as bs i h.2

/-- an evaluator that cannot tell related trees apart -/
def EvBlind (ev : STree Rat → NS Rat C → LayoutInput Rat → LayoutOutput Rat × NS Rat C) : Prop :=
  ∀ (m : Bool) (tA tB : STree Rat), BoxRel m tA tB → ∀ (ns : NS Rat C) (inp : LayoutInput Rat), ev tA ns inp = ev tB ns inp

theorem evalChildOf_blind (ev : STree Rat → NS Rat C → LayoutInput Rat → LayoutOutput Rat × NS Rat C) (hev : EvBlind ev)
    (m : Bool) (kA kB : List (STree Rat)) (hk : BoxRelList m kA kB) : evalChildOf ev kA = evalChildOf ev kB := by
  funext i cin ks
  unfold evalChildOf
  rcases BoxRelList_get m kA kB i hk with ⟨hA, hB⟩ | ⟨a, b, hA, hB, hab⟩
  · rw [hA, hB]
  · rw [hA, hB]
    cases ks[i]? with
    | none => rfl
    | some k => simp only [hev m a b hab k cin]

theorem computeOf_blind (ci : CacheImpl Rat C) (sel : Display → Bool → Option Gen.Facts.Callee) (algs : Algs Rat)
    (hb : BoxBlind algs) (ev : STree Rat → NS Rat C → LayoutInput Rat → LayoutOutput Rat × NS Rat C) (hev : EvBlind ev)
    (m : Bool) (sA sB : Style Rat) (cA cB : Option (MeasureSpec Rat)) (kA kB : List (STree Rat))
    (hr : BoxRel m (.node sA cA kA) (.node sB cB kB)) (ns : NS Rat C) (inp : LayoutInput Rat) :
    computeOf ci sel algs ev sA cA kA ns inp = computeOf ci sel algs ev sB cB kB ns inp := by
  simp only [BoxRel] at hr
  obtain ⟨hs, hc, hk⟩ := hr
  subst hc
  have hst := BoxRelList_styles _ kA kB hk
  unfold computeOf
  rw [hs.display, ← BoxRelList_isEmpty _ kA kB hk, ← evalChildOf_blind ev hev _ kA kB hk,
    ← hb.block.both hs hst inp, ← hb.flex.both hs hst inp, ← hb.grid.both hs hst inp]
  cases sel sA.display (!kA.isEmpty) with
  | none => rfl
  | some c =>
    cases c with
    | leaf =>
      rcases hs with h | ⟨he, h⟩
      · rw [h]
      · rw [h]; simp only [hb.leaf inp sA m (measureOf cA) he]
    | hidden => rfl
    | block => rfl
    | flex => rfl
    | grid => rfl

/-- **related trees are evaluated identically at every fuel, from every state** -/
theorem eval_blind (ci : CacheImpl Rat C) (sel : Display → Bool → Option Gen.Facts.Callee) (algs : Algs Rat)
    (hb : BoxBlind algs) : ∀ fuel, EvBlind (evalNodeWith ci sel algs fuel) := by
  intro fuel
  induction fuel with
  | zero =>
    intro m tA tB _ ns inp
    rw [eval_zero, eval_zero]
  | succ fuel ih =>
    intro m tA tB hr ns inp
    cases tA with
    | node sA cA kA =>
      cases tB with
      | node sB cB kB =>
        rw [eval_succ, eval_succ, computeOf_blind ci sel algs hb _ ih m sA sB cA cB kA kB hr ns inp]

mutual
theorem init_blind (ci : CacheImpl Rat C) (m : Bool) : ∀ tA tB : STree Rat, BoxRel m tA tB →
    NS.init ci tA = NS.init ci tB
  | .node sA cA kA, .node sB cB kB, h => by
    simp only [BoxRel] at h
    simp only [NS.init, initList_blind ci _ kA kB h.2.2]
theorem initList_blind (ci : CacheImpl Rat C) (m : Bool) : ∀ kA kB : List (STree Rat), BoxRelList m kA kB →
    NS.initList ci kA = NS.initList ci kB
  | [], [], _ => rfl
  | [], _ :: _, h => by simp only [BoxRelList] at h
  | _ :: _, [], h => by simp only [BoxRelList] at h
  | a :: as, b :: bs, h => by
    simp only [BoxRelList] at h
    simp only [NS.initList, init_blind ci m a b h.1, initList_blind ci m as bs h.2]
end

mutual
theorem BoxRel_refl (m : Bool) : ∀ t : STree Rat, BoxRel m t t
  | .node s c k => by
    simp only [BoxRel]
    exact ⟨StyleRel.refl m s, trivial, BoxRelList_refl _ k⟩
theorem BoxRelList_refl (m : Bool) : ∀ ts : List (STree Rat), BoxRelList m ts ts
  | [] => trivial
  | t :: ts => by
    simp only [BoxRelList]
    exact ⟨BoxRel_refl m t, BoxRelList_refl m ts⟩
end

end C12L
