/-
  The model's freeze loop is the abstract loop of `Lemmas/FlexExhaust.lean`: directly when growing, mirrored
  (`x ↦ −x`) when shrinking.
-/
import TaffyVerif.Lemmas.FlexClamp
import TaffyVerif.Lemmas.FlexLoop

namespace FlexLine

/-! ### the model's pass, with its scalars named -/

def mSumGrow (items : List (FlexItemM Rat)) : Rat :=
  (items.filter fun c => !c.frozen).foldl (fun a c => a + c.flexGrow) (0 : Rat)
def mSumShrink (items : List (FlexItemM Rat)) : Rat :=
  (items.filter fun c => !c.frozen).foldl (fun a c => a + c.flexShrink) (0 : Rat)
def mFree (k : RflCtx Rat) (items : List (FlexItemM Rat)) : Rat :=
  freeSpace k (usedSpace k.gapTotal items) (mSumGrow items) (mSumShrink items)
def mDist (k : RflCtx Rat) (items : List (FlexItemM Rat)) : Dist Rat :=
  chooseDist k (items.filter fun c => !c.frozen) (mFree k items) (mSumGrow items) (mSumShrink items)
/-- unclamped target of an unfrozen item -/
def mT (k : RflCtx Rat) (items : List (FlexItemM Rat)) (c : FlexItemM Rat) : Rat := distTarget (mDist k items) c
def mTotal (k : RflCtx Rat) (items : List (FlexItemM Rat)) : Rat :=
  lsum (items.map fun c => if c.frozen then 0 else clampMain c (mT k items c) - mT k items c)
def mStep (k : RflCtx Rat) (items : List (FlexItemM Rat)) (c : FlexItemM Rat) : FlexItemM Rat :=
  if c.frozen then c else freezeItem (mTotal k items) (clampItem c (mT k items c))

theorem iter_eq_passes (k : RflCtx Rat) (items : List (FlexItemM Rat)) :
    iter k items = freezePass (totalViolation (clampPass (mDist k items) items)) (clampPass (mDist k items) items) :=
  rfl

theorem iter_eq_map (k : RflCtx Rat) (items : List (FlexItemM Rat)) : iter k items = items.map (mStep k items) := by
  have htot : totalViolation (clampPass (mDist k items) items) = mTotal k items := by
    unfold totalViolation clampPass
    rw [foldl_add_eq, lsum_filter_map, List.map_map, zero_add]
    unfold mTotal
    apply lsum_map_congr
    intro c _
    simp only [Function.comp]
    by_cases hf : c.frozen = true
    · simp [hf]
    · have hf' : c.frozen = false := by simpa using hf
      simp [hf', clampItem, mT]
  rw [iter_eq_passes, htot]
  unfold freezePass clampPass
  rw [List.map_map]
  apply List.map_congr_left
  intro c _
  simp only [Function.comp, mStep]
  by_cases hf : c.frozen = true
  · simp [hf]
  · have hf' : c.frozen = false := by simpa using hf
    simp [hf', clampItem, mT]

/-! ### the abstraction -/

/-- orientation: `+1` when growing, `−1` when shrinking -/
def sg (g : Bool) : Rat := if g then 1 else -1

theorem sg_cases (g : Bool) : sg g = 1 ∨ sg g = -1 := by cases g <;> simp [sg]
theorem sg_sq (g : Bool) : sg g * sg g = 1 := by cases g <;> simp [sg]
theorem sg_ne (g : Bool) : sg g ≠ 0 := by cases g <;> simp [sg]

/-- the weight that step 4c uses: the grow factor, resp. the scaled shrink factor -/
def wt (g : Bool) (c : FlexItemM Rat) : Rat := if g then c.flexGrow else c.innerFlexBasis * c.flexShrink

def toA (g : Bool) (c : FlexItemM Rat) : AItem :=
  { b := sg g * c.flexBasis, w := wt g c,
    K := fun x => sg g * clampQ c.resolvedMinMain c.maxMain (sg g * x),
    frozen := c.frozen, c := sg g * c.targetMain }

/-- per-item hypotheses of `flexibility_exhausted` that the loop never changes -/
def StaticOK (g : Bool) (c : FlexItemM Rat) : Prop :=
  0 ≤ c.flexGrow ∧ 0 ≤ c.flexShrink ∧ 0 ≤ c.innerFlexBasis ∧
    (if g then (c.flexGrow = 0 ∨ 1 ≤ c.flexGrow) else (c.flexShrink = 0 ∨ 1 ≤ c.flexShrink))

structure MState (g : Bool) (k : RflCtx Rat) (W : Rat) (items : List (FlexItemM Rat)) : Prop where
  inner : k.innerMain = some W
  grow : k.growing = g
  shrink : k.shrinking = !g
  static : ∀ c ∈ items, StaticOK g c
  outer : ∀ c ∈ items, c.frozen = true → c.outerTargetMain = c.targetMain + c.marginSum

/-- the space available to the (oriented) inner target sizes -/
def aW (g : Bool) (k : RflCtx Rat) (W : Rat) (items : List (FlexItemM Rat)) : Rat :=
  sg g * (W - k.gapTotal - lsum (items.map (·.marginSum)))

def mLin (items : List (FlexItemM Rat)) : Rat := lsum (items.map fun c => if c.frozen then c.targetMain else c.flexBasis)
def mSw (g : Bool) (items : List (FlexItemM Rat)) : Rat := lsum (items.map fun c => if c.frozen then 0 else wt g c)

theorem wt_nonneg {g : Bool} {c : FlexItemM Rat} (h : StaticOK g c) : 0 ≤ wt g c := by
  obtain ⟨h1, h2, h3, _⟩ := h
  unfold wt
  split
  · exact h1
  · exact mul_nonneg h3 h2

theorem used_eq {g : Bool} {k : RflCtx Rat} {W : Rat} {items : List (FlexItemM Rat)} (h : MState g k W items) :
    usedSpace k.gapTotal items = k.gapTotal + lsum (items.map (·.marginSum)) + mLin items := by
  unfold usedSpace mLin
  rw [sumF_eq, add_assoc, ← lsum_map_add]
  congr 1
  apply lsum_map_congr
  intro c hc
  by_cases hf : c.frozen = true
  · simp only [hf, if_true]; rw [h.outer c hc hf]; ring
  · simp only [hf, Bool.false_eq_true, if_false]; ring

theorem aLin_toA (g : Bool) (items : List (FlexItemM Rat)) : aLin (items.map (toA g)) = sg g * mLin items := by
  unfold aLin mLin
  rw [List.map_map, ← lsum_map_mul_left]
  apply lsum_map_congr
  intro c _
  simp only [Function.comp, toA]
  split <;> simp_all

theorem aSw_toA (g : Bool) (items : List (FlexItemM Rat)) : aSw (items.map (toA g)) = mSw g items := by
  unfold aSw mSw
  rw [List.map_map]
  apply lsum_map_congr
  intro c _
  simp only [Function.comp, toA]
  rfl

theorem rem_eq {g : Bool} {k : RflCtx Rat} {W : Rat} {items : List (FlexItemM Rat)} (h : MState g k W items) :
    aW g k W items - aLin (items.map (toA g)) = sg g * (W - usedSpace k.gapTotal items) := by
  rw [aLin_toA, used_eq h]; unfold aW; ring

theorem filter_fold_eq (f : FlexItemM Rat → Rat) (items : List (FlexItemM Rat)) :
    (items.filter fun c => !c.frozen).foldl (fun a c => a + f c) (0 : Rat) =
      lsum (items.map fun c => if c.frozen then 0 else f c) := by
  rw [foldl_add_eq, lsum_filter_map, zero_add]
  apply lsum_map_congr
  intro c _
  by_cases hf : c.frozen = true <;> simp [hf]

theorem mSumGrow_eq (items : List (FlexItemM Rat)) : mSumGrow items = mSw true items := by
  unfold mSumGrow mSw; rw [filter_fold_eq]; simp [wt]

theorem sumScaled_eq (items : List (FlexItemM Rat)) :
    sumF ((items.filter fun c => !c.frozen).map fun c => c.innerFlexBasis * c.flexShrink) = mSw false items := by
  rw [sumF_eq, lsum_filter_map]
  unfold mSw
  apply lsum_map_congr
  intro c _
  by_cases hf : c.frozen = true <;> simp [hf, wt]

/-- when some weight is left, the sum of the unscaled factors in the used direction is at least 1 -/
theorem factor_sum_ge_one {g : Bool} {k : RflCtx Rat} {W : Rat} {items : List (FlexItemM Rat)}
    (h : MState g k W items) (hS : 0 < mSw g items) :
    1 ≤ (if g then mSumGrow items else mSumShrink items) := by
  cases g with
  | true =>
    simp only [if_true]
    rw [mSumGrow_eq]
    unfold mSw
    rcases lsum_map_zero_or_ge_one (fun c : FlexItemM Rat => if c.frozen then 0 else wt true c) items (by
      intro c hc
      obtain ⟨_, _, _, h4⟩ := h.static c hc
      simp only [if_true] at h4
      show (if c.frozen then (0 : Rat) else wt true c) = 0 ∨ 1 ≤ (if c.frozen then (0 : Rat) else wt true c)
      split
      · left; rfl
      · simpa [wt] using h4) with h0 | h1
    · have := lsum_map_congr (fun c : FlexItemM Rat => if c.frozen then 0 else wt true c) (fun _ => (0 : Rat)) items h0
      unfold mSw at hS
      rw [this] at hS
      have h00 := lsum_map_mul_left 0 (fun _ : FlexItemM Rat => (0 : Rat)) items
      simp only [mul_zero, zero_mul] at h00
      rw [h00] at hS
      exact absurd hS (lt_irrefl 0)
    · exact h1
  | false =>
    simp only [Bool.false_eq_true, if_false]
    unfold mSumShrink
    rw [filter_fold_eq]
    rcases lsum_map_zero_or_ge_one (fun c : FlexItemM Rat => if c.frozen then 0 else c.flexShrink) items (by
      intro c hc
      obtain ⟨_, _, _, h4⟩ := h.static c hc
      simp only [Bool.false_eq_true, if_false] at h4
      show (if c.frozen then (0 : Rat) else c.flexShrink) = 0 ∨ 1 ≤ (if c.frozen then (0 : Rat) else c.flexShrink)
      split
      · left; rfl
      · exact h4) with h0 | h1
    · have : mSw false items = 0 := by
        unfold mSw
        have := lsum_map_congr (fun c : FlexItemM Rat => if c.frozen then 0 else wt false c) (fun _ => (0 : Rat)) items (by
          intro c hc
          have := h0 c hc
          by_cases hf : c.frozen = true
          · simp [hf]
          · simp only [hf, Bool.false_eq_true, if_false] at this ⊢
            simp [wt, this])
        rw [this]
        have h00 := lsum_map_mul_left 0 (fun _ : FlexItemM Rat => (0 : Rat)) items
        simp only [mul_zero, zero_mul] at h00
        exact h00
      rw [this] at hS
      exact absurd hS (lt_irrefl 0)
    · exact h1

/-- the remaining free space of the pass, when some weight is left -/
theorem mFree_eq {g : Bool} {k : RflCtx Rat} {W : Rat} {items : List (FlexItemM Rat)}
    (h : MState g k W items) (hS : 0 < mSw g items) : mFree k items = W - usedSpace k.gapTotal items := by
  have h1 := factor_sum_ge_one h hS
  unfold mFree freeSpace
  rw [h.grow, h.shrink, h.inner]
  cases g with
  | true =>
    simp only [if_true] at h1
    have : ¬ mSumGrow items < 1 := not_lt.2 h1
    simp [Num.flt, this, MaybeMath.of_sub]
  | false =>
    simp only [Bool.false_eq_true, if_false] at h1
    have : ¬ mSumShrink items < 1 := not_lt.2 h1
    simp [Num.flt, this, MaybeMath.of_sub]

/-- the unclamped target the pass gives to an unfrozen item, in closed form -/
def specT (g : Bool) (k : RflCtx Rat) (W : Rat) (items : List (FlexItemM Rat)) (c : FlexItemM Rat) : Rat :=
  if 0 < mSw g items ∧ W - usedSpace k.gapTotal items ≠ 0 then
    c.flexBasis + (W - usedSpace k.gapTotal items) * (wt g c / mSw g items)
  else c.targetMain

theorem mT_spec {g : Bool} {k : RflCtx Rat} {W : Rat} {items : List (FlexItemM Rat)}
    (h : MState g k W items) (c : FlexItemM Rat) : mT k items c = specT g k W items c := by
  by_cases hS : 0 < mSw g items
  · have hfree := mFree_eq h hS
    have h1 := factor_sum_ge_one h hS
    by_cases hR : W - usedSpace k.gapTotal items = 0
    · have hr : specT g k W items c = c.targetMain := by
        unfold specT; exact if_neg (fun hc => hc.2 hR)
      rw [hr]
      unfold mT mDist chooseDist
      rw [hfree]
      simp [NumX.isNormal, hR, distTarget]
    · have hr : specT g k W items c =
          c.flexBasis + (W - usedSpace k.gapTotal items) * (wt g c / mSw g items) := by
        unfold specT; exact if_pos ⟨hS, hR⟩
      rw [hr]
      unfold mT mDist chooseDist
      rw [hfree, h.grow, h.shrink]
      cases g with
      | true =>
        simp only [if_true] at h1
        have hpos : 0 < mSumGrow items := by linarith
        simp only [NumX.isNormal, ne_eq, hR, not_false_eq_true, decide_true, if_true, Bool.true_and, Num.fgt,
          Num.flt, hpos, distTarget, wt]
        rw [mSumGrow_eq]
      | false =>
        simp only [Bool.false_eq_true, if_false] at h1
        have hpos : 0 < mSumShrink items := by linarith
        have hpos' : 0 < mSw false items := hS
        simp only [NumX.isNormal, ne_eq, hR, not_false_eq_true, decide_true, if_true, Bool.false_and,
          Bool.false_eq_true, if_false, Bool.not_false, Bool.true_and, Num.fgt, Num.flt, hpos, sumScaled_eq,
          hpos', distTarget, wt]
  · have hr : specT g k W items c = c.targetMain := by
      unfold specT; exact if_neg (fun hc => hS hc.1)
    rw [hr]
    unfold mT mDist chooseDist
    rw [h.grow, h.shrink]
    cases g with
    | true =>
      rw [mSumGrow_eq]
      simp only [Num.fgt, Num.flt, hS, decide_false, Bool.and_false, Bool.false_eq_true, if_false, Bool.not_true,
        Bool.false_and]
      split <;> rfl
    | false =>
      rw [sumScaled_eq]
      simp only [Bool.false_and, Bool.false_eq_true, if_false, Bool.not_false, Bool.true_and, Num.fgt, Num.flt, hS,
        decide_false]
      split
      · split <;> rfl
      · rfl

/-! ### one pass of the model is one pass of the abstract loop -/

theorem sg_cancel (g : Bool) (x : Rat) : sg g * (sg g * x) = x := by rw [← mul_assoc, sg_sq, one_mul]

theorem aTarget_toA {g : Bool} {k : RflCtx Rat} {W : Rat} {items : List (FlexItemM Rat)} (h : MState g k W items)
    (c : FlexItemM Rat) :
    aTarget (items.map (toA g)) (aW g k W items) (toA g c) = sg g * specT g k W items c := by
  unfold aTarget specT
  rw [aSw_toA, rem_eq h]
  have hiff : sg g * (W - usedSpace k.gapTotal items) ≠ 0 ↔ W - usedSpace k.gapTotal items ≠ 0 := by
    constructor
    · intro h1 h2; rw [h2, mul_zero] at h1; exact h1 rfl
    · intro h1; exact mul_ne_zero (sg_ne g) h1
  by_cases hc : 0 < mSw g items ∧ W - usedSpace k.gapTotal items ≠ 0
  · rw [if_pos ⟨hc.1, hiff.2 hc.2⟩, if_pos hc]
    simp only [toA]; ring
  · rw [if_neg (fun hx => hc ⟨hx.1, hiff.1 hx.2⟩), if_neg hc]
    simp only [toA]

theorem aK_toA (g : Bool) (c : FlexItemM Rat) (t : Rat) : (toA g c).K (sg g * t) = sg g * clampMain c t := by
  simp only [toA]; rw [sg_cancel, clampMain_eq]

theorem aViol_toA {g : Bool} {k : RflCtx Rat} {W : Rat} {items : List (FlexItemM Rat)} (h : MState g k W items)
    (c : FlexItemM Rat) :
    aViol (items.map (toA g)) (aW g k W items) (toA g c) =
      sg g * (clampMain c (specT g k W items c) - specT g k W items c) := by
  unfold aViol
  rw [aTarget_toA h, aK_toA]; ring

theorem aTotal_toA {g : Bool} {k : RflCtx Rat} {W : Rat} {items : List (FlexItemM Rat)} (h : MState g k W items) :
    aTotal (items.map (toA g)) (aW g k W items) = sg g * mTotal k items := by
  unfold aTotal mTotal
  rw [List.map_map, ← lsum_map_mul_left]
  apply lsum_map_congr
  intro c _
  simp only [Function.comp]
  rw [aViol_toA h, mT_spec h]
  have : (toA g c).frozen = c.frozen := rfl
  rw [this]
  split
  · ring
  · rfl

theorem aFreeze_sg (g : Bool) (tot v : Rat) :
    aFreeze (sg g * tot) (sg g * v) =
      (if 0 < tot then decide (0 < v) else if tot < 0 then decide (v < 0) else true) := by
  unfold aFreeze
  cases g with
  | true => simp [sg]
  | false =>
    simp only [sg, Bool.false_eq_true, if_false, neg_mul, one_mul, Left.neg_pos_iff, Left.neg_neg_iff]
    rcases lt_trichotomy tot 0 with h | h | h
    · simp [h, not_lt.2 (le_of_lt h)]
    · simp [h]
    · simp [h, not_lt.2 (le_of_lt h)]

theorem toA_freeze_clamp (g : Bool) (tot t : Rat) (c : FlexItemM Rat) :
    toA g (freezeItem tot (clampItem c t)) =
      { b := sg g * c.flexBasis, w := wt g c,
        K := fun x => sg g * clampQ c.resolvedMinMain c.maxMain (sg g * x),
        frozen := (if 0 < tot then decide (0 < clampMain c t - t) else if tot < 0 then decide (clampMain c t - t < 0)
          else true),
        c := sg g * clampMain c t } := by
  unfold freezeItem
  simp only [Num.fgt, Num.flt, decide_eq_true_eq]
  split
  · simp [toA, clampItem, wt]
  · split <;> simp [toA, clampItem, wt]

theorem refine_step {g : Bool} {k : RflCtx Rat} {W : Rat} {items : List (FlexItemM Rat)} (h : MState g k W items)
    (c : FlexItemM Rat) :
    toA g (mStep k items c) = aStep (items.map (toA g)) (aW g k W items) (toA g c) := by
  by_cases hf : c.frozen = true
  · have : (toA g c).frozen = true := hf
    rw [aStep_of_frozen _ _ _ this]
    unfold mStep; rw [if_pos hf]
  · have hf' : c.frozen = false := by simpa using hf
    have : (toA g c).frozen = false := hf'
    rw [aStep_of_unfrozen _ _ _ this, aViol_toA h, aTotal_toA h, aFreeze_sg, aTarget_toA h, aK_toA]
    unfold mStep
    rw [if_neg hf, toA_freeze_clamp, mT_spec h]
    simp only [toA]

theorem refine_iter {g : Bool} {k : RflCtx Rat} {W : Rat} {items : List (FlexItemM Rat)} (h : MState g k W items) :
    (iter k items).map (toA g) = aIter (aW g k W items) (items.map (toA g)) := by
  rw [iter_eq_map, List.map_map]
  unfold aIter
  rw [List.map_map]
  apply List.map_congr_left
  intro c _
  simp only [Function.comp]
  exact refine_step h c

/-! ### the model state is carried through the loop -/

theorem mStep_fields (k : RflCtx Rat) (items : List (FlexItemM Rat)) (c : FlexItemM Rat) :
    (mStep k items c).flexBasis = c.flexBasis ∧ (mStep k items c).innerFlexBasis = c.innerFlexBasis ∧
    (mStep k items c).resolvedMinMain = c.resolvedMinMain ∧ (mStep k items c).maxMain = c.maxMain ∧
    (mStep k items c).flexGrow = c.flexGrow ∧ (mStep k items c).flexShrink = c.flexShrink ∧
    (mStep k items c).marginSum = c.marginSum := by
  unfold mStep freezeItem clampItem FlexItemM.marginSum
  split
  · simp
  · split
    · simp
    · split <;> simp

theorem mStep_outer (k : RflCtx Rat) (items : List (FlexItemM Rat)) (c : FlexItemM Rat) (hf : c.frozen = false) :
    (mStep k items c).outerTargetMain = (mStep k items c).targetMain + (mStep k items c).marginSum := by
  unfold mStep freezeItem clampItem FlexItemM.marginSum
  rw [if_neg (by simp [hf])]
  split
  · simp
  · split <;> simp

theorem mstate_iter {g : Bool} {k : RflCtx Rat} {W : Rat} {items : List (FlexItemM Rat)} (h : MState g k W items) :
    MState g k W (iter k items) ∧
      lsum ((iter k items).map (·.marginSum)) = lsum (items.map (·.marginSum)) := by
  rw [iter_eq_map]
  refine ⟨⟨h.inner, h.grow, h.shrink, ?_, ?_⟩, ?_⟩
  · intro c' hc'
    rw [List.mem_map] at hc'
    obtain ⟨c, hc, rfl⟩ := hc'
    obtain ⟨_, h2, _, _, h5, h6, _⟩ := mStep_fields k items c
    unfold StaticOK
    rw [h2, h5, h6]
    exact h.static c hc
  · intro c' hc' hf'
    rw [List.mem_map] at hc'
    obtain ⟨c, hc, rfl⟩ := hc'
    by_cases hf : c.frozen = true
    · have : mStep k items c = c := by unfold mStep; rw [if_pos hf]
      rw [this]; exact h.outer c hc hf
    · exact mStep_outer k items c (by simpa using hf)
  · rw [List.map_map]
    apply lsum_map_congr
    intro c _
    exact (mStep_fields k items c).2.2.2.2.2.2

theorem aW_iter {g : Bool} {k : RflCtx Rat} {W : Rat} {items : List (FlexItemM Rat)} (h : MState g k W items) :
    aW g k W (iter k items) = aW g k W items := by
  unfold aW; rw [(mstate_iter h).2]

theorem all_frozen_toA (g : Bool) (items : List (FlexItemM Rat)) :
    (items.map (toA g)).all (·.frozen) = items.all (·.frozen) := by
  rw [List.all_map]; rfl

/-- the model's loop is the abstract loop; its result still satisfies the model-state facts -/
theorem refine_loop {g : Bool} {k : RflCtx Rat} {W : Rat} : ∀ (fuel : Nat) (items r : List (FlexItemM Rat)),
    MState g k W items → loop k fuel items = some r →
      aLoop (aW g k W items) fuel (items.map (toA g)) = some (r.map (toA g)) ∧ MState g k W r ∧
        lsum (r.map (·.marginSum)) = lsum (items.map (·.marginSum)) := by
  intro fuel
  induction fuel with
  | zero =>
    intro items r h hr
    unfold loop at hr
    unfold aLoop
    rw [all_frozen_toA]
    by_cases hall : items.all (·.frozen) = true
    · simp only [hall, if_true, Option.some.injEq] at hr ⊢
      subst hr; exact ⟨rfl, h, rfl⟩
    · simp [hall] at hr
  | succ n ih =>
    intro items r h hr
    unfold loop at hr
    unfold aLoop
    rw [all_frozen_toA]
    by_cases hall : items.all (·.frozen) = true
    · simp only [hall, if_true, Option.some.injEq] at hr ⊢
      subst hr; exact ⟨rfl, h, rfl⟩
    · simp only [hall, Bool.false_eq_true, if_false] at hr ⊢
      obtain ⟨h1, h2, h3⟩ := ih (iter k items) r (mstate_iter h).1 hr
      rw [aW_iter h, refine_iter h] at h1
      exact ⟨h1, h2, by rw [h3, (mstate_iter h).2]⟩

end FlexLine
