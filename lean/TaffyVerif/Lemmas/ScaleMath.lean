/-
  C04 — equivariance `f (scale k x) = scale k (f x)` (k > 0) of the shared helpers: length resolution
  (util/resolve.rs), `MaybeMath` (util/math.rs), the `Size`/`Rect`/`AvailableSpace` helpers of geometry.rs, the
  collapsible margin sets and the harness' measure function.
-/
import TaffyVerif.Lemmas.ScaleBasic

set_option linter.unusedSectionVars false
set_option linter.unusedVariables false
set_option linter.unusedSimpArgs false

namespace C04
open Scalable

variable {k : Rat}

/-! ### `Option` plumbing -/

@[scale_simp] theorem getD_scale (k : Rat) (o : Option Rat) (d : Rat) : (scale k o).getD (scale k d) = scale k (o.getD d) := by
  cases o <;> rfl
@[scale_simp] theorem getD_scale_zero (k : Rat) (o : Option Rat) : (scale k o).getD 0 = scale k (o.getD 0) := by
  cases o <;> simp only [scale_simp, Option.getD_none, Option.getD_some]
@[scale_simp] theorem isSome_scale {β : Type} [Scalable β] (k : Rat) (o : Option β) : (scale k o).isSome = o.isSome := by
  cases o <;> rfl
@[scale_simp] theorem isNone_scale {β : Type} [Scalable β] (k : Rat) (o : Option β) : (scale k o).isNone = o.isNone := by
  cases o <;> rfl
@[scale_simp] theorem or_scale {β : Type} [Scalable β] (k : Rat) (a b : Option β) :
    (scale k a).or (scale k b) = scale k (a.or b) := by
  cases a <;> rfl
@[scale_simp] theorem map_neg_scale (k : Rat) (o : Option Rat) :
    (scale k o).map (fun x => -x) = scale k (o.map fun x => -x) := by
  cases o <;> simp only [scale_simp, Option.map_none, Option.map_some]
@[scale_simp] theorem map_definite_scale (k : Rat) (o : Option Rat) :
    (scale k o).map AvailableSpace.definite = scale k (o.map AvailableSpace.definite) := by
  cases o <;> rfl
@[scale_simp] theorem map_const_zero_scale (k : Rat) (o : Option Rat) :
    (scale k o).map (fun _ => (0 : Rat)) = scale k (o.map fun _ => (0 : Rat)) := by
  cases o <;> simp only [scale_simp, Option.map_none, Option.map_some]

/-! ### length resolution -/

@[scale_simp] theorem LP.maybeResolve_scale (k : Rat) (x : LP Rat) (ctx : Option Rat) :
    (scale k x).maybeResolve (scale k ctx) = scale k (x.maybeResolve ctx) := by
  cases x <;> cases ctx <;> simp only [scale_simp, LP.maybeResolve, Option.map_none, Option.map_some]
@[scale_simp] theorem LP.maybeResolve_scale_some (k : Rat) (x : LP Rat) (c : Rat) :
    (scale k x).maybeResolve (some (scale k c)) = scale k (x.maybeResolve (some c)) :=
  LP.maybeResolve_scale k x (some c)
@[scale_simp] theorem LP.maybeResolve_scale_none (k : Rat) (x : LP Rat) :
    (scale k x).maybeResolve none = scale k (x.maybeResolve none) :=
  LP.maybeResolve_scale k x none
@[scale_simp] theorem LP.resolveOrZero_scale (k : Rat) (x : LP Rat) (ctx : Option Rat) :
    (scale k x).resolveOrZero (scale k ctx) = scale k (x.resolveOrZero ctx) := by
  simp only [LP.resolveOrZero, scale_simp]
@[scale_simp] theorem LP.resolveOrZero_scale_some (k : Rat) (x : LP Rat) (c : Rat) :
    (scale k x).resolveOrZero (some (scale k c)) = scale k (x.resolveOrZero (some c)) :=
  LP.resolveOrZero_scale k x (some c)
@[scale_simp] theorem LP.resolveOrZero_scale_none (k : Rat) (x : LP Rat) :
    (scale k x).resolveOrZero none = scale k (x.resolveOrZero none) :=
  LP.resolveOrZero_scale k x none

@[scale_simp] theorem LPA.maybeResolve_scale (k : Rat) (x : LPA Rat) (ctx : Option Rat) :
    (scale k x).maybeResolve (scale k ctx) = scale k (x.maybeResolve ctx) := by
  cases x <;> cases ctx <;> simp only [scale_simp, LPA.maybeResolve, Option.map_none, Option.map_some]
@[scale_simp] theorem LPA.maybeResolve_scale_some (k : Rat) (x : LPA Rat) (c : Rat) :
    (scale k x).maybeResolve (some (scale k c)) = scale k (x.maybeResolve (some c)) :=
  LPA.maybeResolve_scale k x (some c)
@[scale_simp] theorem LPA.maybeResolve_scale_none (k : Rat) (x : LPA Rat) :
    (scale k x).maybeResolve none = scale k (x.maybeResolve none) :=
  LPA.maybeResolve_scale k x none
/-- `inset.top.maybe_resolve(Some(0.0))`-style calls: the context is the literal zero -/
@[scale_simp] theorem LPA.maybeResolve_scale_some_zero (k : Rat) (x : LPA Rat) :
    (scale k x).maybeResolve (some 0) = scale k (x.maybeResolve (some 0)) := by
  have := LPA.maybeResolve_scale k x (some 0)
  simpa only [scale_simp] using this
@[scale_simp] theorem LPA.resolveOrZero_scale (k : Rat) (x : LPA Rat) (ctx : Option Rat) :
    (scale k x).resolveOrZero (scale k ctx) = scale k (x.resolveOrZero ctx) := by
  simp only [LPA.resolveOrZero, scale_simp]
@[scale_simp] theorem LPA.resolveOrZero_scale_some (k : Rat) (x : LPA Rat) (c : Rat) :
    (scale k x).resolveOrZero (some (scale k c)) = scale k (x.resolveOrZero (some c)) :=
  LPA.resolveOrZero_scale k x (some c)
@[scale_simp] theorem LPA.resolveOrZero_scale_none (k : Rat) (x : LPA Rat) :
    (scale k x).resolveOrZero none = scale k (x.resolveOrZero none) :=
  LPA.resolveOrZero_scale k x none
@[scale_simp] theorem LPA.resolveToOption_scale (k : Rat) (x : LPA Rat) (ctx : Rat) :
    (scale k x).resolveToOption (scale k ctx) = scale k (x.resolveToOption ctx) := by
  cases x <;> simp only [scale_simp, LPA.resolveToOption]
@[scale_simp] theorem LPA.isAuto_scale (k : Rat) (x : LPA Rat) : (scale k x).isAuto = x.isAuto := by
  cases x <;> rfl

/-! ### `Resolve.*` -/

@[scale_simp] theorem Resolve.sizeMaybe_scale (k : Rat) (s : Size (LPA Rat)) (ctx : Size (Option Rat)) :
    Resolve.sizeMaybe (scale k s) (scale k ctx) = scale k (Resolve.sizeMaybe s ctx) := by
  simp only [Resolve.sizeMaybe, scale_simp]
@[scale_simp] theorem Resolve.sizeMaybe_scale_some (k : Rat) (s : Size (LPA Rat)) (w h : Rat) :
    Resolve.sizeMaybe (scale k s) ⟨some (scale k w), some (scale k h)⟩ = scale k (Resolve.sizeMaybe s ⟨some w, some h⟩) :=
  Resolve.sizeMaybe_scale k s ⟨some w, some h⟩
@[scale_simp] theorem Resolve.rectLPOrZero_scale (k : Rat) (r : Rect (LP Rat)) (ctx : Option Rat) :
    Resolve.rectLPOrZero (scale k r) (scale k ctx) = scale k (Resolve.rectLPOrZero r ctx) := by
  simp only [Resolve.rectLPOrZero, scale_simp]
@[scale_simp] theorem Resolve.rectLPOrZero_scale_some (k : Rat) (r : Rect (LP Rat)) (c : Rat) :
    Resolve.rectLPOrZero (scale k r) (some (scale k c)) = scale k (Resolve.rectLPOrZero r (some c)) :=
  Resolve.rectLPOrZero_scale k r (some c)
@[scale_simp] theorem Resolve.rectLPAOrZero_scale (k : Rat) (r : Rect (LPA Rat)) (ctx : Option Rat) :
    Resolve.rectLPAOrZero (scale k r) (scale k ctx) = scale k (Resolve.rectLPAOrZero r ctx) := by
  simp only [Resolve.rectLPAOrZero, scale_simp]
@[scale_simp] theorem Resolve.rectLPAOrZero_scale_some (k : Rat) (r : Rect (LPA Rat)) (c : Rat) :
    Resolve.rectLPAOrZero (scale k r) (some (scale k c)) = scale k (Resolve.rectLPAOrZero r (some c)) :=
  Resolve.rectLPAOrZero_scale k r (some c)
@[scale_simp] theorem Resolve.rectLPOrZeroSize_scale (k : Rat) (r : Rect (LP Rat)) (ctx : Size (Option Rat)) :
    Resolve.rectLPOrZeroSize (scale k r) (scale k ctx) = scale k (Resolve.rectLPOrZeroSize r ctx) := by
  simp only [Resolve.rectLPOrZeroSize, scale_simp]
@[scale_simp] theorem Resolve.rectLPAOrZeroSize_scale (k : Rat) (r : Rect (LPA Rat)) (ctx : Size (Option Rat)) :
    Resolve.rectLPAOrZeroSize (scale k r) (scale k ctx) = scale k (Resolve.rectLPAOrZeroSize r ctx) := by
  simp only [Resolve.rectLPAOrZeroSize, scale_simp]
@[scale_simp] theorem Resolve.rectLPAMaybe_scale (k : Rat) (r : Rect (LPA Rat)) (ctx : Option Rat) :
    Resolve.rectLPAMaybe (scale k r) (scale k ctx) = scale k (Resolve.rectLPAMaybe r ctx) := by
  simp only [Resolve.rectLPAMaybe, scale_simp]
@[scale_simp] theorem Resolve.sizeLPOrZero_scale (k : Rat) (s : Size (LP Rat)) (ctx : Size (Option Rat)) :
    Resolve.sizeLPOrZero (scale k s) (scale k ctx) = scale k (Resolve.sizeLPOrZero s ctx) := by
  simp only [Resolve.sizeLPOrZero, scale_simp]

/-! ### `MaybeMath` -/

section mm
variable (hk : 0 < k)
include hk

@[scale_simp] theorem oo_min_scale (l r : Option Rat) :
    MaybeMath.oo_min (scale k l) (scale k r) = scale k (MaybeMath.oo_min l r) := by
  cases l <;> cases r <;> simp only [MaybeMath.oo_min, scale_simp, hk]
@[scale_simp] theorem oo_max_scale (l r : Option Rat) :
    MaybeMath.oo_max (scale k l) (scale k r) = scale k (MaybeMath.oo_max l r) := by
  cases l <;> cases r <;> simp only [MaybeMath.oo_max, scale_simp, hk]
@[scale_simp] theorem oo_clamp_scale (x mn mx : Option Rat) :
    MaybeMath.oo_clamp (scale k x) (scale k mn) (scale k mx) = scale k (MaybeMath.oo_clamp x mn mx) := by
  cases x <;> cases mn <;> cases mx <;> simp only [MaybeMath.oo_clamp, scale_simp, hk]
@[scale_simp] theorem oo_add_scale (l r : Option Rat) :
    MaybeMath.oo_add (scale k l) (scale k r) = scale k (MaybeMath.oo_add l r) := by
  cases l <;> cases r <;> simp only [MaybeMath.oo_add, scale_simp, hk]
@[scale_simp] theorem oo_sub_scale (l r : Option Rat) :
    MaybeMath.oo_sub (scale k l) (scale k r) = scale k (MaybeMath.oo_sub l r) := by
  cases l <;> cases r <;> simp only [MaybeMath.oo_sub, scale_simp, hk]

@[scale_simp] theorem of_min_scale (l : Option Rat) (r : Rat) :
    MaybeMath.of_min (scale k l) (scale k r) = scale k (MaybeMath.of_min l r) := by
  cases l <;> simp only [MaybeMath.of_min, scale_simp, hk, Option.map_none, Option.map_some]
@[scale_simp] theorem of_max_scale (l : Option Rat) (r : Rat) :
    MaybeMath.of_max (scale k l) (scale k r) = scale k (MaybeMath.of_max l r) := by
  cases l <;> simp only [MaybeMath.of_max, scale_simp, hk, Option.map_none, Option.map_some]
@[scale_simp] theorem of_clamp_scale (l : Option Rat) (mn mx : Rat) :
    MaybeMath.of_clamp (scale k l) (scale k mn) (scale k mx) = scale k (MaybeMath.of_clamp l mn mx) := by
  cases l <;> simp only [MaybeMath.of_clamp, scale_simp, hk, Option.map_none, Option.map_some]
@[scale_simp] theorem of_add_scale (l : Option Rat) (r : Rat) :
    MaybeMath.of_add (scale k l) (scale k r) = scale k (MaybeMath.of_add l r) := by
  cases l <;> simp only [MaybeMath.of_add, scale_simp, hk, Option.map_none, Option.map_some]
@[scale_simp] theorem of_sub_scale (l : Option Rat) (r : Rat) :
    MaybeMath.of_sub (scale k l) (scale k r) = scale k (MaybeMath.of_sub l r) := by
  cases l <;> simp only [MaybeMath.of_sub, scale_simp, hk, Option.map_none, Option.map_some]

@[scale_simp] theorem fo_min_scale (l : Rat) (r : Option Rat) :
    MaybeMath.fo_min (scale k l) (scale k r) = scale k (MaybeMath.fo_min l r) := by
  cases r <;> simp only [MaybeMath.fo_min, scale_simp, hk]
@[scale_simp] theorem fo_max_scale (l : Rat) (r : Option Rat) :
    MaybeMath.fo_max (scale k l) (scale k r) = scale k (MaybeMath.fo_max l r) := by
  cases r <;> simp only [MaybeMath.fo_max, scale_simp, hk]
@[scale_simp] theorem fo_max_scale_some (l r : Rat) :
    MaybeMath.fo_max (scale k l) (some (scale k r)) = scale k (MaybeMath.fo_max l (some r)) :=
  fo_max_scale hk l (some r)
@[scale_simp] theorem fo_clamp_scale (x : Rat) (mn mx : Option Rat) :
    MaybeMath.fo_clamp (scale k x) (scale k mn) (scale k mx) = scale k (MaybeMath.fo_clamp x mn mx) := by
  cases mn <;> cases mx <;> simp only [MaybeMath.fo_clamp, scale_simp, hk]
@[scale_simp] theorem fo_clamp_scale_some (x mn : Rat) (mx : Option Rat) :
    MaybeMath.fo_clamp (scale k x) (some (scale k mn)) (scale k mx) = scale k (MaybeMath.fo_clamp x (some mn) mx) :=
  fo_clamp_scale hk x (some mn) mx
@[scale_simp] theorem fo_add_scale (l : Rat) (r : Option Rat) :
    MaybeMath.fo_add (scale k l) (scale k r) = scale k (MaybeMath.fo_add l r) := by
  cases r <;> simp only [MaybeMath.fo_add, scale_simp, hk]
@[scale_simp] theorem fo_sub_scale (l : Rat) (r : Option Rat) :
    MaybeMath.fo_sub (scale k l) (scale k r) = scale k (MaybeMath.fo_sub l r) := by
  cases r <;> simp only [MaybeMath.fo_sub, scale_simp, hk]

@[scale_simp] theorem af_min_scale (a : AvailableSpace Rat) (r : Rat) :
    MaybeMath.af_min (scale k a) (scale k r) = scale k (MaybeMath.af_min a r) := by
  cases a <;> simp only [MaybeMath.af_min, scale_simp, hk]
@[scale_simp] theorem af_max_scale (a : AvailableSpace Rat) (r : Rat) :
    MaybeMath.af_max (scale k a) (scale k r) = scale k (MaybeMath.af_max a r) := by
  cases a <;> simp only [MaybeMath.af_max, scale_simp, hk]
@[scale_simp] theorem af_clamp_scale (a : AvailableSpace Rat) (mn mx : Rat) :
    MaybeMath.af_clamp (scale k a) (scale k mn) (scale k mx) = scale k (MaybeMath.af_clamp a mn mx) := by
  cases a <;> simp only [MaybeMath.af_clamp, scale_simp, hk]
@[scale_simp] theorem af_add_scale (a : AvailableSpace Rat) (r : Rat) :
    MaybeMath.af_add (scale k a) (scale k r) = scale k (MaybeMath.af_add a r) := by
  cases a <;> simp only [MaybeMath.af_add, scale_simp, hk]
@[scale_simp] theorem af_sub_scale (a : AvailableSpace Rat) (r : Rat) :
    MaybeMath.af_sub (scale k a) (scale k r) = scale k (MaybeMath.af_sub a r) := by
  cases a <;> simp only [MaybeMath.af_sub, scale_simp, hk]
@[scale_simp] theorem af_sub_scale_definite (a r : Rat) :
    MaybeMath.af_sub (.definite (scale k a)) (scale k r) = scale k (MaybeMath.af_sub (.definite a) r) :=
  af_sub_scale hk (.definite a) r

@[scale_simp] theorem ao_min_scale (a : AvailableSpace Rat) (r : Option Rat) :
    MaybeMath.ao_min (scale k a) (scale k r) = scale k (MaybeMath.ao_min a r) := by
  cases a <;> cases r <;> simp only [MaybeMath.ao_min, scale_simp, hk]
@[scale_simp] theorem ao_max_scale (a : AvailableSpace Rat) (r : Option Rat) :
    MaybeMath.ao_max (scale k a) (scale k r) = scale k (MaybeMath.ao_max a r) := by
  cases a <;> cases r <;> simp only [MaybeMath.ao_max, scale_simp, hk]
@[scale_simp] theorem ao_clamp_scale (a : AvailableSpace Rat) (mn mx : Option Rat) :
    MaybeMath.ao_clamp (scale k a) (scale k mn) (scale k mx) = scale k (MaybeMath.ao_clamp a mn mx) := by
  cases a <;> cases mn <;> cases mx <;> simp only [MaybeMath.ao_clamp, scale_simp, hk]
@[scale_simp] theorem ao_add_scale (a : AvailableSpace Rat) (r : Option Rat) :
    MaybeMath.ao_add (scale k a) (scale k r) = scale k (MaybeMath.ao_add a r) := by
  cases a <;> cases r <;> simp only [MaybeMath.ao_add, scale_simp, hk]
@[scale_simp] theorem ao_sub_scale (a : AvailableSpace Rat) (r : Option Rat) :
    MaybeMath.ao_sub (scale k a) (scale k r) = scale k (MaybeMath.ao_sub a r) := by
  cases a <;> cases r <;> simp only [MaybeMath.ao_sub, scale_simp, hk]

end mm

/-! ### `Rect`, `Size`, `AvailableSpace`, `Point` helpers -/

@[scale_simp] theorem Rect.horizontalAxisSum_scale (k : Rat) (r : Rect Rat) :
    (scale k r).horizontalAxisSum = scale k r.horizontalAxisSum := by
  simp only [Rect.horizontalAxisSum, scale_simp]
@[scale_simp] theorem Rect.verticalAxisSum_scale (k : Rat) (r : Rect Rat) :
    (scale k r).verticalAxisSum = scale k r.verticalAxisSum := by
  simp only [Rect.verticalAxisSum, scale_simp]
@[scale_simp] theorem Rect.sumAxes_scale (k : Rat) (r : Rect Rat) : (scale k r).sumAxes = scale k r.sumAxes := by
  simp only [Rect.sumAxes, scale_simp]
@[scale_simp] theorem Rect.mainAxisSum_scale (k : Rat) (r : Rect Rat) (d : FlexDirection) :
    (scale k r).mainAxisSum d = scale k (r.mainAxisSum d) := by
  simp only [Rect.mainAxisSum, scale_simp]
@[scale_simp] theorem Rect.crossAxisSum_scale (k : Rat) (r : Rect Rat) (d : FlexDirection) :
    (scale k r).crossAxisSum d = scale k (r.crossAxisSum d) := by
  simp only [Rect.crossAxisSum, scale_simp]
@[scale_simp] theorem Rect.add_scale (k : Rat) (a b : Rect Rat) : (scale k a).add (scale k b) = scale k (a.add b) := by
  simp only [Rect.add, scale_simp]

section sz
variable {β : Type} [Scalable β]
@[scale_simp] theorem Size.orOpt_scale (k : Rat) (a b : Size (Option β)) :
    (scale k a).orOpt (scale k b) = scale k (a.orOpt b) := by
  simp only [Size.orOpt, scale_simp]
@[scale_simp] theorem Size.unwrapOr_scale (k : Rat) (a : Size (Option Rat)) (b : Size Rat) :
    (scale k a).unwrapOr (scale k b) = scale k (a.unwrapOr b) := by
  simp only [Size.unwrapOr, scale_simp]
@[scale_simp] theorem Size.bothAxisDefined_scale (k : Rat) (a : Size (Option β)) :
    (scale k a).bothAxisDefined = a.bothAxisDefined := by
  simp only [Size.bothAxisDefined, scale_simp]
@[scale_simp] theorem Size.main_scale (k : Rat) (s : Size β) (d : FlexDirection) : (scale k s).main d = scale k (s.main d) := by
  simp only [Size.main, scale_simp]
@[scale_simp] theorem Size.cross_scale (k : Rat) (s : Size β) (d : FlexDirection) : (scale k s).cross d = scale k (s.cross d) := by
  simp only [Size.cross, scale_simp]
@[scale_simp] theorem Size.map_some_scale (k : Rat) (s : Size β) :
    (scale k s).map some = scale k (s.map some) := rfl
@[scale_simp] theorem Size.map_intoOption_scale (k : Rat) (s : Size (AvailableSpace β)) :
    (scale k s).map AvailableSpace.intoOption = scale k (s.map AvailableSpace.intoOption) := by
  obtain ⟨w, h⟩ := s
  cases w <;> cases h <;> rfl
@[scale_simp] theorem Point.transpose_scale (k : Rat) (p : Point β) : (scale k p).transpose = scale k p.transpose := rfl
end sz

@[scale_simp] theorem Size.add_scale (k : Rat) (a b : Size Rat) : (scale k a).add (scale k b) = scale k (a.add b) := by
  simp only [Size.add, scale_simp]
@[scale_simp] theorem Size.sub_scale (k : Rat) (a b : Size Rat) : (scale k a).sub (scale k b) = scale k (a.sub b) := by
  simp only [Size.sub, scale_simp]

/-- the aspect ratio is NOT scaled -/
@[scale_simp] theorem Size.maybeApplyAspectRatio_scale (k : Rat) (s : Size (Option Rat)) (ratio : Option Rat) :
    (scale k s).maybeApplyAspectRatio ratio = scale k (s.maybeApplyAspectRatio ratio) := by
  obtain ⟨w, h⟩ := s
  cases ratio <;> cases w <;> cases h <;> simp only [Size.maybeApplyAspectRatio, scale_simp]

section szmm
variable (hk : 0 < k)
include hk
@[scale_simp] theorem Size.f32Max_scale (a b : Size Rat) : (scale k a).f32Max (scale k b) = scale k (a.f32Max b) := by
  simp only [Size.f32Max, scale_simp, hk]
@[scale_simp] theorem Size.f32Min_scale (a b : Size Rat) : (scale k a).f32Min (scale k b) = scale k (a.f32Min b) := by
  simp only [Size.f32Min, scale_simp, hk]
@[scale_simp] theorem Size.oo_add_scale (a b : Size (Option Rat)) : (scale k a).oo_add (scale k b) = scale k (a.oo_add b) := by
  simp only [Size.oo_add, scale_simp, hk]
@[scale_simp] theorem Size.oo_sub_scale (a b : Size (Option Rat)) : (scale k a).oo_sub (scale k b) = scale k (a.oo_sub b) := by
  simp only [Size.oo_sub, scale_simp, hk]
@[scale_simp] theorem Size.oo_max_scale (a b : Size (Option Rat)) : (scale k a).oo_max (scale k b) = scale k (a.oo_max b) := by
  simp only [Size.oo_max, scale_simp, hk]
@[scale_simp] theorem Size.oo_min_scale (a b : Size (Option Rat)) : (scale k a).oo_min (scale k b) = scale k (a.oo_min b) := by
  simp only [Size.oo_min, scale_simp, hk]
@[scale_simp] theorem Size.oo_clamp_scale (a mn mx : Size (Option Rat)) :
    (scale k a).oo_clamp (scale k mn) (scale k mx) = scale k (a.oo_clamp mn mx) := by
  simp only [Size.oo_clamp, scale_simp, hk]
@[scale_simp] theorem Size.of_add_scale (a : Size (Option Rat)) (b : Size Rat) : (scale k a).of_add (scale k b) = scale k (a.of_add b) := by
  simp only [Size.of_add, scale_simp, hk]
@[scale_simp] theorem Size.of_sub_scale (a : Size (Option Rat)) (b : Size Rat) : (scale k a).of_sub (scale k b) = scale k (a.of_sub b) := by
  simp only [Size.of_sub, scale_simp, hk]
@[scale_simp] theorem Size.of_max_scale (a : Size (Option Rat)) (b : Size Rat) : (scale k a).of_max (scale k b) = scale k (a.of_max b) := by
  simp only [Size.of_max, scale_simp, hk]
@[scale_simp] theorem Size.fo_clamp_scale (a : Size Rat) (mn mx : Size (Option Rat)) :
    (scale k a).fo_clamp (scale k mn) (scale k mx) = scale k (a.fo_clamp mn mx) := by
  simp only [Size.fo_clamp, scale_simp, hk]
@[scale_simp] theorem Size.fo_max_scale (a : Size Rat) (b : Size (Option Rat)) : (scale k a).fo_max (scale k b) = scale k (a.fo_max b) := by
  simp only [Size.fo_max, scale_simp, hk]
@[scale_simp] theorem Size.fo_min_scale (a : Size Rat) (b : Size (Option Rat)) : (scale k a).fo_min (scale k b) = scale k (a.fo_min b) := by
  simp only [Size.fo_min, scale_simp, hk]
@[scale_simp] theorem Size.ao_sub_scale (a : Size (AvailableSpace Rat)) (b : Size (Option Rat)) :
    (scale k a).ao_sub (scale k b) = scale k (a.ao_sub b) := by
  simp only [Size.ao_sub, scale_simp, hk]
@[scale_simp] theorem Size.af_sub_scale (a : Size (AvailableSpace Rat)) (b : Size Rat) :
    (scale k a).af_sub (scale k b) = scale k (a.af_sub b) := by
  simp only [Size.af_sub, scale_simp, hk]
end szmm

section av
variable {β : Type} [Scalable β]
@[scale_simp] theorem AvailableSpace.intoOption_scale (k : Rat) (a : AvailableSpace β) :
    (scale k a).intoOption = scale k a.intoOption := by cases a <;> rfl
@[scale_simp] theorem AvailableSpace.isDefinite_scale (k : Rat) (a : AvailableSpace β) :
    (scale k a).isDefinite = a.isDefinite := by cases a <;> rfl
@[scale_simp] theorem AvailableSpace.maybeSet_scale (k : Rat) (a : AvailableSpace β) (v : Option β) :
    (scale k a).maybeSet (scale k v) = scale k (a.maybeSet v) := by cases v <;> rfl
@[scale_simp] theorem AvailableSpace.ofOption_scale (k : Rat) (v : Option β) :
    AvailableSpace.ofOption (scale k v) = scale k (AvailableSpace.ofOption v) := by cases v <;> rfl
end av
@[scale_simp] theorem AvailableSpace.unwrapOr_scale (k : Rat) (a : AvailableSpace Rat) (d : Rat) :
    (scale k a).unwrapOr (scale k d) = scale k (a.unwrapOr d) := by
  simp only [AvailableSpace.unwrapOr, scale_simp]

/-- `Size::zip_map` with a scaling-equivariant combining function -/
theorem zipMap_scale_of (k : Rat) (f : Option Rat → Option Rat → Option Rat)
    (hf : ∀ a b, f (scale k a) (scale k b) = scale k (f a b)) (x y : Size (Option Rat)) :
    Size.zipMap (scale k x) (scale k y) f = scale k (Size.zipMap x y f) := by
  simp only [Size.zipMap, scale_simp, hf]

/-! ### lists -/

theorem map_scale_comm {β γ : Type} [Scalable β] [Scalable γ] (k : Rat) (f f' : β → γ)
    (h : ∀ x, f' (scale k x) = scale k (f x)) (l : List β) :
    (scale k l).map f' = scale k (l.map f) := by
  simp only [scale_list, List.map_map]
  congr 1
  funext x
  exact h x

theorem filter_scale {β : Type} [Scalable β] (k : Rat) (p : β → Bool) (h : ∀ x, p (scale k x) = p x) (l : List β) :
    (scale k l).filter p = scale k (l.filter p) := by
  induction l with
  | nil => rfl
  | cons x xs ih =>
    simp only [scale_cons, List.filter_cons, h, ih]
    split <;> rfl

theorem all_scale {β : Type} [Scalable β] (k : Rat) (p : β → Bool) (h : ∀ x, p (scale k x) = p x) (l : List β) :
    (scale k l).all p = l.all p := by
  induction l with
  | nil => rfl
  | cons x xs ih => simp only [scale_cons, List.all_cons, h, ih]

theorem reverse_scale {β : Type} [Scalable β] (k : Rat) (l : List β) : (scale k l).reverse = scale k l.reverse := by
  simp only [scale_list, List.map_reverse]

/-! ### collapsible margin sets -/

section ms
variable (hk : 0 < k)
include hk
@[scale_simp] theorem MarginSet.fromMargin_scale (m : Rat) :
    MarginSet.fromMargin (scale k m) = scale k (MarginSet.fromMargin m) := by
  simp only [MarginSet.fromMargin, scale_simp, hk]
  split <;> simp only [scale_simp]
@[scale_simp] theorem MarginSet.collapseWithMargin_scale (s : MarginSet Rat) (m : Rat) :
    (scale k s).collapseWithMargin (scale k m) = scale k (s.collapseWithMargin m) := by
  simp only [MarginSet.collapseWithMargin, scale_simp, hk]
  split <;> rfl
@[scale_simp] theorem MarginSet.collapseWithSet_scale (s o : MarginSet Rat) :
    (scale k s).collapseWithSet (scale k o) = scale k (s.collapseWithSet o) := by
  simp only [MarginSet.collapseWithSet, scale_simp, hk]
end ms
@[scale_simp] theorem MarginSet.resolve_scale (k : Rat) (s : MarginSet Rat) : (scale k s).resolve = scale k s.resolve := by
  simp only [MarginSet.resolve, scale_simp]

/-! ### `LayoutOutput` constructors -/

@[scale_simp] theorem LayoutOutput.fromSizesAndBaselines_scale (k : Rat) (s cs : Size Rat) (b : Point (Option Rat)) :
    LayoutOutput.fromSizesAndBaselines (scale k s) (scale k cs) (scale k b) =
      scale k (LayoutOutput.fromSizesAndBaselines s cs b) := by
  simp only [LayoutOutput.fromSizesAndBaselines, scale_lo_mk, scale_simp]
@[scale_simp] theorem LayoutOutput.fromSizes_scale (k : Rat) (s cs : Size Rat) :
    LayoutOutput.fromSizes (scale k s) (scale k cs) = scale k (LayoutOutput.fromSizes s cs) := by
  simp only [LayoutOutput.fromSizes]
  exact LayoutOutput.fromSizesAndBaselines_scale k s cs ⟨none, none⟩
@[scale_simp] theorem LayoutOutput.fromOuterSize_scale (k : Rat) (s : Size Rat) :
    LayoutOutput.fromOuterSize (scale k s) = scale k (LayoutOutput.fromOuterSize s) := by
  simp only [LayoutOutput.fromOuterSize]
  have := LayoutOutput.fromSizes_scale k s ⟨0, 0⟩
  simpa only [scale_simp] using this
@[scale_simp] theorem LayoutOutput.fromOuterSize_scale_mk (k : Rat) (w h : Rat) :
    LayoutOutput.fromOuterSize ⟨scale k w, scale k h⟩ = scale k (LayoutOutput.fromOuterSize ⟨w, h⟩) :=
  LayoutOutput.fromOuterSize_scale k ⟨w, h⟩

/-! ### the harness' measure function -/

theorem two_ne : (Num.two : Rat) = 2 := by
  show (1 : Rat) + 1 = 2
  norm_num

theorem MeasureSpec.measure_scale (hk : 0 < k) (m : MeasureSpec Rat) (kd : Size (Option Rat))
    (av : Size (AvailableSpace Rat)) :
    (scale k m).measure (scale k kd) (scale k av) = scale k (m.measure kd av) := by
  obtain ⟨kw, kh⟩ := kd
  obtain ⟨aw, ah⟩ := av
  cases m with
  | fixed w h => simp only [MeasureSpec.measure, scale_simp]
  | wrap w h =>
    cases kw <;> cases aw <;>
      simp only [MeasureSpec.measure, scale_simp, hk]

/-- the measure closure of a node with (scaled) context is the scaled measure closure -/
theorem measureOf_scale (hk : 0 < k) (ctx : Option (MeasureSpec Rat)) :
    Eval.measureOf (scale k ctx) = scaleMeasure k (Eval.measureOf ctx) := by
  funext kd av
  cases ctx with
  | none =>
    simp only [scale_none, Eval.measureOf, scaleMeasure, scale_simp]
  | some m =>
    simp only [scale_some, Eval.measureOf, scaleMeasure]
    have := MeasureSpec.measure_scale hk m (scale k⁻¹ kd) (scale k⁻¹ av)
    rw [scale_inv_cancel hk, scale_inv_cancel hk] at this
    exact this

/-! the same lemmas as *pre*-lemmas (`↓`): tried before the arguments are normalised, so that a record literal all of
whose fields are scaled can first be folded (`← scale_size_mk` …) and then passed through the function -/
attribute [scale_simp ↓]
  getD_scale getD_scale_zero isSome_scale isNone_scale
  or_scale map_neg_scale map_definite_scale map_const_zero_scale
  LP.maybeResolve_scale LP.maybeResolve_scale_some LP.maybeResolve_scale_none LP.resolveOrZero_scale
  LP.resolveOrZero_scale_some LP.resolveOrZero_scale_none LPA.maybeResolve_scale LPA.maybeResolve_scale_some
  LPA.maybeResolve_scale_none LPA.maybeResolve_scale_some_zero LPA.resolveOrZero_scale LPA.resolveOrZero_scale_some
  LPA.resolveOrZero_scale_none LPA.resolveToOption_scale LPA.isAuto_scale Resolve.sizeMaybe_scale
  Resolve.sizeMaybe_scale_some Resolve.rectLPOrZero_scale Resolve.rectLPOrZero_scale_some Resolve.rectLPAOrZero_scale
  Resolve.rectLPAOrZero_scale_some Resolve.rectLPOrZeroSize_scale Resolve.rectLPAOrZeroSize_scale Resolve.rectLPAMaybe_scale
  Resolve.sizeLPOrZero_scale oo_min_scale oo_max_scale oo_clamp_scale
  oo_add_scale oo_sub_scale of_min_scale of_max_scale
  of_clamp_scale of_add_scale of_sub_scale fo_min_scale
  fo_max_scale fo_max_scale_some fo_clamp_scale fo_clamp_scale_some
  fo_add_scale fo_sub_scale af_min_scale af_max_scale
  af_clamp_scale af_add_scale af_sub_scale af_sub_scale_definite
  ao_min_scale ao_max_scale ao_clamp_scale ao_add_scale
  ao_sub_scale Rect.horizontalAxisSum_scale Rect.verticalAxisSum_scale Rect.sumAxes_scale
  Rect.mainAxisSum_scale Rect.crossAxisSum_scale Rect.add_scale Size.orOpt_scale
  Size.unwrapOr_scale Size.bothAxisDefined_scale Size.main_scale Size.cross_scale
  Size.map_some_scale Size.map_intoOption_scale Point.transpose_scale Size.add_scale
  Size.sub_scale Size.maybeApplyAspectRatio_scale Size.f32Max_scale Size.f32Min_scale
  Size.oo_add_scale Size.oo_sub_scale Size.oo_max_scale Size.oo_min_scale
  Size.oo_clamp_scale Size.of_add_scale Size.of_sub_scale Size.of_max_scale
  Size.fo_clamp_scale Size.fo_max_scale Size.fo_min_scale Size.ao_sub_scale
  Size.af_sub_scale AvailableSpace.intoOption_scale AvailableSpace.isDefinite_scale AvailableSpace.maybeSet_scale
  AvailableSpace.ofOption_scale AvailableSpace.unwrapOr_scale MarginSet.fromMargin_scale MarginSet.collapseWithMargin_scale
  MarginSet.collapseWithSet_scale MarginSet.resolve_scale LayoutOutput.fromSizesAndBaselines_scale LayoutOutput.fromSizes_scale
  LayoutOutput.fromOuterSize_scale LayoutOutput.fromOuterSize_scale_mk

end C04
