/-
  C04 for grid, part 13: `distribute_space_up_to_limits` and the functions built on it, with their THRESHOLDs as
  parameters (Lemmas/GridScaleTheta.lean): scaling the lengths AND the thresholds scales the result.
-/
import TaffyVerif.Lemmas.GridScalePure4
import TaffyVerif.Lemmas.GridScaleTheta

set_option linter.unusedSectionVars false
set_option linter.unusedVariables false
set_option linter.unusedSimpArgs false

namespace C04
open Scalable GridModel GridTracks GridStages GridTheta

variable {k : Rat}

/-! ### extended minima -/

theorem ext_subDiv (hk : 0 < k) (e : Ext Rat) (x p : Rat) :
    (scale k e).subDiv (scale k x) p = scale k (e.subDiv x p) := by
  cases e with
  | inf => rfl
  | fin g =>
    simp only [ext_fin, Ext.subDiv]
    split
    · rfl
    · simp only [ext_fin, sub_scale, div_scale]

theorem extStep_scale (hk : 0 < k) (a b : Ext Rat) : extStep (scale k a) (scale k b) = scale k (extStep a b) := by
  cases a <;> cases b <;> simp only [extStep, ext_fin, ext_inf, flt_scale hk]
  split <;> rfl

theorem extMinList_scale (hk : 0 < k) (l : List (Ext Rat)) : extMinList (scale k l) = scale k (extMinList l) := by
  cases l with
  | nil => rfl
  | cons x rest =>
    show some ((scale k rest).foldl extStep (scale k x)) = some (scale k (rest.foldl extStep x))
    congr 1
    induction rest generalizing x with
    | nil => rfl
    | cons y ys ih =>
      show (scale k ys).foldl extStep (extStep (scale k x) (scale k y)) = _
      rw [extStep_scale hk]
      exact ih _

/-! ### updates of a track -/

theorem gt_setIII (k : Rat) (t : GridTrack Rat) (v : Rat) :
    ({ scale k t with itemIncurredIncrease := scale k v } : GridTrack Rat) = scale k { t with itemIncurredIncrease := v } :=
  rfl
theorem gt_setBase (k : Rat) (t : GridTrack Rat) (v : Rat) :
    ({ scale k t with baseSize := scale k v } : GridTrack Rat) = scale k { t with baseSize := v } := rfl
theorem gt_setGL (k : Rat) (t : GridTrack Rat) (v : Ext Rat) :
    ({ scale k t with growthLimit := scale k v } : GridTrack Rat) = scale k { t with growthLimit := v } := rfl

/-- how the closure parameters of the distribution functions are related -/
structure DistFns (k : Rat) (aff' aff : GridTrack Rat → Bool) (prop' prop : GridTrack Rat → Rat)
    (lim' lim : GridTrack Rat → Ext Rat) : Prop where
  aff : ∀ t, aff' (scale k t) = aff t
  prop : ∀ t, prop' (scale k t) = prop t
  lim : ∀ t, lim' (scale k t) = scale k (lim t)

theorem distributeApplyT_scale (hk : 0 < k) (θ inc : Rat) {aff' aff : GridTrack Rat → Bool}
    {prop' prop : GridTrack Rat → Rat} {affP' affP : GridTrack Rat → Rat} {lim' lim : GridTrack Rat → Ext Rat}
    (hf : DistFns k aff' aff prop' prop lim' lim) (hP : ∀ t, affP' (scale k t) = scale k (affP t)) :
    ∀ (tracks : List (GridTrack Rat)) (space : Rat),
      distributeApplyT (scale k θ) (scale k inc) aff' prop' affP' lim' (scale k tracks) (scale k space) =
        scale k (distributeApplyT θ inc aff prop affP lim tracks space)
  | [], space => rfl
  | t :: rest, space => by
    show distributeApplyT _ _ _ _ _ _ (scale k t :: scale k rest) _ = _
    unfold distributeApplyT
    simp only [hf.aff, hf.prop, hf.lim, hP, gt_itemIncurredIncrease, mul_scale, add_scale, flt_zero_scale hk, ext_gtF hk,
      ext_addF, ext_geF hk, sub_scale]
    have ih1 := distributeApplyT_scale hk θ inc hf hP rest (space - inc * prop t)
    have ih2 := distributeApplyT_scale hk θ inc hf hP rest space
    rw [ih1, ih2]
    split
    · split
      · rcases distributeApplyT θ inc aff prop affP lim rest (space - inc * prop t) with ⟨r, sp⟩
        simp only [scale_pair, gt_setIII, scale_cons]
      · rcases distributeApplyT θ inc aff prop affP lim rest space with ⟨r, sp⟩
        simp only [scale_pair, scale_cons]
    · rcases distributeApplyT θ inc aff prop affP lim rest space with ⟨r, sp⟩
      simp only [scale_pair, scale_cons]

theorem filter_scale_list {β : Type} [Scalable β] (k : Rat) (l : List β) (p' p : β → Bool)
    (h : ∀ x, p' (scale k x) = p x) : (scale k l).filter p' = scale k (l.filter p) := by
  rw [scale_list, scale_list, List.filter_map]
  congr 1
  exact List.filter_congr fun x _ => h x

theorem gsumF_map_inv (k : Rat) (l : List (GridTrack Rat)) (f' f : GridTrack Rat → Rat) (h : ∀ x, f' (scale k x) = f x) :
    GridTracks.sumF ((scale k l).map f') = GridTracks.sumF (l.map f) := by
  rw [map_scale_list_inv k l f' f h]

theorem distributeSpaceUpToLimitsT_scale (hk : 0 < k) (θ : Rat) {aff' aff : GridTrack Rat → Bool}
    {prop' prop : GridTrack Rat → Rat} {affP' affP : GridTrack Rat → Rat} {lim' lim : GridTrack Rat → Ext Rat}
    (hf : DistFns k aff' aff prop' prop lim' lim) (hP : ∀ t, affP' (scale k t) = scale k (affP t)) :
    ∀ (fuel : Nat) (space : Rat) (tracks : List (GridTrack Rat)),
      distributeSpaceUpToLimitsT (scale k θ) fuel (scale k space) (scale k tracks) aff' prop' affP' lim' =
        scale k (distributeSpaceUpToLimitsT θ fuel space tracks aff prop affP lim)
  | 0, space, tracks => rfl
  | fuel + 1, space, tracks => by
    unfold distributeSpaceUpToLimitsT
    dsimp only
    rw [flt_scale hk]
    have hg : (scale k tracks).filter (fun t => (lim' t).gtF (affP' t + t.itemIncurredIncrease) && aff' t) =
        scale k (tracks.filter fun t => (lim t).gtF (affP t + t.itemIncurredIncrease) && aff t) :=
      filter_scale_list k tracks _ _ fun t => by
        rw [hf.lim, hP, gt_itemIncurredIncrease, add_scale, ext_gtF hk, hf.aff]
    rw [hg, gsumF_map_inv k _ prop' prop hf.prop]
    have hm : (scale k (tracks.filter fun t => (lim t).gtF (affP t + t.itemIncurredIncrease) && aff t)).map
        (fun t => (lim' t).subDiv (affP' t) (prop' t)) =
        scale k ((tracks.filter fun t => (lim t).gtF (affP t + t.itemIncurredIncrease) && aff t).map
          fun t => (lim t).subDiv (affP t) (prop t)) :=
      map_scale_list k _ _ _ fun t => by rw [hf.lim, hP, hf.prop, ext_subDiv hk]
    rw [hm, extMinList_scale hk]
    split
    · rfl
    · split
      · rfl
      · cases extMinList ((tracks.filter fun t => (lim t).gtF (affP t + t.itemIncurredIncrease) && aff t).map
            fun t => (lim t).subDiv (affP t) (prop t)) with
        | none => rfl
        | some mil =>
          simp only [scale_some, div_scale, ext_minF hk, distributeApplyT_scale hk θ _ hf hP]
          rcases distributeApplyT θ _ aff prop affP lim tracks space with ⟨tr, sp⟩
          simp only [scale_pair]
          exact distributeSpaceUpToLimitsT_scale hk θ hf hP fuel sp tr

end C04
