/-
  Helper lemmas about Model/GridPlacement.lean, part 7 (towards `placement_total`): a weakest-precondition style
  predicate on outcomes ("neither panics nor overflows, and what it returns satisfies `P`"), its rules for the checked
  integer operations, the coordinate conversions and the line-resolution functions under explicit size bounds.
-/
import TaffyVerif.Lemmas.GridPlacementNoPanic
import TaffyVerif.Lemmas.GridPlacementFuel

set_option linter.unusedSimpArgs false
set_option linter.unusedVariables false

namespace GridPlacement
open Outcome

/-! ### the predicate -/

/-- `x` neither panics nor overflows, and if it returns `a` then `P a`. (Running out of fuel is allowed here; that it
does not happen is `NF`, proved for every input in GridPlacementFuel.) -/
def WP {α : Type} (x : Outcome α) (P : α → Prop) : Prop :=
  match x with
  | .ok a => P a
  | .outOfFuel => True
  | .panic _ => False
  | .overflow => False

theorem wp_ok {α : Type} {a : α} {P : α → Prop} (h : P a) : WP (Outcome.ok a) P := h
theorem wp_pure {α : Type} {a : α} {P : α → Prop} (h : P a) : WP (pure a : Outcome α) P := h

theorem wp_of_eq {α : Type} {x : Outcome α} {a : α} {P : α → Prop} (hx : x = .ok a) (h : P a) : WP x P := by
  rw [hx]; exact h

theorem wp_bind_ok {α β : Type} {x : Outcome α} {f : α → Outcome β} {Q : α → Prop} {P : β → Prop}
    (hx : WP x Q) (hf : ∀ a, x = .ok a → Q a → WP (f a) P) : WP (x >>= f) P := by
  cases x with
  | ok a => exact hf a rfl hx
  | panic m => exact hx.elim
  | overflow => exact hx.elim
  | outOfFuel => trivial

theorem wp_bind_ok' {α β : Type} {x : Outcome α} {f : α → Outcome β} {Q : α → Prop} {P : β → Prop}
    (hx : WP x Q) (hf : ∀ a, x = .ok a → Q a → WP (f a) P) : WP (x.bind f) P := wp_bind_ok hx hf

theorem wp_mono {α : Type} {x : Outcome α} {Q P : α → Prop} (hx : WP x Q) (h : ∀ a, x = .ok a → Q a → P a) :
    WP x P := by
  cases x with
  | ok a => exact h a rfl hx
  | panic m => exact hx.elim
  | overflow => exact hx.elim
  | outOfFuel => trivial

theorem wp_and {α : Type} {x : Outcome α} {Q P : α → Prop} (h1 : WP x Q) (h2 : WP x P) : WP x (fun a => Q a ∧ P a) := by
  cases x with
  | ok a => exact ⟨h1, h2⟩
  | panic m => exact h1.elim
  | overflow => exact h1.elim
  | outOfFuel => trivial

/-- a computation that is known not to panic, shown not to overflow, with a specification of its results -/
theorem wp_of_np {α : Type} {x : Outcome α} {P : α → Prop} (hnp : NP x) (hno : x ≠ .overflow)
    (h : ∀ a, x = .ok a → P a) : WP x P := by
  cases x with
  | ok a => exact h a rfl
  | panic m => exact absurd rfl (hnp.out m)
  | overflow => exact absurd rfl hno
  | outOfFuel => trivial

theorem WP.no_overflow {α : Type} {x : Outcome α} {P : α → Prop} (h : WP x P) : x ≠ .overflow := by
  intro hx; rw [hx] at h; exact h

/-- **totality from the two halves**: no panic / overflow (`WP`) and no fuel exhaustion (`NF`) leave only `ok` -/
theorem wp_total {α : Type} {x : Outcome α} {P : α → Prop} (h : WP x P) (hf : NF x) : ∃ a, x = .ok a ∧ P a := by
  cases x with
  | ok a => exact ⟨a, rfl, h⟩
  | panic m => exact h.elim
  | overflow => exact h.elim
  | outOfFuel => exact absurd rfl hf.out

/-! ### checked integers and coordinates -/

theorem wp_i16 {x : Int} (h1 : -32768 ≤ x) (h2 : x ≤ 32767) : WP (i16 x) (fun y => y = x) :=
  wp_of_eq (i16_eq_ok.2 ⟨rfl, h1, h2⟩) rfl

theorem wp_u16 {x : Int} (h1 : 0 ≤ x) (h2 : x ≤ 65535) : WP (u16 x) (fun y => y = x) :=
  wp_of_eq (u16_eq_ok.2 ⟨rfl, h1, h2⟩) rfl

theorem wp_usize {x : Int} (h1 : 0 ≤ x) (h2 : x ≤ 18446744073709551615) : WP (usize x) (fun y => y = x) :=
  wp_of_eq (usize_eq_ok.2 ⟨rfl, h1, h2⟩) rfl

theorem wp_ozAdd {l n : Int} (h1 : -32768 ≤ n) (h2 : n ≤ 32767) (h3 : -32768 ≤ l + n) (h4 : l + n ≤ 32767) :
    WP (ozAdd l n) (fun y => y = l + n) :=
  wp_of_eq (ozAdd_eq_ok.2 ⟨rfl, h1, h2, h3, h4⟩) rfl

theorem wp_ozSub {l n : Int} (h1 : -32768 ≤ n) (h2 : n ≤ 32767) (h3 : -32768 ≤ l - n) (h4 : l - n ≤ 32767) :
    WP (ozSub l n) (fun y => y = l - n) :=
  wp_of_eq (ozSub_eq_ok.2 ⟨rfl, h1, h2, h3, h4⟩) rfl

/-- track counts are non-negative; the negative implicit count and the implicit end line are at most `K` -/
structure TB (t : TrackCounts) (K : Int) : Prop where
  neg0 : 0 ≤ t.negativeImplicit
  exp0 : 0 ≤ t.explicit
  pos0 : 0 ≤ t.positiveImplicit
  negK : t.negativeImplicit ≤ K
  endK : t.explicit + t.positiveImplicit ≤ K

theorem TB.mono {t : TrackCounts} {K K' : Int} (h : TB t K) (hk : K ≤ K') : TB t K' :=
  ⟨h.neg0, h.exp0, h.pos0, Int.le_trans h.negK hk, Int.le_trans h.endK hk⟩

theorem wp_len {t : TrackCounts} {K : Int} (tb : TB t K) (hK : K ≤ 16000) :
    WP t.len (fun n => n = t.negativeImplicit + t.explicit + t.positiveImplicit) := by
  obtain ⟨a, b, c, d, e⟩ := tb
  exact wp_of_eq (len_eq_ok.2 ⟨rfl, by omega, by omega, by omega, by omega⟩) rfl

theorem wp_ozLineToNextTrack {t : TrackCounts} {K : Int} (tb : TB t K) (hK : K ≤ 16000) {i : Int}
    (h1 : -16000 ≤ i) (h2 : i ≤ 16000) : WP (t.ozLineToNextTrack i) (fun r => r = i + t.negativeImplicit) := by
  obtain ⟨a, b, c, d, e⟩ := tb
  exact wp_of_eq (ozLineToNextTrack_eq_ok.2 ⟨rfl, by omega, by omega, by omega, by omega⟩) rfl

/-- both ends of a line range are small -/
def AB (a : Line Int) : Prop := -16000 ≤ a.start ∧ a.start ≤ 16000 ∧ -16000 ≤ a.«end» ∧ a.«end» ≤ 16000

theorem wp_ozRange {t : TrackCounts} {K : Int} (tb : TB t K) (hK : K ≤ 16000) {a : Line Int} (ha : AB a) :
    WP (t.ozLineRangeToTrackRange a)
      (fun r => r = ⟨a.start + t.negativeImplicit, a.«end» + t.negativeImplicit⟩) := by
  obtain ⟨a1, a2, a3, a4⟩ := ha
  unfold TrackCounts.ozLineRangeToTrackRange
  refine wp_bind_ok (wp_ozLineToNextTrack tb hK a1 a2) ?_
  rintro _ - rfl
  refine wp_bind_ok (wp_ozLineToNextTrack tb hK a3 a4) ?_
  rintro _ - rfl
  exact wp_pure rfl

theorem wp_implicitStartLine {t : TrackCounts} {K : Int} (tb : TB t K) (hK : K ≤ 16000) :
    WP t.implicitStartLine (fun l => l = -t.negativeImplicit) := by
  obtain ⟨a, b, c, d, e⟩ := tb
  unfold TrackCounts.implicitStartLine
  refine wp_bind_ok (wp_i16 (by omega) (by omega)) ?_
  rintro _ - rfl
  exact wp_i16 (by omega) (by omega)

theorem wp_implicitEndLine {t : TrackCounts} {K : Int} (tb : TB t K) (hK : K ≤ 16000) :
    WP t.implicitEndLine (fun l => l = t.explicit + t.positiveImplicit) := by
  obtain ⟨a, b, c, d, e⟩ := tb
  unfold TrackCounts.implicitEndLine
  refine wp_bind_ok (wp_u16 (by omega) (by omega)) ?_
  rintro _ - rfl
  exact wp_i16 (by omega) (by omega)

theorem wp_trackToPrevOzLine {t : TrackCounts} {K : Int} (tb : TB t K) (hK : K ≤ 16000) {i : Int}
    (h1 : 0 ≤ i) (h2 : i ≤ 32767) : WP (t.trackToPrevOzLine i) (fun r => r = i - t.negativeImplicit) := by
  obtain ⟨a, b, c, d, e⟩ := tb
  unfold TrackCounts.trackToPrevOzLine
  refine wp_bind_ok (wp_i16 (by omega) (by omega)) ?_
  rintro _ - rfl
  refine wp_bind_ok (wp_i16 (by omega) (by omega)) ?_
  rintro _ - rfl
  exact wp_i16 (by omega) (by omega)

/-! ### placements within a bound -/

/-- origin-zero placement: lines within `±L`, spans within `1..L` -/
def PlB (L : Int) : Placement → Prop
  | .auto => True
  | .line n => -L ≤ n ∧ n ≤ L
  | .span s => 1 ≤ s ∧ s ≤ L

def OzB (L : Int) (l : Line Placement) : Prop := PlB L l.start ∧ PlB L l.«end»

/-- raw (CSS) placement: lines within `±B`, spans at most `B` -/
def PlRaw (B : Int) : Placement → Prop
  | .auto => True
  | .line n => -B ≤ n ∧ n ≤ B
  | .span s => s ≤ B

def LineRaw (B : Int) (l : Line Placement) : Prop := PlRaw B l.start ∧ PlRaw B l.«end»

theorem wp_intoOriginZeroPlacement {B e : Int} {p : Placement} (hp : PlRaw B p) (he0 : 0 ≤ e) (heB : e ≤ B)
    (hB : B ≤ 16000) : WP (intoOriginZeroPlacement p e) (PlB (B + 1)) := by
  cases p with
  | auto => exact wp_pure trivial
  | span s =>
    simp only [PlRaw] at hp
    refine wp_pure ?_
    show 1 ≤ max s 1 ∧ max s 1 ≤ B + 1
    omega
  | line l =>
    simp only [PlRaw] at hp
    simp only [intoOriginZeroPlacement]
    split
    · exact wp_pure trivial
    · rename_i hne
      refine wp_bind_ok (Q := fun oz => -(B + 1) ≤ oz ∧ oz ≤ B + 1) ?_ ?_
      · unfold intoOriginZeroLine
        refine wp_bind_ok (wp_u16 (by omega) (by omega)) ?_
        rintro _ - rfl
        split
        · refine wp_mono (wp_i16 (by omega) (by omega)) ?_
          rintro _ - rfl; omega
        · split
          · refine wp_bind_ok (wp_i16 (by omega) (by omega)) ?_
            rintro _ - rfl
            refine wp_mono (wp_i16 (by omega) (by omega)) ?_
            rintro _ - rfl; omega
          · omega
      · intro oz _ hoz
        exact wp_pure hoz

theorem wp_intoOriginZero {B e : Int} {l : Line Placement} (hl : LineRaw B l) (he0 : 0 ≤ e) (heB : e ≤ B)
    (hB : B ≤ 16000) : WP (intoOriginZero l e) (OzB (B + 1)) := by
  unfold intoOriginZero
  refine wp_bind_ok (wp_intoOriginZeroPlacement hl.1 he0 heB hB) ?_
  intro s _ hs
  refine wp_bind_ok (wp_intoOriginZeroPlacement hl.2 he0 heB hB) ?_
  intro en _ hen
  exact wp_pure ⟨hs, hen⟩

/-- a definite placement resolves to a non-empty range within `±2L` -/
theorem wp_resolveDefinite {L : Int} {oz : Line Placement} (hb : OzB L oz) (hL1 : 1 ≤ L) (hL : L ≤ 8000)
    (hd : isDefiniteOz oz = true) :
    WP (resolveDefiniteGridLines oz) (fun a => -(2 * L) ≤ a.start ∧ a.start < a.«end» ∧ a.«end» ≤ 2 * L) := by
  obtain ⟨st, en⟩ := oz
  obtain ⟨h1, h2⟩ := hb
  cases st <;> cases en <;> simp only [PlB, isDefiniteOz] at h1 h2 hd <;> try (cases hd; done)
  all_goals simp only [resolveDefiniteGridLines]
  all_goals first
    | (refine wp_bind_ok (wp_ozAdd (by omega) (by omega) (by omega) (by omega)) ?_
       rintro _ - rfl
       refine wp_pure ?_
       dsimp only; omega)
    | (refine wp_bind_ok (wp_ozSub (by omega) (by omega) (by omega) (by omega)) ?_
       rintro _ - rfl
       refine wp_pure ?_
       dsimp only; omega)
    | (split
       · refine wp_bind_ok (wp_ozAdd (by omega) (by omega) (by omega) (by omega)) ?_
         rintro _ - rfl
         refine wp_pure ?_
         dsimp only; omega
       · refine wp_pure ?_
         dsimp only; omega)

theorem wp_indefiniteSpan {L : Int} {oz : Line Placement} (hb : OzB L oz) (hL : 1 ≤ L)
    (hd : isDefiniteOz oz = false) : WP (indefiniteSpan oz) (fun s => 1 ≤ s ∧ s ≤ L) := by
  obtain ⟨st, en⟩ := oz
  obtain ⟨h1, h2⟩ := hb
  cases st <;> cases en <;> simp only [PlB, isDefiniteOz] at h1 h2 hd <;> try (cases hd; done)
  all_goals simp only [indefiniteSpan]
  all_goals (refine wp_pure ?_; omega)

/-- an indefinite placement started at `start` spans `indefinite_span` tracks from there -/
theorem wp_resolveIndefinite {L : Int} {oz : Line Placement} (hb : OzB L oz) (hL : 1 ≤ L) (hL' : L ≤ 8000)
    (hd : isDefiniteOz oz = false) {start : Int} (h1 : -16000 ≤ start) (h2 : start ≤ 16000) :
    WP (resolveIndefiniteGridTracks oz start)
      (fun a => a.start = start ∧ start + 1 ≤ a.«end» ∧ a.«end» ≤ start + L ∧
        indefiniteSpan oz = .ok (a.«end» - start)) := by
  obtain ⟨st, en⟩ := oz
  obtain ⟨b1, b2⟩ := hb
  cases st <;> cases en <;> simp only [PlB, isDefiniteOz] at b1 b2 hd <;> try (cases hd; done)
  all_goals simp only [resolveIndefiniteGridTracks, indefiniteSpan]
  all_goals
    (refine wp_bind_ok (wp_ozAdd (by omega) (by omega) (by omega) (by omega)) ?_
     rintro _ - rfl
     refine wp_pure ⟨rfl, ?_, ?_, ?_⟩
     · dsimp only; omega
     · dsimp only; omega
     · dsimp only; simp only [pure_eq, Outcome.ok.injEq]; omega)

end GridPlacement
