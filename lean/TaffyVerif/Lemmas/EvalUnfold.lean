/-
  Unfolding lemmas for `Eval.evalNodeWith` (Model/Eval.lean): the body is cut into named, non-recursive pieces
  (`evalChildOf`, `runOn`, `computeOf`, `storeOf`) so that later proofs never have to `split` the whole definition.
  Shared by C05 (hidden subtrees) and C06 (absolutely positioned children).
-/
import TaffyVerif.Model.Eval

set_option linter.unusedSectionVars false

namespace Eval
variable {α : Type} [Num α] {C : Type}

/-- the `evalChild` closure of `evalNodeWith`, with the recursive call abstracted as `ev` -/
def evalChildOf (ev : STree α → NS α C → LayoutInput α → LayoutOutput α × NS α C) (kids : List (STree α)) :
    Nat → LayoutInput α → List (NS α C) → LayoutOutput α × List (NS α C) := fun i cin ks =>
  match kids[i]?, ks[i]? with
  | some t, some k =>
    let r := ev t k cin
    (r.1, ks.set i r.2)
  | _, _ => (LayoutOutput.hidden, ks)

/-- the `run` closure of `evalNodeWith` -/
def runOn (evalChild : Nat → LayoutInput α → List (NS α C) → LayoutOutput α × List (NS α C))
    (ns : NS α C) (p : ProgM α (LayoutOutput α)) : LayoutOutput α × NS α C :=
  match ns with
  | .mk c l nk => let r := runProg evalChild p nk; (r.1, NS.mk c l r.2)

/-- the `computed` value of `evalNodeWith` (the dispatch) -/
def computeOf (ci : CacheImpl α C) (sel : Display → Bool → Option Gen.Facts.Callee) (algs : Algs α)
    (ev : STree α → NS α C → LayoutInput α → LayoutOutput α × NS α C)
    (style : Style α) (ctx : Option (MeasureSpec α)) (kids : List (STree α)) (ns : NS α C) (inp : LayoutInput α) :
    LayoutOutput α × NS α C :=
  match sel style.display (!kids.isEmpty) with
  | some .hidden => (LayoutOutput.hidden, hiddenLayout ci ns)
  | some .block => runOn (evalChildOf ev kids) ns (algs.block style (kids.map STree.style) inp)
  | some .flex => runOn (evalChildOf ev kids) ns (algs.flex style (kids.map STree.style) inp)
  | some .grid => runOn (evalChildOf ev kids) ns (algs.grid style (kids.map STree.style) inp)
  | some .leaf => (algs.leaf inp style (measureOf ctx), ns)
  | none => (LayoutOutput.hidden, ns)

/-- the final cache store of `evalNodeWith` -/
def storeOf (ci : CacheImpl α C) (inp : LayoutInput α) (computed : LayoutOutput α × NS α C) : LayoutOutput α × NS α C :=
  match computed.2 with
  | .mk c l nk => (computed.1, .mk (ci.store c inp computed.1) l nk)

theorem eval_zero (ci : CacheImpl α C) (sel : Display → Bool → Option Gen.Facts.Callee) (algs : Algs α)
    (t : STree α) (ns : NS α C) (inp : LayoutInput α) :
    evalNodeWith ci sel algs 0 t ns inp = (LayoutOutput.hidden, ns) := by
  simp only [evalNodeWith]

theorem eval_succ (ci : CacheImpl α C) (sel : Display → Bool → Option Gen.Facts.Callee) (algs : Algs α)
    (fuel : Nat) (style : Style α) (ctx : Option (MeasureSpec α)) (kids : List (STree α)) (ns : NS α C)
    (inp : LayoutInput α) :
    evalNodeWith ci sel algs (fuel + 1) (.node style ctx kids) ns inp =
      if inp.runMode == .performHiddenLayout then (LayoutOutput.hidden, hiddenLayout ci ns)
      else
        match ci.get ns.cache inp with
        | some out => (out, ns)
        | none => storeOf ci inp (computeOf ci sel algs (evalNodeWith ci sel algs fuel) style ctx kids ns inp) := by
  rw [evalNodeWith]
  rfl

theorem storeOf_mk (ci : CacheImpl α C) (inp : LayoutInput α) (o : LayoutOutput α) (c : C) (l : Layout α)
    (nk : List (NS α C)) : storeOf ci inp (o, NS.mk c l nk) = (o, NS.mk (ci.store c inp o) l nk) := rfl

/-! ### subtrees at a path (child indices from the root) -/

/-- the subtree at a path -/
def treeAt : STree α → List Nat → Option (STree α)
  | t, [] => some t
  | .node _ _ kids, i :: p =>
    match kids[i]? with
    | some k => treeAt k p
    | none => none

/-- replace the subtree at a path (no change when the path does not exist) -/
def replaceAt : STree α → List Nat → STree α → STree α
  | _, [], r => r
  | .node s c kids, i :: p, r =>
    match kids[i]? with
    | some k => .node s c (kids.set i (replaceAt k p r))
    | none => .node s c kids

theorem replaceAt_style (t : STree α) (i : Nat) (p : List Nat) (r : STree α) :
    (replaceAt t (i :: p) r).style = t.style := by
  cases t with
  | node s c kids =>
    simp only [replaceAt]
    cases kids[i]? <;> rfl

end Eval
