/-
  Writing the result of a rose-tree pass back into the flat state: `PassFlat s r cs s'` is inhabited for every state that
  satisfies the structural invariant, every parentless `r` and every choice stream.

  The flat state after the pass gives node `x` the flags of "the subtree of the result that sits at `x`", found by walking
  UP from `x` along the parent pointers to `r` (`sub`). Because parents are unique and child lists are duplicate-free, this
  assigns exactly one position of the rose tree to every descendant of `r`, so the unfolding of the new flat state is the
  result tree (`unf_wb`), and nodes that are not descendants are not touched (`sub_none_of_not_desc`).
  Uses: a pass keeps the skeleton (`Lemmas/PassSkel.lean`).  No Mathlib.
-/
import TaffyVerif.Lemmas.DirtyLink
import TaffyVerif.Lemmas.PassSkel

namespace C15Link
open Dirty DirtyPass C15Pass

mutual
/-- `t` has the skeleton of the subtree under `n` (the `display:none` flags and the shape; any cache flags) -/
inductive Sk (s : St) : Nat → FT → Prop
  | node {n : Nat} {f m : Bool} {ts : List FT} : SkList s (s.children n) ts → Sk s n (.node (s.hidden n) f m ts)
inductive SkList (s : St) : List Nat → List FT → Prop
  | nil : SkList s [] []
  | cons {n : Nat} {ns : List Nat} {t : FT} {ts : List FT} : Sk s n t → SkList s ns ts → SkList s (n :: ns) (t :: ts)
end

mutual
theorem sk_of_unf {s : St} : ∀ (t t' : FT) (n : Nat), Unf s n t → skel t' = skel t → Sk s n t'
  | .node _ _ _ ts, .node h' f' m' ts', n, hu, e => by
    cases hu with
    | node hl =>
      simp only [skel, FT.node.injEq, true_and] at e
      obtain ⟨e1, e2⟩ := e
      subst e1
      exact Sk.node (skList_of_unfList ts ts' _ hl e2)
theorem skList_of_unfList {s : St} : ∀ (ts ts' : List FT) (ns : List Nat), UnfList s ns ts →
    skelList ts' = skelList ts → SkList s ns ts'
  | [], [], _, .nil, _ => .nil
  | t :: ts, t' :: ts', _, .cons a b, e => by
    simp only [skelList, List.cons.injEq] at e
    exact .cons (sk_of_unf t t' _ a e.1) (skList_of_unfList ts ts' _ b e.2)
  | [], _ :: _, _, _, e => by simp [skelList] at e
  | _ :: _, [], _, _, e => by simp [skelList] at e
end

/-- the subtree of `t0` (the tree of `r`) that sits at node `x`: walk up from `x` (at most `fuel` parent steps) -/
def sub (s : St) (r : Nat) (t0 : FT) : Nat → Nat → Option FT
  | 0, x => if x = r then some t0 else none
  | fuel + 1, x =>
    if x = r then some t0 else
      match s.parent x with
      | none => none
      | some p => (sub s r t0 fuel p).bind fun tp => tp.kids[(s.children p).idxOf x]?

/-- `x` is a descendant of `r`, `j` child steps down -/
inductive DescN (s : St) (r : Nat) : Nat → Nat → Prop
  | refl : DescN s r 0 r
  | step {j n c : Nat} : DescN s r j n → c ∈ s.children n → DescN s r (j + 1) c

theorem DescN.desc {s : St} {r j x : Nat} (h : DescN s r j x) : Desc s r x := by
  induction h with
  | refl => exact .refl
  | step _ hc ih => exact .step ih hc

theorem sub_succ {s : St} {r : Nat} {t0 : FT} : ∀ (f x : Nat) (t : FT), sub s r t0 f x = some t →
    sub s r t0 (f + 1) x = some t
  | 0, x, t, h => by
    simp only [sub] at h ⊢
    split at h
    · rename_i e; rw [if_pos e]; exact h
    · cases h
  | f + 1, x, t, h => by
    rw [sub] at h
    rw [sub]
    split at h
    · rename_i e; rw [if_pos e]; exact h
    · rename_i e
      rw [if_neg e]
      cases hp : s.parent x with
      | none => rw [hp] at h; cases h
      | some p =>
        rw [hp] at h
        simp only [Option.bind_eq_some_iff] at h ⊢
        obtain ⟨tp, h1, h2⟩ := h
        exact ⟨tp, sub_succ f p tp h1, h2⟩

theorem sub_mono {s : St} {r : Nat} {t0 : FT} {f x : Nat} {t : FT} (h : sub s r t0 f x = some t) :
    ∀ k, sub s r t0 (f + k) x = some t
  | 0 => h
  | k + 1 => sub_succ _ _ _ (sub_mono h k)

/-- one step down: the subtree at the `i`-th child is the `i`-th kid -/
theorem sub_child {s : St} (st : Struct s) {r : Nat} (hr : s.parent r = none) {t0 : FT} {f n : Nat} {tn : FT}
    (h : sub s r t0 f n = some tn) {i c : Nat} (hc : (s.children n)[i]? = some c) :
    sub s r t0 (f + 1) c = tn.kids[i]? := by
  have hmem : c ∈ s.children n := List.mem_of_getElem? hc
  have hpc := st.kidsPar n c hmem
  have hne : c ≠ r := by intro e; rw [e, hr] at hpc; cases hpc
  obtain ⟨hi, rfl⟩ := List.getElem?_eq_some_iff.mp hc
  rw [sub, if_neg hne, hpc]
  simp only [h, Option.bind_some, (st.nodup n).idxOf_getElem i hi]

theorem sub_none_of_not_desc {s : St} (st : Struct s) {r : Nat} {t0 : FT} : ∀ (f x : Nat), ¬ Desc s r x →
    sub s r t0 f x = none
  | 0, x, h => by
    have : x ≠ r := fun e => h (e ▸ .refl)
    simp [sub, this]
  | f + 1, x, h => by
    have : x ≠ r := fun e => h (e ▸ .refl)
    rw [sub, if_neg this]
    cases hp : s.parent x with
    | none => rfl
    | some p =>
      have hnp : ¬ Desc s r p := fun hd => h (.step hd (st.parKids x p hp))
      simp [sub_none_of_not_desc st f p hnp]

/-- a descendant `j` steps down sits in a subtree of the remaining depth -/
theorem descN_le {s : St} {r d : Nat} (hs : Shallow s d r) {j x : Nat} (h : DescN s r j x) :
    j ≤ d ∧ Shallow s (d - j) x := by
  induction h with
  | refl => exact ⟨Nat.zero_le _, hs⟩
  | @step j n c _ hc ih =>
    obtain ⟨h1, h2⟩ := ih
    cases hk : d - j with
    | zero =>
      rw [hk] at h2
      have : s.children n = [] := h2
      rw [this] at hc; cases hc
    | succ k =>
      rw [hk] at h2
      have : d - (j + 1) = k := by omega
      rw [this]
      exact ⟨by omega, h2 c hc⟩

/-- the flat state in which the descendants of `r` carry the flags of `t0` -/
def wbState (s : St) (r : Nat) (t0 : FT) : St :=
  { s with
    fin := fun x => match sub s r t0 s.next x with
      | some tx => tx.fin
      | none => s.fin x
    meas := fun x => match sub s r t0 s.next x with
      | some tx => tx.meas
      | none => s.meas x }

mutual
theorem unf_wb {s : St} (st : Struct s) {r : Nat} (hr : s.parent r = none) (hs : Shallow s s.next r) {t0 : FT} :
    ∀ (tn : FT) (n j : Nat), Sk s n tn → DescN s r j n → sub s r t0 j n = some tn → Unf (wbState s r t0) n tn
  | .node h f m ts, n, j, hsk, hd, hsub => by
    cases hsk with
    | node hl =>
      have hj := (descN_le hs hd).1
      have hsub' : sub s r t0 s.next n = some (.node (s.hidden n) f m ts) := by
        have := sub_mono hsub (s.next - j)
        rwa [Nat.add_sub_cancel' hj] at this
      have hkids : UnfList (wbState s r t0) ((wbState s r t0).children n) ts := by
        refine unf_wb_list st hr hs ts (s.children n) j hl (fun i c hc => ?_)
        exact ⟨.step hd (List.mem_of_getElem? hc), sub_child st hr hsub hc⟩
      have hu := Unf.node hkids
      have e1 : (wbState s r t0).fin n = f := by simp only [wbState, hsub', FT.fin]
      have e2 : (wbState s r t0).meas n = m := by simp only [wbState, hsub', FT.meas]
      have e3 : (wbState s r t0).hidden n = s.hidden n := rfl
      rw [e1, e2, e3] at hu
      exact hu
theorem unf_wb_list {s : St} (st : Struct s) {r : Nat} (hr : s.parent r = none) (hs : Shallow s s.next r) {t0 : FT} :
    ∀ (ts : List FT) (ns : List Nat) (j : Nat), SkList s ns ts →
      (∀ (i c : Nat), ns[i]? = some c → DescN s r (j + 1) c ∧ sub s r t0 (j + 1) c = ts[i]?) →
      UnfList (wbState s r t0) ns ts
  | [], _, _, .nil, _ => .nil
  | t :: ts, _, j, .cons (n := c) (ns := ns) a b, H => by
    obtain ⟨hd, hsub⟩ := H 0 c rfl
    refine .cons (unf_wb st hr hs t c (j + 1) a hd (by simpa using hsub)) ?_
    exact unf_wb_list st hr hs ts ns j b (fun i c' hc' => by simpa using H (i + 1) c' (by simpa using hc'))
end

/-- **existence of the flat state after a pass** -/
theorem passFlat_exists {s : St} (st : Struct s) {r : Nat} (hr : s.parent r = none) (cs : List Choice) :
    ∃ s', PassFlat s r cs s' := by
  have hs := subtree_finite st hr
  have hu := unfold_exact _ _ hs
  have hsk := sk_of_unf _ _ r hu (pass_skel (unfold s s.next r) cs)
  refine ⟨wbState s r (pass (unfold s s.next r) cs), ⟨rfl, rfl, rfl, rfl, rfl⟩, ?_, fun n hn => ?_⟩
  · exact unf_wb st hr hs _ r 0 hsk .refl (by simp [sub])
  · have := sub_none_of_not_desc st (t0 := pass (unfold s s.next r) cs) s.next n hn
    simp only [wbState, this, and_self]

end C15Link
