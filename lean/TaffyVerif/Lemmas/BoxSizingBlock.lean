/-
  C12 — block.rs (Model/Block.lean): the container's own adjustment (`compute_block_layout`, `compute_inner`),
  `generate_item_list`'s per-item adjustment and the abs-pos pass's per-child adjustment.
-/
import TaffyVerif.Lemmas.BoxSizing
import TaffyVerif.Model.Block

namespace C12L
open BoxSizingModel BlockModel

variable {s : Style Rat} {m : Bool}

/-! ### the container's own style -/

theorem styledKnown_tbb (h : Eligible s) (inp : LayoutInput Rat) :
    styledBasedKnownDimensions (toBorderBox m s) inp = styledBasedKnownDimensions s inp := by
  simp only [styledBasedKnownDimensions, resolveStyleSize, boxSizingAdjustment, tbb_aspectRatio, tbb_padding,
    tbb_border, tbb_boxSizing, tbb_size, tbb_minSize, tbb_maxSize, h.boxSizing, h.aspectRatio, beq_cb_cb, beq_bb_cb,
    if_true, Bool.false_eq_true, if_false, padding_resolve h, border_resolve h, pbSum_fold, aspect_none,
    size_resolve h, minSize_resolve h, maxSize_resolve h, of_add_zero]

theorem blockGutter_tbb : BlockModel.scrollbarGutter (toBorderBox m s) = BlockModel.scrollbarGutter s := rfl

theorem innerCtx_tbb (h : Eligible s) (inp : LayoutInput Rat) : innerCtx (toBorderBox m s) inp = innerCtx s inp := by
  simp only [innerCtx, resolveStyleSize, boxSizingAdjustment, blockGutter_tbb, tbb_aspectRatio, tbb_padding,
    tbb_border, tbb_boxSizing, tbb_size, tbb_minSize, tbb_maxSize, tbb_overflow, tbb_position, tbb_isBlock,
    h.boxSizing, h.aspectRatio, beq_cb_cb, beq_bb_cb,
    if_true, Bool.false_eq_true, if_false, padding_resolve h, border_resolve h, pbSum_fold, aspect_none,
    size_resolve h, minSize_resolve h, maxSize_resolve h, of_add_zero]

theorem flowCtxOf_tbb (ic : InnerCtx Rat) (w : Rat) : flowCtxOf (toBorderBox m s) ic w = flowCtxOf s ic w := rfl

theorem innerOutput_tbb (ps : Size (Option Rat)) (ic : InnerCtx Rat) (items : List (BlockItem Rat))
    (a b c : Size Rat) (f l : MarginSet Rat) :
    innerOutput (toBorderBox m s) ps ic items a b c f l = innerOutput s ps ic items a b c f l := rfl

theorem computeInner_tbb (h : Eligible s) (cs : List (Style Rat)) (inp : LayoutInput Rat) :
    computeInner (toBorderBox m s) cs inp = computeInner s cs inp := by
  simp only [computeInner, innerCtx_tbb h, flowCtxOf_tbb, innerOutput_tbb, tbb_border]

/-- **block container site**: the container's own style switched -/
theorem blockContainer_site (h : Eligible s) (m : Bool) (cs : List (Style Rat)) (inp : LayoutInput Rat) :
    computeBlockLayout s cs inp = computeBlockLayout (toBorderBox m s) cs inp := by
  simp only [computeBlockLayout, styledKnown_tbb h, computeInner_tbb h]

/-! ### child styles -/

theorem generateItem_tbb (h : Eligible s) (idx order : Nat) (inner : Size (Option Rat)) :
    generateItem idx order (toBorderBox m s) inner = generateItem idx order s inner := by
  simp only [generateItem, resolveStyleSize, boxSizingAdjustment, tbb_aspectRatio, tbb_padding,
    tbb_border, tbb_boxSizing, tbb_size, tbb_minSize, tbb_maxSize, tbb_overflow, tbb_position, tbb_itemIsTable,
    tbb_scrollbarWidth, tbb_inset, tbb_margin, h.boxSizing, h.aspectRatio, beq_cb_cb, beq_bb_cb,
    if_true, Bool.false_eq_true, if_false, padding_resolve_size h, border_resolve_size h, pbSum_fold, aspect_none,
    size_resolve h, minSize_resolve h, maxSize_resolve h, of_add_zero]

theorem generateItem_rel {a b : Style Rat} (h : ∃ m, StyleRel m a b) (idx order : Nat) (inner : Size (Option Rat)) :
    generateItem idx order b inner = generateItem idx order a inner := by
  obtain ⟨m, h | ⟨he, h⟩⟩ := h
  · rw [h]
  · rw [h]; exact generateItem_tbb he idx order inner

theorem isHidden_rel {a b : Style Rat} (h : ∃ m, StyleRel m a b) : b.isHidden = a.isHidden := by
  obtain ⟨m, h | ⟨_, h⟩⟩ := h <;> rw [h] <;> rfl

theorem position_rel {a b : Style Rat} (h : ∃ m, StyleRel m a b) : b.position = a.position := by
  obtain ⟨m, h | ⟨_, h⟩⟩ := h <;> rw [h] <;> rfl

theorem generateItemsFrom_rel (inner : Size (Option Rat)) : ∀ (cs cs' : List (Style Rat)), StylesRelAny cs cs' →
    ∀ idx order, generateItemsFrom inner cs' idx order = generateItemsFrom inner cs idx order
  | [], [], _, _, _ => rfl
  | [], _ :: _, h, _, _ => by simp only [StylesRelAny] at h
  | _ :: _, [], h, _, _ => by simp only [StylesRelAny] at h
  | a :: as, b :: bs, h, idx, order => by
    simp only [StylesRelAny] at h
    simp only [generateItemsFrom, isHidden_rel h.1, generateItem_rel h.1, generateItemsFrom_rel inner as bs h.2]

theorem hiddenLoop_rel : ∀ (cs cs' : List (Style Rat)), StylesRelAny cs cs' →
    ∀ order, hiddenLoop cs' order = hiddenLoop cs order
  | [], [], _, _ => rfl
  | [], _ :: _, h, _ => by simp only [StylesRelAny] at h
  | _ :: _, [], h, _ => by simp only [StylesRelAny] at h
  | a :: as, b :: bs, h, order => by
    simp only [StylesRelAny] at h
    simp only [hiddenLoop, isHidden_rel h.1, hiddenLoop_rel as bs h.2]

/-- block.rs l.602–635: the abs-pos pass reads the child's style again, with its own adjustment -/
theorem absItem_tbb (h : Eligible s) (item : BlockItem Rat) (area : Size Rat) (off : Point Rat) (acc : Size Rat) :
    absItem item (toBorderBox m s) area off acc = absItem item s area off acc := by
  simp only [absItem, resolveStyleSize, boxSizingAdjustment, tbb_aspectRatio, tbb_padding,
    tbb_border, tbb_boxSizing, tbb_size, tbb_minSize, tbb_maxSize, tbb_inset, tbb_margin, h.boxSizing, h.aspectRatio,
    beq_cb_cb, beq_bb_cb, if_true, Bool.false_eq_true, if_false, padding_resolve h, border_resolve h, pbSum_fold,
    aspect_none, size_resolve h, minSize_resolve h, maxSize_resolve h, of_add_zero]
  rfl

theorem absItem_rel {a b : Style Rat} (h : ∃ m, StyleRel m a b) (item : BlockItem Rat) (area : Size Rat)
    (off : Point Rat) (acc : Size Rat) : absItem item b area off acc = absItem item a area off acc := by
  obtain ⟨m, h | ⟨he, h⟩⟩ := h
  · rw [h]
  · rw [h]; exact absItem_tbb he item area off acc

theorem StylesRelAny_get : ∀ (cs cs' : List (Style Rat)) (i : Nat), StylesRelAny cs cs' →
    (cs[i]? = none ∧ cs'[i]? = none) ∨ ∃ a b, cs[i]? = some a ∧ cs'[i]? = some b ∧ ∃ m, StyleRel m a b
  | [], [], _, _ => Or.inl ⟨rfl, rfl⟩
  | [], _ :: _, _, h => by simp only [StylesRelAny] at h
  | _ :: _, [], _, h => by simp only [StylesRelAny] at h
  | a :: as, b :: bs, 0, h => by
    simp only [StylesRelAny] at h
    exact Or.inr ⟨a, b, rfl, rfl, h.1⟩
  | a :: as, b :: bs, i + 1, h => by
    simp only [StylesRelAny] at h
    simpa only [List.getElem?_cons_succ] using StylesRelAny_get as bs i h.2

theorem absLoop_rel (cs cs' : List (Style Rat)) (hr : StylesRelAny cs cs') (area : Size Rat) (off : Point Rat) :
    ∀ (items : List (BlockItem Rat)) (acc : Size Rat),
      absLoop (fun i => cs'[i]?) area off items acc = absLoop (fun i => cs[i]?) area off items acc
  | [], _ => rfl
  | item :: rest, acc => by
    unfold absLoop
    by_cases hp : (item.position == Position.absolute) = true
    · simp only [hp, if_true]
      rcases StylesRelAny_get cs cs' item.nodeIdx hr with ⟨hA, hB⟩ | ⟨a, b, hA, hB, hab⟩
      · simp only [hA, hB, absLoop_rel cs cs' hr area off rest]
      · simp only [hA, hB, isHidden_rel hab, position_rel hab, absItem_rel hab, absLoop_rel cs cs' hr area off rest]
    · simp only [hp, if_false, Bool.false_eq_true, absLoop_rel cs cs' hr area off rest]

theorem computeInner_items (s : Style Rat) (cs cs' : List (Style Rat)) (hr : StylesRelAny cs cs')
    (inp : LayoutInput Rat) : computeInner s cs' inp = computeInner s cs inp := by
  simp only [computeInner, generateItemList, generateItemsFrom_rel _ cs cs' hr, hiddenLoop_rel cs cs' hr,
    absLoop_rel cs cs' hr]

/-- **block item site**: any subset of eligible child styles switched (flex-basis rewritten along any axis: block
layout never reads it) -/
theorem blockItems_site (s : Style Rat) (cs cs' : List (Style Rat)) (hr : StylesRelAny cs cs')
    (inp : LayoutInput Rat) : computeBlockLayout s cs inp = computeBlockLayout s cs' inp := by
  simp only [computeBlockLayout, computeInner_items s cs cs' hr]

theorem StylesRel_any (m : Bool) : ∀ (cs cs' : List (Style Rat)), StylesRel m cs cs' → StylesRelAny cs cs'
  | [], [], _ => trivial
  | [], _ :: _, h => by simp only [StylesRel] at h
  | _ :: _, [], h => by simp only [StylesRel] at h
  | a :: as, b :: bs, h => by
    simp only [StylesRel] at h
    exact ⟨⟨m, h.1⟩, StylesRel_any m as bs h.2⟩

/-- `compute_block_layout` is blind to the rewriting, as the tree theorem needs it -/
theorem block_containerBlind : ContainerBlind (BlockModel.computeBlockLayout (α := Rat)) where
  own _ cs inp m h := blockContainer_site h m cs inp
  items s cs cs' inp h := blockItems_site s cs cs' (StylesRel_any _ cs cs' h) inp

end C12L
