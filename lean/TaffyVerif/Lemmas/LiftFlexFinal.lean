/-
  C07 lifted to the flexbox program, part 3: the layouts the final layout pass sets.

    * `outOf orc k item`      the child's answer to the query `calculate_flex_item` sends (known dimensions = the item's
                              target size)
    * `layList`               the `(child, layout)` pairs `calculate_layout_line`'s loop sets, as a list function;
                              `lays_layoutItems`
    * `lineLays`              … of one line, in DOCUMENT order; their indices are the line's items, their main-axis margin
                              boxes (`mbox`) are `FlexLine.marginBoxes` of the projected items paired with the main sizes
                              the children returned — the object C07's `line_order_no_overlap` speaks about
    * `mem_lays_finalLayoutPass_of_line`  every line's layouts are among the layouts of `final_layout_pass`
-/
import TaffyVerif.Lemmas.LiftFlexInv

set_option linter.unusedSectionVars false
set_option linter.unusedVariables false

namespace Lift
open FlexModel EvalFlex FlexLine FlexStages
open AbsPos (Dir.mainStart Dir.mainEnd Dir.pMain)

/-- the child's answer to `perform_child_layout(item.node, target size, …)` of the final pass -/
def outOf (orc : Orc) (k : AlgoConstants Rat) (item : FlexItem Rat) : LayoutOutput Rat :=
  orc item.nodeIdx (EvalBlock.plInput (cfKnown item) k.nodeInnerSize (cfAvail k) .contentSize ⟨false, false⟩)

theorem lays_calculateFlexItem (orc : Orc) (k : AlgoConstants Rat) (item : FlexItem Rat) (tom toc loc : Rat)
    (cs : Size Rat) :
    lays orc (calculateFlexItem k item tom toc loc cs) =
      [(item.nodeIdx, cfLayout item (cfLocation k item tom toc loc) (outOf orc k item))] := rfl

theorem res_calculateFlexItem (orc : Orc) (k : AlgoConstants Rat) (item : FlexItem Rat) (tom toc loc : Rat)
    (cs : Size Rat) :
    res orc (calculateFlexItem k item tom toc loc cs) = cfResult k item tom toc loc cs (outOf orc k item) := rfl

/-- the layouts of the loop of `calculate_layout_line` over `items` (visiting order), from the running main offset -/
def layList (orc : Orc) (k : AlgoConstants Rat) (toc loc : Rat) : List (FlexItem Rat) → Rat → List (Nat × Layout Rat)
  | [], _ => []
  | it :: rest, tom =>
    (it.nodeIdx, cfLayout it (cfLocation k it tom toc loc) (outOf orc k it)) ::
      layList orc k toc loc rest (tom + (it.offsetMain + it.margin.mainAxisSum k.dir + (outOf orc k it).size.main k.dir))

theorem lays_layoutItems (orc : Orc) (k : AlgoConstants Rat) (toc loc : Rat) : ∀ (items : List (FlexItem Rat))
    (tom : Rat) (cs : Size Rat), lays orc (layoutItems k toc loc items tom cs) = layList orc k toc loc items tom
  | [], _, _ => rfl
  | it :: rest, tom, cs => by
    have e : layoutItems k toc loc (it :: rest) tom cs =
        (calculateFlexItem k it tom toc loc cs >>= fun r =>
          layoutItems k toc loc rest r.2.1 r.2.2 >>= fun r' => pure (r.1 :: r'.1, r'.2)) := rfl
    rw [e, lays_bind, lays_calculateFlexItem, res_calculateFlexItem, lays_bind, lays_pure, List.append_nil,
      lays_layoutItems orc k toc loc rest]
    rfl

/-! ### indices, sizes, margins and margin boxes of `layList` -/

theorem layList_fst (orc : Orc) (k : AlgoConstants Rat) (toc loc : Rat) : ∀ (items : List (FlexItem Rat)) (tom : Rat),
    (layList orc k toc loc items tom).map Prod.fst = iidx items
  | [], _ => rfl
  | it :: rest, tom => by simp only [layList, List.map_cons, iidx_cons, layList_fst orc k toc loc rest]

/-- the items paired with the layouts set for them, in order -/
theorem layList_zip (orc : Orc) (k : AlgoConstants Rat) (toc loc : Rat) : ∀ (items : List (FlexItem Rat)) (tom : Rat),
    List.Forall₂ (fun (x : Nat × Layout Rat) it => x.1 = it.nodeIdx ∧ x.2.size = (outOf orc k it).size ∧
      x.2.margin = it.margin ∧ x.2.order = it.order) (layList orc k toc loc items tom) items
  | [], _ => List.Forall₂.nil
  | it :: rest, tom => List.Forall₂.cons ⟨rfl, rfl, rfl, rfl⟩ (layList_zip orc k toc loc rest _)

/-- main-axis margin box of a layout: (start, end) -/
def mbox (dir : FlexDirection) (L : Layout Rat) : Rat × Rat :=
  (Dir.pMain L.location dir - Dir.mainStart L.margin dir,
   Dir.pMain L.location dir + L.size.main dir + Dir.mainEnd L.margin dir)

/-- the projected items paired with the main sizes the children returned -/
def zsOf (orc : Orc) (k : AlgoConstants Rat) (items : List (FlexItem Rat)) : List (FlexItemM Rat × Rat) :=
  items.map fun it => (toM k.dir it, (outOf orc k it).size.main k.dir)

theorem pMain_cfLocation (k : AlgoConstants Rat) (it : FlexItem Rat) (tom toc loc : Rat) :
    Dir.pMain (cfLocation k it tom toc loc) k.dir = (posStep tom (toM k.dir it) 0).1 := by
  unfold cfLocation Dir.pMain posStep toM
  simp only
  split <;> rfl

theorem layList_mbox (orc : Orc) (k : AlgoConstants Rat) (toc loc : Rat) : ∀ (items : List (FlexItem Rat)) (tom : Rat),
    (layList orc k toc loc items tom).map (fun x => mbox k.dir x.2) = boxGo tom (zsOf orc k items)
  | [], _ => rfl
  | it :: rest, tom => by
    have e2 : tom + (it.offsetMain + it.margin.mainAxisSum k.dir + (outOf orc k it).size.main k.dir) =
        (posStep tom (toM k.dir it) ((outOf orc k it).size.main k.dir)).2 := by
      unfold posStep FlexItemM.marginSum
      simp only [toM, mainAxisSum_eq]
    simp only [layList, List.map_cons, zsOf, boxGo]
    rw [e2]
    refine congrArg₂ _ ?_ (layList_mbox orc k toc loc rest _)
    simp only [mbox, cfLayout, marginBox, pMain_cfLocation]
    rfl

/-! ### one line, in document order -/

/-- the layouts `calculate_layout_line` sets for the items of `line`, in document order -/
def lineLays (orc : Orc) (k : AlgoConstants Rat) (line : FlexLineS Rat) (toc : Rat) : List (Nat × Layout Rat) :=
  if k.dir.isReverse then
    (layList orc k toc line.offsetCross line.items.reverse (Dir.mainStart k.contentBoxInset k.dir)).reverse
  else layList orc k toc line.offsetCross line.items (Dir.mainStart k.contentBoxInset k.dir)

theorem lays_calculateLayoutLine (orc : Orc) (k : AlgoConstants Rat) (line : FlexLineS Rat) (toc : Rat) (cs : Size Rat) :
    lays orc (calculateLayoutLine k line toc cs) =
      if k.dir.isReverse then (lineLays orc k line toc).reverse else lineLays orc k line toc := by
  unfold calculateLayoutLine lineLays
  simp only
  by_cases hr : k.dir.isReverse = true
  · simp only [hr, if_true, List.reverse_reverse]
    simp only [lays_bind, lays_pure, List.append_nil, lays_layoutItems]
  · simp only [hr, Bool.false_eq_true, if_false]
    simp only [lays_bind, lays_pure, List.append_nil, lays_layoutItems]

theorem mem_lays_calculateLayoutLine (orc : Orc) (k : AlgoConstants Rat) (line : FlexLineS Rat) (toc : Rat) (cs : Size Rat)
    (x : Nat × Layout Rat) : x ∈ lays orc (calculateLayoutLine k line toc cs) ↔ x ∈ lineLays orc k line toc := by
  rw [lays_calculateLayoutLine]
  split
  · exact List.mem_reverse
  · exact Iff.rfl

theorem lineLays_fst (orc : Orc) (k : AlgoConstants Rat) (line : FlexLineS Rat) (toc : Rat) :
    (lineLays orc k line toc).map Prod.fst = iidx line.items := by
  unfold lineLays
  split
  · rw [List.map_reverse, layList_fst]
    simp only [iidx, List.map_reverse, List.reverse_reverse]
  · exact layList_fst _ _ _ _ _ _

/-- **the margin boxes of a line**: C07's `marginBoxes` of the projected items paired with the returned main sizes -/
theorem lineLays_mbox (orc : Orc) (k : AlgoConstants Rat) (line : FlexLineS Rat) (toc : Rat) :
    (lineLays orc k line toc).map (fun x => mbox k.dir x.2) =
      marginBoxes (zsOf orc k line.items) (Dir.mainStart k.contentBoxInset k.dir) k.dir := by
  unfold lineLays marginBoxes
  split
  · rw [List.map_reverse, layList_mbox]
    simp only [zsOf, List.map_reverse]
  · exact layList_mbox _ _ _ _ _ _

theorem forall₂_append {β γ : Type} {R : β → γ → Prop} : ∀ {l1 l2 : List β} {l1' l2' : List γ},
    List.Forall₂ R l1 l1' → List.Forall₂ R l2 l2' → List.Forall₂ R (l1 ++ l2) (l1' ++ l2') := by
  intro l1 l2 l1' l2' h1 h2
  induction h1 with
  | nil => exact h2
  | cons hab _ ih => exact List.Forall₂.cons hab ih

theorem forall₂_reverse {β γ : Type} {R : β → γ → Prop} : ∀ {l : List β} {l' : List γ}, List.Forall₂ R l l' →
    List.Forall₂ R l.reverse l'.reverse := by
  intro l l' h
  induction h with
  | nil => exact List.Forall₂.nil
  | cons hab _ ih =>
    simp only [List.reverse_cons]
    exact forall₂_append ih (List.Forall₂.cons hab List.Forall₂.nil)

theorem lineLays_zip (orc : Orc) (k : AlgoConstants Rat) (line : FlexLineS Rat) (toc : Rat) :
    List.Forall₂ (fun (x : Nat × Layout Rat) it => x.1 = it.nodeIdx ∧ x.2.size = (outOf orc k it).size ∧
      x.2.margin = it.margin ∧ x.2.order = it.order) (lineLays orc k line toc) line.items := by
  unfold lineLays
  split
  · have := forall₂_reverse (layList_zip orc k toc line.offsetCross line.items.reverse (Dir.mainStart k.contentBoxInset k.dir))
    rwa [List.reverse_reverse] at this
  · exact layList_zip _ _ _ _ _ _

/-! ### all lines -/

theorem mem_lays_layoutLines (orc : Orc) (k : AlgoConstants Rat) : ∀ (lines : List (FlexLineS Rat)) (toc : Rat)
    (cs : Size Rat) (line : FlexLineS Rat), line ∈ lines →
    ∃ toc', ∀ x ∈ lineLays orc k line toc', x ∈ lays orc (layoutLines k lines toc cs)
  | [], _, _, _, h => by cases h
  | l :: rest, toc, cs, line, h => by
    have e : layoutLines k (l :: rest) toc cs =
        (calculateLayoutLine k l toc cs >>= fun r =>
          layoutLines k rest r.2.1 r.2.2 >>= fun r' => pure (r.1 :: r'.1, r'.2)) := rfl
    rw [e, lays_bind, lays_bind, lays_pure, List.append_nil]
    rcases List.mem_cons.1 h with h | h
    · subst h
      exact ⟨toc, fun x hx => List.mem_append_left _ ((mem_lays_calculateLayoutLine orc k line toc cs x).2 hx)⟩
    · obtain ⟨toc', h'⟩ := mem_lays_layoutLines orc k rest _ _ line h
      exact ⟨toc', fun x hx => List.mem_append_right _ (h' x hx)⟩

/-- **every line's layouts are layouts of `final_layout_pass`** -/
theorem mem_lays_finalLayoutPass_of_line (orc : Orc) (k : AlgoConstants Rat) (lines : List (FlexLineS Rat))
    (line : FlexLineS Rat) (h : line ∈ lines) :
    ∃ toc, ∀ x ∈ lineLays orc k line toc, x ∈ lays orc (finalLayoutPass k lines) := by
  unfold finalLayoutPass
  simp only
  by_cases hr : k.isWrapReverse = true
  · simp only [hr, if_true]
    obtain ⟨toc, h'⟩ := mem_lays_layoutLines orc k lines.reverse (AbsPos.Dir.crossStart k.contentBoxInset k.dir)
      Size.zero line (List.mem_reverse.2 h)
    refine ⟨toc, fun x hx => ?_⟩
    simp only [lays_bind, lays_pure, List.append_nil]
    exact h' x hx
  · simp only [hr, Bool.false_eq_true, if_false]
    obtain ⟨toc, h'⟩ := mem_lays_layoutLines orc k lines (AbsPos.Dir.crossStart k.contentBoxInset k.dir)
      Size.zero line h
    refine ⟨toc, fun x hx => ?_⟩
    simp only [lays_bind, lays_pure, List.append_nil]
    exact h' x hx

end Lift
