/-
  C04 for grid, part 3: the pure pieces that do not contain an absolute constant — track sizing functions, `GridTrack`
  constructors, `initialize_grid_tracks`, `initialize_track_sizes`, the other-axis estimate, `align_tracks`.
-/
import TaffyVerif.Lemmas.GridScaleRel
import TaffyVerif.Model.Alignment
import Mathlib.Tactic.Ring
import Mathlib.Tactic.Linarith

set_option linter.unusedSectionVars false
set_option linter.unusedVariables false
set_option linter.unusedSimpArgs false

namespace C04
open Scalable GridModel GridTracks GridStages

variable {k : Rat}

/-! ### sums and lists -/

theorem gfoldl_add_scale (k : Rat) (l : List Rat) (a : Rat) :
    (l.map (scale k)).foldl (· + ·) (scale k a) = scale k (l.foldl (· + ·) a) := by
  induction l generalizing a with
  | nil => rfl
  | cons x xs ih =>
    simp only [List.map_cons, List.foldl_cons]
    rw [show scale k a + scale k x = scale k (a + x) by simp only [scale_rat]; ring]
    exact ih (a + x)

@[scale_simp] theorem gsumF_scale (k : Rat) (l : List Rat) : GridTracks.sumF (scale k l) = scale k (GridTracks.sumF l) := by
  unfold GridTracks.sumF
  have h : (-(0 : Rat)) = scale k (-(0 : Rat)) := by simp [scale_rat]
  rw [scale_list]
  conv => lhs; rw [h]
  exact gfoldl_add_scale k l _

theorem gsumF_map_scale (k : Rat) {β : Type} [Scalable β] (l : List β) (f' f : β → Rat)
    (h : ∀ x, f' (scale k x) = scale k (f x)) :
    GridTracks.sumF ((scale k l).map f') = scale k (GridTracks.sumF (l.map f)) := by
  rw [← gsumF_scale, scale_list, scale_list, List.map_map, List.map_map]
  congr 1
  exact List.map_congr_left fun x _ => h x

theorem map_scale_list {β γ : Type} [Scalable β] [Scalable γ] (k : Rat) (l : List β) (f' f : β → γ)
    (h : ∀ x, f' (scale k x) = scale k (f x)) : (scale k l).map f' = scale k (l.map f) := by
  rw [scale_list, scale_list, List.map_map, List.map_map]
  exact List.map_congr_left fun x _ => h x

theorem map_scale_list_inv {β γ : Type} [Scalable β] (k : Rat) (l : List β) (f' f : β → γ)
    (h : ∀ x, f' (scale k x) = f x) : (scale k l).map f' = l.map f := by
  rw [scale_list, List.map_map]
  exact List.map_congr_left fun x _ => h x

theorem any_scale_list {β : Type} [Scalable β] (k : Rat) (l : List β) (p' p : β → Bool)
    (h : ∀ x, p' (scale k x) = p x) : (scale k l).any p' = l.any p := by
  rw [scale_list, List.any_map]
  exact congrArg _ (funext fun x => h x)

theorem all_scale_list {β : Type} [Scalable β] (k : Rat) (l : List β) (p' p : β → Bool)
    (h : ∀ x, p' (scale k x) = p x) : (scale k l).all p' = l.all p := by
  rw [scale_list, List.all_map]
  exact congrArg _ (funext fun x => h x)

@[scale_simp] theorem length_scale_list {β : Type} [Scalable β] (k : Rat) (l : List β) : (scale k l).length = l.length := by
  rw [scale_list, List.length_map]

@[scale_simp] theorem isEmpty_scale_list {β : Type} [Scalable β] (k : Rat) (l : List β) :
    (scale k l).isEmpty = l.isEmpty := by
  rw [scale_list, List.isEmpty_map]

theorem allSome_scale {β : Type} [Scalable β] (k : Rat) : ∀ (l : List (Option β)),
    allSome (scale k l) = scale k (allSome l)
  | [] => rfl
  | none :: _ => rfl
  | some x :: rest => by
    show allSome (some (scale k x) :: scale k rest) = _
    unfold allSome
    rw [allSome_scale k rest]
    cases allSome rest <;> rfl

/-! ### track sizing functions -/

theorem mul_scale_comm (k v s : Rat) : v * scale k s = scale k (v * s) := by simp only [scale_rat]; ring

@[scale_simp] theorem mint_definiteValue (k : Rat) (f : MinTrack Rat) (p : Option Rat) :
    (scale k f).definiteValue (scale k p) = scale k (f.definiteValue p) := by
  cases f <;> cases p <;> simp only [MinTrack.definiteValue, scale_simp, scale_option, Option.map, mul_scale_comm]

@[scale_simp] theorem maxt_definiteValue (k : Rat) (f : MaxTrack Rat) (p : Option Rat) :
    (scale k f).definiteValue (scale k p) = scale k (f.definiteValue p) := by
  cases f <;> cases p <;> simp only [MaxTrack.definiteValue, scale_simp, scale_option, Option.map, mul_scale_comm]

@[scale_simp] theorem maxt_definiteLimit (k : Rat) (f : MaxTrack Rat) (p : Option Rat) :
    (scale k f).definiteLimit (scale k p) = scale k (f.definiteLimit p) := by
  cases f <;> cases p <;>
    simp only [MaxTrack.definiteLimit, MaxTrack.definiteValue, scale_simp, scale_option, Option.map, mul_scale_comm]

@[scale_simp] theorem maxt_hasDefiniteValue (k : Rat) (f : MaxTrack Rat) (p : Option Rat) :
    (scale k f).hasDefiniteValue (scale k p) = f.hasDefiniteValue p := by
  cases f <;> cases p <;> rfl

@[scale_simp] theorem mint_resolvedPercentageSize (k : Rat) (f : MinTrack Rat) (p : Rat) :
    (scale k f).resolvedPercentageSize (scale k p) = scale k (f.resolvedPercentageSize p) := by
  cases f <;> simp only [MinTrack.resolvedPercentageSize, scale_simp, mul_scale_comm]

@[scale_simp] theorem maxt_resolvedPercentageSize (k : Rat) (f : MaxTrack Rat) (p : Rat) :
    (scale k f).resolvedPercentageSize (scale k p) = scale k (f.resolvedPercentageSize p) := by
  cases f <;> simp only [MaxTrack.resolvedPercentageSize, scale_simp, mul_scale_comm]

@[scale_simp] theorem mint_isLengthOrPercentage (k : Rat) (f : MinTrack Rat) :
    (scale k f).isLengthOrPercentage = f.isLengthOrPercentage := by cases f <;> rfl
@[scale_simp] theorem mint_isIntrinsic (k : Rat) (f : MinTrack Rat) : (scale k f).isIntrinsic = f.isIntrinsic := by
  cases f <;> rfl
@[scale_simp] theorem mint_isMinOrMaxContent (k : Rat) (f : MinTrack Rat) :
    (scale k f).isMinOrMaxContent = f.isMinOrMaxContent := by cases f <;> rfl
@[scale_simp] theorem mint_isAuto (k : Rat) (f : MinTrack Rat) : (scale k f).isAuto = f.isAuto := by cases f <;> rfl
@[scale_simp] theorem mint_isMaxContent (k : Rat) (f : MinTrack Rat) : (scale k f).isMaxContent = f.isMaxContent := by
  cases f <;> rfl
@[scale_simp] theorem mint_usesPercentage (k : Rat) (f : MinTrack Rat) : (scale k f).usesPercentage = f.usesPercentage := by
  cases f <;> rfl
@[scale_simp] theorem maxt_isLengthOrPercentage (k : Rat) (f : MaxTrack Rat) :
    (scale k f).isLengthOrPercentage = f.isLengthOrPercentage := by cases f <;> rfl
@[scale_simp] theorem maxt_isIntrinsic (k : Rat) (f : MaxTrack Rat) : (scale k f).isIntrinsic = f.isIntrinsic := by
  cases f <;> rfl
@[scale_simp] theorem maxt_isMaxContentAlike (k : Rat) (f : MaxTrack Rat) :
    (scale k f).isMaxContentAlike = f.isMaxContentAlike := by cases f <;> rfl
@[scale_simp] theorem maxt_isFr (k : Rat) (f : MaxTrack Rat) : (scale k f).isFr = f.isFr := by cases f <;> rfl
@[scale_simp] theorem maxt_isAuto (k : Rat) (f : MaxTrack Rat) : (scale k f).isAuto = f.isAuto := by cases f <;> rfl
@[scale_simp] theorem maxt_isMinContent (k : Rat) (f : MaxTrack Rat) : (scale k f).isMinContent = f.isMinContent := by
  cases f <;> rfl
@[scale_simp] theorem maxt_isFitContent (k : Rat) (f : MaxTrack Rat) : (scale k f).isFitContent = f.isFitContent := by
  cases f <;> rfl
@[scale_simp] theorem maxt_isMaxOrFitContent (k : Rat) (f : MaxTrack Rat) :
    (scale k f).isMaxOrFitContent = f.isMaxOrFitContent := by cases f <;> rfl
@[scale_simp] theorem maxt_usesPercentage (k : Rat) (f : MaxTrack Rat) : (scale k f).usesPercentage = f.usesPercentage := by
  cases f <;> rfl

@[scale_simp] theorem mint_ofLP (k : Rat) (g : LP Rat) : MinTrack.ofLP (scale k g) = scale k (MinTrack.ofLP g) := by
  cases g <;> rfl
@[scale_simp] theorem maxt_ofLP (k : Rat) (g : LP Rat) : MaxTrack.ofLP (scale k g) = scale k (MaxTrack.ofLP g) := by
  cases g <;> rfl

@[scale_simp] theorem tfn_auto (k : Rat) : scale k (TrackFn.auto : TrackFn Rat) = TrackFn.auto := rfl
@[scale_simp] theorem tfn_hasFixedComponent (k : Rat) (f : TrackFn Rat) :
    (scale k f).hasFixedComponent = f.hasFixedComponent := by
  simp only [TrackFn.hasFixedComponent, scale_simp]

@[scale_simp] theorem tdef_isAutoRepetition (k : Rat) (d : TrackDef Rat) :
    (scale k d).isAutoRepetition = d.isAutoRepetition := by
  cases d with
  | single f => rfl
  | rep r fs => cases r <;> rfl

/-! ### `GridTrack` -/

theorem scale_gt_mk (k : Rat) (a0 : TrackKind) (a1 : Bool) (a2 : MinTrack Rat) (a3 : MaxTrack Rat) (a4 a5 : Rat)
    (a6 : Ext Rat) (a7 a8 a9 a10 : Rat) (a11 : Bool) :
    scale k (GridTrack.mk a0 a1 a2 a3 a4 a5 a6 a7 a8 a9 a10 a11) =
      ⟨a0, a1, scale k a2, scale k a3, scale k a4, scale k a5, scale k a6, scale k a7, scale k a8, scale k a9,
        scale k a10, a11⟩ := rfl

@[scale_simp] theorem gt_newWithKind (k : Rat) (kd : TrackKind) (mn : MinTrack Rat) (mx : MaxTrack Rat) :
    GridTrack.newWithKind kd (scale k mn) (scale k mx) = scale k (GridTrack.newWithKind kd mn mx) := by
  simp only [GridTrack.newWithKind, scale_gt_mk, scale_simp]

@[scale_simp] theorem gt_new (k : Rat) (f : TrackFn Rat) : GridTrack.new (scale k f) = scale k (GridTrack.new f) := by
  simp only [GridTrack.new, scale_simp]

@[scale_simp] theorem gt_gutter (k : Rat) (g : LP Rat) : GridTrack.gutter (scale k g) = scale k (GridTrack.gutter g) := by
  simp only [GridTrack.gutter, scale_simp]

@[scale_simp] theorem gt_collapse (k : Rat) (t : GridTrack Rat) : (scale k t).collapse = scale k t.collapse := by
  cases t
  simp only [GridTrack.collapse, scale_gt_mk, scale_simp]

@[scale_simp] theorem gt_isFlexible (k : Rat) (t : GridTrack Rat) : (scale k t).isFlexible = t.isFlexible := by
  simp only [GridTrack.isFlexible, scale_simp]
@[scale_simp] theorem gt_usesPercentage (k : Rat) (t : GridTrack Rat) : (scale k t).usesPercentage = t.usesPercentage := by
  simp only [GridTrack.usesPercentage, scale_simp]
@[scale_simp] theorem gt_hasIntrinsic (k : Rat) (t : GridTrack Rat) :
    (scale k t).hasIntrinsicSizingFunction = t.hasIntrinsicSizingFunction := by
  simp only [GridTrack.hasIntrinsicSizingFunction, scale_simp]
@[scale_simp] theorem gt_flexFactor (k : Rat) (t : GridTrack Rat) : (scale k t).flexFactor = t.flexFactor := by
  unfold GridTrack.flexFactor
  rw [gt_maxFn]
  cases t.maxFn <;> rfl

/-! ### `Ext` -/

@[scale_simp] theorem ext_gtF (hk : 0 < k) (e : Ext Rat) (x : Rat) : (scale k e).gtF (scale k x) = e.gtF x := by
  cases e <;> simp only [Ext.gtF, scale_simp, flt_scale hk]
@[scale_simp] theorem ext_ltF (hk : 0 < k) (e : Ext Rat) (x : Rat) : (scale k e).ltF (scale k x) = e.ltF x := by
  cases e <;> simp only [Ext.ltF, scale_simp, flt_scale hk]
@[scale_simp] theorem ext_geF (hk : 0 < k) (e : Ext Rat) (x : Rat) : (scale k e).geF (scale k x) = e.geF x := by
  cases e <;> simp only [Ext.geF, scale_simp, fle_scale hk]
@[scale_simp] theorem ext_eqF (hk : 0 < k) (e : Ext Rat) (x : Rat) : (scale k e).eqF (scale k x) = e.eqF x := by
  cases e <;> simp only [Ext.eqF, scale_simp, feq_scale hk]
@[scale_simp] theorem ext_isInf (k : Rat) (e : Ext Rat) : (scale k e).isInf = e.isInf := by cases e <;> rfl
@[scale_simp] theorem ext_min (hk : 0 < k) (a b : Ext Rat) : (scale k a).min (scale k b) = scale k (a.min b) := by
  cases a <;> cases b <;> simp only [Ext.min, scale_simp, fmin_scale hk]
@[scale_simp] theorem ext_minF (hk : 0 < k) (e : Ext Rat) (x : Rat) : (scale k e).minF (scale k x) = scale k (e.minF x) := by
  cases e <;> simp only [Ext.minF, scale_simp, fmin_scale hk]
@[scale_simp] theorem ext_addF (k : Rat) (e : Ext Rat) (x : Rat) : (scale k e).addF (scale k x) = scale k (e.addF x) := by
  cases e <;> simp only [Ext.addF, scale_simp]
@[scale_simp] theorem ext_ofOption (k : Rat) (o : Option Rat) : Ext.ofOption (scale k o) = scale k (Ext.ofOption o) := by
  cases o <;> rfl

/-! ### 11.4 `initialize_track_sizes` -/

@[scale_simp] theorem initializeTrackSize_scale (hk : 0 < k) (axisInner : Option Rat) (t : GridTrack Rat) :
    initializeTrackSize (scale k axisInner) (scale k t) = scale k (initializeTrackSize axisInner t) := by
  cases t
  simp only [initializeTrackSize, scale_gt_mk, scale_simp, ext_ltF hk, getD_scale_zero]
  split <;> simp only [scale_simp]

@[scale_simp] theorem initializeTrackSizes_scale (hk : 0 < k) (tracks : List (GridTrack Rat)) (axisInner : Option Rat) :
    initializeTrackSizes (scale k tracks) (scale k axisInner) = scale k (initializeTrackSizes tracks axisInner) := by
  unfold initializeTrackSizes
  exact map_scale_list k tracks _ _ fun t => initializeTrackSize_scale hk axisInner t

@[scale_simp] theorem estimate_eval (k : Rat) (e : Estimate) (t : GridTrack Rat) (p : Option Rat) :
    e.eval (scale k t) (scale k p) = scale k (e.eval t p) := by
  cases e <;> simp only [Estimate.eval, scale_simp]

end C04
