/-
  `FlexModel.computePreliminary` (Model/Flex.lean) cut into named stages, so that properties of the whole program can be
  proved stage by stage.  Nothing new is defined about flexbox: `computePreliminary_eq` is `rfl`.

    prelimConsts / prelimAvail          the constants and the available space (pure)
    mainStage                           "if the container size is undefined, determine the main size, re-resolve gaps"
    crossStage                          steps 8, 9, 11, 12, 13, 15 (pure: from the hypothetical cross sizes to the container
                                        cross size)
    tailStage                           step 16, the final layout pass, the absolute pass, the hidden pass, the output
    afterMain / afterBase               the composition of the stages after `mainStage` / after step 3
-/
import TaffyVerif.Model.Flex

set_option linter.unusedSectionVars false

namespace FlexStages
open FlexModel
variable {α : Type} [Num α]

/-- `tree.get_flexbox_child_style(child.node)` -/
def styleOf (childStyles : List (Style α)) : Nat → Style α := fun i => (childStyles[i]?).getD Style.default

/-- the known main size: fill in the container sizes -/
def mainKnown (k : AlgoConstants α) (innerMainSize : α) : AlgoConstants α :=
  { k with innerContainerSize := setMain k.innerContainerSize k.dir innerMainSize,
           containerSize := setMain k.containerSize k.dir (innerMainSize + k.contentBoxInset.mainAxisSum k.dir) }

/-- after `determine_container_main_size`: write the sizes back and re-resolve the main gap -/
def mainPatch (style : Style α) (k : AlgoConstants α) : AlgoConstants α :=
  let k := { k with nodeInnerSize := setMain k.nodeInnerSize k.dir (some (k.innerContainerSize.main k.dir)),
                    nodeOuterSize := setMain k.nodeOuterSize k.dir (some (k.containerSize.main k.dir)) }
  let innerContainerSize := k.innerContainerSize.main k.dir
  let newGap := (style.gap.main k.dir).resolveOrZero (some innerContainerSize)
  { k with gap := setMain k.gap k.dir newGap }

def mainStage (style : Style α) (k : AlgoConstants α) (availableSpace : Size (AvailableSpace α))
    (lines : List (FlexLineS α)) : ProgM α (List (FlexLineS α) × AlgoConstants α) :=
  match k.nodeInnerSize.main k.dir with
  | some innerMainSize => pure (lines, mainKnown k innerMainSize)
  | none => do
    let (lines, k) ← determineContainerMainSize k availableSpace lines
    pure (lines, mainPatch style k)

/-- steps 8, 9, 11, 12, 13 -/
def crossLines (k : AlgoConstants α) (knownDimensions : Size (Option α)) (styleOf : Nat → Style α)
    (lines : List (FlexLineS α)) : List (FlexLineS α) :=
  let lines := calculateCrossSize k knownDimensions lines
  let lines := handleAlignContentStretch k knownDimensions lines
  let lines := determineUsedCrossSize k styleOf lines
  let lines := lines.map (distributeLine k)
  resolveCrossAxisAutoMargins k lines

/-- the output once the lines are aligned and laid out -/
def finalOutput (k : AlgoConstants α) (lines : List (FlexLineS α)) (inflowContentSize absoluteContentSize : Size α) :
    LayoutOutput α :=
  LayoutOutput.fromSizesAndBaselines k.containerSize (inflowContentSize.f32Max absoluteContentSize)
    ⟨none, firstVerticalBaseline k lines⟩

/-- step 16 to the end (PerformLayout only) -/
def tailStage (k : AlgoConstants α) (childStyles : List (Style α)) (totalLineCrossSize : α)
    (lines : List (FlexLineS α)) : ProgM α (LayoutOutput α) := do
  let lines := alignFlexLinesPerAlignContent k totalLineCrossSize lines
  let (lines, inflowContentSize) ← finalLayoutPass k lines
  let absoluteContentSize ← absLoop k childStyles 0 Size.zero
  BlockModel.hiddenLoop childStyles 0
  pure (finalOutput k lines inflowContentSize absoluteContentSize)

/-- steps 8 to the end -/
def afterCalls (k : AlgoConstants α) (childStyles : List (Style α)) (inputs : LayoutInput α)
    (lines : List (FlexLineS α)) : ProgM α (LayoutOutput α) :=
  let lines := crossLines k inputs.knownDimensions (styleOf childStyles) lines
  let r := determineContainerCrossSize k inputs.knownDimensions lines
  if inputs.runMode == .computeSize then pure (LayoutOutput.fromOuterSize r.2.containerSize)
  else tailStage r.2 childStyles r.1 lines

variable [FlexLine.NumX α]

/-- steps 6 to the end -/
def afterMain (childStyles : List (Style α)) (inputs : LayoutInput α) (availableSpace : Size (AvailableSpace α))
    (r : List (FlexLineS α) × AlgoConstants α) : ProgM α (LayoutOutput α) := do
  let lines := r.1.map (resolveFlexibleLengthsLine r.2)
  let lines ← determineHypotheticalCrossSize r.2 availableSpace lines
  let lines ← calculateChildrenBaseLines r.2 inputs.knownDimensions availableSpace lines
  afterCalls r.2 childStyles inputs lines

def prelimConsts (style : Style α) (inputs : LayoutInput α) : AlgoConstants α :=
  computeConstants style inputs.knownDimensions inputs.parentSize

def prelimAvail (style : Style α) (inputs : LayoutInput α) : Size (AvailableSpace α) :=
  determineAvailableSpace inputs.knownDimensions inputs.availableSpace (prelimConsts style inputs)

/-- steps 5 to the end -/
def afterBase (style : Style α) (childStyles : List (Style α)) (inputs : LayoutInput α)
    (flexItems : List (FlexItem α)) : ProgM α (LayoutOutput α) := do
  let k := prelimConsts style inputs
  let availableSpace := prelimAvail style inputs
  let lines := collectFlexLines k availableSpace flexItems
  let r ← mainStage style k availableSpace lines
  afterMain childStyles inputs availableSpace r

/-- **computePreliminary_eq**: the stages compose to `compute_preliminary` -/
theorem computePreliminary_eq (style : Style α) (childStyles : List (Style α)) (inputs : LayoutInput α) :
    computePreliminary style childStyles inputs =
      (determineFlexBaseSize (prelimConsts style inputs) (prelimAvail style inputs) (styleOf childStyles)
        (generateAnonymousFlexItems (prelimConsts style inputs) childStyles)) >>=
        afterBase style childStyles inputs := by
  rfl

/-- associativity of `bind` for interaction programs -/
theorem bind_assoc' {β γ δ : Type} (p : ProgM α β) (f : β → ProgM α γ) (g : γ → ProgM α δ) :
    (p >>= f) >>= g = p >>= fun b => f b >>= g := by
  show ProgM.bind (ProgM.bind p f) g = ProgM.bind p fun b => ProgM.bind (f b) g
  induction p with
  | pure b => rfl
  | call i inp c ih => simp only [ProgM.bind, ih]
  | setLayout i l c ih => simp only [ProgM.bind, ih]

/-- steps 1–5 and the main-size determination: everything up to (and including) the last query whose RESULT
`determine_container_main_size`'s floor can spoil -/
def prefixProg (style : Style α) (childStyles : List (Style α)) (inputs : LayoutInput α) :
    ProgM α (List (FlexLineS α) × AlgoConstants α) :=
  determineFlexBaseSize (prelimConsts style inputs) (prelimAvail style inputs) (styleOf childStyles)
      (generateAnonymousFlexItems (prelimConsts style inputs) childStyles) >>= fun flexItems =>
    mainStage style (prelimConsts style inputs) (prelimAvail style inputs)
      (collectFlexLines (prelimConsts style inputs) (prelimAvail style inputs) flexItems)

/-- **computePreliminary_split**: `compute_preliminary` = prefix, then steps 6 to the end -/
theorem computePreliminary_split (style : Style α) (childStyles : List (Style α)) (inputs : LayoutInput α) :
    computePreliminary style childStyles inputs =
      prefixProg style childStyles inputs >>= afterMain childStyles inputs (prelimAvail style inputs) := by
  rw [computePreliminary_eq, prefixProg, bind_assoc']
  rfl

end FlexStages
