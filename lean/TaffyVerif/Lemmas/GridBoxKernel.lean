/-
  A kernel-evaluable form of the grid model.  `List.mergeSort` (well-founded recursion) does not reduce in the kernel,
  so `decide +kernel` cannot run `GridModel.gridAlg` as it stands.  `msort l le` returns `l` itself when `l` is already
  sorted (a structural check) and `l.mergeSort le` otherwise; it EQUALS `l.mergeSort le` for every list
  (`List.mergeSort_of_pairwise`), and it reduces in the kernel whenever the list is already sorted.  `gridAlgK` is
  `gridAlg` with `msort` at the four sort sites (`resolve_item_baselines`, `resolve_intrinsic_track_sizes`, step 9,
  the container baseline); `gridAlgK_eq : gridAlgK = gridAlg`.  Concrete witnesses are evaluated through `gridAlgK`.
  No Mathlib.
-/
import TaffyVerif.Lemmas.GridBoxStages
import TaffyVerif.Model.GridEval

set_option linter.unusedSectionVars false

namespace GridKernel
open GridModel GridTracks GridStages

def sortedB {β : Type} (le : β → β → Bool) : List β → Bool
  | [] => true
  | a :: l => l.all (le a) && sortedB le l

theorem sortedB_pairwise {β : Type} (le : β → β → Bool) : ∀ (l : List β), sortedB le l = true →
    l.Pairwise (fun a b => le a b = true)
  | [], _ => List.Pairwise.nil
  | a :: l, h => by
    simp only [sortedB, Bool.and_eq_true, List.all_eq_true] at h
    exact List.Pairwise.cons h.1 (sortedB_pairwise le l h.2)

def msort {β : Type} (l : List β) (le : β → β → Bool) : List β := if sortedB le l then l else l.mergeSort le

theorem msort_eq {β : Type} (l : List β) (le : β → β → Bool) : msort l le = l.mergeSort le := by
  unfold msort
  split
  · rename_i h
    exact (List.mergeSort_of_pairwise (sortedB_pairwise le l h)).symm
  · rfl

variable {α : Type} [Num α] [NumCast α]

def resolveItemBaselinesK (axis : Ax) (items : List (GItem α)) (innerNodeSize : Size (Option α)) :
    GM α (List (GItem α)) :=
  let otherAxis := axis.other
  let items := msort items fun a b => decide ((a.placement otherAxis).start ≤ (b.placement otherAxis).start)
  baselineRows axis innerNodeSize (items.length + 1) items

omit [NumCast α] in
theorem resolveItemBaselinesK_eq (axis : Ax) (items : List (GItem α)) (ins : Size (Option α)) :
    resolveItemBaselinesK axis items ins = resolveItemBaselines axis items ins := by
  unfold resolveItemBaselinesK resolveItemBaselines
  simp only [msort_eq]

def resolveIntrinsicTrackSizesK (s : Sizer α) (tracks : List (GridTrack α)) (items : List (GItem α))
    (avail : AvailableSpace α) : GM α (List (GItem α) × List (GridTrack α)) := do
  let axis := s.axis
  let items := msort items (GridModel.itemLe axis)
  let axisInner := sget s.innerNodeSize axis
  let flexFactorSum : α := sumF (tracks.map (·.flexFactor))
  let (items, tracks) ← batchLoopM s avail axisInner flexFactorSum (items.length + 1) items 0 tracks
  let tracks := tracks.map fun t => match t.growthLimit with
    | .inf => { t with growthLimit := .fin t.baseSize }
    | _ => t
  pure (items, tracks)

omit [NumCast α] in
theorem resolveIntrinsicTrackSizesK_eq (s : Sizer α) (tracks : List (GridTrack α)) (items : List (GItem α))
    (avail : AvailableSpace α) :
    resolveIntrinsicTrackSizesK s tracks items avail = resolveIntrinsicTrackSizesM s tracks items avail := by
  unfold resolveIntrinsicTrackSizesK resolveIntrinsicTrackSizesM
  simp only [msort_eq]
  rfl

def trackSizingAlgorithmK (a : RunArgs α) (st : RunState α) : GM α (RunState α) := do
  let axis := a.axis
  let axisInner := sget a.innerNodeSize axis
  let axisTracks := initializeTrackSizes st.axisTracks axisInner
  let items ← (if a.hasBaselineAlignedItem then resolveItemBaselinesK axis st.items a.innerNodeSize
    else pure st.items : GM α (List (GItem α)))
  if axisTracks.all (fun t => t.growthLimit.eqF t.baseSize) then
    pure { axisTracks, otherAxisTracks := st.otherAxisTracks, items }
  else do
  let gutterAlignmentAdjustment := computeAlignmentGutterAdjustment a.otherAxisAlignment
    (sget a.innerNodeSize axis.other) a.est st.otherAxisTracks
  let otherAxisTracks := setGutterAdjustment gutterAlignmentAdjustment st.otherAxisTracks
  let avail := sget a.availableGridSpace axis
  let sizer : Sizer α := { otherAxisTracks, est := a.est, axis, innerNodeSize := a.innerNodeSize }
  let (items, axisTracks) ← resolveIntrinsicTrackSizesK sizer axisTracks items avail
  let axisTracks := maximiseTracks axisTracks axisInner avail
  let availForExpansion : AvailableSpace α := match axisInner with
    | some s => .definite s
    | none => match avail with
      | .minContent => .minContent
      | _ => .maxContent
  let (items, axisTracks) ←
    expandFlexibleTracksM axis axisTracks items a.axisMinSize a.axisMaxSize availForExpansion a.innerNodeSize
  let axisTracks :=
    if a.axisAlignment == .stretch then stretchAutoTracks axisTracks a.axisMinSize availForExpansion else axisTracks
  pure { axisTracks, otherAxisTracks, items }

omit [NumCast α] in
theorem trackSizingAlgorithmK_eq : (trackSizingAlgorithmK : RunArgs α → RunState α → GM α (RunState α)) =
    trackSizingAlgorithmM := by
  funext a st
  unfold trackSizingAlgorithmK trackSizingAlgorithmM
  simp only [resolveItemBaselinesK_eq, resolveIntrinsicTrackSizesK_eq]
  rfl

def gridContainerBaselineK (items : List (GItem α)) : α :=
  let items := msort items fun a b => decide (a.rowIndexes.start ≤ b.rowIndexes.start)
  match items with
  | [] => 0
  | first :: _ =>
    let firstRow := first.rowIndexes.start
    let firstRowItems := items.takeWhile fun it => it.rowIndexes.start == firstRow
    let item := (firstRowItems.find? fun it => it.alignSelf == .baseline).getD first
    item.yPosition + item.baseline.getD item.height

omit [NumCast α] in
theorem gridContainerBaselineK_eq (items : List (GItem α)) :
    gridContainerBaselineK items = gridContainerBaseline items := by
  unfold gridContainerBaselineK gridContainerBaseline
  simp only [msort_eq]
  rfl

def gridFinishK (c : Ctx α) (childStyles : List (GridChildStyle α)) (containerBorderBox containerContentBox : Size α)
    (colCounts rowCounts : GridPlacement.TrackCounts)
    (r : List (GridTrack α) × List (GridTrack α) × List (GItem α)) : GM α (LayoutOutput α) := do
  let columns := alignTracks containerContentBox.width c.padding.left c.border.left r.1 c.justifyContent
  let rows := alignTracks containerContentBox.height c.padding.top c.border.top r.2.1 c.alignContent
  let items := msort r.2.2 fun a b => decide (a.sourceOrder ≤ b.sourceOrder)
  let (items, itemContentSize) ← positionItems childStyles rows columns c.justifyItems c.alignItems items 0 Size.zero
  let itemContentSize ← hiddenAbsLoop c containerBorderBox rows columns colCounts rowCounts childStyles 0
    items.length itemContentSize
  if items.isEmpty then pure (LayoutOutput.fromOuterSize containerBorderBox) else
  pure (LayoutOutput.fromSizesAndBaselines containerBorderBox itemContentSize ⟨none, some (gridContainerBaselineK items)⟩)

theorem gridFinishK_eq : (gridFinishK : Ctx α → _) = gridFinish := by
  funext c cs bb ccb cc rc r
  unfold gridFinishK gridFinish
  simp only [msort_eq, gridContainerBaselineK_eq]

def gridRerunRowsK (c : Ctx α) (availableSpace : Size (AvailableSpace α)) (innerNodeSize : Size (Option α))
    (st : RunState α) : GM α (List (GridTrack α) × List (GridTrack α) × List (GItem α)) := do
  let columns := st.axisTracks
  let rows := st.otherAxisTracks
  let items := st.items
  let hasPercentageRow := rows.any (·.usesPercentage)
  let parentHeightIndefinite := !availableSpace.height.isDefinite
  let rerunRowSizing0 := parentHeightIndefinite && hasPercentageRow
  let (rerunRowSizing, items) ← (
    if !rerunRowSizing0 then minContentChanged .blk columns innerNodeSize items
    else pure (true, clearCaches .blk items) : GM α (Bool × List (GItem α)))
  if rerunRowSizing then do
    let st ← trackSizingAlgorithmK { rowArgs c innerNodeSize with innerNodeSize }
      { axisTracks := rows, otherAxisTracks := columns, items }
    pure (st.otherAxisTracks, st.axisTracks, st.items)
  else pure (columns, rows, items)

theorem gridRerunRowsK_eq : (gridRerunRowsK : Ctx α → _) = gridRerunRows := by
  funext c av ins st
  unfold gridRerunRowsK gridRerunRows
  rw [trackSizingAlgorithmK_eq]

def gridRerunBodyK (c : Ctx α) (availableSpace : Size (AvailableSpace α)) (hasBaselineAlignedItem : Bool)
    (innerNodeSize : Size (Option α)) (rerunColumnSizing : Bool)
    (columns rows : List (GridTrack α)) (items : List (GItem α)) :
    GM α (List (GridTrack α) × List (GridTrack α) × List (GItem α)) :=
  if rerunColumnSizing then do
    let st ← trackSizingAlgorithmK { colArgs c hasBaselineAlignedItem with innerNodeSize, est := .baseSize }
      { axisTracks := columns, otherAxisTracks := rows, items }
    gridRerunRowsK c availableSpace innerNodeSize st
  else pure (columns, rows, items)

theorem gridRerunBodyK_eq : (gridRerunBodyK : Ctx α → _) = gridRerunBody := by
  funext c av hb ins r cols rows items
  unfold gridRerunBodyK gridRerunBody
  rw [trackSizingAlgorithmK_eq, gridRerunRowsK_eq]

def gridRerunKK {β : Type} (c : Ctx α) (availableSpace : Size (AvailableSpace α)) (hasBaselineAlignedItem : Bool)
    (containerContentBox : Size α) (innerNodeSize : Size (Option α))
    (columns rows : List (GridTrack α)) (items : List (GItem α))
    (k : List (GridTrack α) × List (GridTrack α) × List (GItem α) → GM α β) : GM α β := do
  let columns :=
    if !c.availableGridSpace.width.isDefinite then reresolvePercentTracks containerContentBox.width columns else columns
  let rows :=
    if !c.availableGridSpace.height.isDefinite then reresolvePercentTracks containerContentBox.height rows else rows
  let hasPercentageColumn := columns.any (·.usesPercentage)
  let parentWidthIndefinite := !availableSpace.width.isDefinite
  let rerunColumnSizing0 := parentWidthIndefinite && hasPercentageColumn
  let (rerunColumnSizing, items) ← (
    if !rerunColumnSizing0 then minContentChanged .inl rows innerNodeSize items
    else pure (true, clearCaches .inl items) : GM α (Bool × List (GItem α)))
  gridRerunBodyK c availableSpace hasBaselineAlignedItem innerNodeSize rerunColumnSizing columns rows items >>= k

theorem gridRerunKK_eq {β : Type} (c : Ctx α) (av : Size (AvailableSpace α)) (hb : Bool) (ccb : Size α)
    (ins : Size (Option α)) (columns rows : List (GridTrack α)) (items : List (GItem α))
    (k : List (GridTrack α) × List (GridTrack α) × List (GItem α) → GM α β) :
    gridRerunKK c av hb ccb ins columns rows items k = gridRerunK c av hb ccb ins columns rows items k := by
  unfold gridRerunKK gridRerunK
  rw [gridRerunBodyK_eq]

def gridAfterSizingK (c : Ctx α) (childStyles : List (GridChildStyle α)) (inputs : LayoutInput α)
    (hasBaselineAlignedItem : Bool) (colCounts rowCounts : GridPlacement.TrackCounts) (innerNodeSize0 : Size (Option α))
    (initialColumnSum : α) (st : RunState α) : GM α (LayoutOutput α) :=
  let rows := st.axisTracks
  let columns := st.otherAxisTracks
  let items := st.items
  let initialRowSum : α := sumF (rows.map (·.baseSize))
  let innerNodeSize : Size (Option α) :=
    { innerNodeSize0 with height := innerNodeSize0.height.or (some initialRowSum) }
  let containerBorderBox := containerBorderBoxOf c inputs.knownDimensions initialColumnSum initialRowSum
  let containerContentBox := containerContentBoxOf c containerBorderBox
  if inputs.runMode == .computeSize then pure (LayoutOutput.fromOuterSize containerBorderBox) else
  gridRerunKK c inputs.availableSpace hasBaselineAlignedItem containerContentBox innerNodeSize columns rows items
    (gridFinishK c childStyles containerBorderBox containerContentBox colCounts rowCounts)

theorem gridAfterSizingK_eq : (gridAfterSizingK : Ctx α → _) = gridAfterSizing := by
  funext c cs inp hb cc rc ins0 ics st
  unfold gridAfterSizingK gridAfterSizing
  simp only [gridRerunKK_eq, gridFinishK_eq]

def gridSizingK (c : Ctx α) (childStyles : List (GridChildStyle α)) (inputs : LayoutInput α) (su : Setup α) :
    GM α (LayoutOutput α) := do
  let hasBaselineAlignedItem := su.items.any fun it => it.alignSelf == .baseline
  let st ← trackSizingAlgorithmK (colArgs c hasBaselineAlignedItem)
    { axisTracks := su.columns, otherAxisTracks := su.rows, items := su.items }
  let columns := st.axisTracks
  let rows := st.otherAxisTracks
  let items := st.items
  let initialColumnSum : α := sumF (columns.map (·.baseSize))
  let innerNodeSize : Size (Option α) :=
    { c.innerNodeSize with width := c.innerNodeSize.width.or (some initialColumnSum) }
  let items := items.map fun it => { it with availableSpaceCache := none }
  let st ← trackSizingAlgorithmK (rowArgs c innerNodeSize) { axisTracks := rows, otherAxisTracks := columns, items }
  gridAfterSizingK c childStyles inputs hasBaselineAlignedItem su.colCounts su.rowCounts innerNodeSize initialColumnSum st

theorem gridSizingK_eq : (gridSizingK : Ctx α → _) = gridSizing := by
  funext c cs inp su
  unfold gridSizingK gridSizing
  rw [trackSizingAlgorithmK_eq, gridAfterSizingK_eq]

def computeGridLayoutEK (style : GridStyle α) (childStyles : List (GridChildStyle α)) (inputs : LayoutInput α) :
    GM α (LayoutOutput α) :=
  match inputs.runMode, (mkCtx style.base inputs).outerNodeSize.width,
      (mkCtx style.base inputs).outerNodeSize.height with
  | .computeSize, some width, some height => pure (LayoutOutput.fromOuterSize ⟨width, height⟩)
  | _, _, _ =>
    gridSetupK style childStyles (mkCtx style.base inputs) (gridSizingK (mkCtx style.base inputs) childStyles inputs)

theorem computeGridLayoutEK_eq (style : GridStyle α) (childStyles : List (GridChildStyle α)) (inputs : LayoutInput α) :
    computeGridLayoutEK style childStyles inputs = computeGridLayoutE style childStyles inputs := by
  rw [computeGridLayoutE_eq]
  unfold computeGridLayoutEK
  rw [gridSizingK_eq]
  rfl

/-- `gridAlg` in kernel-evaluable form -/
def gridAlgK (s : Style α) (cs : List (Style α)) (inp : LayoutInput α) : ProgM α (LayoutOutput α) := do
  match ← (computeGridLayoutEK (GridStyle.ofStyle s) (cs.map GridChildStyle.ofStyle) inp).run with
  | .ok out => pure out
  | .error _ => pure LayoutOutput.hidden

/-- **gridAlgK_eq** -/
theorem gridAlgK_eq : (gridAlgK : Style α → List (Style α) → LayoutInput α → ProgM α (LayoutOutput α)) = gridAlg := by
  funext s cs inp
  unfold gridAlgK gridAlg computeGridLayout
  rw [computeGridLayoutEK_eq]
  rfl

end GridKernel
