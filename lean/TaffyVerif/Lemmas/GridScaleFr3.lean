/-
  C04 for grid, part 15: `find_size_of_fr`, the alignment gutter adjustment.  No absolute constant: the only literal
  is the dimensionless `1` the sum of flex factors is floored at.
-/
import TaffyVerif.Lemmas.GridScaleFr2

set_option linter.unusedSectionVars false
set_option linter.unusedVariables false
set_option linter.unusedSimpArgs false

namespace C04
open Scalable GridModel GridTracks GridStages GridTheta

variable {k : Rat}

theorem frGe_scale (hk : 0 < k) (f : Rat) (hyp : Option Rat) (base : Rat) :
    frGe f (scale k hyp) (scale k base) = frGe f hyp base := by
  cases hyp with
  | none => rfl
  | some h => simp only [frGe, scale_some, mul_scale', fle_scale hk]

theorem frLt_scale (hk : 0 < k) (f : Rat) (prev : Option Rat) (base : Rat) :
    frLt f (scale k prev) (scale k base) = frLt f prev base := by
  cases prev with
  | none => rfl
  | some h => simp only [frLt, scale_some, mul_scale', flt_scale hk]

theorem frAccumulate_scale (hk : 0 < k) (hyp : Option Rat) : ∀ (tracks : List (GridTrack Rat)) (used sum : Rat),
    frAccumulate (scale k hyp) (scale k tracks) (scale k used, sum) =
      (scale k (frAccumulate hyp tracks (used, sum)).1, (frAccumulate hyp tracks (used, sum)).2)
  | [], _, _ => rfl
  | t :: rest, used, sum => by
    show frAccumulate (scale k hyp) (scale k t :: scale k rest) (scale k used, sum) = _
    unfold frAccumulate
    rw [gt_maxFn, gt_baseSize]
    cases hm : t.maxFn with
    | fr v =>
      simp only [maxt_fr, frGe_scale hk, add_scale]
      split
      · exact frAccumulate_scale hk hyp rest used (sum + v)
      · exact frAccumulate_scale hk hyp rest (used + t.baseSize) sum
    | length v => simp only [maxt_length, add_scale]; exact frAccumulate_scale hk hyp rest _ sum
    | percent v => simp only [maxt_percent, add_scale]; exact frAccumulate_scale hk hyp rest _ sum
    | auto => simp only [maxt_auto, add_scale]; exact frAccumulate_scale hk hyp rest _ sum
    | minContent => simp only [maxt_minContent, add_scale]; exact frAccumulate_scale hk hyp rest _ sum
    | maxContent => simp only [maxt_maxContent, add_scale]; exact frAccumulate_scale hk hyp rest _ sum
    | fitContentPx v => simp only [maxt_fitContentPx, add_scale]; exact frAccumulate_scale hk hyp rest _ sum
    | fitContentPercent v =>
      simp only [maxt_fitContentPercent, add_scale]; exact frAccumulate_scale hk hyp rest _ sum

theorem frIsValid_scale (hk : 0 < k) (tracks : List (GridTrack Rat)) (hyp prev : Option Rat) :
    frIsValid (scale k tracks) (scale k hyp) (scale k prev) = frIsValid tracks hyp prev := by
  unfold frIsValid
  refine all_scale_list k tracks _ _ fun t => ?_
  rw [gt_maxFn, gt_baseSize]
  cases t.maxFn <;> simp only [scale_simp, frGe_scale hk, frLt_scale hk]

theorem findSizeOfFrLoop_scale (hk : 0 < k) (tracks : List (GridTrack Rat)) (space : Rat) :
    ∀ (fuel : Nat) (hyp : Option Rat),
      findSizeOfFrLoop fuel (scale k tracks) (scale k space) (scale k hyp) =
        scale k (findSizeOfFrLoop fuel tracks space hyp)
  | 0, hyp => rfl
  | fuel + 1, hyp => by
    unfold findSizeOfFrLoop
    have h0 := frAccumulate_scale hk hyp tracks 0 0
    rw [scale_zero] at h0
    rw [h0]
    rcases frAccumulate hyp tracks (0, 0) with ⟨used, naive⟩
    dsimp only
    rw [sub_scale, div_scale, ← scale_some, frIsValid_scale hk]
    split
    · rfl
    · exact findSizeOfFrLoop_scale hk tracks space fuel _

theorem findSizeOfFr_scale (hk : 0 < k) (tracks : List (GridTrack Rat)) (space : Rat) :
    findSizeOfFr (scale k tracks) (scale k space) = scale k (findSizeOfFr tracks space) := by
  unfold findSizeOfFr
  rw [feq_scale_zero hk, length_scale_list]
  split
  · rw [scale_zero]
  · have := findSizeOfFrLoop_scale hk tracks space (tracks.length + 2) none
    rw [scale_none] at this
    rw [this, getD_scale_zero]

/-! ### the gutter adjustment -/

/-- the zero of `Num Rat` as the model's `0 : α` elaborates at `α = Rat` -/
local notation "z0" => (@OfNat.ofNat Rat (nat_lit 0) (@Zero.toOfNat0 Rat (@Num.toZero Rat instNumRat)))

theorem scale_z0 (k : Rat) : scale k z0 = z0 := by
  show k * (0 : Rat) = 0
  rw [mul_zero]

theorem gutterCore_scale (hk : 0 < k) (a : Rat) (est : Estimate) (tracks : List (GridTrack Rat)) (w iw : Nat) :
    ((allSome ((scale k tracks).map fun t => est.eval t (some (scale k a)))).map
        fun l => Num.fmax 0 (scale k a - GridTracks.sumF l)).getD z0 / Num.ofNat w * Num.ofNat iw =
      scale k (((allSome (tracks.map fun t => est.eval t (some a))).map
        fun l => Num.fmax 0 (a - GridTracks.sumF l)).getD z0 / Num.ofNat w * Num.ofNat iw) := by
  rw [← scale_some, map_scale_list k tracks (fun t => est.eval t (scale k (some a))) (fun t => est.eval t (some a))
    (fun t => estimate_eval k est t (some a)), allSome_scale]
  cases allSome (tracks.map fun t => est.eval t (some a)) with
  | none =>
    simp only [scale_none, Option.map_none, Option.getD_none]
    show (0 : Rat) / _ * _ = k * ((0 : Rat) / _ * _)
    simp only [zero_div, zero_mul, mul_zero]
  | some l =>
    simp only [scale_some, Option.map_some, Option.getD_some, gsumF_scale, sub_scale, fmax_zero_scale hk]
    simp only [scale_rat]
    ring

theorem computeAlignmentGutterAdjustment_scale (hk : 0 < k) (al : AlignContent) (inner : Option Rat) (est : Estimate)
    (tracks : List (GridTrack Rat)) :
    computeAlignmentGutterAdjustment al (scale k inner) est (scale k tracks) =
      scale k (computeAlignmentGutterAdjustment al inner est tracks) := by
  unfold computeAlignmentGutterAdjustment
  rw [length_scale_list]
  split
  · rw [scale_z0]
  · cases inner with
    | none => cases al <;> simp only [scale_none, scale_z0, ite_self]
    | some a =>
      cases al <;>
        simp only [scale_some, scale_z0, gutterCore_scale hk, ite_scale, ite_scale_zero, apply_ite (scale k)]

theorem setGutterAdjustment_scale (k : Rat) (adj : Rat) (tracks : List (GridTrack Rat)) :
    setGutterAdjustment (scale k adj) (scale k tracks) = scale k (setGutterAdjustment adj tracks) := by
  unfold setGutterAdjustment
  rw [length_scale_list]
  split
  · rw [zipIdx_scale, scale_list, List.map_map, List.map_map]
    refine List.map_congr_left fun p _ => ?_
    obtain ⟨t, i⟩ := p
    simp only [Function.comp]
    split
    · cases t; rfl
    · rfl
  · rfl

end C04
