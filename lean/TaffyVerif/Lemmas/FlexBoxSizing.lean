/-
  C12 for flexbox (Model/Flex.lean): every content-box/border-box conversion site of flexbox.rs, inside the WHOLE program.

  The container's own style is read by `compute_flexbox_layout` (styled known dimensions), `compute_constants`
  (min/max size with the adjustment) and for `gap`.  A child's style is read by `generate_anonymous_flex_items` (size,
  min-size, max-size with the adjustment), `determine_flex_base_size` (flex-basis with the adjustment along the main
  axis), `determine_used_cross_size` (`size.cross.is_auto()`, max-size with the adjustment), the absolute pass
  (`AbsPos.flexResolve`) and the position/display filters.
-/
import TaffyVerif.Lemmas.BoxSizingBlock
import TaffyVerif.Lemmas.BoxSizingAbs
import TaffyVerif.Lemmas.BoxSizingTree
import TaffyVerif.Lemmas.FlexItemStages
import TaffyVerif.Lemmas.FlexStages

namespace C12L
open BoxSizingModel FlexModel FlexStages

variable {s : Style Rat} {m : Bool}

/-! ### the container's own style -/

theorem flexStyledKnown_tbb (h : Eligible s) (inp : LayoutInput Rat) :
    FlexModel.styledBasedKnownDimensions (toBorderBox m s) inp = FlexModel.styledBasedKnownDimensions s inp := by
  simp only [FlexModel.styledBasedKnownDimensions, BlockModel.resolveStyleSize, BlockModel.boxSizingAdjustment,
    tbb_aspectRatio, tbb_padding, tbb_border, tbb_boxSizing, tbb_size, tbb_minSize, tbb_maxSize, h.boxSizing,
    h.aspectRatio, beq_cb_cb, beq_bb_cb, if_true, Bool.false_eq_true, if_false, padding_resolve h, border_resolve h,
    pbSum_fold', aspect_none, size_resolve h, minSize_resolve h, maxSize_resolve h, of_add_zero]

theorem flexGutter_tbb : AbsPos.scrollbarGutter (toBorderBox m s) = AbsPos.scrollbarGutter s := rfl

theorem computeConstants_tbb (h : Eligible s) (kd ps : Size (Option Rat)) :
    computeConstants (toBorderBox m s) kd ps = computeConstants s kd ps := by
  simp only [computeConstants, BlockModel.resolveStyleSize, BlockModel.boxSizingAdjustment, flexGutter_tbb,
    tbb_aspectRatio, tbb_padding, tbb_border, tbb_boxSizing, tbb_minSize, tbb_maxSize, tbb_margin, tbb_gap,
    tbb_flexDirection, tbb_flexWrap, tbb_alignItems, tbb_alignContent, tbb_justifyContent, h.boxSizing,
    h.aspectRatio, beq_cb_cb, beq_bb_cb, if_true, Bool.false_eq_true, if_false, padding_resolve h, border_resolve h,
    pbSum_fold', aspect_none, minSize_resolve h, maxSize_resolve h, of_add_zero]

theorem mainStage_tbb (k : AlgoConstants Rat) (av : Size (AvailableSpace Rat)) (lines : List (FlexLineS Rat)) :
    mainStage (toBorderBox m s) k av lines = mainStage s k av lines := rfl

theorem afterBase_tbb (h : Eligible s) (cs : List (Style Rat)) (inp : LayoutInput Rat) (items : List (FlexItem Rat)) :
    afterBase (toBorderBox m s) cs inp items = afterBase s cs inp items := by
  simp only [afterBase, prelimAvail, prelimConsts, computeConstants_tbb h, mainStage_tbb]

theorem computePreliminary_tbb (h : Eligible s) (cs : List (Style Rat)) (inp : LayoutInput Rat) :
    computePreliminary (toBorderBox m s) cs inp = computePreliminary s cs inp := by
  rw [computePreliminary_eq, computePreliminary_eq]
  simp only [prelimAvail, prelimConsts, computeConstants_tbb h]
  congr 1
  funext items
  exact afterBase_tbb h cs inp items

/-- **flex container site**: the container's own style switched -/
theorem flexContainer_site (h : Eligible s) (m : Bool) (cs : List (Style Rat)) (inp : LayoutInput Rat) :
    computeFlexboxLayout s cs inp = computeFlexboxLayout (toBorderBox m s) cs inp := by
  simp only [computeFlexboxLayout, flexStyledKnown_tbb h, computePreliminary_tbb h]

/-! ### child styles -/

theorem flexGenerateItem_tbb (h : Eligible s) (k : AlgoConstants Rat) (idx : Nat) :
    FlexModel.generateItem k idx (toBorderBox m s) = FlexModel.generateItem k idx s := by
  simp only [FlexModel.generateItem, BlockModel.resolveStyleSize, BlockModel.boxSizingAdjustment, tbb_aspectRatio,
    tbb_padding, tbb_border, tbb_boxSizing, tbb_size, tbb_minSize, tbb_maxSize, tbb_overflow, tbb_scrollbarWidth,
    tbb_inset, tbb_margin, tbb_alignSelf, tbb_flexGrow, tbb_flexShrink, h.boxSizing, h.aspectRatio, beq_cb_cb,
    beq_bb_cb, if_true, Bool.false_eq_true, if_false, padding_resolve h, border_resolve h, pbSum_fold, aspect_none,
    size_resolve h, minSize_resolve h, maxSize_resolve h, of_add_zero]

theorem flexGenerateItem_rel {a b : Style Rat} (h : StyleRel m a b) (k : AlgoConstants Rat) (idx : Nat) :
    FlexModel.generateItem k idx b = FlexModel.generateItem k idx a := by
  rcases h with h | ⟨he, h⟩
  · rw [h]
  · rw [h]; exact flexGenerateItem_tbb he k idx

theorem flexGenerateItemsFrom_rel (k : AlgoConstants Rat) : ∀ (cs cs' : List (Style Rat)), StylesRel m cs cs' →
    ∀ idx, FlexModel.generateItemsFrom k cs' idx = FlexModel.generateItemsFrom k cs idx
  | [], [], _, _ => rfl
  | [], _ :: _, h, _ => by simp only [StylesRel] at h
  | _ :: _, [], h, _ => by simp only [StylesRel] at h
  | a :: as, b :: bs, h, idx => by
    simp only [StylesRel] at h
    simp only [FlexModel.generateItemsFrom, isHidden_rel ⟨m, h.1⟩, position_rel ⟨m, h.1⟩, flexGenerateItem_rel h.1,
      flexGenerateItemsFrom_rel k as bs h.2]

/-- flexbox.rs l.688–700: the flex-basis with the adjustment along the container's main axis -/
theorem fbDefinite_tbb (h : Eligible s) (k : AlgoConstants Rat) (child : FlexItem Rat) :
    fbDefinite k (toBorderBox k.dir.isRow s) child = fbDefinite k s child := by
  have := core_flexBasis h k.dir.isRow (k.nodeInnerSize.main k.dir) (k.nodeInnerSize.main k.dir)
  simp only [adjustment] at this
  unfold fbDefinite fbAdjust
  cases hr : k.dir.isRow <;>
    simp only [hr, Size.main, Bool.false_eq_true, if_false, if_true] at this ⊢ <;> rw [this]

theorem flexBaseSizeItem_tbb (h : Eligible s) (k : AlgoConstants Rat) (av : Size (AvailableSpace Rat))
    (child : FlexItem Rat) :
    flexBaseSizeItem k av (toBorderBox k.dir.isRow s) child = flexBaseSizeItem k av s child := by
  rw [flexBaseSizeItem_eq, flexBaseSizeItem_eq, fbDefinite_tbb h]

theorem flexBaseSizeItem_rel {a b : Style Rat} (k : AlgoConstants Rat) (h : StyleRel k.dir.isRow a b)
    (av : Size (AvailableSpace Rat)) (child : FlexItem Rat) :
    flexBaseSizeItem k av b child = flexBaseSizeItem k av a child := by
  rcases h with h | ⟨he, h⟩
  · rw [h]
  · rw [h]; exact flexBaseSizeItem_tbb he k av child

/-- flexbox.rs l.1609–1625: `size.cross.is_auto()` and the max-size with the adjustment, aspect ratio ignored -/
theorem usedCrossItem_tbb (h : Eligible s) (k : AlgoConstants Rat) (lcs : Rat) (child : FlexItem Rat) :
    usedCrossItem k lcs (toBorderBox m s) child = usedCrossItem k lcs s child := by
  have ha : ((toBorderBox m s).size.cross k.dir).isAuto = (s.size.cross k.dir).isAuto := by
    simp only [Size.cross, tbb_size, bumpSize]
    split <;> exact bumpDim_isAuto _ _
  simp only [usedCrossItem, ha, BlockModel.boxSizingAdjustment, tbb_padding, tbb_border, tbb_boxSizing, tbb_maxSize,
    h.boxSizing, beq_cb_cb, beq_bb_cb, if_true, Bool.false_eq_true, if_false, padding_resolve_size h,
    border_resolve_size h, pbSum_fold, maxSize_resolve h, of_add_zero]

theorem usedCrossItem_rel {a b : Style Rat} (h : StyleRel m a b) (k : AlgoConstants Rat) (lcs : Rat)
    (child : FlexItem Rat) : usedCrossItem k lcs b child = usedCrossItem k lcs a child := by
  rcases h with h | ⟨he, h⟩
  · rw [h]
  · rw [h]; exact usedCrossItem_tbb he k lcs child

theorem flexAbsItem_tbb (h : Eligible s) (k : AlgoConstants Rat) (order : Nat) (acc : Size Rat) :
    FlexModel.absItem k order (toBorderBox m s) acc = FlexModel.absItem k order s acc := by
  simp only [FlexModel.absItem, flexResolve_tbb h, tbb_aspectRatio, absScrollbarSize_tbb, tbb_overflow]

theorem flexAbsItem_rel {a b : Style Rat} (h : StyleRel m a b) (k : AlgoConstants Rat) (order : Nat) (acc : Size Rat) :
    FlexModel.absItem k order b acc = FlexModel.absItem k order a acc := by
  rcases h with h | ⟨he, h⟩
  · rw [h]
  · rw [h]; exact flexAbsItem_tbb he k order acc

theorem flexAbsLoop_rel (k : AlgoConstants Rat) : ∀ (cs cs' : List (Style Rat)), StylesRel m cs cs' →
    ∀ (order : Nat) (acc : Size Rat), FlexModel.absLoop k cs' order acc = FlexModel.absLoop k cs order acc
  | [], [], _, _, _ => rfl
  | [], _ :: _, h, _, _ => by simp only [StylesRel] at h
  | _ :: _, [], h, _, _ => by simp only [StylesRel] at h
  | a :: as, b :: bs, h, order, acc => by
    simp only [StylesRel] at h
    simp only [FlexModel.absLoop, isHidden_rel ⟨m, h.1⟩, position_rel ⟨m, h.1⟩, flexAbsItem_rel h.1,
      flexAbsLoop_rel k as bs h.2]

/-- index-wise: the styles the algorithm looks up by child index are related (out of range: both `Style::DEFAULT`) -/
theorem styleOf_rel : ∀ (cs cs' : List (Style Rat)), StylesRel m cs cs' → ∀ i, StyleRel m (styleOf cs i) (styleOf cs' i)
  | [], [], _, _ => Or.inl rfl
  | [], _ :: _, h, _ => by simp only [StylesRel] at h
  | _ :: _, [], h, _ => by simp only [StylesRel] at h
  | a :: as, b :: bs, h, 0 => by
    simp only [StylesRel] at h
    exact h.1
  | a :: as, b :: bs, h, i + 1 => by
    simp only [StylesRel] at h
    have := styleOf_rel as bs h.2 i
    simpa only [styleOf, List.getElem?_cons_succ] using this

theorem determineFlexBaseSize_rel (k : AlgoConstants Rat) (av : Size (AvailableSpace Rat)) (s1 s2 : Nat → Style Rat)
    (h : ∀ i, StyleRel k.dir.isRow (s1 i) (s2 i)) : ∀ items : List (FlexItem Rat),
      determineFlexBaseSize k av s2 items = determineFlexBaseSize k av s1 items
  | [] => rfl
  | child :: rest => by
    unfold determineFlexBaseSize
    rw [flexBaseSizeItem_rel k (h child.nodeIdx), determineFlexBaseSize_rel k av s1 s2 h rest]

theorem determineUsedCrossSize_rel (k : AlgoConstants Rat) (s1 s2 : Nat → Style Rat)
    (h : ∀ i, StyleRel m (s1 i) (s2 i)) (lines : List (FlexLineS Rat)) :
    determineUsedCrossSize k s2 lines = determineUsedCrossSize k s1 lines := by
  unfold determineUsedCrossSize
  refine List.map_congr_left fun l _ => ?_
  have : l.items.map (fun c => usedCrossItem k l.crossSize (s2 c.nodeIdx) c) =
      l.items.map (fun c => usedCrossItem k l.crossSize (s1 c.nodeIdx) c) :=
    List.map_congr_left fun c _ => usedCrossItem_rel (h c.nodeIdx) k _ c
  rw [this]

theorem afterCalls_rel (k : AlgoConstants Rat) (cs cs' : List (Style Rat)) (hr : StylesRel m cs cs')
    (inp : LayoutInput Rat) (lines : List (FlexLineS Rat)) :
    afterCalls k cs' inp lines = afterCalls k cs inp lines := by
  simp only [afterCalls, crossLines, tailStage, determineUsedCrossSize_rel k _ _ (styleOf_rel cs cs' hr),
    flexAbsLoop_rel _ cs cs' hr, hiddenLoop_rel cs cs' (StylesRel_any m cs cs' hr)]

theorem afterMain_rel (cs cs' : List (Style Rat)) (hr : StylesRel m cs cs') (inp : LayoutInput Rat)
    (av : Size (AvailableSpace Rat)) (r : List (FlexLineS Rat) × AlgoConstants Rat) :
    afterMain cs' inp av r = afterMain cs inp av r := by
  simp only [afterMain, afterCalls_rel _ cs cs' hr]

theorem computePreliminary_items (s : Style Rat) (cs cs' : List (Style Rat))
    (hr : StylesRel s.flexDirection.isRow cs cs') (inp : LayoutInput Rat) :
    computePreliminary s cs' inp = computePreliminary s cs inp := by
  rw [computePreliminary_eq, computePreliminary_eq]
  have hd : (prelimConsts s inp).dir.isRow = s.flexDirection.isRow := rfl
  rw [determineFlexBaseSize_rel (prelimConsts s inp) _ (styleOf cs) (styleOf cs')
    (by rw [hd]; exact styleOf_rel cs cs' hr)]
  unfold generateAnonymousFlexItems
  rw [flexGenerateItemsFrom_rel _ cs cs' hr]
  congr 1
  funext items
  simp only [afterBase, afterMain_rel cs cs' hr]

/-- **flex item site**: any subset of eligible child styles switched (flex-basis along the container's main axis) -/
theorem flexItems_site (s : Style Rat) (cs cs' : List (Style Rat)) (hr : StylesRel s.flexDirection.isRow cs cs')
    (inp : LayoutInput Rat) : computeFlexboxLayout s cs inp = computeFlexboxLayout s cs' inp := by
  simp only [computeFlexboxLayout, computePreliminary_items s cs cs' hr]

/-- `compute_flexbox_layout` is blind to the rewriting, as the tree theorem needs it -/
theorem flex_containerBlind : ContainerBlind (FlexModel.computeFlexboxLayout (α := Rat)) where
  own _ cs inp m h := flexContainer_site h m cs inp
  items s cs cs' inp h := flexItems_site s cs cs' h inp

end C12L
