/-
  Lemmas for C14: the reachable-state invariant `Inv` of the TaffyTree model and its preservation by every
  structural operation under the property's precondition `Pre`.
-/
import TaffyVerif.Model.Tree
import TaffyVerif.Lemmas.SlotMap

namespace TreeModel
open SlotMapModel

def Tree.live (t : Tree) (n : Id) : Prop := (t.nodes.get n).isSome = true

/-- reachable-state invariant -/
structure Inv (t : Tree) : Prop where
  /-- the crate's own slot-map invariant -/
  wfN : WF t.nodes
  /-- the three maps are in lock-step: same slots occupied with the same versions, same free list -/
  shC : t.children.shape = t.nodes.shape
  shP : t.parents.shape = t.nodes.shape
  /-- child lists only mention live nodes -/
  kidsLive : ∀ p l c, t.children.get p = some l → c ∈ l → (t.nodes.get c).isSome = true
  /-- `parent(c) = Some(p)` exactly when `c` is in `children(p)` -/
  parIff : ∀ c p, t.parents.get c = some (some p) ↔ ∃ l, t.children.get p = some l ∧ c ∈ l
  /-- no child list mentions a node twice -/
  nodup : ∀ p l, t.children.get p = some l → l.Nodup

theorem Inv.wfC {t : Tree} (inv : Inv t) : WF t.children := inv.wfN.of_shape_eq inv.shC
theorem Inv.wfP {t : Tree} (inv : Inv t) : WF t.parents := inv.wfN.of_shape_eq inv.shP
theorem Inv.liveC {t : Tree} (inv : Inv t) (k : Id) : (t.children.get k).isSome = (t.nodes.get k).isSome :=
  isSome_get_of_shape_eq inv.shC k
theorem Inv.liveP {t : Tree} (inv : Inv t) (k : Id) : (t.parents.get k).isSome = (t.nodes.get k).isSome :=
  isSome_get_of_shape_eq inv.shP k

theorem Inv.kids_of_live {t : Tree} (inv : Inv t) {k : Id} (h : t.live k) : ∃ l, t.children.get k = some l := by
  have := inv.liveC k
  rw [h] at this
  exact Option.isSome_iff_exists.mp this

theorem Inv.par_of_live {t : Tree} (inv : Inv t) {k : Id} (h : t.live k) : ∃ o, t.parents.get k = some o := by
  have := inv.liveP k
  rw [h] at this
  exact Option.isSome_iff_exists.mp this

theorem Inv.live_of_par {t : Tree} (inv : Inv t) {k : Id} {o : Option Id} (h : t.parents.get k = some o) : t.live k := by
  have := inv.liveP k
  rw [h] at this
  exact this.symm

theorem Inv.live_of_kids {t : Tree} (inv : Inv t) {k : Id} {l : List Id} (h : t.children.get k = some l) : t.live k := by
  have := inv.liveC k
  rw [h] at this
  exact this.symm

/-- each node occurs in at most one child list -/
theorem Inv.unique_parent {t : Tree} (inv : Inv t) {c p q : Id} {l l' : List Id}
    (h1 : t.children.get p = some l) (hc1 : c ∈ l) (h2 : t.children.get q = some l') (hc2 : c ∈ l') : p = q := by
  have a := (inv.parIff c p).mpr ⟨l, h1, hc1⟩
  have b := (inv.parIff c q).mpr ⟨l', h2, hc2⟩
  rw [a] at b
  exact Option.some.inj (Option.some.inj b)

theorem inv_new : Inv Tree.new := by
  refine ⟨WF.new, rfl, rfl, ?_, ?_, ?_⟩
  · intro p l c h; simp [Tree.new, SlotMap.new, SlotMap.get] at h
    cases hh : p.idx <;> simp [hh] at h
  · intro c p
    constructor
    · intro h; simp [Tree.new, SlotMap.new, SlotMap.get] at h
      cases hh : c.idx <;> simp [hh] at h
    · rintro ⟨l, h, _⟩; simp [Tree.new, SlotMap.new, SlotMap.get] at h
      cases hh : p.idx <;> simp [hh] at h
  · intro p l h; simp [Tree.new, SlotMap.new, SlotMap.get] at h
    cases hh : p.idx <;> simp [hh] at h

/-! ### `setParents` -/

theorem setParents_spec (v : Option Id) : ∀ (cs : List Id) (m : SlotMap (Option Id)),
    (∀ c ∈ cs, (m.get c).isSome = true) →
    ∃ m', setParents m v cs = (m', true) ∧ m'.shape = m.shape ∧
      ∀ x, m'.get x = if x ∈ cs then some v else m.get x := by
  intro cs
  induction cs with
  | nil => intro m _; exact ⟨m, rfl, rfl, fun x => by simp⟩
  | cons c rest ih =>
    intro m h
    have hc := h c List.mem_cons_self
    obtain ⟨o, ho⟩ := Option.isSome_iff_exists.mp hc
    have hrest : ∀ c' ∈ rest, ((m.set c v).get c').isSome = true := by
      intro c' hc'
      rw [get_set]
      split
      · rfl
      · exact h c' (List.mem_cons_of_mem _ hc')
    obtain ⟨m', h1, h2, h3⟩ := ih (m.set c v) hrest
    refine ⟨m', by simp only [setParents, ho, h1], by rw [h2, shape_set], fun x => ?_⟩
    rw [h3, get_set]
    by_cases e1 : x ∈ rest
    · simp [e1]
    · by_cases e2 : x = c
      · simp [e2, hc]
      · simp [e1, e2]

/-! ### the generic "one list is rewritten" step -/

/-- Replace `children(p) = l` by `l'`; nodes entering the list were detached, nodes leaving it become detached.
    Covers add_child, insert_child_at_index, remove_child(_at_index), remove_children_range, replace_child_at_index. -/
theorem inv_relist {t : Tree} (inv : Inv t) {p : Id} {l l' : List Id} (hl : t.children.get p = some l)
    (hnd : l'.Nodup) (hnew : ∀ x ∈ l', x ∈ l ∨ t.parents.get x = some none)
    {parents' : SlotMap (Option Id)} (hsh : parents'.shape = t.parents.shape)
    (hP : ∀ x, parents'.get x =
      (t.parents.get x).map (fun o => if x ∈ l' then some p else if x ∈ l then none else o)) :
    Inv { t with children := t.children.set p l', parents := parents' } := by
  have hlive' : ∀ x ∈ l', (t.nodes.get x).isSome = true := by
    intro x hx
    rcases hnew x hx with h | h
    · exact inv.kidsLive p l x hl h
    · exact inv.live_of_par h
  have hkids : ∀ q, (t.children.set p l').get q = if q = p then some l' else t.children.get q := by
    intro q; rw [get_set]; simp [hl]
  refine ⟨inv.wfN, by rw [← inv.shC]; exact shape_set _ _ _, by rw [← inv.shP]; exact hsh, ?_, ?_, ?_⟩
  · intro q l'' c h hc
    simp only [hkids] at h
    split at h
    · cases h; exact hlive' c hc
    · exact inv.kidsLive q l'' c h hc
  · intro c q
    simp only [hkids, hP]
    by_cases eq : q = p
    · subst eq
      simp only [if_true, Option.some.injEq, exists_eq_left']
      by_cases hc : c ∈ l'
      · obtain ⟨o, ho⟩ := inv.par_of_live (hlive' c hc)
        simp [hc, ho]
      · simp only [hc, iff_false]
        cases ho : t.parents.get c with
        | none => simp
        | some o =>
          by_cases hcl : c ∈ l
          · simp [hc, hcl]
          · simp only [Option.map_some, hc, hcl, if_false]
            intro h
            obtain ⟨l2, h2, h3⟩ := (inv.parIff c q).mp (ho ▸ h)
            rw [hl] at h2; cases h2; exact hcl h3
    · simp only [eq, if_false]
      rw [← inv.parIff c q]
      cases ho : t.parents.get c with
      | none => simp
      | some o =>
        simp only [Option.map_some, Option.some.injEq]
        by_cases hc : c ∈ l'
        · simp only [hc, if_true]
          have hne : some p ≠ some q := fun h => eq (Option.some.inj h).symm
          constructor
          · intro h; exact absurd h hne
          · intro h
            rcases hnew c hc with h1 | h1
            · have := (inv.parIff c p).mpr ⟨l, hl, h1⟩
              rw [ho] at this
              rw [Option.some.inj this] at h
              exact absurd h hne
            · rw [ho] at h1; rw [Option.some.inj h1] at h; cases h
        · by_cases hcl : c ∈ l
          · simp only [hc, hcl, if_true, if_false]
            constructor
            · intro h; cases h
            · intro h
              have := (inv.parIff c p).mpr ⟨l, hl, hcl⟩
              rw [ho] at this
              rw [Option.some.inj this] at h
              exact absurd (Option.some.inj h) (fun h => eq h.symm)
          · simp [hc, hcl]
  · intro q l'' h
    simp only [hkids] at h
    split at h
    · cases h; exact hnd
    · exact inv.nodup q l'' h

/-! ### list facts -/
section ListFacts
variable {α : Type}

theorem split_at {l : List α} {i : Nat} {c : α} (h : l[i]? = some c) : l = l.take i ++ c :: l.drop (i + 1) := by
  obtain ⟨hi, rfl⟩ := List.getElem?_eq_some_iff.mp h
  rw [← List.drop_eq_getElem_cons hi, List.take_append_drop]

theorem nodup_mid {A B : List α} {c : α} (h : (A ++ c :: B).Nodup) : (A ++ B).Nodup ∧ c ∉ A ++ B := by
  simp only [List.nodup_append, List.nodup_cons, List.mem_cons, List.mem_append] at *
  grind

theorem nodup_insert {A B : List α} {d : α} (h : (A ++ B).Nodup) (hd : d ∉ A ++ B) : (A ++ d :: B).Nodup := by
  simp only [List.nodup_append, List.nodup_cons, List.mem_cons, List.mem_append] at *
  grind

theorem take_drop_sublist (l : List α) (a b : Nat) (hab : a ≤ b) : (l.take a ++ l.drop b).Sublist l := by
  have h1 : l = l.take a ++ l.drop a := (List.take_append_drop a l).symm
  conv => rhs; rw [h1]
  apply List.Sublist.append (List.Sublist.refl _)
  have : l.drop b = (l.drop a).drop (b - a) := by rw [List.drop_drop]; congr 1; omega
  rw [this]; exact List.drop_sublist _ _

/-- `l = take a ++ (take b).drop a ++ drop b` for `a ≤ b` -/
theorem split_range (l : List α) (a b : Nat) (hab : a ≤ b) :
    l = l.take a ++ ((l.take b).drop a ++ l.drop b) := by
  have h1 : l.take a = (l.take b).take a := by rw [List.take_take]; congr 1; omega
  rw [h1, ← List.append_assoc, List.take_append_drop, List.take_append_drop]

end ListFacts

theorem Inv.par_of_mem {t : Tree} (inv : Inv t) {p x : Id} {l : List Id} (hl : t.children.get p = some l)
    (hx : x ∈ l) : t.parents.get x = some (some p) := (inv.parIff x p).mpr ⟨l, hl, hx⟩

theorem Inv.not_mem_of_detached {t : Tree} (inv : Inv t) {p x : Id} {l : List Id} (hl : t.children.get p = some l)
    (hx : t.parents.get x = some none) : x ∉ l := by
  intro h
  rw [inv.par_of_mem hl h] at hx
  cases hx

/-! ### per-operation results: the exact post-state, no panic, `Inv` again -/

theorem addChild_run {t : Tree} (inv : Inv t) {p c : Id} {l : List Id} (hl : t.children.get p = some l)
    (hc : t.parents.get c = some none) :
    addChild t p c = ({ t with parents := t.parents.set c (some p), children := t.children.set p (l ++ [c]) }, .ok .unit) := by
  have hp : (t.nodes.get p).isSome = true := inv.live_of_kids hl
  simp [addChild, hc, hl, markDirty, hp]

theorem addChild_inv {t : Tree} (inv : Inv t) {p c : Id} {l : List Id} (hl : t.children.get p = some l)
    (hc : t.parents.get c = some none) :
    Inv { t with parents := t.parents.set c (some p), children := t.children.set p (l ++ [c]) } := by
  have hcl := inv.not_mem_of_detached hl hc
  apply inv_relist inv hl
  · have := inv.nodup p l hl
    simp only [List.nodup_append, List.nodup_cons, List.mem_cons, List.mem_append] at *
    grind
  · intro x hx
    rcases List.mem_append.mp hx with h | h
    · exact Or.inl h
    · simp at h; subst h; exact Or.inr hc
  · exact shape_set _ _ _
  · intro x
    rw [get_set]
    by_cases e : x = c
    · subst e; simp [hc]
    · cases ho : t.parents.get x with
      | none => simp [e]
      | some o =>
        by_cases hx : x ∈ l
        · have := inv.par_of_mem hl hx
          rw [ho] at this
          simp [e, hx, Option.some.inj this]
        · simp [e, hx]

theorem insertChild_run {t : Tree} (inv : Inv t) {p c : Id} {i : Nat} {l : List Id} (hl : t.children.get p = some l)
    (hc : t.parents.get c = some none) (hi : i ≤ l.length) :
    insertChildAtIndex t p i c =
      ({ t with parents := t.parents.set c (some p), children := t.children.set p (l.take i ++ c :: l.drop i) }, .ok .unit) := by
  have hp : (t.nodes.get p).isSome = true := inv.live_of_kids hl
  have : ¬ i > l.length := by omega
  simp [insertChildAtIndex, hc, hl, markDirty, hp, this]

theorem insertChild_err {t : Tree} {p c : Id} {i : Nat} {l : List Id} (hl : t.children.get p = some l)
    (hi : i > l.length) :
    insertChildAtIndex t p i c = (t, .err (.childIndexOutOfBounds p i l.length)) := by
  simp [insertChildAtIndex, hl, hi]

theorem insertChild_inv {t : Tree} (inv : Inv t) {p c : Id} (i : Nat) {l : List Id} (hl : t.children.get p = some l)
    (hc : t.parents.get c = some none) :
    Inv { t with parents := t.parents.set c (some p), children := t.children.set p (l.take i ++ c :: l.drop i) } := by
  have hcl := inv.not_mem_of_detached hl hc
  have hmem : ∀ x, x ∈ l.take i ++ c :: l.drop i ↔ x ∈ l ∨ x = c := by
    intro x
    have := List.take_append_drop i l
    constructor
    · intro h
      simp only [List.mem_append, List.mem_cons] at h
      rcases h with h | h | h
      · exact Or.inl (List.mem_of_mem_take h)
      · exact Or.inr h
      · exact Or.inl (List.mem_of_mem_drop h)
    · intro h
      rcases h with h | h
      · rw [← this] at h
        simp only [List.mem_append, List.mem_cons] at *
        rcases h with h | h
        · exact Or.inl h
        · exact Or.inr (Or.inr h)
      · simp [h]
  apply inv_relist inv hl
  · apply nodup_insert
    · rw [List.take_append_drop]; exact inv.nodup p l hl
    · rw [List.take_append_drop]; exact hcl
  · intro x hx
    rcases (hmem x).mp hx with h | h
    · exact Or.inl h
    · subst h; exact Or.inr hc
  · exact shape_set _ _ _
  · intro x
    rw [get_set]
    by_cases e : x = c
    · subst e; simp [hc]
    · cases ho : t.parents.get x with
      | none => simp [e]
      | some o =>
        by_cases hx : x ∈ l
        · have := inv.par_of_mem hl hx
          rw [ho] at this
          simp [e, hmem, hx, Option.some.inj this]
        · simp [e, hmem, hx]

theorem removeChildAt_run {t : Tree} (inv : Inv t) {p c : Id} {i : Nat} {l : List Id} (hl : t.children.get p = some l)
    (hi : l[i]? = some c) :
    removeChildAtIndex t p i =
      ({ t with children := t.children.set p (l.take i ++ l.drop (i + 1)), parents := t.parents.set c none }, .ok (.id c)) := by
  have hp : (t.nodes.get p).isSome = true := inv.live_of_kids hl
  have hlt : ¬ i ≥ l.length := by have := lt_length_of_getElem? hi; omega
  have hcl : c ∈ l := List.mem_of_getElem? hi
  have hpc := inv.par_of_mem hl hcl
  simp [removeChildAtIndex, hl, hi, hlt, hpc, markDirty, hp]

theorem removeChildAt_err {t : Tree} {p : Id} {i : Nat} {l : List Id} (hl : t.children.get p = some l)
    (hi : i ≥ l.length) :
    removeChildAtIndex t p i = (t, .err (.childIndexOutOfBounds p i l.length)) := by
  simp [removeChildAtIndex, hl, hi]

theorem removeChildAt_inv {t : Tree} (inv : Inv t) {p c : Id} {i : Nat} {l : List Id} (hl : t.children.get p = some l)
    (hi : l[i]? = some c) :
    Inv { t with children := t.children.set p (l.take i ++ l.drop (i + 1)), parents := t.parents.set c none } := by
  have hsplit := split_at hi
  have hnd := inv.nodup p l hl
  rw [hsplit] at hnd
  obtain ⟨hnd', hcn⟩ := nodup_mid hnd
  have hcl : c ∈ l := List.mem_of_getElem? hi
  have hmem : ∀ x, x ∈ l ↔ x ∈ l.take i ++ l.drop (i + 1) ∨ x = c := by
    intro x
    conv => lhs; rw [hsplit]
    simp only [List.mem_append, List.mem_cons]
    grind
  apply inv_relist inv hl hnd'
  · intro x hx; exact Or.inl ((hmem x).mpr (Or.inl hx))
  · exact shape_set _ _ _
  · intro x
    rw [get_set]
    by_cases e : x = c
    · subst e
      have := inv.par_of_mem hl hcl
      simp [this, hcn, hcl]
    · cases ho : t.parents.get x with
      | none => simp [e]
      | some o =>
        by_cases hx : x ∈ l.take i ++ l.drop (i + 1)
        · have := inv.par_of_mem hl ((hmem x).mpr (Or.inl hx))
          rw [ho] at this
          simp [e, hx, Option.some.inj this]
        · have hxl : x ∉ l := fun h => by rcases (hmem x).mp h with h | h; exact hx h; exact e h
          simp [e, hx, hxl]

theorem removeChild_run {t : Tree} (inv : Inv t) {p c : Id} {l : List Id} (hl : t.children.get p = some l) (hc : c ∈ l) :
    ∃ i, l[i]? = some c ∧ removeChild t p c = removeChildAtIndex t p i := by
  have : ∃ i, l.findIdx? (fun n => decide (n = c)) = some i := by
    cases h : l.findIdx? (fun n => decide (n = c)) with
    | some i => exact ⟨i, rfl⟩
    | none =>
      rw [List.findIdx?_eq_none_iff] at h
      have := h c hc
      simp at this
  obtain ⟨i, hi⟩ := this
  refine ⟨i, ?_, by simp [removeChild, hl, hi]⟩
  obtain ⟨hlt, h1, _⟩ := List.findIdx?_eq_some_iff_getElem.mp hi
  rw [List.getElem?_eq_getElem hlt]
  simpa using h1

theorem removeRange_run {t : Tree} (inv : Inv t) {p : Id} {a b : Nat} {l : List Id} (hl : t.children.get p = some l)
    (hab : a ≤ b) (hb : b ≤ l.length) :
    ∃ parents', parents'.shape = t.parents.shape ∧
      (∀ x, parents'.get x = if x ∈ (l.take b).drop a then some none else t.parents.get x) ∧
      removeChildrenRange t p a b =
        ({ t with parents := parents', children := t.children.set p (l.take a ++ l.drop b) }, .ok .unit) := by
  have hp : (t.nodes.get p).isSome = true := inv.live_of_kids hl
  have hlive : ∀ c ∈ (l.take b).drop a, (t.parents.get c).isSome = true := by
    intro c hc
    have : c ∈ l := List.mem_of_mem_take (List.mem_of_mem_drop hc)
    rw [inv.par_of_mem hl this]; rfl
  obtain ⟨m', h1, h2, h3⟩ := setParents_spec none _ t.parents hlive
  refine ⟨m', h2, h3, ?_⟩
  have : ¬ (a > b ∨ b > l.length) := by omega
  simp [removeChildrenRange, hl, this, h1, markDirty, hp]

theorem removeRange_inv {t : Tree} (inv : Inv t) {p : Id} {a b : Nat} {l : List Id} (hl : t.children.get p = some l)
    (hab : a ≤ b) {parents' : SlotMap (Option Id)} (hsh : parents'.shape = t.parents.shape)
    (hP : ∀ x, parents'.get x = if x ∈ (l.take b).drop a then some none else t.parents.get x) :
    Inv { t with parents := parents', children := t.children.set p (l.take a ++ l.drop b) } := by
  have hnd := inv.nodup p l hl
  have hsub := take_drop_sublist l a b hab
  have hsplit := split_range l a b hab
  have hdisj : ∀ x, x ∈ (l.take b).drop a → x ∉ l.take a ++ l.drop b := by
    rw [hsplit] at hnd
    simp only [List.nodup_append, List.mem_append] at hnd ⊢
    grind
  have hmem : ∀ x, x ∈ l ↔ (x ∈ l.take a ++ l.drop b ∨ x ∈ (l.take b).drop a) := by
    intro x
    conv => lhs; rw [hsplit]
    simp only [List.mem_append]
    grind
  apply inv_relist inv hl (hsub.nodup hnd)
  · intro x hx; exact Or.inl (hsub.subset hx)
  · exact hsh
  · intro x
    rw [hP]
    by_cases hx : x ∈ (l.take b).drop a
    · have hxl : x ∈ l := (hmem x).mpr (Or.inr hx)
      have := inv.par_of_mem hl hxl
      simp [hx, this, hdisj x hx, hxl]
    · cases ho : t.parents.get x with
      | none => simp [hx]
      | some o =>
        by_cases hx' : x ∈ l.take a ++ l.drop b
        · have := inv.par_of_mem hl ((hmem x).mpr (Or.inl hx'))
          rw [ho] at this
          simp [hx, hx', Option.some.inj this]
        · have hxl : x ∉ l := fun h => by rcases (hmem x).mp h with h | h; exact hx' h; exact hx h
          simp [hx, hx', hxl]

theorem replaceChild_run {t : Tree} (inv : Inv t) {p c old : Id} {i : Nat} {l : List Id}
    (hl : t.children.get p = some l) (hc : t.parents.get c = some none) (hi : l[i]? = some old) :
    replaceChildAtIndex t p i c =
      ({ t with parents := (t.parents.set c (some p)).set old none,
                children := t.children.set p (l.take i ++ c :: l.drop (i + 1)) }, .ok (.id old)) := by
  have hp : (t.nodes.get p).isSome = true := inv.live_of_kids hl
  have hlt : ¬ i ≥ l.length := by have := lt_length_of_getElem? hi; omega
  have hol : old ∈ l := List.mem_of_getElem? hi
  have hpo := inv.par_of_mem hl hol
  have hne : old ≠ c := by intro e; rw [e, hc] at hpo; cases hpo
  have h2 : ((t.parents.set c (some p)).get old) = some (some p) := by
    rw [get_set]; simp [hne, hpo]
  simp [replaceChildAtIndex, hl, hc, hi, hlt, h2, markDirty, hp]

theorem replaceChild_err {t : Tree} {p c : Id} {i : Nat} {l : List Id} (hl : t.children.get p = some l)
    (hi : i ≥ l.length) :
    replaceChildAtIndex t p i c = (t, .err (.childIndexOutOfBounds p i l.length)) := by
  simp [replaceChildAtIndex, hl, hi]

theorem replaceChild_inv {t : Tree} (inv : Inv t) {p c old : Id} {i : Nat} {l : List Id}
    (hl : t.children.get p = some l) (hc : t.parents.get c = some none) (hi : l[i]? = some old) :
    Inv { t with parents := (t.parents.set c (some p)).set old none,
                 children := t.children.set p (l.take i ++ c :: l.drop (i + 1)) } := by
  have hsplit := split_at hi
  have hnd := inv.nodup p l hl
  rw [hsplit] at hnd
  obtain ⟨hnd', hon⟩ := nodup_mid hnd
  have hol : old ∈ l := List.mem_of_getElem? hi
  have hpo := inv.par_of_mem hl hol
  have hne : old ≠ c := by intro e; rw [e, hc] at hpo; cases hpo
  have hcl := inv.not_mem_of_detached hl hc
  have hmem : ∀ x, x ∈ l ↔ x ∈ l.take i ++ l.drop (i + 1) ∨ x = old := by
    intro x
    conv => lhs; rw [hsplit]
    simp only [List.mem_append, List.mem_cons]
    grind
  have hmem' : ∀ x, x ∈ l.take i ++ c :: l.drop (i + 1) ↔ x ∈ l.take i ++ l.drop (i + 1) ∨ x = c := by
    intro x
    simp only [List.mem_append, List.mem_cons]
    grind
  have hcn : c ∉ l.take i ++ l.drop (i + 1) := fun h => hcl ((hmem c).mpr (Or.inl h))
  apply inv_relist inv hl
  · exact nodup_insert hnd' hcn
  · intro x hx
    rcases (hmem' x).mp hx with h | h
    · exact Or.inl ((hmem x).mpr (Or.inl h))
    · subst h; exact Or.inr hc
  · rw [shape_set, shape_set]
  · intro x
    rw [get_set, get_set, get_set]
    by_cases e1 : x = old
    · subst e1
      have : x ∉ l.take i ++ c :: l.drop (i + 1) := by
        rw [hmem']; intro h; rcases h with h | h; exact hon h; exact hne h
      simp [hne, hpo, this, hol]
    · by_cases e2 : x = c
      · subst e2
        simp [e1, hc, hmem']
      · cases ho : t.parents.get x with
        | none => simp [e1, e2]
        | some o =>
          by_cases hx : x ∈ l.take i ++ l.drop (i + 1)
          · have := inv.par_of_mem hl ((hmem x).mpr (Or.inl hx))
            rw [ho] at this
            simp [e1, e2, hmem', hx, Option.some.inj this]
          · have hxl : x ∉ l := fun h => by rcases (hmem x).mp h with h | h; exact hx h; exact e1 h
            simp [e1, e2, hmem', hx, hxl]

/-! ### creation -/

theorem shape_slots_length {V W : Type} {m : SlotMap V} {m' : SlotMap W} (h : m'.shape = m.shape) :
    m'.slots.length = m.slots.length := by
  have := congrArg (fun s => s.slots.length) h
  simpa [SlotMap.shape] using this

/-- the post-state of a creating operation, described through `get`, satisfies `Inv` -/
theorem inv_create_state {t : Tree} (inv : Inv t) {k : Id} {cs : List Id} {d : NodeData}
    {n' : SlotMap NodeData} {c' : SlotMap (List Id)} {p' : SlotMap (Option Id)} {ctx' : SecMap Nat}
    (hk : t.nodes.get k = none) (hnd : cs.Nodup) (hdet : ∀ c ∈ cs, t.parents.get c = some none)
    (wf : WF n') (shC : c'.shape = n'.shape) (shP : p'.shape = n'.shape)
    (gN : ∀ x, n'.get x = if x = k then some d else t.nodes.get x)
    (gC : ∀ x, c'.get x = if x = k then some cs else t.children.get x)
    (gP : ∀ x, p'.get x = if x = k then some none else if x ∈ cs then some (some k) else t.parents.get x) :
    Inv { nodes := n', children := c', parents := p', ctx := ctx' } := by
  have hkc : t.children.get k = none := by
    have := inv.liveC k; rw [hk] at this
    cases h : t.children.get k with
    | none => rfl
    | some _ => rw [h] at this; cases this
  have hkp : t.parents.get k = none := by
    have := inv.liveP k; rw [hk] at this
    cases h : t.parents.get k with
    | none => rfl
    | some _ => rw [h] at this; cases this
  have hkcs : k ∉ cs := fun h => by have := hdet k h; rw [hkp] at this; cases this
  have hnok : ∀ q l, t.children.get q = some l → k ∉ l := by
    intro q l hl hkl
    have := inv.kidsLive q l k hl hkl
    rw [hk] at this; cases this
  refine ⟨wf, shC, shP, ?_, ?_, ?_⟩
  · intro q l c h hc
    show (n'.get c).isSome = true
    change c'.get q = some l at h
    rw [gC] at h; rw [gN]
    split at h
    · cases h
      have := inv.live_of_par (hdet c hc)
      split
      · rfl
      · exact this
    · have := inv.kidsLive q l c h hc
      split
      · rfl
      · exact this
  · intro c q
    show p'.get c = some (some q) ↔ ∃ l, c'.get q = some l ∧ c ∈ l
    rw [gP, gC]
    by_cases eq : q = k
    · subst eq
      simp only [if_true, Option.some.injEq, exists_eq_left']
      by_cases ec : c = q
      · subst ec; simp [hkcs]
      · by_cases hc : c ∈ cs
        · simp [ec, hc]
        · simp only [ec, hc, if_false, iff_false]
          intro h
          obtain ⟨l, h1, _⟩ := (inv.parIff c q).mp h
          rw [hkc] at h1; cases h1
    · simp only [eq, if_false]
      rw [← inv.parIff c q]
      by_cases ec : c = k
      · subst ec; simp [hkp]
      · by_cases hc : c ∈ cs
        · have hne : k ≠ q := fun h => eq h.symm
          simp [ec, hc, hdet c hc, hne]
        · simp [ec, hc]
  · intro q l h
    change c'.get q = some l at h
    rw [gC] at h
    split at h
    · cases h; exact hnd
    · exact inv.nodup q l h

theorem newLeaf_run {t : Tree} (inv : Inv t) (hfull : t.nodes.slots.length < u32Max) (d : NodeData)
    (cs : List Id) (pm : SlotMap (Option Id)) (hpm : pm.shape = t.parents.shape) :
    ∃ n' c' p' k, t.nodes.insert d = some (n', k) ∧ t.children.insert cs = some (c', k) ∧
      pm.insert none = some (p', k) ∧ t.nodes.get k = none ∧ k.version % 2 = 1 ∧ WF n' ∧ c'.shape = n'.shape ∧ p'.shape = n'.shape ∧
      (∀ x, n'.get x = if x = k then some d else t.nodes.get x) ∧
      (∀ x, c'.get x = if x = k then some cs else t.children.get x) ∧
      (∀ x, p'.get x = if x = k then some none else pm.get x) := by
  obtain ⟨n', k, h1, w1, hk, hodd, g1⟩ := insert_spec inv.wfN d hfull
  have hshP : pm.shape = t.nodes.shape := by rw [hpm, inv.shP]
  obtain ⟨c', k2, h2, _, _, _, g2⟩ := insert_spec inv.wfC cs (by rw [shape_slots_length inv.shC]; exact hfull)
  obtain ⟨p', k3, h3, _, _, _, g3⟩ :=
    insert_spec (inv.wfN.of_shape_eq hshP) (none : Option Id) (by rw [shape_slots_length hshP]; exact hfull)
  obtain ⟨e2, s2⟩ := insert_lockstep inv.shC h1 h2
  obtain ⟨e3, s3⟩ := insert_lockstep hshP h1 h3
  simp only at e2 e3 s2 s3
  rw [e2] at h2 g2
  rw [e3] at h3 g3
  exact ⟨n', c', p', k, h1, h2, h3, hk, hodd, w1, s2, s3, g1, g2, g3⟩

theorem newLeaf_ok {t : Tree} (inv : Inv t) (hfull : t.nodes.slots.length < u32Max) :
    ∃ t' k, newLeaf t = (t', .ok (.id k)) ∧ Inv t' ∧ t.nodes.get k = none ∧ k.version % 2 = 1 ∧
      (∀ x, t'.nodes.get x = if x = k then some ⟨false⟩ else t.nodes.get x) ∧
      (∀ x, t'.children.get x = if x = k then some [] else t.children.get x) ∧
      (∀ x, t'.parents.get x = if x = k then some none else t.parents.get x) := by
  obtain ⟨n', c', p', k, h1, h2, h3, hk, hodd, w, s2, s3, g1, g2, g3⟩ := newLeaf_run inv hfull ⟨false⟩ [] t.parents rfl
  refine ⟨{ nodes := n', children := c', parents := p', ctx := t.ctx }, k, by simp [newLeaf, h1, h2, h3], ?_, hk, hodd, g1, g2, g3⟩
  exact inv_create_state inv hk List.nodup_nil (by simp) w s2 s3 g1 g2 (by simpa using g3)

theorem newLeafWithContext_ok {t : Tree} (inv : Inv t) (hfull : t.nodes.slots.length < u32Max) (x0 : Nat) :
    ∃ t' k, newLeafWithContext t x0 = (t', .ok (.id k)) ∧ Inv t' ∧ t.nodes.get k = none ∧ k.version % 2 = 1 ∧
      (∀ x, t'.nodes.get x = if x = k then some ⟨true⟩ else t.nodes.get x) ∧
      (∀ x, t'.children.get x = if x = k then some [] else t.children.get x) ∧
      (∀ x, t'.parents.get x = if x = k then some none else t.parents.get x) := by
  obtain ⟨n', c', p', k, h1, h2, h3, hk, hodd, w, s2, s3, g1, g2, g3⟩ := newLeaf_run inv hfull ⟨true⟩ [] t.parents rfl
  refine ⟨{ nodes := n', children := c', parents := p', ctx := t.ctx.insert k x0 }, k,
    by simp [newLeafWithContext, h1, h2, h3], ?_, hk, hodd, g1, g2, g3⟩
  exact inv_create_state inv hk List.nodup_nil (by simp) w s2 s3 g1 g2 (by simpa using g3)

theorem newWithChildren_ok {t : Tree} (inv : Inv t) (hfull : t.nodes.slots.length < u32Max) {cs : List Id}
    (hnd : cs.Nodup) (hdet : ∀ c ∈ cs, t.parents.get c = some none) :
    ∃ t' k, newWithChildren t cs = (t', .ok (.id k)) ∧ Inv t' ∧ t.nodes.get k = none ∧ k.version % 2 = 1 ∧
      (∀ x, t'.nodes.get x = if x = k then some ⟨false⟩ else t.nodes.get x) ∧
      (∀ x, t'.children.get x = if x = k then some cs else t.children.get x) ∧
      (∀ x, t'.parents.get x = if x = k then some none else if x ∈ cs then some (some k) else t.parents.get x) := by
  have hlive : ∀ c ∈ cs, (t.parents.get c).isSome = true := fun c hc => by rw [hdet c hc]; rfl
  -- the id is known before the parents loop runs
  obtain ⟨n0, k0, h0, _⟩ := insert_spec inv.wfN (⟨false⟩ : NodeData) hfull
  obtain ⟨pm, hs1, hs2, hs3⟩ := setParents_spec (some k0) cs t.parents hlive
  obtain ⟨n', c', p', k, h1, h2, h3, hk, hodd, w, s2, s3, g1, g2, g3⟩ := newLeaf_run inv hfull ⟨false⟩ cs pm hs2
  have hkk : k0 = k := by rw [h0] at h1; simp only [Option.some.injEq, Prod.mk.injEq] at h1; exact h1.2
  subst hkk
  have hn0 : n0 = n' := by rw [h0] at h1; simp only [Option.some.injEq, Prod.mk.injEq] at h1; exact h1.1
  subst hn0
  have gP : ∀ x, p'.get x = if x = k0 then some none else if x ∈ cs then some (some k0) else t.parents.get x := by
    intro x; rw [g3, hs3]
  refine ⟨{ nodes := n0, children := c', parents := p', ctx := t.ctx }, k0,
    by simp [newWithChildren, h0, hs1, h2, h3], ?_, hk, hodd, g1, g2, gP⟩
  exact inv_create_state inv hk hnd hdet w s2 s3 g1 g2 gP

/-! ### clear -/

theorem clear_inv {t : Tree} (inv : Inv t) : Inv (clear t).1 := by
  obtain ⟨w, g, _⟩ := clear_spec inv.wfN
  obtain ⟨_, gc, _⟩ := clear_spec inv.wfC
  obtain ⟨_, gp, _⟩ := clear_spec inv.wfP
  refine ⟨w, ?_, ?_, ?_, ?_, ?_⟩
  · show t.children.clear.shape = t.nodes.clear.shape
    rw [shape_clear, shape_clear, inv.shC]
  · show t.parents.clear.shape = t.nodes.clear.shape
    rw [shape_clear, shape_clear, inv.shP]
  · intro p l c h; change t.children.clear.get p = some l at h; rw [gc] at h; cases h
  · intro c p
    constructor
    · intro h; change t.parents.clear.get c = _ at h; rw [gp] at h; cases h
    · rintro ⟨l, h, _⟩; change t.children.clear.get p = some l at h; rw [gc] at h; cases h
  · intro p l h; change t.children.clear.get p = some l at h; rw [gc] at h; cases h

/-! ### set_node_context -/

theorem setNodeContext_ok {t : Tree} (inv : Inv t) {n : Id} (hn : t.live n) (x : Option Nat) :
    (setNodeContext t n x).2 = .ok .unit ∧ Inv (setNodeContext t n x).1 ∧
      (setNodeContext t n x).1.children = t.children ∧ (setNodeContext t n x).1.parents = t.parents ∧
      ∀ k, ((setNodeContext t n x).1.nodes.get k).isSome = (t.nodes.get k).isSome := by
  obtain ⟨d, hd⟩ := Option.isSome_iff_exists.mp hn
  have hlive : ∀ (d' : NodeData) k, ((t.nodes.set n d').get k).isSome = (t.nodes.get k).isSome := by
    intro d' k; rw [get_set]; split
    · rename_i h; rw [h.1, hd]; rfl
    · rfl
  have hinv : ∀ (d' : NodeData) (cx : SecMap Nat), Inv { t with nodes := t.nodes.set n d', ctx := cx } := by
    intro d' cx
    refine ⟨inv.wfN.set _ _, by rw [shape_set]; exact inv.shC, by rw [shape_set]; exact inv.shP, ?_, inv.parIff, inv.nodup⟩
    intro p l c h hc
    show ((t.nodes.set n d').get c).isSome = true
    rw [hlive]; exact inv.kidsLive p l c h hc
  cases x with
  | none =>
    have hm : ((t.nodes.set n ⟨false⟩).get n).isSome = true := by rw [hlive]; exact hn
    simp only [setNodeContext, hd, markDirty, hm, if_true]
    exact ⟨by trivial, hinv _ _, by trivial, by trivial, hlive _⟩
  | some v =>
    have hm : ((t.nodes.set n ⟨true⟩).get n).isSome = true := by rw [hlive]; exact hn
    simp only [setNodeContext, hd, markDirty, hm, if_true]
    exact ⟨by trivial, hinv _ _, by trivial, by trivial, hlive _⟩

/-! ### remove -/

/-- the post-state of `remove n`, described through `get`, satisfies `Inv` -/
theorem inv_remove_state {t : Tree} (inv : Inv t) {n : Id}
    {n' : SlotMap NodeData} {c' : SlotMap (List Id)} {p' : SlotMap (Option Id)} {ctx' : SecMap Nat}
    (wf : WF n') (shC : c'.shape = n'.shape) (shP : p'.shape = n'.shape)
    (gN : ∀ x, n'.get x = if x = n then none else t.nodes.get x)
    (gC : ∀ x, c'.get x = if x = n then none else (t.children.get x).map (fun l => l.filter (fun f => f ≠ n)))
    (gP : ∀ x, p'.get x = if x = n then none else (t.parents.get x).map (fun o => if o = some n then none else o)) :
    Inv { nodes := n', children := c', parents := p', ctx := ctx' } := by
  refine ⟨wf, shC, shP, ?_, ?_, ?_⟩
  · intro q l c h hc
    show (n'.get c).isSome = true
    change c'.get q = some l at h
    rw [gC] at h; rw [gN]
    split at h
    · cases h
    · cases hq : t.children.get q with
      | none => rw [hq] at h; cases h
      | some l0 =>
        rw [hq] at h; simp only [Option.map_some, Option.some.injEq] at h
        subst h
        simp only [List.mem_filter, decide_eq_true_eq] at hc
        simp only [hc.2, if_false]
        exact inv.kidsLive q l0 c hq hc.1
  · intro c q
    show p'.get c = some (some q) ↔ ∃ l, c'.get q = some l ∧ c ∈ l
    rw [gP, gC]
    have hmemf : ∀ (l0 : List Id), c ∈ l0.filter (fun f => f ≠ n) ↔ c ∈ l0 ∧ c ≠ n := by
      intro l0; simp [List.mem_filter]
    by_cases ec : c = n
    · subst ec
      rw [if_pos rfl]
      constructor
      · intro h; cases h
      · rintro ⟨l, h, hc⟩
        exfalso
        split at h
        · cases h
        · cases hq : t.children.get q with
          | none => rw [hq] at h; cases h
          | some l0 =>
            rw [hq] at h; simp only [Option.map_some, Option.some.injEq] at h
            subst h; exact ((hmemf l0).mp hc).2 rfl
    · rw [if_neg ec]
      by_cases eq : q = n
      · subst eq
        rw [if_pos rfl]
        constructor
        · intro h
          exfalso
          cases ho : t.parents.get c with
          | none => rw [ho] at h; cases h
          | some o =>
            rw [ho] at h
            simp only [Option.map_some, Option.some.injEq] at h
            split at h
            · cases h
            · rename_i hne; exact hne h
        · rintro ⟨l, h, _⟩; cases h
      · rw [if_neg eq]
        have h1 := inv.parIff c q
        constructor
        · intro h
          cases ho : t.parents.get c with
          | none => rw [ho] at h; cases h
          | some o =>
            rw [ho] at h
            simp only [Option.map_some, Option.some.injEq] at h
            split at h
            · cases h
            · subst h
              obtain ⟨l0, hq, hc⟩ := h1.mp ho
              exact ⟨l0.filter (fun f => f ≠ n), by rw [hq]; rfl, (hmemf l0).mpr ⟨hc, ec⟩⟩
        · rintro ⟨l, h, hc⟩
          cases hq : t.children.get q with
          | none => rw [hq] at h; cases h
          | some l0 =>
            rw [hq] at h; simp only [Option.map_some, Option.some.injEq] at h
            subst h
            have := h1.mpr ⟨l0, hq, ((hmemf l0).mp hc).1⟩
            rw [this]
            have hne : ¬ (some q = some n) := fun h => eq (Option.some.inj h)
            simp [hne]
  · intro q l h
    change c'.get q = some l at h
    rw [gC] at h
    split at h
    · cases h
    · cases hq : t.children.get q with
      | none => rw [hq] at h; cases h
      | some l0 =>
        rw [hq] at h; simp only [Option.map_some, Option.some.injEq] at h
        subst h
        exact (List.filter_sublist).nodup (inv.nodup q l0 hq)

theorem filter_ne_of_not_mem {l : List Id} {n : Id} (h : n ∉ l) : l.filter (fun f => f ≠ n) = l := by
  rw [List.filter_eq_self]
  intro a ha
  simp only [ne_eq, decide_eq_true_eq]
  intro e; exact h (e ▸ ha)

theorem remove_ok {t : Tree} (inv : Inv t) {n : Id} (hn : t.live n) :
    ∃ t', remove t n = (t', .ok (.id n)) ∧ Inv t' ∧
      (∀ x, t'.nodes.get x = if x = n then none else t.nodes.get x) ∧
      (∀ x, t'.children.get x = if x = n then none else (t.children.get x).map (fun l => l.filter (fun f => f ≠ n))) ∧
      (∀ x, t'.parents.get x = if x = n then none else (t.parents.get x).map (fun o => if o = some n then none else o)) := by
  obtain ⟨o, ho⟩ := inv.par_of_live hn
  obtain ⟨ln0, hln0⟩ := inv.kids_of_live hn
  -- the children map after the `retain`
  have hc1 : ∃ c1 : SlotMap (List Id), c1.shape = t.children.shape ∧
      (∀ x, c1.get x = (t.children.get x).map (fun l => l.filter (fun f => f ≠ n))) ∧
      retainInParent t o n = { t with children := c1 } := by
    cases o with
    | none =>
      refine ⟨t.children, rfl, fun x => ?_, rfl⟩
      cases hx : t.children.get x with
      | none => rfl
      | some l =>
        have : n ∉ l := inv.not_mem_of_detached hx ho
        show some l = some (l.filter (fun f => f ≠ n))
        rw [filter_ne_of_not_mem this]
    | some p =>
      obtain ⟨l, hl, hnl⟩ := (inv.parIff n p).mp ho
      refine ⟨t.children.set p (l.filter (fun f => f ≠ n)), shape_set _ _ _, fun x => ?_, by simp only [retainInParent, hl]⟩
      rw [get_set]
      by_cases e : x = p
      · subst e; simp [hl]
      · simp only [e, false_and, if_false]
        cases hx : t.children.get x with
        | none => rfl
        | some l2 =>
          have : n ∉ l2 := fun h => e (inv.unique_parent hx h hl hnl)
          show some l2 = some (l2.filter (fun f => f ≠ n))
          rw [filter_ne_of_not_mem this]
  obtain ⟨c1, sh1, g1, e1⟩ := hc1
  -- `self.mark_dirty(parent)?`: the former parent is live
  have hmd : markDirtyOpt ({ t with children := c1 } : Tree) o = true := by
    cases o with
    | none => rfl
    | some p =>
      obtain ⟨l, hl, _⟩ := (inv.parIff n p).mp ho
      exact inv.live_of_kids hl
  have hln : c1.get n = some (ln0.filter (fun f => f ≠ n)) := by rw [g1, hln0]; rfl
  have hlive : ∀ c ∈ ln0.filter (fun f => f ≠ n), (t.parents.get c).isSome = true := by
    intro c hc
    have : c ∈ ln0 := (List.mem_filter.mp hc).1
    rw [inv.par_of_mem hln0 this]; rfl
  obtain ⟨pm, hs1, hs2, hs3⟩ := setParents_spec none _ t.parents hlive
  obtain ⟨wN, gN⟩ := remove_spec inv.wfN n
  obtain ⟨_, gC⟩ := remove_spec (inv.wfC.of_shape_eq (show c1.shape = t.children.shape from sh1)) n
  obtain ⟨_, gP⟩ := remove_spec (inv.wfP.of_shape_eq hs2) n
  have hgP : ∀ x, (pm.remove n).1.get x =
      if x = n then none else (t.parents.get x).map (fun o => if o = some n then none else o) := by
    intro x; rw [gP, hs3]
    by_cases e : x = n
    · simp [e]
    · simp only [e, if_false]
      by_cases hx : x ∈ ln0.filter (fun f => f ≠ n)
      · have hx0 : x ∈ ln0 := (List.mem_filter.mp hx).1
        rw [if_pos hx, inv.par_of_mem hln0 hx0]
        simp
      · rw [if_neg hx]
        cases hpx : t.parents.get x with
        | none => rfl
        | some o2 =>
          simp only [Option.map_some, Option.some.injEq]
          split
          · rename_i h; subst h
            obtain ⟨l2, h2, h3⟩ := (inv.parIff x n).mp hpx
            rw [hln0] at h2; cases h2
            exact absurd (List.mem_filter.mpr ⟨h3, by simpa using e⟩) hx
          · rfl
  refine ⟨{ nodes := (t.nodes.remove n).1, children := (c1.remove n).1, parents := (pm.remove n).1, ctx := t.ctx }, ?_, ?_, gN, ?_, ?_⟩
  · simp only [remove, ho, e1, hmd, ↓reduceIte, hln, hs1]
  · apply inv_remove_state inv wN
    · rw [shape_remove, shape_remove, sh1, inv.shC]
    · rw [shape_remove, shape_remove, hs2, inv.shP]
    · exact gN
    · intro x; rw [gC, g1]
    · exact hgP
  · intro x; rw [gC, g1]
  · exact hgP

/-! ### set_children -/

theorem filter_cons_of_not_mem {l done : List Id} {c : Id} (h : c ∉ l) :
    l.filter (fun x => decide (x ∉ c :: done)) = l.filter (fun x => decide (x ∉ done)) := by
  apply List.filter_congr
  intro x hx
  have : x ≠ c := fun e => h (e ▸ hx)
  simp [this]

theorem filter_filter_ne {l done : List Id} {c : Id} :
    (l.filter (fun x => decide (x ∉ done))).filter (fun f => decide (f ≠ c)) =
      l.filter (fun x => decide (x ∉ c :: done)) := by
  rw [List.filter_filter]
  apply List.filter_congr
  intro x _
  simp

theorem take_drop_eq_filter {l : List Id} {i : Nat} {c : Id} (hnd : l.Nodup) (hi : l[i]? = some c) :
    l.take i ++ l.drop (i + 1) = l.filter (fun f => decide (f ≠ c)) := by
  have hs := split_at hi
  rw [hs] at hnd
  obtain ⟨_, hcn⟩ := nodup_mid hnd
  conv => rhs; rw [hs]
  simp only [List.mem_append, not_or] at hcn
  rw [List.filter_append, List.filter_cons]
  simp only [ne_eq, not_true_eq_false, decide_false, Bool.false_eq_true, if_false]
  rw [filter_ne_of_not_mem hcn.1, filter_ne_of_not_mem hcn.2]

theorem get_set_live {V : Type} {m : SlotMap V} {k : Key} (h : (m.get k).isSome = true) (v : V) (x : Key) :
    (m.set k v).get x = if x = k then some v else m.get x := by
  rw [get_set]; simp [h]

theorem get_set_set {V : Type} {m : SlotMap V} {k : Key} (h : (m.get k).isSome = true) (v1 v2 : V) (x : Key) :
    ((m.set k v1).set k v2).get x = if x = k then some v2 else m.get x := by
  have h1 : ((m.set k v1).get k).isSome = true := by rw [get_set_live h]; simp
  rw [get_set_live h1, get_set_live h]
  by_cases e : x = k <;> simp [e]

/-- `remove_child` on a state that need not satisfy `Inv` (used inside the `set_children` loop) -/
theorem removeChild_raw {s : Tree} {prev c : Id} {l : List Id} (hl : s.children.get prev = some l) (hnd : l.Nodup)
    (hc : c ∈ l) (hpc : (s.parents.get c).isSome = true) (hlive : (s.nodes.get prev).isSome = true) :
    removeChild s prev c =
      ({ s with children := s.children.set prev (l.filter (fun f => decide (f ≠ c))), parents := s.parents.set c none },
       .ok (.id c)) := by
  have : ∃ i, l.findIdx? (fun n => decide (n = c)) = some i := by
    cases h : l.findIdx? (fun n => decide (n = c)) with
    | some i => exact ⟨i, rfl⟩
    | none =>
      rw [List.findIdx?_eq_none_iff] at h
      have := h c hc
      simp at this
  obtain ⟨i, hi⟩ := this
  obtain ⟨hlt, h1, _⟩ := List.findIdx?_eq_some_iff_getElem.mp hi
  have hic : l[i]? = some c := by
    rw [List.getElem?_eq_getElem hlt]; simpa using h1
  have hnlt : ¬ i ≥ l.length := by omega
  obtain ⟨o, ho⟩ := Option.isSome_iff_exists.mp hpc
  simp only [removeChild, hl, hi, removeChildAtIndex, hnlt, if_false, hic, ho, markDirty, hlive, if_true,
    take_drop_eq_filter hnd hic]

/-- closed form of the state inside the second loop of `set_children(p, ..)` after the children in `done` were handled -/
structure SetChildrenLoop (t : Tree) (p : Id) (old : List Id) (s : Tree) (done : List Id) : Prop where
  nodes : s.nodes = t.nodes
  ctx : s.ctx = t.ctx
  shC : s.children.shape = t.children.shape
  shP : s.parents.shape = t.parents.shape
  kidsP : s.children.get p = some old
  kids : ∀ q, q ≠ p → s.children.get q = (t.children.get q).map (fun l => l.filter (fun x => decide (x ∉ done)))
  par : ∀ x, s.parents.get x =
    (t.parents.get x).map (fun o => if x ∈ done then some p else if x ∈ old then none else o)

theorem reparentLoop_spec {t : Tree} (inv : Inv t) {p : Id} {old : List Id} (hold : t.children.get p = some old) :
    ∀ (rest : List Id) (s : Tree) (done : List Id), SetChildrenLoop t p old s done →
      (∀ c ∈ rest, c ∉ done ∧ t.live c) → rest.Nodup →
      ∃ s' done', reparentLoop s p rest = (s', true) ∧ SetChildrenLoop t p old s' done' ∧
        ∀ x, x ∈ done' ↔ (x ∈ done ∨ x ∈ rest) := by
  intro rest
  induction rest with
  | nil => intro s done J _ _; exact ⟨s, done, rfl, J, fun x => by simp⟩
  | cons c rest ih =>
    intro s done J hrest hnd
    obtain ⟨hcd, hcl⟩ := hrest c List.mem_cons_self
    obtain ⟨o, ho⟩ := inv.par_of_live hcl
    have hrest' : ∀ c' ∈ rest, c' ∉ c :: done ∧ t.live c' := by
      intro c' hc'
      obtain ⟨h1, h2⟩ := hrest c' (List.mem_cons_of_mem _ hc')
      refine ⟨fun h => ?_, h2⟩
      rcases List.mem_cons.mp h with h | h
      · subst h; exact (List.nodup_cons.mp hnd).1 hc'
      · exact h1 h
    have hnd' := (List.nodup_cons.mp hnd).2
    -- the parent pointer of `c` at this point
    have hsc : s.parents.get c = some (if c ∈ old then none else o) := by
      rw [J.par, ho]; simp [hcd]
    -- the state after handling `c`
    have key : ∃ s1, SetChildrenLoop t p old s1 (c :: done) ∧
        reparentLoop s p (c :: rest) = reparentLoop s1 p rest := by
      by_cases hco : c ∈ old
      · -- `c` was a child of `p`: already detached by the first loop
        have hsc' : s.parents.get c = some none := by rw [hsc]; simp [hco]
        refine ⟨{ s with parents := s.parents.set c (some p) }, ?_, by simp [reparentLoop, hsc']⟩
        refine ⟨J.nodes, J.ctx, J.shC, by rw [← J.shP]; exact shape_set _ _ _, J.kidsP, ?_, ?_⟩
        · intro q hq
          show s.children.get q = _
          rw [J.kids q hq]
          cases hk : t.children.get q with
          | none => rfl
          | some lq =>
            have : c ∉ lq := fun h => hq (inv.unique_parent hk h hold hco)
            simp only [Option.map_some]; rw [filter_cons_of_not_mem this]
        · intro x
          show (s.parents.set c (some p)).get x = _
          rw [get_set_live (by rw [hsc']; rfl)]
          by_cases e : x = c
          · subst e; rw [if_pos rfl, ho]; simp
          · rw [if_neg e, J.par]
            cases hx : t.parents.get x <;> simp [e]
      · cases o with
        | none =>
          have hsc' : s.parents.get c = some none := by rw [hsc]; simp [hco]
          refine ⟨{ s with parents := s.parents.set c (some p) }, ?_, by simp [reparentLoop, hsc']⟩
          refine ⟨J.nodes, J.ctx, J.shC, by rw [← J.shP]; exact shape_set _ _ _, J.kidsP, ?_, ?_⟩
          · intro q hq
            show s.children.get q = _
            rw [J.kids q hq]
            cases hk : t.children.get q with
            | none => rfl
            | some lq =>
              have : c ∉ lq := inv.not_mem_of_detached hk ho
              simp only [Option.map_some]; rw [filter_cons_of_not_mem this]
          · intro x
            show (s.parents.set c (some p)).get x = _
            rw [get_set_live (by rw [hsc']; rfl)]
            by_cases e : x = c
            · subst e; rw [if_pos rfl, ho]; simp
            · rw [if_neg e, J.par]
              cases hx : t.parents.get x <;> simp [e]
        | some prev =>
          have hsc' : s.parents.get c = some (some prev) := by rw [hsc]; simp [hco]
          obtain ⟨lq, hlq, hclq⟩ := (inv.parIff c prev).mp ho
          have hprev : prev ≠ p := by
            intro e; subst e; rw [hold] at hlq; cases hlq; exact hco hclq
          have hsk : s.children.get prev = some (lq.filter (fun x => decide (x ∉ done))) := by
            rw [J.kids prev hprev, hlq]; rfl
          have hcin : c ∈ lq.filter (fun x => decide (x ∉ done)) := by
            simp [List.mem_filter, hclq, hcd]
          have hndq : (lq.filter (fun x => decide (x ∉ done))).Nodup := List.filter_sublist.nodup (inv.nodup prev lq hlq)
          have hlp : (s.nodes.get prev).isSome = true := by rw [J.nodes]; exact inv.live_of_kids hlq
          have hrc := removeChild_raw hsk hndq hcin (by rw [hsc']; rfl) hlp
          have hg2 : (s.parents.set c none).get c = some none := by rw [get_set]; simp [hsc']
          refine ⟨{ s with children := s.children.set prev ((lq.filter (fun x => decide (x ∉ done))).filter (fun f => decide (f ≠ c))),
                           parents := (s.parents.set c none).set c (some p) }, ?_, ?_⟩
          · refine ⟨J.nodes, J.ctx, by rw [← J.shC]; exact shape_set _ _ _,
              by rw [← J.shP, shape_set, shape_set], ?_, ?_, ?_⟩
            · show (s.children.set prev _).get p = some old
              have hne : ¬ (p = prev ∧ (s.children.get prev).isSome = true) := fun h => hprev h.1.symm
              rw [get_set, if_neg hne]; exact J.kidsP
            · intro q hq
              show (s.children.set prev _).get q = _
              rw [get_set]
              by_cases e : q = prev
              · subst e
                rw [if_pos ⟨rfl, by rw [hsk]; rfl⟩, hlq]
                simp only [Option.map_some]
                rw [filter_filter_ne]
              · simp only [e, false_and, if_false]
                rw [J.kids q hq]
                cases hk : t.children.get q with
                | none => rfl
                | some lq2 =>
                  have : c ∉ lq2 := fun h => e (inv.unique_parent hk h hlq hclq)
                  simp only [Option.map_some]; rw [filter_cons_of_not_mem this]
            · intro x
              show ((s.parents.set c none).set c (some p)).get x = _
              rw [get_set_set (by rw [hsc']; rfl)]
              by_cases e : x = c
              · subst e; rw [if_pos rfl, ho]; simp
              · rw [if_neg e, J.par]
                cases hx : t.parents.get x <;> simp [e]
          · simp only [reparentLoop, hsc', hrc, hg2]
    obtain ⟨s1, J1, e1⟩ := key
    obtain ⟨s', done', h1, J', hm⟩ := ih s1 (c :: done) J1 hrest' hnd'
    refine ⟨s', done', by rw [e1, h1], J', fun x => ?_⟩
    rw [hm]; simp only [List.mem_cons]
    constructor
    · rintro ((h | h) | h)
      · exact Or.inr (Or.inl h)
      · exact Or.inl h
      · exact Or.inr (Or.inr h)
    · rintro (h | h | h)
      · exact Or.inl (Or.inr h)
      · exact Or.inl (Or.inl h)
      · exact Or.inr h

/-- the post-state of `set_children(p, cs)`, described through `get`, satisfies `Inv` -/
theorem inv_setChildren_state {t : Tree} (inv : Inv t) {p : Id} {old cs : List Id} (hold : t.children.get p = some old)
    (hnd : cs.Nodup) (hlive : ∀ c ∈ cs, t.live c)
    {c' : SlotMap (List Id)} {p' : SlotMap (Option Id)} {ctx' : SecMap Nat}
    (shC : c'.shape = t.children.shape) (shP : p'.shape = t.parents.shape)
    (gC : ∀ q, c'.get q = if q = p then some cs else (t.children.get q).map (fun l => l.filter (fun x => decide (x ∉ cs))))
    (gP : ∀ x, p'.get x = (t.parents.get x).map (fun o => if x ∈ cs then some p else if x ∈ old then none else o)) :
    Inv { nodes := t.nodes, children := c', parents := p', ctx := ctx' } := by
  refine ⟨inv.wfN, by rw [shC, inv.shC], by rw [shP, inv.shP], ?_, ?_, ?_⟩
  · intro q l c h hc
    change c'.get q = some l at h
    show (t.nodes.get c).isSome = true
    rw [gC] at h
    split at h
    · cases h; exact hlive c hc
    · cases hq : t.children.get q with
      | none => rw [hq] at h; cases h
      | some l0 =>
        rw [hq] at h; simp only [Option.map_some, Option.some.injEq] at h
        subst h
        exact inv.kidsLive q l0 c hq (List.mem_filter.mp hc).1
  · intro c q
    show p'.get c = some (some q) ↔ ∃ l, c'.get q = some l ∧ c ∈ l
    rw [gP, gC]
    by_cases eq : q = p
    · subst eq
      simp only [if_true, Option.some.injEq, exists_eq_left']
      by_cases hc : c ∈ cs
      · obtain ⟨o, ho⟩ := inv.par_of_live (hlive c hc)
        simp [hc, ho]
      · simp only [hc, iff_false]
        cases ho : t.parents.get c with
        | none => simp
        | some o =>
          by_cases hco : c ∈ old
          · simp [hc, hco]
          · simp only [Option.map_some, hc, hco, if_false, Option.some.injEq]
            intro h; subst h
            obtain ⟨l2, h2, h3⟩ := (inv.parIff c q).mp ho
            rw [hold] at h2; cases h2; exact hco h3
    · simp only [eq, if_false]
      have h1 := inv.parIff c q
      constructor
      · intro h
        cases ho : t.parents.get c with
        | none => rw [ho] at h; cases h
        | some o =>
          rw [ho] at h
          simp only [Option.map_some, Option.some.injEq] at h
          by_cases hc : c ∈ cs
          · rw [if_pos hc] at h; exact absurd (Option.some.inj h).symm eq
          · rw [if_neg hc] at h
            by_cases hco : c ∈ old
            · rw [if_pos hco] at h; cases h
            · rw [if_neg hco] at h; subst h
              obtain ⟨l0, hq, hcl⟩ := h1.mp ho
              exact ⟨_, by rw [hq]; rfl, List.mem_filter.mpr ⟨hcl, by simpa using hc⟩⟩
      · rintro ⟨l, h, hc⟩
        cases hq : t.children.get q with
        | none => rw [hq] at h; cases h
        | some l0 =>
          rw [hq] at h; simp only [Option.map_some, Option.some.injEq] at h
          subst h
          obtain ⟨hcl, hcs⟩ := List.mem_filter.mp hc
          have hcs' : c ∉ cs := by simpa using hcs
          have hpc := h1.mpr ⟨l0, hq, hcl⟩
          have hco : c ∉ old := fun h => eq (inv.unique_parent hq hcl hold h)
          rw [hpc]; simp [hcs', hco]
  · intro q l h
    change c'.get q = some l at h
    rw [gC] at h
    split at h
    · cases h; exact hnd
    · cases hq : t.children.get q with
      | none => rw [hq] at h; cases h
      | some l0 =>
        rw [hq] at h; simp only [Option.map_some, Option.some.injEq] at h
        subst h
        exact List.filter_sublist.nodup (inv.nodup q l0 hq)

theorem setChildren_ok {t : Tree} (inv : Inv t) {p : Id} {cs : List Id} (hp : t.live p) (hnd : cs.Nodup)
    (hlive : ∀ c ∈ cs, t.live c) :
    ∃ t' old, t.children.get p = some old ∧ setChildren t p cs = (t', .ok .unit) ∧ Inv t' ∧ t'.nodes = t.nodes ∧
      (∀ q, t'.children.get q =
        if q = p then some cs else (t.children.get q).map (fun l => l.filter (fun x => decide (x ∉ cs)))) ∧
      (∀ x, t'.parents.get x =
        (t.parents.get x).map (fun o => if x ∈ cs then some p else if x ∈ old then none else o)) := by
  obtain ⟨old, hold⟩ := inv.kids_of_live hp
  have holdlive : ∀ c ∈ old, (t.parents.get c).isSome = true := by
    intro c hc; rw [inv.par_of_mem hold hc]; rfl
  obtain ⟨pA, hA1, hA2, hA3⟩ := setParents_spec none old t.parents holdlive
  have J0 : SetChildrenLoop t p old { t with parents := pA } [] := by
    refine ⟨rfl, rfl, rfl, hA2, hold, ?_, ?_⟩
    · intro q _
      show t.children.get q = _
      cases t.children.get q with
      | none => rfl
      | some l =>
        show some l = some (l.filter _)
        congr 1; symm; rw [List.filter_eq_self]; intro a _; simp
    · intro x
      show pA.get x = _
      rw [hA3]
      by_cases hx : x ∈ old
      · simp [hx, inv.par_of_mem hold hx]
      · cases t.parents.get x <;> simp [hx]
  obtain ⟨tB, done, hB, J, hm⟩ := reparentLoop_spec inv hold cs _ [] J0 (fun c hc => ⟨by simp, hlive c hc⟩) hnd
  have hm' : ∀ x, x ∈ done ↔ x ∈ cs := by intro x; rw [hm]; simp
  have hpB : (tB.nodes.get p).isSome = true := by rw [J.nodes]; exact hp
  have gC : ∀ q, (tB.children.set p cs).get q =
      if q = p then some cs else (t.children.get q).map (fun l => l.filter (fun x => decide (x ∉ cs))) := by
    intro q
    rw [get_set]
    by_cases e : q = p
    · subst e; simp [J.kidsP]
    · simp only [e, false_and, if_false]
      rw [J.kids q e]
      cases t.children.get q with
      | none => rfl
      | some l =>
        simp only [Option.map_some, Option.some.injEq]
        apply List.filter_congr
        intro x _; simp [hm']
  have gP : ∀ x, tB.parents.get x =
      (t.parents.get x).map (fun o => if x ∈ cs then some p else if x ∈ old then none else o) := by
    intro x; rw [J.par]; simp only [hm']
  refine ⟨{ tB with children := tB.children.set p cs }, old, hold, ?_, ?_, J.nodes, gC, gP⟩
  · simp only [setChildren, hold, hA1, hB, J.kidsP, markDirty, hpB, if_true]
  · have := inv_setChildren_state inv hold hnd hlive (c' := tB.children.set p cs) (p' := tB.parents) (ctx' := tB.ctx)
      (by rw [shape_set]; exact J.shC) J.shP gC gP
    rw [← J.nodes] at this
    exact this

/-! ### error paths -/

theorem removeChildAtIndex_err_unchanged {t : Tree} {p : Id} {i : Nat} {e : Err}
    (h : (removeChildAtIndex t p i).2 = .err e) : (removeChildAtIndex t p i).1 = t := by
  unfold removeChildAtIndex at h ⊢
  grind

/-- whenever an operation answers `Err(..)`, the tree is exactly as before (any state, any arguments) -/
theorem err_unchanged (t : Tree) (op : Op) (e : Err) (h : (step t op).2 = .err e) : (step t op).1 = t := by
  cases op with
  | removeChildAtIndex p i => exact removeChildAtIndex_err_unchanged h
  | removeChild p c =>
    simp only [step, removeChild] at h ⊢
    split
    · rfl
    · split
      · rfl
      · rename_i hl _ _ hi
        simp only [hl, hi] at h
        exact removeChildAtIndex_err_unchanged h
  | insertChildAtIndex p i c => simp only [step] at h ⊢; unfold insertChildAtIndex at h ⊢; grind
  | replaceChildAtIndex p i c => simp only [step] at h ⊢; unfold replaceChildAtIndex at h ⊢; grind
  | childAtIndex p i => simp only [step] at h ⊢; unfold childAtIndex at h ⊢; grind
  | newLeaf => simp only [step] at h ⊢; unfold newLeaf at h ⊢; grind
  | newLeafWithContext x => simp only [step] at h ⊢; unfold newLeafWithContext at h ⊢; grind
  | newWithChildren cs => simp only [step] at h ⊢; unfold newWithChildren at h ⊢; grind
  | clear => simp [step, clear] at h
  | remove n => simp only [step] at h ⊢; unfold remove at h ⊢; grind
  | setNodeContext n x => simp only [step] at h ⊢; unfold setNodeContext at h ⊢; grind
  | getNodeContext n => simp [step, getNodeContext] at h
  | addChild p c => simp only [step] at h ⊢; unfold addChild at h ⊢; grind
  | setChildren p cs => simp only [step] at h ⊢; unfold setChildren at h ⊢; grind
  | removeChildrenRange p a b => simp only [step] at h ⊢; unfold removeChildrenRange at h ⊢; grind
  | totalNodeCount => simp [step, totalNodeCount] at h
  | childCount p => simp only [step] at h ⊢; unfold childCount at h ⊢; grind
  | children p => simp only [step] at h ⊢; unfold children at h ⊢; grind
  | parent n => simp only [step] at h ⊢; unfold parent at h ⊢; grind

theorem find?_unique {α : Type} {P : α → Bool} {l : List α} {a : α} (ha : a ∈ l) (hp : P a = true)
    (hu : ∀ x ∈ l, P x = true → x = a) : l.find? P = some a := by
  induction l with
  | nil => cases ha
  | cons x xs ih =>
    simp only [List.find?_cons]
    cases hx : P x with
    | true => have := hu x List.mem_cons_self hx; simp [this]
    | false =>
      simp only
      apply ih
      · rcases List.mem_cons.mp ha with h | h
        · subst h; rw [hp] at hx; cases hx
        · exact h
      · intro y hy; exact hu y (List.mem_cons_of_mem _ hy)


end TreeModel
