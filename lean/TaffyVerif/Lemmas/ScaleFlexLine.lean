/-
  C04 — one flex line (Model/FlexLine.lean): `resolve_flexible_lengths`, `distribute_remaining_free_space` and the
  main-axis positions commute with scaling.  Flex factors (`flex_grow`, `flex_shrink`) and the flags are NOT scaled.
  There is no side condition: every comparison in these functions is between two lengths, a length and 0, or a sum of
  flex factors and the dimensionless 1.
-/
import TaffyVerif.Lemmas.ScaleMath
import TaffyVerif.Model.FlexLine

set_option linter.unusedSectionVars false
set_option linter.unusedVariables false
set_option linter.unusedSimpArgs false

namespace C04
open Scalable FlexLine

instance : Scalable (FlexItemM Rat) :=
  ⟨fun k x => ⟨scale k x.flexBasis, scale k x.innerFlexBasis, scale k x.hypInner, scale k x.hypOuter, scale k x.resolvedMinMain, scale k x.maxMain, x.flexGrow, x.flexShrink, scale k x.marginStart, scale k x.marginEnd, x.marginStartAuto, x.marginEndAuto, scale k x.insetStart, scale k x.insetEnd, x.frozen, scale k x.violation, scale k x.targetMain, scale k x.outerTargetMain, scale k x.offsetMain⟩⟩

@[scale_simp] theorem fi_flexBasis (k : Rat) (x : FlexItemM Rat) : (scale k x).flexBasis = scale k x.flexBasis := rfl
@[scale_simp] theorem fi_innerFlexBasis (k : Rat) (x : FlexItemM Rat) : (scale k x).innerFlexBasis = scale k x.innerFlexBasis := rfl
@[scale_simp] theorem fi_hypInner (k : Rat) (x : FlexItemM Rat) : (scale k x).hypInner = scale k x.hypInner := rfl
@[scale_simp] theorem fi_hypOuter (k : Rat) (x : FlexItemM Rat) : (scale k x).hypOuter = scale k x.hypOuter := rfl
@[scale_simp] theorem fi_resolvedMinMain (k : Rat) (x : FlexItemM Rat) : (scale k x).resolvedMinMain = scale k x.resolvedMinMain := rfl
@[scale_simp] theorem fi_maxMain (k : Rat) (x : FlexItemM Rat) : (scale k x).maxMain = scale k x.maxMain := rfl
@[scale_simp] theorem fi_flexGrow (k : Rat) (x : FlexItemM Rat) : (scale k x).flexGrow = x.flexGrow := rfl
@[scale_simp] theorem fi_flexShrink (k : Rat) (x : FlexItemM Rat) : (scale k x).flexShrink = x.flexShrink := rfl
@[scale_simp] theorem fi_marginStart (k : Rat) (x : FlexItemM Rat) : (scale k x).marginStart = scale k x.marginStart := rfl
@[scale_simp] theorem fi_marginEnd (k : Rat) (x : FlexItemM Rat) : (scale k x).marginEnd = scale k x.marginEnd := rfl
@[scale_simp] theorem fi_marginStartAuto (k : Rat) (x : FlexItemM Rat) : (scale k x).marginStartAuto = x.marginStartAuto := rfl
@[scale_simp] theorem fi_marginEndAuto (k : Rat) (x : FlexItemM Rat) : (scale k x).marginEndAuto = x.marginEndAuto := rfl
@[scale_simp] theorem fi_insetStart (k : Rat) (x : FlexItemM Rat) : (scale k x).insetStart = scale k x.insetStart := rfl
@[scale_simp] theorem fi_insetEnd (k : Rat) (x : FlexItemM Rat) : (scale k x).insetEnd = scale k x.insetEnd := rfl
@[scale_simp] theorem fi_frozen (k : Rat) (x : FlexItemM Rat) : (scale k x).frozen = x.frozen := rfl
@[scale_simp] theorem fi_violation (k : Rat) (x : FlexItemM Rat) : (scale k x).violation = scale k x.violation := rfl
@[scale_simp] theorem fi_targetMain (k : Rat) (x : FlexItemM Rat) : (scale k x).targetMain = scale k x.targetMain := rfl
@[scale_simp] theorem fi_outerTargetMain (k : Rat) (x : FlexItemM Rat) : (scale k x).outerTargetMain = scale k x.outerTargetMain := rfl
@[scale_simp] theorem fi_offsetMain (k : Rat) (x : FlexItemM Rat) : (scale k x).offsetMain = scale k x.offsetMain := rfl
@[scale_simp] theorem scale_fi_mk (k : Rat) (a0 : Rat) (a1 : Rat) (a2 : Rat) (a3 : Rat) (a4 : Rat) (a5 : Option Rat) (a6 : Rat) (a7 : Rat) (a8 : Rat) (a9 : Rat) (a10 : Bool) (a11 : Bool) (a12 : Option Rat) (a13 : Option Rat) (a14 : Bool) (a15 : Rat) (a16 : Rat) (a17 : Rat) (a18 : Rat) :
    scale k (FlexItemM.mk a0 a1 a2 a3 a4 a5 a6 a7 a8 a9 a10 a11 a12 a13 a14 a15 a16 a17 a18 : FlexItemM Rat) = ⟨scale k a0, scale k a1, scale k a2, scale k a3, scale k a4, scale k a5, a6, a7, scale k a8, scale k a9, a10, a11, scale k a12, scale k a13, a14, scale k a15, scale k a16, scale k a17, scale k a18⟩ := rfl

instance : Scalable (RflCtx Rat) :=
  ⟨fun k x => ⟨scale k x.innerMain, scale k x.gapTotal, scale k x.uff, x.growing, x.shrinking, scale k x.initialFree⟩⟩

@[scale_simp] theorem rc_innerMain (k : Rat) (x : RflCtx Rat) : (scale k x).innerMain = scale k x.innerMain := rfl
@[scale_simp] theorem rc_gapTotal (k : Rat) (x : RflCtx Rat) : (scale k x).gapTotal = scale k x.gapTotal := rfl
@[scale_simp] theorem rc_uff (k : Rat) (x : RflCtx Rat) : (scale k x).uff = scale k x.uff := rfl
@[scale_simp] theorem rc_growing (k : Rat) (x : RflCtx Rat) : (scale k x).growing = x.growing := rfl
@[scale_simp] theorem rc_shrinking (k : Rat) (x : RflCtx Rat) : (scale k x).shrinking = x.shrinking := rfl
@[scale_simp] theorem rc_initialFree (k : Rat) (x : RflCtx Rat) : (scale k x).initialFree = scale k x.initialFree := rfl
@[scale_simp] theorem scale_rc_mk (k : Rat) (a0 : Option Rat) (a1 : Rat) (a2 : Rat) (a3 : Bool) (a4 : Bool) (a5 : Rat) :
    scale k (RflCtx.mk a0 a1 a2 a3 a4 a5 : RflCtx Rat) = ⟨scale k a0, scale k a1, scale k a2, a3, a4, scale k a5⟩ := rfl


/-- `Dist.grow free sum`: `sum` is a sum of flex-grow factors (not scaled); `Dist.shrink free sumScaled`: `sumScaled` is a
sum of `inner_flex_basis · flex_shrink` (scaled) -/
instance : Scalable (Dist Rat) :=
  ⟨fun k d => match d with
    | .keep => .keep
    | .grow f s => .grow (scale k f) s
    | .shrink f s => .shrink (scale k f) (scale k s)⟩

@[scale_simp] theorem scale_dist_keep (k : Rat) : scale k (Dist.keep : Dist Rat) = .keep := rfl
@[scale_simp] theorem scale_dist_grow (k f s : Rat) : scale k (Dist.grow f s) = .grow (scale k f) s := rfl
@[scale_simp] theorem scale_dist_shrink (k f s : Rat) : scale k (Dist.shrink f s) = .shrink (scale k f) (scale k s) := rfl

variable {k : Rat}

/-! ### sums -/

theorem foldl_add_scale (k : Rat) (l : List Rat) (a : Rat) :
    List.foldl (· + ·) (scale k a) (scale k l) = scale k (List.foldl (· + ·) a l) := by
  induction l generalizing a with
  | nil => rfl
  | cons x xs ih => simp only [scale_cons, List.foldl_cons, add_scale, ih]

@[scale_simp] theorem sumF_scale (k : Rat) (l : List Rat) : sumF (scale k l) = scale k (sumF l) := by
  unfold sumF
  have h : -(0 : Rat) = scale k (-(0 : Rat)) := by simp only [neg_zero, scale_zero]
  rw [h, foldl_add_scale]
  simp only [neg_zero, scale_zero]

@[scale_simp] theorem sumAxisGaps_scale (k : Rat) (gap : Rat) (n : Nat) :
    sumAxisGaps (scale k gap) n = scale k (sumAxisGaps gap n) := by
  simp only [sumAxisGaps, scale_simp]

@[scale_simp] theorem marginSum_scale (k : Rat) (c : FlexItemM Rat) : (scale k c).marginSum = scale k c.marginSum := by
  simp only [FlexItemM.marginSum, scale_simp]

/-- folding a dimensionless quantity (a flex factor) over scaled items -/
theorem foldl_factor_scale (k : Rat) (g : FlexItemM Rat → Rat) (h : ∀ c, g (scale k c) = g c)
    (l : List (FlexItemM Rat)) (a : Rat) :
    List.foldl (fun a c => a + g c) a (scale k l) = List.foldl (fun a c => a + g c) a l := by
  induction l generalizing a with
  | nil => rfl
  | cons x xs ih => simp only [scale_cons, List.foldl_cons, h, ih]

/-- folding a length over scaled items -/
theorem foldl_length_scale (k : Rat) (g : FlexItemM Rat → Rat) (h : ∀ c, g (scale k c) = scale k (g c))
    (l : List (FlexItemM Rat)) (a : Rat) :
    List.foldl (fun a c => a + g c) (scale k a) (scale k l) = scale k (List.foldl (fun a c => a + g c) a l) := by
  induction l generalizing a with
  | nil => rfl
  | cons x xs ih => simp only [scale_cons, List.foldl_cons, h, add_scale, ih]

/-! ### `resolve_flexible_lengths` -/

theorem initFreeze_scale (hk : 0 < k) (e g s : Bool) (c : FlexItemM Rat) :
    initFreeze e g s (scale k c) = scale k (initFreeze e g s c) := by
  simp only [initFreeze, FlexItemM.marginSum, scale_simp, hk]
  split <;> simp only [scale_fi_mk, scale_simp]

theorem usedSpace_scale (hk : 0 < k) (gapTotal : Rat) (items : List (FlexItemM Rat)) :
    usedSpace (scale k gapTotal) (scale k items) = scale k (usedSpace gapTotal items) := by
  unfold usedSpace
  rw [map_scale_comm k (fun c : FlexItemM Rat => if c.frozen then c.outerTargetMain else c.flexBasis + c.marginSum)]
  · simp only [scale_simp]
  · intro c
    simp only [scale_simp]

theorem freeSpace_scale (hk : 0 < k) (c : RflCtx Rat) (used sg ss : Rat) :
    freeSpace (scale k c) (scale k used) sg ss = scale k (freeSpace c used sg ss) := by
  simp only [freeSpace, scale_simp, hk]

theorem distTarget_scale (hk : 0 < k) (d : Dist Rat) (c : FlexItemM Rat) :
    distTarget (scale k d) (scale k c) = scale k (distTarget d c) := by
  cases d <;> simp only [distTarget, scale_simp, hk]

theorem clampMain_scale (hk : 0 < k) (c : FlexItemM Rat) (t : Rat) :
    clampMain (scale k c) (scale k t) = scale k (clampMain c t) := by
  simp only [clampMain, scale_simp, hk]

theorem clampItem_scale (hk : 0 < k) (c : FlexItemM Rat) (t : Rat) :
    clampItem (scale k c) (scale k t) = scale k (clampItem c t) := by
  simp only [clampItem, clampMain_scale hk, scale_fi_mk, scale_simp, hk]

theorem freezeItem_scale (hk : 0 < k) (total : Rat) (c : FlexItemM Rat) :
    freezeItem (scale k total) (scale k c) = scale k (freezeItem total c) := by
  simp only [freezeItem, scale_simp, hk]
  split
  · simp only [scale_fi_mk, scale_simp]
  · split <;> simp only [scale_fi_mk, scale_simp]

theorem isNormal_scale (hk : 0 < k) (x : Rat) : NumX.isNormal (scale k x) = NumX.isNormal x := by
  show decide (scale k x ≠ 0) = decide (x ≠ 0)
  simp only [ne_eq, scale_eq_zero hk]

theorem chooseDist_scale (hk : 0 < k) (c : RflCtx Rat) (unfrozen : List (FlexItemM Rat)) (free sg ss : Rat) :
    chooseDist (scale k c) (scale k unfrozen) (scale k free) sg ss = scale k (chooseDist c unfrozen free sg ss) := by
  unfold chooseDist
  rw [isNormal_scale hk, map_scale_comm k (fun c : FlexItemM Rat => c.innerFlexBasis * c.flexShrink)]
  · simp only [scale_simp, hk]
    split
    · split
      · rfl
      · split
        · split <;> rfl
        · rfl
    · rfl
  · intro c
    simp only [scale_simp]

theorem foldl_length_scale_zero (k : Rat) (g : FlexItemM Rat → Rat) (h : ∀ c, g (scale k c) = scale k (g c))
    (l : List (FlexItemM Rat)) :
    List.foldl (fun a c => a + g c) 0 (scale k l) = scale k (List.foldl (fun a c => a + g c) 0 l) := by
  have := foldl_length_scale k g h l 0
  rwa [scale_zero] at this

theorem iter_scale (hk : 0 < k) (c : RflCtx Rat) (items : List (FlexItemM Rat)) :
    iter (scale k c) (scale k items) = scale k (iter c items) := by
  unfold iter
  dsimp only
  rw [rc_gapTotal, usedSpace_scale hk, filter_scale k (fun c : FlexItemM Rat => !c.frozen) (fun _ => rfl) items,
    foldl_factor_scale k (fun c => c.flexGrow) (fun _ => rfl),
    foldl_factor_scale k (fun c => c.flexShrink) (fun _ => rfl), freeSpace_scale hk, chooseDist_scale hk]
  generalize chooseDist c _ _ _ _ = d
  rw [map_scale_comm k (fun c : FlexItemM Rat => if c.frozen then c else clampItem c (distTarget d c))]
  · generalize List.map _ items = items1
    rw [filter_scale k (fun c : FlexItemM Rat => !c.frozen) (fun _ => rfl) items1,
      foldl_length_scale_zero k (fun c => c.violation) (fun _ => rfl)]
    generalize List.foldl (fun (a : Rat) (c : FlexItemM Rat) => a + c.violation) 0 _ = total
    rw [map_scale_comm k (fun c : FlexItemM Rat => if c.frozen then c else freezeItem total c)]
    intro x
    simp only [fi_frozen, freezeItem_scale hk]
    split <;> rfl
  · intro x
    simp only [fi_frozen, distTarget_scale hk, clampItem_scale hk]
    split <;> rfl

theorem loop_scale (hk : 0 < k) (c : RflCtx Rat) : ∀ (fuel : Nat) (items : List (FlexItemM Rat)),
    loop (scale k c) fuel (scale k items) = scale k (loop c fuel items)
  | fuel, items => by
    conv_lhs => rw [loop.eq_def]
    conv_rhs => rw [loop.eq_def]
    dsimp only
    rw [all_scale k (fun c : FlexItemM Rat => c.frozen) (fun _ => rfl)]
    split
    · rfl
    · cases fuel with
      | zero => rfl
      | succ n =>
        simp only []
        rw [iter_scale hk, loop_scale hk c n]

/-- **flex line, step 1**: `resolve_flexible_lengths` is homogeneous (every item field that is a length, the
container's inner main size and the gap scaled; flex factors unchanged) -/
theorem resolveFlexibleLengths_scale (hk : 0 < k) (items : List (FlexItemM Rat)) (innerMain : Option Rat) (gap : Rat)
    (fuel : Nat) :
    resolveFlexibleLengths (scale k items) (scale k innerMain) (scale k gap) fuel =
      scale k (resolveFlexibleLengths items innerMain gap fuel) := by
  unfold resolveFlexibleLengths
  dsimp only
  have hlen : (scale k items).length = items.length := by simp only [scale_list, List.length_map]
  rw [hlen, sumAxisGaps_scale, map_scale_comm k (fun c : FlexItemM Rat => c.hypOuter) _ (fun _ => rfl), sumF_scale,
    add_scale, getD_scale_zero, flt_scale hk, fgt_scale hk]
  generalize Num.flt (α := Rat) _ _ = growing
  generalize Num.fgt (α := Rat) _ _ = shrinking
  rw [map_scale_comm k (initFreeze (!growing && !shrinking) growing shrinking) _ (initFreeze_scale hk _ _ _)]
  split
  · rfl
  · rw [usedSpace_scale hk, of_sub_scale hk, getD_scale_zero]
    exact loop_scale hk ⟨innerMain, _, _, growing, shrinking, _⟩ fuel _

/-! ### alignment and `distribute_remaining_free_space` -/

theorem applyAlignmentFallback_scale (hk : 0 < k) (free : Rat) (n : Nat) (mode : AlignContent) (isSafe : Bool) :
    applyAlignmentFallback (scale k free) n mode isSafe = applyAlignmentFallback free n mode isSafe := by
  simp only [applyAlignmentFallback, scale_simp, hk]

theorem computeAlignmentOffset_scale (hk : 0 < k) (free : Rat) (n : Nat) (gap : Rat) (mode : AlignContent)
    (reversed isFirst : Bool) :
    computeAlignmentOffset (scale k free) n (scale k gap) mode reversed isFirst =
      scale k (computeAlignmentOffset free n gap mode reversed isFirst) := by
  cases isFirst <;> cases mode <;>
    simp only [computeAlignmentOffset, scale_simp, hk, Bool.false_eq_true, if_false, if_true]

theorem justifyForward_scale (k : Rat) (f f' : Bool → Rat) (h : ∀ b, f' b = scale k (f b)) (items : List (FlexItemM Rat)) :
    justifyForward f' (scale k items) = scale k (justifyForward f items) := by
  cases items with
  | nil => rfl
  | cons c rest =>
    simp only [scale_cons, justifyForward, h, scale_fi_mk, scale_simp]
    congr 1
    rw [map_scale_comm k (fun c : FlexItemM Rat => { c with offsetMain := f false })]
    intro x
    simp only [scale_fi_mk, scale_simp]

theorem numAuto_foldl_scale (k : Rat) (items : List (FlexItemM Rat)) (a : Nat) :
    List.foldl (fun (n : Nat) (c : FlexItemM Rat) =>
        n + (if c.marginStartAuto then 1 else 0) + (if c.marginEndAuto then 1 else 0)) a (scale k items) =
      List.foldl (fun (n : Nat) (c : FlexItemM Rat) =>
        n + (if c.marginStartAuto then 1 else 0) + (if c.marginEndAuto then 1 else 0)) a items := by
  induction items generalizing a with
  | nil => rfl
  | cons x xs ih => simp only [scale_cons, List.foldl_cons, fi_marginStartAuto, fi_marginEndAuto, ih]

theorem numAutoMargins_scale (k : Rat) (items : List (FlexItemM Rat)) :
    numAutoMargins (scale k items) = numAutoMargins items :=
  numAuto_foldl_scale k items 0

/-- **flex line, step 2**: `distribute_remaining_free_space` is homogeneous -/
theorem distributeRemainingFreeSpace_scale (hk : 0 < k) (items : List (FlexItemM Rat)) (innerContainerMain gap : Rat)
    (jc : Option AlignContent) (dir : FlexDirection) :
    distributeRemainingFreeSpace (scale k items) (scale k innerContainerMain) (scale k gap) jc dir =
      scale k (distributeRemainingFreeSpace items innerContainerMain gap jc dir) := by
  unfold distributeRemainingFreeSpace
  dsimp only
  have hlen : (scale k items).length = items.length := by simp only [scale_list, List.length_map]
  rw [hlen, sumAxisGaps_scale, map_scale_comm k (fun c : FlexItemM Rat => c.outerTargetMain) _ (fun _ => rfl),
    sumF_scale, add_scale, sub_scale, numAutoMargins_scale, fgt_scale_zero hk, applyAlignmentFallback_scale hk]
  generalize innerContainerMain - _ = free
  split
  · rw [div_scale,
      map_scale_comm k (fun c : FlexItemM Rat =>
        { c with marginStart := if c.marginStartAuto then free / Num.ofNat (numAutoMargins items) else c.marginStart,
                 marginEnd := if c.marginEndAuto then free / Num.ofNat (numAutoMargins items) else c.marginEnd })]
    intro x
    simp only [scale_fi_mk, scale_simp]
  · split
    · rw [reverse_scale,
        justifyForward_scale k (fun b => computeAlignmentOffset free items.length gap
          (applyAlignmentFallback free items.length (jc.getD .flexStart) false) dir.isReverse b) _
          (fun b => computeAlignmentOffset_scale hk _ _ _ _ _ b),
        reverse_scale]
    · rw [justifyForward_scale k (fun b => computeAlignmentOffset free items.length gap
          (applyAlignmentFallback free items.length (jc.getD .flexStart) false) dir.isReverse b) _
          (fun b => computeAlignmentOffset_scale hk _ _ _ _ _ b)]

/-! ### main-axis positions -/

theorem posStep_scale (k : Rat) (total : Rat) (c : FlexItemM Rat) (size : Rat) :
    posStep (scale k total) (scale k c) (scale k size) = scale k (posStep total c size) := by
  obtain ⟨fb, ifb, hi, ho, rmm, mm, fg, fs, ms, me, msa, mea, is, ie, fr, v, tm, otm, om⟩ := c
  cases is <;> cases ie <;>
    simp only [posStep, FlexItemM.marginSum, scale_fi_mk, scale_simp, Option.map_none, Option.map_some, Option.none_or,
      Option.some_or, Option.getD_none, Option.getD_some]

theorem posGo_scale (k : Rat) : ∀ (zs : List (FlexItemM Rat × Rat)) (total : Rat),
    posGo (scale k total) (scale k zs) = scale k (posGo total zs)
  | [], _ => rfl
  | (c, s) :: rest, total => by
    simp only [scale_cons, scale_pair, posGo, posStep_scale, scale_fst, scale_snd, posGo_scale k rest]

/-- **flex line, step 3**: the main-axis positions are homogeneous -/
theorem mainAxisPositions_scale (k : Rat) (zs : List (FlexItemM Rat × Rat)) (start : Rat) (dir : FlexDirection) :
    mainAxisPositions (scale k zs) (scale k start) dir = scale k (mainAxisPositions zs start dir) := by
  unfold mainAxisPositions
  split
  · rw [reverse_scale, posGo_scale, reverse_scale]
  · rw [posGo_scale]

end C04
