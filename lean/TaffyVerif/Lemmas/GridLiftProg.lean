/-
  The whole grid program (`GridModel.computeGridLayoutE`, Model/Grid.lean) with an OBSERVATION POINT: the state right after
  `align_tracks` (step 8), i.e. the track vectors the item-positioning loop (step 9) uses — `FinalGrid`.

    computeGridLayoutG tsa style cs inputs k early
        the program up to that point, handing the `FinalGrid` to `k` (and an early ComputeSize result to `early`);
        `tsa` is the track sizing algorithm (the model's, or the kernel-evaluable `trackSizingAlgorithmMK`)
    gridFinish c cs f
        step 9 and the output, from the `FinalGrid` on
    computeGridLayoutE_eq_G : computeGridLayoutE style cs inputs
                               = computeGridLayoutG trackSizingAlgorithmM style cs inputs (gridFinish …) pure      (rfl)
    gridFinalM style cs inputs : GM α (LayoutOutput α ⊕ FinalGrid α)
        = computeGridLayoutG … with the two continuations that just return what they are given

  `reaches_final` (exact rationals): on EVERY run — every sequence of answers of the children — the `FinalGrid` handed over
  satisfies `FinalOK`: track shapes as initialised, fixed tracks exact, the items are the setup's, and the last run of each
  axis refines the pure algorithm.
-/
import TaffyVerif.Lemmas.GridLiftSetup
import TaffyVerif.Lemmas.EvalGridSort

set_option linter.unusedSectionVars false
set_option linter.unusedVariables false

namespace GridLift
open GridModel GridTracks EvalGrid EvalBlock

section defs
variable {α : Type} [Num α] [NumCast α]

/-- the state at the observation point: tracks after `align_tracks`, the items as step 7 leaves them -/
structure FinalGrid (α : Type) where
  columns : List (GridTrack α)
  rows : List (GridTrack α)
  items : List (GItem α)
  colCounts : GridPlacement.TrackCounts
  rowCounts : GridPlacement.TrackCounts
  containerBorderBox : Size α

/-- step 9 and the output -/
def gridFinish (c : Ctx α) (childStyles : List (GridChildStyle α)) (f : FinalGrid α) : GM α (LayoutOutput α) := do
  let items := f.items.mergeSort fun a b => decide (a.sourceOrder ≤ b.sourceOrder)
  let (items, itemContentSize) ← positionItems childStyles f.rows f.columns c.justifyItems c.alignItems items 0 Size.zero
  let itemContentSize ← hiddenAbsLoop c f.containerBorderBox f.rows f.columns f.colCounts f.rowCounts childStyles 0
    items.length itemContentSize
  if items.isEmpty then pure (LayoutOutput.fromOuterSize f.containerBorderBox) else
  pure (LayoutOutput.fromSizesAndBaselines f.containerBorderBox itemContentSize
    ⟨none, some (gridContainerBaseline items)⟩)

/-- step 8 -/
def gridTailG {β : Type} (c : Ctx α) (bb cb : Size α) (cc rc : GridPlacement.TrackCounts)
    (columns rows : List (GridTrack α)) (items : List (GItem α)) (k : FinalGrid α → GM α β) : GM α β :=
  k { columns := alignTracks cb.width c.padding.left c.border.left columns c.justifyContent,
      rows := alignTracks cb.height c.padding.top c.border.top rows c.alignContent,
      items, colCounts := cc, rowCounts := rc, containerBorderBox := bb }

/-- step 7: the re-runs, with the track sizing algorithm as a parameter -/
def step7MidG (tsa : RunArgs α → RunState α → GM α (RunState α)) (availableSpace : Size (AvailableSpace α))
    (colArgs rowArgs : RunArgs α) (innerNodeSize : Size (Option α)) (columns rows : List (GridTrack α))
    (rerunColumnSizing : Bool) (items : List (GItem α)) :
    GM α (List (GridTrack α) × List (GridTrack α) × List (GItem α)) :=
  if rerunColumnSizing then do
    let st ← tsa { colArgs with innerNodeSize, est := .baseSize } { axisTracks := columns, otherAxisTracks := rows, items }
    let columns := st.axisTracks
    let rows := st.otherAxisTracks
    let items := st.items
    let hasPercentageRow := rows.any (·.usesPercentage)
    let parentHeightIndefinite := !availableSpace.height.isDefinite
    let rerunRowSizing0 := parentHeightIndefinite && hasPercentageRow
    let (rerunRowSizing, items) ← step7Prep .blk rerunRowSizing0 columns innerNodeSize items
    if rerunRowSizing then do
      let st ← tsa { rowArgs with innerNodeSize } { axisTracks := rows, otherAxisTracks := columns, items }
      pure (st.otherAxisTracks, st.axisTracks, st.items)
    else pure (columns, rows, items)
  else pure (columns, rows, items)

/-- step 7 -/
def gridStep7G {β : Type} (tsa : RunArgs α → RunState α → GM α (RunState α)) (c : Ctx α)
    (availableSpace : Size (AvailableSpace α)) (colArgs rowArgs : RunArgs α) (innerNodeSize : Size (Option α))
    (bb cb : Size α) (cc rc : GridPlacement.TrackCounts) (columns rows : List (GridTrack α)) (items : List (GItem α))
    (k : FinalGrid α → GM α β) : GM α β := do
  let columns := if !c.availableGridSpace.width.isDefinite then reresolvePercentTracks cb.width columns else columns
  let rows := if !c.availableGridSpace.height.isDefinite then reresolvePercentTracks cb.height rows else rows
  let hasPercentageColumn := columns.any (·.usesPercentage)
  let parentWidthIndefinite := !availableSpace.width.isDefinite
  let rerunColumnSizing0 := parentWidthIndefinite && hasPercentageColumn
  let (rerunColumnSizing, items) ← step7Prep .inl rerunColumnSizing0 rows innerNodeSize items
  let (columns, rows, items) ←
    step7MidG tsa availableSpace colArgs rowArgs innerNodeSize columns rows rerunColumnSizing items
  gridTailG c bb cb cc rc columns rows items k

/-- step 6 and the container size -/
def gridMainG {β : Type} (tsa : RunArgs α → RunState α → GM α (RunState α)) (style : GridStyle α)
    (inputs : LayoutInput α) (su : Setup α) (k : FinalGrid α → GM α β) (early : LayoutOutput α → GM α β) : GM α β := do
  let c := mkCtx style.base inputs
  let hasBaselineAlignedItem := su.items.any fun it => it.alignSelf == .baseline
  let innerNodeSize := c.innerNodeSize
  let colArgs : RunArgs α := colArgsOf c hasBaselineAlignedItem
  let st ← tsa colArgs { axisTracks := su.columns, otherAxisTracks := su.rows, items := su.items }
  let columns := st.axisTracks
  let rows := st.otherAxisTracks
  let items := st.items
  let initialColumnSum : α := sumF (columns.map (·.baseSize))
  let innerNodeSize : Size (Option α) := { innerNodeSize with width := innerNodeSize.width.or (some initialColumnSum) }
  let items := items.map fun it => { it with availableSpaceCache := none }
  let rowArgs : RunArgs α := rowArgsOf c innerNodeSize
  let st ← tsa rowArgs { axisTracks := rows, otherAxisTracks := columns, items }
  let rows := st.axisTracks
  let columns := st.otherAxisTracks
  let items := st.items
  let initialRowSum : α := sumF (rows.map (·.baseSize))
  let innerNodeSize : Size (Option α) := { innerNodeSize with height := innerNodeSize.height.or (some initialRowSum) }
  let resolvedStyleSize := inputs.knownDimensions.orOpt c.preferredSize
  let containerBorderBox : Size α :=
    ⟨Num.fmax (MaybeMath.fo_clamp (resolvedStyleSize.width.getD (initialColumnSum + c.contentBoxInset.horizontalAxisSum))
        c.minSize.width c.maxSize.width) c.paddingBorderSize.width,
     Num.fmax (MaybeMath.fo_clamp (resolvedStyleSize.height.getD (initialRowSum + c.contentBoxInset.verticalAxisSum))
        c.minSize.height c.maxSize.height) c.paddingBorderSize.height⟩
  let containerContentBox : Size α :=
    ⟨Num.fmax 0 (containerBorderBox.width - c.contentBoxInset.horizontalAxisSum),
     Num.fmax 0 (containerBorderBox.height - c.contentBoxInset.verticalAxisSum)⟩
  if inputs.runMode == .computeSize then early (LayoutOutput.fromOuterSize containerBorderBox) else
  gridStep7G tsa c inputs.availableSpace colArgs rowArgs innerNodeSize containerBorderBox containerContentBox
    su.finalColCounts su.finalRowCounts columns rows items k

/-- `compute_grid_layout` up to the observation point -/
def computeGridLayoutG {β : Type} (tsa : RunArgs α → RunState α → GM α (RunState α)) (style : GridStyle α)
    (childStyles : List (GridChildStyle α)) (inputs : LayoutInput α) (k : FinalGrid α → GM α β)
    (early : LayoutOutput α → GM α β) : GM α β :=
  let c := mkCtx style.base inputs
  match inputs.runMode, c.outerNodeSize.width, c.outerNodeSize.height with
  | .computeSize, some width, some height => early (LayoutOutput.fromOuterSize ⟨width, height⟩)
  | _, _, _ => gridSetupK style childStyles inputs fun su => gridMainG tsa style inputs su k early

/-- **the observation point lies on the program**: `compute_grid_layout` is the program up to the observation point
followed by step 9 -/
theorem computeGridLayoutE_eq_G (style : GridStyle α) (childStyles : List (GridChildStyle α)) (inputs : LayoutInput α) :
    computeGridLayoutE style childStyles inputs =
      computeGridLayoutG trackSizingAlgorithmM style childStyles inputs
        (gridFinish (mkCtx style.base inputs) childStyles) pure := rfl

/-- the program cut at the observation point: the early ComputeSize result, or the final grid -/
def gridFinalM (style : GridStyle α) (childStyles : List (GridChildStyle α)) (inputs : LayoutInput α) :
    GM α (LayoutOutput α ⊕ FinalGrid α) :=
  computeGridLayoutG trackSizingAlgorithmM style childStyles inputs (fun f => pure (.inr f)) (fun o => pure (.inl o))

/-- the same with the kernel-evaluable sorts (for `decide +kernel`) -/
def gridFinalMK (style : GridStyle α) (childStyles : List (GridChildStyle α)) (inputs : LayoutInput α) :
    GM α (LayoutOutput α ⊕ FinalGrid α) :=
  computeGridLayoutG trackSizingAlgorithmMK style childStyles inputs (fun f => pure (.inr f)) (fun o => pure (.inl o))

theorem gridFinalM_eq_K (style : GridStyle α) (childStyles : List (GridChildStyle α)) (inputs : LayoutInput α) :
    gridFinalM style childStyles inputs = gridFinalMK style childStyles inputs := by
  have : (trackSizingAlgorithmM : RunArgs α → RunState α → GM α (RunState α)) = trackSizingAlgorithmMK :=
    funext fun a => funext fun st => trackSizingAlgorithmM_eq a st
  unfold gridFinalM gridFinalMK
  rw [this]

/-- a property of the final grid, as a postcondition of the cut program -/
def onFinal (P : FinalGrid α → Prop) : LayoutOutput α ⊕ FinalGrid α → Prop
  | .inl _ => True
  | .inr f => P f

end defs

/-! ### the walk (exact rationals) -/

/-- the tracks of `T` have the shapes of some track vector `T0` and the base sizes that a run of the pure algorithm with
parameters `p` on `T0` produces -/
def LR (p : SizingParams Rat) (T : List (GridTrack Rat)) : Prop :=
  ∃ T0 items itemsX, (∀ I ∈ items, Item.Valid I) ∧
    T.map (·.baseSize) = (trackSizing2 p T0 items itemsX).map (·.baseSize) ∧ SS T0 T

theorem LR.qa {p : SizingParams Rat} {T T' : List (GridTrack Rat)} (h : LR p T) (hq : QA T T') : LR p T' := by
  obtain ⟨T0, items, itemsX, hv, e, hs⟩ := h
  exact ⟨T0, items, itemsX, hv, hq.baseSizes.trans e, hs.trans hq.ss⟩

theorem LR.of_refines {a : RunArgs Rat} {st st' : RunState Rat} (h : Refines a st st') :
    LR (paramsOf a) st'.axisTracks :=
  ⟨_, _, _, h.2, by rw [h.1], by rw [h.1]; exact trackSizing2_shape _ _ _ _ h.2⟩

/-- the parameters of a run of the inline axis -/
def ColP (c : Ctx Rat) (p : SizingParams Rat) : Prop :=
  p.axisMinSize = c.minSize.width ∧ p.axisMaxSize = c.maxSize.width ∧ p.stretch = (c.justifyContent == .stretch) ∧
  p.avail = c.availableGridSpace.width ∧ ∀ W, c.innerNodeSize.width = some W → p.axisInner = some W

/-- the parameters of a run of the block axis -/
def RowP (c : Ctx Rat) (p : SizingParams Rat) : Prop :=
  p.axisMinSize = c.minSize.height ∧ p.axisMaxSize = c.maxSize.height ∧ p.stretch = (c.alignContent == .stretch) ∧
  p.avail = c.availableGridSpace.height ∧ ∀ W, c.innerNodeSize.height = some W → p.axisInner = some W

/-- the invariant of the tracks and items from the end of step 6 on -/
structure TInv (su : Setup Rat) (c : Ctx Rat) (columns rows : List (GridTrack Rat)) (items : List (GItem Rat)) :
    Prop where
  ssC : SS su.columns columns
  ssR : SS su.rows rows
  fixC : ∀ t ∈ columns, Fix1 t
  fixR : ∀ t ∈ rows, Fix1 t
  fp : FP su.items items
  lrC : c.availableGridSpace.width.isDefinite = true → ∃ p, ColP c p ∧ LR p columns
  lrR : c.availableGridSpace.height.isDefinite = true → ∃ p, RowP c p ∧ LR p rows

/-- what holds of the final grid -/
structure FinalOK (su : Setup Rat) (c : Ctx Rat) (f : FinalGrid Rat) : Prop where
  inv : TInv su c f.columns f.rows f.items
  cc : f.colCounts = su.finalColCounts
  rc : f.rowCounts = su.finalRowCounts

theorem FP_mem {a b : List (GItem Rat)} (h : FP a b) (y : GItem Rat) (hy : y ∈ b) : ∃ x ∈ a, frame y = frame x := by
  have : frame y ∈ a.map frame := (List.Perm.mem_iff h).1 (List.mem_map_of_mem hy)
  obtain ⟨x, hx, e⟩ := List.mem_map.1 this
  exact ⟨x, hx, e.symm⟩

theorem good_of {ax : Ax} {n : Int} {T0 T : List (GridTrack Rat)} {a b : List (GItem Rat)}
    (hsu : ∀ it ∈ a, GoodItem ax n T0 it) (hfp : FP a b) (hss : SS T0 T) : ∀ it ∈ b, GoodItem ax n T it := by
  intro y hy
  obtain ⟨x, hx, e⟩ := FP_mem hfp y hy
  exact ((hsu x hx).frame e).tracks hss.fns

theorem FP_clearAvail (items : List (GItem Rat)) :
    FP items (items.map fun it => { it with availableSpaceCache := none }) := by
  unfold FP
  rw [List.map_map]
  exact List.Perm.refl _

theorem step7Prep_fp (ax : Ax) (rerun0 : Bool) (tracks : List (GridTrack Rat)) (inner : Size (Option Rat))
    (items : List (GItem Rat)) : GPost (fun r => FP items r.2) (step7Prep ax rerun0 tracks inner items) :=
  GPost_mono _ _ _ (fun r hr => hr.fp) (Op_GPost _ _ _ _ _ _ (LOp_step7Prep ax rerun0 tracks inner items))

/-- the facts about the setup that the walk needs -/
structure SuGood (su : Setup Rat) (nC nR : Int) : Prop where
  goodC : ∀ it ∈ su.items, GoodItem .inl nC su.columns it
  goodR : ∀ it ∈ su.items, GoodItem .blk nR su.rows it
  freshC : ∀ t ∈ su.columns, Fresh t
  freshR : ∀ t ∈ su.rows, Fresh t

theorem step7MidG_spec (su : Setup Rat) (nC nR : Int) (hsu : SuGood su nC nR) (c : Ctx Rat)
    (availableSpace : Size (AvailableSpace Rat)) (hb : Bool) (inner1 inner : Size (Option Rat))
    (hiw : ∀ W, c.innerNodeSize.width = some W → inner.width = some W)
    (hih : ∀ W, c.innerNodeSize.height = some W → inner.height = some W)
    (columns rows : List (GridTrack Rat)) (rerun : Bool) (items : List (GItem Rat))
    (hinv : TInv su c columns rows items) :
    GPost (fun r => TInv su c r.1 r.2.1 r.2.2)
      (step7MidG trackSizingAlgorithmM availableSpace (colArgsOf c hb) (rowArgsOf c inner1) inner columns rows rerun
        items) := by
  unfold step7MidG
  split
  · -- the inline-axis re-run
    refine GPost_bind _ _ _ _ (run_spec { colArgsOf c hb with innerNodeSize := inner, est := .baseSize }
      { axisTracks := columns, otherAxisTracks := rows, items } nC su.columns
      (good_of hsu.goodC hinv.fp hinv.ssC) hinv.ssC (fun t ht => (hinv.fixC t ht).rest)) fun st h1 => ?_
    obtain ⟨s1, f1, q1, p1, r1⟩ := h1
    simp only [] at s1 f1 q1 p1 r1 ⊢
    have hfp1 : FP su.items st.items := hinv.fp.trans p1
    have hlrC : c.availableGridSpace.width.isDefinite = true → ∃ p, ColP c p ∧ LR p st.axisTracks := fun _ =>
      ⟨_, ⟨rfl, rfl, rfl, rfl, fun W hW => hiw W hW⟩, LR.of_refines r1⟩
    have hlrR1 : c.availableGridSpace.height.isDefinite = true → ∃ p, RowP c p ∧ LR p st.otherAxisTracks :=
      fun hd => by
        obtain ⟨p, hp, hl⟩ := hinv.lrR hd
        exact ⟨p, hp, hl.qa q1⟩
    refine GPost_bind _ _ _ _ (step7Prep_fp .blk _ st.axisTracks inner st.items) fun ⟨rr, items5⟩ h5 => ?_
    simp only [] at h5 ⊢
    have hfp5 : FP su.items items5 := hfp1.trans h5
    split
    · refine GPost_bind _ _ _ _ (run_spec { rowArgsOf c inner1 with innerNodeSize := inner }
        { axisTracks := st.otherAxisTracks, otherAxisTracks := st.axisTracks, items := items5 } nR su.rows
        (good_of hsu.goodR hfp5 (hinv.ssR.trans q1.ss)) (hinv.ssR.trans q1.ss)
        (fun t ht => (q1.fix1 hinv.fixR t ht).rest)) fun st2 h2 => ?_
      obtain ⟨s2, f2, q2, p2, r2⟩ := h2
      simp only [] at s2 f2 q2 p2 r2 ⊢
      refine GPost_pure _ _ ⟨s1.trans q2.ss, s2, q2.fix1 f1, f2, hfp5.trans p2, ?_, ?_⟩
      · intro hd
        obtain ⟨p, hp, hl⟩ := hlrC hd
        exact ⟨p, hp, hl.qa q2⟩
      · intro _
        exact ⟨_, ⟨rfl, rfl, rfl, rfl, fun W hW => hih W hW⟩, LR.of_refines r2⟩
    · exact GPost_pure _ _ ⟨s1, hinv.ssR.trans q1.ss, f1, q1.fix1 hinv.fixR, hfp5, hlrC, hlrR1⟩
  · exact GPost_pure _ _ hinv

theorem gridStep7G_spec {β : Type} (R : β → Prop) (su : Setup Rat) (nC nR : Int) (hsu : SuGood su nC nR) (c : Ctx Rat)
    (availableSpace : Size (AvailableSpace Rat)) (hb : Bool) (inner1 inner : Size (Option Rat))
    (hiw : ∀ W, c.innerNodeSize.width = some W → inner.width = some W)
    (hih : ∀ W, c.innerNodeSize.height = some W → inner.height = some W)
    (bb cb : Size Rat) (columns rows : List (GridTrack Rat)) (items : List (GItem Rat))
    (hinv : TInv su c columns rows items) (k : FinalGrid Rat → GM Rat β)
    (hk : ∀ f, FinalOK su c f → GPost R (k f)) :
    GPost R (gridStep7G trackSizingAlgorithmM c availableSpace (colArgsOf c hb) (rowArgsOf c inner1) inner bb cb
      su.finalColCounts su.finalRowCounts columns rows items k) := by
  unfold gridStep7G
  simp only []
  -- the re-resolution of percentage tracks
  have hinv' : ∀ its, FP items its → TInv su c
      (if (!c.availableGridSpace.width.isDefinite) = true then reresolvePercentTracks cb.width columns else columns)
      (if (!c.availableGridSpace.height.isDefinite) = true then reresolvePercentTracks cb.height rows else rows)
      its := by
    intro its hits
    refine ⟨?_, ?_, ?_, ?_, hinv.fp.trans hits, ?_, ?_⟩
    · split
      · exact hinv.ssC.trans (reresolve_ss _ _)
      · exact hinv.ssC
    · split
      · exact hinv.ssR.trans (reresolve_ss _ _)
      · exact hinv.ssR
    · split
      · exact reresolve_fix1 _ _ hinv.fixC
      · exact hinv.fixC
    · split
      · exact reresolve_fix1 _ _ hinv.fixR
      · exact hinv.fixR
    · intro hd
      rw [hd]
      exact hinv.lrC hd
    · intro hd
      rw [hd]
      exact hinv.lrR hd
  refine GPost_bind _ _ _ _ (step7Prep_fp .inl _ _ inner items) fun ⟨rerun, items3⟩ h3 => ?_
  simp only [] at h3 ⊢
  refine GPost_bind _ _ _ _ (step7MidG_spec su nC nR hsu c availableSpace hb inner1 inner hiw hih _ _ rerun items3
    (hinv' items3 h3)) fun ⟨columns', rows', items'⟩ h4 => ?_
  simp only [] at h4 ⊢
  unfold gridTailG
  refine hk _ ⟨⟨?_, ?_, ?_, ?_, h4.fp, ?_, ?_⟩, rfl, rfl⟩
  · exact h4.ssC.trans (QA_alignTracks _ _ _ _ _).ss
  · exact h4.ssR.trans (QA_alignTracks _ _ _ _ _).ss
  · exact (QA_alignTracks _ _ _ _ _).fix1 h4.fixC
  · exact (QA_alignTracks _ _ _ _ _).fix1 h4.fixR
  · intro hd
    obtain ⟨p, hp, hl⟩ := h4.lrC hd
    exact ⟨p, hp, hl.qa (QA_alignTracks _ _ _ _ _)⟩
  · intro hd
    obtain ⟨p, hp, hl⟩ := h4.lrR hd
    exact ⟨p, hp, hl.qa (QA_alignTracks _ _ _ _ _)⟩

theorem gridMainG_spec {β : Type} (R : β → Prop) (style : GridStyle Rat) (inputs : LayoutInput Rat) (su : Setup Rat)
    (nC nR : Int) (hsu : SuGood su nC nR) (k : FinalGrid Rat → GM Rat β) (early : LayoutOutput Rat → GM Rat β)
    (hk : ∀ f, FinalOK su (mkCtx style.base inputs) f → GPost R (k f)) (he : ∀ o, GPost R (early o)) :
    GPost R (gridMainG trackSizingAlgorithmM style inputs su k early) := by
  unfold gridMainG
  simp only []
  -- the first run of the inline axis
  refine GPost_bind _ _ _ _ (run_spec (colArgsOf (mkCtx style.base inputs) (su.items.any fun it => it.alignSelf == .baseline))
    { axisTracks := su.columns, otherAxisTracks := su.rows, items := su.items } nC su.columns hsu.goodC (SS.refl _)
    (fun t ht => (hsu.freshC t ht).rest)) fun st h1 => ?_
  obtain ⟨s1, f1, q1, p1, r1⟩ := h1
  simp only [] at s1 f1 q1 p1 r1 ⊢
  have hfp1 : FP su.items (st.items.map fun it => { it with availableSpaceCache := none }) :=
    FP.trans p1 (FP_clearAvail _)
  -- the first run of the block axis
  refine GPost_bind _ _ _ _ (run_spec (rowArgsOf (mkCtx style.base inputs)
      { (mkCtx style.base inputs).innerNodeSize with
        width := (mkCtx style.base inputs).innerNodeSize.width.or (some (sumF (st.axisTracks.map (·.baseSize)))) })
    { axisTracks := st.otherAxisTracks, otherAxisTracks := st.axisTracks,
      items := st.items.map fun it => { it with availableSpaceCache := none } } nR su.rows
    (good_of hsu.goodR hfp1 q1.ss) q1.ss (fun t ht => q1.rest1 (fun t ht => (hsu.freshR t ht).rest) t ht))
    fun st2 h2 => ?_
  obtain ⟨s2, f2, q2, p2, r2⟩ := h2
  simp only [] at s2 f2 q2 p2 r2 ⊢
  split
  · exact he _
  · refine gridStep7G_spec R su nC nR hsu _ _ _ _ _ ?_ ?_ _ _ _ _ _ ?_ k hk
    · intro W hW
      show ((mkCtx style.base inputs).innerNodeSize.width.or _) = some W
      rw [hW]; rfl
    · intro W hW
      show ((mkCtx style.base inputs).innerNodeSize.height.or _) = some W
      rw [hW]; rfl
    · refine ⟨s1.trans q2.ss, s2, q2.fix1 f1, f2, hfp1.trans p2, ?_, ?_⟩
      · intro _
        exact ⟨_, ⟨rfl, rfl, rfl, rfl, fun W hW => hW⟩, (LR.of_refines r1).qa q2⟩
      · intro _
        exact ⟨_, ⟨rfl, rfl, rfl, rfl, fun W hW => hW⟩, LR.of_refines r2⟩

/-- what the placement invariants say of the recorded areas -/
theorem placed_nonempty {fuel : Nat} {m : GridPlacement.Matrix} {children : List (Nat × GridPlacement.Child)}
    {flow : GridPlacement.AutoFlow} {final : GridPlacement.State}
    (h : GridPlacement.placeGridItems fuel m children flow = .ok final) :
    ∀ p ∈ final.items, p.column.start < p.column.end ∧ p.row.start < p.row.end := by
  intro p hp
  obtain ⟨ch, oc, hfc, _, hc, hr⟩ := (GridPlacement.invB_final h).honoured p hp
  exact ⟨GridPlacement.axisOK_lt (GridPlacement.intoOriginZero_spec hfc.2.1).1 hc,
    GridPlacement.axisOK_lt (GridPlacement.intoOriginZero_spec hfc.2.2).1 hr⟩

theorem suGood_of_setup (style : GridStyle Rat) (cs : List (GridChildStyle Rat)) (inputs : LayoutInput Rat)
    (su : Setup Rat) (d : SetupData Rat) (h : SetupOK style cs inputs su d) :
    SuGood su d.placed.matrix.columns.negativeImplicit d.placed.matrix.rows.negativeImplicit := by
  have hg := setup_good style cs inputs su d h (placed_nonempty h.hplaced)
  exact ⟨fun it hit => (hg it hit).1, fun it hit => (hg it hit).2.1,
    fresh_initializeGridTracks _ _ _ _ _ _ h.hcols, fresh_initializeGridTracks _ _ _ _ _ _ h.hrows⟩

/-- the specification of the final grid of a run of `compute_grid_layout style cs inputs` -/
def FinalSpec (style : GridStyle Rat) (cs : List (GridChildStyle Rat)) (inputs : LayoutInput Rat)
    (f : FinalGrid Rat) : Prop :=
  ∃ su d, SetupOK style cs inputs su d ∧ FinalOK su (mkCtx style.base inputs) f

/-- **every run that reaches the observation point does so in a state satisfying `FinalSpec`** — for every continuation -/
theorem reaches_final {β : Type} (R : β → Prop) (style : GridStyle Rat) (cs : List (GridChildStyle Rat))
    (inputs : LayoutInput Rat) (k : FinalGrid Rat → GM Rat β) (early : LayoutOutput Rat → GM Rat β)
    (hk : ∀ f, FinalSpec style cs inputs f → GPost R (k f)) (he : ∀ o, GPost R (early o)) :
    GPost R (computeGridLayoutG trackSizingAlgorithmM style cs inputs k early) := by
  unfold computeGridLayoutG
  simp only []
  split
  · exact he _
  · rcases gridSetupK_cases2 style cs inputs with ⟨e, hth⟩ | ⟨su, d, hok, hks⟩
    · rw [hth]; exact GPost_throw _ _
    · rw [hks]
      exact gridMainG_spec R style inputs su _ _ (suGood_of_setup style cs inputs su d hok) k early
        (fun f hf => hk f ⟨su, d, hok, hf⟩) he

/-- … in particular for the cut program -/
theorem gridFinalM_spec (style : GridStyle Rat) (cs : List (GridChildStyle Rat)) (inputs : LayoutInput Rat) :
    GPost (onFinal (FinalSpec style cs inputs)) (gridFinalM style cs inputs) :=
  reaches_final _ style cs inputs _ _ (fun f hf => GPost_pure _ _ hf) (fun o => GPost_pure _ _ trivial)

end GridLift
