/-
  The track sizing algorithm as an interaction program (Model/GridSizing.lean = track_sizing.rs) under the program
  predicates of Lemmas/EvalGrid.lean: one run of `track_sizing_algorithm` in axis `ax`
    * never assigns a layout,
    * makes at most  (number of EMPTY min- and max-content caches of the items in axis `ax`)  contribution calls
      + one baseline call per item if `has_baseline_aligned_item`,
    * returns the same items up to order (same `frame`s), with the caches of the OTHER axis untouched.
  (`LOp` = items position by position, `POp` = up to a permutation.)
-/
import TaffyVerif.Lemmas.EvalGridItem

set_option linter.unusedSectionVars false
set_option linter.unusedVariables false

namespace EvalGrid
open GridModel GridTracks EvalBlock
variable {α : Type} [Num α]

/-! ### lists of items -/

/-- number of empty contribution caches of the items in axis `ax` -/
def potA (ax : Ax) (items : List (GItem α)) : Nat := (items.map (pot ax)).sum

theorem potA_nil (ax : Ax) : potA ax ([] : List (GItem α)) = 0 := rfl
theorem potA_cons (ax : Ax) (a : GItem α) (l : List (GItem α)) : potA ax (a :: l) = pot ax a + potA ax l := by
  simp only [potA, List.map_cons, List.sum_cons]
theorem potA_append (ax : Ax) (a b : List (GItem α)) : potA ax (a ++ b) = potA ax a + potA ax b := by
  simp only [potA, List.map_append, List.sum_append]

theorem potA_le (ax : Ax) : ∀ l : List (GItem α), potA ax l ≤ 2 * l.length
  | [] => Nat.le_refl _
  | a :: l => by
    have := potA_le ax l
    have := pot_le_two ax a
    rw [potA_cons, List.length_cons]; omega

theorem potA_perm (ax : Ax) (a b : List (GItem α)) (h : a.Perm b) : potA ax a = potA ax b :=
  (h.map (pot ax)).sum_nat

/-- position by position: same frames; the caches of the other axis hold as many values as before -/
def UpdL (ax : Ax) (a b : List (GItem α)) : Prop := b.map frame = a.map frame ∧ potA ax.other b = potA ax.other a

/-- the same up to a permutation -/
def UpdP (ax : Ax) (a b : List (GItem α)) : Prop := (b.map frame).Perm (a.map frame) ∧ potA ax.other b = potA ax.other a

theorem UpdL.refl (ax : Ax) (a : List (GItem α)) : UpdL ax a a := ⟨rfl, rfl⟩
theorem UpdP.refl (ax : Ax) (a : List (GItem α)) : UpdP ax a a := ⟨List.Perm.refl _, rfl⟩
theorem UpdL.trans {ax : Ax} {a b c : List (GItem α)} (h1 : UpdL ax a b) (h2 : UpdL ax b c) : UpdL ax a c :=
  ⟨h2.1.trans h1.1, h2.2.trans h1.2⟩
theorem UpdP.trans {ax : Ax} {a b c : List (GItem α)} (h1 : UpdP ax a b) (h2 : UpdP ax b c) : UpdP ax a c :=
  ⟨h2.1.trans h1.1, h2.2.trans h1.2⟩
theorem UpdL.toP {ax : Ax} {a b : List (GItem α)} (h : UpdL ax a b) : UpdP ax a b := ⟨h.1 ▸ List.Perm.refl _, h.2⟩
theorem UpdL.length {ax : Ax} {a b : List (GItem α)} (h : UpdL ax a b) : b.length = a.length := by
  have := congrArg List.length h.1
  simpa using this
theorem UpdP.length {ax : Ax} {a b : List (GItem α)} (h : UpdP ax a b) : b.length = a.length := by
  have := h.1.length_eq
  simpa using this

theorem UpdL.cons {ax : Ax} {a b : GItem α} {l l' : List (GItem α)} (h1 : Upd ax a b) (h2 : UpdL ax l l') :
    UpdL ax (a :: l) (b :: l') := by
  refine ⟨?_, ?_⟩
  · simp only [List.map_cons, h1.1, h2.1]
  · simp only [potA_cons, h1.2, h2.2]

theorem UpdL.append {ax : Ax} {a a' b b' : List (GItem α)} (h1 : UpdL ax a a') (h2 : UpdL ax b b') :
    UpdL ax (a ++ b) (a' ++ b') := by
  refine ⟨?_, ?_⟩
  · simp only [List.map_append, h1.1, h2.1]
  · simp only [potA_append, h1.2, h2.2]

/-- a permutation of the items (a stable sort) -/
theorem UpdP.of_perm (ax : Ax) {a b : List (GItem α)} (h : b.Perm a) : UpdP ax a b :=
  ⟨h.map frame, potA_perm _ _ _ h⟩

/-- a map that keeps frame and caches -/
theorem UpdL.of_map (ax : Ax) (g : GItem α → GItem α) (hg : ∀ it, Same it (g it)) (l : List (GItem α)) :
    UpdL ax l (l.map g) ∧ potA ax (l.map g) = potA ax l := by
  induction l with
  | nil => exact ⟨UpdL.refl _ _, rfl⟩
  | cons a l ih =>
    refine ⟨UpdL.cons ((hg a).upd ax) ih.1, ?_⟩
    simp only [List.map_cons, potA_cons, (hg a).2 ax, ih.2]

abbrev LOp {β : Type} (ax : Ax) (k : Nat) (items : List (GItem α)) (π : β → List (GItem α)) (p : GM α β) : Prop :=
  Op (UpdL ax) (potA ax) k items π p

abbrev POp {β : Type} (ax : Ax) (k : Nat) (items : List (GItem α)) (π : β → List (GItem α)) (p : GM α β) : Prop :=
  Op (UpdP ax) (potA ax) k items π p

theorem LOp_bind {β γ : Type} (ax : Ax) (items : List (GItem α)) (π : β → List (GItem α)) (π' : γ → List (GItem α))
    (k1 k2 : Nat) (p : GM α β) (f : β → GM α γ) (hp : LOp ax k1 items π p)
    (hf : ∀ b, UpdL ax items (π b) → LOp ax k2 (π b) π' (f b)) : LOp ax (k1 + k2) items π' (p >>= f) :=
  Op_bind (UpdL ax) (potA ax) (fun _ _ _ => UpdL.trans) items π π' k1 k2 p f hp hf

theorem POp_bind {β γ : Type} (ax : Ax) (items : List (GItem α)) (π : β → List (GItem α)) (π' : γ → List (GItem α))
    (k1 k2 : Nat) (p : GM α β) (f : β → GM α γ) (hp : POp ax k1 items π p)
    (hf : ∀ b, UpdP ax items (π b) → POp ax k2 (π b) π' (f b)) : POp ax (k1 + k2) items π' (p >>= f) :=
  Op_bind (UpdP ax) (potA ax) (fun _ _ _ => UpdP.trans) items π π' k1 k2 p f hp hf

theorem LOp.toP {β : Type} {ax : Ax} {k : Nat} {items : List (GItem α)} {π : β → List (GItem α)} {p : GM α β}
    (h : LOp ax k items π p) : POp ax k items π p :=
  Op_rel (UpdL ax) (potA ax) (UpdP ax) (fun _ _ => UpdL.toP) items π k p h

theorem LOp_pure {β : Type} (ax : Ax) (k : Nat) (items : List (GItem α)) (π : β → List (GItem α)) (b : β)
    (hu : UpdL ax items (π b)) (hp : potA ax (π b) ≤ potA ax items) : LOp ax k items π (pure b : GM α β) :=
  Op_pure _ _ _ _ _ _ hu (by omega)

theorem POp_pure {β : Type} (ax : Ax) (k : Nat) (items : List (GItem α)) (π : β → List (GItem α)) (b : β)
    (hu : UpdP ax items (π b)) (hp : potA ax (π b) ≤ potA ax items) : POp ax k items π (pure b : GM α β) :=
  Op_pure _ _ _ _ _ _ hu (by omega)

/-- start from a permutation / a frame-and-cache preserving map of the items -/
theorem POp_of_perm {β : Type} {ax : Ax} {k : Nat} {items items1 : List (GItem α)} {π : β → List (GItem α)} {p : GM α β}
    (hu : UpdP ax items items1) (he : potA ax items1 = potA ax items) (hp : POp ax k items1 π p) :
    POp ax k items π p := by
  intro s
  rw [← he]
  exact GMeas_mono _ _ _ _ (fun m r ⟨h1, h2⟩ => ⟨hu.trans h1, h2⟩) (hp s)

theorem LOp_of_upd {β : Type} {ax : Ax} {k : Nat} {items items1 : List (GItem α)} {π : β → List (GItem α)} {p : GM α β}
    (hu : UpdL ax items items1) (he : potA ax items1 = potA ax items) (hp : LOp ax k items1 π p) :
    LOp ax k items π p := by
  intro s
  rw [← he]
  exact GMeas_mono _ _ _ _ (fun m r ⟨h1, h2⟩ => ⟨hu.trans h1, h2⟩) (hp s)

/-- the frame rule for lists: an operation on the middle part of a list -/
theorem LOp_frame {β : Type} (ax : Ax) (k : Nat) (A B C : List (GItem α)) (π : β → List (GItem α)) (p : GM α β)
    (hp : LOp ax k B π p) : LOp ax k (A ++ B ++ C) (fun r => A ++ π r ++ C) p := by
  intro s
  have := hp (potA ax A + potA ax C + s)
  rw [show potA ax B + k + (potA ax A + potA ax C + s) = potA ax (A ++ B ++ C) + k + s by
    simp only [potA_append]; omega] at this
  refine GMeas_mono _ _ _ _ ?_ this
  intro m r ⟨hu, hm⟩
  refine ⟨UpdL.append (UpdL.append (UpdL.refl _ _) hu) (UpdL.refl _ _), ?_⟩
  simp only [potA_append]; omega

/-! ### `forItemsM` -/

theorem LOp_forItemsM (ax : Ax) (f : GItem α → List (GridTrack α) → GM α (GItem α × List (GridTrack α)))
    (hf : ∀ it ts, COp ax it (·.1) (f it ts)) : ∀ (items : List (GItem α)) (ts : List (GridTrack α)),
    LOp ax 0 items (·.1) (forItemsM f items ts)
  | [], ts => LOp_pure _ _ _ _ _ (UpdL.refl _ _) (Nat.le_refl _)
  | it :: rest, ts => by
    intro s
    simp only [forItemsM]
    have h1 := hf it ts (potA ax rest + s)
    rw [show pot ax it + 0 + (potA ax rest + s) = potA ax (it :: rest) + 0 + s by rw [potA_cons]; omega] at h1
    refine GMeas_bind _ _ _ _ _ h1 fun m ⟨it', ts'⟩ ⟨hu, hm⟩ => ?_
    simp only []
    have h2 := LOp_forItemsM ax f hf rest ts' (pot ax it' + s + (m - (pot ax it' + (potA ax rest + s))))
    simp only [] at hm
    rw [show potA ax rest + 0 + (pot ax it' + s + (m - (pot ax it' + (potA ax rest + s)))) = m by omega] at h2
    refine GMeas_bind _ _ _ _ _ h2 fun m' ⟨rest', ts''⟩ ⟨hu', hm'⟩ => ?_
    simp only [] at hu' hm' ⊢
    refine GMeas_pure _ _ _ ⟨UpdL.cons hu hu', ?_⟩
    simp only [potA_cons]; omega

/-! ### the per-item steps of `resolve_intrinsic_track_sizes` -/

theorem COp_minimumSpaceM (s : Sizer α) (avail : AvailableSpace α) (it : GItem α) (ts : List (GridTrack α))
    (limit : GItem α → Option α) : COp s.axis it (·.2) (minimumSpaceM s avail it ts limit) := by
  unfold minimumSpaceM
  split
  · exact COp_sizer_minimum s it ts
  · split
    · refine COp_bind _ _ (·.2) _ _ _ (COp_sizer_minimum s it ts) fun ⟨a, it1⟩ hu => ?_
      refine COp_bind _ _ (·.2) _ _ _ (COp_sizer_minContent s it1) fun ⟨b, it2⟩ hu => ?_
      exact COp_pure _ _ _ _ (Upd.refl _ _) (Nat.le_refl _)
    · exact COp_sizer_minimum s it ts

theorem COp_sizeSpanOneItemM (s : Sizer α) (avail : AvailableSpace α) (axisInner : Option α) (it : GItem α)
    (ts : List (GridTrack α)) : COp s.axis it (·.1) (sizeSpanOneItemM s avail axisInner it ts) := by
  unfold sizeSpanOneItemM
  simp only []
  split
  · exact COp_throw _ _ _ _
  · rename_i track _
    refine COp_bind _ _ (·.2) _ _ _ ?_ fun ⟨nb, it1⟩ hu => ?_
    · split
      · refine COp_bind _ _ (·.2) _ _ _ (COp_sizer_minContent s it) fun ⟨a, it1⟩ hu => ?_
        exact COp_pure _ _ _ _ (Upd.refl _ _) (Nat.le_refl _)
      · split
        · refine COp_bind _ _ (·.2) _ _ _ (COp_sizer_minContent s it) fun ⟨a, it1⟩ hu => ?_
          exact COp_pure _ _ _ _ (Upd.refl _ _) (Nat.le_refl _)
        · exact COp_pure _ _ _ _ (Upd.refl _ _) (Nat.le_refl _)
      · refine COp_bind _ _ (·.2) _ _ _ (COp_sizer_maxContent s it) fun ⟨a, it1⟩ hu => ?_
        exact COp_pure _ _ _ _ (Upd.refl _ _) (Nat.le_refl _)
      · refine COp_bind _ _ (·.2) _ _ _ (COp_minimumSpaceM s avail it ts _) fun ⟨a, it1⟩ hu => ?_
        exact COp_pure _ _ _ _ (Upd.refl _ _) (Nat.le_refl _)
      · exact COp_pure _ _ _ _ (Upd.refl _ _) (Nat.le_refl _)
    · simp only []
      refine COp_bind _ _ (·.2) _ _ _ ?_ fun ⟨tr, it2⟩ hu => COp_pure _ _ _ _ (Upd.refl _ _) (Nat.le_refl _)
      split
      · refine COp_bind _ _ (·.2) _ _ _ ?_ fun ⟨tr, it2⟩ hu => ?_
        · split
          · refine COp_bind _ _ (·.2) _ _ _ (COp_sizer_minContent s it1) fun ⟨a, it2⟩ hu => ?_
            exact COp_pure _ _ _ _ (Upd.refl _ _) (Nat.le_refl _)
          · exact COp_pure _ _ _ _ (Upd.refl _ _) (Nat.le_refl _)
        · simp only []
          refine COp_bind _ _ (·.2) _ _ _ (COp_sizer_maxContent s it2) fun ⟨a, it3⟩ hu => ?_
          exact COp_pure _ _ _ _ (Upd.refl _ _) (Nat.le_refl _)
      · split
        · refine COp_bind _ _ (·.2) _ _ _ (COp_sizer_maxContent s it1) fun ⟨a, it2⟩ hu => ?_
          exact COp_pure _ _ _ _ (Upd.refl _ _) (Nat.le_refl _)
        · split
          · refine COp_bind _ _ (·.2) _ _ _ (COp_sizer_minContent s it1) fun ⟨a, it2⟩ hu => ?_
            exact COp_pure _ _ _ _ (Upd.refl _ _) (Nat.le_refl _)
          · exact COp_pure _ _ _ _ (Upd.refl _ _) (Nat.le_refl _)

/-- a step of the batch: one cached query, then a pure update of the tracks -/
theorem COp_query_then {β : Type} (ax : Ax) (it : GItem α) (q : GM α (β × GItem α)) (hq : COp ax it (·.2) q)
    (g : β → GItem α → List (GridTrack α)) :
    COp ax it (·.1) (q >>= fun r => (pure (r.2, g r.1 r.2) : GM α (GItem α × List (GridTrack α)))) :=
  COp_bind _ _ (·.2) _ _ _ hq fun r hu => COp_pure _ _ _ _ (Upd.refl _ _) (Nat.le_refl _)

theorem LOp_sizeBatchGeneralM (s : Sizer α) (avail : AvailableSpace α) (axisInner : Option α) (isFlex : Bool)
    (ffs : α) (batch : List (GItem α)) (tracks : List (GridTrack α)) :
    LOp s.axis 0 batch (·.1) (sizeBatchGeneralM s avail axisInner isFlex ffs batch tracks) := by
  unfold sizeBatchGeneralM
  simp only []
  -- 1.
  refine LOp_bind _ _ (·.1) _ 0 0 _ _ (LOp_forItemsM _ _ (fun it ts => ?_) batch tracks) fun ⟨b1, t1⟩ _ => ?_
  · split
    · exact COp_pure _ _ _ _ (Upd.refl _ _) (Nat.le_refl _)
    · refine COp_bind _ _ (·.2) _ _ _ (COp_minimumSpaceM s avail it ts _) fun ⟨a, it1⟩ hu => ?_
      exact COp_pure _ _ _ _ (Upd.refl _ _) (Nat.le_refl _)
  simp only []
  -- 2.
  refine LOp_bind _ _ (·.1) _ 0 0 _ _ (LOp_forItemsM _ _ (fun it ts => ?_) b1 _) fun ⟨b2, t2⟩ _ => ?_
  · refine COp_bind _ _ (·.2) _ _ _ (COp_sizer_minContent s it) fun ⟨a, it1⟩ hu => ?_
    exact COp_pure _ _ _ _ (Upd.refl _ _) (Nat.le_refl _)
  simp only []
  -- 3.
  refine LOp_bind _ _ (·.1) _ 0 0 _ _ ?_ fun ⟨b3, t3⟩ _ => ?_
  · split
    · refine LOp_bind _ _ (·.1) _ 0 0 _ _ (LOp_forItemsM _ _ (fun it ts => ?_) b2 _) fun ⟨b3, t3⟩ _ => ?_
      · refine COp_bind _ _ (·.2) _ _ _ (COp_sizer_maxContent s it) fun ⟨a, it1⟩ hu => ?_
        simp only []
        split <;> exact COp_pure _ _ _ _ (Upd.refl _ _) (Nat.le_refl _)
      · exact LOp_pure _ _ _ _ _ (UpdL.refl _ _) (Nat.le_refl _)
    · exact LOp_pure _ _ _ _ _ (UpdL.refl _ _) (Nat.le_refl _)
  simp only []
  -- max-content minimums
  refine LOp_bind _ _ (·.1) _ 0 0 _ _ (LOp_forItemsM _ _ (fun it ts => ?_) b3 _) fun ⟨b4, t4⟩ _ => ?_
  · refine COp_bind _ _ (·.2) _ _ _ (COp_sizer_maxContent s it) fun ⟨a, it1⟩ hu => ?_
    exact COp_pure _ _ _ _ (Upd.refl _ _) (Nat.le_refl _)
  simp only []
  split
  · exact LOp_pure _ _ _ _ _ (UpdL.refl _ _) (Nat.le_refl _)
  -- 5.
  refine LOp_bind _ _ (·.1) _ 0 0 _ _ (LOp_forItemsM _ _ (fun it ts => ?_) b4 _) fun ⟨b5, t5⟩ _ => ?_
  · refine COp_bind _ _ (·.2) _ _ _ (COp_sizer_minContent s it) fun ⟨a, it1⟩ hu => ?_
    exact COp_pure _ _ _ _ (Upd.refl _ _) (Nat.le_refl _)
  simp only []
  -- 6.
  refine LOp_bind _ _ (·.1) _ 0 0 _ _ (LOp_forItemsM _ _ (fun it ts => ?_) b5 _) fun ⟨b6, t6⟩ _ => ?_
  · refine COp_bind _ _ (·.2) _ _ _ (COp_sizer_maxContent s it) fun ⟨a, it1⟩ hu => ?_
    exact COp_pure _ _ _ _ (Upd.refl _ _) (Nat.le_refl _)
  exact LOp_pure _ _ _ _ _ (UpdL.refl _ _) (Nat.le_refl _)

/-! ### the `ItemBatcher` loop -/

theorem crossesFlex_frame (ax : Ax) (it : GItem α) : (frame it).crossesFlexibleTrack ax = it.crossesFlexibleTrack ax := by
  cases ax <;> rfl
theorem span_frame (ax : Ax) (it : GItem α) : (frame it).span ax = it.span ax := by cases ax <;> rfl
theorem node_frame (it : GItem α) : (frame it).node = it.node := rfl

theorem flex_of_frame {a b : GItem α} (h : frame a = frame b) (ax : Ax) :
    a.crossesFlexibleTrack ax = b.crossesFlexibleTrack ax := by
  rw [← crossesFlex_frame ax a, h, crossesFlex_frame]
theorem span_of_frame {a b : GItem α} (h : frame a = frame b) (ax : Ax) : a.span ax = b.span ax := by
  rw [← span_frame ax a, h, span_frame]

theorem frame_getElem? {a b : List (GItem α)} (h : b.map frame = a.map frame) (i : Nat) (x : GItem α)
    (hx : b[i]? = some x) : ∃ y, a[i]? = some y ∧ frame x = frame y := by
  have := congrArg (·[i]?) h
  simp only [List.getElem?_map, hx, Option.map_some] at this
  cases ha : a[i]? with
  | none => rw [ha] at this; cases this
  | some y =>
    rw [ha] at this
    simp only [Option.map_some, Option.some.injEq] at this
    exact ⟨y, rfl, this⟩

theorem take_mid_drop {β : Type} (l : List β) (o n : Nat) (h : o ≤ n) :
    l.take o ++ (l.drop o).take (n - o) ++ l.drop n = l := by
  have e : l.drop n = (l.drop o).drop (n - o) := by
    rw [List.drop_drop]; congr 1; omega
  rw [List.append_assoc, e, List.take_append_drop, List.take_append_drop]

/-- the loop invariant of the batcher: the item at `offset`, if it does not cross a flexible track, has a larger span than
everything before it, none of which crosses a flexible track.  (It holds without any appeal to the preceding sort: it
follows from how the batch boundaries are found.) -/
def LI (ax : Ax) (items : List (GItem α)) (offset : Nat) : Prop :=
  ∀ cur, items[offset]? = some cur → cur.crossesFlexibleTrack ax = false →
    ∀ i it, i < offset → items[i]? = some it → it.crossesFlexibleTrack ax = false ∧ it.span ax < cur.span ax

theorem LI_zero (ax : Ax) (items : List (GItem α)) : LI ax items 0 := fun _ _ _ _ _ h => absurd h (Nat.not_lt_zero _)

theorem next_facts (ax : Ax) (items : List (GItem α)) (offset : Nat) (cur : GItem α) (h : items[offset]? = some cur)
    (hF : cur.crossesFlexibleTrack ax = false) (hli : LI ax items offset) (next : Nat)
    (hn : next = (items.findIdx? fun it => it.crossesFlexibleTrack ax || decide (it.span ax > cur.span ax)).getD
      items.length) :
    offset < next ∧ next ≤ items.length ∧
    (∀ i it, i < next → items[i]? = some it → it.crossesFlexibleTrack ax = false ∧ it.span ax ≤ cur.span ax) ∧
    (∀ it, items[next]? = some it → it.crossesFlexibleTrack ax = false → cur.span ax < it.span ax) := by
  obtain ⟨hlt, hget⟩ := List.getElem?_eq_some_iff.1 h
  cases hf : items.findIdx? fun it => it.crossesFlexibleTrack ax || decide (it.span ax > cur.span ax) with
  | none =>
    rw [hf] at hn
    simp only [Option.getD_none] at hn
    subst hn
    refine ⟨hlt, Nat.le_refl _, ?_, ?_⟩
    · intro i it _ hi
      have := List.findIdx?_eq_none_iff.1 hf it (List.mem_of_getElem? hi)
      simp only [Bool.or_eq_false_iff, decide_eq_false_iff_not, Nat.not_lt] at this
      exact ⟨this.1, this.2⟩
    · intro it hi
      have : items[items.length]? = none := List.getElem?_eq_none (Nat.le_refl _)
      rw [this] at hi; cases hi
  | some j =>
    rw [hf] at hn
    simp only [Option.getD_some] at hn
    subst hn
    obtain ⟨hj, hpj, hbefore⟩ := List.findIdx?_eq_some_iff_getElem.1 hf
    have hall : ∀ i it, i < next → items[i]? = some it →
        it.crossesFlexibleTrack ax = false ∧ it.span ax ≤ cur.span ax := by
      intro i it hi hget'
      obtain ⟨hil, hie⟩ := List.getElem?_eq_some_iff.1 hget'
      have := hbefore i hi
      rw [hie] at this
      simp only [Bool.or_eq_true, decide_eq_true_eq, not_or, Bool.not_eq_true, Nat.not_lt] at this
      exact ⟨this.1, this.2⟩
    refine ⟨?_, Nat.le_of_lt hj, hall, ?_⟩
    · rcases Nat.lt_or_ge offset next with h1 | h1
      · exact h1
      · exfalso
        have hcurP : (cur.crossesFlexibleTrack ax || decide (cur.span ax > cur.span ax)) = false := by
          simp [hF]
        rcases Nat.lt_or_eq_of_le h1 with h2 | h2
        · have hjg : items[next]? = some items[next] := List.getElem?_eq_getElem hj
          obtain ⟨a1, a2⟩ := hli cur h hF next items[next] h2 hjg
          rw [a1] at hpj
          simp only [Bool.false_or, decide_eq_true_eq] at hpj
          omega
        · subst h2
          rw [hget] at hpj
          rw [hcurP] at hpj
          cases hpj
    · intro it hi hFi
      obtain ⟨_, hie⟩ := List.getElem?_eq_some_iff.1 hi
      rw [hie] at hpj
      rw [hFi] at hpj
      simpa using hpj

/-- one iteration of the batcher: an operation on the batch `B` in the middle of the list -/
theorem LOp_loop_step {β : Type} (ax : Ax) (A B C : List (GItem α)) (p : GM α (List (GItem α) × β))
    (hp : LOp ax 0 B (·.1) p) (f : List (GItem α) × β → GM α (List (GItem α) × β))
    (hf : ∀ r, UpdL ax B r.1 → LOp ax 0 (A ++ r.1 ++ C) (·.1) (f r)) :
    LOp ax 0 (A ++ B ++ C) (·.1) (p >>= f) := by
  intro s
  have h1 := hp (potA ax A + potA ax C + s)
  rw [show potA ax B + 0 + (potA ax A + potA ax C + s) = potA ax (A ++ B ++ C) + 0 + s by
    simp only [potA_append]; omega] at h1
  refine GMeas_bind _ _ _ _ _ h1 fun m r ⟨hu, hm⟩ => ?_
  simp only [] at hu hm
  have h2 := hf r hu (s + (m - (potA ax r.1 + (potA ax A + potA ax C + s))))
  rw [show potA ax (A ++ r.1 ++ C) + 0 + (s + (m - (potA ax r.1 + (potA ax A + potA ax C + s)))) = m by
    simp only [potA_append]; omega] at h2
  refine GMeas_mono _ _ _ _ ?_ h2
  intro m' r' ⟨hu', hm'⟩
  refine ⟨?_, by omega⟩
  exact (UpdL.append (UpdL.append (UpdL.refl ax A) hu) (UpdL.refl ax C)).trans hu'

theorem LOp_batchStep (s : Sizer α) (avail : AvailableSpace α) (axisInner : Option α) (ffs : α) (isFlex : Bool)
    (span : Nat) (batch : List (GItem α)) (tracks : List (GridTrack α)) :
    LOp s.axis 0 batch (·.1)
      (if (!isFlex && span == 1) = true then do
          let (batch, tracks) ← forItemsM (fun it ts => sizeSpanOneItemM s avail axisInner it ts) batch tracks
          pure (batch, flushSpanOne tracks)
        else sizeBatchGeneralM s avail axisInner isFlex ffs batch tracks) := by
  split
  · refine LOp_bind _ _ (·.1) _ 0 0 _ _ (LOp_forItemsM _ _ (fun it ts => COp_sizeSpanOneItemM s avail axisInner it ts)
      batch tracks) fun ⟨b1, t1⟩ _ => ?_
    exact LOp_pure _ _ _ _ _ (UpdL.refl _ _) (Nat.le_refl _)
  · exact LOp_sizeBatchGeneralM s avail axisInner isFlex ffs batch tracks

theorem LOp_batchLoopM (s : Sizer α) (avail : AvailableSpace α) (axisInner : Option α) (ffs : α) :
    ∀ (fuel : Nat) (items : List (GItem α)) (offset : Nat) (tracks : List (GridTrack α)), LI s.axis items offset →
      LOp s.axis 0 items (·.1) (batchLoopM s avail axisInner ffs fuel items offset tracks)
  | 0, items, offset, tracks, _ => LOp_pure _ _ _ _ _ (UpdL.refl _ _) (Nat.le_refl _)
  | fuel + 1, items, offset, tracks, hli => by
    unfold batchLoopM
    cases hget : items[offset]? with
    | none => exact LOp_pure _ _ _ _ _ (UpdL.refl _ _) (Nat.le_refl _)
    | some item =>
      simp only []
      obtain ⟨hlt, _⟩ := List.getElem?_eq_some_iff.1 hget
      cases hF : item.crossesFlexibleTrack s.axis with
      | true =>
        simp only [if_true]
        have e := take_mid_drop items offset items.length (Nat.le_of_lt hlt)
        have key := LOp_loop_step s.axis (items.take offset) ((items.drop offset).take (items.length - offset))
          (items.drop items.length) _ (LOp_batchStep s avail axisInner ffs true (item.span s.axis) _ tracks)
          (fun r => (pure (items.take offset ++ r.1 ++ items.drop items.length, r.2) :
              GM α (List (GItem α) × List (GridTrack α))))
          (fun ⟨b, t⟩ hu => LOp_pure _ _ _ _ _ (UpdL.refl _ _) (Nat.le_refl _))
        rw [e] at key
        exact key
      | false =>
        simp only [Bool.false_eq_true, if_false]
        generalize hn : (items.findIdx? fun it => it.crossesFlexibleTrack s.axis ||
          decide (it.span s.axis > item.span s.axis)).getD items.length = next
        obtain ⟨h1, h2, h3, h4⟩ := next_facts s.axis items offset item hget hF hli next hn.symm
        have e := take_mid_drop items offset next (Nat.le_of_lt h1)
        have key := LOp_loop_step s.axis (items.take offset) ((items.drop offset).take (next - offset))
          (items.drop next) _ (LOp_batchStep s avail axisInner ffs false (item.span s.axis) _ tracks)
          (fun r => batchLoopM s avail axisInner ffs fuel (items.take offset ++ r.1 ++ items.drop next) next r.2)
          (fun ⟨b, t⟩ hu => by
            simp only [] at hu ⊢
            refine LOp_batchLoopM s avail axisInner ffs fuel _ next t ?_
            -- the invariant at the next batch boundary
            have hfr : (items.take offset ++ b ++ items.drop next).map frame = items.map frame := by
              have := (UpdL.append (UpdL.append (UpdL.refl s.axis (items.take offset)) hu)
                (UpdL.refl s.axis (items.drop next))).1
              rw [e] at this
              exact this
            intro cur hcur hFc i it hi hit
            obtain ⟨cur0, hc0, hcf⟩ := frame_getElem? hfr next cur hcur
            obtain ⟨it0, hi0, hif⟩ := frame_getElem? hfr i it hit
            have a1 := h3 i it0 hi hi0
            have a2 := h4 cur0 hc0 (by rw [← flex_of_frame hcf]; exact hFc)
            rw [flex_of_frame hif, span_of_frame hif, span_of_frame hcf]
            exact ⟨a1.1, by omega⟩)
        rw [e] at key
        exact key

/-! ### `resolve_intrinsic_track_sizes`, `expand_flexible_tracks` -/

theorem POp_resolveIntrinsicTrackSizesM (s : Sizer α) (tracks : List (GridTrack α)) (items : List (GItem α))
    (avail : AvailableSpace α) : POp s.axis 0 items (·.1) (resolveIntrinsicTrackSizesM s tracks items avail) := by
  unfold resolveIntrinsicTrackSizesM
  simp only []
  have hperm := List.mergeSort_perm items (itemLe s.axis)
  refine POp_of_perm (UpdP.of_perm s.axis hperm) (potA_perm _ _ _ hperm) ?_
  refine POp_bind _ _ (·.1) _ 0 0 _ _ (LOp_batchLoopM s avail _ _ _ _ 0 tracks (LI_zero _ _)).toP fun ⟨b, t⟩ _ => ?_
  exact POp_pure _ _ _ _ _ (UpdP.refl _ _) (Nat.le_refl _)

theorem LOp_flexItemFractions (ax : Ax) (inner : Size (Option α)) (tracks : List (GridTrack α)) :
    ∀ items : List (GItem α), LOp ax 0 items (·.1) (flexItemFractions ax inner tracks items)
  | [] => LOp_pure _ _ _ _ _ (UpdL.refl _ _) (Nat.le_refl _)
  | it :: rest => by
    unfold flexItemFractions
    split
    · intro s
      have h1 := COp_maxContentContributionCached ax it Size.none inner (potA ax rest + s)
      rw [show pot ax it + 0 + (potA ax rest + s) = potA ax (it :: rest) + 0 + s by rw [potA_cons]; omega] at h1
      refine GMeas_bind _ _ _ _ _ h1 fun m ⟨mc, it'⟩ ⟨hu, hm⟩ => ?_
      simp only [] at hu hm ⊢
      have h2 := LOp_flexItemFractions ax inner tracks rest (pot ax it' + s + (m - (pot ax it' + (potA ax rest + s))))
      rw [show potA ax rest + 0 + (pot ax it' + s + (m - (pot ax it' + (potA ax rest + s)))) = m by omega] at h2
      refine GMeas_bind _ _ _ _ _ h2 fun m' ⟨rest', frs⟩ ⟨hu', hm'⟩ => ?_
      simp only [] at hu' hm' ⊢
      refine GMeas_pure _ _ _ ⟨UpdL.cons hu hu', ?_⟩
      simp only [potA_cons]; omega
    · intro s
      have h2 := LOp_flexItemFractions ax inner tracks rest (pot ax it + s)
      rw [show potA ax rest + 0 + (pot ax it + s) = potA ax (it :: rest) + 0 + s by rw [potA_cons]; omega] at h2
      refine GMeas_bind _ _ _ _ _ h2 fun m' ⟨rest', frs⟩ ⟨hu', hm'⟩ => ?_
      simp only [] at hu' hm' ⊢
      refine GMeas_pure _ _ _ ⟨UpdL.cons (Upd.refl _ _) hu', ?_⟩
      simp only [potA_cons]; omega

theorem LOp_expandFlexibleTracksM (ax : Ax) (tracks : List (GridTrack α)) (items : List (GItem α))
    (mn mx : Option α) (av : AvailableSpace α) (inner : Size (Option α)) :
    LOp ax 0 items (·.1) (expandFlexibleTracksM ax tracks items mn mx av inner) := by
  unfold expandFlexibleTracksM
  refine LOp_bind _ _ (·.1) _ 0 0 _ _ ?_ fun ⟨b, t⟩ _ => LOp_pure _ _ _ _ _ (UpdL.refl _ _) (Nat.le_refl _)
  split
  · exact LOp_pure _ _ _ _ _ (UpdL.refl _ _) (Nat.le_refl _)
  · exact LOp_pure _ _ _ _ _ (UpdL.refl _ _) (Nat.le_refl _)
  · simp only []
    refine LOp_bind _ _ (·.1) _ 0 0 _ _ (LOp_flexItemFractions ax inner tracks items) fun ⟨b, t⟩ _ => ?_
    exact LOp_pure _ _ _ _ _ (UpdL.refl _ _) (Nat.le_refl _)

/-! ### `resolve_item_baselines` -/

/-- one PerformLayout baseline query per item of the row; caches untouched -/
theorem LOp_measureRowBaselines (ax : Ax) (inner : Size (Option α)) : ∀ items : List (GItem α),
    LOp ax items.length items id (measureRowBaselines inner items)
  | [] => LOp_pure _ _ _ _ _ (UpdL.refl _ _) (Nat.le_refl _)
  | it :: rest => by
    intro s
    unfold measureRowBaselines
    rw [show potA ax (it :: rest) + (it :: rest).length + s = (potA ax (it :: rest) + rest.length + s) + 1 by
      simp only [List.length_cons]; omega]
    refine GMeas_bind (fun m _ => m = potA ax (it :: rest) + rest.length + s) _ _ _ _
      (GMeas_call _ _ _ _ fun _ => rfl) fun m out hm => ?_
    subst hm
    simp only []
    have h2 := LOp_measureRowBaselines ax inner rest (pot ax it + s)
    rw [show potA ax rest + rest.length + (pot ax it + s) = potA ax (it :: rest) + rest.length + s by
      rw [potA_cons]; omega] at h2
    refine GMeas_bind _ _ _ _ _ h2 fun m' rest' ⟨hu', hm'⟩ => ?_
    simp only [id] at hu' hm' ⊢
    refine GMeas_pure _ _ _ ⟨UpdL.cons ⟨rfl, rfl⟩ hu', ?_⟩
    simp only [potA_cons]
    have : pot ax { it with baseline := some ((out.firstBaselines.y).getD out.size.height +
      it.margin.top.resolveOrZero inner.width) } = pot ax it := rfl
    omega

/-- the cut of the sorted item list into the first row and the rest -/
def cutRow (ax' : Ax) (first : GItem α) (tl : List (GItem α)) : List (GItem α) × List (GItem α) :=
  match (first :: tl).findIdx? (fun it => (it.placement ax'.other).start != (first.placement ax'.other).start) with
  | some i => ((first :: tl).take i, (first :: tl).drop i)
  | none => (first :: tl, [])

theorem cutRow_append (ax' : Ax) (first : GItem α) (tl : List (GItem α)) :
    (cutRow ax' first tl).1 ++ (cutRow ax' first tl).2 = first :: tl := by
  unfold cutRow
  split
  · exact List.take_append_drop _ _
  · exact List.append_nil _

/-- the body of the `while !remaining_items.is_empty()` loop, given the cut -/
def baselineRowsStep (ax' : Ax) (inner : Size (Option α)) (fuel : Nat) (pr : List (GItem α) × List (GItem α)) :
    GM α (List (GItem α)) :=
  if (pr.1.filter fun it => it.alignSelf == .baseline).length ≤ 1 then do
    let rest ← baselineRows ax' inner fuel pr.2
    pure (pr.1 ++ rest)
  else do
    let rowItems ← measureRowBaselines inner pr.1
    let rowMaxBaseline := (maxByTotal (rowItems.map fun it => it.baseline.getD 0)).getD 0
    let rowItems := rowItems.map fun it => { it with baselineShim := rowMaxBaseline - it.baseline.getD 0 }
    let rest ← baselineRows ax' inner fuel pr.2
    pure (rowItems ++ rest)

theorem baselineRows_succ_cons (ax' : Ax) (inner : Size (Option α)) (fuel : Nat) (first : GItem α)
    (tl : List (GItem α)) :
    baselineRows ax' inner (fuel + 1) (first :: tl) = baselineRowsStep ax' inner fuel (cutRow ax' first tl) := by
  rfl

def setShim (v : α) (it : GItem α) : GItem α := { it with baselineShim := v - it.baseline.getD 0 }

theorem LOp_baselineRows (ax ax' : Ax) (inner : Size (Option α)) : ∀ (fuel : Nat) (items : List (GItem α)),
    LOp ax items.length items id (baselineRows ax' inner fuel items)
  | 0, items => LOp_pure _ _ _ _ _ (UpdL.refl _ _) (Nat.le_refl _)
  | _ + 1, [] => LOp_pure _ _ _ _ _ (UpdL.refl _ _) (Nat.le_refl _)
  | fuel + 1, first :: tl => by
    rw [baselineRows_succ_cons, ← cutRow_append ax' first tl]
    generalize cutRow ax' first tl = pr
    obtain ⟨row, remaining⟩ := pr
    unfold baselineRowsStep
    simp only []
    have hlen : (row ++ remaining).length = row.length + remaining.length := List.length_append
    split
    · -- at most one baseline-aligned item in the row: no query
      intro s
      have h2 := LOp_baselineRows ax ax' inner fuel remaining (potA ax row + row.length + s)
      rw [show potA ax remaining + remaining.length + (potA ax row + row.length + s) =
        potA ax (row ++ remaining) + (row ++ remaining).length + s by rw [potA_append, hlen]; omega] at h2
      refine GMeas_bind _ _ _ _ _ h2 fun m' rest' ⟨hu', hm'⟩ => ?_
      simp only [id] at hu' hm' ⊢
      refine GMeas_pure _ _ _ ⟨UpdL.append (UpdL.refl _ _) hu', ?_⟩
      simp only [potA_append]; omega
    · intro s
      have h1 := LOp_measureRowBaselines ax inner row (potA ax remaining + remaining.length + s)
      rw [show potA ax row + row.length + (potA ax remaining + remaining.length + s) =
        potA ax (row ++ remaining) + (row ++ remaining).length + s by rw [potA_append, hlen]; omega] at h1
      refine GMeas_bind _ _ _ _ _ h1 fun m row' ⟨hu, hm⟩ => ?_
      simp only [id] at hu hm ⊢
      obtain ⟨hshim, hshimP⟩ := UpdL.of_map ax (setShim ((maxByTotal (row'.map fun it => it.baseline.getD 0)).getD 0))
        (fun it => ⟨rfl, fun _ => rfl⟩) row'
      have h2 := LOp_baselineRows ax ax' inner fuel remaining
        (potA ax row' + s + (m - (potA ax row' + (potA ax remaining + remaining.length + s))))
      rw [show potA ax remaining + remaining.length +
        (potA ax row' + s + (m - (potA ax row' + (potA ax remaining + remaining.length + s)))) = m by omega] at h2
      refine GMeas_bind _ _ _ _ _ h2 fun m' rest' ⟨hu', hm'⟩ => ?_
      simp only [id] at hu' hm' ⊢
      refine GMeas_pure _ _ _ ⟨UpdL.append (hu.trans hshim) hu', ?_⟩
      have e : potA ax (List.map (fun it : GItem α => { it with baselineShim :=
          (maxByTotal (row'.map fun it => it.baseline.getD 0)).getD 0 - it.baseline.getD 0 }) row') = potA ax row' :=
        hshimP
      simp only [potA_append, e]; omega

theorem POp_resolveItemBaselines (ax ax' : Ax) (items : List (GItem α)) (inner : Size (Option α)) :
    POp ax items.length items id (resolveItemBaselines ax' items inner) := by
  unfold resolveItemBaselines
  simp only []
  have hperm := List.mergeSort_perm items
    (fun a b => decide ((a.placement ax'.other).start ≤ (b.placement ax'.other).start))
  refine POp_of_perm (UpdP.of_perm ax hperm) (potA_perm _ _ _ hperm) ?_
  refine Op_weaken _ _ _ _ _ _ _ (Nat.le_of_eq hperm.length_eq) ?_
  exact (LOp_baselineRows ax ax' inner _ _).toP

/-! ### `track_sizing_algorithm` -/

/-- number of baseline queries a run may make -/
def blK (b : Bool) (n : Nat) : Nat := if b then n else 0

/-- **one run of the track sizing algorithm**: no layout is assigned; at most (number of empty min- and max-content caches in
the run's axis) + (one baseline query per item, if `has_baseline_aligned_item`) child calls; the items come back permuted,
with the same frames, the other axis' caches untouched, and with at most (empty caches before − contribution calls made)
empty caches in the run's axis -/
theorem POp_trackSizingAlgorithmM (a : RunArgs α) (st : RunState α) :
    POp a.axis (blK a.hasBaselineAlignedItem st.items.length) st.items (·.items) (trackSizingAlgorithmM a st) := by
  unfold trackSizingAlgorithmM
  simp only []
  refine Op_weaken _ _ _ _ _ _ _ (Nat.le_of_eq (Nat.add_zero _).symm) ?_
  refine POp_bind _ _ id _ (blK a.hasBaselineAlignedItem st.items.length) 0 _ _ ?_ fun items1 _ => ?_
  · unfold blK
    split
    · exact POp_resolveItemBaselines a.axis a.axis st.items a.innerNodeSize
    · exact POp_pure _ _ _ _ _ (UpdP.refl _ _) (Nat.le_refl _)
  simp only [id]
  split
  · exact POp_pure _ _ _ _ _ (UpdP.refl _ _) (Nat.le_refl _)
  · refine POp_bind _ _ (·.1) _ 0 0 _ _ (POp_resolveIntrinsicTrackSizesM
      { otherAxisTracks := _, est := a.est, axis := a.axis, innerNodeSize := a.innerNodeSize } _ items1 _)
      fun ⟨items2, t2⟩ _ => ?_
    simp only []
    refine POp_bind _ _ (·.1) _ 0 0 _ _ (LOp_expandFlexibleTracksM a.axis _ items2 _ _ _ _).toP
      fun ⟨items3, t3⟩ _ => ?_
    exact POp_pure _ _ _ _ _ (UpdP.refl _ _) (Nat.le_refl _)

end EvalGrid
