/-
  What the pure track sizing algorithm (in its two-list form `GridLift.trackSizing2`) does to the *shape* of the tracks
  (kind, collapsedness, sizing functions: nothing) and to fixed tracks (min = max = a length: they get exactly that size).
  Exact rationals.  Transfers to the track sizing program through `GridLift.trackSizingAlgorithmM_refines`.
-/
import TaffyVerif.Lemmas.FixedExact
import TaffyVerif.Lemmas.GridLiftRun

set_option linter.unusedSectionVars false
set_option linter.unusedVariables false

namespace GridLift
open GridTracks

/-- what sizing and alignment never change in a track -/
def shape {α : Type} (t : GridTrack α) : TrackKind × Bool × MinTrack α × MaxTrack α :=
  (t.kind, t.isCollapsed, t.minFn, t.maxFn)

/-- position-wise the same shapes -/
def SS (l l' : List (GridTrack Rat)) : Prop := l'.map shape = l.map shape

theorem SS.refl (l : List (GridTrack Rat)) : SS l l := rfl
theorem SS.trans {a b c : List (GridTrack Rat)} (h1 : SS a b) (h2 : SS b c) : SS a c := Eq.trans h2 h1

theorem SS.map (l : List (GridTrack Rat)) (f : GridTrack Rat → GridTrack Rat) (h : ∀ t, shape (f t) = shape t) :
    SS l (l.map f) := by
  unfold SS
  rw [List.map_map]
  exact List.map_congr_left fun t _ => h t

theorem SS.append {a a' b b' : List (GridTrack Rat)} (h1 : SS a a') (h2 : SS b b') : SS (a ++ b) (a' ++ b') := by
  unfold SS at *
  rw [List.map_append, List.map_append, h1, h2]

theorem SS.modify (l : List (GridTrack Rat)) (i : Nat) (f : GridTrack Rat → GridTrack Rat)
    (h : ∀ t, shape (f t) = shape t) : SS l (l.modify i f) := by
  induction l generalizing i with
  | nil => simp [SS]
  | cons t rest ih =>
    cases i with
    | zero => simp [SS, h t]
    | succ j =>
      have := ih j
      unfold SS at this ⊢
      simp [this]

theorem SS.onRange (l : List (GridTrack Rat)) (lo hi : Nat) (h : lo ≤ hi)
    (f : List (GridTrack Rat) → List (GridTrack Rat)) (hf : ∀ sl, SS sl (f sl)) : SS l (onRange l lo hi f) := by
  have e := take_slice_drop l lo hi h
  unfold GridTracks.onRange
  have : SS (l.take lo ++ (l.drop lo).take (hi - lo) ++ l.drop hi)
      (l.take lo ++ f ((l.drop lo).take (hi - lo)) ++ l.drop hi) :=
    SS.append (SS.append (SS.refl _) (hf _)) (SS.refl _)
  rwa [e] at this

theorem SS.foldl {β : Type} (l : List β) (step : List (GridTrack Rat) → β → List (GridTrack Rat))
    (P : β → Prop) (hl : ∀ b ∈ l, P b) (hs : ∀ ts b, P b → SS ts (step ts b)) (ts : List (GridTrack Rat)) :
    SS ts (l.foldl step ts) := by
  induction l generalizing ts with
  | nil => exact SS.refl _
  | cons b rest ih =>
    simp only [List.foldl_cons]
    exact SS.trans (hs ts b (hl b List.mem_cons_self)) (ih (fun b hb => hl b (List.mem_cons_of_mem _ hb)) _)

theorem SS.length {a b : List (GridTrack Rat)} (h : SS a b) : b.length = a.length := by
  have := congrArg List.length h
  simpa using this

theorem SS.getElem? {a b : List (GridTrack Rat)} (h : SS a b) (i : Nat) (t' : GridTrack Rat) (ht : b[i]? = some t') :
    ∃ t, a[i]? = some t ∧ shape t' = shape t := by
  have := congrArg (·[i]?) h
  simp only [List.getElem?_map, ht, Option.map_some] at this
  cases ha : a[i]? with
  | none => rw [ha] at this; cases this
  | some t =>
    rw [ha] at this
    simp only [Option.map_some, Option.some.injEq] at this
    exact ⟨t, rfl, this⟩

/-! ### every step of the pure algorithm keeps the shapes -/

theorem SS_dist (p : DistParams) (fuel : Nat) (space : Rat) (tracks : List (GridTrack Rat)) :
    SS tracks (dist p fuel space tracks).2 := by
  obtain ⟨f, _, hx, he⟩ := dist_map p fuel space tracks
  rw [he]
  refine SS.map _ _ fun t => ?_
  obtain ⟨x, hx⟩ := hx t
  rw [hx]; rfl

theorem SS_inner (space : Rat) (tracks : List (GridTrack Rat)) (isAffected : GridTrack Rat → Bool)
    (proportion : GridTrack Rat → Rat) (limit : GridTrack Rat → Ext Rat) (ty : ContributionType) :
    SS tracks (distributeItemSpaceToBaseSizeInner space tracks isAffected proportion limit ty) := by
  unfold distributeItemSpaceToBaseSizeInner
  split
  · exact SS.refl _
  · simp only []
    refine SS.trans ?_ (SS.map _ _ fun t => by unfold finishBaseDistribution; split <;> rfl)
    let p1 : DistParams := ⟨isAffected, proportion, (·.baseSize), limit⟩
    have h1 : SS tracks (dist p1 (distFuel tracks.length)
      (Num.fmax (0 : Rat) (space - sumF (tracks.map (·.baseSize)))) tracks).2 := SS_dist _ _ _ _
    split
    · refine SS.trans h1 ?_
      exact SS_dist ⟨_, proportion, (·.baseSize), limit⟩ _ _ _
    · exact h1

theorem SS_toBaseSize (isFlex useFF : Bool) (space : Rat) (tracks : List (GridTrack Rat))
    (isAffected : GridTrack Rat → Bool) (limit : GridTrack Rat → Ext Rat) (ty : ContributionType) :
    SS tracks (distributeItemSpaceToBaseSize isFlex useFF space tracks isAffected limit ty) := by
  unfold distributeItemSpaceToBaseSize
  split
  · split <;> exact SS_inner _ _ _ _ _ _
  · exact SS_inner _ _ _ _ _ _

theorem SS_toGrowthLimit (space : Rat) (tracks : List (GridTrack Rat)) (isAffected : GridTrack Rat → Bool)
    (inner : Option Rat) : SS tracks (distributeItemSpaceToGrowthLimit space tracks isAffected inner) := by
  unfold distributeItemSpaceToGrowthLimit
  split
  · exact SS.refl _
  · simp only []
    refine SS.trans ?_ (SS.map _ _ fun t => by unfold finishGrowthDistribution; split <;> rfl)
    split
    · exact SS.map _ _ fun t => by split <;> rfl
    · exact SS_dist ⟨isAffected, fun _ => 1, (·.growthLimitOrBase), fun t => t.fitContentLimit inner⟩ _ _ _

theorem SS_flushBase (l : List (GridTrack Rat)) : SS l (flushPlannedBaseSizeIncreases l) := SS.map _ _ fun _ => rfl

theorem SS_flushGrowth (l : List (GridTrack Rat)) (b : Bool) : SS l (flushPlannedGrowthLimitIncreases l b) :=
  SS.map _ _ fun t => by split <;> rfl

theorem SS_raise (l : List (GridTrack Rat)) : SS l (raiseGrowthLimits l) :=
  SS.map _ _ fun t => by split <;> rfl

theorem SS_batchDist (isFlex useFF : Bool) (it : Item Rat) (hv : it.Valid) (space : Rat) (aff : GridTrack Rat → Bool)
    (lim : GridTrack Rat → Ext Rat) (ty : ContributionType) (ts : List (GridTrack Rat)) :
    SS ts (batchDist isFlex useFF it space aff lim ty ts) := by
  unfold batchDist
  split
  · exact SS.onRange _ _ _ hv.le _ fun sl => SS_toBaseSize _ _ _ _ _ _ _
  · exact SS.refl _

theorem SS_forBatch (batch : List (Item Rat)) (hb : ∀ it ∈ batch, it.Valid) (tracks : List (GridTrack Rat))
    (f : Item Rat → List (GridTrack Rat) → List (GridTrack Rat)) (hf : ∀ it ts, it.Valid → SS ts (f it ts)) :
    SS tracks (forBatch batch tracks f) := by
  unfold forBatch
  exact SS.foldl batch (fun ts it => f it ts) Item.Valid hb (fun ts it hv => hf it ts hv) tracks

theorem SS_batchGrowth (inner : Option Rat) (batch : List (Item Rat)) (hb : ∀ it ∈ batch, it.Valid)
    (space : Item Rat → Rat) (aff : GridTrack Rat → Bool) (tracks : List (GridTrack Rat)) :
    SS tracks (batchGrowth inner batch space aff tracks) := by
  unfold batchGrowth
  refine SS_forBatch _ hb _ _ fun it ts hv => ?_
  split
  · exact SS.onRange _ _ _ hv.le _ fun sl => SS_toGrowthLimit _ _ _ _
  · exact SS.refl _

theorem SS_sizeBatchGeneral (avail : AvailableSpace Rat) (inner : Option Rat) (isFlex : Bool) (ffs : Rat)
    (batch : List (Item Rat)) (hb : ∀ it ∈ batch, it.Valid) (tracks : List (GridTrack Rat)) :
    SS tracks (sizeBatchGeneral avail inner isFlex ffs batch tracks) := by
  unfold sizeBatchGeneral
  simp only []
  generalize (isFlex && !Num.feq ffs 0) = u
  have s1 : ∀ ts, SS ts (batchStep1 avail inner isFlex u batch ts) := fun ts => by
    unfold batchStep1
    exact SS.trans (SS_forBatch _ (fun it hit => hb it (List.mem_filter.mp hit).1) _ _
      fun it ts hv => SS_batchDist _ _ it hv _ _ _ _ ts) (SS_flushBase _)
  have s2 : ∀ ts, SS ts (batchStep2 inner isFlex u batch ts) := fun ts => by
    unfold batchStep2
    exact SS.trans (SS_forBatch _ hb _ _ fun it ts hv => SS_batchDist _ _ it hv _ _ _ _ ts) (SS_flushBase _)
  have s3 : ∀ ts, SS ts (batchStep3 avail inner isFlex u batch ts) := fun ts => by
    unfold batchStep3
    cases avail with
    | definite a => exact SS.refl _
    | minContent => exact SS.refl _
    | maxContent =>
      refine SS.trans (SS_forBatch _ hb _ _ fun it ts hv => ?_) (SS_flushBase _)
      split <;> exact SS_batchDist _ _ it hv _ _ _ _ ts
  have s3b : ∀ ts, SS ts (batchStep3b isFlex u batch ts) := fun ts => by
    unfold batchStep3b
    exact SS.trans (SS_forBatch _ hb _ _ fun it ts hv => SS_batchDist _ _ it hv _ _ _ _ ts) (SS_flushBase _)
  have h5 := SS.trans (s1 tracks) (SS.trans (s2 _) (SS.trans (s3 _) (SS.trans (s3b _) (SS_raise _))))
  split
  · refine SS.trans h5 ?_
    unfold batchStep56
    simp only []
    exact SS.trans (SS.trans (SS_batchGrowth inner batch hb _ _ _) (SS_flushGrowth _ _))
      (SS.trans (SS_batchGrowth inner batch hb _ _ _) (SS_flushGrowth _ _))
  · exact h5

theorem shape_sizeSpanOneTrack (avail : AvailableSpace Rat) (inner : Option Rat) (it : Item Rat) (t : GridTrack Rat) :
    shape (sizeSpanOneTrack avail inner it t) = shape t := by
  rw [sizeSpanOneTrack_eq]
  unfold spanOneGrowth
  split
  · rfl
  · split
    · rfl
    · split <;> rfl

theorem SS_batchLoop (avail : AvailableSpace Rat) (inner : Option Rat) (ffs : Rat) (items : List (Item Rat))
    (hv : ∀ it ∈ items, it.Valid) :
    ∀ (fuel offset : Nat) (tracks : List (GridTrack Rat)),
      SS tracks (batchLoop fuel avail inner ffs items offset tracks) := by
  intro fuel
  induction fuel with
  | zero => intro _ tracks; exact SS.refl _
  | succ k ih =>
    intro offset tracks
    unfold batchLoop
    split
    · exact SS.refl _
    · rename_i item _
      simp only []
      set next := (if item.crossesFlexible = true then items.length
        else (List.findIdx? (fun it => it.crossesFlexible || decide (it.span > item.span)) items).getD items.length)
      have hbatch : ∀ it ∈ (items.drop offset).take (next - offset), it.Valid :=
        fun it hit => hv it (List.mem_of_mem_drop (List.mem_of_mem_take hit))
      have hstep : SS tracks (if (!item.crossesFlexible && item.span == 1) = true then
            flushSpanOne (((items.drop offset).take (next - offset)).foldl (sizeSpanOneItem avail inner) tracks)
          else sizeBatchGeneral avail inner item.crossesFlexible ffs ((items.drop offset).take (next - offset)) tracks) := by
        split
        · refine SS.trans ?_ (SS.map _ _ fun t => rfl)
          exact SS.foldl _ _ (fun _ => True) (fun _ _ => trivial)
            (fun ts it _ => SS.modify _ _ _ (shape_sizeSpanOneTrack avail inner it)) _
        · exact SS_sizeBatchGeneral _ _ _ _ _ hbatch _
      split
      · exact hstep
      · exact SS.trans hstep (ih _ _)

theorem SS_resolve (tracks : List (GridTrack Rat)) (items : List (Item Rat)) (hv : ∀ it ∈ items, it.Valid)
    (avail : AvailableSpace Rat) (inner : Option Rat) :
    SS tracks (resolveIntrinsicTrackSizes tracks items avail inner) := by
  unfold resolveIntrinsicTrackSizes
  simp only []
  have hv' : ∀ it ∈ items.mergeSort itemLe, it.Valid := fun it hit => hv it (List.mem_mergeSort.mp hit)
  refine SS.trans (SS_batchLoop avail inner (sumF (tracks.map (·.flexFactor))) (items.mergeSort itemLe) hv'
    ((items.mergeSort itemLe).length + 1) 0 tracks) ?_
  exact SS.map _ _ fun t => by split <;> rfl

theorem SS_maximise (tracks : List (GridTrack Rat)) (inner : Option Rat) (avail : AvailableSpace Rat) :
    SS tracks (maximiseTracks tracks inner avail) := by
  unfold maximiseTracks
  simp only []
  cases avail with
  | minContent => exact SS.refl _
  | maxContent => exact SS.map _ _ fun _ => rfl
  | definite a =>
    simp only []
    split
    · exact SS.trans (SS_dist ⟨fun _ => true, fun _ => 1, (·.baseSize),
        fun t => t.fitContentLimitedGrowthLimit inner⟩ _ _ _) (SS.map _ _ fun _ => rfl)
    · exact SS.refl _

theorem SS_expand (tracks : List (GridTrack Rat)) (items : List (Item Rat)) (mn mx : Option Rat)
    (avail : AvailableSpace Rat) : SS tracks (expandFlexibleTracks tracks items mn mx avail) := by
  unfold expandFlexibleTracks
  exact SS.map _ _ fun t => by split <;> rfl

theorem SS_stretch (tracks : List (GridTrack Rat)) (mn : Option Rat) (avail : AvailableSpace Rat) :
    SS tracks (stretchAutoTracks tracks mn avail) := by
  unfold stretchAutoTracks
  simp only []
  split_ifs
  · exact SS.map _ _ fun t => by split <;> rfl
  · exact SS.refl _
  · exact SS.refl _

theorem SS_initialize (tracks : List (GridTrack Rat)) (inner : Option Rat) :
    SS tracks (initializeTrackSizes tracks inner) := SS.map _ _ fun _ => rfl

theorem determineCrossing_valid (T : List (GridTrack Rat)) (items : List (Item Rat)) (hv : ∀ it ∈ items, it.Valid) :
    ∀ it ∈ items.map (determineCrossing T), it.Valid := by
  intro it hit
  obtain ⟨it0, h0, rfl⟩ := List.mem_map.mp hit
  exact hv it0 h0

/-- **the pure algorithm keeps the shape of every track** -/
theorem trackSizing2_shape (p : SizingParams Rat) (tracks : List (GridTrack Rat)) (items itemsX : List (Item Rat))
    (hv : ∀ it ∈ items, it.Valid) : SS tracks (trackSizing2 p tracks items itemsX) := by
  unfold trackSizing2
  simp only []
  split
  · exact SS_initialize _ _
  · have h := SS.trans (SS_initialize tracks p.axisInner)
      (SS.trans (SS_resolve _ _ (determineCrossing_valid (initializeTrackSizes tracks p.axisInner) items hv)
          p.avail p.axisInner)
        (SS.trans (SS_maximise _ p.axisInner p.avail)
          (SS_expand _ (itemsX.map (determineCrossing (initializeTrackSizes tracks p.axisInner)))
            p.axisMinSize p.axisMaxSize p.availForExpansion)))
    split
    · exact SS.trans h (SS_stretch _ _ _)
    · exact h

/-- **the pure algorithm keeps a fixed track at its size** (`trackSizing_fixed` for the two-list form) -/
theorem trackSizing2_fixed (p : SizingParams Rat) (tracks : List (GridTrack Rat)) (items itemsX : List (Item Rat))
    (hv : ∀ it ∈ items, it.Valid) (i : Nat) (t : GridTrack Rat) (v : Rat) (ht : tracks[i]? = some t)
    (h1 : t.minFn = .length v) (h2 : t.maxFn = .length v) (hr : AtRest t) :
    ∃ t', (trackSizing2 p tracks items itemsX)[i]? = some t' ∧ FX t' v := by
  have hinit : (initializeTrackSizes tracks p.axisInner)[i]? = some (initializeTrackSize p.axisInner t) := by
    simp [initializeTrackSizes, ht]
  have hfx := FX_initialize t v h1 h2 hr p.axisInner
  unfold trackSizing2
  simp only []
  split
  · exact ⟨_, hinit, hfx⟩
  · have hK := K.trans (K_resolve (initializeTrackSizes tracks p.axisInner)
        (items.map (determineCrossing (initializeTrackSizes tracks p.axisInner)))
        (determineCrossing_valid (initializeTrackSizes tracks p.axisInner) items hv) p.avail p.axisInner)
      (K.trans (K_maximise _ p.axisInner p.avail)
        (K_expand _ (itemsX.map (determineCrossing (initializeTrackSizes tracks p.axisInner)))
          p.axisMinSize p.axisMaxSize p.availForExpansion))
    split
    · obtain ⟨t', ht', hR⟩ := (K.trans hK (K_stretch _ p.axisMinSize p.availForExpansion)).getElem? i _ hinit
      exact ⟨t', ht', hR v hfx⟩
    · obtain ⟨t', ht', hR⟩ := hK.getElem? i _ hinit
      exact ⟨t', ht', hR v hfx⟩

/-! ### exact rationals have no negative zero -/

theorem totalIsLt_rat : TotalIsLt Rat := by
  intro a b
  unfold GridModel.totalLt
  have : Num.flt ((1 : Rat) / a) 0 = true → Num.feq a 0 = true → False := by
    intro h1 h2
    have ha : a = 0 := by simpa [Num.feq] using h2
    subst ha
    simp [Num.flt] at h1
  cases h1 : Num.flt (1 / a) 0 <;> cases h2 : Num.feq a 0 <;> simp
  exact (this h1 h2).elim

end GridLift
