/-
  C03 (finiteness at `ER`) — the grid program, part 4: one run of `track_sizing_algorithm` (`SizingFin`) REDUCED to its two
  parts with distribution loops:
    `IntrinsicFin`   11.5 `resolve_intrinsic_track_sizes` (the item batches; `distribute_item_space_to_base_size`, …)
    `MaximiseFin`    11.6 `maximise_tracks` (`distribute_space_up_to_limits`)
  Walked here: 11.4 `initialize_track_sizes`, 11.5.1 `resolve_item_baselines`, the gutter adjustment, 11.7
  `expand_flexible_tracks` (with the max-content queries of the items crossing flexible tracks), 11.8 `stretch_auto_tracks`.
-/
import TaffyVerif.Lemmas.FiniteGrid3

set_option linter.unusedSectionVars false
set_option linter.unusedVariables false

namespace C03Fin
open GridModel GridTracks EvalGrid

theorem gitems_cons {a : GItem ER} {l : List (GItem ER)} (ha : GItemFin a) (hl : GItemsFin l) : GItemsFin (a :: l) := by
  intro x hx
  rcases List.mem_cons.mp hx with rfl | hx
  · exact ha
  · exact hl x hx

theorem gitems_append {a b : List (GItem ER)} (ha : GItemsFin a) (hb : GItemsFin b) : GItemsFin (a ++ b) := by
  intro x hx
  rcases List.mem_append.mp hx with hx | hx
  · exact ha x hx
  · exact hb x hx

theorem fin_avget {s : Size (AvailableSpace ER)} {ax : Ax} (h : SAvFin s) : AvFin (sget s ax) := by
  cases ax; exact h.1; exact h.2

/-! ### 11.4 -/

theorem fin_initializeTrackSizes {ts : List (GridTrack ER)} {inner : Option ER} (hts : TracksFin ts) (hin : OFin inner) :
    TracksFin (initializeTrackSizes ts inner) := by
  intro t' ht'
  unfold initializeTrackSizes at ht'
  obtain ⟨t, ht, rfl⟩ := List.mem_map.mp ht'
  have hf := hts t ht
  have hb : IsFin ((t.minFn.definiteValue inner).getD 0) := fin_getD (fin_min_definiteValue hf.minFn hin) fin_zero
  have hgl0 : ExtFin (Ext.ofOption (t.maxFn.definiteValue inner)) := by
    have := fin_max_definiteValue hf.maxFn hin
    revert this
    cases t.maxFn.definiteValue inner <;> intro h
    · trivial
    · exact h
  unfold initializeTrackSize
  extract_lets base gl gl'
  have hgl : ExtFin gl' := by
    unfold gl'
    split
    · exact hb
    · exact hgl0
  exact { hf with baseSize := hb, growthLimit := hgl }

/-! ### 11.5.1 -/

theorem fin_foldl_sel {f : ER → ER → ER} (hf : ∀ a y, IsFin a → IsFin y → IsFin (f a y)) :
    ∀ (l : List ER) (x : ER), IsFin x → (∀ y ∈ l, IsFin y) → IsFin (l.foldl f x)
  | [], x, hx, _ => hx
  | y :: l, x, hx, h =>
    fin_foldl_sel hf l _ (hf x y hx (h y (List.mem_cons_self ..))) (fun z hz => h z (List.mem_cons_of_mem _ hz))

theorem fin_maxByTotal {l : List ER} (h : ∀ x ∈ l, IsFin x) : OFin (maxByTotal l) := by
  cases l with
  | nil => trivial
  | cons x rest =>
    unfold maxByTotal
    exact fin_foldl_sel (fun a y ha hy => fin_ite ha hy) rest x (h x (List.mem_cons_self ..))
      (fun z hz => h z (List.mem_cons_of_mem _ hz))

theorem FinG_measureRowBaselines {inner : Size (Option ER)} (hin : SOFin inner) :
    ∀ (items : List (GItem ER)), GItemsFin items → FinG GItemsFin (measureRowBaselines inner items)
  | [], _ => by
    unfold measureRowBaselines
    exact FinG_pure fun _ h => absurd h List.not_mem_nil
  | it :: rest, h => by
    have hit := h it (List.mem_cons_self ..)
    unfold measureRowBaselines
    refine FinG_bind (FinG_call ⟨⟨trivial, trivial⟩, hin, ⟨trivial, trivial⟩⟩) fun out ho => ?_
    refine FinG_bind (FinG_measureRowBaselines hin rest (fun x hx => h x (List.mem_cons_of_mem _ hx))) fun rest' hr => ?_
    refine FinG_pure (gitems_cons ?_ hr)
    exact { hit with baseline := fin_add (fin_getD ho.baselines.2 ho.size.2) (fin_LPA_resolveOrZero hit.margin.t hin.1) }

theorem FinG_baselineRows {ax : Ax} {inner : Size (Option ER)} (hin : SOFin inner) :
    ∀ (fuel : Nat) (items : List (GItem ER)), GItemsFin items → FinG GItemsFin (baselineRows ax inner fuel items)
  | 0, items, h => by unfold baselineRows; exact FinG_pure h
  | _ + 1, [], h => by unfold baselineRows; exact FinG_pure h
  | fuel + 1, first :: tl, h => by
    unfold baselineRows
    extract_lets items otherAxis currentRow
    split
    rename_i rowItems remaining heq
    have hsub : GItemsFin rowItems ∧ GItemsFin remaining := by
      split at heq
      · simp only [Prod.mk.injEq] at heq
        obtain ⟨rfl, rfl⟩ := heq
        exact ⟨fun x hx => h x (List.mem_of_mem_take hx), fun x hx => h x (List.mem_of_mem_drop hx)⟩
      · simp only [Prod.mk.injEq] at heq
        obtain ⟨rfl, rfl⟩ := heq
        exact ⟨h, fun x hx => absurd hx List.not_mem_nil⟩
    extract_lets cnt
    split
    · exact FinG_bind (FinG_baselineRows hin fuel remaining hsub.2) fun rest hr => FinG_pure (gitems_append hsub.1 hr)
    · refine FinG_bind (FinG_measureRowBaselines hin rowItems hsub.1) fun ri hri => ?_
      have hmax : IsFin ((maxByTotal (ri.map fun it => it.baseline.getD 0)).getD 0) := by
        refine fin_getD (fin_maxByTotal fun x hx => ?_) fin_zero
        obtain ⟨it, hit, rfl⟩ := List.mem_map.mp hx
        exact fin_getD (hri it hit).baseline fin_zero
      refine FinG_bind (FinG_baselineRows hin fuel remaining hsub.2) fun rest hr =>
        FinG_pure (gitems_append ?_ hr)
      intro x hx
      obtain ⟨it, hit, rfl⟩ := List.mem_map.mp hx
      exact { hri it hit with baselineShim := fin_sub hmax (fin_getD (hri it hit).baseline fin_zero) }

theorem FinG_resolveItemBaselines {ax : Ax} {inner : Size (Option ER)} {items : List (GItem ER)} (hin : SOFin inner)
    (h : GItemsFin items) : FinG GItemsFin (resolveItemBaselines ax items inner) := by
  unfold resolveItemBaselines
  exact FinG_baselineRows hin _ _ fun it hit => h it ((List.mergeSort_perm _ _).mem_iff.1 hit)

/-! ### 11.7 -/

theorem ne_zero_of_one_flt {x : ER} (h : Num.flt 1 x = true) : x ≠ 0 := by
  intro e
  subst e
  revert h
  decide +kernel

theorem FinG_flexItemFractions {ax : Ax} {inner : Size (Option ER)} {ts : List (GridTrack ER)} (hts : TracksFin ts)
    (hin : SOFin inner) : ∀ (items : List (GItem ER)), GItemsFin items →
      FinG (fun r => GItemsFin r.1 ∧ ∀ x ∈ r.2, IsFin x) (flexItemFractions ax inner ts items)
  | [], _ => by
    unfold flexItemFractions
    exact FinG_pure ⟨fun _ h => absurd h List.not_mem_nil, fun _ h => absurd h List.not_mem_nil⟩
  | it :: rest, h => by
    have hit := h it (List.mem_cons_self ..)
    have hrest : GItemsFin rest := fun x hx => h x (List.mem_cons_of_mem _ hx)
    unfold flexItemFractions
    split
    · refine FinG_bind (FinG_maxContentContributionCached hit fin_size_none hin) fun ⟨mc, it'⟩ h1 => ?_
      refine FinG_bind (FinG_flexItemFractions hts hin rest hrest) fun ⟨rest', frs⟩ h2 => ?_
      refine FinG_pure ⟨gitems_cons h1.2 h2.1, ?_⟩
      intro x hx
      rcases List.mem_cons.mp hx with rfl | hx
      · exact fin_findSizeOfFr (fun t ht => hts t (spannedTracks_sub _ _ _ t ht)) h1.1
      · exact h2.2 x hx
    · exact FinG_bind (FinG_flexItemFractions hts hin rest hrest) fun ⟨rest', frs⟩ h2 =>
        FinG_pure ⟨gitems_cons hit h2.1, h2.2⟩

/-- **expand_flexible_tracks**: `base_size / flex_factor` only under `flex_factor > 1`; `find_size_of_fr` -/
theorem FinG_expandFlexibleTracksM {ax : Ax} {ts : List (GridTrack ER)} {items : List (GItem ER)} {mn mx : Option ER}
    {av : AvailableSpace ER} {inner : Size (Option ER)} (hts : TracksFin ts) (hitems : GItemsFin items) (hmn : OFin mn)
    (hmx : OFin mx) (hav : AvFin av) (hin : SOFin inner) :
    FinG (fun r => GItemsFin r.1 ∧ TracksFin r.2 ∧ r.2.length = ts.length)
      (expandFlexibleTracksM ax ts items mn mx av inner) := by
  unfold expandFlexibleTracksM
  refine FinG_bind (Q := fun (r : List (GItem ER) × ER) => GItemsFin r.1 ∧ IsFin r.2) ?_ fun ⟨items', ff⟩ h1 => ?_
  rotate_left
  · refine FinG_pure ⟨h1.1, ?_, by simp⟩
    intro t' ht'
    obtain ⟨t, ht, rfl⟩ := List.mem_map.mp ht'
    have hf := hts t ht
    split
    · rename_i v hv
      have hvf : IsFin v := by have := hf.maxFn; rw [hv] at this; exact this
      exact { hf with baseSize := fin_fmax hf.baseSize (fin_mul hvf h1.2) }
    · exact hf
  split
  · exact FinG_pure ⟨hitems, fin_ite fin_zero (fin_findSizeOfFr hts hav)⟩
  · exact FinG_pure ⟨hitems, fin_zero⟩
  · have ha : IsFin ((maxByTotal ((ts.filter (·.maxFn.isFr)).map fun t =>
        if Num.flt 1 t.flexFactor then t.baseSize / t.flexFactor else t.baseSize)).getD 0) := by
      refine fin_getD (fin_maxByTotal fun x hx => ?_) fin_zero
      obtain ⟨t, ht, rfl⟩ := List.mem_map.mp hx
      have hf := hts t (List.mem_of_mem_filter ht)
      exact fin_ite' (fun hc => fin_div hf.baseSize (fin_flexFactor hf) (ne_zero_of_one_flt hc)) (fun _ => hf.baseSize)
    refine FinG_bind (FinG_flexItemFractions hts hin items hitems) fun ⟨items', frs⟩ h2 => ?_
    have hb : IsFin ((maxByTotal frs).getD 0) := fin_getD (fin_maxByTotal h2.2) fin_zero
    have hff := fin_fmax ha hb
    refine FinG_pure ⟨h2.1, ?_⟩
    dsimp only
    split
    · exact fin_findSizeOfFr hts (fin_getD hmn fin_zero)
    · split
      · rename_i mx' hmx'
        exact fin_ite (fin_findSizeOfFr hts hmx) hff
      · exact hff

/-! ### the reduction -/

/-- 11.5 `resolve_intrinsic_track_sizes`: finite in, finite out (growth limits `ExtFin`) -/
def IntrinsicFin : Prop :=
  ∀ (s : Sizer ER) (ts : List (GridTrack ER)) (items : List (GItem ER)) (avail : AvailableSpace ER),
    TracksFin s.otherAxisTracks → SOFin s.innerNodeSize → TracksFin ts → GItemsFin items → AvFin avail →
    FinG (fun r => GItemsFin r.1 ∧ TracksFin r.2) (resolveIntrinsicTrackSizesM s ts items avail)

/-- 11.6 `maximise_tracks` -/
def MaximiseFin : Prop :=
  ∀ (ts : List (GridTrack ER)) (inner : Option ER) (avail : AvailableSpace ER), TracksFin ts → OFin inner → AvFin avail →
    TracksFin (maximiseTracks ts inner avail)

theorem length_setGutterAdjustment {adj : ER} {ts : List (GridTrack ER)} :
    (setGutterAdjustment adj ts).length = ts.length := by
  unfold setGutterAdjustment
  split <;> simp

theorem length_stretchAutoTracks {ts : List (GridTrack ER)} {mn : Option ER} {av : AvailableSpace ER} :
    (stretchAutoTracks ts mn av).length = ts.length := by
  unfold stretchAutoTracks
  extract_lets n used free extra
  split
  · split <;> simp
  · rfl

/-- **sizingFin_of_parts**: one run of `track_sizing_algorithm` keeps everything finite, given 11.5 and 11.6 -/
theorem sizingFin_of_parts (hI : IntrinsicFin) (hM : MaximiseFin) : SizingFin := by
  intro a st ha hst
  have hinit := fin_initializeTrackSizes hst.axisTracks (fin_osget (ax := a.axis) ha.innerNodeSize)
  unfold trackSizingAlgorithmM
  refine FinG_bind (Q := GItemsFin) ?_ fun items hitems => ?_
  · split
    · exact FinG_resolveItemBaselines ha.innerNodeSize hst.items
    · exact FinG_pure hst.items
  split
  · exact FinG_pure ⟨hinit, hst.otherAxisTracks, hitems⟩
  · have hother := fin_gutterStep_nsb (est := a.est) hst.otherAxisTracks
      (fin_osget (ax := a.axis.other) ha.innerNodeSize) ha.nsb
    have havail := fin_avget (ax := a.axis) ha.availableGridSpace
    refine FinG_bind (hI _ _ _ _ hother ha.innerNodeSize hinit hitems havail) fun ⟨items2, ts2⟩ h2 => ?_
    have hm := hM ts2 (sget a.innerNodeSize a.axis) (sget a.availableGridSpace a.axis) h2.2
      (fin_osget ha.innerNodeSize) havail
    dsimp (config := { zeta := false }) only
    extract_lets mt avx
    have havx : AvFin avx := by
      unfold avx
      split
      · rename_i s hs; exact OFin.of_some (fin_osget (ax := a.axis) ha.innerNodeSize) hs
      · split <;> trivial
    refine FinG_bind (FinG_expandFlexibleTracksM hm h2.1 ha.axisMinSize ha.axisMaxSize havx ha.innerNodeSize)
      fun ⟨items3, ts3⟩ h3 => ?_
    refine FinG_pure ⟨?_, hother, h3.1⟩
    dsimp only
    split
    · exact fin_stretchAutoTracks h3.2.1 ha.axisMinSize havx
    · exact h3.2.1

end C03Fin
