/-
  C15 — `EvalDirty.Calm` for the concrete container programs: no hidden-mode query, and no ComputeSize query to a
  `display:none` child.

    * block   every query of `compute_block_layout` is a `perform_child_layout` (`AllPL`);
    * flexbox the measuring prefix only addresses flex items (children with `box_generation_mode != None` that are not
              absolutely positioned: `items0_vis`); the laying-out stages are `Lays` (PerformLayout + `set_unrounded_layout`);
    * the covering stand-in `coverAlg` and the idle stand-in.
  Grid: Lemmas/EvalDirtyCalmGrid.lean.
-/
import TaffyVerif.Lemmas.EvalDirty
import TaffyVerif.Lemmas.EvalFlexHidden
import TaffyVerif.Lemmas.EvalBlockTrees

set_option autoImplicit false
set_option linter.unusedSectionVars false
set_option linter.unusedVariables false

namespace EvalDirty
open Eval EvalBlock BlockModel
variable {α : Type} [Num α]

/-! ### generic facts about `Calm` -/

/-- every query of the program is a PerformLayout query -/
def AllPL {β : Type} : ProgM α β → Prop
  | .pure _ => True
  | .call _ inp k => inp.runMode = .performLayout ∧ ∀ o, AllPL (k o)
  | .setLayout _ _ k => AllPL (k ())

theorem AllPL_calm {β : Type} (cs : List (Style α)) (p : ProgM α β) (h : AllPL p) : Calm cs p := by
  induction p with
  | pure b => trivial
  | call i inp k ih =>
    obtain ⟨hm, hk⟩ := h
    refine ⟨by rw [hm]; decide, fun hc => ?_, fun o => ih o (hk o)⟩
    rw [hm] at hc; cases hc
  | setLayout i l k ih => exact ih () h

theorem AllPL_bind {β γ : Type} (p : ProgM α β) (f : β → ProgM α γ) (hp : AllPL p) (hf : ∀ a, AllPL (f a)) :
    AllPL (p >>= f) := by
  rw [bind_eq]
  induction p with
  | pure b => exact hf b
  | call i inp k ih => exact ⟨hp.1, fun o => ih o (hp.2 o)⟩
  | setLayout i l k ih => exact ih () hp

theorem Calm_bind {β γ : Type} (cs : List (Style α)) (p : ProgM α β) (f : β → ProgM α γ)
    (hp : Calm cs p) (hf : ∀ a, Calm cs (f a)) : Calm cs (p >>= f) := by
  rw [bind_eq]
  induction p with
  | pure b => exact hf b
  | call i inp k ih => exact ⟨hp.1, hp.2.1, fun o => ih o (hp.2.2 o)⟩
  | setLayout i l k ih => exact ih () hp

theorem Calm_bind_post {β γ : Type} (cs : List (Style α)) (Q : β → Prop) (p : ProgM α β) (f : β → ProgM α γ)
    (hp : Calm cs p) (hq : Post Q p) (hf : ∀ a, Q a → Calm cs (f a)) : Calm cs (p >>= f) := by
  rw [bind_eq]
  induction p with
  | pure b => exact hf b hq
  | call i inp k ih => exact ⟨hp.1, hp.2.1, fun o => ih o (hp.2.2 o) (hq o)⟩
  | setLayout i l k ih => exact ih () hp hq

theorem Lays_AllPL {β : Type} : ∀ (J : List Nat) (p : ProgM α β), EvalFlex.Lays J p → AllPL p
  | [], p, ⟨b, hb⟩ => by subst hb; trivial
  | j :: J, p, ⟨inp, lay, k, hm, hp, hk⟩ => by
    subst hp
    exact ⟨hm, fun o => Lays_AllPL J (k o) (hk o)⟩

/-! ### block: every query is `perform_child_layout` -/

theorem AllPL_contentWidthLoop (av : AvailableSpace α) : ∀ (items : List (BlockItem α)) (acc : α),
    AllPL (contentWidthLoop av items acc)
  | [], _ => trivial
  | item :: rest, acc => by
    by_cases h : item.position = .absolute
    · rw [contentWidthLoop_cons_abs av item rest acc h]
      exact AllPL_contentWidthLoop av rest acc
    · cases hw : (item.size.oo_clamp item.minSize item.maxSize).width with
      | some w =>
        rw [contentWidthLoop_cons_known av item rest acc w h hw]
        exact AllPL_contentWidthLoop av rest _
      | none =>
        rw [contentWidthLoop_cons_query av item rest acc h hw]
        exact ⟨rfl, fun o => AllPL_contentWidthLoop av rest _⟩

theorem AllPL_flowLoop (c : FlowCtx α) : ∀ (items : List (BlockItem α)) (st : FlowState α),
    AllPL (flowLoop c items st)
  | [], _ => trivial
  | item :: rest, st => by
    by_cases h : item.position = .absolute
    · rw [flowLoop_cons_abs c item rest st h]
      exact AllPL_bind _ _ (AllPL_flowLoop c rest st) fun _ => trivial
    · rw [flowLoop_cons_flow c item rest st h]
      exact ⟨rfl, fun out => AllPL_bind _ _ (AllPL_flowLoop c rest _) fun _ => trivial⟩

theorem AllPL_absLoop (styleOf : Nat → Option (Style α)) (a : Size α) (o : Point α) :
    ∀ (items : List (BlockItem α)) (acc : Size α), AllPL (absLoop styleOf a o items acc)
  | [], _ => trivial
  | item :: rest, acc => by
    cases ht : absTaken styleOf item with
    | none =>
      rw [absLoop_cons_skip _ a o item rest acc ht]
      exact AllPL_absLoop styleOf a o rest acc
    | some s =>
      rw [absLoop_cons_take _ a o item rest acc s ht]
      obtain ⟨inp, lay, res, hm, he⟩ := absItem_shape item s a o acc
      rw [he]
      refine AllPL_bind _ _ ?_ fun _ => AllPL_absLoop styleOf a o rest _
      exact ⟨hm, fun _ => trivial⟩

theorem AllPL_hiddenLoop : ∀ (l : List (Style α)) (order : Nat), AllPL (hiddenLoop l order)
  | [], _ => trivial
  | s :: rest, order => by
    by_cases h : s.isHidden = true
    · rw [hiddenLoop_cons_hidden s rest order h]
      exact ⟨rfl, fun _ => AllPL_hiddenLoop rest (order + 1)⟩
    · rw [hiddenLoop_cons_visible s rest order (by simpa using h)]
      exact AllPL_hiddenLoop rest (order + 1)

theorem AllPL_containerWidthProg (ic : InnerCtx α) (items : List (BlockItem α)) (inputs : LayoutInput α) :
    AllPL (containerWidthProg ic items inputs) := by
  cases h : inputs.knownDimensions.width with
  | some w => rw [containerWidthProg_known ic items inputs w h]; trivial
  | none =>
    rw [containerWidthProg_unknown ic items inputs h]
    exact AllPL_bind _ _ (AllPL_contentWidthLoop _ items 0) fun _ => trivial

theorem AllPL_innerTail (style : Style α) (cs : List (Style α)) (inputs : LayoutInput α) (w : α)
    (r : List (BlockItem α) × (Size α × α × MarginSet α × MarginSet α)) : AllPL (innerTail style cs inputs w r) := by
  unfold innerTail
  simp only
  split
  · trivial
  · exact AllPL_bind _ _ (AllPL_absLoop _ _ _ r.1 _) fun _ => AllPL_bind _ _ (AllPL_hiddenLoop cs 0) fun _ => trivial

theorem AllPL_innerAfterWidth (style : Style α) (cs : List (Style α)) (inputs : LayoutInput α) (w : α) :
    AllPL (innerAfterWidth style cs inputs w) := by
  unfold innerAfterWidth
  simp only
  split
  · trivial
  · rw [performFinal_eq]
    exact AllPL_bind _ _ (AllPL_bind _ _ (AllPL_flowLoop _ _ _) fun _ => trivial)
      fun r => AllPL_innerTail style cs inputs w r

theorem AllPL_computeBlockLayout (style : Style α) (cs : List (Style α)) (inputs : LayoutInput α) :
    AllPL (computeBlockLayout style cs inputs) := by
  rcases computeBlockLayout_cases style inputs with ⟨_, o, h⟩ | ⟨inputs', _, h⟩
  · rw [h]; trivial
  · rw [h, computeInner_eq]
    exact AllPL_bind _ _ (AllPL_containerWidthProg _ _ inputs') fun w => AllPL_innerAfterWidth style cs inputs' w

/-- **block_calm**: `compute_block_layout` only ever issues PerformLayout queries -/
theorem block_calm (style : Style α) (cs : List (Style α)) (inputs : LayoutInput α) :
    Calm cs (computeBlockLayout style cs inputs) :=
  AllPL_calm cs _ (AllPL_computeBlockLayout style cs inputs)

/-! ### the stand-ins -/

theorem AllPL_coverFrom : ∀ (k i : Nat), AllPL (coverFrom (α := α) i k)
  | 0, _ => trivial
  | k + 1, i => ⟨rfl, fun _ => AllPL_coverFrom k (i + 1)⟩

theorem coverAlg_calm (style : Style α) (cs : List (Style α)) (inputs : LayoutInput α) :
    Calm cs (coverAlg style cs inputs) :=
  AllPL_calm cs _ (AllPL_coverFrom cs.length 0)

theorem idle_calm (style : Style α) (cs : List (Style α)) (inputs : LayoutInput α) :
    Calm cs (EvalConcrete.idle style cs inputs) := trivial

/-! ### flexbox -/
section flex
open FlexModel EvalFlex

/-- a single ComputeSize query to a child that generates a box -/
theorem Calm_measure (cs : List (Style α)) (i : Nat) (kd ps : Size (Option α)) (av : Size (AvailableSpace α))
    (sm : SizingMode) (hz : Bool) (vm : Line Bool) (hv : Vis cs i) :
    Calm cs (ProgM.measureChildSize i kd ps av sm hz vm) :=
  ⟨(by intro h; cases h), fun _ s hs => (EvalBlock.isHidden_false_iff s).2 (hv s hs), fun _ => trivial⟩

theorem Calm_perform (cs : List (Style α)) (i : Nat) (kd ps : Size (Option α)) (av : Size (AvailableSpace α))
    (sm : SizingMode) (vm : Line Bool) : Calm cs (ProgM.performChildLayout i kd ps av sm vm) :=
  ⟨(by intro h; cases h), (fun h => by cases h), fun _ => trivial⟩

/-- a loop that maps a per-item program over the items -/
theorem Calm_items (cs : List (Style α)) (f : FlexItem α → ProgM α (FlexItem α))
    (loop : List (FlexItem α) → ProgM α (List (FlexItem α)))
    (hnil : loop [] = pure [])
    (hcons : ∀ a l, loop (a :: l) = (f a >>= fun a' => loop l >>= fun l' => pure (a' :: l')))
    (hf : ∀ a, Vis cs a.nodeIdx → Calm cs (f a)) :
    ∀ items : List (FlexItem α), (∀ i ∈ iidx items, Vis cs i) → Calm cs (loop items)
  | [], _ => by rw [hnil]; trivial
  | a :: l, hv => by
    rw [hcons]
    refine Calm_bind cs _ _ (hf a (hv _ (by simp [iidx]))) fun a' => ?_
    refine Calm_bind cs _ _ (Calm_items cs f loop hnil hcons hf l fun i hi => hv i ?_) fun _ => trivial
    rw [iidx_cons]; exact List.mem_cons_of_mem _ hi

theorem Calm_flexBaseSizeItem (cs : List (Style α)) (k : AlgoConstants α) (av : Size (AvailableSpace α)) (s : Style α)
    (child : FlexItem α) (hv : Vis cs child.nodeIdx) : Calm cs (flexBaseSizeItem k av s child) := by
  unfold flexBaseSizeItem
  simp only
  refine Calm_bind cs _ _ ?_ fun fb => ?_
  · split
    · trivial
    · exact Calm_measure cs _ _ _ _ _ _ _ hv
  · exact Calm_bind cs _ _ (Calm_measure cs _ _ _ _ _ _ _ hv) fun _ => trivial

theorem Calm_determineFlexBaseSize (cs : List (Style α)) (k : AlgoConstants α) (av : Size (AvailableSpace α))
    (so : Nat → Style α) (items : List (FlexItem α)) (hv : ∀ i ∈ iidx items, Vis cs i) :
    Calm cs (determineFlexBaseSize k av so items) :=
  Calm_items cs (fun c => flexBaseSizeItem k av (so c.nodeIdx) c) (determineFlexBaseSize k av so) rfl (fun _ _ => rfl)
    (fun a ha => Calm_flexBaseSizeItem cs k av _ a ha) items hv

theorem Calm_intrinsicItem (cs : List (Style α)) (k : AlgoConstants α) (av : Size (AvailableSpace α)) (m : α)
    (item : FlexItem α) (hv : Vis cs item.nodeIdx) : Calm cs (intrinsicItem k av m item) := by
  unfold intrinsicItem
  simp only
  refine Calm_bind cs _ _ ?_ fun fb => trivial
  repeat' (first
    | exact trivial
    | refine Calm_bind cs _ _ (Calm_measure cs _ _ _ _ _ _ _ hv) fun mc => ?_
    | split)

theorem Calm_intrinsicItems (cs : List (Style α)) (k : AlgoConstants α) (av : Size (AvailableSpace α)) (m : α)
    (items : List (FlexItem α)) (hv : ∀ i ∈ iidx items, Vis cs i) : Calm cs (intrinsicItems k av m items) :=
  Calm_items cs (intrinsicItem k av m) (intrinsicItems k av m) rfl (fun _ _ => rfl)
    (fun a ha => Calm_intrinsicItem cs k av m a ha) items hv

theorem Calm_intrinsicLines (cs : List (Style α)) (k : AlgoConstants α) (av : Size (AvailableSpace α)) (m : α) :
    ∀ (lines : List (FlexLineS α)) (ms : α), (∀ i ∈ idxs lines, Vis cs i) → Calm cs (intrinsicLines k av m lines ms)
  | [], _, _ => trivial
  | line :: rest, ms, hv => by
    unfold intrinsicLines
    simp only
    rw [idxs_cons] at hv
    refine Calm_bind cs _ _ (Calm_intrinsicItems cs k av m line.items fun i hi => hv i (List.mem_append_left _ hi))
      fun items => ?_
    exact Calm_bind cs _ _ (Calm_intrinsicLines cs k av m rest _ fun i hi => hv i (List.mem_append_right _ hi))
      fun _ => trivial

theorem Calm_determineContainerMainSize (cs : List (Style α)) (k : AlgoConstants α) (av : Size (AvailableSpace α))
    (lines : List (FlexLineS α)) (hv : ∀ i ∈ idxs lines, Vis cs i) :
    Calm cs (determineContainerMainSize k av lines) := by
  unfold determineContainerMainSize
  simp only
  refine Calm_bind cs _ _ ?_ fun r => trivial
  have hI : ∀ ms, Calm cs (intrinsicLines k av (k.contentBoxInset.mainAxisSum k.dir) lines ms >>= fun r =>
      (pure (r.1, r.2 + k.contentBoxInset.mainAxisSum k.dir) : ProgM α (List (FlexLineS α) × α))) :=
    fun ms => Calm_bind cs _ _ (Calm_intrinsicLines cs k av _ lines ms hv) fun _ => trivial
  split
  · trivial
  · split
    · trivial
    · split
      · trivial
      · exact hI 0
    · exact hI 0

theorem Calm_mainSizeStage [FlexLine.NumX α] (cs : List (Style α)) (style : Style α) (k : AlgoConstants α)
    (av : Size (AvailableSpace α)) (lines : List (FlexLineS α)) (hv : ∀ i ∈ idxs lines, Vis cs i) :
    Calm cs (mainSizeStage style k av lines) := by
  unfold mainSizeStage
  split
  · trivial
  · exact Calm_bind cs _ _ (Calm_determineContainerMainSize cs k av lines hv) fun _ => trivial

theorem Calm_hypotheticalCrossItem (cs : List (Style α)) (k : AlgoConstants α) (av : Size (AvailableSpace α))
    (child : FlexItem α) (hv : Vis cs child.nodeIdx) : Calm cs (hypotheticalCrossItem k av child) := by
  unfold hypotheticalCrossItem
  simp only
  refine Calm_bind cs _ _ ?_ fun fb => trivial
  split
  · trivial
  · exact Calm_bind cs _ _ (Calm_measure cs _ _ _ _ _ _ _ hv) fun _ => trivial

theorem Calm_hypotheticalCrossItems (cs : List (Style α)) (k : AlgoConstants α) (av : Size (AvailableSpace α))
    (items : List (FlexItem α)) (hv : ∀ i ∈ iidx items, Vis cs i) : Calm cs (hypotheticalCrossItems k av items) :=
  Calm_items cs (hypotheticalCrossItem k av) (hypotheticalCrossItems k av) rfl (fun _ _ => rfl)
    (fun a ha => Calm_hypotheticalCrossItem cs k av a ha) items hv

theorem Calm_determineHypotheticalCrossSize (cs : List (Style α)) (k : AlgoConstants α) (av : Size (AvailableSpace α)) :
    ∀ lines : List (FlexLineS α), (∀ i ∈ idxs lines, Vis cs i) → Calm cs (determineHypotheticalCrossSize k av lines)
  | [], _ => trivial
  | line :: rest, hv => by
    unfold determineHypotheticalCrossSize
    rw [idxs_cons] at hv
    refine Calm_bind cs _ _ (Calm_hypotheticalCrossItems cs k av line.items fun i hi => hv i (List.mem_append_left _ hi))
      fun items => ?_
    exact Calm_bind cs _ _ (Calm_determineHypotheticalCrossSize cs k av rest fun i hi =>
      hv i (List.mem_append_right _ hi)) fun _ => trivial

theorem AllPL_baselineItems (k : AlgoConstants α) (ns : Size (Option α)) (av : Size (AvailableSpace α)) :
    ∀ items : List (FlexItem α), AllPL (baselineItems k ns av items)
  | [] => trivial
  | child :: rest => by
    unfold baselineItems
    split
    · exact AllPL_bind _ _ (AllPL_baselineItems k ns av rest) fun _ => trivial
    · refine AllPL_bind _ _ (⟨rfl, fun _ => trivial⟩ : AllPL (ProgM.performChildLayout _ _ _ _ _ _)) fun out => ?_
      simp only
      exact AllPL_bind _ _ (AllPL_baselineItems k ns av rest) fun _ => trivial

theorem AllPL_baselineLines (k : AlgoConstants α) (ns : Size (Option α)) (av : Size (AvailableSpace α)) :
    ∀ lines : List (FlexLineS α), AllPL (baselineLines k ns av lines)
  | [] => trivial
  | line :: rest => by
    unfold baselineLines
    simp only
    refine AllPL_bind _ _ ?_ fun l' => AllPL_bind _ _ (AllPL_baselineLines k ns av rest) fun _ => trivial
    split
    · trivial
    · exact AllPL_bind _ _ (AllPL_baselineItems k ns av line.items) fun _ => trivial

theorem AllPL_calculateChildrenBaseLines (k : AlgoConstants α) (ns : Size (Option α)) (av : Size (AvailableSpace α))
    (lines : List (FlexLineS α)) : AllPL (calculateChildrenBaseLines k ns av lines) := by
  unfold calculateChildrenBaseLines
  split
  · trivial
  · exact AllPL_baselineLines k ns av lines

section pref
variable [FlexLine.NumX α]

theorem Calm_hypStage (cs : List (Style α)) (inputs : LayoutInput α) (av : Size (AvailableSpace α))
    (r : List (FlexLineS α) × AlgoConstants α) (hv : ∀ i ∈ idxs r.1, Vis cs i) : Calm cs (hypStage inputs av r) := by
  unfold hypStage
  have e : idxs (r.1.map (resolveFlexibleLengthsLine r.2)) = idxs r.1 := by
    simp only [idxs, shape_resolveFlexibleLengths]
  refine Calm_bind cs _ _ (Calm_determineHypotheticalCrossSize cs r.2 av _ (by rw [e]; exact hv)) fun lines => ?_
  exact Calm_bind cs _ _ (AllPL_calm cs _ (AllPL_calculateChildrenBaseLines r.2 inputs.knownDimensions av lines))
    fun _ => trivial

theorem Calm_flexPrefix (style : Style α) (cs : List (Style α)) (inputs : LayoutInput α) :
    Calm cs (flexPrefix style cs inputs) := by
  unfold flexPrefix
  have hv0 := items0_vis style cs inputs
  refine Calm_bind_post cs _ _ _ (Calm_determineFlexBaseSize cs _ _ _ _ hv0)
    (Meas_Post _ _ _ (Meas_determineFlexBaseSize _ _ _ _)) fun items hi => ?_
  have hc := idxs_collectFlexLines (k0 style inputs) (av0 style inputs) items
  have hv1 : ∀ i ∈ idxs (collectFlexLines (k0 style inputs) (av0 style inputs) items), Vis cs i := by
    intro i h
    rw [hc, hi] at h
    exact hv0 i h
  refine Calm_bind_post cs _ _ _ (Calm_mainSizeStage cs style _ _ _ hv1)
    (Meas_Post _ _ _ (Meas_mainSizeStage style _ _ _)) fun r hr => ?_
  apply Calm_hypStage
  intro i h
  simp only [idxs, hr] at h
  exact hv1 i h

theorem AllPL_layoutStage (cs : List (Style α)) (k : AlgoConstants α) (t : α) (lines : List (FlexLineS α)) :
    AllPL (layoutStage cs k t lines) := by
  unfold layoutStage
  obtain ⟨J, _, hJ⟩ := Lays_finalLayoutPass k (alignFlexLinesPerAlignContent k t lines)
  refine AllPL_bind _ _ (Lays_AllPL J _ hJ) fun _ => ?_
  refine AllPL_bind _ _ (Lays_AllPL _ _ (Lays_absLoop k cs 0 Size.zero)) fun _ => ?_
  exact AllPL_bind _ _ (AllPL_hiddenLoop cs 0) fun _ => trivial

theorem Calm_flexTail (cs : List (Style α)) (inputs : LayoutInput α) (r : List (FlexLineS α) × AlgoConstants α) :
    Calm cs (flexTail cs inputs r) := by
  unfold flexTail
  simp only
  split
  · trivial
  · exact AllPL_calm cs _ (AllPL_layoutStage cs _ _ _)

/-- **flex_calm**: the measuring prefix of `compute_flexbox_layout` only addresses flex items (children that generate
boxes); everything else is `perform_child_layout` -/
theorem flex_calm (style : Style α) (cs : List (Style α)) (inputs : LayoutInput α) :
    Calm cs (computeFlexboxLayout style cs inputs) := by
  rcases computeFlexboxLayout_cases style inputs with ⟨_, o, h⟩ | ⟨inputs', _, h⟩
  · rw [h]; trivial
  · rw [h, computePreliminary_eq]
    exact Calm_bind cs _ _ (Calm_flexPrefix style cs inputs') fun r => Calm_flexTail cs inputs' r

end pref
end flex

end EvalDirty
