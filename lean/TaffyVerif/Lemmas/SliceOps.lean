/-
  Lemmas about the vocabulary of Model/SliceOps.lean (checked sums, `unwrap`, streams), relating the folds the translator
  emits to the list functions the hand-written models use.  No Mathlib.
-/
import TaffyVerif.Model.SliceOps

namespace Slice
open GridTracks

/-! ### `Except GErr` -/

@[simp] theorem bind_ok {β γ : Type} (x : β) (f : β → Except GErr γ) : (Except.ok x >>= f) = f x := rfl
@[simp] theorem bind_error {β γ : Type} (e : GErr) (f : β → Except GErr γ) :
    ((Except.error e : Except GErr β) >>= f) = .error e := rfl
@[simp] theorem pure_eq_ok {β : Type} (x : β) : (pure x : Except GErr β) = .ok x := rfl

@[simp] theorem unwrap_some {β : Type} (x : β) : unwrap (some x) = .ok x := rfl
@[simp] theorem unwrap_none {β : Type} : unwrap (none : Option β) = .error .unwrapNone := rfl

/-! ### `foldlM` in `Except GErr` -/

theorem foldlM_nil {σ β : Type} (f : σ → β → Except GErr σ) (s : σ) : List.foldlM f s [] = .ok s := rfl
theorem foldlM_cons {σ β : Type} (f : σ → β → Except GErr σ) (s : σ) (x : β) (l : List β) :
    List.foldlM f s (x :: l) = (f s x >>= fun s' => List.foldlM f s' l) := rfl

theorem foldlM_append {σ β : Type} (f : σ → β → Except GErr σ) (s : σ) (l₁ l₂ : List β) :
    List.foldlM f s (l₁ ++ l₂) = (List.foldlM f s l₁ >>= fun s' => List.foldlM f s' l₂) := by
  induction l₁ generalizing s with
  | nil => rfl
  | cons x l ih =>
    rw [List.cons_append, foldlM_cons, foldlM_cons]
    cases h : f s x with
    | error e => rfl
    | ok s' => simp only [bind_ok]; exact ih s'

/-- a fold whose step cannot fail is the pure fold -/
theorem foldlM_pure {σ β : Type} (f : σ → β → Except GErr σ) (g : σ → β → σ) (h : ∀ s x, f s x = .ok (g s x))
    (s : σ) (l : List β) : List.foldlM f s l = .ok (List.foldl g s l) := by
  induction l generalizing s with
  | nil => rfl
  | cons x l ih => rw [foldlM_cons, h, bind_ok, ih]; rfl

/-! ### checked sums -/

theorem sumU16M_go {β : Type} (f : β → Except GErr Nat) (l : List β) (a : Nat) :
    l.foldlM (fun acc x => do let v ← f x; u16Add acc v) a = sumU16 (l.map f) a := by
  induction l generalizing a with
  | nil => rfl
  | cons x l ih =>
    rw [foldlM_cons, List.map_cons]
    cases h : f x with
    | error e => simp [sumU16]
    | ok n =>
      simp only [bind_ok, sumU16, u16Add, u16Max]
      by_cases hov : a + n > 65535
      · simp [hov]
      · simp only [hov, if_false, bind_ok]; exact ih (a + n)

/-- `l.iter().map(f).sum::<u16>()` is the model's `sumU16` of the mapped list -/
theorem sumU16M_eq {β : Type} (f : β → Except GErr Nat) (l : List β) : sumU16M f l = sumU16 (l.map f) 0 :=
  sumU16M_go f l 0

theorem sumF32_eq_sumF {α : Type} [Num α] (l : List α) : sumF32 l = sumF l := rfl

theorem sumF32M_go {α β : Type} [Num α] (g : β → Option α) (l : List β) (a : α) :
    l.foldlM (fun acc x => do let v ← unwrap (g x); pure (acc + v)) a =
      match allSome (l.map g) with
      | none => .error .unwrapNone
      | some vs => .ok (vs.foldl (· + ·) a) := by
  induction l generalizing a with
  | nil => rfl
  | cons x l ih =>
    rw [foldlM_cons, List.map_cons]
    cases h : g x with
    | none => simp [allSome]
    | some v =>
      refine (ih (a + v)).trans ?_
      simp only [allSome]
      cases allSome (l.map g) <;> rfl

/-- `l.iter().map(|x| g(x).unwrap()).sum::<f32>()`: panics iff some `g x` is `None`, else the sum from −0.0 -/
theorem sumF32M_unwrap {α β : Type} [Num α] (g : β → Option α) (l : List β) :
    sumF32M (fun x => unwrap (g x)) l =
      match allSome (l.map g) with
      | none => .error .unwrapNone
      | some vs => .ok (sumF vs) :=
  sumF32M_go g l _

/-! ### streams -/

theorem Stream.takeFrom_all_some {β : Type} (s : Stream β) (g : Nat → β) (i n : Nat) (h : ∀ k, s k = some (g k)) :
    Stream.takeFrom s i n = (List.range' i n).map g := by
  induction n generalizing i with
  | zero => rfl
  | succ n ih => simp [Stream.takeFrom, h, ih (i + 1), List.range'_succ]

theorem Stream.takeFrom_none {β : Type} (s : Stream β) (i n : Nat) (h : ∀ k, s k = none) : Stream.takeFrom s i n = [] := by
  cases n <;> simp [Stream.takeFrom, h]

/-- `fs.iter().cycle().take(n)` is the model's `cycleTake` -/
theorem Stream.take_cycle {α : Type} [Num α] (fs : List (TrackFn α)) (n : Nat) :
    Stream.take n (Stream.cycle fs) = cycleTake fs n := by
  unfold Stream.take cycleTake
  by_cases he : fs.isEmpty
  · rw [if_pos he]
    exact Stream.takeFrom_none _ _ _ (fun k => by simp [Stream.cycle, he])
  · rw [if_neg he]
    rw [Stream.takeFrom_all_some (Stream.cycle fs) (fun i => fs.getD (i % fs.length) TrackFn.auto) 0 n]
    · simp [List.range_eq_range']
    · intro k
      have hlen : 0 < fs.length := by
        cases fs with
        | nil => simp at he
        | cons a l => simp
      have hk : k % fs.length < fs.length := Nat.mod_lt _ hlen
      simp [Stream.cycle, he, List.getD_eq_getElem?_getD, List.getElem?_eq_getElem hk]

end Slice
