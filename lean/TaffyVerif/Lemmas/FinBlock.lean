/-
  C03 (finiteness) — the block program (`BlockModel.computeBlockLayout`, Model/Block.lean = src/compute/block.rs) at `ER`:
  one "finiteness typing" lemma per helper, then the program phase by phase (`FinP`, Lemmas/FinProg.lean).
-/
import TaffyVerif.Lemmas.FinProg
import TaffyVerif.Lemmas.FinBlockStages

namespace C03Fin
open BlockModel

/-! ### predicates on the block model's records -/

structure ItemFin (it : BlockItem ER) : Prop where
  size : SOFin it.size
  minSize : SOFin it.minSize
  maxSize : SOFin it.maxSize
  scrollbarWidth : IsFin it.scrollbarWidth
  inset : RLPAFin it.inset
  margin : RLPAFin it.margin
  padding : RFin it.padding
  border : RFin it.border
  paddingBorderSum : SFin it.paddingBorderSum
  computedSize : SFin it.computedSize
  staticPosition : PFin it.staticPosition

def ItemsFin (l : List (BlockItem ER)) : Prop := ∀ it ∈ l, ItemFin it

structure FlowCtxFin (c : FlowCtx ER) : Prop where
  containerOuterWidth : IsFin c.containerOuterWidth
  contentBoxInset : RFin c.contentBoxInset
  resolvedContentBoxInset : RFin c.resolvedContentBoxInset

structure FlowStateFin (st : FlowState ER) : Prop where
  inflowContentSize : SFin st.inflowContentSize
  committedYOffset : IsFin st.committedYOffset
  yOffsetForAbsolute : IsFin st.yOffsetForAbsolute
  firstChildTopMarginSet : MSFin st.firstChildTopMarginSet
  activeCollapsibleMarginSet : MSFin st.activeCollapsibleMarginSet

structure InnerCtxFin (ic : InnerCtx ER) : Prop where
  padding : RFin ic.padding
  border : RFin ic.border
  scrollbarGutter : RFin ic.scrollbarGutter
  paddingBorderSize : SFin ic.paddingBorderSize
  contentBoxInset : RFin ic.contentBoxInset
  containerContentBoxSize : SOFin ic.containerContentBoxSize
  size : SOFin ic.size
  minSize : SOFin ic.minSize
  maxSize : SOFin ic.maxSize

attribute [fin_simp] ItemFin.size ItemFin.minSize ItemFin.maxSize ItemFin.scrollbarWidth ItemFin.inset ItemFin.margin
  ItemFin.padding ItemFin.border ItemFin.paddingBorderSum ItemFin.computedSize ItemFin.staticPosition
  FlowCtxFin.containerOuterWidth FlowCtxFin.contentBoxInset FlowCtxFin.resolvedContentBoxInset
  FlowStateFin.inflowContentSize FlowStateFin.committedYOffset FlowStateFin.yOffsetForAbsolute
  FlowStateFin.firstChildTopMarginSet FlowStateFin.activeCollapsibleMarginSet

/-! ### generate_item_list -/

theorem fin_resolveStyleSize {d : Size (Dimension ER)} {ctx : Size (Option ER)} {ar : Option ER} {adj : Size ER}
    (hd : SLPAFin d) (hc : SOFin ctx) (ha : ARFin ar) (hadj : SFin adj) : SOFin (resolveStyleSize d ctx ar adj) :=
  fin_size_of_add (fin_maybeApplyAspectRatio (fin_sizeMaybe hd hc) ha) hadj

theorem fin_boxSizingAdjustment {s : Style ER} {pb : Size ER} (h : SFin pb) : SFin (boxSizingAdjustment s pb) := by
  unfold boxSizingAdjustment; split
  · exact h
  · exact fin_size_zero

theorem fin_block_scrollbarGutter {s : Style ER} (hs : StyleFin s) : RFin (BlockModel.scrollbarGutter s) :=
  ⟨fin_zero, fin_ite hs.scrollbarWidth fin_zero, fin_zero, fin_ite hs.scrollbarWidth fin_zero⟩

theorem fin_generateItem {idx order : Nat} {cs : Style ER} {inner : Size (Option ER)} (hs : StyleFin cs)
    (hi : SOFin inner) : ItemFin (generateItem idx order cs inner) := by
  have hp := fin_rectLPOrZeroSize hs.padding hi
  have hb := fin_rectLPOrZeroSize hs.border hi
  have hpb := fin_sumAxes (fin_rect_add hp hb)
  have hadj := fin_boxSizingAdjustment (s := cs) hpb
  exact ⟨fin_resolveStyleSize hs.size hi hs.aspectRatio hadj, fin_resolveStyleSize hs.minSize hi hs.aspectRatio hadj,
    fin_resolveStyleSize hs.maxSize hi hs.aspectRatio hadj, hs.scrollbarWidth, hs.inset, hs.margin, hp, hb, hpb,
    fin_size_zero, ⟨fin_zero, fin_zero⟩⟩

/-- every style of the list is finite -/
def StylesFin (l : List (Style ER)) : Prop := ∀ s ∈ l, StyleFin s

theorem fin_generateItemsFrom {inner : Size (Option ER)} (hi : SOFin inner) :
    ∀ (l : List (Style ER)) (idx order : Nat), StylesFin l → ItemsFin (generateItemsFrom inner l idx order)
  | [], _, _, _ => fun _ h => absurd h (by simp [generateItemsFrom])
  | cs :: rest, idx, order, hl => by
    have hrest : StylesFin rest := fun s hs => hl s (List.mem_cons_of_mem _ hs)
    unfold generateItemsFrom
    split
    · exact fin_generateItemsFrom hi rest _ _ hrest
    · intro it hit
      rcases List.mem_cons.mp hit with rfl | hit
      · exact fin_generateItem (hl cs (List.mem_cons_self ..)) hi
      · exact fin_generateItemsFrom hi rest _ _ hrest it hit

theorem fin_generateItemList {inner : Size (Option ER)} {l : List (Style ER)} (hi : SOFin inner) (hl : StylesFin l) :
    ItemsFin (generateItemList l inner) := fin_generateItemsFrom hi l 0 0 hl

theorem ItemsFin.tail {it : BlockItem ER} {l : List (BlockItem ER)} (h : ItemsFin (it :: l)) : ItemsFin l :=
  fun x hx => h x (List.mem_cons_of_mem _ hx)
theorem ItemsFin.head {it : BlockItem ER} {l : List (BlockItem ER)} (h : ItemsFin (it :: l)) : ItemFin it :=
  h it (List.mem_cons_self ..)
theorem ItemsFin.cons {it : BlockItem ER} {l : List (BlockItem ER)} (h1 : ItemFin it) (h2 : ItemsFin l) :
    ItemsFin (it :: l) := by
  intro x hx
  rcases List.mem_cons.mp hx with rfl | hx
  · exact h1
  · exact h2 x hx

/-! ### determine_content_based_container_width -/

theorem FinP_contentWidthLoop {aw : AvailableSpace ER} (ha : AvFin aw) :
    ∀ (items : List (BlockItem ER)) (acc : ER), ItemsFin items → IsFin acc → FinP IsFin (contentWidthLoop aw items acc)
  | [], acc, _, hacc => hacc
  | item :: rest, acc, hl, hacc => by
    have hit := hl.head
    have hkd : SOFin (item.size.oo_clamp item.minSize item.maxSize) :=
      fin_size_oo_clamp hit.size hit.minSize hit.maxSize
    unfold contentWidthLoop
    split
    · exact FinP_contentWidthLoop ha rest acc hl.tail hacc
    · refine FinP_bind (Q := IsFin) (fun w hw => ?_) ?_
      · exact FinP_contentWidthLoop ha rest _ hl.tail (fin_fmax hacc (fin_fmax hw hit.paddingBorderSum.1))
      · split
        · rename_i w e; exact FinP_pure (OFin.of_some hkd.1 e)
        · have hx : IsFin (Resolve.rectLPAOrZero item.margin aw.intoOption).horizontalAxisSum :=
            fin_hsum (fin_rectLPAOrZero hit.margin (fin_intoOption ha))
          refine FinP_bind (Q := OutFin) (fun out ho => FinP_pure (fin_add ho.size.1 hx)) ?_
          exact FinP_performChildLayout hkd fin_size_none ⟨fin_af_sub ha hx, trivial⟩

/-! ### perform_final_layout_on_in_flow_children: the helpers -/
section flow
variable {c : FlowCtx ER} {st : FlowState ER} {item : BlockItem ER} {out : LayoutOutput ER}

theorem fin_containerInnerWidth (hc : FlowCtxFin c) : IsFin c.containerInnerWidth :=
  fin_sub hc.containerOuterWidth (fin_hsum hc.contentBoxInset)

theorem fin_initState (hc : FlowCtxFin c) : FlowStateFin c.initState :=
  ⟨fin_size_zero, hc.resolvedContentBoxInset.t, hc.resolvedContentBoxInset.t, fin_ms_zero, fin_ms_zero⟩

theorem fin_itemMargin (hc : FlowCtxFin c) (hi : ItemFin item) : ROFin (itemMargin c item) :=
  ⟨fin_LPA_resolveToOption hi.margin.1 hc.containerOuterWidth, fin_LPA_resolveToOption hi.margin.2.1 hc.containerOuterWidth,
   fin_LPA_resolveToOption hi.margin.2.2.1 hc.containerOuterWidth,
   fin_LPA_resolveToOption hi.margin.2.2.2 hc.containerOuterWidth⟩

theorem fin_itemNonAutoXMarginSum (hc : FlowCtxFin c) (hi : ItemFin item) : IsFin (itemNonAutoXMarginSum c item) :=
  fin_add (fin_getD (fin_itemMargin hc hi).1 fin_zero) (fin_getD (fin_itemMargin hc hi).2.1 fin_zero)

theorem fin_itemKnownDimensions (hc : FlowCtxFin c) (hi : ItemFin item) : SOFin (itemKnownDimensions c item) := by
  unfold itemKnownDimensions
  split
  · exact fin_size_none
  · refine fin_size_oo_clamp ⟨?_, hi.size.2⟩ hi.minSize hi.maxSize
    exact fin_fo_clamp (fin_getD hi.size.1 (fin_sub (fin_containerInnerWidth hc) (fin_itemNonAutoXMarginSum hc hi)))
      hi.minSize.1 hi.maxSize.1

theorem fin_itemInput (hc : FlowCtxFin c) (hi : ItemFin item) : InFin (itemInput c item) :=
  ⟨fin_itemKnownDimensions hc hi, ⟨hc.containerOuterWidth, trivial⟩,
   ⟨fin_af_sub (a := .definite c.containerInnerWidth) (fin_containerInnerWidth hc) (fin_itemNonAutoXMarginSum hc hi),
    trivial⟩⟩

theorem fin_contentSizeContribution {loc : Point ER} {size cs : Size ER} {ov : Point Overflow}
    (hl : PFin loc) (hs : SFin size) (hcs : SFin cs) : SFin (contentSizeContribution loc size cs ov) := by
  unfold contentSizeContribution
  obtain ⟨ox, oy⟩ := ov
  cases ox <;> cases oy <;> dsimp only <;>
    refine fin_site ⟨fin_add hl.1 ?_, fin_add hl.2 ?_⟩ fin_size_zero <;>
    first | exact fin_fmax hs.1 hcs.1 | exact fin_fmax hs.2 hcs.2 | exact hs.1 | exact hs.2

theorem fin_topMarginSet (hc : FlowCtxFin c) (hi : ItemFin item) (ho : OutFin out) : MSFin (topMarginSet c item out) :=
  fin_collapseWithMargin ho.top (fin_getD (fin_itemMargin hc hi).2.2.1 fin_zero)
theorem fin_bottomMarginSet (hc : FlowCtxFin c) (hi : ItemFin item) (ho : OutFin out) :
    MSFin (bottomMarginSet c item out) :=
  fin_collapseWithMargin ho.bottom (fin_getD (fin_itemMargin hc hi).2.2.2 fin_zero)

theorem fin_insetOffsetY (hi : ItemFin item) : IsFin (insetOffsetY item) :=
  fin_getD (fin_or (fin_LPA_maybeResolve hi.inset.2.2.1 (ctx := some 0) fin_zero)
    (fin_neg_map (fin_LPA_maybeResolve hi.inset.2.2.2 (ctx := some 0) fin_zero))) fin_zero

theorem fin_insetOffsetX (hc : FlowCtxFin c) (hi : ItemFin item) : IsFin (insetOffsetX c item) :=
  fin_getD (fin_or (fin_LPA_maybeResolve hi.inset.1 (ctx := some c.containerInnerWidth) (fin_containerInnerWidth hc))
    (fin_neg_map (fin_LPA_maybeResolve hi.inset.2.1 (ctx := some c.containerInnerWidth)
      (fin_containerInnerWidth hc)))) fin_zero

theorem fin_yMarginOffset {ts : MarginSet ER} (hs : FlowStateFin st) (ht : MSFin ts) : IsFin (yMarginOffset c st ts) := by
  unfold yMarginOffset; split
  · exact fin_zero
  · exact fin_ms_resolve (fin_collapseWithSet hs.activeCollapsibleMarginSet ht)

/-- number of `auto` x-margins, as computed in the loop body -/
theorem autoCount_pos {a b : Option ER} (h : (if a.isNone then 1 else 0) + (if b.isNone then 1 else 0) > 0) :
    0 < (if a.isNone then 1 else 0) + (if b.isNone then 1 else 0) := h

theorem fin_piMargin (hc : FlowCtxFin c) (hi : ItemFin item) (ho : OutFin out) : RFin (piMargin c item out) := by
  have hm := fin_itemMargin hc hi
  have hfree : IsFin (Num.fmax 0 (c.containerInnerWidth - out.size.width - itemNonAutoXMarginSum c item)) :=
    fin_fmax fin_zero (fin_sub (fin_sub (fin_containerInnerWidth hc) ho.size.1) (fin_itemNonAutoXMarginSum hc hi))
  unfold piMargin
  dsimp only
  have hauto : IsFin (if (if (itemMargin c item).left.isNone then 1 else 0) +
      (if (itemMargin c item).right.isNone then 1 else 0) > 0 then
      Num.fmax 0 (c.containerInnerWidth - out.size.width - itemNonAutoXMarginSum c item) /
        Num.ofNat ((if (itemMargin c item).left.isNone then 1 else 0) +
          (if (itemMargin c item).right.isNone then 1 else 0)) else 0) := by
    exact fin_ite' (fun hpos => fin_div hfree (fin_ofNat _) (ofNat_ne_zero hpos)) (fun _ => fin_zero)
  exact ⟨fin_getD hm.1 hauto, fin_getD hm.2.1 hauto, fin_ms_resolve (fin_topMarginSet hc hi ho),
    fin_ms_resolve (fin_bottomMarginSet hc hi ho)⟩

theorem fin_piX {rm : Rect ER} (hc : FlowCtxFin c) (hi : ItemFin item) (ho : OutFin out) (hrm : RFin rm) :
    IsFin (piX c item out rm) := by
  have hx0 : IsFin (c.resolvedContentBoxInset.left + insetOffsetX c item + rm.left) :=
    fin_add (fin_add hc.resolvedContentBoxInset.l (fin_insetOffsetX hc hi)) hrm.l
  have hd : IsFin (c.containerInnerWidth - (out.size.width + rm.horizontalAxisSum)) :=
    fin_sub (fin_containerInnerWidth hc) (fin_add ho.size.1 (fin_hsum hrm))
  unfold piX
  dsimp only
  split
  · split
    · exact hx0
    · exact hx0
    · exact fin_add hx0 hd
    · exact fin_add hx0 (fin_div hd fin_two two_ne_zero)
  · exact hx0

theorem fin_piLocation {rm : Rect ER} (hc : FlowCtxFin c) (hs : FlowStateFin st) (hi : ItemFin item) (ho : OutFin out)
    (hrm : RFin rm) : PFin (piLocation c st item out rm) :=
  ⟨fin_piX hc hi ho hrm,
   fin_add (fin_add hs.committedYOffset (fin_insetOffsetY hi)) (fin_yMarginOffset hs (fin_topMarginSet hc hi ho))⟩

theorem fin_scrollbarSize (hi : ItemFin item) :
    SFin (⟨if item.overflow.y == .scroll then item.scrollbarWidth else 0,
           if item.overflow.x == .scroll then item.scrollbarWidth else 0⟩ : Size ER) :=
  ⟨fin_ite hi.scrollbarWidth fin_zero, fin_ite hi.scrollbarWidth fin_zero⟩

theorem fin_piLayout {rm : Rect ER} {loc : Point ER} (hi : ItemFin item) (ho : OutFin out) (hrm : RFin rm)
    (hl : PFin loc) : LayFin (piLayout item out rm loc) :=
  ⟨hl, ho.size, ho.contentSize, fin_scrollbarSize hi, hi.border, hi.padding, hrm⟩

theorem fin_piFirstSet {b : Bool} {ts bs : MarginSet ER} (hs : FlowStateFin st) (ht : MSFin ts) (hb : MSFin bs) :
    MSFin (piFirstSet st b ts bs) := by
  unfold piFirstSet
  split
  · split
    · exact fin_collapseWithSet (fin_collapseWithSet hs.firstChildTopMarginSet ht) hb
    · exact fin_collapseWithSet hs.firstChildTopMarginSet ht
  · exact hs.firstChildTopMarginSet

theorem fin_piState {loc : Point ER} (hc : FlowCtxFin c) (hs : FlowStateFin st) (hi : ItemFin item) (ho : OutFin out)
    (hl : PFin loc) : FlowStateFin (piState c st item out loc) := by
  have ht := fin_topMarginSet hc hi ho
  have hb := fin_bottomMarginSet hc hi ho
  have hy := fin_yMarginOffset (c := c) hs ht
  have hics := fin_f32Max hs.inflowContentSize
    (fin_contentSizeContribution (ov := item.overflow) hl ho.size ho.contentSize)
  unfold piState
  dsimp only
  split
  · exact ⟨hics, hs.committedYOffset, fin_add (fin_add hs.committedYOffset ho.size.2) hy, fin_piFirstSet hs ht hb,
      fin_collapseWithSet (fin_collapseWithSet hs.activeCollapsibleMarginSet ht) hb⟩
  · exact ⟨hics, fin_add hs.committedYOffset (fin_add ho.size.2 hy),
      fin_add (fin_add hs.committedYOffset (fin_add ho.size.2 hy)) (fin_ms_resolve hb), fin_piFirstSet hs ht hb, hb⟩

/-- **one iteration of the in-flow loop** (`placeItem`): finite context, state, item and child answer ⇒ finite new
state, finite updated item, finite `Layout` -/
theorem fin_placeItem (hc : FlowCtxFin c) (hs : FlowStateFin st) (hi : ItemFin item) (ho : OutFin out) :
    FlowStateFin (placeItem c st item out).st ∧ ItemFin (placeItem c st item out).item ∧
    LayFin (placeItem c st item out).layout := by
  rw [placeItem_eq]
  have hrm := fin_piMargin hc hi ho
  have hl := fin_piLocation hc hs hi ho hrm
  refine ⟨fin_piState hc hs hi ho hl, ?_, fin_piLayout hi ho hrm hl⟩
  exact ⟨hi.size, hi.minSize, hi.maxSize, hi.scrollbarWidth, hi.inset, hi.margin, hi.padding, hi.border,
    hi.paddingBorderSum, ho.size,
    ⟨hc.resolvedContentBoxInset.l, fin_add hs.committedYOffset (fin_ms_resolve hs.activeCollapsibleMarginSet)⟩⟩

theorem FinP_flowLoop (hc : FlowCtxFin c) :
    ∀ (items : List (BlockItem ER)) (st : FlowState ER), ItemsFin items → FlowStateFin st →
      FinP (fun r => ItemsFin r.1 ∧ FlowStateFin r.2) (flowLoop c items st)
  | [], _, hl, hs => ⟨hl, hs⟩
  | item :: rest, st, hl, hs => by
    have hi := hl.head
    unfold flowLoop
    split
    · refine FinP_bind (Q := fun r => ItemsFin r.1 ∧ FlowStateFin r.2) (fun r hr => ?_)
        (FinP_flowLoop hc rest st hl.tail hs)
      refine FinP_pure ⟨ItemsFin.cons ?_ hr.1, hr.2⟩
      exact ⟨hi.size, hi.minSize, hi.maxSize, hi.scrollbarWidth, hi.inset, hi.margin, hi.padding, hi.border,
        hi.paddingBorderSum, hi.computedSize, ⟨hc.resolvedContentBoxInset.l, hs.yOffsetForAbsolute⟩⟩
    · refine FinP_bind (Q := OutFin) (fun out ho => ?_) (FinP_computeChildLayout (fin_itemInput hc hi))
      obtain ⟨h1, h2, h3⟩ := fin_placeItem hc hs hi ho
      refine FinP_bind (Q := fun _ => True) (fun _ _ => ?_) (FinP_setUnroundedLayout h3)
      refine FinP_bind (Q := fun r => ItemsFin r.1 ∧ FlowStateFin r.2) (fun r hr => ?_)
        (FinP_flowLoop hc rest _ hl.tail h1)
      exact FinP_pure ⟨ItemsFin.cons h2 hr.1, hr.2⟩

theorem fin_flowResult (hc : FlowCtxFin c) (hs : FlowStateFin st) :
    SFin (flowResult c st).1 ∧ IsFin (flowResult c st).2.1 ∧ MSFin (flowResult c st).2.2.1 ∧
    MSFin (flowResult c st).2.2.2 := by
  unfold flowResult
  refine ⟨hs.inflowContentSize, fin_fmax fin_zero (fin_add hs.committedYOffset
    (fin_add hc.resolvedContentBoxInset.b ?_)), hs.firstChildTopMarginSet, hs.activeCollapsibleMarginSet⟩
  exact fin_ite fin_zero (fin_ms_resolve hs.activeCollapsibleMarginSet)

theorem FinP_performFinal (hc : FlowCtxFin c) {items : List (BlockItem ER)} (hl : ItemsFin items) :
    FinP (fun r => ItemsFin r.1 ∧ SFin r.2.1 ∧ IsFin r.2.2.1 ∧ MSFin r.2.2.2.1 ∧ MSFin r.2.2.2.2)
      (performFinalLayoutOnInFlowChildren c items) := by
  unfold performFinalLayoutOnInFlowChildren
  refine FinP_bind (Q := fun r => ItemsFin r.1 ∧ FlowStateFin r.2) (fun r hr => ?_)
    (FinP_flowLoop hc items _ hl (fin_initState hc))
  exact FinP_pure ⟨hr.1, fin_flowResult hc hr.2⟩

end flow

/-! ### perform_absolute_layout_on_absolute_children -/
section abs
variable {cs : Style ER} {area : Size ER} {off : Point ER} {item : BlockItem ER}

structure AiResFin (r : AiRes) : Prop where
  margin : ROFin r.margin
  padding : RFin r.padding
  border : RFin r.border
  left : OFin r.left
  right : OFin r.right
  top : OFin r.top
  bottom : OFin r.bottom
  styleSize : SOFin r.styleSize
  minSize : SOFin r.minSize
  maxSize : SOFin r.maxSize

theorem fin_aiRes (hs : StyleFin cs) (ha : SFin area) : AiResFin (aiRes cs area) := by
  have hw : OFin (some area.width) := ha.1
  have hh : OFin (some area.height) := ha.2
  have hp := fin_rectLPOrZero hs.padding hw
  have hb := fin_rectLPOrZero hs.border hw
  have hpb := fin_sumAxes (fin_rect_add hp hb)
  have hadj := fin_boxSizingAdjustment (s := cs) hpb
  have hao : SOFin (⟨some area.width, some area.height⟩ : Size (Option ER)) := ⟨ha.1, ha.2⟩
  exact
    { margin := ⟨fin_LPA_resolveToOption hs.margin.1 ha.1, fin_LPA_resolveToOption hs.margin.2.1 ha.1,
        fin_LPA_resolveToOption hs.margin.2.2.1 ha.1, fin_LPA_resolveToOption hs.margin.2.2.2 ha.1⟩
      padding := hp, border := hb
      left := fin_LPA_maybeResolve hs.inset.1 hw, right := fin_LPA_maybeResolve hs.inset.2.1 hw
      top := fin_LPA_maybeResolve hs.inset.2.2.1 hh, bottom := fin_LPA_maybeResolve hs.inset.2.2.2 hh
      styleSize := fin_resolveStyleSize hs.size hao hs.aspectRatio hadj
      minSize := fin_size_of_max (fin_orOpt (fin_resolveStyleSize hs.minSize hao hs.aspectRatio hadj) ⟨hpb.1, hpb.2⟩) hpb
      maxSize := fin_resolveStyleSize hs.maxSize hao hs.aspectRatio hadj }

theorem fin_aiKd1 {r : AiRes} {aw : ER} {ar : Option ER} {kd0 : Size (Option ER)} (hr : AiResFin r) (haw : IsFin aw)
    (har : ARFin ar) (hk : SOFin kd0) : SOFin (aiKd1 r aw ar kd0) := by
  unfold aiKd1
  split
  · rename_i l rr e1 e2 e3
    have hl := OFin.of_some hr.left e2
    have hrr := OFin.of_some hr.right e3
    refine fin_size_oo_clamp (fin_maybeApplyAspectRatio ⟨?_, hk.2⟩ har) hr.minSize hr.maxSize
    exact fin_fmax (fin_sub (fin_sub (fin_fo_sub (fin_fo_sub haw hr.margin.l) hr.margin.r) hl) hrr) fin_zero
  · exact hk

theorem fin_aiKd2 {r : AiRes} {ah : ER} {ar : Option ER} {kd1 : Size (Option ER)} (hr : AiResFin r) (hah : IsFin ah)
    (har : ARFin ar) (hk : SOFin kd1) : SOFin (aiKd2 r ah ar kd1) := by
  unfold aiKd2
  split
  · rename_i t b e1 e2 e3
    have ht := OFin.of_some hr.top e2
    have hb := OFin.of_some hr.bottom e3
    refine fin_size_oo_clamp (fin_maybeApplyAspectRatio ⟨hk.1, ?_⟩ har) hr.minSize hr.maxSize
    exact fin_fmax (fin_sub (fin_sub (fin_fo_sub (fin_fo_sub hah hr.margin.t) hr.margin.b) ht) hb) fin_zero
  · exact hk

theorem fin_aiKd (hs : StyleFin cs) (ha : SFin area) : SOFin (aiKd cs area) := by
  have hr := fin_aiRes hs ha
  exact fin_aiKd2 hr ha.2 hs.aspectRatio
    (fin_aiKd1 hr ha.1 hs.aspectRatio (fin_size_oo_clamp hr.styleSize hr.minSize hr.maxSize))

theorem fin_aiFinal {r : AiRes} {kd2 : Size (Option ER)} {m : Size ER} (hr : AiResFin r) (hk : SOFin kd2)
    (hm : SFin m) : SFin (aiFinal r kd2 m) :=
  fin_size_fo_clamp (fin_unwrapOr hk hm) hr.minSize hr.maxSize

theorem fin_aiAuto {n : Nat} {ss : Option ER} {free : ER} (hf : IsFin free) : IsFin (aiAuto n ss free) := by
  unfold aiAuto
  exact fin_ite fin_zero (fin_ite' (fun hpos => fin_div hf (fin_ofNat _) (ofNat_ne_zero hpos)) (fun _ => fin_zero))

theorem fin_aiMargin {r : AiRes} {fs : Size ER} (hr : AiResFin r) (ha : SFin area) (hf : SFin fs) :
    RFin (aiMargin r area fs) := by
  have hna : RFin
      { left := if r.left.isSome then r.margin.left.getD 0 else 0,
        right := if r.right.isSome then r.margin.right.getD 0 else 0,
        top := if r.top.isSome then r.margin.top.getD 0 else 0,
        bottom := if r.bottom.isSome then r.margin.bottom.getD 0 else (0 : ER) } :=
    ⟨fin_ite (fin_getD hr.margin.l fin_zero) fin_zero, fin_ite (fin_getD hr.margin.r fin_zero) fin_zero,
     fin_ite (fin_getD hr.margin.t fin_zero) fin_zero, fin_ite (fin_getD hr.margin.b fin_zero) fin_zero⟩
  unfold aiMargin
  dsimp only
  have hsx : IsFin (match r.right with
      | some rr => area.width - rr - r.left.getD 0
      | none => fs.width) := by
    split
    · rename_i rr e; exact fin_sub (fin_sub ha.1 (OFin.of_some hr.right e)) (fin_getD hr.left fin_zero)
    · exact hf.1
  have hsy : IsFin (match r.bottom with
      | some b => area.height - b - r.top.getD 0
      | none => fs.height) := by
    split
    · rename_i b e; exact fin_sub (fin_sub ha.2 (OFin.of_some hr.bottom e)) (fin_getD hr.top fin_zero)
    · exact hf.2
  have hW := fin_aiAuto (n := (if r.margin.left.isNone then 1 else 0) + (if r.margin.right.isNone then 1 else 0))
    (ss := r.styleSize.width) (fin_sub (fin_sub hsx hf.1) (fin_hsum hna))
  have hH := fin_aiAuto (n := (if r.margin.top.isNone then 1 else 0) + (if r.margin.bottom.isNone then 1 else 0))
    (ss := r.styleSize.height) (fin_sub (fin_sub hsy hf.2) (fin_vsum hna))
  exact ⟨fin_getD hr.margin.l hW, fin_getD hr.margin.r hW, fin_getD hr.margin.t hH, fin_getD hr.margin.b hH⟩

theorem fin_aiLocAxis {a b : Option ER} {rmS rmE areaD fsD offD stat : ER} (ha : OFin a) (hb : OFin b)
    (h1 : IsFin rmS) (h2 : IsFin rmE) (h3 : IsFin areaD) (h4 : IsFin fsD) (h5 : IsFin offD) (h6 : IsFin stat) :
    IsFin ((MaybeMath.of_add ((a.map fun l => l + rmS).or (b.map fun rr => areaD - fsD - rr - rmE)) offD).getD
      (stat + rmS)) := by
  refine fin_getD (fin_of_add (fin_or ?_ ?_) h5) (fin_add h6 h1)
  · cases a with
    | none => trivial
    | some l => exact fin_add ha h1
  · cases b with
    | none => trivial
    | some rr => exact fin_sub (fin_sub (fin_sub h3 h4) hb) h2

theorem fin_aiLoc {r : AiRes} {static : Point ER} {fs : Size ER} {rm : Rect ER} (hr : AiResFin r) (hst : PFin static)
    (ha : SFin area) (ho : PFin off) (hf : SFin fs) (hrm : RFin rm) : PFin (aiLoc r static area off fs rm) :=
  ⟨fin_aiLocAxis hr.left hr.right hrm.l hrm.r ha.1 hf.1 ho.1 hst.1,
   fin_aiLocAxis hr.top hr.bottom hrm.t hrm.b ha.2 hf.2 ho.2 hst.2⟩

theorem fin_aiLayout {out : LayoutOutput ER} (hi : ItemFin item) (hs : StyleFin cs) (ha : SFin area) (hoff : PFin off)
    (ho : OutFin out) : LayFin (aiLayout item cs area off out) := by
  have hr := fin_aiRes hs ha
  have hf := fin_aiFinal hr (fin_aiKd hs ha) ho.size
  have hrm := fin_aiMargin hr ha hf
  exact ⟨fin_aiLoc hr hi.staticPosition ha hoff hf hrm, hf, ho.contentSize, fin_scrollbarSize hi, hr.border, hr.padding,
    hrm⟩

/-- **one absolutely positioned child** (`absItem`) -/
theorem FinP_absItem {acc : Size ER} (hi : ItemFin item) (hs : StyleFin cs) (ha : SFin area) (hoff : PFin off)
    (hacc : SFin acc) : FinP SFin (absItem item cs area off acc) := by
  rw [absItem_eq]
  have hr := fin_aiRes hs ha
  refine FinP_bind (Q := OutFin) (fun out ho => ?_) (FinP_performChildLayout (fin_aiKd hs ha) ⟨ha.1, ha.2⟩
    ⟨fin_fo_clamp ha.1 hr.minSize.1 hr.maxSize.1, fin_fo_clamp ha.2 hr.minSize.2 hr.maxSize.2⟩)
  have hl := fin_aiLayout hi hs ha hoff ho
  refine FinP_bind (Q := fun _ => True) (fun _ _ => ?_) (FinP_setUnroundedLayout hl)
  exact FinP_pure (fin_f32Max hacc (fin_contentSizeContribution hl.1 hl.2.1 ho.contentSize))

theorem FinP_absLoop {styleOf : Nat → Option (Style ER)} (hst : ∀ i s, styleOf i = some s → StyleFin s)
    (ha : SFin area) (hoff : PFin off) :
    ∀ (items : List (BlockItem ER)) (acc : Size ER), ItemsFin items → SFin acc →
      FinP SFin (absLoop styleOf area off items acc)
  | [], _, _, hacc => hacc
  | item :: rest, acc, hl, hacc => by
    unfold absLoop
    split
    · split
      · exact FinP_absLoop hst ha hoff rest acc hl.tail hacc
      · rename_i cs e
        split
        · exact FinP_absLoop hst ha hoff rest acc hl.tail hacc
        · exact FinP_bind (Q := SFin) (fun acc' h' => FinP_absLoop hst ha hoff rest acc' hl.tail h')
            (FinP_absItem hl.head (hst _ _ e) ha hoff hacc)
    · exact FinP_absLoop hst ha hoff rest acc hl.tail hacc

end abs

/-! ### hidden children -/

theorem FinP_hiddenLoop : ∀ (l : List (Style ER)) (order : Nat), FinP (fun _ => True) (hiddenLoop l order)
  | [], _ => trivial
  | cs :: rest, order => by
    unfold hiddenLoop
    split
    · refine FinP_bind (Q := OutFin) (fun _ _ => ?_)
        (FinP_performChildLayout fin_size_none fin_size_none ⟨trivial, trivial⟩)
      exact FinP_bind (Q := fun _ => True) (fun _ _ => FinP_hiddenLoop rest (order + 1))
        (FinP_setUnroundedLayout (fin_withOrder order))
    · exact FinP_hiddenLoop rest (order + 1)

/-! ### compute_inner -/
section inner
variable {style : Style ER} {inputs : LayoutInput ER}

theorem fin_innerCtx (hs : StyleFin style) (hi : InFin inputs) : InnerCtxFin (innerCtx style inputs) := by
  have hp := fin_rectLPOrZero hs.padding hi.ps.1
  have hb := fin_rectLPOrZero hs.border hi.ps.1
  have hg := fin_block_scrollbarGutter hs
  have hpb := fin_rect_add hp hb
  have hadj := fin_boxSizingAdjustment (s := style) (fin_sumAxes hpb)
  exact ⟨hp, hb, hg, fin_sumAxes hpb, fin_rect_add hpb hg, fin_size_of_sub hi.kd (fin_sumAxes (fin_rect_add hpb hg)),
    fin_resolveStyleSize hs.size hi.ps hs.aspectRatio hadj, fin_resolveStyleSize hs.minSize hi.ps hs.aspectRatio hadj,
    fin_resolveStyleSize hs.maxSize hi.ps hs.aspectRatio hadj⟩

theorem fin_innerOutput {ps : Size (Option ER)} {ic : InnerCtx ER} {items : List (BlockItem ER)}
    {fos ics acs : Size ER} {f l : MarginSet ER} (hs : StyleFin style) (hps : SOFin ps) (h1 : SFin fos) (h2 : SFin ics)
    (h3 : SFin acs) (h4 : MSFin f) (h5 : MSFin l) : OutFin (innerOutput style ps ic items fos ics acs f l) := by
  refine ⟨h1, fin_f32Max h2 h3, ⟨trivial, trivial⟩, ?_, ?_⟩
  · show MSFin (if _ then _ else _)
    split
    · exact h4
    · -- (robust against both transliterations of block.rs: `MarginSet::ZERO` after the C10 repair 59eceb5, the style margin before)
      first
        | exact fin_ms_zero
        | exact fin_fromMargin (fin_LPA_resolveOrZero hs.margin.2.2.1 hps.1)
  · show MSFin (if _ then _ else _)
    split
    · exact h5
    · first
        | exact fin_ms_zero
        | exact fin_fromMargin (fin_LPA_resolveOrZero hs.margin.2.2.2 hps.1)

theorem fin_flowCtxOf {ic : InnerCtx ER} {w : ER} (hs : StyleFin style) (hic : InnerCtxFin ic) (hw : IsFin w) :
    FlowCtxFin (flowCtxOf style ic w) :=
  ⟨hw, hic.contentBoxInset,
   fin_rect_add (fin_rect_add (fin_rectLPOrZero hs.padding (ctx := some w) hw) (fin_rectLPOrZero hs.border (ctx := some w) hw))
     hic.scrollbarGutter⟩

theorem FinP_containerWidthProg {ic : InnerCtx ER} {items : List (BlockItem ER)} (hic : InnerCtxFin ic)
    (hl : ItemsFin items) (hi : InFin inputs) : FinP IsFin (containerWidthProg ic items inputs) := by
  unfold containerWidthProg
  split
  · rename_i w e; exact FinP_pure (OFin.of_some hi.kd.1 e)
  · have hx := fin_hsum hic.contentBoxInset
    refine FinP_bind (Q := IsFin) (fun w hw => ?_)
      (FinP_contentWidthLoop (fin_af_sub hi.av.1 hx) items 0 hl fin_zero)
    exact FinP_pure (fin_fo_max (fin_fo_clamp (fin_add hw hx) hic.minSize.1 hic.maxSize.1)
      (r := some ic.paddingBorderSize.width) hic.paddingBorderSize.1)

theorem StylesFin.get {l : List (Style ER)} (h : StylesFin l) (i : Nat) (s : Style ER) (e : l[i]? = some s) :
    StyleFin s := h s (List.mem_of_getElem? e)

theorem FinP_computeInner {cs : List (Style ER)} (hs : StyleFin style) (hcs : StylesFin cs) (hi : InFin inputs) :
    FinP OutFin (computeInner style cs inputs) := by
  have hic := fin_innerCtx hs hi
  have hl := fin_generateItemList hic.containerContentBoxSize hcs
  unfold computeInner
  dsimp only
  refine FinP_bind (Q := IsFin) (fun w hw => ?_) (FinP_containerWidthProg hic hl hi)
  have hfc := fin_flowCtxOf hs hic hw
  have hrb := fin_rectLPOrZero hs.border (ctx := some w) hw
  -- everything after the first short-circuit
  have rest : FinP OutFin (do
      let (items, (inflowContentSize, intrinsicOuterHeight, firstChildTopMarginSet, lastChildBottomMarginSet)) ←
        performFinalLayoutOnInFlowChildren (flowCtxOf style (innerCtx style inputs) w)
          (generateItemList cs (innerCtx style inputs).containerContentBoxSize)
      let containerOuterHeight := MaybeMath.fo_max
        (inputs.knownDimensions.height.getD (MaybeMath.fo_clamp intrinsicOuterHeight (innerCtx style inputs).minSize.height
          (innerCtx style inputs).maxSize.height))
        (some (innerCtx style inputs).paddingBorderSize.height)
      let finalOuterSize : Size ER := ⟨w, containerOuterHeight⟩
      if inputs.runMode == .computeSize then pure (LayoutOutput.fromOuterSize finalOuterSize) else
      let absolutePositionInset := (Resolve.rectLPOrZero style.border (some w)).add (innerCtx style inputs).scrollbarGutter
      let absolutePositionArea := finalOuterSize.sub absolutePositionInset.sumAxes
      let absolutePositionOffset : Point ER := ⟨absolutePositionInset.left, absolutePositionInset.top⟩
      let absoluteContentSize ← absLoop (fun i => cs[i]?) absolutePositionArea absolutePositionOffset items Size.zero
      hiddenLoop cs 0
      pure (innerOutput style inputs.parentSize (innerCtx style inputs) items finalOuterSize inflowContentSize
        absoluteContentSize firstChildTopMarginSet lastChildBottomMarginSet)) := by
    refine FinP_bind (Q := fun r => ItemsFin r.1 ∧ SFin r.2.1 ∧ IsFin r.2.2.1 ∧ MSFin r.2.2.2.1 ∧ MSFin r.2.2.2.2)
      (fun r hr => ?_) (FinP_performFinal hfc hl)
    obtain ⟨items, ics, ioh, f, l⟩ := r
    obtain ⟨h1, h2, h3, h4, h5⟩ := hr
    dsimp only at h1 h2 h3 h4 h5 ⊢
    have hfos : SFin (⟨w, MaybeMath.fo_max
        (inputs.knownDimensions.height.getD (MaybeMath.fo_clamp ioh (innerCtx style inputs).minSize.height
          (innerCtx style inputs).maxSize.height))
        (some (innerCtx style inputs).paddingBorderSize.height)⟩ : Size ER) :=
      ⟨hw, fin_fo_max (fin_getD hi.kd.2 (fin_fo_clamp h3 hic.minSize.2 hic.maxSize.2))
        (r := some (innerCtx style inputs).paddingBorderSize.height) hic.paddingBorderSize.2⟩
    split
    · exact FinP_pure (fin_fromOuterSize hfos)
    · have hinset := fin_rect_add hrb hic.scrollbarGutter
      refine FinP_bind (Q := SFin) (fun acs hacs => ?_)
        (FinP_absLoop (fun i s e => hcs.get i s e) (fin_size_sub hfos (fin_sumAxes hinset)) ⟨hinset.l, hinset.t⟩ items _ h1
          fin_size_zero)
      refine FinP_bind (Q := fun _ => True) (fun _ _ => ?_) (FinP_hiddenLoop cs 0)
      exact FinP_pure (fin_innerOutput hs hi.ps hfos h2 hacs h4 h5)
  split
  · rename_i h e1 e2
    exact FinP_pure (fin_fromOuterSize ⟨hw, OFin.of_some hi.kd.2 e2⟩)
  · exact rest

end inner

/-! ### compute_block_layout -/

theorem fin_styledBasedKnownDimensions {style : Style ER} {inputs : LayoutInput ER} (hs : StyleFin style)
    (hi : InFin inputs) : SOFin (styledBasedKnownDimensions style inputs) := by
  have hp := fin_rectLPOrZero hs.padding hi.ps.1
  have hb := fin_rectLPOrZero hs.border hi.ps.1
  have hpb := fin_sumAxes (fin_rect_add hp hb)
  have hadj := fin_boxSizingAdjustment (s := style) hpb
  have hmin := fin_resolveStyleSize hs.minSize hi.ps hs.aspectRatio hadj
  have hmax := fin_resolveStyleSize hs.maxSize hi.ps hs.aspectRatio hadj
  have hsz := fin_resolveStyleSize hs.size hi.ps hs.aspectRatio hadj
  unfold styledBasedKnownDimensions
  dsimp only
  refine fin_size_of_max (fin_orOpt (fin_orOpt hi.kd ?_) ?_) hpb
  · have hw := hmin.1
    have hh := hmin.2
    refine ⟨?_, ?_⟩
    · dsimp only
      split
      · rename_i mn mx e1 e2; rw [e1] at hw; exact fin_oite hw trivial
      · trivial
    · dsimp only
      split
      · rename_i mn mx e1 e2; rw [e1] at hh; exact fin_oite hh trivial
      · trivial
  · split
    · exact fin_size_oo_clamp hsz hmin hmax
    · exact fin_size_none

/-- **block**: finite container style, finite child styles, finite input ⇒ along every run with finite child answers:
every child input, every layout set and the output are finite -/
theorem FinP_computeBlockLayout {style : Style ER} {cs : List (Style ER)} {inputs : LayoutInput ER}
    (hs : StyleFin style) (hcs : StylesFin cs) (hi : InFin inputs) :
    FinP OutFin (computeBlockLayout style cs inputs) := by
  have hk := fin_styledBasedKnownDimensions hs hi
  unfold computeBlockLayout
  dsimp only
  split
  · rename_i w h e0 e1 e2
    exact FinP_pure (fin_fromOuterSize ⟨OFin.of_some hk.1 e1, OFin.of_some hk.2 e2⟩)
  · exact FinP_computeInner hs hcs ⟨hk, hi.ps, hi.av⟩

end C03Fin
