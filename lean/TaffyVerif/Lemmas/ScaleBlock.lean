/-
  C04 — `compute_block_layout` (Model/Block.lean) as an interaction program commutes with scaling:
  `computeBlockLayout (scale k style) (map (scale k) childStyles) (scale k inp) = scaleProg k (computeBlockLayout …)`.
-/
import TaffyVerif.Lemmas.ScaleEval
import TaffyVerif.Model.Block

set_option linter.unusedSectionVars false
set_option linter.unusedVariables false
set_option linter.unusedSimpArgs false
set_option linter.auxLemma false

namespace C04
open Scalable BlockModel

/-! ### `Scalable` instances for the records of the block model (generated boilerplate) -/

instance : Scalable (BlockItem Rat) :=
  ⟨fun k x => ⟨x.nodeIdx, x.order, x.isTable, scale k x.size, scale k x.minSize, scale k x.maxSize, x.overflow, scale k x.scrollbarWidth, x.position, scale k x.inset, scale k x.margin, scale k x.padding, scale k x.border, scale k x.paddingBorderSum, scale k x.computedSize, scale k x.staticPosition, x.canBeCollapsedThrough⟩⟩

@[scale_simp] theorem bi_nodeIdx (k : Rat) (x : BlockItem Rat) : (scale k x).nodeIdx = x.nodeIdx := rfl
@[scale_simp] theorem bi_order (k : Rat) (x : BlockItem Rat) : (scale k x).order = x.order := rfl
@[scale_simp] theorem bi_isTable (k : Rat) (x : BlockItem Rat) : (scale k x).isTable = x.isTable := rfl
@[scale_simp] theorem bi_size (k : Rat) (x : BlockItem Rat) : (scale k x).size = scale k x.size := rfl
@[scale_simp] theorem bi_minSize (k : Rat) (x : BlockItem Rat) : (scale k x).minSize = scale k x.minSize := rfl
@[scale_simp] theorem bi_maxSize (k : Rat) (x : BlockItem Rat) : (scale k x).maxSize = scale k x.maxSize := rfl
@[scale_simp] theorem bi_overflow (k : Rat) (x : BlockItem Rat) : (scale k x).overflow = x.overflow := rfl
@[scale_simp] theorem bi_scrollbarWidth (k : Rat) (x : BlockItem Rat) : (scale k x).scrollbarWidth = scale k x.scrollbarWidth := rfl
@[scale_simp] theorem bi_position (k : Rat) (x : BlockItem Rat) : (scale k x).position = x.position := rfl
@[scale_simp] theorem bi_inset (k : Rat) (x : BlockItem Rat) : (scale k x).inset = scale k x.inset := rfl
@[scale_simp] theorem bi_margin (k : Rat) (x : BlockItem Rat) : (scale k x).margin = scale k x.margin := rfl
@[scale_simp] theorem bi_padding (k : Rat) (x : BlockItem Rat) : (scale k x).padding = scale k x.padding := rfl
@[scale_simp] theorem bi_border (k : Rat) (x : BlockItem Rat) : (scale k x).border = scale k x.border := rfl
@[scale_simp] theorem bi_paddingBorderSum (k : Rat) (x : BlockItem Rat) : (scale k x).paddingBorderSum = scale k x.paddingBorderSum := rfl
@[scale_simp] theorem bi_computedSize (k : Rat) (x : BlockItem Rat) : (scale k x).computedSize = scale k x.computedSize := rfl
@[scale_simp] theorem bi_staticPosition (k : Rat) (x : BlockItem Rat) : (scale k x).staticPosition = scale k x.staticPosition := rfl
@[scale_simp] theorem bi_canBeCollapsedThrough (k : Rat) (x : BlockItem Rat) : (scale k x).canBeCollapsedThrough = x.canBeCollapsedThrough := rfl
@[scale_simp] theorem scale_bi_mk (k : Rat) (a0 : Nat) (a1 : Nat) (a2 : Bool) (a3 : Size (Option Rat)) (a4 : Size (Option Rat)) (a5 : Size (Option Rat)) (a6 : Point Overflow) (a7 : Rat) (a8 : Position) (a9 : Rect (LPA Rat)) (a10 : Rect (LPA Rat)) (a11 : Rect Rat) (a12 : Rect Rat) (a13 : Size Rat) (a14 : Size Rat) (a15 : Point Rat) (a16 : Bool) :
    scale k (BlockItem.mk a0 a1 a2 a3 a4 a5 a6 a7 a8 a9 a10 a11 a12 a13 a14 a15 a16 : BlockItem Rat) = ⟨a0, a1, a2, scale k a3, scale k a4, scale k a5, a6, scale k a7, a8, scale k a9, scale k a10, scale k a11, scale k a12, scale k a13, scale k a14, scale k a15, a16⟩ := rfl

instance : Scalable (FlowCtx Rat) :=
  ⟨fun k x => ⟨scale k x.containerOuterWidth, scale k x.contentBoxInset, scale k x.resolvedContentBoxInset, x.textAlign, x.ownMarginsCollapseWithChildren⟩⟩

@[scale_simp] theorem fc_containerOuterWidth (k : Rat) (x : FlowCtx Rat) : (scale k x).containerOuterWidth = scale k x.containerOuterWidth := rfl
@[scale_simp] theorem fc_contentBoxInset (k : Rat) (x : FlowCtx Rat) : (scale k x).contentBoxInset = scale k x.contentBoxInset := rfl
@[scale_simp] theorem fc_resolvedContentBoxInset (k : Rat) (x : FlowCtx Rat) : (scale k x).resolvedContentBoxInset = scale k x.resolvedContentBoxInset := rfl
@[scale_simp] theorem fc_textAlign (k : Rat) (x : FlowCtx Rat) : (scale k x).textAlign = x.textAlign := rfl
@[scale_simp] theorem fc_ownMarginsCollapseWithChildren (k : Rat) (x : FlowCtx Rat) : (scale k x).ownMarginsCollapseWithChildren = x.ownMarginsCollapseWithChildren := rfl
@[scale_simp] theorem scale_fc_mk (k : Rat) (a0 : Rat) (a1 : Rect Rat) (a2 : Rect Rat) (a3 : TextAlign) (a4 : Line Bool) :
    scale k (FlowCtx.mk a0 a1 a2 a3 a4 : FlowCtx Rat) = ⟨scale k a0, scale k a1, scale k a2, a3, a4⟩ := rfl

instance : Scalable (FlowState Rat) :=
  ⟨fun k x => ⟨scale k x.inflowContentSize, scale k x.committedYOffset, scale k x.yOffsetForAbsolute, scale k x.firstChildTopMarginSet, scale k x.activeCollapsibleMarginSet, x.isCollapsingWithFirstMarginSet⟩⟩

@[scale_simp] theorem fs_inflowContentSize (k : Rat) (x : FlowState Rat) : (scale k x).inflowContentSize = scale k x.inflowContentSize := rfl
@[scale_simp] theorem fs_committedYOffset (k : Rat) (x : FlowState Rat) : (scale k x).committedYOffset = scale k x.committedYOffset := rfl
@[scale_simp] theorem fs_yOffsetForAbsolute (k : Rat) (x : FlowState Rat) : (scale k x).yOffsetForAbsolute = scale k x.yOffsetForAbsolute := rfl
@[scale_simp] theorem fs_firstChildTopMarginSet (k : Rat) (x : FlowState Rat) : (scale k x).firstChildTopMarginSet = scale k x.firstChildTopMarginSet := rfl
@[scale_simp] theorem fs_activeCollapsibleMarginSet (k : Rat) (x : FlowState Rat) : (scale k x).activeCollapsibleMarginSet = scale k x.activeCollapsibleMarginSet := rfl
@[scale_simp] theorem fs_isCollapsingWithFirstMarginSet (k : Rat) (x : FlowState Rat) : (scale k x).isCollapsingWithFirstMarginSet = x.isCollapsingWithFirstMarginSet := rfl
@[scale_simp] theorem scale_fs_mk (k : Rat) (a0 : Size Rat) (a1 : Rat) (a2 : Rat) (a3 : MarginSet Rat) (a4 : MarginSet Rat) (a5 : Bool) :
    scale k (FlowState.mk a0 a1 a2 a3 a4 a5 : FlowState Rat) = ⟨scale k a0, scale k a1, scale k a2, scale k a3, scale k a4, a5⟩ := rfl

instance : Scalable (InnerCtx Rat) :=
  ⟨fun k x => ⟨scale k x.padding, scale k x.border, scale k x.scrollbarGutter, scale k x.paddingBorderSize, scale k x.contentBoxInset, scale k x.containerContentBoxSize, scale k x.size, scale k x.minSize, scale k x.maxSize, x.ownMarginsCollapseWithChildren, x.hasStylesPreventingBeingCollapsedThrough⟩⟩

@[scale_simp] theorem ic_padding (k : Rat) (x : InnerCtx Rat) : (scale k x).padding = scale k x.padding := rfl
@[scale_simp] theorem ic_border (k : Rat) (x : InnerCtx Rat) : (scale k x).border = scale k x.border := rfl
@[scale_simp] theorem ic_scrollbarGutter (k : Rat) (x : InnerCtx Rat) : (scale k x).scrollbarGutter = scale k x.scrollbarGutter := rfl
@[scale_simp] theorem ic_paddingBorderSize (k : Rat) (x : InnerCtx Rat) : (scale k x).paddingBorderSize = scale k x.paddingBorderSize := rfl
@[scale_simp] theorem ic_contentBoxInset (k : Rat) (x : InnerCtx Rat) : (scale k x).contentBoxInset = scale k x.contentBoxInset := rfl
@[scale_simp] theorem ic_containerContentBoxSize (k : Rat) (x : InnerCtx Rat) : (scale k x).containerContentBoxSize = scale k x.containerContentBoxSize := rfl
@[scale_simp] theorem ic_size (k : Rat) (x : InnerCtx Rat) : (scale k x).size = scale k x.size := rfl
@[scale_simp] theorem ic_minSize (k : Rat) (x : InnerCtx Rat) : (scale k x).minSize = scale k x.minSize := rfl
@[scale_simp] theorem ic_maxSize (k : Rat) (x : InnerCtx Rat) : (scale k x).maxSize = scale k x.maxSize := rfl
@[scale_simp] theorem ic_ownMarginsCollapseWithChildren (k : Rat) (x : InnerCtx Rat) : (scale k x).ownMarginsCollapseWithChildren = x.ownMarginsCollapseWithChildren := rfl
@[scale_simp] theorem ic_hasStylesPreventingBeingCollapsedThrough (k : Rat) (x : InnerCtx Rat) : (scale k x).hasStylesPreventingBeingCollapsedThrough = x.hasStylesPreventingBeingCollapsedThrough := rfl
@[scale_simp] theorem scale_ic_mk (k : Rat) (a0 : Rect Rat) (a1 : Rect Rat) (a2 : Rect Rat) (a3 : Size Rat) (a4 : Rect Rat) (a5 : Size (Option Rat)) (a6 : Size (Option Rat)) (a7 : Size (Option Rat)) (a8 : Size (Option Rat)) (a9 : Line Bool) (a10 : Bool) :
    scale k (InnerCtx.mk a0 a1 a2 a3 a4 a5 a6 a7 a8 a9 a10 : InnerCtx Rat) = ⟨scale k a0, scale k a1, scale k a2, scale k a3, scale k a4, scale k a5, scale k a6, scale k a7, scale k a8, a9, a10⟩ := rfl


instance : Scalable (Placed Rat) := ⟨fun k p => ⟨scale k p.st, scale k p.item, scale k p.layout⟩⟩
@[scale_simp] theorem pl_st (k : Rat) (p : Placed Rat) : (scale k p).st = scale k p.st := rfl
@[scale_simp] theorem pl_item (k : Rat) (p : Placed Rat) : (scale k p).item = scale k p.item := rfl
@[scale_simp] theorem pl_layout (k : Rat) (p : Placed Rat) : (scale k p).layout = scale k p.layout := rfl
@[scale_simp] theorem scale_pl_mk (k : Rat) (a : FlowState Rat) (b : BlockItem Rat) (c : Layout Rat) :
    scale k (Placed.mk a b c) = ⟨scale k a, scale k b, scale k c⟩ := rfl

variable {k : Rat}

/-! ### small helpers -/

@[scale_simp] theorem resolveStyleSize_scale (hk : 0 < k) (d : Size (Dimension Rat)) (ctx : Size (Option Rat))
    (ar : Option Rat) (adj : Size Rat) :
    resolveStyleSize (scale k d) (scale k ctx) ar (scale k adj) = scale k (resolveStyleSize d ctx ar adj) := by
  simp only [resolveStyleSize, scale_simp, hk]

@[scale_simp] theorem resolveStyleSize_scale_some (hk : 0 < k) (d : Size (Dimension Rat)) (w h : Rat)
    (ar : Option Rat) (adj : Size Rat) :
    resolveStyleSize (scale k d) ⟨some (scale k w), some (scale k h)⟩ ar (scale k adj) =
      scale k (resolveStyleSize d ⟨some w, some h⟩ ar adj) :=
  resolveStyleSize_scale hk d ⟨some w, some h⟩ ar adj

@[scale_simp] theorem boxSizingAdjustment_scale (k : Rat) (s : Style Rat) (pb : Size Rat) :
    boxSizingAdjustment (scale k s) (scale k pb) = scale k (boxSizingAdjustment s pb) := by
  simp only [boxSizingAdjustment, scale_simp]

@[scale_simp] theorem Block.scrollbarGutter_scale (k : Rat) (s : Style Rat) :
    BlockModel.scrollbarGutter (scale k s) = scale k (BlockModel.scrollbarGutter s) := by
  simp only [BlockModel.scrollbarGutter, scale_simp]

attribute [scale_simp ↓] resolveStyleSize_scale boxSizingAdjustment_scale Block.scrollbarGutter_scale

/-! ### generate_item_list -/

theorem generateItem_scale (hk : 0 < k) (idx order : Nat) (cs : Style Rat) (inner : Size (Option Rat)) :
    generateItem idx order (scale k cs) (scale k inner) = scale k (generateItem idx order cs inner) := by
  simp only [generateItem, scale_bi_mk, scale_simp, hk]

theorem generateItemsFrom_scale (hk : 0 < k) (inner : Size (Option Rat)) :
    ∀ (l : List (Style Rat)) (idx order : Nat),
      generateItemsFrom (scale k inner) (scale k l) idx order = scale k (generateItemsFrom inner l idx order)
  | [], _, _ => rfl
  | cs :: rest, idx, order => by
    simp only [scale_cons, generateItemsFrom]
    rw [style_isHidden]
    by_cases h : cs.isHidden = true
    · rw [if_pos h, if_pos h]
      exact generateItemsFrom_scale hk inner rest _ _
    · rw [if_neg h, if_neg h, generateItem_scale hk, generateItemsFrom_scale hk inner rest]
      rfl

theorem generateItemList_scale (hk : 0 < k) (l : List (Style Rat)) (inner : Size (Option Rat)) :
    generateItemList (scale k l) (scale k inner) = scale k (generateItemList l inner) :=
  generateItemsFrom_scale hk inner l 0 0

/-! ### determine_content_based_container_width -/

theorem contentWidthLoop_scale (hk : 0 < k) (aw : AvailableSpace Rat) :
    ∀ (items : List (BlockItem Rat)) (acc : Rat),
      contentWidthLoop (scale k aw) (scale k items) (scale k acc) = scaleProg k (contentWidthLoop aw items acc)
  | [], acc => rfl
  | item :: rest, acc => by
    simp only [scale_cons, contentWidthLoop]
    rw [bi_position]
    by_cases hp : (item.position == Position.absolute) = true
    · rw [if_pos hp, if_pos hp]
      exact contentWidthLoop_scale hk aw rest acc
    · rw [if_neg hp, if_neg hp]
      apply bind_scale_of
      · simp only [scale_simp, hk]
        generalize (item.size.oo_clamp item.minSize item.maxSize) = kd
        obtain ⟨kw, kh⟩ := kd
        cases kw with
        | some w => rfl
        | none =>
          simp only [scale_simp]
          apply bind_scale_of
          · exact performChildLayout_scale hk item.nodeIdx ⟨none, kh⟩ Size.none ⟨_, .minContent⟩ _ _
          · intro out
            simp only [scale_simp]
            rfl
      · intro width
        simp only [scale_simp, hk]
        exact contentWidthLoop_scale hk aw rest _

/-! ### perform_final_layout_on_in_flow_children -/

@[scale_simp] theorem containerInnerWidth_scale (k : Rat) (c : FlowCtx Rat) :
    (scale k c).containerInnerWidth = scale k c.containerInnerWidth := by
  simp only [FlowCtx.containerInnerWidth, scale_simp]

theorem initState_scale (k : Rat) (c : FlowCtx Rat) : (scale k c).initState = scale k c.initState := by
  simp only [FlowCtx.initState, scale_fs_mk, scale_simp]

@[scale_simp] theorem itemMargin_scale (k : Rat) (c : FlowCtx Rat) (item : BlockItem Rat) :
    itemMargin (scale k c) (scale k item) = scale k (itemMargin c item) := by
  simp only [itemMargin, scale_simp]

@[scale_simp] theorem itemNonAutoXMarginSum_scale (k : Rat) (c : FlowCtx Rat) (item : BlockItem Rat) :
    itemNonAutoXMarginSum (scale k c) (scale k item) = scale k (itemNonAutoXMarginSum c item) := by
  simp only [itemNonAutoXMarginSum, scale_simp]

theorem itemKnownDimensions_scale (hk : 0 < k) (c : FlowCtx Rat) (item : BlockItem Rat) :
    itemKnownDimensions (scale k c) (scale k item) = scale k (itemKnownDimensions c item) := by
  simp only [itemKnownDimensions, scale_simp, hk]
  simp only [← scale_some, ← scale_size_mk]
  simp only [scale_simp, hk]

theorem itemInput_scale (hk : 0 < k) (c : FlowCtx Rat) (item : BlockItem Rat) :
    itemInput (scale k c) (scale k item) = scale k (itemInput c item) := by
  simp only [itemInput, scale_li_mk, itemKnownDimensions_scale hk, scale_simp, hk]

theorem contentSizeContribution_scale (hk : 0 < k) (loc : Point Rat) (size cs : Size Rat) (ov : Point Overflow) :
    contentSizeContribution (scale k loc) (scale k size) (scale k cs) ov =
      scale k (contentSizeContribution loc size cs ov) := by
  obtain ⟨ox, oy⟩ := ov
  cases ox <;> cases oy <;> simp only [contentSizeContribution, scale_simp, hk] <;> split <;> simp only [scale_simp]

@[scale_simp] theorem topMarginSet_scale (hk : 0 < k) (c : FlowCtx Rat) (item : BlockItem Rat) (out : LayoutOutput Rat) :
    topMarginSet (scale k c) (scale k item) (scale k out) = scale k (topMarginSet c item out) := by
  simp only [topMarginSet, scale_simp, hk]
@[scale_simp] theorem bottomMarginSet_scale (hk : 0 < k) (c : FlowCtx Rat) (item : BlockItem Rat) (out : LayoutOutput Rat) :
    bottomMarginSet (scale k c) (scale k item) (scale k out) = scale k (bottomMarginSet c item out) := by
  simp only [bottomMarginSet, scale_simp, hk]

@[scale_simp] theorem insetOffsetY_scale (k : Rat) (item : BlockItem Rat) :
    insetOffsetY (scale k item) = scale k (insetOffsetY item) := by
  simp only [insetOffsetY, scale_simp]
@[scale_simp] theorem insetOffsetX_scale (k : Rat) (c : FlowCtx Rat) (item : BlockItem Rat) :
    insetOffsetX (scale k c) (scale k item) = scale k (insetOffsetX c item) := by
  simp only [insetOffsetX, scale_simp]

@[scale_simp] theorem yMarginOffset_scale (hk : 0 < k) (c : FlowCtx Rat) (st : FlowState Rat) (ts : MarginSet Rat) :
    yMarginOffset (scale k c) (scale k st) (scale k ts) = scale k (yMarginOffset c st ts) := by
  simp only [yMarginOffset, scale_simp, hk]

/-! #### the loop body `placeItem`, cut into stages (`placeItem_eq`) -/

/-- the resolved margin of an in-flow item (auto x-margins share the free space) -/
def piMargin (c : FlowCtx Rat) (item : BlockItem Rat) (out : LayoutOutput Rat) : Rect Rat :=
  let itemMargin := itemMargin c item
  let freeXSpace := Num.fmax 0 (c.containerInnerWidth - out.size.width - itemNonAutoXMarginSum c item)
  let autoMarginCount : Nat := (if itemMargin.left.isNone then 1 else 0) + (if itemMargin.right.isNone then 1 else 0)
  let xAxisAutoMarginSize : Rat := if autoMarginCount > 0 then freeXSpace / Num.ofNat autoMarginCount else 0
  { left := itemMargin.left.getD xAxisAutoMarginSize, right := itemMargin.right.getD xAxisAutoMarginSize,
    top := (topMarginSet c item out).resolve, bottom := (bottomMarginSet c item out).resolve }

/-- `location.x` after text alignment -/
def piX (c : FlowCtx Rat) (item : BlockItem Rat) (out : LayoutOutput Rat) (rm : Rect Rat) : Rat :=
  let x0 : Rat := c.resolvedContentBoxInset.left + insetOffsetX c item + rm.left
  let itemOuterWidth := out.size.width + rm.horizontalAxisSum
  if Num.flt itemOuterWidth c.containerInnerWidth then
    match c.textAlign with
    | .auto => x0
    | .legacyLeft => x0
    | .legacyRight => x0 + (c.containerInnerWidth - itemOuterWidth)
    | .legacyCenter => x0 + (c.containerInnerWidth - itemOuterWidth) / Num.two
  else x0

def piLocation (c : FlowCtx Rat) (st : FlowState Rat) (item : BlockItem Rat) (out : LayoutOutput Rat) (rm : Rect Rat) :
    Point Rat :=
  ⟨piX c item out rm, st.committedYOffset + insetOffsetY item + yMarginOffset c st (topMarginSet c item out)⟩

def piLayout (item : BlockItem Rat) (out : LayoutOutput Rat) (rm : Rect Rat) (loc : Point Rat) : Layout Rat :=
  { order := item.order, size := out.size, contentSize := out.contentSize,
    scrollbarSize :=
      ⟨if item.overflow.y == .scroll then item.scrollbarWidth else 0,
       if item.overflow.x == .scroll then item.scrollbarWidth else 0⟩,
    location := loc, padding := item.padding, border := item.border, margin := rm }

def piFirstSet (st : FlowState Rat) (canCollapse : Bool) (topSet bottomSet : MarginSet Rat) : MarginSet Rat :=
  if st.isCollapsingWithFirstMarginSet then
    if canCollapse then (st.firstChildTopMarginSet.collapseWithSet topSet).collapseWithSet bottomSet
    else st.firstChildTopMarginSet.collapseWithSet topSet
  else st.firstChildTopMarginSet

def piState (c : FlowCtx Rat) (st : FlowState Rat) (item : BlockItem Rat) (out : LayoutOutput Rat) (loc : Point Rat) :
    FlowState Rat :=
  let topSet := topMarginSet c item out
  let bottomSet := bottomMarginSet c item out
  let ymo := yMarginOffset c st topSet
  let ics := st.inflowContentSize.f32Max (contentSizeContribution loc out.size out.contentSize item.overflow)
  let canCollapse := out.marginsCanCollapseThrough
  if canCollapse then
    { inflowContentSize := ics, committedYOffset := st.committedYOffset,
      yOffsetForAbsolute := st.committedYOffset + out.size.height + ymo,
      firstChildTopMarginSet := piFirstSet st canCollapse topSet bottomSet,
      activeCollapsibleMarginSet := (st.activeCollapsibleMarginSet.collapseWithSet topSet).collapseWithSet bottomSet,
      isCollapsingWithFirstMarginSet := st.isCollapsingWithFirstMarginSet && canCollapse }
  else
    { inflowContentSize := ics, committedYOffset := st.committedYOffset + (out.size.height + ymo),
      yOffsetForAbsolute := st.committedYOffset + (out.size.height + ymo) + bottomSet.resolve,
      firstChildTopMarginSet := piFirstSet st canCollapse topSet bottomSet,
      activeCollapsibleMarginSet := bottomSet,
      isCollapsingWithFirstMarginSet := st.isCollapsingWithFirstMarginSet && canCollapse }

theorem placeItem_eq (c : FlowCtx Rat) (st : FlowState Rat) (item : BlockItem Rat) (out : LayoutOutput Rat) :
    placeItem c st item out =
      { st := piState c st item out (piLocation c st item out (piMargin c item out)),
        item := { item with computedSize := out.size, canBeCollapsedThrough := out.marginsCanCollapseThrough,
                            staticPosition :=
                              ⟨c.resolvedContentBoxInset.left,
                               st.committedYOffset + st.activeCollapsibleMarginSet.resolve⟩ },
        layout := piLayout item out (piMargin c item out) (piLocation c st item out (piMargin c item out)) } := by
  unfold placeItem piState piLayout piLocation piX piMargin piFirstSet
  cases st.isCollapsingWithFirstMarginSet <;> cases out.marginsCanCollapseThrough <;> rfl

theorem piMargin_scale (hk : 0 < k) (c : FlowCtx Rat) (item : BlockItem Rat) (out : LayoutOutput Rat) :
    piMargin (scale k c) (scale k item) (scale k out) = scale k (piMargin c item out) := by
  simp only [piMargin, scale_simp, hk]

theorem piX_scale (hk : 0 < k) (c : FlowCtx Rat) (item : BlockItem Rat) (out : LayoutOutput Rat) (rm : Rect Rat) :
    piX (scale k c) (scale k item) (scale k out) (scale k rm) = scale k (piX c item out rm) := by
  simp only [piX, scale_simp, hk]
  cases c.textAlign <;> simp only [scale_simp, hk]

theorem piLocation_scale (hk : 0 < k) (c : FlowCtx Rat) (st : FlowState Rat) (item : BlockItem Rat)
    (out : LayoutOutput Rat) (rm : Rect Rat) :
    piLocation (scale k c) (scale k st) (scale k item) (scale k out) (scale k rm) =
      scale k (piLocation c st item out rm) := by
  simp only [piLocation, piX_scale hk, scale_simp, hk]

theorem piLayout_scale (k : Rat) (item : BlockItem Rat) (out : LayoutOutput Rat) (rm : Rect Rat) (loc : Point Rat) :
    piLayout (scale k item) (scale k out) (scale k rm) (scale k loc) = scale k (piLayout item out rm loc) := by
  simp only [piLayout, scale_l_mk, scale_simp]

theorem piFirstSet_scale (hk : 0 < k) (st : FlowState Rat) (cc : Bool) (ts bs : MarginSet Rat) :
    piFirstSet (scale k st) cc (scale k ts) (scale k bs) = scale k (piFirstSet st cc ts bs) := by
  simp only [piFirstSet, scale_simp, hk]

theorem piState_scale (hk : 0 < k) (c : FlowCtx Rat) (st : FlowState Rat) (item : BlockItem Rat) (out : LayoutOutput Rat)
    (loc : Point Rat) :
    piState (scale k c) (scale k st) (scale k item) (scale k out) (scale k loc) = scale k (piState c st item out loc) := by
  simp only [piState, piFirstSet_scale hk, contentSizeContribution_scale hk, scale_simp, hk]
  cases out.marginsCanCollapseThrough <;> simp only [scale_fs_mk, scale_simp, Bool.false_eq_true, if_false, if_true]

theorem placeItem_scale (hk : 0 < k) (c : FlowCtx Rat) (st : FlowState Rat) (item : BlockItem Rat) (out : LayoutOutput Rat) :
    placeItem (scale k c) (scale k st) (scale k item) (scale k out) = scale k (placeItem c st item out) := by
  simp only [placeItem_eq, piMargin_scale hk, piLocation_scale hk, piState_scale hk, piLayout_scale, scale_pl_mk,
    scale_simp]

theorem flowLoop_scale (hk : 0 < k) (c : FlowCtx Rat) :
    ∀ (items : List (BlockItem Rat)) (st : FlowState Rat),
      flowLoop (scale k c) (scale k items) (scale k st) = scaleProg k (flowLoop c items st)
  | [], st => rfl
  | item :: rest, st => by
    simp only [scale_cons, flowLoop]
    rw [bi_position]
    by_cases hp : (item.position == Position.absolute) = true
    · rw [if_pos hp, if_pos hp]
      apply bind_scale_of
      · exact flowLoop_scale hk c rest st
      · intro b
        obtain ⟨rest', st'⟩ := b
        simp only [scale_pair, scaleProg_pure', scale_cons, scale_bi_mk, scale_simp]
    · rw [if_neg hp, if_neg hp]
      apply bind_scale_of
      · rw [bi_nodeIdx, itemInput_scale hk]
        exact computeChildLayout_scale hk _ _
      · intro out
        simp only [placeItem_scale hk, scale_simp]
        apply bind_scale_of
        · exact setUnroundedLayout_scale k _ _
        · intro u
          apply bind_scale_of
          · exact flowLoop_scale hk c rest _
          · intro b
            obtain ⟨rest', st'⟩ := b
            rfl

theorem flowResult_scale (hk : 0 < k) (c : FlowCtx Rat) (st : FlowState Rat) :
    flowResult (scale k c) (scale k st) = scale k (flowResult c st) := by
  simp only [flowResult, scale_simp, hk]

theorem performFinalLayoutOnInFlowChildren_scale (hk : 0 < k) (c : FlowCtx Rat) (items : List (BlockItem Rat)) :
    performFinalLayoutOnInFlowChildren (scale k c) (scale k items) =
      scaleProg k (performFinalLayoutOnInFlowChildren c items) := by
  unfold performFinalLayoutOnInFlowChildren
  apply bind_scale_of
  · rw [initState_scale]
    exact flowLoop_scale hk c items _
  · intro b
    obtain ⟨items', st⟩ := b
    simp only [scale_pair, flowResult_scale hk]
    rfl

/-! ### perform_absolute_layout_on_absolute_children: the loop body `absItem`, cut into stages (`absItem_eq`) -/

/-- the child's style resolved against the area (block.rs l.602–634) -/
structure AiRes where
  margin : Rect (Option Rat)
  padding : Rect Rat
  border : Rect Rat
  left : Option Rat
  right : Option Rat
  top : Option Rat
  bottom : Option Rat
  styleSize : Size (Option Rat)
  minSize : Size (Option Rat)
  maxSize : Size (Option Rat)

def aiRes (cs : Style Rat) (areaSize : Size Rat) : AiRes :=
  let areaWidth := areaSize.width
  let areaHeight := areaSize.height
  let padding := Resolve.rectLPOrZero cs.padding (some areaWidth)
  let border := Resolve.rectLPOrZero cs.border (some areaWidth)
  let paddingBorderSum := (padding.add border).sumAxes
  let adj := boxSizingAdjustment cs paddingBorderSum
  let areaOpt : Size (Option Rat) := ⟨some areaWidth, some areaHeight⟩
  { margin := ⟨cs.margin.left.resolveToOption areaWidth, cs.margin.right.resolveToOption areaWidth,
     cs.margin.top.resolveToOption areaWidth, cs.margin.bottom.resolveToOption areaWidth⟩,
    padding, border,
    left := cs.inset.left.maybeResolve (some areaWidth),
    right := cs.inset.right.maybeResolve (some areaWidth),
    top := cs.inset.top.maybeResolve (some areaHeight),
    bottom := cs.inset.bottom.maybeResolve (some areaHeight),
    styleSize := resolveStyleSize cs.size areaOpt cs.aspectRatio adj,
    minSize := ((resolveStyleSize cs.minSize areaOpt cs.aspectRatio adj).orOpt
      ⟨some paddingBorderSum.width, some paddingBorderSum.height⟩).of_max paddingBorderSum,
    maxSize := resolveStyleSize cs.maxSize areaOpt cs.aspectRatio adj }

def aiKd1 (r : AiRes) (areaWidth : Rat) (ar : Option Rat) (kd0 : Size (Option Rat)) : Size (Option Rat) :=
    match kd0.width, r.left, r.right with
    | none, some l, some rr =>
      let newWidthRaw := MaybeMath.fo_sub (MaybeMath.fo_sub areaWidth r.margin.left) r.margin.right - l - rr
      ((⟨some (Num.fmax newWidthRaw 0), kd0.height⟩ : Size (Option Rat)).maybeApplyAspectRatio ar).oo_clamp
        r.minSize r.maxSize
    | _, _, _ => kd0

def aiKd2 (r : AiRes) (areaHeight : Rat) (ar : Option Rat) (kd1 : Size (Option Rat)) : Size (Option Rat) :=
    match kd1.height, r.top, r.bottom with
    | none, some t, some b =>
      let newHeightRaw := MaybeMath.fo_sub (MaybeMath.fo_sub areaHeight r.margin.top) r.margin.bottom - t - b
      ((⟨kd1.width, some (Num.fmax newHeightRaw 0)⟩ : Size (Option Rat)).maybeApplyAspectRatio ar).oo_clamp
        r.minSize r.maxSize
    | _, _, _ => kd1

def aiKd (cs : Style Rat) (areaSize : Size Rat) : Size (Option Rat) :=
  let r := aiRes cs areaSize
  aiKd2 r areaSize.height cs.aspectRatio (aiKd1 r areaSize.width cs.aspectRatio (r.styleSize.oo_clamp r.minSize r.maxSize))

def aiFinal (r : AiRes) (kd2 : Size (Option Rat)) (measured : Size Rat) : Size Rat :=
  (kd2.unwrapOr measured).fo_clamp r.minSize r.maxSize

def aiAuto (count : Nat) (ss : Option Rat) (free : Rat) : Rat :=
  if count == 2 && (match ss with | none => true | some w => Num.fge w free) then 0
  else if count > 0 then free / Num.ofNat count else 0

def aiMargin (r : AiRes) (areaSize finalSize : Size Rat) : Rect Rat :=
  let nonAutoMargin : Rect Rat :=
    { left := if r.left.isSome then r.margin.left.getD 0 else 0,
      right := if r.right.isSome then r.margin.right.getD 0 else 0,
      top := if r.top.isSome then r.margin.top.getD 0 else 0,
      bottom := if r.bottom.isSome then r.margin.bottom.getD 0 else 0 }
  let spaceX : Rat := match r.right with
    | some rr => areaSize.width - rr - r.left.getD 0
    | none => finalSize.width
  let spaceY : Rat := match r.bottom with
    | some b => areaSize.height - b - r.top.getD 0
    | none => finalSize.height
  let freeW := spaceX - finalSize.width - nonAutoMargin.horizontalAxisSum
  let freeH := spaceY - finalSize.height - nonAutoMargin.verticalAxisSum
  let countW : Nat := (if r.margin.left.isNone then 1 else 0) + (if r.margin.right.isNone then 1 else 0)
  let autoW : Rat := aiAuto countW r.styleSize.width freeW
  let countH : Nat := (if r.margin.top.isNone then 1 else 0) + (if r.margin.bottom.isNone then 1 else 0)
  let autoH : Rat := aiAuto countH r.styleSize.height freeH
  { left := r.margin.left.getD autoW, right := r.margin.right.getD autoW,
    top := r.margin.top.getD autoH, bottom := r.margin.bottom.getD autoH }

def aiLoc (r : AiRes) (static : Point Rat) (areaSize : Size Rat) (areaOffset : Point Rat) (finalSize : Size Rat)
    (rm : Rect Rat) : Point Rat :=
  ⟨(MaybeMath.of_add ((r.left.map fun l => l + rm.left).or
        (r.right.map fun rr => areaSize.width - finalSize.width - rr - rm.right)) areaOffset.x).getD
      (static.x + rm.left),
   (MaybeMath.of_add ((r.top.map fun t => t + rm.top).or
        (r.bottom.map fun b => areaSize.height - finalSize.height - b - rm.bottom)) areaOffset.y).getD
      (static.y + rm.top)⟩

def aiLayout (item : BlockItem Rat) (cs : Style Rat) (areaSize : Size Rat) (areaOffset : Point Rat)
    (out : LayoutOutput Rat) : Layout Rat :=
  let r := aiRes cs areaSize
  let finalSize := aiFinal r (aiKd cs areaSize) out.size
  let rm := aiMargin r areaSize finalSize
  { order := item.order, size := finalSize, contentSize := out.contentSize,
    scrollbarSize := ⟨if item.overflow.y == .scroll then item.scrollbarWidth else 0,
     if item.overflow.x == .scroll then item.scrollbarWidth else 0⟩,
    location := aiLoc r item.staticPosition areaSize areaOffset finalSize rm,
    padding := r.padding, border := r.border, margin := rm }

theorem absItem_eq (item : BlockItem Rat) (cs : Style Rat) (areaSize : Size Rat) (areaOffset : Point Rat) (acc : Size Rat) :
    absItem item cs areaSize areaOffset acc =
      (do
        let out ← ProgM.performChildLayout item.nodeIdx (aiKd cs areaSize) ⟨some areaSize.width, some areaSize.height⟩
          ⟨.definite (MaybeMath.fo_clamp areaSize.width (aiRes cs areaSize).minSize.width (aiRes cs areaSize).maxSize.width),
           .definite (MaybeMath.fo_clamp areaSize.height (aiRes cs areaSize).minSize.height (aiRes cs areaSize).maxSize.height)⟩
          .contentSize ⟨false, false⟩
        let l := aiLayout item cs areaSize areaOffset out
        ProgM.setUnroundedLayout item.nodeIdx l
        pure (acc.f32Max (contentSizeContribution l.location l.size out.contentSize item.overflow))) := by
  unfold absItem aiLayout aiLoc aiMargin aiAuto aiFinal aiKd aiKd2 aiKd1 aiRes
  unfold BlockModel.absItem.match_1 BlockModel.absItem.match_5 BlockModel.contentWidthLoop.match_1 aiKd1.match_1
    aiAuto.match_1 aiMargin.match_1
  rfl

instance : Scalable (AiRes) :=
  ⟨fun k x => ⟨scale k x.margin, scale k x.padding, scale k x.border, scale k x.left, scale k x.right, scale k x.top, scale k x.bottom, scale k x.styleSize, scale k x.minSize, scale k x.maxSize⟩⟩

@[scale_simp] theorem ar_margin (k : Rat) (x : AiRes) : (scale k x).margin = scale k x.margin := rfl
@[scale_simp] theorem ar_padding (k : Rat) (x : AiRes) : (scale k x).padding = scale k x.padding := rfl
@[scale_simp] theorem ar_border (k : Rat) (x : AiRes) : (scale k x).border = scale k x.border := rfl
@[scale_simp] theorem ar_left (k : Rat) (x : AiRes) : (scale k x).left = scale k x.left := rfl
@[scale_simp] theorem ar_right (k : Rat) (x : AiRes) : (scale k x).right = scale k x.right := rfl
@[scale_simp] theorem ar_top (k : Rat) (x : AiRes) : (scale k x).top = scale k x.top := rfl
@[scale_simp] theorem ar_bottom (k : Rat) (x : AiRes) : (scale k x).bottom = scale k x.bottom := rfl
@[scale_simp] theorem ar_styleSize (k : Rat) (x : AiRes) : (scale k x).styleSize = scale k x.styleSize := rfl
@[scale_simp] theorem ar_minSize (k : Rat) (x : AiRes) : (scale k x).minSize = scale k x.minSize := rfl
@[scale_simp] theorem ar_maxSize (k : Rat) (x : AiRes) : (scale k x).maxSize = scale k x.maxSize := rfl
@[scale_simp] theorem scale_ar_mk (k : Rat) (a0 : Rect (Option Rat)) (a1 : Rect Rat) (a2 : Rect Rat) (a3 : Option Rat) (a4 : Option Rat) (a5 : Option Rat) (a6 : Option Rat) (a7 : Size (Option Rat)) (a8 : Size (Option Rat)) (a9 : Size (Option Rat)) :
    scale k (AiRes.mk a0 a1 a2 a3 a4 a5 a6 a7 a8 a9 : AiRes) = ⟨scale k a0, scale k a1, scale k a2, scale k a3, scale k a4, scale k a5, scale k a6, scale k a7, scale k a8, scale k a9⟩ := rfl

theorem aiRes_scale (hk : 0 < k) (cs : Style Rat) (areaSize : Size Rat) :
    aiRes (scale k cs) (scale k areaSize) = scale k (aiRes cs areaSize) := by
  simp only [aiRes, scale_simp, hk]
  simp only [← scale_some, ← scale_size_mk]
  simp only [scale_ar_mk, scale_simp, hk]

theorem aiKd1_scale (hk : 0 < k) (r : AiRes) (aw : Rat) (ar : Option Rat) (kd0 : Size (Option Rat)) :
    aiKd1 (scale k r) (scale k aw) ar (scale k kd0) = scale k (aiKd1 r aw ar kd0) := by
  obtain ⟨margin, padding, border, left, right, top, bottom, ss, mn, mx⟩ := r
  obtain ⟨w, h⟩ := kd0
  cases w <;> cases left <;> cases right <;> simp only [aiKd1, scale_simp, hk]
  simp only [← scale_some, ← scale_size_mk]
  simp only [scale_simp, hk]

theorem aiKd2_scale (hk : 0 < k) (r : AiRes) (ah : Rat) (ar : Option Rat) (kd1 : Size (Option Rat)) :
    aiKd2 (scale k r) (scale k ah) ar (scale k kd1) = scale k (aiKd2 r ah ar kd1) := by
  obtain ⟨margin, padding, border, left, right, top, bottom, ss, mn, mx⟩ := r
  obtain ⟨w, h⟩ := kd1
  cases h <;> cases top <;> cases bottom <;> simp only [aiKd2, scale_simp, hk]
  simp only [← scale_some, ← scale_size_mk]
  simp only [scale_simp, hk]

theorem aiKd_scale (hk : 0 < k) (cs : Style Rat) (areaSize : Size Rat) :
    aiKd (scale k cs) (scale k areaSize) = scale k (aiKd cs areaSize) := by
  simp only [aiKd, aiRes_scale hk, aiKd1_scale hk, aiKd2_scale hk, scale_simp, hk]

theorem aiFinal_scale (hk : 0 < k) (r : AiRes) (kd2 : Size (Option Rat)) (measured : Size Rat) :
    aiFinal (scale k r) (scale k kd2) (scale k measured) = scale k (aiFinal r kd2 measured) := by
  simp only [aiFinal, scale_simp, hk]

@[scale_simp] theorem aiAuto_scale (hk : 0 < k) (n : Nat) (ss : Option Rat) (free : Rat) :
    aiAuto n (scale k ss) (scale k free) = scale k (aiAuto n ss free) := by
  cases ss <;> simp only [aiAuto, scale_simp, hk]

theorem aiMargin_scale (hk : 0 < k) (r : AiRes) (areaSize finalSize : Size Rat) :
    aiMargin (scale k r) (scale k areaSize) (scale k finalSize) = scale k (aiMargin r areaSize finalSize) := by
  obtain ⟨margin, padding, border, left, right, top, bottom, ss, mn, mx⟩ := r
  cases right <;> cases bottom <;>
    simp only [aiMargin, Rect.horizontalAxisSum, Rect.verticalAxisSum, scale_simp, hk, Option.isSome_some,
      Option.isSome_none]

theorem aiLoc_scale (hk : 0 < k) (r : AiRes) (static : Point Rat) (areaSize : Size Rat) (areaOffset : Point Rat)
    (finalSize : Size Rat) (rm : Rect Rat) :
    aiLoc (scale k r) (scale k static) (scale k areaSize) (scale k areaOffset) (scale k finalSize) (scale k rm) =
      scale k (aiLoc r static areaSize areaOffset finalSize rm) := by
  obtain ⟨margin, padding, border, left, right, top, bottom, ss, mn, mx⟩ := r
  cases left <;> cases right <;> cases top <;> cases bottom <;>
    simp only [aiLoc, scale_simp, hk, Option.map_none, Option.map_some, Option.none_or, Option.some_or,
      MaybeMath.of_add, Option.getD_none, Option.getD_some]

theorem aiLayout_scale (hk : 0 < k) (item : BlockItem Rat) (cs : Style Rat) (areaSize : Size Rat) (areaOffset : Point Rat)
    (out : LayoutOutput Rat) :
    aiLayout (scale k item) (scale k cs) (scale k areaSize) (scale k areaOffset) (scale k out) =
      scale k (aiLayout item cs areaSize areaOffset out) := by
  simp only [aiLayout, aiRes_scale hk, aiKd_scale hk, aiFinal_scale hk, aiMargin_scale hk, aiLoc_scale hk, scale_l_mk,
    scale_simp, hk]

theorem absItem_scale (hk : 0 < k) (item : BlockItem Rat) (cs : Style Rat) (areaSize : Size Rat) (areaOffset : Point Rat)
    (acc : Size Rat) :
    absItem (scale k item) (scale k cs) (scale k areaSize) (scale k areaOffset) (scale k acc) =
      scaleProg k (absItem item cs areaSize areaOffset acc) := by
  rw [absItem_eq, absItem_eq]
  apply bind_scale_of
  · simp only [aiRes_scale hk, aiKd_scale hk, scale_simp, hk]
    exact performChildLayout_scale hk item.nodeIdx _ ⟨some areaSize.width, some areaSize.height⟩
      ⟨.definite _, .definite _⟩ _ _
  · intro out
    simp only [aiLayout_scale hk]
    apply bind_scale_of
    · exact setUnroundedLayout_scale k _ _
    · intro u
      simp only [contentSizeContribution_scale hk, scale_simp, hk]
      rfl

theorem absLoop_scale (hk : 0 < k) (styleOf : Nat → Option (Style Rat)) (areaSize : Size Rat) (areaOffset : Point Rat) :
    ∀ (items : List (BlockItem Rat)) (acc : Size Rat),
      absLoop (fun i => scale k (styleOf i)) (scale k areaSize) (scale k areaOffset) (scale k items) (scale k acc) =
        scaleProg k (absLoop styleOf areaSize areaOffset items acc)
  | [], acc => rfl
  | item :: rest, acc => by
    simp only [scale_cons, absLoop]
    rw [bi_position, bi_nodeIdx]
    by_cases hp : (item.position == Position.absolute) = true
    · rw [if_pos hp, if_pos hp]
      cases hs : styleOf item.nodeIdx with
      | none =>
        simp only [scale_none]
        exact absLoop_scale hk styleOf areaSize areaOffset rest acc
      | some cs =>
        simp only [scale_some]
        rw [style_isHidden, style_position]
        by_cases hc : (cs.isHidden || cs.position != Position.absolute) = true
        · rw [if_pos hc, if_pos hc]
          exact absLoop_scale hk styleOf areaSize areaOffset rest acc
        · rw [if_neg hc, if_neg hc]
          apply bind_scale_of
          · exact absItem_scale hk item cs areaSize areaOffset acc
          · intro acc'
            exact absLoop_scale hk styleOf areaSize areaOffset rest acc'
    · rw [if_neg hp, if_neg hp]
      exact absLoop_scale hk styleOf areaSize areaOffset rest acc

theorem hiddenLoop_scale (hk : 0 < k) : ∀ (l : List (Style Rat)) (order : Nat),
    hiddenLoop (scale k l) order = scaleProg k (hiddenLoop l order)
  | [], _ => rfl
  | cs :: rest, order => by
    simp only [scale_cons, hiddenLoop]
    rw [style_isHidden]
    by_cases h : cs.isHidden = true
    · rw [if_pos h, if_pos h]
      apply bind_scale_of
      · exact performChildLayout_scale hk order Size.none Size.none ⟨.maxContent, .maxContent⟩ _ _
      · intro o
        apply bind_scale_of
        · have := setUnroundedLayout_scale k order (Layout.withOrder order)
          rwa [scale_l_withOrder] at this
        · intro u
          exact hiddenLoop_scale hk rest _
    · rw [if_neg h, if_neg h]
      exact hiddenLoop_scale hk rest _

/-! ### compute_inner -/

theorem gt0_scale (hk : 0 < k) (o : Option Rat) :
    (match scale k o with | some h => Num.fgt h 0 | none => false) = (match o with | some h => Num.fgt h 0 | none => false) := by
  cases o <;> simp only [scale_simp, hk]

theorem innerCtx_scale (hk : 0 < k) (style : Style Rat) (inputs : LayoutInput Rat) :
    innerCtx (scale k style) (scale k inputs) = scale k (innerCtx style inputs) := by
  simp only [innerCtx, scale_ic_mk, scale_simp, hk]
  generalize (resolveStyleSize style.size _ _ _).height = a
  generalize inputs.knownDimensions.height = b
  generalize (resolveStyleSize style.minSize _ _ _).height = c
  cases a <;> cases b <;> cases c <;> simp only [scale_simp, hk]

theorem allInFlowCollapsible_scale (k : Rat) (items : List (BlockItem Rat)) :
    allInFlowCollapsible (scale k items) = allInFlowCollapsible items :=
  all_scale k (fun item : BlockItem Rat => item.position == .absolute || item.canBeCollapsedThrough) (fun _ => rfl) items

theorem innerOutput_scale (hk : 0 < k) (style : Style Rat) (ps : Size (Option Rat)) (ic : InnerCtx Rat)
    (items : List (BlockItem Rat)) (fos ics acs : Size Rat) (ft lb : MarginSet Rat) :
    innerOutput (scale k style) (scale k ps) (scale k ic) (scale k items) (scale k fos) (scale k ics) (scale k acs)
        (scale k ft) (scale k lb) =
      scale k (innerOutput style ps ic items fos ics acs ft lb) := by
  simp only [innerOutput, scale_lo_mk, allInFlowCollapsible_scale, scale_simp, hk]
  cases ic.ownMarginsCollapseWithChildren.start <;> cases ic.ownMarginsCollapseWithChildren.end <;>
    simp only [scale_ms_zero, Bool.false_eq_true, if_false, if_true]

theorem flowCtxOf_scale (hk : 0 < k) (style : Style Rat) (ic : InnerCtx Rat) (w : Rat) :
    flowCtxOf (scale k style) (scale k ic) (scale k w) = scale k (flowCtxOf style ic w) := by
  simp only [flowCtxOf, scale_fc_mk, scale_simp, hk]

theorem containerWidthProg_scale (hk : 0 < k) (ic : InnerCtx Rat) (items : List (BlockItem Rat)) (inputs : LayoutInput Rat) :
    containerWidthProg (scale k ic) (scale k items) (scale k inputs) = scaleProg k (containerWidthProg ic items inputs) := by
  unfold containerWidthProg
  simp only [scale_simp, hk]
  cases inputs.knownDimensions.width with
  | some w => rfl
  | none =>
    simp only [scale_none]
    apply bind_scale_of
    · have := contentWidthLoop_scale hk (MaybeMath.af_sub inputs.availableSpace.width ic.contentBoxInset.horizontalAxisSum) items 0
      rwa [scale_zero] at this
    · intro w
      simp only [scale_simp, hk]
      rfl

/-- steps 3–7 of `compute_inner` (everything after the first short-circuit) -/
def innerTail (style : Style Rat) (childStyles : List (Style Rat)) (inputs : LayoutInput Rat) (ic : InnerCtx Rat)
    (items : List (BlockItem Rat)) (containerOuterWidth : Rat) : ProgM Rat (LayoutOutput Rat) := do
  let knownDimensions := inputs.knownDimensions
  let parentSize := inputs.parentSize
  let runMode := inputs.runMode
  let resolvedBorder := Resolve.rectLPOrZero style.border (some containerOuterWidth)
  let fc : FlowCtx Rat := flowCtxOf style ic containerOuterWidth
  let (items, (inflowContentSize, intrinsicOuterHeight, firstChildTopMarginSet, lastChildBottomMarginSet)) ←
    performFinalLayoutOnInFlowChildren fc items
  let containerOuterHeight := MaybeMath.fo_max
    (knownDimensions.height.getD (MaybeMath.fo_clamp intrinsicOuterHeight ic.minSize.height ic.maxSize.height))
    (some ic.paddingBorderSize.height)
  let finalOuterSize : Size Rat := ⟨containerOuterWidth, containerOuterHeight⟩
  if runMode == .computeSize then pure (LayoutOutput.fromOuterSize finalOuterSize) else
  let absolutePositionInset := resolvedBorder.add ic.scrollbarGutter
  let absolutePositionArea := finalOuterSize.sub absolutePositionInset.sumAxes
  let absolutePositionOffset : Point Rat := ⟨absolutePositionInset.left, absolutePositionInset.top⟩
  let absoluteContentSize ← absLoop (fun i => childStyles[i]?) absolutePositionArea absolutePositionOffset items Size.zero
  hiddenLoop childStyles 0
  pure (innerOutput style parentSize ic items finalOuterSize inflowContentSize absoluteContentSize
    firstChildTopMarginSet lastChildBottomMarginSet)

/-- `compute_inner` re-bracketed: width, first short-circuit, tail -/
def innerBody (style : Style Rat) (childStyles : List (Style Rat)) (inputs : LayoutInput Rat) :
    ProgM Rat (LayoutOutput Rat) := do
  let ic := innerCtx style inputs
  let items := generateItemList childStyles ic.containerContentBoxSize
  let w ← containerWidthProg ic items inputs
  match inputs.runMode, inputs.knownDimensions.height with
  | .computeSize, some h => pure (LayoutOutput.fromOuterSize ⟨w, h⟩)
  | _, _ => innerTail style childStyles inputs ic items w

theorem computeInner_eq (style : Style Rat) (childStyles : List (Style Rat)) (inputs : LayoutInput Rat) :
    computeInner style childStyles inputs = innerBody style childStyles inputs := by
  unfold computeInner innerBody innerTail
  unfold BlockModel.computeInner.match_1 BlockModel.computeInner.match_3 innerBody.match_1 innerTail.match_1
  rfl

theorem getElem?_fun_scale (k : Rat) (l : List (Style Rat)) :
    (fun (i : Nat) => (scale k l)[i]?) = fun (i : Nat) => scale k (l[i]?) := by
  funext i
  exact getElem?_scale k l i

theorem innerTail_scale (hk : 0 < k) (style : Style Rat) (childStyles : List (Style Rat)) (inputs : LayoutInput Rat)
    (ic : InnerCtx Rat) (items : List (BlockItem Rat)) (w : Rat) :
    innerTail (scale k style) (scale k childStyles) (scale k inputs) (scale k ic) (scale k items) (scale k w) =
      scaleProg k (innerTail style childStyles inputs ic items w) := by
  unfold innerTail
  apply bind_scale_of
  · rw [flowCtxOf_scale hk]
    exact performFinalLayoutOnInFlowChildren_scale hk _ _
  · intro b
    obtain ⟨items', ics, ioh, ft, lb⟩ := b
    dsimp only
    rw [li_runMode]
    by_cases hc : (inputs.runMode == RunMode.computeSize) = true
    · rw [if_pos hc, if_pos hc]
      simp only [scale_simp, hk]
      rfl
    · rw [if_neg hc, if_neg hc, getElem?_fun_scale]
      apply bind_scale_of
      · have := absLoop_scale hk (fun (i : Nat) => childStyles[i]?)
          ((⟨w, MaybeMath.fo_max (inputs.knownDimensions.height.getD (MaybeMath.fo_clamp ioh ic.minSize.height
              ic.maxSize.height)) (some ic.paddingBorderSize.height)⟩ : Size Rat).sub
            ((Resolve.rectLPOrZero style.border (some w)).add ic.scrollbarGutter).sumAxes)
          ⟨((Resolve.rectLPOrZero style.border (some w)).add ic.scrollbarGutter).left,
           ((Resolve.rectLPOrZero style.border (some w)).add ic.scrollbarGutter).top⟩ items' Size.zero
        simp only [scale_simp, hk] at this
        simp only [scale_simp, hk]
        simp only [← scale_size_mk]
        simp only [scale_simp, hk]
        exact this
      · intro acs
        apply bind_scale_of
        · exact hiddenLoop_scale hk childStyles 0
        · intro u
          simp only [scale_simp, hk]
          simp only [← scale_size_mk]
          simp only [innerOutput_scale hk]
          rfl

theorem computeInner_scale (hk : 0 < k) (style : Style Rat) (childStyles : List (Style Rat)) (inputs : LayoutInput Rat) :
    computeInner (scale k style) (scale k childStyles) (scale k inputs) =
      scaleProg k (computeInner style childStyles inputs) := by
  rw [computeInner_eq, computeInner_eq]
  unfold innerBody
  dsimp only
  rw [innerCtx_scale hk, ic_containerContentBoxSize, generateItemList_scale hk]
  apply bind_scale_of
  · exact containerWidthProg_scale hk _ _ _
  · intro w
    rw [li_runMode, li_knownDimensions, scale_size_height]
    cases inputs.runMode <;> cases inputs.knownDimensions.height <;>
      first
        | exact innerTail_scale hk style childStyles inputs _ _ w
        | (simp only [scale_some, scale_simp]; rfl)

/-- `styled_based_known_dimensions` -/
theorem styledBasedKnownDimensions_scale (hk : 0 < k) (style : Style Rat) (inputs : LayoutInput Rat) :
    styledBasedKnownDimensions (scale k style) (scale k inputs) = scale k (styledBasedKnownDimensions style inputs) := by
  simp only [styledBasedKnownDimensions, scale_simp, hk]
  generalize resolveStyleSize style.minSize _ _ _ = mn
  generalize resolveStyleSize style.maxSize _ _ _ = mx
  obtain ⟨mnw, mnh⟩ := mn
  obtain ⟨mxw, mxh⟩ := mx
  cases mnw <;> cases mnh <;> cases mxw <;> cases mxh <;>
    simp only [Size.orOpt, Size.of_max, scale_simp, hk, Option.or_none]

/-- **block**: the whole of `compute_block_layout`, as an interaction program, commutes with scaling -/
theorem computeBlockLayout_scale (hk : 0 < k) (style : Style Rat) (childStyles : List (Style Rat))
    (inputs : LayoutInput Rat) :
    computeBlockLayout (scale k style) (childStyles.map (scale k)) (scale k inputs) =
      scaleProg k (computeBlockLayout style childStyles inputs) := by
  unfold computeBlockLayout
  dsimp only
  rw [styledBasedKnownDimensions_scale hk, li_runMode]
  have key : ∀ kd : Size (Option Rat),
      computeInner (scale k style) (childStyles.map (scale k))
          { runMode := inputs.runMode, sizingMode := (scale k inputs).sizingMode, axis := (scale k inputs).axis,
            knownDimensions := scale k kd,
            parentSize := (scale k inputs).parentSize, availableSpace := (scale k inputs).availableSpace,
            verticalMarginsAreCollapsible := (scale k inputs).verticalMarginsAreCollapsible } =
        scaleProg k (computeInner style childStyles { inputs with knownDimensions := kd }) :=
    fun kd => computeInner_scale hk style childStyles { inputs with knownDimensions := kd }
  generalize styledBasedKnownDimensions style inputs = kd at key ⊢
  obtain ⟨w, h⟩ := kd
  revert key
  cases inputs.runMode <;> intro key <;> cases w <;> cases h <;>
    first
      | exact key _
      | (simp only [scale_simp]; rfl)

end C04
