/-
  C10, tree-level theorem — part 4: the in-flow pass of block.rs as a pure walk over the child styles (`walk`), the
  relation between its loop state and the state of the specification's `flow` (`StateRel`), and what the walk leaves
  behind when every in-flow child's answer says about the child's subtree what the specification says (`Meets`):
  the final active set is the specification's `trailing`, the first-child set its `leading`, "all in-flow items can be
  collapsed through" its `allThrough` (`walk_final`).
-/
import TaffyVerif.Lemmas.C10TreeStyle

set_option linter.unusedSectionVars false

namespace C10Thm
open MarginCollapse BlockModel C10Tree C10Conv

/-- the in-flow pass (`generate_item_list` + the loop of `perform_final_layout_on_in_flow_children`) as a pure function of
the child styles, for a pure oracle `ans`: the updated items, the final loop state, the layouts set (in order) -/
def walk (c : FlowCtx Rat) (inner : Size (Option Rat)) (ans : Nat → LayoutInput Rat → LayoutOutput Rat) :
    List (Style Rat) → Nat → Nat → FlowState Rat → List (BlockItem Rat) × FlowState Rat × List (Nat × Layout Rat)
  | [], _, _, st => ([], st, [])
  | cs :: rest, idx, order, st =>
    if cs.isHidden then walk c inner ans rest (idx + 1) order st
    else if cs.position == .absolute then
      let r := walk c inner ans rest (idx + 1) (order + 1) st
      ({ generateItem idx order cs inner with
          staticPosition := ⟨c.resolvedContentBoxInset.left, st.yOffsetForAbsolute⟩ } :: r.1, r.2.1, r.2.2)
    else
      let p := placeItem c st (generateItem idx order cs inner) (ans idx (itemInput c (generateItem idx order cs inner)))
      let r := walk c inner ans rest (idx + 1) (order + 1) p.st
      (p.item :: r.1, r.2.1, (idx, p.layout) :: r.2.2)

/-- the child's output says about the child's subtree what the specification says -/
structure Meets (T : Tree) (out : LayoutOutput Rat) : Prop where
  through : out.marginsCanCollapseThrough = collapsesThrough T
  top : out.topMargin.collapseWithMargin T.box.marginTop = toSet (topSet T)
  bottom : out.bottomMargin.collapseWithMargin T.box.marginBottom = toSet (bottomSet T)
  height0 : out.marginsCanCollapseThrough = true → out.size.height = 0

/-- `style.size.height` clamped by `min-height`: the known height every block container passes to an in-flow child -/
def styledH (s : Style Rat) : Option Rat := MaybeMath.oo_clamp (dimO s.size.height) (dimO s.minSize.height) none

/-- the inputs an in-flow child of a block container is queried with in the final pass (and in the width probe) -/
structure InFlowIn (s : Style Rat) (inp : LayoutInput Rat) : Prop where
  mode : inp.runMode = .performLayout
  sizing : inp.sizingMode = .inherentSize
  vmc : inp.verticalMarginsAreCollapsible = ⟨true, true⟩
  height : inp.knownDimensions.height = styledH s

def kidInFlow (t : STree Rat) : Bool := !(t.style.display == .none) && !(t.style.position == .absolute)

theorem styleTree_box (t : STree Rat) : (styleTree t).box = sbox t.style t.ctx Layout.new := by
  cases t; simp only [styleTree, Tree.box, STree.style, STree.ctx]

theorem styleTree_inFlow (t : STree Rat) : (styleTree t).box.inFlow = kidInFlow t := by
  rw [styleTree_box]; rfl

/-- every in-flow child of the list answers its final-pass query as the specification says (children indexed from `idx`) -/
def KidsMeet (ans : Nat → LayoutInput Rat → LayoutOutput Rat) : Nat → List (STree Rat) → Prop
  | _, [] => True
  | idx, t :: ts =>
    (kidInFlow t = true → ∀ inp, InFlowIn t.style inp → Meets (styleTree t) (ans idx inp)) ∧ KidsMeet ans (idx + 1) ts

def trailFrom (pending : List Rat) (Ts : List Tree) : List Rat :=
  if allThrough Ts then pending ++ trailing Ts else trailing Ts
def leadFrom (acc : List Rat) (isFirst : Bool) (Ts : List Tree) : List Rat :=
  if isFirst then acc ++ leading Ts else acc

theorem itemInput_inFlowIn (c : FlowCtx Rat) (idx order : Nat) (cs : Style Rat) (inner : Size (Option Rat)) (h : Px cs) :
    InFlowIn cs (itemInput c (generateItem idx order cs inner)) := by
  obtain ⟨e1, e2, e3⟩ := item_sizes idx order cs inner h
  refine ⟨rfl, rfl, rfl, ?_⟩
  have ht : (generateItem idx order cs inner).isTable = false := h.tbl
  simp only [itemInput, itemKnownDimensions, ht, e1, e2, e3, Size.oo_clamp, styledH]
  rfl


/-! ### projections of one loop iteration -/

theorem placeItem_first_through (c : FlowCtx Rat) (st : FlowState Rat) (item : BlockItem Rat) (out : LayoutOutput Rat)
    (h : out.marginsCanCollapseThrough = true) :
    (placeItem c st item out).st.firstChildTopMarginSet =
      if st.isCollapsingWithFirstMarginSet then
        (st.firstChildTopMarginSet.collapseWithSet (topMarginSet c item out)).collapseWithSet (bottomMarginSet c item out)
      else st.firstChildTopMarginSet := by
  cases hf : st.isCollapsingWithFirstMarginSet <;> simp [placeItem, h, hf]

theorem placeItem_first_solid (c : FlowCtx Rat) (st : FlowState Rat) (item : BlockItem Rat) (out : LayoutOutput Rat)
    (h : out.marginsCanCollapseThrough = false) :
    (placeItem c st item out).st.firstChildTopMarginSet =
      if st.isCollapsingWithFirstMarginSet then st.firstChildTopMarginSet.collapseWithSet (topMarginSet c item out)
      else st.firstChildTopMarginSet := by
  cases hf : st.isCollapsingWithFirstMarginSet <;> simp [placeItem, h, hf]

theorem placeItem_item (c : FlowCtx Rat) (st : FlowState Rat) (item : BlockItem Rat) (out : LayoutOutput Rat) :
    (placeItem c st item out).item.position = item.position ∧
    (placeItem c st item out).item.canBeCollapsedThrough = out.marginsCanCollapseThrough ∧
    (placeItem c st item out).item.nodeIdx = item.nodeIdx := ⟨rfl, rfl, rfl⟩

theorem trailFrom_skip (pending : List Rat) (T : Tree) (Ts : List Tree) (h : T.box.inFlow = false) :
    trailFrom pending (T :: Ts) = trailFrom pending Ts := by
  simp [trailFrom, allThrough, trailing, h]

theorem trailFrom_through (pending : List Rat) (T : Tree) (Ts : List Tree) (h : T.box.inFlow = true)
    (ht : collapsesThrough T = true) :
    trailFrom pending (T :: Ts) = trailFrom (pending ++ topSet T ++ bottomSet T) Ts := by
  cases ha : allThrough Ts <;> simp [trailFrom, allThrough, trailing, h, ht, ha]

theorem trailFrom_solid (pending : List Rat) (T : Tree) (Ts : List Tree) (h : T.box.inFlow = true)
    (ht : collapsesThrough T = false) :
    trailFrom pending (T :: Ts) = trailFrom (bottomSet T) Ts := by
  cases ha : allThrough Ts <;> simp [trailFrom, allThrough, trailing, h, ht, ha]

theorem leadFrom_skip (acc : List Rat) (f : Bool) (T : Tree) (Ts : List Tree) (h : T.box.inFlow = false) :
    leadFrom acc f (T :: Ts) = leadFrom acc f Ts := by
  simp [leadFrom, leading, h]

theorem leadFrom_through (acc : List Rat) (T : Tree) (Ts : List Tree) (h : T.box.inFlow = true)
    (ht : collapsesThrough T = true) :
    leadFrom acc true (T :: Ts) = leadFrom (acc ++ topSet T ++ bottomSet T) true Ts := by
  simp [leadFrom, leading, h, ht]

theorem leadFrom_solid (acc : List Rat) (T : Tree) (Ts : List Tree) (h : T.box.inFlow = true)
    (ht : collapsesThrough T = false) :
    leadFrom acc true (T :: Ts) = leadFrom (acc ++ topSet T) false Ts := by
  simp [leadFrom, leading, h, ht]

theorem leadFrom_false (acc : List Rat) (Ts : List Tree) : leadFrom acc false Ts = acc := rfl


theorem inFamilyCore_px (s : Style Rat) (ctx : Option (MeasureSpec Rat)) (kids : List (STree Rat))
    (h : inFamilyCore (.node s ctx kids) = true) : Px s := by
  simp only [inFamilyCore, nodeOk, Bool.and_eq_true] at h
  exact styleOk_px s ctx _ h.1.1.1

theorem sbox_marginTop (s : Style Rat) (ctx : Option (MeasureSpec Rat)) (l : Layout Rat) :
    (sbox s ctx l).marginTop = pxA s.margin.top := rfl
theorem sbox_marginBottom (s : Style Rat) (ctx : Option (MeasureSpec Rat)) (l : Layout Rat) :
    (sbox s ctx l).marginBottom = pxA s.margin.bottom := rfl

theorem walk_final (c : FlowCtx Rat) (inner : Size (Option Rat)) (ans : Nat → LayoutInput Rat → LayoutOutput Rat) :
    ∀ (kids : List (STree Rat)) (idx order : Nat) (st : FlowState Rat) (pending acc : List Rat),
      inFamilyCoreKids kids = true → KidsMeet ans idx kids →
      st.activeCollapsibleMarginSet = toSet pending → st.firstChildTopMarginSet = toSet acc →
      (walk c inner ans (kids.map STree.style) idx order st).2.1.activeCollapsibleMarginSet
          = toSet (trailFrom pending (styleKids kids)) ∧
      (walk c inner ans (kids.map STree.style) idx order st).2.1.firstChildTopMarginSet
          = toSet (leadFrom acc st.isCollapsingWithFirstMarginSet (styleKids kids)) ∧
      allInFlowCollapsible (walk c inner ans (kids.map STree.style) idx order st).1 = allThrough (styleKids kids) ∧
      (allThrough (styleKids kids) = true →
        (walk c inner ans (kids.map STree.style) idx order st).2.1.committedYOffset = st.committedYOffset) := by
  intro kids
  induction kids with
  | nil =>
    intro idx order st pending acc _ _ ha hf
    simp only [List.map_nil, walk, styleKids, trailFrom, allThrough, leadFrom, leading, trailing, List.append_nil,
      if_true, ha, hf, allInFlowCollapsible, List.all_nil, true_and, implies_true, and_true]
    cases st.isCollapsingWithFirstMarginSet <;> simp
  | cons t ts ih =>
    intro idx order st pending acc hfam hmeet ha hf
    simp only [inFamilyCoreKids, Bool.and_eq_true] at hfam
    simp only [KidsMeet] at hmeet
    cases t with
    | node s ctx gk =>
      have hpx := inFamilyCore_px s ctx gk hfam.1
      simp only [List.map_cons, STree.style, styleKids]
      by_cases hh : s.isHidden = true
      · -- display:none
        have hin : (styleTree (.node s ctx gk)).box.inFlow = false := by
          rw [styleTree_inFlow]; simp only [kidInFlow, STree.style]
          have : (s.display == Display.none) = true := hh
          rw [this]; rfl
        simp only [walk, hh, if_true, trailFrom_skip _ _ _ hin, leadFrom_skip _ _ _ _ hin, allThrough, hin,
          Bool.not_false, Bool.true_or, Bool.true_and]
        exact ih (idx + 1) order st pending acc hfam.2 hmeet.2 ha hf
      · by_cases hab : (s.position == Position.absolute) = true
        · have hin : (styleTree (.node s ctx gk)).box.inFlow = false := by
            rw [styleTree_inFlow]; simp only [kidInFlow, STree.style, hab]
            simp
          obtain ⟨i1, i2, i3, i4⟩ := ih (idx + 1) (order + 1) st pending acc hfam.2 hmeet.2 ha hf
          simp only [walk, hh, hab, if_true, Bool.false_eq_true, if_false, trailFrom_skip _ _ _ hin,
            leadFrom_skip _ _ _ _ hin, allThrough, hin, Bool.not_false, Bool.true_or, Bool.true_and]
          refine ⟨i1, i2, ?_, i4⟩
          simp only [allInFlowCollapsible, List.all_cons] at i3 ⊢
          rw [i3]
          have : ((generateItem idx order s inner).position == Position.absolute) = true := hab
          simp only [this, Bool.true_or, Bool.true_and]
        · -- in flow
          have hh' : s.isHidden = false := by simpa using hh
          have hab' : (s.position == Position.absolute) = false := by simpa using hab
          have hkin : kidInFlow (.node s ctx gk) = true := by
            simp only [kidInFlow, STree.style]
            have : (s.display == Display.none) = false := hh'
            rw [this, hab']; rfl
          have hin : (styleTree (.node s ctx gk)).box.inFlow = true := by rw [styleTree_inFlow]; exact hkin
          have hm := hmeet.1 hkin _ (itemInput_inFlowIn c idx order s inner hpx)
          generalize hout : ans idx (itemInput c (generateItem idx order s inner)) = out at hm
          have htop : topMarginSet c (generateItem idx order s inner) out
              = toSet (topSet (styleTree (.node s ctx gk))) := by
            rw [item_topSet c idx order s inner hpx, ← hm.top, styleTree_box]; rfl
          have hbot : bottomMarginSet c (generateItem idx order s inner) out
              = toSet (bottomSet (styleTree (.node s ctx gk))) := by
            rw [item_bottomSet c idx order s inner hpx, ← hm.bottom, styleTree_box]; rfl
          simp only [walk, hh', hab', Bool.false_eq_true, if_false, hout]
          cases hct : out.marginsCanCollapseThrough with
          | true =>
            have hsp : collapsesThrough (styleTree (.node s ctx gk)) = true := by rw [← hm.through]; exact hct
            obtain ⟨p1, p2, p3⟩ := placeItem_collapsed c st (generateItem idx order s inner) out hct
            have pf := placeItem_first_through c st (generateItem idx order s inner) out hct
            have ha' : (placeItem c st (generateItem idx order s inner) out).st.activeCollapsibleMarginSet
                = toSet (pending ++ topSet (styleTree (.node s ctx gk)) ++ bottomSet (styleTree (.node s ctx gk))) := by
              rw [p2, ha, htop, hbot, ← toSet_append, ← toSet_append]
            rw [trailFrom_through _ _ _ hin hsp]
            cases hfirst : st.isCollapsingWithFirstMarginSet with
            | true =>
              have hf' : (placeItem c st (generateItem idx order s inner) out).st.firstChildTopMarginSet
                  = toSet (acc ++ topSet (styleTree (.node s ctx gk)) ++ bottomSet (styleTree (.node s ctx gk))) := by
                rw [pf, hfirst, if_pos rfl, hf, htop, hbot, ← toSet_append, ← toSet_append]
              obtain ⟨i1, i2, i3, i4⟩ := ih (idx + 1) (order + 1) _ _ _ hfam.2 hmeet.2 ha' hf'
              rw [p3, hfirst] at i2
              rw [leadFrom_through _ _ _ hin hsp]
              refine ⟨i1, i2, ?_, ?_⟩
              · simp only [allInFlowCollapsible, List.all_cons] at i3 ⊢
                rw [i3]
                simp only [allThrough, hin, hsp, (placeItem_item c st _ out).2.1, hct, Bool.or_true, Bool.true_and,
                  Bool.not_true]
              · intro hall
                simp only [allThrough, hin, hsp, Bool.not_true, Bool.false_or, Bool.true_and] at hall
                rw [i4 hall, p1]
            | false =>
              have hf' : (placeItem c st (generateItem idx order s inner) out).st.firstChildTopMarginSet
                  = toSet acc := by
                rw [pf, hfirst]; exact hf
              obtain ⟨i1, i2, i3, i4⟩ := ih (idx + 1) (order + 1) _ _ _ hfam.2 hmeet.2 ha' hf'
              rw [p3, hfirst, leadFrom_false] at i2
              rw [leadFrom_false]
              refine ⟨i1, i2, ?_, ?_⟩
              · simp only [allInFlowCollapsible, List.all_cons] at i3 ⊢
                rw [i3]
                simp only [allThrough, hin, hsp, (placeItem_item c st _ out).2.1, hct, Bool.or_true, Bool.true_and,
                  Bool.not_true]
              · intro hall
                simp only [allThrough, hin, hsp, Bool.not_true, Bool.false_or, Bool.true_and] at hall
                rw [i4 hall, p1]
          | false =>
            have hsp : collapsesThrough (styleTree (.node s ctx gk)) = false := by rw [← hm.through]; exact hct
            obtain ⟨p1, p2, p3⟩ := placeItem_solid c st (generateItem idx order s inner) out hct
            have pf := placeItem_first_solid c st (generateItem idx order s inner) out hct
            have ha' : (placeItem c st (generateItem idx order s inner) out).st.activeCollapsibleMarginSet
                = toSet (bottomSet (styleTree (.node s ctx gk))) := by
              rw [p2, hbot]
            rw [trailFrom_solid _ _ _ hin hsp]
            have hnall : allThrough (styleTree (.node s ctx gk) :: styleKids ts) = false := by
              simp only [allThrough, hin, hsp, Bool.not_true, Bool.or_false, Bool.false_and]
            have hcol : allInFlowCollapsible ((placeItem c st (generateItem idx order s inner) out).item ::
                (walk c inner ans (ts.map STree.style) (idx + 1) (order + 1)
                  (placeItem c st (generateItem idx order s inner) out).st).1) = false := by
              simp only [allInFlowCollapsible, List.all_cons, (placeItem_item c st _ out).2.1, hct,
                (placeItem_item c st _ out).1]
              have : ((generateItem idx order s inner).position == Position.absolute) = false := hab'
              simp only [this, Bool.or_false, Bool.false_and]
            cases hfirst : st.isCollapsingWithFirstMarginSet with
            | true =>
              have hf' : (placeItem c st (generateItem idx order s inner) out).st.firstChildTopMarginSet
                  = toSet (acc ++ topSet (styleTree (.node s ctx gk))) := by
                rw [pf, hfirst, if_pos rfl, hf, htop, ← toSet_append]
              obtain ⟨i1, i2, i3, i4⟩ := ih (idx + 1) (order + 1) _ _ _ hfam.2 hmeet.2 ha' hf'
              rw [p3, leadFrom_false] at i2
              rw [leadFrom_solid _ _ _ hin hsp, leadFrom_false]
              refine ⟨i1, i2, ?_, ?_⟩
              · rw [hcol, hnall]
              · intro hall; rw [hnall] at hall; cases hall
            | false =>
              have hf' : (placeItem c st (generateItem idx order s inner) out).st.firstChildTopMarginSet
                  = toSet acc := by
                rw [pf, hfirst]; exact hf
              obtain ⟨i1, i2, i3, i4⟩ := ih (idx + 1) (order + 1) _ _ _ hfam.2 hmeet.2 ha' hf'
              rw [p3, leadFrom_false] at i2
              rw [leadFrom_false]
              refine ⟨i1, i2, ?_, ?_⟩
              · rw [hcol, hnall]
              · intro hall; rw [hnall] at hall; cases hall


/-! ### positions -/

/-- the model's loop state and the specification's walk state describe the same situation -/
structure StateRel (c : FlowCtx Rat) (st : FlowState Rat) (atTop solid : Bool) (edge : Rat) (pending : List Rat) :
    Prop where
  committed : st.committedYOffset = edge
  active : st.activeCollapsibleMarginSet = toSet pending
  first : st.isCollapsingWithFirstMarginSet = !solid
  atTop : atTop = (!solid && c.ownMarginsCollapseWithChildren.start)

theorem step_y (c : FlowCtx Rat) (st : FlowState Rat) (item : BlockItem Rat) (out : LayoutOutput Rat)
    (atTop solid : Bool) (edge : Rat) (pending tops : List Rat)
    (hrel : StateRel c st atTop solid edge pending)
    (htop : topMarginSet c item out = toSet tops) (hinset : insetOffsetY item = 0) :
    (placeItem c st item out).layout.location.y = if atTop then edge else edge + collapsed (pending ++ tops) := by
  rw [placeItem_y, hinset, hrel.committed]
  unfold yMarginOffset
  rw [hrel.first, ← hrel.atTop, hrel.active, htop, ← collapsed_append_eq_collapseWithSet]
  cases atTop <;> simp

theorem step_through (c : FlowCtx Rat) (st : FlowState Rat) (item : BlockItem Rat) (out : LayoutOutput Rat)
    (atTop solid : Bool) (edge : Rat) (pending tops bots : List Rat)
    (hrel : StateRel c st atTop solid edge pending)
    (htop : topMarginSet c item out = toSet tops) (hbot : bottomMarginSet c item out = toSet bots)
    (hct : out.marginsCanCollapseThrough = true) :
    StateRel c (placeItem c st item out).st atTop solid edge (pending ++ tops ++ bots) := by
  obtain ⟨p1, p2, p3⟩ := placeItem_collapsed c st item out hct
  exact ⟨by rw [p1, hrel.committed], by rw [p2, hrel.active, htop, hbot, ← toSet_append, ← toSet_append],
    by rw [p3, hrel.first], hrel.atTop⟩

theorem step_solid (c : FlowCtx Rat) (st : FlowState Rat) (item : BlockItem Rat) (out : LayoutOutput Rat)
    (bots : List Rat) (hbot : bottomMarginSet c item out = toSet bots)
    (hinset : insetOffsetY item = 0)
    (hct : out.marginsCanCollapseThrough = false) :
    StateRel c (placeItem c st item out).st false true
      ((placeItem c st item out).layout.location.y + out.size.height) bots := by
  obtain ⟨p1, p2, p3⟩ := placeItem_solid c st item out hct
  refine ⟨?_, by rw [p2, hbot], by rw [p3]; rfl, rfl⟩
  rw [p1, placeItem_y, hinset]
  ring

end C10Thm
