/-
  What the glue of `compute_grid_layout` (Model/Grid.lean) does to the tracks between and after the runs of the track
  sizing algorithm: `setGutterAdjustment`, `alignTracks` (only the two alignment fields change), `reresolvePercentTracks`
  (only percentage tracks change), and what one whole run guarantees (exact rationals): shapes kept, fixed tracks exact,
  the other axis' tracks changed in `content_alignment_adjustment` only, the items permuted with their frames kept, and the
  axis tracks equal to the pure algorithm's result for the contribution data of the run (`Refines`).
-/
import TaffyVerif.Lemmas.GridLiftPure
import TaffyVerif.Lemmas.EvalGridWalk

set_option linter.unusedSectionVars false
set_option linter.unusedVariables false

namespace GridLift
open GridModel GridTracks EvalGrid EvalBlock

section generic
variable {α : Type} [Num α]

/-- everything of a track but its two alignment fields (`offset`, `content_alignment_adjustment`) -/
def nonAdj (t : GridTrack α) : GridTrack α := { t with contentAlignmentAdjustment := 0, offset := 0 }

/-- position-wise the same tracks up to the alignment fields -/
def QA (T T' : List (GridTrack α)) : Prop := T'.map nonAdj = T.map nonAdj

theorem QA.refl (T : List (GridTrack α)) : QA T T := rfl
theorem QA.trans {a b c : List (GridTrack α)} (h1 : QA a b) (h2 : QA b c) : QA a c := Eq.trans h2 h1

theorem QA.of_map (T : List (GridTrack α)) (f : GridTrack α → GridTrack α) (h : ∀ t, nonAdj (f t) = nonAdj t) :
    QA T (T.map f) := by
  unfold QA
  rw [List.map_map]
  exact List.map_congr_left fun t _ => h t

theorem QA.mem {T T' : List (GridTrack α)} (h : QA T T') (t' : GridTrack α) (ht : t' ∈ T') :
    ∃ t ∈ T, nonAdj t' = nonAdj t := by
  have : nonAdj t' ∈ T.map nonAdj := h ▸ List.mem_map_of_mem ht
  obtain ⟨t, ht, e⟩ := List.mem_map.1 this
  exact ⟨t, ht, e.symm⟩

theorem QA.map_eq {β : Type} {T T' : List (GridTrack α)} (h : QA T T') (g : GridTrack α → β)
    (hg : ∀ t, g t = g (nonAdj t)) : T'.map g = T.map g := by
  have e : ∀ l : List (GridTrack α), l.map g = (l.map nonAdj).map g := fun l => by
    rw [List.map_map]; exact List.map_congr_left fun t _ => hg t
  rw [e T', e T, h]

theorem QA.fns {T T' : List (GridTrack α)} (h : QA T T') : T'.map GridLift.fns = T.map GridLift.fns :=
  h.map_eq GridLift.fns fun _ => rfl
theorem QA.baseSizes {T T' : List (GridTrack α)} (h : QA T T') : T'.map (·.baseSize) = T.map (·.baseSize) :=
  h.map_eq _ fun _ => rfl

theorem QA.getElem? {T T' : List (GridTrack α)} (h : QA T T') (i : Nat) (t' : GridTrack α) (ht : T'[i]? = some t') :
    ∃ t, T[i]? = some t ∧ nonAdj t' = nonAdj t := by
  have := congrArg (·[i]?) h
  simp only [List.getElem?_map, ht, Option.map_some] at this
  cases ha : T[i]? with
  | none => rw [ha] at this; cases this
  | some t =>
    rw [ha] at this
    simp only [Option.map_some, Option.some.injEq] at this
    exact ⟨t, rfl, this⟩

/-- `setGutterAdjustment` writes `content_alignment_adjustment` only -/
theorem QA_setGutterAdjustment (adj : α) (T : List (GridTrack α)) : QA T (setGutterAdjustment adj T) := by
  unfold setGutterAdjustment
  split
  · unfold QA
    rw [List.map_map]
    have : ∀ (l : List (GridTrack α)) (k : Nat),
        (l.zipIdx k).map (nonAdj ∘ fun x : GridTrack α × Nat =>
          if (decide (x.2 ≥ 2) && (x.2 - 2) % 2 == 0) = true then { x.1 with contentAlignmentAdjustment := adj } else x.1)
        = l.map nonAdj := by
      intro l
      induction l with
      | nil => intro k; rfl
      | cons t rest ih =>
        intro k
        simp only [List.zipIdx_cons, List.map_cons, Function.comp_apply, ih]
        congr 1
        split <;> rfl
    exact this T 0
  · exact QA.refl _

/-- `align_tracks` writes `offset` only -/
theorem QA_alignLoop (free : α) (n : Nat) (mode : AlignContent) : ∀ (T : List (GridTrack α)) (i : Nat) (total : α),
    QA T (alignLoop free n mode T i total)
  | [], _, _ => rfl
  | t :: rest, i, total => by
    unfold alignLoop
    have := QA_alignLoop free n mode rest (i + 1)
    unfold QA at this ⊢
    simp only [List.map_cons, this]
    rfl

theorem QA_alignTracks (cb ps bs : α) (T : List (GridTrack α)) (style : AlignContent) :
    QA T (alignTracks cb ps bs T style) := by
  unfold alignTracks
  exact QA_alignLoop _ _ _ _ _ _

/-- the other axis' tracks of a run: changed in `content_alignment_adjustment` only, on every run -/
theorem trackSizingAlgorithmM_other (a : RunArgs α) (st : RunState α) :
    GPost (fun st' => QA st.otherAxisTracks st'.otherAxisTracks) (trackSizingAlgorithmM a st) := by
  unfold trackSizingAlgorithmM
  simp only []
  refine GPost_bind (fun _ => True) _ _ _ (GPost_true _) fun items1 _ => ?_
  split
  · exact GPost_pure _ _ (QA.refl _)
  · refine GPost_bind (fun _ => True) _ _ _ (GPost_true _) fun ⟨items2, t2⟩ _ => ?_
    refine GPost_bind (fun _ => True) _ _ _ (GPost_true _) fun ⟨items3, t3⟩ _ => ?_
    exact GPost_pure _ _ (QA_setGutterAdjustment _ _)

/-! ### tracks as `initialize_grid_tracks` creates them -/

/-- nothing pending (any `Num`) -/
def Fresh (t : GridTrack α) : Prop :=
  t.itemIncurredIncrease = 0 ∧ t.baseSizePlannedIncrease = 0 ∧ t.growthLimitPlannedIncrease = 0

theorem fresh_new (k : TrackKind) (mn : MinTrack α) (mx : MaxTrack α) : Fresh (GridTrack.newWithKind k mn mx) :=
  ⟨rfl, rfl, rfl⟩
theorem fresh_collapse (t : GridTrack α) (h : Fresh t) : Fresh t.collapse := h

theorem all_flatMap {β : Type} (P : GridTrack α → Prop) (l : List β) (h : β → List (GridTrack α))
    (hh : ∀ b, ∀ t ∈ h b, P t) : ∀ t ∈ l.flatMap h, P t := by
  intro t ht
  obtain ⟨b, _, hb⟩ := List.mem_flatMap.1 ht
  exact hh b t hb

theorem fresh_createImplicitTracks (count : Nat) (nth : Nat → TrackFn α) (gap : LP α) :
    ∀ t ∈ createImplicitTracks count nth gap, Fresh t := by
  unfold createImplicitTracks
  refine all_flatMap _ _ _ fun i t ht => ?_
  simp only [List.mem_cons, List.not_mem_nil, or_false] at ht
  rcases ht with rfl | rfl <;> exact fresh_new _ _ _

theorem fresh_autoRepeatTracks (fit : Bool) (fs : List (TrackFn α)) (n : Nat) (gap : LP α) (has : Nat → Bool)
    (idx : Nat) : ∀ t ∈ autoRepeatTracks fit fs n gap has idx, Fresh t := by
  unfold autoRepeatTracks
  refine all_flatMap _ _ _ fun ⟨f, i⟩ t ht => ?_
  simp only [] at ht
  split at ht <;> simp only [List.mem_cons, List.not_mem_nil, or_false] at ht <;> rcases ht with rfl | rfl
  · exact fresh_collapse _ (fresh_new _ _ _)
  · exact fresh_collapse _ (fresh_new _ _ _)
  · exact fresh_new _ _ _
  · exact fresh_new _ _ _

theorem fresh_explicitTracks (autoN : Nat) (gap : LP α) (has : Nat → Bool) :
    ∀ (tpl : List (TrackDef α)) (idx : Nat), ∀ t ∈ explicitTracks autoN gap has tpl idx, Fresh t := by
  intro tpl
  induction tpl with
  | nil => intro idx t ht; cases ht
  | cons d rest ih =>
    intro idx t ht
    cases d with
    | single f =>
      simp only [explicitTracks, List.cons_append, List.nil_append, List.mem_cons] at ht
      rcases ht with rfl | rfl | ht
      · exact fresh_new _ _ _
      · exact fresh_new _ _ _
      · exact ih _ t ht
    | rep r fs =>
      cases r with
      | count c =>
        simp only [explicitTracks, List.mem_append] at ht
        rcases ht with ht | ht
        · refine all_flatMap Fresh _ _ (fun f t ht => ?_) t ht
          simp only [List.mem_cons, List.not_mem_nil, or_false] at ht
          rcases ht with rfl | rfl <;> exact fresh_new _ _ _
        · exact ih _ t ht
      | autoFit =>
        simp only [explicitTracks, List.mem_append] at ht
        rcases ht with ht | ht
        · exact fresh_autoRepeatTracks _ _ _ _ _ _ t ht
        · exact ih _ t ht
      | autoFill =>
        simp only [explicitTracks, List.mem_append] at ht
        rcases ht with ht | ht
        · exact fresh_autoRepeatTracks _ _ _ _ _ _ t ht
        · exact ih _ t ht

theorem mem_modify {β : Type} (f : β → β) : ∀ (l : List β) (i : Nat) (y : β), y ∈ l.modify i f →
    y ∈ l ∨ ∃ x ∈ l, y = f x
  | [], i, y, h => by simp at h
  | a :: l, 0, y, h => by
    simp only [List.modify_zero_cons, List.mem_cons] at h
    rcases h with rfl | h
    · exact Or.inr ⟨a, List.mem_cons_self, rfl⟩
    · exact Or.inl (List.mem_cons_of_mem _ h)
  | a :: l, i + 1, y, h => by
    simp only [List.modify_succ_cons, List.mem_cons] at h
    rcases h with rfl | h
    · exact Or.inl List.mem_cons_self
    · rcases mem_modify f l i y h with h | ⟨x, hx, e⟩
      · exact Or.inl (List.mem_cons_of_mem _ h)
      · exact Or.inr ⟨x, List.mem_cons_of_mem _ hx, e⟩

/-- **every track `initialize_grid_tracks` creates has nothing pending** -/
theorem fresh_initializeGridTracks (counts : TrackCounts) (tpl : List (TrackDef α)) (autoTracks : List (TrackFn α))
    (gap : LP α) (has : Nat → Bool) (ts : List (GridTrack α))
    (h : initializeGridTracks counts tpl autoTracks gap has = .ok ts) : ∀ t ∈ ts, Fresh t := by
  unfold initializeGridTracks at h
  split at h
  · cases h
  · split at h
    · cases h
    · rename_i autoN _
      cases h
      have hbody : ∀ t ∈ GridTrack.gutter gap :: bodyTracks counts tpl autoTracks gap has autoN, Fresh t := by
        intro t ht
        rcases List.mem_cons.1 ht with rfl | ht
        · exact fresh_new _ _ _
        · unfold bodyTracks at ht
          simp only [List.mem_append] at ht
          rcases ht with (ht | ht) | ht
          · split at ht
            · exact fresh_createImplicitTracks _ _ _ t ht
            · cases ht
          · split at ht
            · exact fresh_explicitTracks _ _ _ _ _ t ht
            · cases ht
          · exact fresh_createImplicitTracks _ _ _ t ht
      intro t ht
      unfold collapseFirstLast at ht
      rcases mem_modify _ _ _ _ ht with ht | ⟨x, hx, rfl⟩
      · rcases mem_modify _ _ _ _ ht with ht | ⟨x, hx, rfl⟩
        · exact hbody t ht
        · exact fresh_collapse _ (hbody x hx)
      · rcases mem_modify _ _ _ _ hx with hx | ⟨y, hy, rfl⟩
        · exact fresh_collapse _ (hbody x hx)
        · exact fresh_collapse _ (fresh_collapse _ (hbody y hy))

end generic

/-! ### exact rationals: fixed tracks -/

/-- a fixed track (min = max = a length) has nothing pending -/
def Rest1 (t : GridTrack Rat) : Prop := ∀ v, t.minFn = .length v → t.maxFn = .length v → AtRest t
/-- a fixed track (min = max = a length) is sized exactly, with nothing pending -/
def Fix1 (t : GridTrack Rat) : Prop := ∀ v, t.minFn = .length v → t.maxFn = .length v → FX t v

theorem Fix1.rest {t : GridTrack Rat} (h : Fix1 t) : Rest1 t := fun v h1 h2 =>
  ⟨(h v h1 h2).inc, (h v h1 h2).bp, (h v h1 h2).gp⟩

theorem Fresh.rest {t : GridTrack Rat} (h : Fresh t) : Rest1 t := fun _ _ _ => h

theorem FX_nonAdj {a b : GridTrack Rat} (h : nonAdj a = nonAdj b) (v : Rat) (ha : FX a v) : FX b v := by
  have e1 : a.minFn = b.minFn := (congrArg GridTrack.minFn h : (nonAdj a).minFn = (nonAdj b).minFn)
  have e2 : a.maxFn = b.maxFn := (congrArg GridTrack.maxFn h : (nonAdj a).maxFn = (nonAdj b).maxFn)
  have e3 : a.baseSize = b.baseSize := (congrArg GridTrack.baseSize h : (nonAdj a).baseSize = (nonAdj b).baseSize)
  have e4 : a.growthLimit = b.growthLimit :=
    (congrArg GridTrack.growthLimit h : (nonAdj a).growthLimit = (nonAdj b).growthLimit)
  have e5 : a.itemIncurredIncrease = b.itemIncurredIncrease :=
    (congrArg GridTrack.itemIncurredIncrease h : (nonAdj a).itemIncurredIncrease = (nonAdj b).itemIncurredIncrease)
  have e6 : a.baseSizePlannedIncrease = b.baseSizePlannedIncrease :=
    (congrArg GridTrack.baseSizePlannedIncrease h :
      (nonAdj a).baseSizePlannedIncrease = (nonAdj b).baseSizePlannedIncrease)
  have e7 : a.growthLimitPlannedIncrease = b.growthLimitPlannedIncrease :=
    (congrArg GridTrack.growthLimitPlannedIncrease h :
      (nonAdj a).growthLimitPlannedIncrease = (nonAdj b).growthLimitPlannedIncrease)
  exact ⟨e1 ▸ ha.minFn, e2 ▸ ha.maxFn, e3 ▸ ha.base, e4 ▸ ha.gl, e5 ▸ ha.inc, e6 ▸ ha.bp, e7 ▸ ha.gp⟩

theorem Fix1_nonAdj {a b : GridTrack Rat} (h : nonAdj a = nonAdj b) (ha : Fix1 a) : Fix1 b := by
  intro v h1 h2
  have e1 : a.minFn = b.minFn := (congrArg GridTrack.minFn h : (nonAdj a).minFn = (nonAdj b).minFn)
  have e2 : a.maxFn = b.maxFn := (congrArg GridTrack.maxFn h : (nonAdj a).maxFn = (nonAdj b).maxFn)
  exact FX_nonAdj h v (ha v (e1 ▸ h1) (e2 ▸ h2))

theorem Rest1_nonAdj {a b : GridTrack Rat} (h : nonAdj a = nonAdj b) (ha : Rest1 a) : Rest1 b := by
  intro v h1 h2
  have e1 : a.minFn = b.minFn := (congrArg GridTrack.minFn h : (nonAdj a).minFn = (nonAdj b).minFn)
  have e2 : a.maxFn = b.maxFn := (congrArg GridTrack.maxFn h : (nonAdj a).maxFn = (nonAdj b).maxFn)
  have e5 : a.itemIncurredIncrease = b.itemIncurredIncrease :=
    (congrArg GridTrack.itemIncurredIncrease h : (nonAdj a).itemIncurredIncrease = (nonAdj b).itemIncurredIncrease)
  have e6 : a.baseSizePlannedIncrease = b.baseSizePlannedIncrease :=
    (congrArg GridTrack.baseSizePlannedIncrease h :
      (nonAdj a).baseSizePlannedIncrease = (nonAdj b).baseSizePlannedIncrease)
  have e7 : a.growthLimitPlannedIncrease = b.growthLimitPlannedIncrease :=
    (congrArg GridTrack.growthLimitPlannedIncrease h :
      (nonAdj a).growthLimitPlannedIncrease = (nonAdj b).growthLimitPlannedIncrease)
  obtain ⟨r1, r2, r3⟩ := ha v (e1 ▸ h1) (e2 ▸ h2)
  exact ⟨e5 ▸ r1, e6 ▸ r2, e7 ▸ r3⟩

theorem QA.ss {T T' : List (GridTrack Rat)} (h : QA T T') : SS T T' := h.map_eq shape fun _ => rfl

theorem QA.fix1 {T T' : List (GridTrack Rat)} (h : QA T T') (hT : ∀ t ∈ T, Fix1 t) : ∀ t ∈ T', Fix1 t := by
  intro t' ht'
  obtain ⟨t, ht, e⟩ := h.mem t' ht'
  exact Fix1_nonAdj e.symm (hT t ht)

theorem QA.rest1 {T T' : List (GridTrack Rat)} (h : QA T T') (hT : ∀ t ∈ T, Rest1 t) : ∀ t ∈ T', Rest1 t := by
  intro t' ht'
  obtain ⟨t, ht, e⟩ := h.mem t' ht'
  exact Rest1_nonAdj e.symm (hT t ht)

/-- step 7's re-resolution of percentage tracks leaves every other track alone -/
theorem reresolve_ss (cb : Rat) (T : List (GridTrack Rat)) : SS T (reresolvePercentTracks cb T) :=
  SS.map _ _ fun _ => rfl

theorem reresolve_fix1 (cb : Rat) (T : List (GridTrack Rat)) (hT : ∀ t ∈ T, Fix1 t) :
    ∀ t ∈ reresolvePercentTracks cb T, Fix1 t := by
  intro t' ht'
  unfold reresolvePercentTracks at ht'
  obtain ⟨t, ht, rfl⟩ := List.mem_map.1 ht'
  intro v h1 h2
  have h1' : t.minFn = .length v := h1
  have h2' : t.maxFn = .length v := h2
  have hb : MaybeMath.fo_clamp t.baseSize (t.minFn.resolvedPercentageSize cb) (t.maxFn.resolvedPercentageSize cb)
      = t.baseSize := by
    rw [h1', h2']
    rfl
  have := hT t ht v h1' h2'
  exact ⟨this.minFn, this.maxFn, (show MaybeMath.fo_clamp t.baseSize (t.minFn.resolvedPercentageSize cb)
    (t.maxFn.resolvedPercentageSize cb) = v from hb.trans this.base), this.gl, this.inc, this.bp, this.gp⟩

theorem SS.fns {T T' : List (GridTrack Rat)} (h : SS T T') : T'.map GridLift.fns = T.map GridLift.fns := by
  have e : ∀ l : List (GridTrack Rat), l.map GridLift.fns = (l.map shape).map fun s => (s.2.2.1, s.2.2.2) := fun l => by
    rw [List.map_map]; rfl
  rw [e T', e T, h]

/-! ### one run of the track sizing program -/

/-- the axis tracks of `st'` are the pure algorithm's result for the contribution data cached in the items of `st'` -/
def Refines (a : RunArgs Rat) (st st' : RunState Rat) : Prop :=
  st'.axisTracks = trackSizing2 (paramsOf a) st.axisTracks
    (st'.items.map (absI a.axis a.innerNodeSize.width)) (st'.items.map (absX a.axis a.innerNodeSize.width)) ∧
  ∀ I ∈ st'.items.map (absI a.axis a.innerNodeSize.width), I.Valid

/-- **one run, everything**: whatever the children answer -/
theorem run_spec (a : RunArgs Rat) (st : RunState Rat) (n : Int) (T0 : List (GridTrack Rat))
    (hg : ∀ it ∈ st.items, GoodItem a.axis n st.axisTracks it) (hS : SS T0 st.axisTracks)
    (hR : ∀ t ∈ st.axisTracks, Rest1 t) :
    GPost (fun st' => SS T0 st'.axisTracks ∧ (∀ t ∈ st'.axisTracks, Fix1 t) ∧
        QA st.otherAxisTracks st'.otherAxisTracks ∧ FP st.items st'.items ∧ Refines a st st')
      (trackSizingAlgorithmM a st) := by
  have h1 := trackSizingAlgorithmM_refines totalIsLt_rat a st n hg
  have h2 := trackSizingAlgorithmM_other a st
  have h3 : GPost (fun st' => FP st.items st'.items) (trackSizingAlgorithmM a st) :=
    GPost_mono _ _ _ (fun r hr => hr.fp) (Op_GPost _ _ _ _ _ _ (POp_trackSizingAlgorithmM a st))
  refine GPost_mono _ _ _ ?_ (GPost_and _ _ _ h1 (GPost_and _ _ _ h2 h3))
  intro st' ⟨⟨href, hgood⟩, hqa, hfp⟩
  have hvalid : ∀ I ∈ st'.items.map (absI a.axis a.innerNodeSize.width), I.Valid := by
    intro I hI
    obtain ⟨it, hit, rfl⟩ := List.mem_map.1 hI
    exact absI_valid _ _ (hgood it hit)
  have hss : SS st.axisTracks st'.axisTracks := by
    rw [href]; exact trackSizing2_shape _ _ _ _ hvalid
  refine ⟨hS.trans hss, ?_, hqa, hfp, href, hvalid⟩
  intro t' ht' v hmin hmax
  obtain ⟨i, hi, rfl⟩ := List.mem_iff_getElem.1 ht'
  have hget : st'.axisTracks[i]? = some st'.axisTracks[i] := List.getElem?_eq_getElem hi
  obtain ⟨t, ht, hsh⟩ := hss.getElem? i _ hget
  have e1 : t.minFn = .length v := by
    have : st'.axisTracks[i].minFn = t.minFn := congrArg (fun s => s.2.2.1) hsh
    rw [← this]; exact hmin
  have e2 : t.maxFn = .length v := by
    have : st'.axisTracks[i].maxFn = t.maxFn := congrArg (fun s => s.2.2.2) hsh
    rw [← this]; exact hmax
  have hrest := hR t (List.mem_of_getElem? ht) v e1 e2
  obtain ⟨t', ht'', hfx⟩ := trackSizing2_fixed (paramsOf a) st.axisTracks _
    (st'.items.map (absX a.axis a.innerNodeSize.width)) hvalid i t v ht e1 e2 hrest
  rw [← href, hget] at ht''
  cases ht''
  exact hfx

end GridLift
