/-
  C12 / C06 for grid: Model/GridSizing.lean respects the item transformation `phi P`, part 1:
  the item loop, `resolve_item_track_indexes`, the crossing flags, `resolve_item_baselines`.
-/
import TaffyVerif.Lemmas.GridBoxItemProg

set_option linter.unusedSectionVars false

namespace GridRel
open GridModel GridTracks
variable {α : Type} [Num α]

/-- "not an absolutely positioned child" -/
abbrev NA (w : World α) : Nat → Prop := fun i => ¬ w.abs i

/-- results `(item, tracks)` of a per-item step -/
def RIT (P : Nat → Bool) (it : GItem α) (r r' : GItem α × List (GridTrack α)) : Prop :=
  r'.1 = phi P r.1 ∧ r'.2 = r.2 ∧ StaticEq r.1 it

/-- results `(items, tracks)` -/
def RLT (P : Nat → Bool) (G : Nat → Prop) (r r' : List (GItem α) × List (GridTrack α)) : Prop :=
  LR P G r.1 r'.1 ∧ r'.2 = r.2

variable {w : World α} {P : Nat → Bool}

theorem IR.of_static {a b : GItem α} (hs : StaticEq a b) (hn : ¬ w.abs b.node) : IR P (NA w) a (phi P a) :=
  ⟨rfl, static_abs hs hn⟩

theorem GRel.bindIT {Y Y' : Type} {it : GItem α} {p p' : GM α (GItem α × List (GridTrack α))}
    (h : GRel w (RIT P it) p p') {Q' : Y → Y' → Prop} {f : GItem α × List (GridTrack α) → GM α Y}
    {f' : GItem α × List (GridTrack α) → GM α Y'}
    (hf : ∀ i2 ts, StaticEq i2 it → GRel w Q' (f (i2, ts)) (f' (phi P i2, ts))) : GRel w Q' (p >>= f) (p' >>= f') := by
  refine GRel.bind h fun r r' hr => ?_
  obtain ⟨i2, ts⟩ := r
  obtain ⟨i2', ts'⟩ := r'
  obtain ⟨h1, h2, h3⟩ := hr
  simp only at h1 h2 h3
  rw [h1, h2]
  exact hf i2 ts h3

theorem GRel.bindLT {Y Y' : Type} {G : Nat → Prop} {p p' : GM α (List (GItem α) × List (GridTrack α))}
    (h : GRel w (RLT P G) p p') {Q' : Y → Y' → Prop} {f : List (GItem α) × List (GridTrack α) → GM α Y}
    {f' : List (GItem α) × List (GridTrack α) → GM α Y'}
    (hf : ∀ l l' ts, LR P G l l' → GRel w Q' (f (l, ts)) (f' (l', ts))) : GRel w Q' (p >>= f) (p' >>= f') := by
  refine GRel.bind h fun r r' hr => ?_
  obtain ⟨l, ts⟩ := r
  obtain ⟨l', ts'⟩ := r'
  obtain ⟨h1, h2⟩ := hr
  simp only at h1 h2
  rw [h2]
  exact hf l l' ts h1

/-! ### the item loop -/

theorem forItemsM_rel (f : GItem α → List (GridTrack α) → GM α (GItem α × List (GridTrack α)))
    (hf : ∀ it ts, ¬ w.abs it.node → GRel w (RIT P it) (f it ts) (f (phi P it) ts)) :
    ∀ (items items' : List (GItem α)) (ts : List (GridTrack α)), LR P (NA w) items items' →
      GRel w (RLT P (NA w)) (forItemsM f items ts) (forItemsM f items' ts)
  | [], items', ts, h => by
    rw [h.1]
    exact GRel.pure ⟨LR.nil, rfl⟩
  | it :: rest, items', ts, h => by
    rw [h.1, List.map_cons]
    unfold forItemsM
    have hn : ¬ w.abs it.node := h.2 it List.mem_cons_self
    have hrest : LR P (NA w) rest (rest.map (phi P)) := ⟨rfl, fun x hx => h.2 x (List.mem_cons_of_mem _ hx)⟩
    refine GRel.bindIT (hf it ts hn) fun a ts1 h3 => ?_
    refine GRel.bindLT (forItemsM_rel f hf rest _ ts1 hrest) fun b b' ts2 h4 => ?_
    exact GRel.pure ⟨LR.cons (IR.of_static h3 hn) h4, rfl⟩

/-! ### pure outcomes -/

/-- `.ok` results related, failures equal -/
def ORel {β γ : Type} (Q : β → γ → Prop) : GridPlacement.Outcome β → GridPlacement.Outcome γ → Prop
  | .ok a, .ok b => Q a b
  | .panic m, .panic m' => m = m'
  | .overflow, .overflow => True
  | .outOfFuel, .outOfFuel => True
  | _, _ => False

theorem ORel.bind_same {β γ δ : Type} {Q : γ → δ → Prop} (o : GridPlacement.Outcome β)
    {k : β → GridPlacement.Outcome γ} {k' : β → GridPlacement.Outcome δ} (h : ∀ a, ORel Q (k a) (k' a)) :
    ORel Q (o >>= k) (o >>= k') := by
  cases o with
  | ok a => exact h a
  | panic m => exact rfl
  | overflow => exact trivial
  | outOfFuel => exact trivial

theorem ORel.bind {β β' γ δ : Type} {Q0 : β → β' → Prop} {Q : γ → δ → Prop} {o : GridPlacement.Outcome β}
    {o' : GridPlacement.Outcome β'} (ho : ORel Q0 o o')
    {k : β → GridPlacement.Outcome γ} {k' : β' → GridPlacement.Outcome δ} (h : ∀ a b, Q0 a b → ORel Q (k a) (k' b)) :
    ORel Q (o >>= k) (o' >>= k') := by
  cases o <;> cases o' <;> first | exact h _ _ ho | exact ho.elim | exact ho

theorem GRel.ofOutcome_rel {β γ : Type} {Q : β → γ → Prop} {o : GridPlacement.Outcome β}
    {o' : GridPlacement.Outcome γ} (h : ORel Q o o') : GRel w Q (GM.ofOutcome o : GM α β) (GM.ofOutcome o') := by
  cases o <;> cases o' <;> first | exact GRel.pure h | exact h.elim | skip
  · rw [show _ = _ from h]; exact GRel.throw _
  · exact GRel.throw _
  · exact GRel.throw _

theorem resolveItemTrackIndexes_rel (colCounts rowCounts : GridPlacement.TrackCounts) :
    ∀ (items items' : List (GItem α)), LR P (NA w) items items' →
      ORel (LR P (NA w)) (resolveItemTrackIndexes items colCounts rowCounts)
        (resolveItemTrackIndexes items' colCounts rowCounts)
  | [], items', h => by
    rw [h.1]
    exact LR.nil
  | it :: rest, items', h => by
    rw [h.1, List.map_cons]
    unfold resolveItemTrackIndexes GridPlacement.mapO
    have hrest : LR P (NA w) rest (rest.map (phi P)) := ⟨rfl, fun x hx => h.2 x (List.mem_cons_of_mem _ hx)⟩
    have ih := resolveItemTrackIndexes_rel colCounts rowCounts rest _ hrest
    unfold resolveItemTrackIndexes at ih
    refine ORel.bind (Q0 := IR P (NA w)) ?_ fun a b hab => ORel.bind ih fun l l' hl => LR.cons hab hl
    simp only [← phi_setIndexes]
    simp only [phi_column, phi_row]
    refine ORel.bind_same _ fun _ => ORel.bind_same _ fun _ => ORel.bind_same _ fun _ => ORel.bind_same _ fun _ =>
      ORel.bind_same _ fun _ => ORel.bind_same _ fun _ => ORel.bind_same _ fun _ => ORel.bind_same _ fun _ => ?_
    exact ⟨rfl, h.2 it List.mem_cons_self⟩

theorem determineCrossings_rel (columns rows : List (GridTrack α)) (items items' : List (GItem α))
    (h : LR P (NA w) items items') :
    LR P (NA w) (determineCrossings items columns rows) (determineCrossings items' columns rows) := by
  unfold determineCrossings
  refine h.map _ (fun it => ?_) (fun it => rfl)
  simp only [← phi_setCrossings]
  simp only [phi_spannedTracks]

/-! ### list helpers -/

theorem LR.findIdx? {G : Nat → Prop} {l l' : List (GItem α)} (h : LR P G l l') (p : GItem α → Bool)
    (hp : ∀ a, p (phi P a) = p a) : l'.findIdx? p = l.findIdx? p := by
  rw [h.1]
  clear h
  induction l with
  | nil => rfl
  | cons a l ih => simp only [List.map_cons, List.findIdx?_cons, hp, ih]

theorem LR.filter_length {G : Nat → Prop} {l l' : List (GItem α)} (h : LR P G l l') (p : GItem α → Bool)
    (hp : ∀ a, p (phi P a) = p a) : (l'.filter p).length = (l.filter p).length := by
  rw [h.1]
  clear h
  induction l with
  | nil => rfl
  | cons a l ih =>
    simp only [List.map_cons, List.filter_cons, hp]
    split <;> simp only [List.length_cons, ih]

theorem LR.filter {G : Nat → Prop} {l l' : List (GItem α)} (h : LR P G l l') (p : GItem α → Bool)
    (hp : ∀ a, p (phi P a) = p a) : LR P G (l.filter p) (l'.filter p) := by
  refine ⟨?_, fun x hx => h.2 x (List.mem_filter.1 hx).1⟩
  rw [h.1, List.filter_map]
  congr 1
  exact List.filter_congr fun a _ => hp a

theorem LR.map_val {G : Nat → Prop} {β : Type} {l l' : List (GItem α)} (h : LR P G l l') (f : GItem α → β)
    (hf : ∀ a, f (phi P a) = f a) : l'.map f = l.map f := by
  rw [h.1, List.map_map]
  exact List.map_congr_left fun a _ => hf a

theorem LR.isEmpty {G : Nat → Prop} {l l' : List (GItem α)} (h : LR P G l l') : l'.isEmpty = l.isEmpty := by
  rw [h.1, List.isEmpty_map]

end GridRel
