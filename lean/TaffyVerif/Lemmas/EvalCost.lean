/-
  Cost instrumentation of the tree-level evaluator `Eval.evalNodeWith` (Model/Eval.lean) used by C16:
  a logging wrapper around any cache implementation (every `store` / `clear` of a node is appended to the node's log),
  erasure of the instrumentation (generic simulation lemma), invariants of all caches of a state tree that every
  evaluation preserves, call-count bounds of interaction programs, additive log bounds.

  Everything lives in namespace `C16`; the headline theorems are in Props/C16.lean.
-/
import TaffyVerif.Lemmas.EvalMemo

set_option linter.unusedSectionVars false
set_option linter.unusedVariables false

namespace C16
open Eval EvalMemo Gen.Facts
variable {α : Type} [Num α]

/-! ### the logging wrapper -/

/-- `logged ci` behaves as `ci` and records, per node, every `store` (as `some key`) and every `clear` (as `none`),
newest first.  In `evalNodeWith`, `store` is executed exactly once per evaluation of the node's body (= every
cache miss outside hidden run mode) and never otherwise. -/
def logged {C : Type} (ci : CacheImpl α C) : CacheImpl α (C × List (Option (LayoutInput α))) where
  empty := (ci.empty, [])
  get c i := ci.get c.1 i
  store c i o := (ci.store c.1 i o, some i :: c.2)
  clear c := (ci.clear c.1, none :: c.2)

/-- number of `store`s in a log = number of body evaluations of the node -/
def evals {K : Type} : List (Option K) → Nat
  | [] => 0
  | none :: l => evals l
  | some _ :: l => evals l + 1

/-- the keys stored since the last `clear`, newest first -/
def sinceClear {K : Type} : List (Option K) → List K
  | [] => []
  | none :: _ => []
  | some k :: l => k :: sinceClear l

/-- every `store` in the log stored a key that had not been stored since the previous `clear` -/
def LogOK {K : Type} : List (Option K) → Prop
  | [] => True
  | none :: l => LogOK l
  | some k :: l => k ∉ sinceClear l ∧ LogOK l

theorem sinceClear_length_le_evals {K : Type} : ∀ (l : List (Option K)), (sinceClear l).length ≤ evals l
  | [] => Nat.le_refl _
  | none :: l => by simp [sinceClear]
  | some k :: l => by
    have := sinceClear_length_le_evals l
    simp only [sinceClear, evals, List.length_cons]; omega

theorem sinceClear_length_eq_evals {K : Type} : ∀ (l : List (Option K)), none ∉ l → (sinceClear l).length = evals l
  | [], _ => rfl
  | none :: l, h => by simp at h
  | some k :: l, h => by
    have := sinceClear_length_eq_evals l (by intro hh; exact h (List.mem_cons_of_mem _ hh))
    simp only [sinceClear, evals, List.length_cons]; omega

theorem LogOK_nodup {K : Type} : ∀ (l : List (Option K)), LogOK l → (sinceClear l).Nodup
  | [], _ => List.nodup_nil
  | none :: l, _ => List.nodup_nil
  | some k :: l, h => by
    simp only [sinceClear, List.nodup_cons]
    exact ⟨h.1, LogOK_nodup l h.2⟩

/-! ### mapping the caches of a state tree -/

section
variable {C D : Type}

mutual
/-- apply `f` to every cache of the state tree -/
def mapCache (f : C → D) : NS α C → NS α D
  | .mk c l kids => .mk (f c) l (mapCacheList f kids)
def mapCacheList (f : C → D) : List (NS α C) → List (NS α D)
  | [] => []
  | k :: ks => mapCache f k :: mapCacheList f ks
end

theorem mapCacheList_getElem? (f : C → D) : ∀ (ks : List (NS α C)) (i : Nat),
    (mapCacheList f ks)[i]? = (ks[i]?).map (mapCache f)
  | [], _ => by simp [mapCacheList]
  | k :: ks, 0 => by simp [mapCacheList]
  | k :: ks, i + 1 => by
    simp only [mapCacheList, List.getElem?_cons_succ]
    exact mapCacheList_getElem? f ks i

theorem mapCacheList_set (f : C → D) : ∀ (ks : List (NS α C)) (i : Nat) (k' : NS α C),
    mapCacheList f (ks.set i k') = (mapCacheList f ks).set i (mapCache f k')
  | [], _, _ => by simp [mapCacheList]
  | k :: ks, 0, k' => by simp [mapCacheList]
  | k :: ks, i + 1, k' => by
    simp only [mapCacheList, List.set_cons_succ]
    rw [mapCacheList_set f ks i k']

theorem mapCacheList_setLayoutAt (f : C → D) (ks : List (NS α C)) (i : Nat) (l : Layout α) :
    mapCacheList f (setLayoutAt ks i l) = setLayoutAt (mapCacheList f ks) i l := by
  unfold setLayoutAt
  rw [mapCacheList_getElem?]
  cases hk : ks[i]? with
  | none => rfl
  | some k =>
    cases k with
    | mk c l0 nk =>
      simp only [Option.map_some, mapCache]
      rw [mapCacheList_set]
      simp only [mapCache]

mutual
theorem mapCache_init (ci' : CacheImpl α C) (ci : CacheImpl α D) (r : C → D) (he : r ci'.empty = ci.empty) :
    ∀ (t : STree α), mapCache r (NS.init ci' t) = NS.init ci t
  | .node _ _ kids => by
    simp only [NS.init, mapCache, he, mapCacheList_init ci' ci r he kids]
theorem mapCacheList_init (ci' : CacheImpl α C) (ci : CacheImpl α D) (r : C → D) (he : r ci'.empty = ci.empty) :
    ∀ (ts : List (STree α)), mapCacheList r (NS.initList ci' ts) = NS.initList ci ts
  | [] => by simp [NS.initList, mapCacheList]
  | t :: ts => by
    simp only [NS.initList, mapCacheList, mapCache_init ci' ci r he t, mapCacheList_init ci' ci r he ts]
end

/-! ### simulation between two cache implementations -/

/-- `r` maps the caches of `ci'` to caches of `ci` compatibly with the three operations the evaluator uses -/
structure Sim (ci' : CacheImpl α C) (ci : CacheImpl α D) (r : C → D) : Prop where
  get : ∀ c i, ci.get (r c) i = ci'.get c i
  store : ∀ c i o, r (ci'.store c i o) = ci.store (r c) i o
  clear : ∀ c, r (ci'.clear c) = ci.clear (r c)

variable {ci' : CacheImpl α C} {ci : CacheImpl α D} {r : C → D}

mutual
theorem mapCache_hidden (hs : Sim ci' ci r) :
    ∀ (ns : NS α C), mapCache r (hiddenLayout ci' ns) = hiddenLayout ci (mapCache r ns)
  | .mk c l kids => by
    simp only [hiddenLayout, mapCache, hs.clear, mapCacheList_hidden hs kids]
theorem mapCacheList_hidden (hs : Sim ci' ci r) :
    ∀ (ks : List (NS α C)), mapCacheList r (hiddenLayoutList ci' ks) = hiddenLayoutList ci (mapCacheList r ks)
  | [] => by simp [hiddenLayoutList, mapCacheList]
  | k :: ks => by
    simp only [hiddenLayoutList, mapCacheList, mapCache_hidden hs k, mapCacheList_hidden hs ks]
end

theorem runProg_sim {β : Type} (r : C → D)
    (ec' : Nat → LayoutInput α → List (NS α C) → LayoutOutput α × List (NS α C))
    (ec : Nat → LayoutInput α → List (NS α D) → LayoutOutput α × List (NS α D))
    (hc : ∀ i cin ks, (ec' i cin ks).1 = (ec i cin (mapCacheList r ks)).1 ∧
      mapCacheList r (ec' i cin ks).2 = (ec i cin (mapCacheList r ks)).2)
    (p : ProgM α β) : ∀ ks, (runProg ec' p ks).1 = (runProg ec p (mapCacheList r ks)).1 ∧
      mapCacheList r (runProg ec' p ks).2 = (runProg ec p (mapCacheList r ks)).2 := by
  induction p with
  | pure b => intro ks; exact ⟨rfl, rfl⟩
  | call i inp k ih =>
    intro ks
    obtain ⟨h1, h2⟩ := hc i inp ks
    simp only [runProg]
    rw [← h1, ← h2]
    exact ih _ _
  | setLayout i l k ih =>
    intro ks
    simp only [runProg]
    rw [← mapCacheList_setLayoutAt]
    exact ih _ _

/-- **generic simulation**: evaluation commutes with a map of caches that respects `get` / `store` / `clear` -/
theorem eval_sim (hs : Sim ci' ci r) (sel : Display → Bool → Option Callee) (algs : Algs α) :
    ∀ (fuel : Nat) (t : STree α) (ns : NS α C) (inp : LayoutInput α),
      (evalNodeWith ci' sel algs fuel t ns inp).1 = (evalNodeWith ci sel algs fuel t (mapCache r ns) inp).1 ∧
      mapCache r (evalNodeWith ci' sel algs fuel t ns inp).2 =
        (evalNodeWith ci sel algs fuel t (mapCache r ns) inp).2 := by
  intro fuel
  induction fuel with
  | zero => intro t ns inp; simp only [evalNodeWith_zero]; refine ⟨?_, ?_⟩ <;> first | rfl | trivial
  | succ fuel ih =>
    intro t ns inp
    cases t with
    | node style ctx kids =>
      cases ns with
      | mk c l nk =>
        simp only [mapCache]
        rw [evalNodeWith_succ, evalNodeWith_succ]
        cases hm : (inp.runMode == RunMode.performHiddenLayout) with
        | true =>
          simp only [if_true]
          refine ⟨trivial, ?_⟩
          rw [mapCache_hidden hs]; simp only [mapCache]
        | false =>
          simp only [Bool.false_eq_true, if_false]
          rw [hs.get]
          cases hg : ci'.get c inp with
          | some out => simp only [mapCache]; refine ⟨?_, ?_⟩ <;> first | rfl | trivial
          | none =>
            simp only
            cases hb : bodyOf sel algs style kids inp with
            | hidden =>
              simp only [mapCache, hs.store, hs.clear, mapCacheList_hidden hs]
              refine ⟨?_, ?_⟩ <;> first | rfl | trivial
            | leaf => simp only [mapCache, hs.store]; refine ⟨?_, ?_⟩ <;> first | rfl | trivial
            | stuck => simp only [mapCache, hs.store]; refine ⟨?_, ?_⟩ <;> first | rfl | trivial
            | prog p =>
              simp only
              have hc : ∀ i cin ks,
                  (evalChildOf ci' sel algs fuel kids i cin ks).1 =
                    (evalChildOf ci sel algs fuel kids i cin (mapCacheList r ks)).1 ∧
                  mapCacheList r (evalChildOf ci' sel algs fuel kids i cin ks).2 =
                    (evalChildOf ci sel algs fuel kids i cin (mapCacheList r ks)).2 := by
                intro i cin ks
                simp only [evalChildOf]
                rw [mapCacheList_getElem?]
                cases hk : kids[i]? with
                | none => refine ⟨?_, ?_⟩ <;> first | rfl | trivial
                | some t =>
                  cases hk2 : ks[i]? with
                  | none => refine ⟨?_, ?_⟩ <;> first | rfl | trivial
                  | some k =>
                    simp only [Option.map_some]
                    obtain ⟨e1, e2⟩ := ih t k cin
                    refine ⟨e1, ?_⟩
                    rw [mapCacheList_set, e2]
              obtain ⟨r1, r2⟩ := runProg_sim r _ _ hc p nk
              refine ⟨r1, ?_⟩
              simp only [mapCache, hs.store]
              rw [r1, r2]

end

/-! ### run mode, dispatch -/

theorem mode_beq (m : RunMode) : (m == RunMode.performHiddenLayout) = decide (m = RunMode.performHiddenLayout) := by
  cases m <;> rfl

theorem mode_eq_of_beq {m : RunMode} (h : (m == RunMode.performHiddenLayout) = true) :
    m = RunMode.performHiddenLayout := by
  rw [mode_beq] at h; exact of_decide_eq_true h

theorem mode_ne_of_beq {m : RunMode} (h : (m == RunMode.performHiddenLayout) = false) :
    m ≠ RunMode.performHiddenLayout := by
  rw [mode_beq] at h; exact of_decide_eq_false h

/-- a property of all container programs of `algs` holds for the program the dispatch selects -/
theorem bodyOf_prog (sel : Display → Bool → Option Callee) (algs : Algs α)
    (Q : ProgM α (LayoutOutput α) → Prop)
    (hQ : ∀ style styles inp, Q (algs.block style styles inp) ∧ Q (algs.flex style styles inp) ∧
      Q (algs.grid style styles inp))
    (style : Style α) (kids : List (STree α)) (inp : LayoutInput α) (p : ProgM α (LayoutOutput α))
    (hb : bodyOf sel algs style kids inp = .prog p) : Q p := by
  unfold bodyOf at hb
  have h := hQ style (kids.map STree.style) inp
  cases hs : sel style.display (!kids.isEmpty) with
  | none => rw [hs] at hb; cases hb
  | some cal =>
    rw [hs] at hb
    cases cal with
    | hidden => cases hb
    | leaf => cases hb
    | block => simp only [Body.prog.injEq] at hb; rw [← hb]; exact h.1
    | flex => simp only [Body.prog.injEq] at hb; rw [← hb]; exact h.2.1
    | grid => simp only [Body.prog.injEq] at hb; rw [← hb]; exact h.2.2

theorem bodyOf_hidden (sel : Display → Bool → Option Callee) (algs : Algs α)
    (style : Style α) (kids : List (STree α)) (inp : LayoutInput α)
    (hb : bodyOf sel algs style kids inp = .hidden) : sel style.display (!kids.isEmpty) = some .hidden := by
  unfold bodyOf at hb
  cases hs : sel style.display (!kids.isEmpty) with
  | none => rw [hs] at hb; cases hb
  | some cal =>
    rw [hs] at hb
    cases cal <;> first | rfl | cases hb

/-! ### invariants of all caches of a state tree -/

section
variable {C : Type}

mutual
/-- every cache of the state tree satisfies `P` -/
def AllNodes (P : C → Prop) : NS α C → Prop
  | .mk c _ kids => P c ∧ AllNodesList P kids
def AllNodesList (P : C → Prop) : List (NS α C) → Prop
  | [] => True
  | k :: ks => AllNodes P k ∧ AllNodesList P ks
end

/-- the root cache satisfies `P0`, every cache strictly below the root satisfies `P` -/
def Inv (P0 P : C → Prop) : NS α C → Prop
  | .mk c _ kids => P0 c ∧ AllNodesList P kids

theorem AllNodes_iff_Inv (P : C → Prop) (ns : NS α C) : AllNodes P ns ↔ Inv P P ns := by
  cases ns; simp only [AllNodes, Inv]

/-- every `call` input of every run of the program satisfies `I` -/
def CallsSat {β : Type} (I : LayoutInput α → Prop) : ProgM α β → Prop
  | .pure _ => True
  | .call _ inp k => I inp ∧ ∀ o, CallsSat I (k o)
  | .setLayout _ _ k => CallsSat I (k ())

theorem CallsSat_true {β : Type} (p : ProgM α β) : CallsSat (fun _ => True) p := by
  induction p with
  | pure b => trivial
  | call i inp k ih => exact ⟨trivial, ih⟩
  | setLayout i l k ih => exact ih ()

/-- all container programs of `algs` query their children only with inputs satisfying `I` -/
def AlgsSat (I : LayoutInput α → Prop) (algs : Algs α) : Prop :=
  ∀ style styles inp, CallsSat I (algs.block style styles inp) ∧ CallsSat I (algs.flex style styles inp) ∧
    CallsSat I (algs.grid style styles inp)

theorem AlgsSat_true (algs : Algs α) : AlgsSat (fun _ => True) algs :=
  fun _ _ _ => ⟨CallsSat_true _, CallsSat_true _, CallsSat_true _⟩

/-- `P` is preserved by the cache operations as the evaluator uses them: `store` only after a miss, outside hidden
mode, with an input satisfying `I`; `clear` only if `H` ("a hidden layout can happen") holds -/
structure CachePres (ci : CacheImpl α C) (H : Prop) (P : C → Prop) (I : LayoutInput α → Prop) : Prop where
  store : ∀ c i o, P c → I i → i.runMode ≠ RunMode.performHiddenLayout → ci.get c i = none → P (ci.store c i o)
  clear : H → ∀ c, P c → P (ci.clear c)
  get_clear : H → ∀ c i, ci.get (ci.clear c) i = none
  mode : ∀ i, I i → i.runMode = RunMode.performHiddenLayout → H

theorem AllNodesList_get (P : C → Prop) : ∀ (ks : List (NS α C)) (i : Nat) (k : NS α C),
    AllNodesList P ks → ks[i]? = some k → AllNodes P k
  | [], _, _, _, h => by simp at h
  | a :: as, 0, k, hv, h => by
    simp only [List.getElem?_cons_zero, Option.some.injEq] at h
    subst h; exact hv.1
  | a :: as, i + 1, k, hv, h => by
    simp only [List.getElem?_cons_succ] at h
    exact AllNodesList_get P as i k hv.2 h

theorem AllNodesList_set (P : C → Prop) : ∀ (ks : List (NS α C)) (i : Nat) (k' : NS α C),
    AllNodesList P ks → AllNodes P k' → AllNodesList P (ks.set i k')
  | [], _, _, _, _ => by simp [AllNodesList]
  | a :: as, 0, k', hv, hk => by
    simp only [List.set_cons_zero, AllNodesList]; exact ⟨hk, hv.2⟩
  | a :: as, i + 1, k', hv, hk => by
    simp only [List.set_cons_succ, AllNodesList]
    exact ⟨hv.1, AllNodesList_set P as i k' hv.2 hk⟩

theorem AllNodesList_setLayoutAt (P : C → Prop) (ks : List (NS α C)) (i : Nat) (l : Layout α)
    (hv : AllNodesList P ks) : AllNodesList P (setLayoutAt ks i l) := by
  unfold setLayoutAt
  cases hk : ks[i]? with
  | none => exact hv
  | some k =>
    cases k with
    | mk c l0 nk =>
      simp only
      have := AllNodesList_get P ks i _ hv hk
      simp only [AllNodes] at this
      exact AllNodesList_set P ks i _ hv (by simp only [AllNodes]; exact this)

mutual
theorem AllNodes_hidden (ci : CacheImpl α C) (P : C → Prop) (hc : ∀ c, P c → P (ci.clear c)) :
    ∀ (ns : NS α C), AllNodes P ns → AllNodes P (hiddenLayout ci ns)
  | .mk c l kids, h => by
    simp only [AllNodes] at h
    simp only [hiddenLayout, AllNodes]
    exact ⟨hc c h.1, AllNodesList_hidden ci P hc kids h.2⟩
theorem AllNodesList_hidden (ci : CacheImpl α C) (P : C → Prop) (hc : ∀ c, P c → P (ci.clear c)) :
    ∀ (ks : List (NS α C)), AllNodesList P ks → AllNodesList P (hiddenLayoutList ci ks)
  | [], _ => by simp [hiddenLayoutList, AllNodesList]
  | k :: ks, h => by
    simp only [AllNodesList] at h
    simp only [hiddenLayoutList, AllNodesList]
    exact ⟨AllNodes_hidden ci P hc k h.1, AllNodesList_hidden ci P hc ks h.2⟩
end

mutual
theorem AllNodes_init (ci : CacheImpl α C) (P : C → Prop) (he : P ci.empty) :
    ∀ (t : STree α), AllNodes P (NS.init ci t)
  | .node _ _ kids => by
    simp only [NS.init, AllNodes]; exact ⟨he, AllNodesList_init ci P he kids⟩
theorem AllNodesList_init (ci : CacheImpl α C) (P : C → Prop) (he : P ci.empty) :
    ∀ (ts : List (STree α)), AllNodesList P (NS.initList ci ts)
  | [] => by simp [NS.initList, AllNodesList]
  | t :: ts => by
    simp only [NS.initList, AllNodesList]; exact ⟨AllNodes_init ci P he t, AllNodesList_init ci P he ts⟩
end

mutual
theorem AllNodes_mono (P Q : C → Prop) (h : ∀ c, P c → Q c) : ∀ (ns : NS α C), AllNodes P ns → AllNodes Q ns
  | .mk c l kids, hv => by
    simp only [AllNodes] at hv ⊢
    exact ⟨h c hv.1, AllNodesList_mono P Q h kids hv.2⟩
theorem AllNodesList_mono (P Q : C → Prop) (h : ∀ c, P c → Q c) :
    ∀ (ks : List (NS α C)), AllNodesList P ks → AllNodesList Q ks
  | [], _ => trivial
  | k :: ks, hv => ⟨AllNodes_mono P Q h k hv.1, AllNodesList_mono P Q h ks hv.2⟩
end

theorem runProg_allNodes {β : Type} (P : C → Prop) (I : LayoutInput α → Prop)
    (ec : Nat → LayoutInput α → List (NS α C) → LayoutOutput α × List (NS α C))
    (hc : ∀ i cin ks, I cin → AllNodesList P ks → AllNodesList P (ec i cin ks).2)
    (p : ProgM α β) : CallsSat I p → ∀ ks, AllNodesList P ks → AllNodesList P (runProg ec p ks).2 := by
  induction p with
  | pure b => intro _ ks hv; exact hv
  | call i inp k ih =>
    intro hp ks hv
    simp only [runProg]
    exact ih _ (hp.2 _) _ (hc i inp ks hp.1 hv)
  | setLayout i l k ih =>
    intro hp ks hv
    simp only [runProg]
    exact ih _ hp _ (AllNodesList_setLayoutAt P ks i l hv)

/-- **generic invariant preservation**: if `P` (below the root) and `P0` (at the root) are preserved by the cache
operations as the evaluator uses them, and the container programs query their children only with inputs satisfying
`I`, then every evaluation with an input satisfying `I0` preserves "`P0` at the root and `P` everywhere below". -/
theorem eval_inv (ci : CacheImpl α C) (sel : Display → Bool → Option Callee) (algs : Algs α) (H : Prop)
    (P : C → Prop) (I : LayoutInput α → Prop) (hP : CachePres ci H P I)
    (hsel : ∀ d b, sel d b = some Callee.hidden → H) (halg : AlgsSat I algs) :
    ∀ (fuel : Nat) (P0 : C → Prop) (I0 : LayoutInput α → Prop), CachePres ci H P0 I0 →
      ∀ (t : STree α) (ns : NS α C) (inp : LayoutInput α), I0 inp → Inv P0 P ns →
        Inv P0 P (evalNodeWith ci sel algs fuel t ns inp).2 := by
  intro fuel
  induction fuel with
  | zero => intro P0 I0 _ t ns inp _ hv; rw [evalNodeWith_zero]; exact hv
  | succ fuel ih =>
    intro P0 I0 hP0 t ns inp hI hv
    cases t with
    | node style ctx kids =>
      cases ns with
      | mk c l nk =>
        simp only [Inv] at hv
        obtain ⟨hv0, hvk⟩ := hv
        rw [evalNodeWith_succ]
        cases hm : (inp.runMode == RunMode.performHiddenLayout) with
        | true =>
          simp only [if_true]
          have hH : H := hP0.mode inp hI (mode_eq_of_beq hm)
          simp only [hiddenLayout, Inv]
          exact ⟨hP0.clear hH c hv0, AllNodesList_hidden ci P (hP.clear hH) nk hvk⟩
        | false =>
          simp only [Bool.false_eq_true, if_false]
          have hne := mode_ne_of_beq hm
          cases hg : ci.get c inp with
          | some out => simp only [Inv]; exact ⟨hv0, hvk⟩
          | none =>
            simp only
            cases hb : bodyOf sel algs style kids inp with
            | hidden =>
              have hH : H := hsel _ _ (bodyOf_hidden sel algs style kids inp hb)
              simp only [Inv]
              exact ⟨hP0.store _ _ _ (hP0.clear hH c hv0) hI hne (hP0.get_clear hH c inp),
                AllNodesList_hidden ci P (hP.clear hH) nk hvk⟩
            | leaf => simp only [Inv]; exact ⟨hP0.store _ _ _ hv0 hI hne hg, hvk⟩
            | stuck => simp only [Inv]; exact ⟨hP0.store _ _ _ hv0 hI hne hg, hvk⟩
            | prog p =>
              simp only [Inv]
              refine ⟨hP0.store _ _ _ hv0 hI hne hg, ?_⟩
              have hp : CallsSat I p := bodyOf_prog sel algs (CallsSat I) halg style kids inp p hb
              refine runProg_allNodes P I _ ?_ p hp nk hvk
              intro i cin ks hIc hvl
              simp only [evalChildOf]
              cases hk : kids[i]? with
              | none => exact hvl
              | some t =>
                cases hk2 : ks[i]? with
                | none => exact hvl
                | some k =>
                  simp only
                  have hk3 := AllNodesList_get P ks i k hvl hk2
                  rw [AllNodes_iff_Inv] at hk3
                  have := ih P I hP t k cin hIc hk3
                  rw [← AllNodes_iff_Inv] at this
                  exact AllNodesList_set P ks i _ hvl this

end

/-! ### addressing nodes -/

section
variable {C : Type}

/-- follow a path of child indices simultaneously in the style tree and in the state tree -/
def nodeAt : List Nat → STree α → NS α C → Option (STree α × NS α C)
  | [], t, ns => some (t, ns)
  | i :: p, .node _ _ kids, .mk _ _ nk =>
    match kids[i]?, nk[i]? with
    | some t, some k => nodeAt p t k
    | _, _ => none

theorem nodeAt_cons (i : Nat) (p : List Nat) (style : Style α) (ctx : Option (MeasureSpec α)) (kids : List (STree α))
    (c : C) (l : Layout α) (nk : List (NS α C)) (r : STree α × NS α C)
    (h : nodeAt (i :: p) (.node style ctx kids) (.mk c l nk) = some r) :
    ∃ t k, kids[i]? = some t ∧ nk[i]? = some k ∧ nodeAt p t k = some r := by
  simp only [nodeAt] at h
  cases hk : kids[i]? with
  | none => rw [hk] at h; cases h
  | some t =>
    cases hk2 : nk[i]? with
    | none => rw [hk, hk2] at h; cases h
    | some k => rw [hk, hk2] at h; exact ⟨t, k, rfl, rfl, h⟩

/-- a node reached by a path of length `k` has at least `k` levels above it -/
theorem nodeAt_depth : ∀ (path : List Nat) (t : STree α) (ns : NS α C) (r : STree α × NS α C),
    nodeAt path t ns = some r → path.length + STree.depth r.1 ≤ STree.depth t
  | [], t, ns, r, h => by
    simp only [nodeAt, Option.some.injEq] at h
    subst h; simp
  | i :: p, .node style ctx kids, .mk c l nk, r, h => by
    obtain ⟨t, k, h1, _, h3⟩ := nodeAt_cons i p style ctx kids c l nk r h
    have := nodeAt_depth p t k r h3
    have := depth_le_of_getElem kids i t h1
    simp only [List.length_cons, STree.depth]; omega

theorem AllNodes_at (P : C → Prop) : ∀ (path : List Nat) (t : STree α) (ns : NS α C) (r : STree α × NS α C),
    AllNodes P ns → nodeAt path t ns = some r → P r.2.cache
  | [], t, .mk c l nk, r, hv, h => by
    simp only [nodeAt, Option.some.injEq] at h
    subst h; exact hv.1
  | i :: p, .node style ctx kids, .mk c l nk, r, hv, h => by
    obtain ⟨t, k, _, h2, h3⟩ := nodeAt_cons i p style ctx kids c l nk r h
    exact AllNodes_at P p t k r (AllNodesList_get P nk i k hv.2 h2) h3

theorem Inv_at (P0 P : C → Prop) (path : List Nat) (t : STree α) (ns : NS α C) (r : STree α × NS α C)
    (hv : Inv P0 P ns) (h : nodeAt path t ns = some r) (hp : path ≠ []) : P r.2.cache := by
  cases path with
  | nil => exact absurd rfl hp
  | cons i p =>
    cases t with
    | node style ctx kids =>
      cases ns with
      | mk c l nk =>
        obtain ⟨t, k, _, h2, h3⟩ := nodeAt_cons i p style ctx kids c l nk r h
        exact AllNodes_at P p t k r (AllNodesList_get P nk i k hv.2 h2) h3

end

/-! ### call counts of programs and additive log bounds -/

/-- along every run (for every sequence of child answers) the program makes at most `n` `call`s in total (over all
children) -/
def callsLe {β : Type} : Nat → ProgM α β → Prop
  | _, .pure _ => True
  | n, .call _ _ k => ∃ m, n = m + 1 ∧ ∀ o, callsLe m (k o)
  | n, .setLayout _ _ k => callsLe n (k ())

theorem callsLe_mono {β : Type} (p : ProgM α β) : ∀ (n m : Nat), n ≤ m → callsLe n p → callsLe m p := by
  induction p with
  | pure b => intro _ _ _ _; trivial
  | call i inp k ih =>
    intro n m hnm h
    obtain ⟨n', hn, hk⟩ := h
    exact ⟨m - 1, by omega, fun o => ih o n' (m - 1) (by omega) (hk o)⟩
  | setLayout i l k ih =>
    intro n m hnm h
    exact ih () n m hnm h

section
variable {C : Type}

theorem logged_get (ci : CacheImpl α C) (c : C × List (Option (LayoutInput α))) (i : LayoutInput α) :
    (logged ci).get c i = ci.get c.1 i := rfl
theorem logged_store (ci : CacheImpl α C) (c : C × List (Option (LayoutInput α))) (i : LayoutInput α)
    (o : LayoutOutput α) : (logged ci).store c i o = (ci.store c.1 i o, some i :: c.2) := rfl
theorem logged_clear (ci : CacheImpl α C) (c : C × List (Option (LayoutInput α))) :
    (logged ci).clear c = (ci.clear c.1, none :: c.2) := rfl
theorem logged_empty (ci : CacheImpl α C) : (logged ci).empty = (ci.empty, []) := rfl

mutual
/-- the node has at most `b` body evaluations in its log, its children at most `b * q`, their children `b * q * q` … -/
def LogBound (q : Nat) : Nat → NS α (C × List (Option (LayoutInput α))) → Prop
  | b, .mk c _ kids => evals c.2 ≤ b ∧ LogBoundList q (b * q) kids
def LogBoundList (q : Nat) : Nat → List (NS α (C × List (Option (LayoutInput α)))) → Prop
  | _, [] => True
  | b, k :: ks => LogBound q b k ∧ LogBoundList q b ks
end

mutual
theorem LogBound_mono (q : Nat) : ∀ (ns : NS α (C × List (Option (LayoutInput α)))) (b b' : Nat), b ≤ b' →
    LogBound q b ns → LogBound q b' ns
  | .mk c l kids, b, b', hb, h => by
    simp only [LogBound] at h ⊢
    exact ⟨Nat.le_trans h.1 hb, LogBoundList_mono q kids (b * q) (b' * q) (Nat.mul_le_mul_right q hb) h.2⟩
theorem LogBoundList_mono (q : Nat) : ∀ (ks : List (NS α (C × List (Option (LayoutInput α))))) (b b' : Nat), b ≤ b' →
    LogBoundList q b ks → LogBoundList q b' ks
  | [], _, _, _, _ => by simp only [LogBoundList]
  | k :: ks, b, b', hb, h => by
    simp only [LogBoundList] at h ⊢
    exact ⟨LogBound_mono q k b b' hb h.1, LogBoundList_mono q ks b b' hb h.2⟩
end

theorem LogBoundList_get (q : Nat) : ∀ (ks : List (NS α (C × List (Option (LayoutInput α))))) (i : Nat)
    (k : NS α (C × List (Option (LayoutInput α)))) (b : Nat),
    LogBoundList q b ks → ks[i]? = some k → LogBound q b k
  | [], _, _, _, _, h => by simp at h
  | a :: as, 0, k, b, hv, h => by
    simp only [List.getElem?_cons_zero, Option.some.injEq] at h
    simp only [LogBoundList] at hv
    subst h; exact hv.1
  | a :: as, i + 1, k, b, hv, h => by
    simp only [List.getElem?_cons_succ] at h
    simp only [LogBoundList] at hv
    exact LogBoundList_get q as i k b hv.2 h

theorem LogBoundList_set (q : Nat) : ∀ (ks : List (NS α (C × List (Option (LayoutInput α))))) (i : Nat)
    (k' : NS α (C × List (Option (LayoutInput α)))) (b : Nat),
    LogBoundList q b ks → LogBound q b k' → LogBoundList q b (ks.set i k')
  | [], _, _, _, _, _ => by simp [LogBoundList]
  | a :: as, 0, k', b, hv, hk => by
    simp only [LogBoundList] at hv
    simp only [List.set_cons_zero, LogBoundList]; exact ⟨hk, hv.2⟩
  | a :: as, i + 1, k', b, hv, hk => by
    simp only [LogBoundList] at hv
    simp only [List.set_cons_succ, LogBoundList]
    exact ⟨hv.1, LogBoundList_set q as i k' b hv.2 hk⟩

theorem LogBoundList_setLayoutAt (q : Nat) (ks : List (NS α (C × List (Option (LayoutInput α))))) (i : Nat)
    (l : Layout α) (b : Nat) (hv : LogBoundList q b ks) : LogBoundList q b (setLayoutAt ks i l) := by
  unfold setLayoutAt
  cases hk : ks[i]? with
  | none => exact hv
  | some k =>
    cases k with
    | mk c l0 nk =>
      simp only
      have := LogBoundList_get q ks i _ b hv hk
      simp only [LogBound] at this
      exact LogBoundList_set q ks i _ b hv (by simp only [LogBound]; exact this)

mutual
theorem LogBound_hidden (ci : CacheImpl α C) (q : Nat) : ∀ (ns : NS α (C × List (Option (LayoutInput α)))) (b : Nat),
    LogBound q b ns → LogBound q b (hiddenLayout (logged ci) ns)
  | .mk c l kids, b, h => by
    simp only [LogBound] at h
    simp only [hiddenLayout, LogBound, logged_clear, evals]
    exact ⟨h.1, LogBoundList_hidden ci q kids (b * q) h.2⟩
theorem LogBoundList_hidden (ci : CacheImpl α C) (q : Nat) :
    ∀ (ks : List (NS α (C × List (Option (LayoutInput α))))) (b : Nat),
    LogBoundList q b ks → LogBoundList q b (hiddenLayoutList (logged ci) ks)
  | [], _, _ => by simp [hiddenLayoutList, LogBoundList]
  | k :: ks, b, h => by
    simp only [LogBoundList] at h
    simp only [hiddenLayoutList, LogBoundList]
    exact ⟨LogBound_hidden ci q k b h.1, LogBoundList_hidden ci q ks b h.2⟩
end

mutual
theorem LogBound_init (ci : CacheImpl α C) (q : Nat) : ∀ (t : STree α) (b : Nat), LogBound q b (NS.init (logged ci) t)
  | .node _ _ kids, b => by
    simp only [NS.init, LogBound, logged_empty, evals]
    exact ⟨Nat.zero_le _, LogBoundList_init ci q kids (b * q)⟩
theorem LogBoundList_init (ci : CacheImpl α C) (q : Nat) :
    ∀ (ts : List (STree α)) (b : Nat), LogBoundList q b (NS.initList (logged ci) ts)
  | [], _ => by simp [NS.initList, LogBoundList]
  | t :: ts, b => by
    simp only [NS.initList, LogBoundList]
    exact ⟨LogBound_init ci q t b, LogBoundList_init ci q ts b⟩
end

theorem runProg_logBound {β : Type} (q : Nat)
    (ec : Nat → LayoutInput α → List (NS α (C × List (Option (LayoutInput α)))) →
      LayoutOutput α × List (NS α (C × List (Option (LayoutInput α)))))
    (hc : ∀ i cin ks b, LogBoundList q b ks → LogBoundList q (b + 1) (ec i cin ks).2)
    (p : ProgM α β) : ∀ (n : Nat), callsLe n p → ∀ ks b, LogBoundList q b ks →
      LogBoundList q (b + n) (runProg ec p ks).2 := by
  induction p with
  | pure b0 => intro n _ ks b hv; exact LogBoundList_mono q ks b (b + n) (Nat.le_add_right _ _) hv
  | call i inp k ih =>
    intro n hp ks b hv
    obtain ⟨m, hn, hk⟩ := hp
    simp only [runProg]
    have h1 := hc i inp ks b hv
    have e : b + n = b + 1 + m := by omega
    rw [e]
    exact ih _ m (hk _) _ (b + 1) h1
  | setLayout i l k ih =>
    intro n hp ks b hv
    simp only [runProg]
    exact ih _ n hp _ b (LogBoundList_setLayoutAt q ks i l b hv)

/-- all container programs of `algs` make at most `q` child calls per run -/
def AlgsCallsAtMost (q : Nat) (algs : Algs α) : Prop :=
  ∀ style styles inp, callsLe q (algs.block style styles inp) ∧ callsLe q (algs.flex style styles inp) ∧
    callsLe q (algs.grid style styles inp)

/-- **additive log bound**: one more call of a node adds at most one body evaluation to the node, `q` to each child,
`q²` to each grandchild …, for every underlying cache (cache-free evaluation is the worst case) -/
theorem eval_logBound (ci : CacheImpl α C) (sel : Display → Bool → Option Callee) (algs : Algs α) (q : Nat)
    (hq : AlgsCallsAtMost q algs) :
    ∀ (fuel : Nat) (t : STree α) (ns : NS α (C × List (Option (LayoutInput α)))) (inp : LayoutInput α) (b : Nat),
      LogBound q b ns → LogBound q (b + 1) (evalNodeWith (logged ci) sel algs fuel t ns inp).2 := by
  intro fuel
  induction fuel with
  | zero => intro t ns inp b hv; rw [evalNodeWith_zero]; exact LogBound_mono q ns b (b + 1) (Nat.le_succ _) hv
  | succ fuel ih =>
    intro t ns inp b hv
    cases t with
    | node style ctx kids =>
      cases ns with
      | mk c l nk =>
        have hmono := LogBound_mono q (NS.mk c l nk) b (b + 1) (Nat.le_succ _) hv
        rw [evalNodeWith_succ]
        cases hm : (inp.runMode == RunMode.performHiddenLayout) with
        | true =>
          simp only [if_true]
          exact LogBound_hidden ci q _ _ hmono
        | false =>
          simp only [Bool.false_eq_true, if_false]
          cases hg : (logged ci).get c inp with
          | some out => exact hmono
          | none =>
            simp only [LogBound] at hv hmono
            obtain ⟨hv0, hvk⟩ := hv
            simp only
            cases hb : bodyOf sel algs style kids inp with
            | hidden =>
              simp only [LogBound, logged_store, logged_clear, evals]
              exact ⟨by omega, LogBoundList_hidden ci q nk _ hmono.2⟩
            | leaf => simp only [LogBound, logged_store, evals]; exact ⟨by omega, hmono.2⟩
            | stuck => simp only [LogBound, logged_store, evals]; exact ⟨by omega, hmono.2⟩
            | prog p =>
              simp only [LogBound, logged_store, evals]
              refine ⟨by omega, ?_⟩
              have hp : callsLe q p := bodyOf_prog sel algs (callsLe q) hq style kids inp p hb
              have e : (b + 1) * q = b * q + q := Nat.succ_mul b q
              rw [e]
              refine runProg_logBound q _ ?_ p q hp nk (b * q) hvk
              intro i cin ks b' hvl
              have hvl' := LogBoundList_mono q ks b' (b' + 1) (Nat.le_succ _) hvl
              simp only [evalChildOf]
              cases hk : kids[i]? with
              | none => exact hvl'
              | some t =>
                cases hk2 : ks[i]? with
                | none => exact hvl'
                | some k =>
                  simp only
                  exact LogBoundList_set q ks i _ (b' + 1) hvl'
                    (ih t k cin b' (LogBoundList_get q ks i k b' hvl hk2))

/-- a node at the end of a path of length `k` below a node with `LogBound q b` has at most `b * q ^ k` body
evaluations in its log -/
theorem LogBound_at (q : Nat) : ∀ (path : List Nat) (t : STree α) (ns : NS α (C × List (Option (LayoutInput α))))
    (r : STree α × NS α (C × List (Option (LayoutInput α)))) (b : Nat),
    LogBound q b ns → nodeAt path t ns = some r → evals r.2.cache.2 ≤ b * q ^ path.length
  | [], t, .mk c l nk, r, b, hv, h => by
    simp only [nodeAt, Option.some.injEq] at h
    subst h
    simp only [LogBound] at hv
    simpa [NS.cache] using hv.1
  | i :: p, .node style ctx kids, .mk c l nk, r, b, hv, h => by
    obtain ⟨t, k, _, h2, h3⟩ := nodeAt_cons i p style ctx kids c l nk r h
    simp only [LogBound] at hv
    have := LogBound_at q p t k r (b * q) (LogBoundList_get q nk i k (b * q) hv.2 h2) h3
    have e : b * q * q ^ p.length = b * q ^ (i :: p).length := by
      simp only [List.length_cons, Nat.pow_succ]
      rw [Nat.mul_assoc, Nat.mul_comm q]
    rw [← e]; exact this

end

/-! ### conjunction of preserved predicates; logs without `clear` -/

section
variable {C : Type}

theorem CachePres.and {ci : CacheImpl α C} {H : Prop} {P P' : C → Prop} {I : LayoutInput α → Prop}
    (h : CachePres ci H P I) (h' : CachePres ci H P' I) : CachePres ci H (fun c => P c ∧ P' c) I where
  store c i o hp hi hne hg := ⟨h.store c i o hp.1 hi hne hg, h'.store c i o hp.2 hi hne hg⟩
  clear hH c hp := ⟨h.clear hH c hp.1, h'.clear hH c hp.2⟩
  get_clear := h.get_clear
  mode := h.mode

/-- the log of the node records no `clear` -/
def NoClear (c : C × List (Option (LayoutInput α))) : Prop := none ∉ c.2

theorem pres_noClear (ci : CacheImpl α C) (I : LayoutInput α → Prop)
    (hI : ∀ i, I i → i.runMode ≠ RunMode.performHiddenLayout) : CachePres (logged ci) False NoClear I where
  store c i o hp _ _ _ := by
    simp only [NoClear, logged_store, List.mem_cons, not_or]
    exact ⟨(by intro h; cases h), hp⟩
  clear hH := hH.elim
  get_clear hH := hH.elim
  mode i hi hm := hI i hi hm

end

/-! ### the exact memo under the logging wrapper -/

section
variable [DecidableEq α]

/-- cache type of `logged exactMemo`: the memo list and the log -/
abbrev MemoLog (α : Type) := List (LayoutInput α × LayoutOutput α) × List (Option (LayoutInput α))

/-- **per-node consistency of log and memo**: the keys logged since the last `clear` are exactly the keys of the memo
list, in the same order, and every logged `store` stored a key that was absent at that moment -/
def LogInv (c : MemoLog α) : Prop := sinceClear c.2 = c.1.map Prod.fst ∧ LogOK c.2

/-- every key of the memo is a member of `Ks` -/
def KeysIn (Ks : List (LayoutInput α)) (c : MemoLog α) : Prop := ∀ k, k ∈ c.1.map Prod.fst → k ∈ Ks

theorem exactMemo_get_none (c : List (LayoutInput α × LayoutOutput α)) (i : LayoutInput α)
    (h : (exactMemo (α := α)).get c i = none) : i ∉ c.map Prod.fst := by
  simp only [exactMemo, Option.map_eq_none_iff, List.find?_eq_none, decide_eq_true_eq] at h
  intro hmem
  simp only [List.mem_map] at hmem
  obtain ⟨e, he, hei⟩ := hmem
  exact h e he hei

theorem exactMemo_store (c : List (LayoutInput α × LayoutOutput α)) (i : LayoutInput α) (o : LayoutOutput α)
    (hne : i.runMode ≠ RunMode.performHiddenLayout) : (exactMemo (α := α)).store c i o = (i, o) :: c := by
  simp only [exactMemo, if_neg hne]

theorem exactMemo_clear (c : List (LayoutInput α × LayoutOutput α)) : (exactMemo (α := α)).clear c = [] := rfl

theorem exactMemo_get_nil (i : LayoutInput α) : (exactMemo (α := α)).get [] i = none := rfl

theorem LogInv_empty : LogInv ((logged (exactMemo (α := α))).empty) := ⟨rfl, trivial⟩

theorem LogInv_nodup (c : MemoLog α) (h : LogInv c) : (c.1.map Prod.fst).Nodup := by
  rw [← h.1]; exact LogOK_nodup _ h.2

theorem pres_logInv (H : Prop) (I : LayoutInput α → Prop)
    (hmode : ∀ i, I i → i.runMode = RunMode.performHiddenLayout → H) :
    CachePres (logged (exactMemo (α := α))) H LogInv I where
  store c i o hp _ hne hg := by
    have hab := exactMemo_get_none c.1 i hg
    simp only [LogInv, logged_store, exactMemo_store _ _ _ hne, sinceClear, List.map_cons, LogOK]
    exact ⟨by rw [hp.1], by rw [hp.1]; exact hab, hp.2⟩
  clear _ c hp := by
    simp only [LogInv, logged_clear, exactMemo_clear, sinceClear, List.map_nil, LogOK]
    exact ⟨trivial, hp.2⟩
  get_clear _ c i := by
    simp only [logged_get, logged_clear, exactMemo_clear]; exact exactMemo_get_nil i
  mode := hmode

theorem pres_keysIn (Ks : List (LayoutInput α)) (H : Prop) (I : LayoutInput α → Prop) (hI : ∀ i, I i → i ∈ Ks)
    (hmode : ∀ i, I i → i.runMode = RunMode.performHiddenLayout → H) :
    CachePres (logged (exactMemo (α := α))) H (KeysIn Ks) I where
  store c i o hp hi hne _ := by
    simp only [KeysIn, logged_store, exactMemo_store _ _ _ hne, List.map_cons, List.mem_cons]
    intro k hk
    rcases hk with hk | hk
    · rw [hk]; exact hI i hi
    · exact hp k hk
  clear _ c _ := by
    simp only [KeysIn, logged_clear, exactMemo_clear, List.map_nil]
    intro k hk; cases hk
  get_clear _ c i := by
    simp only [logged_get, logged_clear, exactMemo_clear]; exact exactMemo_get_nil i
  mode := hmode

/-- consistent log, keys within `Ks`: at most `Ks.length` body evaluations since the last `clear` -/
theorem LogInv_keysIn_length (Ks : List (LayoutInput α)) (c : MemoLog α) (h : LogInv c) (hk : KeysIn Ks c) :
    (sinceClear c.2).length ≤ Ks.length := by
  have hn := LogInv_nodup c h
  rw [h.1]
  exact List.Nodup.length_le_of_subset hn (fun k hkm => hk k hkm)

end

theorem CallsSat_mono {β : Type} (I I' : LayoutInput α → Prop) (h : ∀ i, I i → I' i) (p : ProgM α β) :
    CallsSat I p → CallsSat I' p := by
  induction p with
  | pure b => intro _; trivial
  | call i inp k ih => intro hp; exact ⟨h _ hp.1, fun o => ih o (hp.2 o)⟩
  | setLayout i l k ih => intro hp; exact ih () hp

theorem CallsSat_and {β : Type} (I I' : LayoutInput α → Prop) (p : ProgM α β) :
    CallsSat I p → CallsSat I' p → CallsSat (fun i => I i ∧ I' i) p := by
  induction p with
  | pure b => intro _ _; trivial
  | call i inp k ih => intro hp hp'; exact ⟨⟨hp.1, hp'.1⟩, fun o => ih o (hp.2 o) (hp'.2 o)⟩
  | setLayout i l k ih => intro hp hp'; exact ih () hp hp'

/-! ### the state tree keeps the shape of the style tree -/

section
variable {C : Type}

mutual
/-- the state tree has the shape of the style tree -/
def Shape : STree α → NS α C → Prop
  | .node _ _ kids, .mk _ _ nk => ShapeList kids nk
def ShapeList : List (STree α) → List (NS α C) → Prop
  | [], [] => True
  | t :: ts, k :: ks => Shape t k ∧ ShapeList ts ks
  | [], _ :: _ => False
  | _ :: _, [] => False
end

/-- the subtree of the style tree at a path of child indices -/
def subTree : List Nat → STree α → Option (STree α)
  | [], t => some t
  | i :: p, .node _ _ kids =>
    match kids[i]? with
    | some t => subTree p t
    | none => none

theorem ShapeList_get : ∀ (kids : List (STree α)) (ks : List (NS α C)) (i : Nat) (t : STree α),
    ShapeList kids ks → kids[i]? = some t → ∃ k, ks[i]? = some k ∧ Shape t k
  | [], _, _, _, _, h => by simp at h
  | _ :: _, [], _, _, hv, _ => by simp [ShapeList] at hv
  | a :: as, b :: bs, 0, t, hv, h => by
    simp only [List.getElem?_cons_zero, Option.some.injEq] at h
    subst h
    simp only [ShapeList] at hv
    exact ⟨b, rfl, hv.1⟩
  | a :: as, b :: bs, i + 1, t, hv, h => by
    simp only [List.getElem?_cons_succ] at h
    simp only [ShapeList] at hv
    simpa using ShapeList_get as bs i t hv.2 h

theorem ShapeList_set : ∀ (kids : List (STree α)) (ks : List (NS α C)) (i : Nat) (t : STree α) (k' : NS α C),
    ShapeList kids ks → kids[i]? = some t → Shape t k' → ShapeList kids (ks.set i k')
  | [], _, _, _, _, _, h, _ => by simp at h
  | _ :: _, [], _, _, _, hv, _, _ => by simp [ShapeList] at hv
  | a :: as, b :: bs, 0, t, k', hv, h, hk => by
    simp only [List.getElem?_cons_zero, Option.some.injEq] at h
    subst h
    simp only [ShapeList] at hv
    simp only [List.set_cons_zero, ShapeList]
    exact ⟨hk, hv.2⟩
  | a :: as, b :: bs, i + 1, t, k', hv, h, hk => by
    simp only [List.getElem?_cons_succ] at h
    simp only [ShapeList] at hv
    simp only [List.set_cons_succ, ShapeList]
    exact ⟨hv.1, ShapeList_set as bs i t k' hv.2 h hk⟩

theorem ShapeList_set_same : ∀ (kids : List (STree α)) (ks : List (NS α C)) (i : Nat) (k k' : NS α C),
    ShapeList kids ks → ks[i]? = some k → (∀ t, Shape t k → Shape t k') → ShapeList kids (ks.set i k')
  | _, [], _, _, _, _, h, _ => by simp at h
  | [], _ :: _, _, _, _, hv, _, _ => by simp [ShapeList] at hv
  | a :: as, b :: bs, 0, k, k', hv, h, hk => by
    simp only [List.getElem?_cons_zero, Option.some.injEq] at h
    subst h
    simp only [ShapeList] at hv
    simp only [List.set_cons_zero, ShapeList]
    exact ⟨hk a hv.1, hv.2⟩
  | a :: as, b :: bs, i + 1, k, k', hv, h, hk => by
    simp only [List.getElem?_cons_succ] at h
    simp only [ShapeList] at hv
    simp only [List.set_cons_succ, ShapeList]
    exact ⟨hv.1, ShapeList_set_same as bs i k k' hv.2 h hk⟩

theorem ShapeList_setLayoutAt (kids : List (STree α)) (ks : List (NS α C)) (i : Nat) (l : Layout α)
    (hv : ShapeList kids ks) : ShapeList kids (setLayoutAt ks i l) := by
  unfold setLayoutAt
  cases hk : ks[i]? with
  | none => exact hv
  | some k =>
    cases k with
    | mk c l0 nk =>
      simp only
      refine ShapeList_set_same kids ks i _ _ hv hk ?_
      intro t ht
      cases t with
      | node style ctx kids' => simpa only [Shape] using ht

mutual
theorem Shape_hidden (ci : CacheImpl α C) : ∀ (t : STree α) (ns : NS α C), Shape t ns → Shape t (hiddenLayout ci ns)
  | .node style ctx kids, .mk c l nk, h => by
    simp only [Shape] at h
    simp only [hiddenLayout, Shape]
    exact ShapeList_hidden ci kids nk h
theorem ShapeList_hidden (ci : CacheImpl α C) : ∀ (kids : List (STree α)) (ks : List (NS α C)), ShapeList kids ks →
    ShapeList kids (hiddenLayoutList ci ks)
  | [], [], _ => by simp [hiddenLayoutList, ShapeList]
  | t :: ts, k :: ks, h => by
    simp only [ShapeList] at h
    simp only [hiddenLayoutList, ShapeList]
    exact ⟨Shape_hidden ci t k h.1, ShapeList_hidden ci ts ks h.2⟩
  | [], _ :: _, h => by simp [ShapeList] at h
  | _ :: _, [], h => by simp [ShapeList] at h
end

mutual
theorem Shape_init (ci : CacheImpl α C) : ∀ (t : STree α), Shape t (NS.init ci t)
  | .node style ctx kids => by
    simp only [NS.init, Shape]
    exact ShapeList_init ci kids
theorem ShapeList_init (ci : CacheImpl α C) : ∀ (kids : List (STree α)), ShapeList kids (NS.initList ci kids)
  | [] => by simp [NS.initList, ShapeList]
  | t :: ts => by
    simp only [NS.initList, ShapeList]
    exact ⟨Shape_init ci t, ShapeList_init ci ts⟩
end

theorem runProg_shape {β : Type} (kids : List (STree α))
    (ec : Nat → LayoutInput α → List (NS α C) → LayoutOutput α × List (NS α C))
    (hc : ∀ i cin ks, ShapeList kids ks → ShapeList kids (ec i cin ks).2)
    (p : ProgM α β) : ∀ ks, ShapeList kids ks → ShapeList kids (runProg ec p ks).2 := by
  induction p with
  | pure b => intro ks hv; exact hv
  | call i inp k ih => intro ks hv; simp only [runProg]; exact ih _ _ (hc i inp ks hv)
  | setLayout i l k ih =>
    intro ks hv; simp only [runProg]; exact ih _ _ (ShapeList_setLayoutAt kids ks i l hv)

/-- evaluation keeps the shape of the state tree -/
theorem eval_shape (ci : CacheImpl α C) (sel : Display → Bool → Option Callee) (algs : Algs α) :
    ∀ (fuel : Nat) (t : STree α) (ns : NS α C) (inp : LayoutInput α), Shape t ns →
      Shape t (evalNodeWith ci sel algs fuel t ns inp).2 := by
  intro fuel
  induction fuel with
  | zero => intro t ns inp hv; rw [evalNodeWith_zero]; exact hv
  | succ fuel ih =>
    intro t ns inp hv
    cases t with
    | node style ctx kids =>
      cases ns with
      | mk c l nk =>
        rw [evalNodeWith_succ]
        cases hm : (inp.runMode == RunMode.performHiddenLayout) with
        | true => simp only [if_true]; exact Shape_hidden ci _ _ hv
        | false =>
          simp only [Bool.false_eq_true, if_false]
          cases hg : ci.get c inp with
          | some out => exact hv
          | none =>
            simp only [Shape] at hv
            simp only
            cases hb : bodyOf sel algs style kids inp with
            | hidden => simp only [Shape]; exact ShapeList_hidden ci kids nk hv
            | leaf => simp only [Shape]; exact hv
            | stuck => simp only [Shape]; exact hv
            | prog p =>
              simp only [Shape]
              refine runProg_shape kids _ ?_ p nk hv
              intro i cin ks hvl
              simp only [evalChildOf]
              cases hk : kids[i]? with
              | none => exact hvl
              | some t =>
                obtain ⟨k, hk2, hvt⟩ := ShapeList_get kids ks i t hvl hk
                rw [hk2]
                simp only
                exact ShapeList_set kids ks i t _ hvl hk (ih t k cin hvt)

/-- in a state of the right shape every node of the style tree has its state node -/
theorem nodeAt_of_shape : ∀ (path : List Nat) (t t' : STree α) (ns : NS α C), Shape t ns → subTree path t = some t' →
    ∃ n, nodeAt path t ns = some (t', n)
  | [], t, t', ns, _, h => by
    simp only [subTree, Option.some.injEq] at h
    subst h; exact ⟨ns, rfl⟩
  | i :: p, .node style ctx kids, t', .mk c l nk, hv, h => by
    simp only [subTree] at h
    cases hk : kids[i]? with
    | none => rw [hk] at h; cases h
    | some t =>
      rw [hk] at h
      simp only [Shape] at hv
      obtain ⟨k, hk2, hvt⟩ := ShapeList_get kids nk i t hv hk
      obtain ⟨n, hn⟩ := nodeAt_of_shape p t t' k hvt h
      exact ⟨n, by simp only [nodeAt, hk, hk2]; exact hn⟩

end

end C16
