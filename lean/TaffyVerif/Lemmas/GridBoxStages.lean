/-
  `GridModel.computeGridLayoutE` (Model/Grid.lean) cut into named stages, in continuation-passing form so that
  `computeGridLayoutE_eq` is `rfl` (no re-association of binds).  Nothing new is defined about grid.

    gridSetupK      steps 2–5, `resolve_item_track_indexes`, the crossing flags (no interaction with the tree)
    gridSizing      the first run of track sizing for each axis, the container size, the early exit for ComputeSize
    gridRerunK      step 7 (re-resolution of percentage tracks, the conditional re-runs)
    gridFinish      steps 8–9: track alignment, item positioning, the hidden/absolute loop, baseline, output
-/
import TaffyVerif.Model.Grid

set_option linter.unusedSectionVars false

namespace GridStages
open GridModel GridTracks
variable {α : Type} [Num α] [NumCast α]

/-- what steps 2–5 hand to track sizing -/
structure Setup (α : Type) where
  items : List (GItem α)
  columns : List (GridTrack α)
  rows : List (GridTrack α)
  colCounts : GridPlacement.TrackCounts
  rowCounts : GridPlacement.TrackCounts

/-- the children that generate boxes and are not absolutely positioned, as inputs of the size estimate -/
def boxChildren (childStyles : List (GridChildStyle α)) : List GridPlacement.Child :=
  ((childStyles.filter fun cs => !cs.base.isHidden).filter fun cs => cs.base.position != .absolute).map fun cs =>
    ⟨cs.gridRow, cs.gridColumn⟩

omit [NumCast α] in
theorem boxChildren_nil : boxChildren ([] : List (GridChildStyle α)) = [] := rfl

omit [NumCast α] in
theorem boxChildren_cons (a : GridChildStyle α) (as : List (GridChildStyle α)) :
    boxChildren (a :: as) =
      if (!a.base.isHidden && a.base.position != .absolute) = true then ⟨a.gridRow, a.gridColumn⟩ :: boxChildren as
      else boxChildren as := by
  unfold boxChildren
  cases h1 : a.base.isHidden <;> cases h2 : (a.base.position != Position.absolute) <;>
    simp [List.filter_cons, h1, h2]

/-- the in-flow children with their indices -/
def inFlowChildren (childStyles : List (GridChildStyle α)) : List (Nat × GridPlacement.Child) :=
  ((GridPlacement.enumFrom 0 childStyles).filter fun ic =>
    !ic.2.base.isHidden && ic.2.base.position != .absolute).map fun ic => (ic.1, ⟨ic.2.gridRow, ic.2.gridColumn⟩)

/-- the grid item of a placed child -/
def mkItem (childStyles : List (GridChildStyle α)) (parentAlignItems parentJustifyItems : AlignItems)
    (p : GridPlacement.Item) : GItem α :=
  GItem.new p.index p.column p.row ((childStyles[p.index]?).map (·.base) |>.getD Style.default)
    parentAlignItems parentJustifyItems p.index

/-- steps 2–5 -/
def gridSetupK {β : Type} (style : GridStyle α) (childStyles : List (GridChildStyle α)) (c : Ctx α)
    (k : Setup α → GM α β) : GM α β := do
  let s := style.base
  let explicitColCount ← GM.ofExcept (computeExplicitGridSizeInAxis s.size.width s.maxSize.width s.gap.width
    style.gridTemplateColumns c.autoFitContainerSize.width)
  let explicitRowCount ← GM.ofExcept (computeExplicitGridSizeInAxis s.size.height s.maxSize.height s.gap.height
    style.gridTemplateRows c.autoFitContainerSize.height)
  let (estColCounts, estRowCounts) ←
    GM.ofOutcome (GridPlacement.computeGridSizeEstimate explicitColCount explicitRowCount (boxChildren childStyles))
  let matrix0 ← GM.ofOutcome (GridPlacement.Matrix.withTrackCounts estColCounts estRowCounts)
  let placed ← GM.ofOutcome (GridPlacement.placeGridItems GridPlacement.defaultFuel matrix0
    (inFlowChildren childStyles) style.gridAutoFlow)
  let matrix := placed.matrix
  let parentAlignItems := c.alignItems.getD .stretch
  let parentJustifyItems := c.justifyItems.getD .stretch
  let items : List (GItem α) := placed.items.reverse.map (mkItem childStyles parentAlignItems parentJustifyItems)
  let finalColCounts := matrix.columns
  let finalRowCounts := matrix.rows
  let columns ← GM.ofExcept (initializeGridTracks (toNatCounts finalColCounts) style.gridTemplateColumns
    style.gridAutoColumns s.gap.width (columnIsOccupied matrix))
  let rows ← GM.ofExcept (initializeGridTracks (toNatCounts finalRowCounts) style.gridTemplateRows
    style.gridAutoRows s.gap.height (rowIsOccupied matrix))
  let items ← GM.ofOutcome (resolveItemTrackIndexes items finalColCounts finalRowCounts)
  let items := determineCrossings items columns rows
  k { items, columns, rows, colCounts := finalColCounts, rowCounts := finalRowCounts }

def colArgs (c : Ctx α) (hasBaselineAlignedItem : Bool) : RunArgs α :=
  { axis := .inl, axisMinSize := c.minSize.width, axisMaxSize := c.maxSize.width,
    axisAlignment := c.justifyContent, otherAxisAlignment := c.alignContent,
    availableGridSpace := c.availableGridSpace, innerNodeSize := c.innerNodeSize, est := .maxFnDefinite,
    hasBaselineAlignedItem }

def rowArgs (c : Ctx α) (innerNodeSize : Size (Option α)) : RunArgs α :=
  { axis := .blk, axisMinSize := c.minSize.height, axisMaxSize := c.maxSize.height,
    axisAlignment := c.alignContent, otherAxisAlignment := c.justifyContent,
    availableGridSpace := c.availableGridSpace, innerNodeSize, est := .baseSize, hasBaselineAlignedItem := false }

def containerBorderBoxOf (c : Ctx α) (knownDimensions : Size (Option α)) (initialColumnSum initialRowSum : α) : Size α :=
  let resolvedStyleSize := knownDimensions.orOpt c.preferredSize
  ⟨Num.fmax (MaybeMath.fo_clamp (resolvedStyleSize.width.getD (initialColumnSum + c.contentBoxInset.horizontalAxisSum))
      c.minSize.width c.maxSize.width) c.paddingBorderSize.width,
   Num.fmax (MaybeMath.fo_clamp (resolvedStyleSize.height.getD (initialRowSum + c.contentBoxInset.verticalAxisSum))
      c.minSize.height c.maxSize.height) c.paddingBorderSize.height⟩

def containerContentBoxOf (c : Ctx α) (containerBorderBox : Size α) : Size α :=
  ⟨Num.fmax 0 (containerBorderBox.width - c.contentBoxInset.horizontalAxisSum),
   Num.fmax 0 (containerBorderBox.height - c.contentBoxInset.verticalAxisSum)⟩

/-- steps 8–9 -/
def gridFinish (c : Ctx α) (childStyles : List (GridChildStyle α)) (containerBorderBox containerContentBox : Size α)
    (colCounts rowCounts : GridPlacement.TrackCounts)
    (r : List (GridTrack α) × List (GridTrack α) × List (GItem α)) : GM α (LayoutOutput α) := do
  let columns := alignTracks containerContentBox.width c.padding.left c.border.left r.1 c.justifyContent
  let rows := alignTracks containerContentBox.height c.padding.top c.border.top r.2.1 c.alignContent
  let items := r.2.2.mergeSort fun a b => decide (a.sourceOrder ≤ b.sourceOrder)
  let (items, itemContentSize) ← positionItems childStyles rows columns c.justifyItems c.alignItems items 0 Size.zero
  let itemContentSize ← hiddenAbsLoop c containerBorderBox rows columns colCounts rowCounts childStyles 0
    items.length itemContentSize
  if items.isEmpty then pure (LayoutOutput.fromOuterSize containerBorderBox) else
  pure (LayoutOutput.fromSizesAndBaselines containerBorderBox itemContentSize ⟨none, some (gridContainerBaseline items)⟩)

/-- the re-run of the row sizing inside the column re-run -/
def gridRerunRows (c : Ctx α) (availableSpace : Size (AvailableSpace α)) (innerNodeSize : Size (Option α))
    (st : RunState α) : GM α (List (GridTrack α) × List (GridTrack α) × List (GItem α)) := do
  let columns := st.axisTracks
  let rows := st.otherAxisTracks
  let items := st.items
  let hasPercentageRow := rows.any (·.usesPercentage)
  let parentHeightIndefinite := !availableSpace.height.isDefinite
  let rerunRowSizing0 := parentHeightIndefinite && hasPercentageRow
  let (rerunRowSizing, items) ← (
    if !rerunRowSizing0 then minContentChanged .blk columns innerNodeSize items
    else pure (true, clearCaches .blk items) : GM α (Bool × List (GItem α)))
  if rerunRowSizing then do
    let st ← trackSizingAlgorithmM { rowArgs c innerNodeSize with innerNodeSize }
      { axisTracks := rows, otherAxisTracks := columns, items }
    pure (st.otherAxisTracks, st.axisTracks, st.items)
  else pure (columns, rows, items)

/-- the conditional re-run of the column sizing (with the row re-run inside) -/
def gridRerunBody (c : Ctx α) (availableSpace : Size (AvailableSpace α)) (hasBaselineAlignedItem : Bool)
    (innerNodeSize : Size (Option α)) (rerunColumnSizing : Bool)
    (columns rows : List (GridTrack α)) (items : List (GItem α)) :
    GM α (List (GridTrack α) × List (GridTrack α) × List (GItem α)) :=
  if rerunColumnSizing then do
    let st ← trackSizingAlgorithmM { colArgs c hasBaselineAlignedItem with innerNodeSize, est := .baseSize }
      { axisTracks := columns, otherAxisTracks := rows, items }
    gridRerunRows c availableSpace innerNodeSize st
  else pure (columns, rows, items)

/-- step 7, then `k` -/
def gridRerunK {β : Type} (c : Ctx α) (availableSpace : Size (AvailableSpace α)) (hasBaselineAlignedItem : Bool)
    (containerContentBox : Size α) (innerNodeSize : Size (Option α))
    (columns rows : List (GridTrack α)) (items : List (GItem α))
    (k : List (GridTrack α) × List (GridTrack α) × List (GItem α) → GM α β) : GM α β := do
  let columns :=
    if !c.availableGridSpace.width.isDefinite then reresolvePercentTracks containerContentBox.width columns else columns
  let rows :=
    if !c.availableGridSpace.height.isDefinite then reresolvePercentTracks containerContentBox.height rows else rows
  let hasPercentageColumn := columns.any (·.usesPercentage)
  let parentWidthIndefinite := !availableSpace.width.isDefinite
  let rerunColumnSizing0 := parentWidthIndefinite && hasPercentageColumn
  let (rerunColumnSizing, items) ← (
    if !rerunColumnSizing0 then minContentChanged .inl rows innerNodeSize items
    else pure (true, clearCaches .inl items) : GM α (Bool × List (GItem α)))
  gridRerunBody c availableSpace hasBaselineAlignedItem innerNodeSize rerunColumnSizing columns rows items >>= k

/-- after the two first runs: the container size, the ComputeSize exit, steps 7–9 -/
def gridAfterSizing (c : Ctx α) (childStyles : List (GridChildStyle α)) (inputs : LayoutInput α)
    (hasBaselineAlignedItem : Bool) (colCounts rowCounts : GridPlacement.TrackCounts) (innerNodeSize0 : Size (Option α))
    (initialColumnSum : α) (st : RunState α) : GM α (LayoutOutput α) :=
  let rows := st.axisTracks
  let columns := st.otherAxisTracks
  let items := st.items
  let initialRowSum : α := sumF (rows.map (·.baseSize))
  let innerNodeSize : Size (Option α) :=
    { innerNodeSize0 with height := innerNodeSize0.height.or (some initialRowSum) }
  let containerBorderBox := containerBorderBoxOf c inputs.knownDimensions initialColumnSum initialRowSum
  let containerContentBox := containerContentBoxOf c containerBorderBox
  if inputs.runMode == .computeSize then pure (LayoutOutput.fromOuterSize containerBorderBox) else
  gridRerunK c inputs.availableSpace hasBaselineAlignedItem containerContentBox innerNodeSize columns rows items
    (gridFinish c childStyles containerBorderBox containerContentBox colCounts rowCounts)

/-- step 6: the first run for each axis -/
def gridSizing (c : Ctx α) (childStyles : List (GridChildStyle α)) (inputs : LayoutInput α) (su : Setup α) :
    GM α (LayoutOutput α) := do
  let hasBaselineAlignedItem := su.items.any fun it => it.alignSelf == .baseline
  let st ← trackSizingAlgorithmM (colArgs c hasBaselineAlignedItem)
    { axisTracks := su.columns, otherAxisTracks := su.rows, items := su.items }
  let columns := st.axisTracks
  let rows := st.otherAxisTracks
  let items := st.items
  let initialColumnSum : α := sumF (columns.map (·.baseSize))
  let innerNodeSize : Size (Option α) :=
    { c.innerNodeSize with width := c.innerNodeSize.width.or (some initialColumnSum) }
  let items := items.map fun it => { it with availableSpaceCache := none }
  let st ← trackSizingAlgorithmM (rowArgs c innerNodeSize) { axisTracks := rows, otherAxisTracks := columns, items }
  gridAfterSizing c childStyles inputs hasBaselineAlignedItem su.colCounts su.rowCounts innerNodeSize initialColumnSum st

/-- **computeGridLayoutE_eq**: the stages compose to `compute_grid_layout` -/
theorem computeGridLayoutE_eq (style : GridStyle α) (childStyles : List (GridChildStyle α)) (inputs : LayoutInput α) :
    computeGridLayoutE style childStyles inputs =
      match inputs.runMode, (mkCtx style.base inputs).outerNodeSize.width,
          (mkCtx style.base inputs).outerNodeSize.height with
      | .computeSize, some width, some height => pure (LayoutOutput.fromOuterSize ⟨width, height⟩)
      | _, _, _ =>
        gridSetupK style childStyles (mkCtx style.base inputs)
          (gridSizing (mkCtx style.base inputs) childStyles inputs) := by
  rfl

end GridStages
