/-
  C03 (finiteness) — the flex program (`FlexModel.computeFlexboxLayout`, Model/Flex.lean = src/compute/flexbox.rs) at `ER`,
  part 1: records, constants, item generation, flex base size, line collection, container main size.

  `f32::INFINITY` as "no maximum" is an `Option` in the model (Model/Flex.lean header), so the only ways out of the finite
  numbers are the divisions; in this part: `diff / max(1, flex_grow)` (`fmax_one_ne_zero`) and
  `diff / scaled_shrink_factor` (under its guard `> 0`).  `isNegZero`'s `1 / x` only feeds a comparison.
-/
import TaffyVerif.Lemmas.FinProg
import TaffyVerif.Lemmas.FinBlock
import TaffyVerif.Lemmas.FinFlexLine
import TaffyVerif.Lemmas.FinAbsPos
import TaffyVerif.Model.Flex

namespace C03Fin
open FlexModel AbsPos

/-! ### geometry setters -/
section setters
variable {d : FlexDirection}

theorem fin_setMain {s : Size ER} {v : ER} (h : SFin s) (hv : IsFin v) : SFin (setMain s d v) := by
  unfold setMain; split
  · exact ⟨hv, h.2⟩
  · exact ⟨h.1, hv⟩
theorem fin_setCross {s : Size ER} {v : ER} (h : SFin s) (hv : IsFin v) : SFin (setCross s d v) := by
  unfold setCross; split
  · exact ⟨h.1, hv⟩
  · exact ⟨hv, h.2⟩
theorem fin_osetMain {s : Size (Option ER)} {v : Option ER} (h : SOFin s) (hv : OFin v) : SOFin (setMain s d v) := by
  unfold setMain; split
  · exact ⟨hv, h.2⟩
  · exact ⟨h.1, hv⟩
theorem fin_osetCross {s : Size (Option ER)} {v : Option ER} (h : SOFin s) (hv : OFin v) : SOFin (setCross s d v) := by
  unfold setCross; split
  · exact ⟨h.1, hv⟩
  · exact ⟨hv, h.2⟩
theorem fin_asetMain {s : Size (AvailableSpace ER)} {v : AvailableSpace ER} (h : SAvFin s) (hv : AvFin v) :
    SAvFin (setMain s d v) := by
  unfold setMain; split
  · exact ⟨hv, h.2⟩
  · exact ⟨h.1, hv⟩
theorem fin_asetCross {s : Size (AvailableSpace ER)} {v : AvailableSpace ER} (h : SAvFin s) (hv : AvFin v) :
    SAvFin (setCross s d v) := by
  unfold setCross; split
  · exact ⟨h.1, hv⟩
  · exact ⟨hv, h.2⟩
theorem fin_fromCross {v : Option ER} (hv : OFin v) : SOFin (fromCross d v) := fin_osetCross fin_size_none hv
theorem fin_setMainStart {r : Rect ER} {v : ER} (h : RFin r) (hv : IsFin v) : RFin (setMainStart r d v) := by
  unfold setMainStart; split
  · exact ⟨hv, h.r, h.t, h.b⟩
  · exact ⟨h.l, h.r, hv, h.b⟩
theorem fin_setMainEnd {r : Rect ER} {v : ER} (h : RFin r) (hv : IsFin v) : RFin (setMainEnd r d v) := by
  unfold setMainEnd; split
  · exact ⟨h.l, hv, h.t, h.b⟩
  · exact ⟨h.l, h.r, h.t, hv⟩
theorem fin_setCrossStart {r : Rect ER} {v : ER} (h : RFin r) (hv : IsFin v) : RFin (setCrossStart r d v) := by
  unfold setCrossStart; split
  · exact ⟨h.l, h.r, hv, h.b⟩
  · exact ⟨hv, h.r, h.t, h.b⟩
theorem fin_setCrossEnd {r : Rect ER} {v : ER} (h : RFin r) (hv : IsFin v) : RFin (setCrossEnd r d v) := by
  unfold setCrossEnd; split
  · exact ⟨h.l, h.r, h.t, hv⟩
  · exact ⟨h.l, hv, h.t, h.b⟩
theorem fin_asize_main {s : Size (AvailableSpace ER)} (h : SAvFin s) : AvFin (s.main d) := by
  unfold Size.main; split
  · exact h.1
  · exact h.2
theorem fin_asize_cross {s : Size (AvailableSpace ER)} (h : SAvFin s) : AvFin (s.cross d) := by
  unfold Size.cross; split
  · exact h.2
  · exact h.1
theorem fin_lpsize_main {s : Size (LP ER)} (h : SLPFin s) : LPFin (s.main d) := by
  unfold Size.main; split
  · exact h.1
  · exact h.2
end setters

/-- `max_by(total_cmp)` returns an element of the list -/
theorem fin_maxByTotalCmp {l : List ER} (h : ∀ x ∈ l, IsFin x) : OFin (maxByTotalCmp l) := by
  cases l with
  | nil => trivial
  | cons x rest =>
    show IsFin (rest.foldl (fun acc y => if totalGt acc y then acc else y) x)
    have hx := h x (List.mem_cons_self ..)
    have hr : ∀ y ∈ rest, IsFin y := fun y hy => h y (List.mem_cons_of_mem _ hy)
    clear h
    induction rest generalizing x with
    | nil => exact hx
    | cons y ys ih =>
      simp only [List.foldl_cons]
      refine ih _ ?_ (fun z hz => hr z (List.mem_cons_of_mem _ hz))
      exact fin_ite hx (hr y (List.mem_cons_self ..))

/-! ### predicates on the flex model's records -/

structure ItFin (i : FlexItem ER) : Prop where
  size : SOFin i.size
  minSize : SOFin i.minSize
  maxSize : SOFin i.maxSize
  scrollbarWidth : IsFin i.scrollbarWidth
  flexShrink : IsFin i.flexShrink
  flexGrow : IsFin i.flexGrow
  resolvedMinimumMainSize : IsFin i.resolvedMinimumMainSize
  inset : ROFin i.inset
  margin : RFin i.margin
  padding : RFin i.padding
  border : RFin i.border
  flexBasis : IsFin i.flexBasis
  innerFlexBasis : IsFin i.innerFlexBasis
  violation : IsFin i.violation
  contentFlexFraction : IsFin i.contentFlexFraction
  hypotheticalInnerSize : SFin i.hypotheticalInnerSize
  hypotheticalOuterSize : SFin i.hypotheticalOuterSize
  targetSize : SFin i.targetSize
  outerTargetSize : SFin i.outerTargetSize
  baseline : IsFin i.baseline
  offsetMain : IsFin i.offsetMain
  offsetCross : IsFin i.offsetCross

def ItsFin (l : List (FlexItem ER)) : Prop := ∀ i ∈ l, ItFin i

structure LineFin (l : FlexLineS ER) : Prop where
  items : ItsFin l.items
  crossSize : IsFin l.crossSize
  offsetCross : IsFin l.offsetCross

def LinesFin (ls : List (FlexLineS ER)) : Prop := ∀ l ∈ ls, LineFin l

structure KFin (k : AlgoConstants ER) : Prop where
  minSize : SOFin k.minSize
  maxSize : SOFin k.maxSize
  margin : RFin k.margin
  border : RFin k.border
  contentBoxInset : RFin k.contentBoxInset
  scrollbarGutter : PFin k.scrollbarGutter
  gap : SFin k.gap
  nodeOuterSize : SOFin k.nodeOuterSize
  nodeInnerSize : SOFin k.nodeInnerSize
  containerSize : SFin k.containerSize
  innerContainerSize : SFin k.innerContainerSize

theorem ItsFin.cons {i : FlexItem ER} {l : List (FlexItem ER)} (h1 : ItFin i) (h2 : ItsFin l) : ItsFin (i :: l) := by
  intro x hx
  rcases List.mem_cons.mp hx with rfl | hx
  · exact h1
  · exact h2 x hx
theorem ItsFin.head {i : FlexItem ER} {l : List (FlexItem ER)} (h : ItsFin (i :: l)) : ItFin i :=
  h i (List.mem_cons_self ..)
theorem ItsFin.tail {i : FlexItem ER} {l : List (FlexItem ER)} (h : ItsFin (i :: l)) : ItsFin l :=
  fun x hx => h x (List.mem_cons_of_mem _ hx)
theorem ItsFin.nil : ItsFin [] := fun _ h => absurd h (by simp)
theorem ItsFin.map {l : List (FlexItem ER)} {f : FlexItem ER → FlexItem ER} (h : ItsFin l)
    (hf : ∀ c, ItFin c → ItFin (f c)) : ItsFin (l.map f) := by
  intro c hc
  obtain ⟨y, hy, rfl⟩ := List.mem_map.mp hc
  exact hf y (h y hy)
theorem ItsFin.reverse {l : List (FlexItem ER)} (h : ItsFin l) : ItsFin l.reverse :=
  fun c hc => h c (List.mem_reverse.mp hc)
theorem LinesFin.cons {i : FlexLineS ER} {l : List (FlexLineS ER)} (h1 : LineFin i) (h2 : LinesFin l) :
    LinesFin (i :: l) := by
  intro x hx
  rcases List.mem_cons.mp hx with rfl | hx
  · exact h1
  · exact h2 x hx
theorem LinesFin.head {i : FlexLineS ER} {l : List (FlexLineS ER)} (h : LinesFin (i :: l)) : LineFin i :=
  h i (List.mem_cons_self ..)
theorem LinesFin.tail {i : FlexLineS ER} {l : List (FlexLineS ER)} (h : LinesFin (i :: l)) : LinesFin l :=
  fun x hx => h x (List.mem_cons_of_mem _ hx)
theorem LinesFin.nil : LinesFin [] := fun _ h => absurd h (by simp)
theorem LinesFin.map {l : List (FlexLineS ER)} {f : FlexLineS ER → FlexLineS ER} (h : LinesFin l)
    (hf : ∀ c, LineFin c → LineFin (f c)) : LinesFin (l.map f) := by
  intro c hc
  obtain ⟨y, hy, rfl⟩ := List.mem_map.mp hc
  exact hf y (h y hy)
theorem LinesFin.reverse {l : List (FlexLineS ER)} (h : LinesFin l) : LinesFin l.reverse :=
  fun c hc => h c (List.mem_reverse.mp hc)

/-! ### compute_flexbox_layout: styled_based_known_dimensions; compute_constants -/

theorem fin_flex_styledBasedKnownDimensions {style : Style ER} {inputs : LayoutInput ER} (hs : StyleFin style)
    (hi : InFin inputs) : SOFin (FlexModel.styledBasedKnownDimensions style inputs) := by
  have hp := fin_rectLPOrZero hs.padding hi.ps.1
  have hb := fin_rectLPOrZero hs.border hi.ps.1
  have hpb := fin_size_add (fin_sumAxes hp) (fin_sumAxes hb)
  have hadj := fin_boxSizingAdjustment (s := style) hpb
  have hmin := fin_resolveStyleSize hs.minSize hi.ps hs.aspectRatio hadj
  have hmax := fin_resolveStyleSize hs.maxSize hi.ps hs.aspectRatio hadj
  have hsz := fin_resolveStyleSize hs.size hi.ps hs.aspectRatio hadj
  unfold FlexModel.styledBasedKnownDimensions
  dsimp only
  refine fin_orOpt hi.kd (fin_size_of_max (fin_orOpt ?_ ?_) hpb)
  · have hw := hmin.1
    have hh := hmin.2
    refine ⟨?_, ?_⟩
    · dsimp only
      split
      · rename_i mn mx e1 e2; rw [e1] at hw; exact fin_oite hw trivial
      · trivial
    · dsimp only
      split
      · rename_i mn mx e1 e2; rw [e1] at hh; exact fin_oite hh trivial
      · trivial
  · split
    · exact fin_size_oo_clamp hsz hmin hmax
    · exact fin_size_none

theorem fin_computeConstants {style : Style ER} {kd ps : Size (Option ER)} (hs : StyleFin style) (hk : SOFin kd)
    (hps : SOFin ps) : KFin (computeConstants style kd ps) := by
  have hm := fin_rectLPAOrZero hs.margin hps.1
  have hp := fin_rectLPOrZero hs.padding hps.1
  have hb := fin_rectLPOrZero hs.border hps.1
  have hpbs := fin_size_add (fin_sumAxes hp) (fin_sumAxes hb)
  have hadj := fin_boxSizingAdjustment (s := style) hpbs
  have hg := fin_abs_scrollbarGutter hs
  have hpb := fin_rect_add hp hb
  have hcbi : RFin ({ (Resolve.rectLPOrZero style.padding ps.width).add (Resolve.rectLPOrZero style.border ps.width) with
      right := ((Resolve.rectLPOrZero style.padding ps.width).add (Resolve.rectLPOrZero style.border ps.width)).right +
        (AbsPos.scrollbarGutter style).x,
      bottom := ((Resolve.rectLPOrZero style.padding ps.width).add (Resolve.rectLPOrZero style.border ps.width)).bottom +
        (AbsPos.scrollbarGutter style).y } : Rect ER) :=
    ⟨hpb.l, fin_add hpb.r hg.1, hpb.t, fin_add hpb.b hg.2⟩
  have hinner := fin_size_of_sub hk (fin_sumAxes hcbi)
  exact
    { minSize := fin_resolveStyleSize hs.minSize hps hs.aspectRatio hadj
      maxSize := fin_resolveStyleSize hs.maxSize hps hs.aspectRatio hadj
      margin := hm, border := hb, contentBoxInset := hcbi, scrollbarGutter := hg
      gap := fin_sizeLPOrZero hs.gap (fin_orOpt hinner ⟨fin_zero, fin_zero⟩)
      nodeOuterSize := hk, nodeInnerSize := hinner, containerSize := fin_size_zero, innerContainerSize := fin_size_zero }

/-! ### generate_anonymous_flex_items -/

theorem fin_flex_generateItem {k : AlgoConstants ER} {idx : Nat} {cs : Style ER} (hk : KFin k) (hs : StyleFin cs) :
    ItFin (FlexModel.generateItem k idx cs) := by
  have hi := hk.nodeInnerSize
  have hp := fin_rectLPOrZero hs.padding hi.1
  have hb := fin_rectLPOrZero hs.border hi.1
  have hpb := fin_sumAxes (fin_rect_add hp hb)
  have hadj := fin_boxSizingAdjustment (s := cs) hpb
  exact
    { size := fin_resolveStyleSize hs.size hi hs.aspectRatio hadj
      minSize := fin_resolveStyleSize hs.minSize hi hs.aspectRatio hadj
      maxSize := fin_resolveStyleSize hs.maxSize hi hs.aspectRatio hadj
      scrollbarWidth := hs.scrollbarWidth, flexShrink := hs.flexShrink, flexGrow := hs.flexGrow
      resolvedMinimumMainSize := fin_zero
      inset := ⟨fin_LPA_maybeResolve hs.inset.1 hi.1, fin_LPA_maybeResolve hs.inset.2.1 hi.1,
        fin_LPA_maybeResolve hs.inset.2.2.1 hi.2, fin_LPA_maybeResolve hs.inset.2.2.2 hi.2⟩
      margin := fin_rectLPAOrZero hs.margin hi.1, padding := hp, border := hb
      flexBasis := fin_zero, innerFlexBasis := fin_zero, violation := fin_zero, contentFlexFraction := fin_zero
      hypotheticalInnerSize := fin_size_zero, hypotheticalOuterSize := fin_size_zero, targetSize := fin_size_zero
      outerTargetSize := fin_size_zero, baseline := fin_zero, offsetMain := fin_zero, offsetCross := fin_zero }

theorem fin_flex_generateItemsFrom {k : AlgoConstants ER} (hk : KFin k) :
    ∀ (l : List (Style ER)) (idx : Nat), StylesFin l → ItsFin (FlexModel.generateItemsFrom k l idx)
  | [], _, _ => ItsFin.nil
  | cs :: rest, idx, hl => by
    have hrest : StylesFin rest := fun s hs => hl s (List.mem_cons_of_mem _ hs)
    unfold FlexModel.generateItemsFrom
    split
    · exact fin_flex_generateItemsFrom hk rest _ hrest
    · exact ItsFin.cons (fin_flex_generateItem hk (hl cs (List.mem_cons_self ..)))
        (fin_flex_generateItemsFrom hk rest _ hrest)

/-! ### determine_available_space -/

theorem fin_determineAvailableSpace {kd : Size (Option ER)} {outer : Size (AvailableSpace ER)} {k : AlgoConstants ER}
    (hkd : SOFin kd) (ho : SAvFin outer) (hk : KFin k) : SAvFin (determineAvailableSpace kd outer k) := by
  unfold determineAvailableSpace
  refine ⟨?_, ?_⟩ <;> dsimp only <;> split
  · rename_i w e; exact fin_sub (OFin.of_some hkd.1 e) (fin_hsum hk.contentBoxInset)
  · exact fin_af_sub (fin_af_sub ho.1 (fin_hsum hk.margin)) (fin_hsum hk.contentBoxInset)
  · rename_i w e; exact fin_sub (OFin.of_some hkd.2 e) (fin_vsum hk.contentBoxInset)
  · exact fin_af_sub (fin_af_sub ho.2 (fin_vsum hk.margin)) (fin_vsum hk.contentBoxInset)

/-! ### determine_flex_base_size -/

theorem fin_childKnownDimensions {dir : FlexDirection} {item : FlexItem ER} {ca : AvailableSpace ER} (hi : ItFin item)
    (hc : AvFin ca) : SOFin (childKnownDimensions dir item ca) := by
  have h0 := fin_osetMain (d := dir) hi.size (v := none) trivial
  unfold childKnownDimensions
  dsimp only
  split
  · exact fin_osetCross h0 (fin_of_sub (fin_intoOption hc) (fin_crossAxisSum hi.margin))
  · exact h0

theorem fin_autoMin_main {dir : FlexDirection} {child : FlexItem ER} (hc : ItFin child) :
    OFin ((child.minSize.orOpt ⟨child.overflow.x.maybeIntoAutomaticMinSize,
      child.overflow.y.maybeIntoAutomaticMinSize⟩).main dir) :=
  fin_osize_main (fin_orOpt hc.minSize ⟨fin_autoMin, fin_autoMin⟩)

theorem FinP_flexBaseSizeItem {k : AlgoConstants ER} {av : Size (AvailableSpace ER)} {cs : Style ER}
    {child : FlexItem ER} (hk : KFin k) (hav : SAvFin av) (hs : StyleFin cs) (hc : ItFin child) :
    FinP ItFin (flexBaseSizeItem k av cs child) := by
  unfold flexBaseSizeItem
  extract_lets dir cps childPS cms cmin cmax ca ckn cw pad bor bsa fbs msz mainAv cav pbm pbas autoMin smms
  have hcps : OFin cps := fin_osize_cross hk.nodeInnerSize
  have hcms : IsFin cms := fin_crossAxisSum hk.margin
  have hmn : OFin cmin := fin_of_add (fin_osize_cross hc.minSize) hcms
  have hmx : OFin cmax := fin_of_add (fin_osize_cross hc.maxSize) hcms
  have hps0 : SOFin childPS := fin_fromCross hcps
  clear_value cps cms cmin cmax
  have hca : AvFin ca := by
    have hac : AvFin (av.cross dir) := fin_asize_cross hav
    unfold ca
    split
    · rename_i val e; rw [e] at hac; exact fin_fo_clamp (fin_getD hcps hac) hmn hmx
    · split
      · exact hmn
      · trivial
    · split
      · exact hmx
      · trivial
  have hps : SOFin childPS := hps0
  have hkn : SOFin ckn := fin_childKnownDimensions hc hca
  have hcw : OFin cw := fin_osize_main hk.nodeInnerSize
  have hbsa : IsFin bsa :=
    fin_size_main (fin_site (fin_sumAxes (fin_rect_add (fin_rectLPOrZero hs.padding hcw) (fin_rectLPOrZero hs.border hcw)))
      fin_size_zero)
  have hfbs : OFin fbs := fin_of_add (fin_LPA_maybeResolve hs.flexBasis hcw) hbsa
  have hmsz : OFin msz := fin_osize_main hc.size
  have hmainAv : AvFin mainAv := by unfold mainAv; split <;> trivial
  have hcav : SAvFin cav := fin_asetCross (fin_asetMain ⟨trivial, trivial⟩ hmainAv) hca
  have hpbm : IsFin pbm := fin_add (fin_mainAxisSum hc.padding) (fin_mainAxisSum hc.border)
  have hpbs : IsFin (pbas.main dir) := fin_size_main (fin_sumAxes (fin_rect_add hc.padding hc.border))
  have hsmms : OFin smms := fin_autoMin_main hc
  clear_value ca ckn childPS fbs msz cav smms
  refine FinP_bind (Q := IsFin) (fun fb hfb => ?_) ?_
  · dsimp only
    refine FinP_bind (Q := IsFin) (fun mc hmc => ?_)
      (FinP_measureChildSize hkn hps (fin_asetCross ⟨trivial, trivial⟩ hca))
    have hfb' := fin_fmax hfb hpbm
    have hcm := fin_fmax (fin_fo_min (fin_fo_min hmc (fin_osize_main (d := dir) hc.size))
      (fin_osize_main (d := dir) hc.maxSize)) hpbs
    have hres := fin_getD hsmms hcm
    have hhyp := fin_fo_clamp hfb' (mn := some _) (fin_fmax hres hpbs) (fin_osize_main (d := dir) hc.maxSize)
    refine FinP_pure ?_
    exact { hc with
      flexBasis := hfb'
      innerFlexBasis := fin_sub (fin_sub hfb' (fin_mainAxisSum hc.padding)) (fin_mainAxisSum hc.border)
      resolvedMinimumMainSize := hres
      hypotheticalInnerSize := fin_setMain hc.hypotheticalInnerSize hhyp
      hypotheticalOuterSize := fin_setMain hc.hypotheticalOuterSize (fin_add hhyp (fin_mainAxisSum hc.margin)) }
  · split
    · rename_i fb e; exact FinP_pure (OFin.of_some (fin_or hfbs hmsz) e)
    · exact FinP_measureChildSize hkn hps hcav

theorem FinP_determineFlexBaseSize {k : AlgoConstants ER} {av : Size (AvailableSpace ER)} {styleOf : Nat → Style ER}
    (hk : KFin k) (hav : SAvFin av) (hs : ∀ i, StyleFin (styleOf i)) :
    ∀ (items : List (FlexItem ER)), ItsFin items → FinP ItsFin (determineFlexBaseSize k av styleOf items)
  | [], _ => ItsFin.nil
  | child :: rest, h => by
    unfold determineFlexBaseSize
    refine FinP_bind (Q := ItFin) (fun c' hc' => ?_) (FinP_flexBaseSizeItem hk hav (hs _) h.head)
    refine FinP_bind (Q := ItsFin) (fun r hr => ?_) (FinP_determineFlexBaseSize hk hav hs rest h.tail)
    exact FinP_pure (ItsFin.cons hc' hr)

/-! ### collect_flex_lines -/

theorem fin_mkLine {items : List (FlexItem ER)} (h : ItsFin items) : LineFin (mkLine items) := ⟨h, fin_zero, fin_zero⟩

theorem fin_splitLines {dir : FlexDirection} {avail gap : ER} :
    ∀ (fuel : Nat) (items : List (FlexItem ER)), ItsFin items → LinesFin (splitLines dir avail gap fuel items)
  | 0, _, _ => by unfold splitLines; exact LinesFin.nil
  | fuel + 1, [], _ => by unfold splitLines; exact LinesFin.nil
  | fuel + 1, i :: is, h => by
    unfold splitLines
    dsimp only
    refine LinesFin.cons (fin_mkLine fun x hx => h x (List.mem_of_mem_take hx)) ?_
    exact fin_splitLines fuel _ fun x hx => h x (List.mem_of_mem_drop hx)

theorem fin_collectFlexLines {k : AlgoConstants ER} {av : Size (AvailableSpace ER)} {items : List (FlexItem ER)}
    (h : ItsFin items) : LinesFin (collectFlexLines k av items) := by
  have h1 : LinesFin [mkLine items] := LinesFin.cons (fin_mkLine h) LinesFin.nil
  unfold collectFlexLines
  split
  · exact h1
  · dsimp only
    split
    · exact h1
    · intro l hl
      obtain ⟨i, hi, rfl⟩ := List.mem_map.mp hl
      exact fin_mkLine (ItsFin.cons (h i hi) ItsFin.nil)
    · exact fin_splitLines _ _ h

/-! ### determine_container_main_size -/

theorem fin_longestLineLength {k : AlgoConstants ER} {lines : List (FlexLineS ER)} (hk : KFin k) (hl : LinesFin lines) :
    IsFin (longestLineLength k lines) := by
  unfold longestLineLength
  dsimp only
  refine fin_getD (fin_maxByTotalCmp fun x hx => ?_) fin_zero
  obtain ⟨line, hline, rfl⟩ := List.mem_map.mp hx
  refine fin_add (fin_sumF_map fun c hc => ?_) (fin_sumAxisGaps _ (fin_size_main hk.gap))
  have hci := (hl line hline).items c hc
  exact fin_fmax (fin_add (fin_fo_max hci.flexBasis (fin_osize_main hci.minSize)) (fin_mainAxisSum hci.margin))
    (fin_mainAxisSum (fin_rect_add hci.padding hci.border))

/-- `content_flex_fraction`: `diff / max(1, grow)`, `diff / scaled_shrink_factor` (guarded) -/
theorem fin_contentFlexFraction {diff g sh ifb : ER} (hd : IsFin diff) (hg : IsFin g) (hsh : IsFin sh) (hifb : IsFin ifb) :
    IsFin (if Num.fgt diff 0 then diff / Num.fmax 1 g
      else if Num.flt diff 0 then
        (if Num.fgt (Num.fmax 1 sh * ifb) 0 then diff / (Num.fmax 1 sh * ifb) else 0)
      else 0) := by
  refine fin_ite (fin_div hd (fin_fmax fin_one hg) (fmax_one_ne_zero hg)) (fin_ite ?_ fin_zero)
  exact fin_ite' (fun h => fin_div hd (fin_mul (fin_fmax fin_one hsh) hifb) (ne_zero_of_fgt h)) (fun _ => fin_zero)

theorem FinP_intrinsicItem {k : AlgoConstants ER} {av : Size (AvailableSpace ER)} {mcbi : ER} {item : FlexItem ER}
    (hk : KFin k) (hav : SAvFin av) (hm : IsFin mcbi) (hi : ItFin item) :
    FinP ItFin (intrinsicItem k av mcbi item) := by
  unfold intrinsicItem
  extract_lets dir smin spref smax cb fbmin fbmax minMain maxMain ms maxLeMin arm1 cps cms cmin cmax ca0 ca cav ckn ssf
  have hsmin : OFin smin := fin_osize_main hi.minSize
  have hspref : OFin spref := fin_osize_main hi.size
  have hsmax : OFin smax := fin_osize_main hi.maxSize
  have hcb : OFin cb := fin_oo_max (l := some item.flexBasis) hi.flexBasis hspref
  have hfbmin : OFin fbmin := fin_oite hcb trivial
  have hfbmax : OFin fbmax := fin_oite hcb trivial
  have hminMain : IsFin minMain :=
    fin_fmax (fin_getD (fin_or (fin_oo_max hsmin hfbmin) hfbmin) hi.resolvedMinimumMainSize) hi.resolvedMinimumMainSize
  have hmaxMain : OFin maxMain := fin_or (fin_oo_min hsmax hfbmax) hfbmax
  have hms : IsFin ms := fin_mainAxisSum hi.margin
  clear_value spref maxMain minMain ms smin smax
  have harm1 : OFin arm1 := by
    unfold arm1
    split
    · exact fin_oite (fin_add (fin_fmax (fin_fmin hspref hmaxMain) hminMain) hms) trivial
    · trivial
  clear_value arm1 maxLeMin
  refine FinP_bind (Q := IsFin) (fun cc hcc => ?_) ?_
  · refine FinP_pure { hi with contentFlexFraction := ?_ }
    exact fin_contentFlexFraction (fin_sub hcc hi.flexBasis) hi.flexGrow hi.flexShrink hi.innerFlexBasis
  · split
    · exact FinP_pure harm1
    · split
      · exact FinP_pure (fin_add hminMain hms)
      · split
        · exact FinP_pure (fin_add hi.flexBasis hms)
        · have hcps : OFin cps := fin_osize_cross hk.nodeInnerSize
          have hcms : IsFin cms := fin_crossAxisSum hk.margin
          have hmn : OFin cmin := fin_of_add (fin_osize_cross hi.minSize) hcms
          have hmx : OFin cmax := fin_of_add (fin_osize_cross hi.maxSize) hcms
          clear_value cps
          have hca0 : AvFin ca0 := by
            have hac : AvFin (av.cross dir) := fin_asize_cross hav
            unfold ca0
            split
            · rename_i val e; rw [e] at hac; exact fin_getD hcps hac
            · exact hac
          have hca : AvFin ca := fin_ao_clamp hca0 hmn hmx
          have hcav : SAvFin cav := fin_asetCross hav hca
          have hkn : SOFin ckn := fin_childKnownDimensions hi hca
          refine FinP_bind (Q := IsFin) (fun m hmm => ?_) (FinP_measureChildSize hkn hk.nodeInnerSize hcav)
          dsimp only
          split
          · exact FinP_pure (fin_fmax (fin_fo_clamp (fin_add hmm hms) hsmin hsmax) hm)
          · exact FinP_pure (fin_fmax (fin_fo_clamp (fin_fmax (fin_add hmm hms) hi.flexBasis) hsmin hsmax) hm)

theorem FinP_intrinsicItems {k : AlgoConstants ER} {av : Size (AvailableSpace ER)} {mcbi : ER}
    (hk : KFin k) (hav : SAvFin av) (hm : IsFin mcbi) :
    ∀ (items : List (FlexItem ER)), ItsFin items → FinP ItsFin (intrinsicItems k av mcbi items)
  | [], _ => ItsFin.nil
  | item :: rest, h => by
    unfold intrinsicItems
    refine FinP_bind (Q := ItFin) (fun c' hc' => ?_) (FinP_intrinsicItem hk hav hm h.head)
    refine FinP_bind (Q := ItsFin) (fun r hr => ?_) (FinP_intrinsicItems hk hav hm rest h.tail)
    exact FinP_pure (ItsFin.cons hc' hr)

theorem fin_intrinsicTarget {dir : FlexDirection} {item : FlexItem ER} (hi : ItFin item) :
    ItFin (intrinsicTarget dir item).1 ∧ IsFin (intrinsicTarget dir item).2 := by
  have hsz : IsFin (item.flexBasis +
      (if Num.fgt item.contentFlexFraction 0 then Num.fmax 1 item.flexGrow * item.contentFlexFraction
       else if Num.flt item.contentFlexFraction 0 then
        (Num.fmax 1 item.flexShrink * item.innerFlexBasis) * item.contentFlexFraction
       else 0)) :=
    fin_add hi.flexBasis (fin_ite (fin_mul (fin_fmax fin_one hi.flexGrow) hi.contentFlexFraction)
      (fin_ite (fin_mul (fin_mul (fin_fmax fin_one hi.flexShrink) hi.innerFlexBasis) hi.contentFlexFraction) fin_zero))
  unfold intrinsicTarget
  dsimp only
  exact ⟨{ hi with outerTargetSize := fin_setMain hi.outerTargetSize hsz, targetSize := fin_setMain hi.targetSize hsz },
    hsz⟩

theorem FinP_intrinsicLines {k : AlgoConstants ER} {av : Size (AvailableSpace ER)} {mcbi : ER}
    (hk : KFin k) (hav : SAvFin av) (hm : IsFin mcbi) :
    ∀ (lines : List (FlexLineS ER)) (ms : ER), LinesFin lines → IsFin ms →
      FinP (fun r => LinesFin r.1 ∧ IsFin r.2) (intrinsicLines k av mcbi lines ms)
  | [], _, h, hms => ⟨h, hms⟩
  | line :: rest, ms, h, hms => by
    unfold intrinsicLines
    refine FinP_bind (Q := ItsFin) (fun items hitems => ?_) (FinP_intrinsicItems hk hav hm _ h.head.items)
    dsimp only
    have hts1 : ItsFin ((items.map (intrinsicTarget k.dir)).map (·.1)) := by
      intro x hx
      obtain ⟨y, hy, rfl⟩ := List.mem_map.mp hx
      obtain ⟨z, hz, rfl⟩ := List.mem_map.mp hy
      exact (fin_intrinsicTarget (hitems z hz)).1
    have hsum : IsFin (FlexLine.sumF ((items.map (intrinsicTarget k.dir)).map (·.2))) := by
      refine fin_sumF_map fun y hy => ?_
      obtain ⟨z, hz, rfl⟩ := List.mem_map.mp hy
      exact (fin_intrinsicTarget (hitems z hz)).2
    refine FinP_bind (Q := fun r => LinesFin r.1 ∧ IsFin r.2) (fun r hr => ?_)
      (FinP_intrinsicLines hk hav hm rest _ h.tail
        (fin_fmax hms (fin_add hsum (fin_sumAxisGaps _ (fin_size_main hk.gap)))))
    exact FinP_pure ⟨LinesFin.cons ⟨hts1, h.head.crossSize, h.head.offsetCross⟩ hr.1, hr.2⟩

theorem FinP_determineContainerMainSize {k : AlgoConstants ER} {av : Size (AvailableSpace ER)}
    {lines : List (FlexLineS ER)} (hk : KFin k) (hav : SAvFin av) (hl : LinesFin lines) :
    FinP (fun r => LinesFin r.1 ∧ KFin r.2) (determineContainerMainSize k av lines) := by
  have hm := fin_mainAxisSum (d := k.dir) hk.contentBoxInset
  have hll := fin_add (fin_longestLineLength hk hl) hm
  unfold determineContainerMainSize
  dsimp only
  refine FinP_bind (Q := fun r => LinesFin r.1 ∧ IsFin r.2) (fun r hr => ?_) ?_
  · have houter := fin_fmax (fin_fo_clamp hr.2 (fin_osize_main (d := k.dir) hk.minSize)
      (fin_osize_main (d := k.dir) hk.maxSize)) (fin_sub hm (fin_pMain (d := k.dir) hk.scrollbarGutter))
    have hinner := fin_fmax (fin_sub houter hm) fin_zero
    refine FinP_pure ⟨hr.1, { hk with containerSize := fin_setMain hk.containerSize houter,
                                       innerContainerSize := fin_setMain hk.innerContainerSize hinner,
                                       nodeInnerSize := fin_osetMain hk.nodeInnerSize (v := some _) hinner }⟩
  · split
    · rename_i v e; exact FinP_pure ⟨hl, OFin.of_some (fin_osize_main (d := k.dir) hk.nodeOuterSize) e⟩
    · have hintr : FinP (fun r : List (FlexLineS ER) × ER => LinesFin r.1 ∧ IsFin r.2)
          (intrinsicLines k av (k.contentBoxInset.mainAxisSum k.dir) lines 0 >>= fun r => pure (r.1, r.2 +
            k.contentBoxInset.mainAxisSum k.dir)) :=
        FinP_bind (Q := fun r => LinesFin r.1 ∧ IsFin r.2) (fun r hr => FinP_pure ⟨hr.1, fin_add hr.2 hm⟩)
          (FinP_intrinsicLines hk hav hm lines 0 hl fin_zero)
      split
      · rename_i a e
        have ha : IsFin a := by have := fin_asize_main (d := k.dir) hav; rw [e] at this; exact this
        exact FinP_pure ⟨hl, fin_ite (fin_fmax hll ha) hll⟩
      · split
        · exact FinP_pure ⟨hl, hll⟩
        · exact hintr
      · exact hintr

end C03Fin
