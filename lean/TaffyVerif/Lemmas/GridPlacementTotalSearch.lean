/-
  Helper lemmas about Model/GridPlacement.lean, part 9 (towards `placement_total`): the three search loops and the two
  auto-placement functions under the size bound.  The quantitative termination argument: an area starting at or after
  the implicit end line of an axis is unoccupied, so every search stops at the latest one step past the current end of
  the grid; hence all lines stay within `K + L + 1` when the counts are within `K` and the spans within `L`.
-/
import TaffyVerif.Lemmas.GridPlacementTotalMatrix

set_option linter.unusedSimpArgs false
set_option linter.unusedVariables false

namespace GridPlacement
open Outcome

/-! ### the loops -/

/-- loop of `place_definite_secondary_axis_item`, started inside the implicit grid (or at its end line) -/
theorem wp_searchSecondary {m : Matrix} {K L : Int} (bd : Bd m K) (hL1 : 1 ≤ L) (hKL : K + 2 * L + 2 ≤ 16000)
    (ax : Axis) {pl : Line Placement} (hpl : OzB L pl) (hdef : isDefiniteOz pl = false) {sec : Line Int}
    (hsec : AB sec) :
    ∀ (fuel : Nat) (pos : Int), -(m.trackCounts ax).negativeImplicit ≤ pos →
      pos ≤ (m.trackCounts ax).explicit + (m.trackCounts ax).positiveImplicit →
      WP (searchSecondary m ax pl sec fuel pos) (fun ps =>
        ps.2 = sec ∧ pos ≤ ps.1.start ∧
        ps.1.start ≤ (m.trackCounts ax).explicit + (m.trackCounts ax).positiveImplicit ∧
        ps.1.start < ps.1.«end» ∧ ps.1.«end» ≤ ps.1.start + L) := by
  obtain ⟨x1, x2, x3, x4, x5⟩ := bd.ax ax
  intro fuel
  induction fuel with
  | zero => intro pos _ _; unfold searchSecondary; exact trivial
  | succ n ih =>
    intro pos h1 h2
    unfold searchSecondary
    refine wp_bind_ok (wp_resolveIndefinite hpl hL1 (by omega) hdef (by omega) (by omega)) ?_
    rintro prim - ⟨q1, q2, q3, -⟩
    refine wp_bind_ok (wp_lineArea bd (by omega) ax (p := prim) ⟨by omega, by omega, by omega, by omega⟩ hsec) ?_
    intro fits _ hfits
    cases fits
    · simp only [Bool.false_eq_true, ↓reduceIte]
      have hlt : pos < (m.trackCounts ax).explicit + (m.trackCounts ax).positiveImplicit := by
        by_cases hge : (m.trackCounts ax).explicit + (m.trackCounts ax).positiveImplicit ≤ pos
        · have := hfits (.inl (by omega)); cases this
        · omega
      refine wp_bind_ok (wp_ozAdd (by omega) (by omega) (by omega) (by omega)) ?_
      rintro _ - rfl
      refine wp_mono (ih (pos + 1) (by omega) (by omega)) ?_
      rintro ⟨p, s⟩ - ⟨a1, a2, a3, a4, a5⟩
      exact ⟨a1, by dsimp only at a2 ⊢; omega, a3, a4, a5⟩
    · simp only [↓reduceIte]
      refine wp_pure ⟨rfl, ?_, ?_, ?_, ?_⟩ <;> dsimp only <;> omega

/-- first loop of `place_indefinitely_positioned_item`: stops at the latest at `M`, any line at or after the
secondary axis' implicit end line -/
theorem wp_searchFixedPrimary {m : Matrix} {K L : Int} (bd : Bd m K) (hL1 : 1 ≤ L) (hKL : K + 2 * L + 2 ≤ 16000)
    (ax : Axis) {prim : Line Int} (hprim : AB prim) {sspan : Int} (hs1 : 1 ≤ sspan) (hs2 : sspan ≤ L) (M : Int)
    (hM : (m.trackCounts ax.other).explicit + (m.trackCounts ax.other).positiveImplicit ≤ M) (hM2 : M ≤ K + 1) :
    ∀ (fuel : Nat) (sidx : Int), -(m.trackCounts ax.other).negativeImplicit ≤ sidx → sidx ≤ M →
      WP (searchFixedPrimary m ax prim sspan fuel sidx) (fun ps =>
        ps.1 = prim ∧ sidx ≤ ps.2.start ∧ ps.2.start ≤ M ∧ ps.2.«end» = ps.2.start + sspan) := by
  obtain ⟨x1, x2, x3, x4, x5⟩ := bd.ax ax.other
  intro fuel
  induction fuel with
  | zero => intro sidx _ _; unfold searchFixedPrimary; exact trivial
  | succ n ih =>
    intro sidx h1 h2
    unfold searchFixedPrimary
    refine wp_bind_ok (wp_ozAdd (by omega) (by omega) (by omega) (by omega)) ?_
    rintro _ - rfl
    refine wp_bind_ok (wp_lineArea bd (by omega) ax (s := ⟨sidx, sidx + sspan⟩) hprim
      ⟨by dsimp only; omega, by dsimp only; omega, by dsimp only; omega, by dsimp only; omega⟩) ?_
    intro free _ hfree
    cases free
    · simp only [Bool.not_false, ↓reduceIte]
      have hlt : sidx < M := by
        by_cases hge : (m.trackCounts ax.other).explicit + (m.trackCounts ax.other).positiveImplicit ≤ sidx
        · have := hfree (.inr hge); cases this
        · omega
      refine wp_bind_ok (wp_ozAdd (by omega) (by omega) (by omega) (by omega)) ?_
      rintro _ - rfl
      refine wp_mono (ih (sidx + 1) (by omega) (by omega)) ?_
      rintro ⟨p, s⟩ - ⟨a1, a2, a3, a4⟩
      exact ⟨a1, by dsimp only at a2 ⊢; omega, a3, a4⟩
    · simp only [Bool.not_true, Bool.false_eq_true, ↓reduceIte]
      refine wp_pure ⟨rfl, ?_, ?_, ?_⟩ <;> dsimp only <;> omega

/-- second loop of `place_indefinitely_positioned_item`.  `M` is any line after the secondary axis' implicit end line;
at the latest in row `M`, at the primary start line, the area is free and fits (the span is at most the number of
primary tracks — what the span part of the grid size estimate is for). -/
theorem wp_searchBoth {m : Matrix} {K L : Int} (bd : Bd m K) (hL1 : 1 ≤ L) (hKL : K + 2 * L + 2 ≤ 16000)
    (ax : Axis) {pspan sspan : Int} (hp1 : 1 ≤ pspan) (hp2 : pspan ≤ L)
    (hpT : pspan ≤ (m.trackCounts ax).negativeImplicit + (m.trackCounts ax).explicit +
      (m.trackCounts ax).positiveImplicit)
    (hs1 : 1 ≤ sspan) (hs2 : sspan ≤ L) (M P : Int)
    (hM : (m.trackCounts ax.other).explicit + (m.trackCounts ax.other).positiveImplicit ≤ M) (hM2 : M ≤ K + 1)
    (hP : (m.trackCounts ax).explicit + (m.trackCounts ax).positiveImplicit ≤ P) (hP2 : P ≤ K + L) :
    ∀ (fuel : Nat) (pi si : Int), -(m.trackCounts ax).negativeImplicit ≤ pi → pi ≤ P →
      -(m.trackCounts ax.other).negativeImplicit ≤ si →
      (si < M ∨ (si = M ∧ pi = -(m.trackCounts ax).negativeImplicit)) →
      WP (searchBoth m ax pspan sspan (-(m.trackCounts ax).negativeImplicit)
          ((m.trackCounts ax).explicit + (m.trackCounts ax).positiveImplicit) fuel pi si) (fun ps =>
        -(m.trackCounts ax).negativeImplicit ≤ ps.1.start ∧ ps.1.«end» = ps.1.start + pspan ∧
        ps.1.«end» ≤ (m.trackCounts ax).explicit + (m.trackCounts ax).positiveImplicit ∧
        si ≤ ps.2.start ∧ ps.2.start ≤ M ∧ ps.2.«end» = ps.2.start + sspan) := by
  obtain ⟨x1, x2, x3, x4, x5⟩ := bd.ax ax
  obtain ⟨y1, y2, y3, y4, y5⟩ := bd.ax ax.other
  intro fuel
  induction fuel with
  | zero => intro pi si _ _ _ _; unfold searchBoth; exact trivial
  | succ n ih =>
    intro pi si h1 h2 h3 h4
    unfold searchBoth
    refine wp_bind_ok (wp_ozAdd (by omega) (by omega) (by omega) (by omega)) ?_
    rintro _ - rfl
    refine wp_bind_ok (wp_ozAdd (by omega) (by omega) (by omega) (by omega)) ?_
    rintro _ - rfl
    dsimp only
    split
    · rename_i hgt
      have hlt : si < M := by omega
      refine wp_bind_ok (wp_ozAdd (by omega) (by omega) (by omega) (by omega)) ?_
      rintro _ - rfl
      refine wp_mono (ih _ (si + 1) (by omega) (by omega) (by omega) (by omega)) ?_
      rintro ⟨p, s⟩ - ⟨a1, a2, a3, a4, a5, a6⟩
      exact ⟨a1, a2, a3, by dsimp only at a4 ⊢; omega, a5, a6⟩
    · rename_i hle
      refine wp_bind_ok (wp_lineArea bd (by omega) ax (p := ⟨pi, pi + pspan⟩) (s := ⟨si, si + sspan⟩)
        ⟨by dsimp only; omega, by dsimp only; omega, by dsimp only; omega, by dsimp only; omega⟩
        ⟨by dsimp only; omega, by dsimp only; omega, by dsimp only; omega, by dsimp only; omega⟩) ?_
      intro free _ hfree
      cases free
      · simp only [Bool.not_false, ↓reduceIte]
        have hlt : si < M := by
          by_cases hge : (m.trackCounts ax.other).explicit + (m.trackCounts ax.other).positiveImplicit ≤ si
          · have := hfree (.inr hge); cases this
          · omega
        refine wp_bind_ok (wp_ozAdd (by omega) (by omega) (by omega) (by omega)) ?_
        rintro _ - rfl
        exact ih (pi + 1) si (by omega) (by omega) h3 (.inl hlt)
      · simp only [Bool.not_true, Bool.false_eq_true, ↓reduceIte]
        refine wp_pure ⟨?_, ?_, ?_, ?_, ?_, ?_⟩ <;> dsimp only <;> omega

/-! ### what is known about a child's placement in one axis -/

/-- the placement is within the bound `L`; if definite, its area lies inside the tracks `t`; if indefinite, its span
is at most the number of tracks `t` (the three things the grid size estimate guarantees) -/
structure AxOK (t : TrackCounts) (L : Int) (oz : Line Placement) : Prop where
  bound : OzB L oz
  covers : ∀ a, resolveDefiniteGridLines oz = .ok a → InRangeAx t a
  span : isDefiniteOz oz = false → ∀ s, indefiniteSpan oz = .ok s → s ≤ t.total

theorem AxOK.mono {t t' : TrackCounts} {L : Int} {oz : Line Placement} (g : Grows t t') (h : AxOK t L oz) :
    AxOK t' L oz := by
  refine ⟨h.bound, fun a ha => (h.covers a ha).mono g, fun hd s hs => ?_⟩
  have := h.span hd s hs
  obtain ⟨g1, g2, g3⟩ := g
  unfold TrackCounts.total at *
  omega

/-- an area acceptable to `record_grid_placement` under the bound: non-empty, not before the implicit grid,
ends within `K + L + 1` -/
structure AreaOK (m : Matrix) (ax : Axis) (K L : Int) (p s : Line Int) : Prop where
  p0 : -(m.trackCounts ax).negativeImplicit ≤ p.start
  p1 : p.start < p.«end»
  p2 : p.«end» ≤ K + L + 1
  s0 : -(m.trackCounts ax.other).negativeImplicit ≤ s.start
  s1 : s.start < s.«end»
  s2 : s.«end» ≤ K + L + 1

/-- a definite placement covered by the tracks resolves without failure to an area inside them -/
theorem wp_resolveCovered {t : TrackCounts} {L : Int} {oz : Line Placement} (h : AxOK t L oz) (hL1 : 1 ≤ L)
    (hL : L ≤ 8000) (hd : isDefiniteOz oz = true) :
    WP (resolveDefiniteGridLines oz) (fun a => a.start < a.«end» ∧ InRangeAx t a) := by
  refine wp_mono (wp_resolveDefinite h.bound hL1 hL hd) ?_
  rintro a ha ⟨_, q, _⟩
  exact ⟨q, h.covers a ha⟩

/-! ### `place_definite_secondary_axis_item` -/

theorem wp_placeDefiniteSecondary {m : Matrix} {K L : Int} (bd : Bd m K) (pr : Proper m) (hL1 : 1 ≤ L)
    (hKL : K + 2 * L + 2 ≤ 16000) (fuel : Nat) (c : OzChild) (flow : AutoFlow)
    (hp : AxOK (m.trackCounts flow.primaryAxis) L (c.get flow.primaryAxis))
    (hs : AxOK (m.trackCounts flow.primaryAxis.other) L (c.get flow.primaryAxis.other))
    (hpd : isDefiniteOz (c.get flow.primaryAxis) = false)
    (hsd : isDefiniteOz (c.get flow.primaryAxis.other) = true) :
    WP (placeDefiniteSecondaryAxisItem fuel m c flow) (fun ps => AreaOK m flow.primaryAxis K L ps.1 ps.2) := by
  obtain ⟨x1, x2, x3, x4, x5⟩ := bd.ax flow.primaryAxis
  obtain ⟨y1, y2, y3, y4, y5⟩ := bd.ax flow.primaryAxis.other
  unfold placeDefiniteSecondaryAxisItem
  dsimp only
  refine wp_bind_ok (wp_resolveCovered hs hL1 (by omega) hsd) ?_
  rintro sec - ⟨s1, s0, s2⟩
  refine wp_bind_ok (wp_implicitStartLine (bd.ax flow.primaryAxis) (by omega)) ?_
  rintro _ - rfl
  refine wp_bind_ok (Q := fun starting => -(m.trackCounts flow.primaryAxis).negativeImplicit ≤ starting ∧
    starting ≤ (m.trackCounts flow.primaryAxis).explicit + (m.trackCounts flow.primaryAxis).positiveImplicit) ?_ ?_
  · split
    · exact wp_pure ⟨by omega, by omega⟩
    · refine wp_bind_ok (wp_lastOfType bd (by omega) pr flow.primaryAxis sec.start .autoPlaced s0 (by omega)) ?_
      intro l _ hl
      refine wp_pure ?_
      cases l with
      | none => exact ⟨by simp only [Option.getD_none]; omega, by simp only [Option.getD_none]; omega⟩
      | some v =>
        have := hl v rfl
        simp only [Option.getD_some]; omega
  · rintro starting - ⟨t1, t2⟩
    refine wp_mono (wp_searchSecondary bd hL1 hKL flow.primaryAxis hp.bound hpd (sec := sec)
      ⟨by omega, by omega, by omega, by omega⟩ fuel starting t1 t2) ?_
    rintro ⟨p, s⟩ - ⟨a1, a2, a3, a4, a5⟩
    dsimp only at a1 a2 a3 a4 a5 ⊢
    subst a1
    exact ⟨by omega, a4, by omega, s0, s1, by omega⟩

/-! ### `place_indefinitely_positioned_item` -/

/-- the auto-placement cursor of phase 4 is inside the bound -/
structure PosOK (m : Matrix) (ax : Axis) (K : Int) (pos : Int × Int) : Prop where
  p0 : -(m.trackCounts ax).negativeImplicit ≤ pos.1
  p1 : pos.1 ≤ K
  s0 : -(m.trackCounts ax.other).negativeImplicit ≤ pos.2
  s1 : pos.2 ≤ K

theorem wp_placeIndefinitely {m : Matrix} {K L : Int} (bd : Bd m K) (hL1 : 1 ≤ L)
    (hKL : K + 2 * L + 2 ≤ 16000) (fuel : Nat) (c : OzChild) (flow : AutoFlow) (pos : Int × Int)
    (hpos : PosOK m flow.primaryAxis K pos)
    (hp : AxOK (m.trackCounts flow.primaryAxis) L (c.get flow.primaryAxis))
    (hs : AxOK (m.trackCounts flow.primaryAxis.other) L (c.get flow.primaryAxis.other))
    (hsd : isDefiniteOz (c.get flow.primaryAxis.other) = false) :
    WP (placeIndefinitelyPositionedItem fuel m c flow pos) (fun ps =>
      AreaOK m flow.primaryAxis K L ps.1 ps.2 ∧ ps.1.«end» ≤ K ∧ ps.2.start ≤ K + 1) := by
  obtain ⟨x1, x2, x3, x4, x5⟩ := bd.ax flow.primaryAxis
  obtain ⟨y1, y2, y3, y4, y5⟩ := bd.ax flow.primaryAxis.other
  obtain ⟨pi, si⟩ := pos
  obtain ⟨z1, z2, z3, z4⟩ := hpos
  dsimp only at z1 z2 z3 z4
  unfold placeIndefinitelyPositionedItem
  dsimp only
  refine wp_bind_ok (wp_indefiniteSpan hs.bound hL1 hsd) ?_
  rintro sspan - ⟨ss1, ss2⟩
  refine wp_bind_ok (wp_implicitStartLine (bd.ax flow.primaryAxis) (by omega)) ?_
  rintro _ - rfl
  refine wp_bind_ok (wp_implicitEndLine (bd.ax flow.primaryAxis) (by omega)) ?_
  rintro _ - rfl
  refine wp_bind_ok (wp_implicitStartLine (bd.ax flow.primaryAxis.other) (by omega)) ?_
  rintro _ - rfl
  split
  · rename_i hdef
    refine wp_bind_ok (wp_resolveCovered hp hL1 (by omega) hdef) ?_
    rintro prim - ⟨q1, q0, q2⟩
    refine wp_bind_ok (Q := fun sidx => -(m.trackCounts flow.primaryAxis.other).negativeImplicit ≤ sidx ∧
      sidx ≤ K + 1) ?_ ?_
    · split
      · exact wp_pure ⟨by omega, by omega⟩
      · split
        · refine wp_mono (wp_ozAdd (by omega) (by omega) (by omega) (by omega)) ?_
          rintro _ - rfl; omega
        · exact wp_pure ⟨z3, by omega⟩
    · rintro sidx - ⟨t1, t2⟩
      refine wp_mono (wp_searchFixedPrimary bd hL1 hKL flow.primaryAxis (prim := prim)
        ⟨by omega, by omega, by omega, by omega⟩ ss1 ss2 (K + 1) (by omega) (by omega) fuel sidx t1 t2) ?_
      rintro ⟨p, s⟩ - ⟨a1, a2, a3, a4⟩
      dsimp only at a1 a2 a3 a4 ⊢
      subst a1
      exact ⟨⟨q0, q1, by omega, by omega, by omega, by omega⟩, by omega, a3⟩
  · rename_i hdef
    have hdef' : isDefiniteOz (c.get flow.primaryAxis) = false := by simpa using hdef
    refine wp_bind_ok (wp_and (wp_indefiniteSpan hp.bound hL1 hdef')
      (wp_of_np (P := fun s => indefiniteSpan (c.get flow.primaryAxis) = .ok s)
        ⟨fun msg h => by
          have := wp_indefiniteSpan hp.bound hL1 hdef'
          rw [h] at this; exact this⟩
        (wp_indefiniteSpan hp.bound hL1 hdef').no_overflow (fun a h => h))) ?_
    rintro pspan - ⟨⟨ps1, ps2⟩, hspan⟩
    have hT := hp.span hdef' pspan hspan
    unfold TrackCounts.total at hT
    refine wp_mono (wp_searchBoth bd hL1 hKL flow.primaryAxis ps1 ps2 hT ss1 ss2 (K + 1) (K + L)
      (by omega) (by omega) (by omega) (by omega) fuel pi si z1 (by omega) z3 (.inl (by omega))) ?_
    rintro ⟨p, s⟩ - ⟨a1, a2, a3, a4, a5, a6⟩
    dsimp only at a1 a2 a3 a4 a5 a6 ⊢
    exact ⟨⟨a1, by omega, by omega, by omega, by omega, by omega⟩, by omega, a5⟩

/-! ### `record_grid_placement` -/

theorem wp_record {st : State} {K L : Int} (bd : Bd st.matrix K) (hL1 : 1 ≤ L) (hKL : K + 2 * L + 2 ≤ 16000)
    (idx : Nat) (hidx : idx ≤ 65535) (ax : Axis) {p s : Line Int} {kind : Cell} (hk : kind ≠ .unoccupied)
    (area : AreaOK st.matrix ax K L p s) :
    WP (recordGridPlacement st idx ax p s kind) (fun st' =>
      Bd st'.matrix (K + L + 1) ∧ Grows st.matrix.columns st'.matrix.columns ∧
      Grows st.matrix.rows st'.matrix.rows) := by
  obtain ⟨x1, x2, x3, x4, x5⟩ := bd.ax ax
  obtain ⟨y1, y2, y3, y4, y5⟩ := bd.ax ax.other
  obtain ⟨a1, a2, a3, a4, a5, a6⟩ := area
  unfold recordGridPlacement
  have hmark : WP (st.matrix.markAreaAs ax p s kind) (fun m' =>
      Bd m' (K + L + 1) ∧ Grows st.matrix.columns m'.columns ∧ Grows st.matrix.rows m'.rows) := by
    have h := fun hc hc1 hcb hr hr1 hrb =>
      wp_markAreaAs (m := st.matrix) (K := K) bd (by omega) (ax := ax) (p := p) (s := s) (v := kind) hk
        hc hc1 hcb hr hr1 hrb
    cases ax
    all_goals
      simp only [colOf, rowOf, Matrix.trackCounts, Axis.other] at h a1 a4 x1 x2 x3 x4 x5 y1 y2 y3 y4 y5
      refine wp_mono (h (by omega) (by omega) ⟨by omega, by omega, by omega, by omega⟩ (by omega) (by omega)
        ⟨by omega, by omega, by omega, by omega⟩) ?_
      rintro m' - ⟨b1, b2, b3⟩
      exact ⟨b1.mono (by omega), b2, b3⟩
  refine wp_bind_ok hmark ?_
  rintro m' - ⟨b1, b2, b3⟩
  refine wp_bind_ok (wp_u16 (by omega) (by omega)) ?_
  rintro _ - rfl
  exact wp_pure ⟨b1, b2, b3⟩

end GridPlacement
